/-
Helper lemmas for C18 (monitor model M6): Python-dict lemmas, the per-name view of
the monitor state, the per-name refinement ("cache stack + owner" vs "definers, most
recent first"), locality of the scan loops, and the simulation between `scan` and
`specScan`.
-/
import KmipModel.MonitorSpec
namespace Kmip.Mon

/-! ### dict lemmas -/
section Dict
variable {κ ν : Type} [DecidableEq κ]

theorem dget_dset (d : List (κ × ν)) (k k' : κ) (v : ν) :
    dget (dset d k v) k' = if k = k' then some v else dget d k' := by
  induction d with
  | nil => simp [dset, dget]
  | cons e r ih =>
    obtain ⟨a, b⟩ := e
    by_cases hak : a = k
    · subst hak
      by_cases h2 : a = k' <;> simp [dset, dget, h2]
    · by_cases h2 : a = k'
      · subst h2
        have : ¬ k = a := fun h => hak h.symm
        simp [dset, dget, hak, this]
      · simp [dset, dget, hak, h2, ih]

theorem dget_dpop (d : List (κ × ν)) (k k' : κ) :
    dget (dpop d k) k' = if k = k' then none else dget d k' := by
  induction d with
  | nil => simp [dpop, dget]
  | cons e r ih =>
    obtain ⟨a, b⟩ := e
    simp only [dpop] at ih ⊢
    by_cases hak : a = k
    · subst hak
      by_cases h2 : a = k'
      · subst h2; simpa [List.filter_cons, dget] using ih
      · simpa [List.filter_cons, dget, h2] using ih
    · by_cases h2 : a = k'
      · subst h2
        have : ¬ k = a := fun h => hak h.symm
        simp [dget, hak, this]
      · simpa [List.filter_cons, dget, hak, h2] using ih

theorem dget_none_iff (d : List (κ × ν)) (k : κ) : dget d k = none ↔ k ∉ dkeys d := by
  induction d with
  | nil => simp [dget, dkeys]
  | cons e r ih =>
    obtain ⟨a, b⟩ := e
    by_cases h : a = k
    · subst h; simp [dget, dkeys]
    · have h' : ¬ k = a := fun x => h x.symm
      simp only [dkeys] at ih
      simp [dget, dkeys, h, h', ih]

theorem dget_some_mem (d : List (κ × ν)) (k : κ) (v : ν) (h : dget d k = some v) : (k, v) ∈ d := by
  induction d with
  | nil => simp [dget] at h
  | cons e r ih =>
    obtain ⟨a, b⟩ := e
    by_cases hak : a = k
    · subst hak; simp [dget] at h; subst h; simp
    · simp [dget, hak] at h; exact List.mem_cons_of_mem _ (ih h)

theorem dget_of_mem_nodup (d : List (κ × ν)) (k : κ) (v : ν) (hn : (dkeys d).Nodup) (h : (k, v) ∈ d) :
    dget d k = some v := by
  induction d with
  | nil => simp at h
  | cons e r ih =>
    obtain ⟨a, b⟩ := e
    simp only [dkeys, List.map_cons, List.nodup_cons] at hn
    rcases List.mem_cons.mp h with h | h
    · cases h; simp [dget]
    · have : a ≠ k := by
        intro hak; subst hak
        exact hn.1 (List.mem_map.mpr ⟨(a, v), h, rfl⟩)
      simp [dget, this]; exact ih hn.2 h

theorem dkeys_dset (d : List (κ × ν)) (k : κ) (v : ν) :
    dkeys (dset d k v) = if k ∈ dkeys d then dkeys d else dkeys d ++ [k] := by
  induction d with
  | nil => simp [dset, dkeys]
  | cons e r ih =>
    obtain ⟨a, b⟩ := e
    simp only [dkeys] at ih
    by_cases hak : a = k
    · subst hak; simp [dset, dkeys]
    · have h' : ¬ k = a := fun x => hak x.symm
      simp only [dset, hak, if_false, dkeys, List.map_cons, List.mem_cons, h', false_or, ih]
      split <;> simp_all

theorem nodup_dkeys_dset (d : List (κ × ν)) (k : κ) (v : ν) (h : (dkeys d).Nodup) : (dkeys (dset d k v)).Nodup := by
  rw [dkeys_dset]
  split
  · exact h
  · rename_i hk
    exact List.nodup_append.mpr ⟨h, by simp, by intro a ha b hb; simp at hb; subst hb; intro e; subst e; exact hk ha⟩

theorem nodup_dkeys_dpop (d : List (κ × ν)) (k : κ) (h : (dkeys d).Nodup) : (dkeys (dpop d k)).Nodup := by
  simp only [dkeys, dpop] at h ⊢
  exact (List.filter_sublist.map _).nodup h

theorem mem_dkeys_dpop (d : List (κ × ν)) (k k' : κ) : k' ∈ dkeys (dpop d k) ↔ k' ∈ dkeys d ∧ k' ≠ k := by
  simp only [dkeys, dpop, List.mem_map, List.mem_filter]
  constructor
  · rintro ⟨e, ⟨he, hk⟩, rfl⟩; exact ⟨⟨e, he, rfl⟩, by simpa using hk⟩
  · rintro ⟨⟨e, he, rfl⟩, hk⟩; exact ⟨e, ⟨he, by simpa using hk⟩, rfl⟩

theorem mem_dkeys_dset (d : List (κ × ν)) (k k' : κ) (v : ν) : k' ∈ dkeys (dset d k v) ↔ k' ∈ dkeys d ∨ k' = k := by
  rw [dkeys_dset]
  split
  · rename_i h; constructor
    · exact Or.inl
    · rintro (h' | rfl); exact h'; exact h
  · simp

end Dict

/-! ### the per-name view of the monitor state -/

/-- what the monitor holds for one policy name: (store entry, owner in policy_map, cache stack) -/
abbrev Tri := Option PolId × Option File × Option (List CacheEntry)

def tri (s : MonState) (p : Name) : Tri := (dget s.store p, dget s.map p, dget s.cache p)

/-- the files' definitions recorded in a cache stack, top first, only the topmost entry of each file -/
def tops : List CacheEntry → List (File × PolId)
  | [] => []
  | e :: r => (e.file, e.pol) :: (tops r).filter (fun x => decide (x.1 ≠ e.file))

theorem filter_ne_comm {α} (l : List α) (p q : α → Bool) : (l.filter p).filter q = (l.filter q).filter p := by
  rw [List.filter_filter, List.filter_filter]
  congr 1; funext x; exact Bool.and_comm _ _

theorem filter_idem {α} (l : List α) (p : α → Bool) : (l.filter p).filter p = l.filter p := by
  rw [List.filter_filter]; congr 1; funext x; exact Bool.and_self _

theorem tops_filter (st : List CacheEntry) (g : File) :
    tops (st.filter (fun e => decide (e.file ≠ g))) = (tops st).filter (fun x => decide (x.1 ≠ g)) := by
  induction st with
  | nil => rfl
  | cons e r ih =>
    by_cases h : e.file = g
    · have h1 : decide (e.file ≠ g) = false := by simp [h]
      rw [List.filter_cons, if_neg (by simp [h1])]
      rw [ih]
      simp only [tops]
      rw [List.filter_cons, if_neg (by simp [h])]
      rw [h, filter_idem]
    · have h1 : decide (e.file ≠ g) = true := by simp [h]
      rw [List.filter_cons, if_pos h1]
      simp only [tops]
      rw [List.filter_cons, if_pos (by simpa using h)]
      rw [ih, filter_ne_comm]

/-- `disassociate_policy_and_file` seen from one name -/
def disT (f : File) (t : Tri) : Tri := (t.1, t.2.1, t.2.2.map (fun c => c.filter (fun e => decide (e.file ≠ f))))

/-- `restore_or_delete_policy` seen from one name -/
def rodT (t : Tri) : Tri :=
  match t.2.2 with
  | some (e :: r) => (some e.pol, some e.file, some r)
  | _ => (none, none, none)

/-- a file disappeared (l.86-91) -/
def nrm (f : File) (t : Tri) : Tri :=
  let t1 := disT f t
  if t1.2.1 = some f then rodT t1 else t1

/-- l.114-126 would raise (None.append) or leave the typed model -/
def bodyFails (f : File) (t : Tri) : Bool :=
  t.1.isSome && decide (t.2.1 ≠ some f) && (t.2.2.isNone || t.2.1.isNone)

/-- a file was loaded and defines the name (l.114-130) -/
def bodyT (f : File) (pol : PolId) (t : Tri) : Tri :=
  match t.1 with
  | some old =>
    if t.2.1 = some f then (some pol, some f, t.2.2)
    else
      match t.2.2, t.2.1 with
      | some c, some o => (some pol, some f, some (⟨o, old⟩ :: c))
      | _, _ => t
  | none => (some pol, some f, some [])

/-- **per-name refinement relation**: the name is absent everywhere and no file defines it, or the
store holds the most recent definer's definition, `policy_map` names that file, and the cache stack
read top-down (one entry per file, the owner's own stale entries ignored) lists exactly the other
definers, most recently loaded first. -/
def NRel (t : Tri) (L : List (File × PolId)) : Prop :=
  match t with
  | (none, none, none) => L = []
  | (some pol, some o, some st) => L = (o, pol) :: tops (st.filter (fun e => decide (e.file ≠ o)))
  | _ => False

theorem nrel_absent {L} : NRel (none, none, none) L ↔ L = [] := Iff.rfl

theorem tops_owner_free (st : List CacheEntry) (o : File) :
    (tops (st.filter (fun e => decide (e.file ≠ o)))).filter (fun x => decide (x.1 ≠ o))
      = tops (st.filter (fun e => decide (e.file ≠ o))) := by
  rw [tops_filter, filter_idem]

theorem nrm_owner (f : File) (pol : PolId) (stk : List CacheEntry) :
    nrm f (some pol, some f, some stk) = rodT (some pol, some f, some (stk.filter (fun e => decide (e.file ≠ f)))) := by
  simp [nrm, disT]

theorem nrm_other (f o : File) (pol : PolId) (stk : List CacheEntry) (h : o ≠ f) :
    nrm f (some pol, some o, some stk) = (some pol, some o, some (stk.filter (fun e => decide (e.file ≠ f)))) := by
  simp [nrm, disT, h]

theorem nrel_pop_owner (o : File) (pol : PolId) (stk : List CacheEntry) :
    NRel (rodT (some pol, some o, some (stk.filter (fun e => decide (e.file ≠ o)))))
      (tops (stk.filter (fun e => decide (e.file ≠ o)))) := by
  cases hst : stk.filter (fun e => decide (e.file ≠ o)) with
  | nil => simp [rodT, NRel, tops]
  | cons e r =>
    simp only [rodT, NRel, tops]
    rw [tops_filter]

/-- removal of a file -/
theorem nrel_rm (f : File) (t : Tri) (L : List (File × PolId)) (h : NRel t L) :
    NRel (nrm f t) (L.filter (fun x => decide (x.1 ≠ f))) := by
  obtain ⟨st, mp, ca⟩ := t
  cases st <;> cases mp <;> cases ca <;> simp only [NRel] at h <;> try exact h.elim
  · subst h; simp [nrm, disT, NRel]
  · rename_i pol o stk
    subst h
    by_cases hof : o = f
    · subst hof
      rw [nrm_owner, List.filter_cons, if_neg (by simp), tops_owner_free]
      exact nrel_pop_owner o pol stk
    · rw [nrm_other f o pol stk hof]
      simp only [NRel]
      rw [List.filter_cons, if_pos (by simpa using hof)]
      simp only [tops_filter]
      rw [filter_ne_comm]

/-- a file was loaded and defines the name: no exception, and it becomes the most recent definer -/
theorem nrel_load (f : File) (d : PolId) (t : Tri) (L : List (File × PolId)) (h : NRel t L) :
    bodyFails f t = false ∧ NRel (bodyT f d t) ((f, d) :: L.filter (fun x => decide (x.1 ≠ f))) := by
  obtain ⟨st, mp, ca⟩ := t
  cases st <;> cases mp <;> cases ca <;> simp only [NRel] at h <;> try exact h.elim
  · subst h; simp [bodyFails, bodyT, NRel, tops]
  · rename_i pol o stk
    subst h
    by_cases hof : o = f
    · subst hof
      refine ⟨by simp [bodyFails], ?_⟩
      simp only [bodyT, if_true, NRel]
      rw [List.filter_cons, if_neg (by simp), tops_owner_free]
    · have hne : ¬ (some o = some f) := by simpa using hof
      refine ⟨by simp [bodyFails], ?_⟩
      have hb : bodyT f d (some pol, some o, some stk) = (some d, some f, some (⟨o, pol⟩ :: stk)) := by
        simp [bodyT, hof]
      rw [hb]
      simp only [NRel]
      rw [List.filter_cons, if_pos (by simpa using hof), List.filter_cons, if_pos (by simpa using hof)]
      simp only [tops, tops_filter]
      rw [filter_ne_comm]

/-! ### the monitor's primitives seen from one name -/

theorem tri_disassociate (s : MonState) (q p : Name) (f : File) :
    tri (disassociate s q f) p = if q = p then disT f (tri s p) else tri s p := by
  unfold disassociate
  cases h : dget s.cache q with
  | none =>
    by_cases hq : q = p
    · subst hq; simp [tri, disT, h]
    · simp [hq]
  | some c =>
    by_cases hq : q = p
    · subst hq; simp [tri, disT, h, dget_dset]
    · simp [tri, hq, dget_dset]

theorem tri_restoreOrDelete (s : MonState) (q p : Name) :
    tri (restoreOrDelete s q) p = if q = p then rodT (tri s p) else tri s p := by
  unfold restoreOrDelete
  by_cases hq : q = p
  · subst hq
    cases h : dget s.cache q with
    | none => simp [tri, rodT, h, dget_dpop]
    | some c =>
      cases c with
      | nil => simp [tri, rodT, h, dget_dpop]
      | cons e r => simp [tri, rodT, h, dget_dset]
  · cases h : dget s.cache q with
    | none => simp [tri, hq, dget_dpop]
    | some c =>
      cases c with
      | nil => simp [tri, hq, dget_dpop]
      | cons e r => simp [tri, hq, dget_dset]

/-- the parts of the state a per-name action leaves alone -/
structure SameFrame (s s' : MonState) : Prop where
  ts : s'.timestamps = s.timestamps
  files : s'.files = s.files

theorem SameFrame.refl (s : MonState) : SameFrame s s := ⟨rfl, rfl⟩
theorem SameFrame.trans {a b c : MonState} (h1 : SameFrame a b) (h2 : SameFrame b c) : SameFrame a c :=
  ⟨h2.ts.trans h1.ts, h2.files.trans h1.files⟩

theorem frame_disassociate (s : MonState) (q : Name) (f : File) :
    SameFrame s (disassociate s q f) ∧ (disassociate s q f).map = s.map ∧ (disassociate s q f).store = s.store := by
  unfold disassociate
  cases dget s.cache q <;> exact ⟨⟨rfl, rfl⟩, rfl, rfl⟩

theorem frame_restoreOrDelete (s : MonState) (q : Name) :
    SameFrame s (restoreOrDelete s q) ∧ ((dkeys s.map).Nodup → (dkeys (restoreOrDelete s q).map).Nodup) := by
  unfold restoreOrDelete
  cases h : dget s.cache q with
  | none => exact ⟨⟨rfl, rfl⟩, nodup_dkeys_dpop _ _⟩
  | some c =>
    cases c with
    | nil => exact ⟨⟨rfl, rfl⟩, nodup_dkeys_dpop _ _⟩
    | cons e r => exact ⟨⟨rfl, rfl⟩, nodup_dkeys_dset _ _ _⟩

/-! ### loops whose body acts on one name -/

/-- a loop over distinct names whose body changes only its own name's view -/
theorem foldl_tri (act : MonState → Name → MonState) (g : Tri → Tri)
    (hact : ∀ s q p, tri (act s q) p = if q = p then g (tri s p) else tri s p) :
    ∀ (l : List Name) (s : MonState) (p : Name), l.Nodup →
      tri (l.foldl act s) p = if p ∈ l then g (tri s p) else tri s p := by
  intro l
  induction l with
  | nil => intro s p _; simp
  | cons q r ih =>
    intro s p hn
    rw [List.nodup_cons] at hn
    rw [List.foldl_cons, ih (act s q) p hn.2, hact]
    by_cases hq : q = p
    · subst hq; simp [hn.1]
    · have : ¬ p = q := fun h => hq h.symm
      simp [hq, this]

/-- the same for an idempotent body, names may repeat -/
theorem foldl_tri_idem (act : MonState → Name → MonState) (g : Tri → Tri) (hg : ∀ t, g (g t) = g t)
    (hact : ∀ s q p, tri (act s q) p = if q = p then g (tri s p) else tri s p) :
    ∀ (l : List Name) (s : MonState) (p : Name),
      tri (l.foldl act s) p = if p ∈ l then g (tri s p) else tri s p := by
  intro l
  induction l with
  | nil => intro s p; simp
  | cons q r ih =>
    intro s p
    rw [List.foldl_cons, ih (act s q) p, hact]
    by_cases hq : q = p
    · subst hq; simp [hg]
    · have : ¬ p = q := fun h => hq h.symm
      simp [hq, this]

theorem foldl_inv {α β} (P : α → Prop) (act : α → β → α) (hact : ∀ s q, P s → P (act s q)) :
    ∀ (l : List β) (s : α), P s → P (l.foldl act s) := by
  intro l
  induction l with
  | nil => intro s h; exact h
  | cons q r ih => intro s h; exact ih _ (hact s q h)

theorem mem_ownedBy (s : MonState) (f : File) (p : Name) (hn : (dkeys s.map).Nodup) :
    p ∈ ownedBy s f ↔ dget s.map p = some f := by
  simp only [ownedBy, List.mem_map, List.mem_filter]
  constructor
  · rintro ⟨⟨a, b⟩, ⟨hm, hb⟩, rfl⟩
    have : b = f := by simpa using hb
    subst this
    exact dget_of_mem_nodup _ _ _ hn hm
  · intro h
    exact ⟨(p, f), ⟨dget_some_mem _ _ _ h, by simp⟩, rfl⟩

theorem nodup_ownedBy (s : MonState) (f : File) (hn : (dkeys s.map).Nodup) : (ownedBy s f).Nodup := by
  simp only [ownedBy, dkeys] at hn ⊢
  exact (List.filter_sublist.map _).nodup hn

theorem disT_idem (f : File) (t : Tri) : disT f (disT f t) = disT f t := by
  obtain ⟨a, b, c⟩ := t
  cases c with
  | none => rfl
  | some c => simp [disT]

theorem disT_absent (f : File) (t : Tri) (h : t.2.2 = none) : disT f t = t := by
  obtain ⟨a, b, c⟩ := t
  simp at h; subst h; rfl

/-- the state after the disassociate loop of l.88-89 -/
theorem tri_disassociate_all (s : MonState) (f : File) (l : List Name) (p : Name) (hl : ∀ q, q ∈ dkeys s.cache → q ∈ l) :
    tri (l.foldl (fun s p => disassociate s p f) s) p = disT f (tri s p) := by
  rw [foldl_tri_idem (fun s p => disassociate s p f) (disT f) (disT_idem f) (fun s q p => tri_disassociate s q p f)]
  split
  · rfl
  · rename_i hp
    have : dget s.cache p = none := (dget_none_iff _ _).mpr (fun h => hp (hl p h))
    exact (disT_absent f _ this).symm

theorem frame_disassociate_all (s : MonState) (f : File) (l : List Name) :
    let s' := l.foldl (fun s p => disassociate s p f) s
    SameFrame s s' ∧ s'.map = s.map ∧ s'.store = s.store := by
  apply foldl_inv (fun s' => SameFrame s s' ∧ s'.map = s.map ∧ s'.store = s.store)
  · intro s' q ⟨h1, h2, h3⟩
    obtain ⟨g1, g2, g3⟩ := frame_disassociate s' q f
    exact ⟨h1.trans g1, g2.trans h2, g3.trans h3⟩
  · exact ⟨SameFrame.refl s, rfl, rfl⟩

theorem frame_restore_all (s : MonState) (l : List Name) :
    let s' := l.foldl restoreOrDelete s
    SameFrame s s' ∧ ((dkeys s.map).Nodup → (dkeys s'.map).Nodup) := by
  apply foldl_inv (fun s' => SameFrame s s' ∧ ((dkeys s.map).Nodup → (dkeys s'.map).Nodup))
  · intro s' q ⟨h1, h2⟩
    obtain ⟨g1, g2⟩ := frame_restoreOrDelete s' q
    exact ⟨h1.trans g1, fun h => g2 (h2 h)⟩
  · exact ⟨SameFrame.refl s, id⟩

/-- **a file disappears**, seen from one name -/
theorem tri_removeFile (s : MonState) (f : File) (p : Name) (hn : (dkeys s.map).Nodup) :
    tri (removeFile s f) p = nrm f (tri s p) := by
  unfold removeFile
  simp only
  generalize hs1 : ({ s with timestamps := dpop s.timestamps f } : MonState) = s1
  have h1 : ∀ q, tri s1 q = tri s q := by intro q; subst hs1; rfl
  have hc : s1.cache = s.cache := by subst hs1; rfl
  have hm1 : s1.map = s.map := by subst hs1; rfl
  generalize hs2 : (dkeys s.cache).foldl (fun s p => disassociate s p f) s1 = s2
  have h2 : ∀ q, tri s2 q = disT f (tri s q) := by
    intro q; rw [← hs2, tri_disassociate_all s1 f _ q (fun _ h => hc ▸ h), h1]
  have hm2 : s2.map = s.map := by
    rw [← hs2]; exact ((frame_disassociate_all s1 f _).2.1).trans hm1
  have hn2 : (dkeys s2.map).Nodup := by rw [hm2]; exact hn
  rw [foldl_tri restoreOrDelete rodT tri_restoreOrDelete _ s2 p (nodup_ownedBy s2 f hn2)]
  have hmem := mem_ownedBy s2 f p hn2
  rw [hm2] at hmem
  by_cases ho : dget s.map p = some f
  · rw [if_pos (hmem.mpr ho), h2]
    simp [nrm, disT, tri, ho]
  · rw [if_neg (fun h => ho (hmem.mp h)), h2]
    simp [nrm, disT, tri, ho]

theorem frame_removeFile (s : MonState) (f : File) :
    (removeFile s f).timestamps = dpop s.timestamps f ∧ (removeFile s f).files = s.files ∧
    ((dkeys s.map).Nodup → (dkeys (removeFile s f).map).Nodup) := by
  unfold removeFile
  simp only
  generalize hs1 : ({ s with timestamps := dpop s.timestamps f } : MonState) = s1
  obtain ⟨a1, a2, _⟩ := frame_disassociate_all s1 f (dkeys s.cache)
  generalize (dkeys s.cache).foldl (fun s p => disassociate s p f) s1 = s2 at a1 a2
  obtain ⟨b1, b2⟩ := frame_restore_all s2 (ownedBy s2 f)
  refine ⟨?_, ?_, ?_⟩
  · rw [b1.ts, a1.ts, ← hs1]
  · rw [b1.files, a1.files, ← hs1]
  · intro h; apply b2; rw [a2, ← hs1]; exact h

/-! ### loading a file -/

/-- everything `loadBody` can do -/
theorem loadBody_cases (R : List Name) (f : File) (s : MonState) (d : Name × PolId) :
    (∃ s', loadBody R f s d = .ok s' ∧ SameFrame s s' ∧ ((dkeys s.map).Nodup → (dkeys s'.map).Nodup) ∧
        (∀ p, tri s' p = if d.1 = p ∧ R.contains d.1 = false then bodyT f d.2 (tri s p) else tri s p) ∧
        (R.contains d.1 = false → bodyFails f (tri s d.1) = false)) ∨
    (∃ e, loadBody R f s d = .error (s, e) ∧ R.contains d.1 = false ∧ bodyFails f (tri s d.1) = true) := by
  obtain ⟨q, pol⟩ := d
  unfold loadBody
  simp only
  by_cases hR : R.contains q = true
  · left
    have hR2 : q ∈ R := by simpa using hR
    refine ⟨s, by rw [if_pos hR], SameFrame.refl s, id, ?_, by simp [hR2]⟩
    intro p; simp [hR2]
  · have hR' : R.contains q = false := by simpa using hR
    have hR2 : q ∉ R := by simpa using hR'
    rw [if_neg hR]
    cases hst : dget s.store q with
    | none =>
      left
      refine ⟨_, rfl, ⟨rfl, rfl⟩, nodup_dkeys_dset _ _ _, ?_, by intro _; simp [bodyFails, tri, hst]⟩
      intro p
      by_cases hq : q = p
      · subst hq; simp [tri, bodyT, hst, dget_dset, hR2]
      · simp [tri, hq, dget_dset]
    | some old =>
      simp only
      by_cases hown : dget s.map q = some f
      · left
        rw [if_pos hown]
        refine ⟨_, rfl, ⟨rfl, rfl⟩, nodup_dkeys_dset _ _ _, ?_, by intro _; simp [bodyFails, tri, hown]⟩
        intro p
        by_cases hq : q = p
        · subst hq; simp [tri, bodyT, hst, hown, dget_dset, hR2]
        · simp [tri, hq, dget_dset]
      · rw [if_neg hown]
        cases hca : dget s.cache q with
        | none =>
          right
          exact ⟨_, rfl, hR', by simp [bodyFails, tri, hst, hown, hca]⟩
        | some c =>
          cases hmp : dget s.map q with
          | none =>
            right
            exact ⟨_, rfl, hR', by simp [bodyFails, tri, hst, hmp, hca]⟩
          | some o =>
            left
            have hof : ¬ (some o = some f) := by rw [← hmp]; exact hown
            refine ⟨_, rfl, ⟨rfl, rfl⟩, nodup_dkeys_dset _ _ _, ?_, by intro _; simp [bodyFails, tri, hst, hmp, hca]⟩
            intro p
            by_cases hq : q = p
            · subst hq
              have hof' : ¬ o = f := by simpa using hof
              simp [tri, bodyT, hst, hmp, hca, dget_dset, hR2, hof']
            · simp [tri, hq, dget_dset]

/-- what loading `defs` from `f` does to one name's view -/
def loadT (R : List Name) (f : File) (defs : List (Name × PolId)) (p : Name) (t : Tri) : Tri :=
  match dget defs p with
  | some pol => if R.contains p then t else bodyT f pol t
  | none => t

/-- l.106-130 when no body raises -/
theorem loadLoop_ok (R : List Name) (f : File) :
    ∀ (defs : List (Name × PolId)) (s : MonState), (dkeys defs).Nodup →
      (∀ d ∈ defs, R.contains d.1 = false → bodyFails f (tri s d.1) = false) →
      ∃ s', defs.foldlM (loadBody R f) s = .ok s' ∧ SameFrame s s' ∧
        ((dkeys s.map).Nodup → (dkeys s'.map).Nodup) ∧ (∀ p, tri s' p = loadT R f defs p (tri s p)) := by
  intro defs
  induction defs with
  | nil => intro s _ _; exact ⟨s, rfl, SameFrame.refl s, id, fun p => by simp [loadT, dget]⟩
  | cons d r ih =>
    intro s hn hb
    simp only [dkeys, List.map_cons, List.nodup_cons] at hn
    rcases loadBody_cases R f s d with ⟨s1, h1, hf1, hn1, ht1, _⟩ | ⟨e, _, hr, hfail⟩
    · have hb1 : ∀ d' ∈ r, R.contains d'.1 = false → bodyFails f (tri s1 d'.1) = false := by
        intro d' hd' hr'
        have hne : ¬ (d.1 = d'.1) := by
          intro h; apply hn.1; rw [h]; exact List.mem_map.mpr ⟨d', hd', rfl⟩
        rw [ht1]; simp only [hne, false_and, if_false]
        exact hb d' (List.mem_cons_of_mem _ hd') hr'
      obtain ⟨s2, h2, hf2, hn2, ht2⟩ := ih s1 hn.2 hb1
      refine ⟨s2, ?_, hf1.trans hf2, fun h => hn2 (hn1 h), ?_⟩
      · rw [List.foldlM_cons, h1]; exact h2
      · intro p
        rw [ht2, ht1]
        obtain ⟨q, pol⟩ := d
        by_cases hq : q = p
        · subst hq
          have hnone : dget r q = none := (dget_none_iff _ _).mpr hn.1
          by_cases hR : R.contains q = true
          · simp [loadT, dget, hnone]
          · have hR' : R.contains q = false := by simpa using hR
            simp [loadT, dget, hnone]
        · simp [loadT, dget, hq]
    · have := hb d (List.mem_cons_self ..) hr
      rw [this] at hfail; cases hfail

/-- what a successful load of `defs` from `f` does to one name's view (l.99-133) -/
def fileT (R : List Name) (f : File) (defs : List (Name × PolId)) (p : Name) (t : Tri) : Tri :=
  match dget defs p with
  | some pol => if R.contains p then t else bodyT f pol t
  | none => nrm f t

/-- **a file is loaded**, seen from one name -/
theorem loadFile_ok (R : List Name) (s : MonState) (f : File) (defs : List (Name × PolId))
    (hn : (dkeys s.map).Nodup) (hd : (dkeys defs).Nodup)
    (hb : ∀ d ∈ defs, R.contains d.1 = false → bodyFails f (tri s d.1) = false) :
    ∃ s', loadFile R s f defs = .ok s' ∧ SameFrame s s' ∧ (dkeys s'.map).Nodup ∧
      ∀ p, tri s' p = fileT R f defs p (tri s p) := by
  obtain ⟨s1, h1, hf1, hn1, ht1⟩ := loadLoop_ok R f defs s hd hb
  unfold loadFile
  simp only [bind, Except.bind, h1, pure, Except.pure]
  -- the disassociate loop of l.135-137
  generalize hstale : (dkeys s1.cache).filter (fun p => !(dkeys defs).contains p) = stale
  obtain ⟨a1, a2, _⟩ := frame_disassociate_all s1 f stale
  have ht2 : ∀ p, tri (stale.foldl (fun s p => disassociate s p f) s1) p =
      if p ∈ dkeys defs then tri s1 p else disT f (tri s1 p) := by
    intro p
    rw [foldl_tri_idem (fun s p => disassociate s p f) (disT f) (disT_idem f) (fun s q p => tri_disassociate s q p f)]
    by_cases hin : p ∈ dkeys defs
    · rw [if_pos hin, if_neg]
      rw [← hstale, List.mem_filter]
      intro h; simp [hin] at h
    · rw [if_neg hin]
      by_cases hc : p ∈ dkeys s1.cache
      · rw [if_pos]; rw [← hstale, List.mem_filter]; exact ⟨hc, by simp [hin]⟩
      · rw [if_neg]
        · exact (disT_absent f _ ((dget_none_iff _ _).mpr hc)).symm
        · rw [← hstale, List.mem_filter]; exact fun h => hc h.1
  generalize stale.foldl (fun s p => disassociate s p f) s1 = s2 at a1 a2 ht2 ⊢
  have hn2 : (dkeys s2.map).Nodup := by rw [a2]; exact hn1 hn
  obtain ⟨b1, b2⟩ := frame_restore_all s2 ((ownedBy s f).filter (fun p => !(dkeys defs).contains p))
  refine ⟨_, rfl, (hf1.trans a1).trans b1, b2 hn2, ?_⟩
  intro p
  have hgn : ((ownedBy s f).filter (fun p => !(dkeys defs).contains p)).Nodup :=
    List.filter_sublist.nodup (nodup_ownedBy s f hn)
  rw [foldl_tri restoreOrDelete rodT tri_restoreOrDelete _ s2 p hgn]
  have hmem : p ∈ (ownedBy s f).filter (fun p => !(dkeys defs).contains p) ↔
      dget s.map p = some f ∧ p ∉ dkeys defs := by
    rw [List.mem_filter, mem_ownedBy s f p hn]; simp
  cases hdp : dget defs p with
  | some pol =>
    have hin : p ∈ dkeys defs :=
      Classical.byContradiction (fun h => by rw [(dget_none_iff _ _).mpr h] at hdp; cases hdp)
    rw [if_neg (fun h => (hmem.mp h).2 hin), ht2, if_pos hin, ht1]
    simp [fileT, loadT, hdp]
  | none =>
    have hnot : p ∉ dkeys defs := (dget_none_iff _ _).mp hdp
    have h1p : tri s1 p = tri s p := by rw [ht1]; simp [loadT, hdp]
    by_cases ho : dget s.map p = some f
    · rw [if_pos (hmem.mpr ⟨ho, hnot⟩), ht2, if_neg hnot, h1p]
      simp [fileT, hdp, nrm, disT, tri, ho]
    · rw [if_neg (fun h => ho (hmem.mp h).1), ht2, if_neg hnot, h1p]
      simp [fileT, hdp, nrm, disT, tri, ho]

/-! ### specification side -/

theorem definers_filter (p : Name) (loaded : List (File × List (Name × PolId))) (f : File) :
    definers p (loaded.filter (fun e => decide (e.1 ≠ f))) = (definers p loaded).filter (fun x => decide (x.1 ≠ f)) := by
  induction loaded with
  | nil => rfl
  | cons e r ih =>
    obtain ⟨g, defs⟩ := e
    simp only [definers] at ih ⊢
    by_cases hg : g = f
    · subst hg
      rw [List.filter_cons, if_neg (by simp), ih, List.filterMap_cons]
      cases dget defs p with
      | none => simp
      | some d => simp
    · rw [List.filter_cons, if_pos (by simpa using hg), List.filterMap_cons, List.filterMap_cons]
      cases dget defs p with
      | none => simpa using ih
      | some d => simpa [hg] using ih

theorem definers_cons (p : Name) (f : File) (defs : List (Name × PolId)) (loaded : List (File × List (Name × PolId))) :
    definers p ((f, defs) :: loaded) =
      match dget defs p with
      | some d => (f, d) :: definers p loaded
      | none => definers p loaded := by
  simp only [definers, List.filterMap_cons]
  cases dget defs p <;> rfl

theorem mem_insertSorted (a b : String) (l : List String) : b ∈ insertSorted a l ↔ b = a ∨ b ∈ l := by
  induction l with
  | nil => simp [insertSorted]
  | cons c r ih =>
    simp only [insertSorted]
    split
    · simp
    · simp only [List.mem_cons, ih]
      constructor
      · rintro (h | h | h); exact Or.inr (Or.inl h); exact Or.inl h; exact Or.inr (Or.inr h)
      · rintro (h | h | h); exact Or.inr (Or.inl h); exact Or.inl h; exact Or.inr (Or.inr h)

theorem mem_sortFiles (b : String) (l : List String) : b ∈ sortFiles l ↔ b ∈ l := by
  induction l with
  | nil => simp [sortFiles]
  | cons a r ih => simp [sortFiles, mem_insertSorted, ih]

theorem dget_filter_key {ν} (d : List (Name × ν)) (q : Name → Bool) (p : Name) (h : q p = true) :
    dget (d.filter (fun e => q e.1)) p = dget d p := by
  induction d with
  | nil => rfl
  | cons e r ih =>
    obtain ⟨a, b⟩ := e
    by_cases ha : a = p
    · subst ha; simp [h, dget]
    · by_cases hq : q a = true
      · simp [hq, dget, ha, ih]
      · simp [hq, dget, ha, ih]

/-! ### the simulation -/

/-- the invariant tying the monitor's state to the specification state -/
structure Inv (R : List Name) (store0 : List (Name × PolId)) (s : MonState) (sp : SpecState) : Prop where
  ts : s.timestamps = sp.seen
  files : s.files = sp.files
  mapNodup : (dkeys s.map).Nodup
  loadedNodup : (dkeys sp.loaded).Nodup
  names : ∀ p, R.contains p = false → NRel (tri s p) (definers p sp.loaded)
  reserved : ∀ p, R.contains p = true → tri s p = (dget store0 p, none, none)

theorem inv_init (R : List Name) (store0 : List (Name × PolId)) : Inv R store0 (MonState.init R store0) SpecState.init := by
  refine ⟨rfl, rfl, by simp [MonState.init, dkeys], by simp [SpecState.init, dkeys], ?_, ?_⟩
  · intro p hp
    have : dget (store0.filter (fun e => R.contains e.1)) p = none := by
      apply (dget_none_iff _ _).mpr
      intro h
      simp only [dkeys, List.mem_map, List.mem_filter] at h
      obtain ⟨e, ⟨_, he⟩, rfl⟩ := h
      rw [hp] at he; cases he
    have e1 : tri (MonState.init R store0) p = (none, none, none) := by
      show (dget (store0.filter (fun e => R.contains e.1)) p, dget [] p, dget [] p) = _
      rw [this]; rfl
    rw [e1]
    exact rfl
  · intro p hp
    show (dget (store0.filter (fun e => R.contains e.1)) p, dget [] p, dget [] p) = _
    rw [dget_filter_key store0 (fun n => R.contains n) p hp]; rfl

theorem nrm_reserved (f : File) (x : Option PolId) : nrm f (x, none, none) = (x, none, none) := by
  simp [nrm, disT]

theorem inv_remove (R : List Name) (store0 : List (Name × PolId)) (s : MonState) (sp : SpecState) (f : File)
    (h : Inv R store0 s sp) : Inv R store0 (removeFile s f) (specRemove sp f) := by
  obtain ⟨f1, f2, f3⟩ := frame_removeFile s f
  refine ⟨?_, ?_, f3 h.mapNodup, ?_, ?_, ?_⟩
  · rw [f1, h.ts]; rfl
  · rw [f2, h.files]; rfl
  · simp only [specRemove, dkeys]
    exact (List.filter_sublist.map _).nodup h.loadedNodup
  · intro p hp
    rw [tri_removeFile s f p h.mapNodup]
    simp only [specRemove]
    rw [definers_filter]
    exact nrel_rm f _ _ (h.names p hp)
  · intro p hp
    rw [tri_removeFile s f p h.mapNodup, h.reserved p hp, nrm_reserved]

theorem inv_remove_all (R : List Name) (store0 : List (Name × PolId)) :
    ∀ (l : List File) (s : MonState) (sp : SpecState), Inv R store0 s sp →
      Inv R store0 (l.foldl removeFile s) (l.foldl specRemove sp) := by
  intro l
  induction l with
  | nil => intro s sp h; exact h
  | cons f r ih => intro s sp h; exact ih _ _ (inv_remove R store0 s sp f h)

theorem seen_remove_all : ∀ (l : List File) (sp : SpecState) (g : File),
    g ∈ dkeys (l.foldl specRemove sp).seen ↔ g ∈ dkeys sp.seen ∧ g ∉ l := by
  intro l
  induction l with
  | nil => intro sp g; simp
  | cons f r ih =>
    intro sp g
    rw [List.foldl_cons, ih]
    simp only [specRemove, mem_dkeys_dpop, List.mem_cons, not_or]
    constructor
    · rintro ⟨⟨a, b⟩, c⟩; exact ⟨a, b, c⟩
    · rintro ⟨a, b, c⟩; exact ⟨⟨a, b⟩, c⟩

theorem seen_added : ∀ (l : List File) (ts : List (File × Nat)) (g : File),
    g ∈ dkeys (l.foldl (fun ts f => dset ts f 0) ts) ↔ g ∈ dkeys ts ∨ g ∈ l := by
  intro l
  induction l with
  | nil => intro ts g; simp
  | cons f r ih =>
    intro ts g
    rw [List.foldl_cons, ih, mem_dkeys_dset]
    simp only [List.mem_cons]
    constructor
    · rintro ((a | a) | a); exact Or.inl a; exact Or.inr (Or.inl a); exact Or.inr (Or.inr a)
    · rintro (a | a | a); exact Or.inl (Or.inl a); exact Or.inl (Or.inr a); exact Or.inr a

/-- one file of the load loop -/
theorem inv_visit (R : List Name) (store0 : List (Name × PolId)) (snap : DirSnapshot) (s : MonState) (sp : SpecState)
    (f : File) (h : Inv R store0 s sp) (hw : snap.WF) (hc : snap.NoCrash)
    (hsnap : f ∈ dkeys snap) (hts : f ∈ dkeys s.timestamps) :
    ∃ s', visit R snap s f = .ok s' ∧ Inv R store0 s' (specVisit R snap sp f) ∧
      (∀ g, g ∈ dkeys s'.timestamps ↔ g ∈ dkeys s.timestamps) := by
  cases hsn : dget snap f with
  | none => exact absurd ((dget_none_iff _ _).mp hsn) (fun h => h hsnap)
  | some tp =>
    obtain ⟨t, parse⟩ := tp
    cases hseen : dget s.timestamps f with
    | none => exact absurd ((dget_none_iff _ _).mp hseen) (fun h => h hts)
    | some t0 =>
      have hseen' : dget sp.seen f = some t0 := by rw [← h.ts]; exact hseen
      unfold visit
      simp only [hsn, hseen]
      unfold specVisit
      simp only [hsn, hseen']
      by_cases hgt : t > t0
      · simp only [if_pos hgt]
        have hkeys : ∀ g, g ∈ dkeys (dset s.timestamps f t) ↔ g ∈ dkeys s.timestamps := by
          intro g; rw [mem_dkeys_dset]
          constructor
          · rintro (a | rfl); exact a; exact hts
          · exact Or.inl
        have hmem : (f, t, parse) ∈ snap := dget_some_mem _ _ _ hsn
        cases parse with
        | rejected =>
          refine ⟨_, rfl, ⟨?_, h.files, h.mapNodup, h.loadedNodup, h.names, h.reserved⟩, hkeys⟩
          · show dset s.timestamps f t = dset sp.seen f t
            rw [h.ts]
        | crash cls => exact absurd rfl (hc _ hmem cls)
        | ok defs =>
          have hdn : (dkeys defs).Nodup := hw.2 _ hmem
          generalize hs1 : ({ s with timestamps := dset s.timestamps f t } : MonState) = s1
          have htri : ∀ q, tri s1 q = tri s q := by intro q; subst hs1; rfl
          have hmap1 : s1.map = s.map := by subst hs1; rfl
          have hb : ∀ d ∈ defs, R.contains d.1 = false → bodyFails f (tri s1 d.1) = false := by
            intro d _ hr
            rw [htri]
            exact (nrel_load f d.2 _ _ (h.names d.1 hr)).1
          obtain ⟨s', hok, hfr, hnd, ht⟩ := loadFile_ok R s1 f defs (by rw [hmap1]; exact h.mapNodup) hdn hb
          have hts1 : s1.timestamps = dset s.timestamps f t := by subst hs1; rfl
          have hfl1 : s1.files = s.files := by subst hs1; rfl
          refine ⟨s', hok, ⟨?_, ?_, hnd, ?_, ?_, ?_⟩, ?_⟩
          · rw [hfr.ts, hts1, h.ts]
          · rw [hfr.files, hfl1, h.files]
          · simp only [dkeys, List.map_cons, List.nodup_cons]
            refine ⟨?_, (List.filter_sublist.map _).nodup h.loadedNodup⟩
            intro hm
            obtain ⟨e, he, hef⟩ := List.mem_map.mp hm
            have := (List.mem_filter.mp he).2
            simp [hef] at this
          · intro p hp
            rw [ht, htri, definers_cons, definers_filter]
            cases hdp : dget defs p with
            | some pol =>
              simp only [fileT, hdp, hp]
              exact (nrel_load f pol _ _ (h.names p hp)).2
            | none =>
              simp only [fileT, hdp]
              exact nrel_rm f _ _ (h.names p hp)
          · intro p hp
            rw [ht, htri, h.reserved p hp]
            cases hdp : dget defs p with
            | some pol => simp only [fileT, hdp, hp, ↓reduceIte]
            | none => simp only [fileT, hdp]; exact nrm_reserved f _
          · intro g; rw [hfr.ts, hts1]; exact hkeys g
      · simp only [if_neg hgt]
        exact ⟨s, rfl, h, fun _ => Iff.rfl⟩

/-- the load loop l.94-133 -/
theorem inv_visit_all (R : List Name) (store0 : List (Name × PolId)) (snap : DirSnapshot) (hw : snap.WF) (hc : snap.NoCrash) :
    ∀ (l : List File) (s : MonState) (sp : SpecState), Inv R store0 s sp →
      (∀ f ∈ l, f ∈ dkeys snap ∧ f ∈ dkeys s.timestamps) →
      ∃ s', l.foldlM (visit R snap) s = .ok s' ∧ Inv R store0 s' (l.foldl (specVisit R snap) sp) ∧
        (∀ g, g ∈ dkeys s'.timestamps ↔ g ∈ dkeys s.timestamps) := by
  intro l
  induction l with
  | nil => intro s sp h _; exact ⟨s, rfl, h, fun _ => Iff.rfl⟩
  | cons f r ih =>
    intro s sp h hl
    rw [List.foldl_cons]
    obtain ⟨s1, hv, hinv, hkeys⟩ := inv_visit R store0 snap s sp f h hw hc (hl f (List.mem_cons_self ..)).1
      (hl f (List.mem_cons_self ..)).2
    obtain ⟨s2, hv2, hinv2, hkeys2⟩ := ih s1 _ hinv
      (fun g hg => ⟨(hl g (List.mem_cons_of_mem _ hg)).1, (hkeys g).mpr (hl g (List.mem_cons_of_mem _ hg)).2⟩)
    exact ⟨s2, by rw [List.foldlM_cons, hv]; exact hv2, hinv2, fun g => (hkeys2 g).trans (hkeys g)⟩

theorem files_visit (R : List Name) (snap : DirSnapshot) (sp : SpecState) (f : File) :
    (specVisit R snap sp f).files = sp.files := by
  unfold specVisit
  split
  · split
    · split <;> rfl
    · rfl
  · rfl

theorem files_visit_all (R : List Name) (snap : DirSnapshot) :
    ∀ (l : List File) (sp : SpecState), (l.foldl (specVisit R snap) sp).files = sp.files := by
  intro l
  induction l with
  | nil => intro sp; rfl
  | cons f r ih => intro sp; rw [List.foldl_cons, ih, files_visit]

/-- **one scan**: the monitor follows the specification -/
theorem inv_scan (R : List Name) (store0 : List (Name × PolId)) (s : MonState) (sp : SpecState) (snap : DirSnapshot)
    (h : Inv R store0 s sp) (hkf : ∀ f, f ∈ dkeys s.timestamps → f ∈ s.files) (hw : snap.WF) (hc : snap.NoCrash) :
    ∃ s', scanE R s snap = .ok s' ∧ Inv R store0 s' (specScan R sp snap) ∧
      (∀ f, f ∈ dkeys s'.timestamps → f ∈ s'.files) := by
  obtain ⟨seen, sfiles, loaded⟩ := sp
  have e1 : s.timestamps = seen := h.ts
  have e2 : s.files = sfiles := h.files
  subst e1 e2
  unfold specScan
  unfold scanE
  simp only
  generalize hfiles : sortFiles (dkeys snap) = files
  generalize hadded : files.filter (fun f => !s.files.contains f) = added
  generalize hremoved : s.files.filter (fun f => !files.contains f) = removed
  generalize hs1 : ({ s with timestamps := added.foldl (fun ts f => dset ts f 0) s.timestamps } : MonState) = s1
  generalize hsp1 : ({ seen := added.foldl (fun ts f => dset ts f 0) s.timestamps, files := s.files,
                       loaded := loaded } : SpecState) = sp1
  have inv1 : Inv R store0 s1 sp1 := by
    subst hs1 hsp1
    exact ⟨rfl, rfl, h.mapNodup, h.loadedNodup, h.names, h.reserved⟩
  have inv2 := inv_remove_all R store0 removed s1 sp1 inv1
  generalize hs2 : removed.foldl removeFile s1 = s2 at inv2 ⊢
  generalize hsp2 : removed.foldl specRemove sp1 = sp2 at inv2 ⊢
  have inv3 : Inv R store0 { s2 with files := files } { sp2 with files := files } :=
    ⟨inv2.ts, rfl, inv2.mapNodup, inv2.loadedNodup, inv2.names, inv2.reserved⟩
  have hl : sortFiles (dkeys sp2.seen) = sortFiles (dkeys s2.timestamps) := by rw [inv2.ts]
  rw [hl]
  -- every file still tracked is in the directory
  have hside : ∀ g, g ∈ dkeys s2.timestamps → g ∈ files := by
    intro g hg
    rw [inv2.ts, ← hsp2, seen_remove_all] at hg
    obtain ⟨hg1, hg2⟩ := hg
    rw [← hsp1] at hg1
    rcases (seen_added added s.timestamps g).mp hg1 with hg1 | hg1
    · have hin := hkf g hg1
      apply Classical.byContradiction
      intro hnot
      apply hg2
      rw [← hremoved]
      exact List.mem_filter.mpr ⟨hin, by simpa using hnot⟩
    · rw [← hadded] at hg1
      exact (List.mem_filter.mp hg1).1
  obtain ⟨s', hv, hinv, hkeys⟩ := inv_visit_all R store0 snap hw hc (sortFiles (dkeys s2.timestamps))
    { s2 with files := files } { sp2 with files := files } inv3
    (by
      intro g hg
      have hg' : g ∈ dkeys s2.timestamps := (mem_sortFiles _ _).mp hg
      refine ⟨?_, hg'⟩
      have := hside g hg'
      rw [← hfiles] at this
      exact (mem_sortFiles _ _).mp this)
  refine ⟨s', hv, hinv, ?_⟩
  intro g hg
  rw [hinv.files, files_visit_all]
  exact hside g ((hkeys g).mp hg)

/-- **histories**: every scan ends normally and the invariant holds after it -/
theorem inv_run (R : List Name) (store0 : List (Name × PolId)) :
    ∀ (h : List DirSnapshot) (s : MonState) (sp : SpecState), Inv R store0 s sp →
      (∀ f, f ∈ dkeys s.timestamps → f ∈ s.files) → (∀ d ∈ h, d.WF ∧ d.NoCrash) →
      Inv R store0 (h.foldl (scan R) s) (h.foldl (specScan R) sp) ∧
      (∀ f, f ∈ dkeys (h.foldl (scan R) s).timestamps → f ∈ (h.foldl (scan R) s).files) := by
  intro h
  induction h with
  | nil => intro s sp hi hk _; exact ⟨hi, hk⟩
  | cons d r ih =>
    intro s sp hi hk hd
    rw [List.foldl_cons, List.foldl_cons]
    obtain ⟨s1, hs1, hi1, hk1⟩ := inv_scan R store0 s sp d hi hk (hd d (List.mem_cons_self ..)).1
      (hd d (List.mem_cons_self ..)).2
    have : scan R s d = s1 := by simp [scan, hs1]
    rw [this]
    exact ih s1 _ hi1 hk1 (fun d' hd' => hd d' (List.mem_cons_of_mem _ hd'))

/-- what the invariant says about the store -/
theorem store_of_inv (R : List Name) (store0 : List (Name × PolId)) (s : MonState) (sp : SpecState)
    (h : Inv R store0 s sp) (p : Name) :
    dget s.store p = if R.contains p then dget store0 p else specStore R sp p := by
  by_cases hp : R.contains p = true
  · have := h.reserved p hp
    simp only [tri, Prod.mk.injEq] at this
    rw [if_pos hp]; exact this.1
  · have hp' : R.contains p = false := by simpa using hp
    rw [if_neg hp]
    have hn := h.names p hp'
    simp only [specStore, hp', Bool.false_eq_true, if_false]
    generalize definers p sp.loaded = L at hn
    generalize htr : tri s p = t at hn
    have hst : dget s.store p = t.1 := by rw [← htr]; rfl
    rw [hst]
    obtain ⟨a, b, c⟩ := t
    cases a <;> cases b <;> cases c <;> simp only [NRel] at hn <;> try exact hn.elim
    · subst hn; rfl
    · subst hn; rfl

/-! ### reserved names: an invariant of every path through `scan_policies`, exceptions included -/

/-- no reserved name has an owner in `policy_map`, and its store entry is the initial one -/
def RInv (R : List Name) (store0 : List (Name × PolId)) (s : MonState) : Prop :=
  ∀ r, R.contains r = true → dget s.map r = none ∧ dget s.store r = dget store0 r

/-- what holds of the result of a step that may raise: of the state returned normally or left behind -/
def Holds {ε} (P : MonState → Prop) : Except (MonState × ε) MonState → Prop
  | .ok s => P s
  | .error (s, _) => P s

theorem foldl_inv_mem {α β} (P : α → Prop) (Q : β → Prop) (act : α → β → α)
    (hact : ∀ s q, Q q → P s → P (act s q)) :
    ∀ (l : List β) (s : α), (∀ q ∈ l, Q q) → P s → P (l.foldl act s) := by
  intro l
  induction l with
  | nil => intro s _ h; exact h
  | cons q r ih =>
    intro s hq h
    exact ih _ (fun x hx => hq x (List.mem_cons_of_mem _ hx)) (hact s q (hq q (List.mem_cons_self ..)) h)

theorem foldlM_holds {β ε} (P : MonState → Prop) (act : MonState → β → Except (MonState × ε) MonState)
    (hact : ∀ s q, P s → Holds P (act s q)) :
    ∀ (l : List β) (s : MonState), P s → Holds P (l.foldlM act s) := by
  intro l
  induction l with
  | nil => intro s h; exact h
  | cons q r ih =>
    intro s h
    rw [List.foldlM_cons]
    have := hact s q h
    cases hq : act s q with
    | ok s1 => rw [hq] at this; exact ih s1 this
    | error e => rw [hq] at this; obtain ⟨s1, x⟩ := e; exact this

theorem rinv_disassociate (R : List Name) (store0 : List (Name × PolId)) (s : MonState) (q : Name) (f : File)
    (h : RInv R store0 s) : RInv R store0 (disassociate s q f) := by
  obtain ⟨_, hm, hs⟩ := frame_disassociate s q f
  intro r hr; rw [hm, hs]; exact h r hr

theorem rinv_restoreOrDelete (R : List Name) (store0 : List (Name × PolId)) (s : MonState) (q : Name)
    (hq : R.contains q = false) (h : RInv R store0 s) : RInv R store0 (restoreOrDelete s q) := by
  intro r hr
  have hne : ¬ q = r := by intro e; subst e; rw [hq] at hr; cases hr
  have ht := tri_restoreOrDelete s q r
  rw [if_neg hne] at ht
  simp only [tri, Prod.mk.injEq] at ht
  rw [ht.1, ht.2.1]
  exact ⟨(h r hr).1, (h r hr).2⟩

theorem owned_not_reserved (R : List Name) (store0 : List (Name × PolId)) (s : MonState) (f : File)
    (h : RInv R store0 s) : ∀ q ∈ ownedBy s f, R.contains q = false := by
  intro q hq
  simp only [ownedBy, List.mem_map, List.mem_filter] at hq
  obtain ⟨⟨a, b⟩, ⟨hm, _⟩, rfl⟩ := hq
  cases hr : R.contains a with
  | false => rfl
  | true =>
    have := (h a hr).1
    have hk : a ∈ dkeys s.map := List.mem_map.mpr ⟨(a, b), hm, rfl⟩
    exact absurd hk ((dget_none_iff _ _).mp this)

theorem rinv_removeFile (R : List Name) (store0 : List (Name × PolId)) (s : MonState) (f : File)
    (h : RInv R store0 s) : RInv R store0 (removeFile s f) := by
  unfold removeFile
  simp only
  have h1 : RInv R store0 { s with timestamps := dpop s.timestamps f } := h
  have h2 := foldl_inv (RInv R store0) (fun s p => disassociate s p f)
    (fun s q hs => rinv_disassociate R store0 s q f hs) (dkeys s.cache) _ h1
  exact foldl_inv_mem (RInv R store0) (fun q => R.contains q = false) restoreOrDelete
    (fun s q hq hs => rinv_restoreOrDelete R store0 s q hq hs) _ _ (owned_not_reserved R store0 _ f h2) h2

theorem rinv_loadBody (R : List Name) (store0 : List (Name × PolId)) (f : File) (s : MonState) (d : Name × PolId)
    (h : RInv R store0 s) : Holds (RInv R store0) (loadBody R f s d) := by
  rcases loadBody_cases R f s d with ⟨s', hok, _, _, ht, _⟩ | ⟨e, herr, _, _⟩
  · rw [hok]
    intro r hr
    have := ht r
    have hne : ¬ (d.1 = r ∧ R.contains d.1 = false) := by
      rintro ⟨e, hf⟩; subst e; rw [hf] at hr; cases hr
    rw [if_neg hne] at this
    simp only [tri, Prod.mk.injEq] at this
    rw [this.1, this.2.1]; exact h r hr
  · rw [herr]; exact h

theorem rinv_loadFile (R : List Name) (store0 : List (Name × PolId)) (s : MonState) (f : File)
    (defs : List (Name × PolId)) (h : RInv R store0 s) : Holds (RInv R store0) (loadFile R s f defs) := by
  unfold loadFile
  have h1 := foldlM_holds (RInv R store0) (loadBody R f) (fun s q hs => rinv_loadBody R store0 f s q hs) defs s h
  cases hl : defs.foldlM (loadBody R f) s with
  | error e => obtain ⟨s1, x⟩ := e; rw [hl] at h1; simpa [bind, Except.bind, hl] using h1
  | ok s1 =>
    rw [hl] at h1
    simp only [bind, Except.bind, pure, Except.pure]
    have hq : ∀ q ∈ (ownedBy s f).filter (fun p => !(dkeys defs).contains p), R.contains q = false :=
      fun q hq => owned_not_reserved R store0 s f h q (List.mem_filter.mp hq).1
    have h2 := foldl_inv (RInv R store0) (fun s p => disassociate s p f)
      (fun s q hs => rinv_disassociate R store0 s q f hs)
      ((dkeys s1.cache).filter (fun p => !(dkeys defs).contains p)) s1 h1
    exact foldl_inv_mem (RInv R store0) (fun q => R.contains q = false) restoreOrDelete
      (fun s q hq hs => rinv_restoreOrDelete R store0 s q hq hs) _ _ hq h2

theorem rinv_visit (R : List Name) (store0 : List (Name × PolId)) (snap : DirSnapshot) (s : MonState) (f : File)
    (h : RInv R store0 s) : Holds (RInv R store0) (visit R snap s f) := by
  unfold visit
  split
  · exact h
  · exact h
  · rename_i t parse ts _ _
    split
    · cases parse with
      | rejected => exact h
      | crash cls => exact h
      | ok defs => exact rinv_loadFile R store0 _ f defs h
    · exact h

theorem rinv_scanE (R : List Name) (store0 : List (Name × PolId)) (s : MonState) (snap : DirSnapshot)
    (h : RInv R store0 s) : Holds (RInv R store0) (scanE R s snap) := by
  unfold scanE
  simp only
  apply foldlM_holds (RInv R store0) (visit R snap) (fun s q hs => rinv_visit R store0 snap s q hs)
  have h1 : RInv R store0 { s with timestamps :=
      ((sortFiles (dkeys snap)).filter (fun f => !s.files.contains f)).foldl (fun ts f => dset ts f 0) s.timestamps } := h
  exact foldl_inv (RInv R store0) removeFile (fun s q hs => rinv_removeFile R store0 s q hs) _ _ h1

theorem rinv_scan (R : List Name) (store0 : List (Name × PolId)) (s : MonState) (snap : DirSnapshot)
    (h : RInv R store0 s) : RInv R store0 (scan R s snap) := by
  have := rinv_scanE R store0 s snap h
  unfold scan
  cases hs : scanE R s snap with
  | ok s' => rw [hs] at this; exact this
  | error e => obtain ⟨s', x⟩ := e; rw [hs] at this; exact this

theorem rinv_init (R : List Name) (store0 : List (Name × PolId)) : RInv R store0 (MonState.init R store0) := by
  intro r hr
  exact ⟨rfl, dget_filter_key store0 (fun n => R.contains n) r hr⟩

theorem rinv_run (R : List Name) (store0 : List (Name × PolId)) (h : List DirSnapshot) :
    RInv R store0 (run R store0 h) :=
  foldl_inv (RInv R store0) (scan R) (fun s q hs => rinv_scan R store0 s q hs) h _ (rinv_init R store0)

/-! ### a scan in which nothing but rejected files changed -/

/-- every tracked file is in the listing and either unchanged (mtime not newer) or not a valid policy document -/
def Quiet (snap : DirSnapshot) (s : MonState) : Prop :=
  ∀ g, g ∈ dkeys s.timestamps →
    ∃ t pr ts, dget snap g = some (t, pr) ∧ dget s.timestamps g = some ts ∧ (t ≤ ts ∨ pr = .rejected)

theorem visit_quiet (R : List Name) (snap : DirSnapshot) (s : MonState) (f : File) (hq : Quiet snap s)
    (hf : f ∈ dkeys s.timestamps) :
    ∃ s', visit R snap s f = .ok s' ∧ s'.store = s.store ∧ s'.map = s.map ∧ s'.cache = s.cache ∧
      s'.files = s.files ∧ Quiet snap s' ∧ (∀ g, g ∈ dkeys s'.timestamps ↔ g ∈ dkeys s.timestamps) := by
  obtain ⟨t, pr, ts, h1, h2, h3⟩ := hq f hf
  unfold visit
  simp only [h1, h2]
  by_cases hgt : t > ts
  · rw [if_pos hgt]
    have hpr : pr = .rejected := by
      rcases h3 with h3 | h3
      · exact absurd hgt (Nat.not_lt.mpr h3)
      · exact h3
    subst hpr
    have hkeys : ∀ g, g ∈ dkeys (dset s.timestamps f t) ↔ g ∈ dkeys s.timestamps := by
      intro g; rw [mem_dkeys_dset]
      exact ⟨fun h => h.elim id (fun e => e ▸ hf), Or.inl⟩
    refine ⟨_, rfl, rfl, rfl, rfl, rfl, ?_, hkeys⟩
    intro g hg
    obtain ⟨t', pr', ts', g1, g2, g3⟩ := hq g ((hkeys g).mp hg)
    by_cases hgf : f = g
    · subst hgf
      rw [h1] at g1; cases g1
      exact ⟨t, .rejected, t, h1, by simp [dget_dset], Or.inl (Nat.le_refl _)⟩
    · exact ⟨t', pr', ts', g1, by simp [dget_dset, hgf, g2], g3⟩
  · rw [if_neg hgt]
    exact ⟨s, rfl, rfl, rfl, rfl, rfl, hq, fun _ => Iff.rfl⟩

theorem visit_all_quiet (R : List Name) (snap : DirSnapshot) :
    ∀ (l : List File) (s : MonState), Quiet snap s → (∀ f ∈ l, f ∈ dkeys s.timestamps) →
      ∃ s', l.foldlM (visit R snap) s = .ok s' ∧ s'.store = s.store ∧ s'.map = s.map ∧ s'.cache = s.cache ∧
        s'.files = s.files := by
  intro l
  induction l with
  | nil => intro s _ _; exact ⟨s, rfl, rfl, rfl, rfl, rfl⟩
  | cons f r ih =>
    intro s hq hl
    obtain ⟨s1, h1, a1, a2, a3, a4, hq1, hk1⟩ := visit_quiet R snap s f hq (hl f (List.mem_cons_self ..))
    obtain ⟨s2, h2, b1, b2, b3, b4⟩ := ih s1 hq1 (fun g hg => (hk1 g).mpr (hl g (List.mem_cons_of_mem _ hg)))
    exact ⟨s2, by rw [List.foldlM_cons, h1]; exact h2, b1.trans a1, b2.trans a2, b3.trans a3, b4.trans a4⟩

theorem filter_contains_self (l : List File) : l.filter (fun f => !l.contains f) = [] := by
  apply List.filter_eq_nil_iff.mpr
  intro a ha
  simp [ha]

/-- the listing is the one of the previous scan and only rejected files have moved -/
theorem scan_quiet (R : List Name) (s : MonState) (snap : DirSnapshot)
    (hfiles : sortFiles (dkeys snap) = s.files) (hq : Quiet snap s) :
    ∃ s', scanE R s snap = .ok s' ∧ s'.store = s.store ∧ s'.map = s.map ∧ s'.cache = s.cache ∧ s'.files = s.files := by
  unfold scanE
  simp only [hfiles, filter_contains_self, List.foldl_nil]
  have hq' : Quiet snap { s with files := s.files } := hq
  obtain ⟨s', h1, a1, a2, a3, a4⟩ := visit_all_quiet R snap (sortFiles (dkeys s.timestamps)) _ hq'
    (fun f hf => (mem_sortFiles _ _).mp hf)
  exact ⟨s', h1, a1, a2, a3, a4⟩

/-! ### no exception of the monitor's own making: coherence of store / map / cache on every path -/

/-- a name is absent from store, map and cache, or present in all three -/
def Coh (t : Tri) : Prop :=
  match t with
  | (none, none, none) => True
  | (some _, some _, some _) => True
  | _ => False

structure CInv (R : List Name) (s : MonState) : Prop where
  mapNodup : (dkeys s.map).Nodup
  names : ∀ p, R.contains p = false → Coh (tri s p)
  reserved : ∀ p, R.contains p = true → (tri s p).2 = (none, none)

/-- coherent, and every tracked file is in the last listing -/
def CInv2 (R : List Name) (s : MonState) : Prop := CInv R s ∧ ∀ f, f ∈ dkeys s.timestamps → f ∈ s.files

theorem coh_nrm (f : File) (t : Tri) (h : Coh t) : Coh (nrm f t) := by
  obtain ⟨a, b, c⟩ := t
  cases a <;> cases b <;> cases c <;> simp only [Coh] at h <;> try exact h.elim
  · simp [nrm, disT, Coh]
  · rename_i pol o stk
    by_cases hof : o = f
    · subst hof
      rw [nrm_owner]
      cases hst : stk.filter (fun e => decide (e.file ≠ o)) <;> simp [rodT, Coh]
    · rw [nrm_other f o pol stk hof]; simp [Coh]

theorem coh_body (f : File) (pol : PolId) (t : Tri) (h : Coh t) : bodyFails f t = false ∧ Coh (bodyT f pol t) := by
  obtain ⟨a, b, c⟩ := t
  cases a <;> cases b <;> cases c <;> simp only [Coh] at h <;> try exact h.elim
  · simp [bodyFails, bodyT, Coh]
  · rename_i old o stk
    by_cases hof : o = f
    · subst hof; simp [bodyFails, bodyT, Coh]
    · simp [bodyFails, bodyT, Coh, hof]

theorem cinv_remove (R : List Name) (s : MonState) (f : File) (h : CInv R s) :
    CInv R (removeFile s f) ∧ (removeFile s f).timestamps = dpop s.timestamps f := by
  obtain ⟨f1, f2, f3⟩ := frame_removeFile s f
  refine ⟨⟨f3 h.mapNodup, ?_, ?_⟩, f1⟩
  · intro p hp; rw [tri_removeFile s f p h.mapNodup]; exact coh_nrm f _ (h.names p hp)
  · intro p hp
    rw [tri_removeFile s f p h.mapNodup]
    have := h.reserved p hp
    generalize tri s p = t at this
    obtain ⟨a, b, c⟩ := t
    simp only [Prod.mk.injEq] at this
    obtain ⟨rfl, rfl⟩ := this
    rw [nrm_reserved]

/-- the result of a step is a coherent state, and if the step raised, it was the parser's exception -/
def Fine (R : List Name) : Except (MonState × Exn) MonState → Prop
  | .ok s => CInv2 R s
  | .error (s, e) => CInv2 R s ∧ ∃ cls, e = .parser cls

theorem cinv_visit (R : List Name) (snap : DirSnapshot) (hw : snap.WF) (s : MonState) (f : File) (h : CInv2 R s)
    (hsnap : f ∈ dkeys snap) (hts : f ∈ dkeys s.timestamps) :
    Fine R (visit R snap s f) ∧
      (∀ s', visit R snap s f = .ok s' → s'.files = s.files ∧ ∀ g, g ∈ dkeys s'.timestamps ↔ g ∈ dkeys s.timestamps) := by
  obtain ⟨h, htf⟩ := h
  cases hsn : dget snap f with
  | none => exact absurd ((dget_none_iff _ _).mp hsn) (fun h => h hsnap)
  | some tp =>
    obtain ⟨t, parse⟩ := tp
    cases hseen : dget s.timestamps f with
    | none => exact absurd ((dget_none_iff _ _).mp hseen) (fun h => h hts)
    | some t0 =>
      unfold visit
      simp only [hsn, hseen]
      by_cases hgt : t > t0
      · simp only [if_pos hgt]
        have hkeys : ∀ g, g ∈ dkeys (dset s.timestamps f t) ↔ g ∈ dkeys s.timestamps := by
          intro g; rw [mem_dkeys_dset]
          exact ⟨fun h => h.elim id (fun e => e ▸ hts), Or.inl⟩
        have hc1 : CInv2 R { s with timestamps := dset s.timestamps f t } :=
          ⟨⟨h.mapNodup, h.names, h.reserved⟩, fun g hg => htf g ((hkeys g).mp hg)⟩
        have hmem : (f, t, parse) ∈ snap := dget_some_mem _ _ _ hsn
        cases parse with
        | rejected => exact ⟨hc1, fun s' hs' => by cases hs'; exact ⟨rfl, hkeys⟩⟩
        | crash cls => exact ⟨⟨hc1, cls, rfl⟩, fun s' hs' => nomatch hs'⟩
        | ok defs =>
          have hdn : (dkeys defs).Nodup := hw.2 _ hmem
          generalize hs1 : ({ s with timestamps := dset s.timestamps f t } : MonState) = s1 at hc1
          obtain ⟨hc1, htf1⟩ := hc1
          have hts1 : s1.timestamps = dset s.timestamps f t := by subst hs1; rfl
          have hfl1 : s1.files = s.files := by subst hs1; rfl
          have hb : ∀ d ∈ defs, R.contains d.1 = false → bodyFails f (tri s1 d.1) = false :=
            fun d _ hr => (coh_body f d.2 _ (hc1.names d.1 hr)).1
          obtain ⟨s', hok, hfr, hnd, ht⟩ := loadFile_ok R s1 f defs hc1.mapNodup hdn hb
          simp only
          rw [hok]
          refine ⟨⟨⟨hnd, ?_, ?_⟩, ?_⟩, ?_⟩
          · intro p hp
            rw [ht]
            cases hdp : dget defs p with
            | some pol => simp only [fileT, hdp, hp]; exact (coh_body f pol _ (hc1.names p hp)).2
            | none => simp only [fileT, hdp]; exact coh_nrm f _ (hc1.names p hp)
          · intro p hp
            rw [ht]
            have := hc1.reserved p hp
            generalize tri s1 p = t1 at this
            obtain ⟨a, b, c⟩ := t1
            simp only [Prod.mk.injEq] at this
            obtain ⟨rfl, rfl⟩ := this
            cases hdp : dget defs p with
            | some pol => simp only [fileT, hdp, hp, ↓reduceIte]
            | none => simp only [fileT, hdp]; rw [nrm_reserved]
          · intro g hg; rw [hfr.ts] at hg; rw [hfr.files]; exact htf1 g hg
          · intro s'' hs''
            cases hs''
            refine ⟨by rw [hfr.files, hfl1], ?_⟩
            intro g; rw [hfr.ts, hts1]; exact hkeys g
      · simp only [if_neg hgt]
        exact ⟨⟨h, htf⟩, fun s' hs' => by cases hs'; exact ⟨rfl, fun _ => Iff.rfl⟩⟩

theorem cinv_visit_all (R : List Name) (snap : DirSnapshot) (hw : snap.WF) :
    ∀ (l : List File) (s : MonState), CInv2 R s → (∀ f ∈ l, f ∈ dkeys snap ∧ f ∈ dkeys s.timestamps) →
      Fine R (l.foldlM (visit R snap) s) := by
  intro l
  induction l with
  | nil => intro s h _; exact h
  | cons f r ih =>
    intro s h hl
    rw [List.foldlM_cons]
    obtain ⟨h1, h2⟩ := cinv_visit R snap hw s f h (hl f (List.mem_cons_self ..)).1 (hl f (List.mem_cons_self ..)).2
    cases hv : visit R snap s f with
    | error e => rw [hv] at h1; obtain ⟨s1, x⟩ := e; exact h1
    | ok s1 =>
      rw [hv] at h1
      obtain ⟨_, hk⟩ := h2 s1 hv
      exact ih s1 h1 (fun g hg => ⟨(hl g (List.mem_cons_of_mem _ hg)).1, (hk g).mpr (hl g (List.mem_cons_of_mem _ hg)).2⟩)

theorem ts_remove_all (R : List Name) : ∀ (l : List File) (s : MonState), CInv R s →
    CInv R (l.foldl removeFile s) ∧
      ∀ g, g ∈ dkeys (l.foldl removeFile s).timestamps ↔ g ∈ dkeys s.timestamps ∧ g ∉ l := by
  intro l
  induction l with
  | nil => intro s h; exact ⟨h, by simp⟩
  | cons f r ih =>
    intro s h
    obtain ⟨h1, e1⟩ := cinv_remove R s f h
    obtain ⟨h2, e2⟩ := ih _ h1
    refine ⟨h2, ?_⟩
    intro g
    rw [List.foldl_cons, e2, e1, mem_dkeys_dpop]
    simp only [List.mem_cons, not_or]
    exact ⟨fun ⟨⟨a, b⟩, c⟩ => ⟨a, b, c⟩, fun ⟨a, b, c⟩ => ⟨⟨a, b⟩, c⟩⟩

theorem cinv_scanE (R : List Name) (s : MonState) (snap : DirSnapshot) (hw : snap.WF) (h : CInv2 R s) :
    Fine R (scanE R s snap) := by
  obtain ⟨h, htf⟩ := h
  unfold scanE
  simp only
  generalize hfiles : sortFiles (dkeys snap) = files
  generalize hadded : files.filter (fun f => !s.files.contains f) = added
  generalize hremoved : s.files.filter (fun f => !files.contains f) = removed
  generalize hs1 : ({ s with timestamps := added.foldl (fun ts f => dset ts f 0) s.timestamps } : MonState) = s1
  have hts1 : ∀ g, g ∈ dkeys s1.timestamps ↔ g ∈ dkeys s.timestamps ∨ g ∈ added := by
    intro g; subst hs1; exact seen_added added s.timestamps g
  have hc1 : CInv R s1 := by subst hs1; exact ⟨h.mapNodup, h.names, h.reserved⟩
  obtain ⟨hc2, hk2⟩ := ts_remove_all R removed s1 hc1
  generalize hs2 : removed.foldl removeFile s1 = s2 at hc2 hk2 ⊢
  have hside : ∀ g, g ∈ dkeys s2.timestamps → g ∈ files := by
    intro g hg
    obtain ⟨hg1, hg2⟩ := (hk2 g).mp hg
    rcases (hts1 g).mp hg1 with a | a
    · have hin := htf g a
      apply Classical.byContradiction
      intro hnot
      apply hg2
      rw [← hremoved]
      exact List.mem_filter.mpr ⟨hin, by simpa using hnot⟩
    · rw [← hadded] at a; exact (List.mem_filter.mp a).1
  have hc3 : CInv2 R { s2 with files := files } :=
    ⟨⟨hc2.mapNodup, hc2.names, hc2.reserved⟩, hside⟩
  apply cinv_visit_all R snap hw _ _ hc3
  intro g hg
  have hg' : g ∈ dkeys s2.timestamps := (mem_sortFiles _ _).mp hg
  refine ⟨?_, hg'⟩
  have := hside g hg'
  rw [← hfiles] at this
  exact (mem_sortFiles _ _).mp this

theorem cinv_init (R : List Name) (store0 : List (Name × PolId)) : CInv2 R (MonState.init R store0) := by
  refine ⟨⟨by simp [MonState.init, dkeys], ?_, ?_⟩, by intro f h; simp [MonState.init, dkeys] at h⟩
  · intro p hp
    have := (inv_init R store0).names p hp
    generalize tri (MonState.init R store0) p = t at this
    obtain ⟨a, b, c⟩ := t
    cases a <;> cases b <;> cases c <;> simp only [NRel] at this <;> simp [Coh]
    all_goals exact this.elim
  · intro p hp; rfl

theorem cinv_scan (R : List Name) (s : MonState) (snap : DirSnapshot) (hw : snap.WF) (h : CInv2 R s) :
    CInv2 R (scan R s snap) := by
  have := cinv_scanE R s snap hw h
  unfold scan
  cases hsc : scanE R s snap with
  | ok s' => rw [hsc] at this; exact this
  | error e => obtain ⟨s', x⟩ := e; rw [hsc] at this; exact this.1

theorem cinv_run (R : List Name) :
    ∀ (h : List DirSnapshot) (s : MonState), CInv2 R s → (∀ d ∈ h, d.WF) → CInv2 R (h.foldl (scan R) s) := by
  intro h
  induction h with
  | nil => intro s hs _; exact hs
  | cons d r ih =>
    intro s hs hw
    rw [List.foldl_cons]
    exact ih _ (cinv_scan R s d (hw d (List.mem_cons_self ..)) hs) (fun d' hd' => hw d' (List.mem_cons_of_mem _ hd'))

end Kmip.Mon
