/-
What a successful operation can do to the store: `processOperation_spec`.
Every engine-level property (C03, C04, C07, C08, C11, C15) is derived from this
single characterisation plus the definition of `applyEffect` / `processBatch`.
-/
import KmipModel.Lemmas.EngineSpec
namespace Kmip

def attrOps : List Nat := [Op.setAttribute, Op.modifyAttribute, Op.deleteAttribute]

def compromiseState (s : Nat) : Nat := if s == St.destroyed then St.destroyedCompromised else St.compromised

/-- `EffSpec c e op eff`: what operation `op` may do to the store when it succeeds. -/
inductive EffSpec (c : Ctx) (e : Engine) : Nat → Effect → Prop
  | none (op : Nat) : EffSpec c e op .none
  | insert (op : Nat) (os : List Obj) :
      (∀ o ∈ os, o.owner = e.identity.user ∧ o.initialDate = c.now ∧
                 (o.state = none ∨ o.state = some St.preActive) ∧
                 (o.otype ≠ OT.opaqueData → o.mask.isSome = true ∧ o.state.isSome = true) ∧
                 (op ≠ Op.register → o.otype ∈ storedTypes)) →
      EffSpec c e op (.insert os)
  | activate (o : Obj) : o ∈ e.store.objs → Allowed c e o Op.activate → o.state = some St.preActive →
      EffSpec c e Op.activate (.update { o with state := some St.active })
  | revokeCompromise (o : Obj) (s : Nat) : o ∈ e.store.objs → Allowed c e o Op.revoke → o.state = some s →
      EffSpec c e Op.revoke (.update { o with state := some (compromiseState s) })
  | revokeDeactivate (o : Obj) : o ∈ e.store.objs → Allowed c e o Op.revoke → o.state = some St.active →
      EffSpec c e Op.revoke (.update { o with state := some St.deactivated })
  | attr (o o' : Obj) (op : Nat) : o ∈ e.store.objs → Allowed c e o op → op ∈ attrOps → ProtEq o o' →
      EffSpec c e op (.update o')
  | destroy (o : Obj) : o ∈ e.store.objs → Allowed c e o Op.destroy → o.state ≠ some St.active →
      EffSpec c e Op.destroy (.delete o.uid)

/-- what a freshly constructed object looks like: pre-active (or stateless), with a usage mask
and a state unless it is an opaque object -/
def Fresh (o : Obj) : Prop :=
  (o.state = none ∨ o.state = some St.preActive) ∧
  (o.otype ≠ OT.opaqueData → o.mask.isSome = true ∧ o.state.isSome = true)

theorem newObj_fresh (ot : Nat) (v : String) : Fresh (newObj ot v) := by
  unfold newObj Fresh; simp only
  by_cases h : (ot == OT.opaqueData) = true
  · simp [h]; simpa using h
  · simp [h]

/-- `Fresh` only looks at the type, state and mask: records built from `newObj … with …` are fresh too -/
theorem fresh_of_fields {o : Obj} {ot : Nat} (ht : o.otype = ot)
    (hs : o.state = if ot == OT.opaqueData then none else some St.preActive)
    (hm : o.mask = if ot == OT.opaqueData then none else some 0) : Fresh o := by
  have := newObj_fresh ot ""
  unfold Fresh at *
  unfold newObj at this
  simp only at this
  rw [hs, hm, ht]; exact this

theorem newObj_state (ot : Nat) (v : String) :
    (newObj ot v).state = none ∨ (newObj ot v).state = some St.preActive := (newObj_fresh ot v).1

/-- an object built by a creating handler: `setAttrs` on a fresh object, then `finalize` -/
theorem inserted_ok {c : Ctx} {e : Engine} {o0 o : Obj} {d : AttrDict} {op : Nat}
    (h0 : Fresh o0) (ht : op ≠ Op.register → o0.otype ∈ storedTypes) (h : setAttrs c o0 d = .ok o) :
    (finalize c e o).owner = e.identity.user ∧ (finalize c e o).initialDate = c.now ∧
    ((finalize c e o).state = none ∨ (finalize c e o).state = some St.preActive) ∧
    ((finalize c e o).otype ≠ OT.opaqueData →
      (finalize c e o).mask.isSome = true ∧ (finalize c e o).state.isSome = true) ∧
    (op ≠ Op.register → (finalize c e o).otype ∈ storedTypes) := by
  have hc := setAttrs_core h
  refine ⟨rfl, rfl, ?_, ?_, ?_⟩
  · show o.state = none ∨ o.state = some St.preActive
    rw [hc.state]; exact h0.1
  · show o.otype ≠ OT.opaqueData → o.mask.isSome = true ∧ o.state.isSome = true
    intro hne
    rw [hc.otype] at hne
    have := h0.2 hne
    exact ⟨setAttrs_maskSome h this.1, by rw [hc.state]; exact this.2⟩
  · show op ≠ Op.register → o.otype ∈ storedTypes
    intro hop; rw [hc.otype]; exact ht hop

theorem derivedObj_fresh (ot : Nat) (a : Option Nat) (b : Nat) (v : String) : Fresh (derivedObj ot a b v) := by
  unfold derivedObj; split <;> exact fresh_of_fields rfl rfl rfl

theorem derivedObj_type (ot : Nat) (a : Option Nat) (b : Nat) (v : String) :
    (derivedObj ot a b v).otype ∈ storedTypes := by
  unfold derivedObj; split <;> simp [newObj, storedTypes]

/-- closes `EffSpec c e (.insert [finalize c e o])` from the anonymous `setAttrs … = .ok o` fact -/
macro "insert_one" : tactic =>
  `(tactic| (
    apply EffSpec.insert _
    intro o' ho'
    simp only [List.mem_singleton] at ho'
    subst ho'
    refine inserted_ok ?_ ?_ (by assumption)
    · first
      | exact derivedObj_fresh _ _ _ _
      | exact fresh_of_fields rfl rfl rfl
    · first
      | (intro _; exact derivedObj_type _ _ _ _)
      | (intro _; simp [newObj, storedTypes]; done)
      | (intro hne; exact absurd rfl hne)))

theorem opCreate_spec {c e ot t cr eff d} (h : opCreate c e ot t cr = .ok (eff, d)) : EffSpec c e Op.create eff := by
  unfold opCreate at h
  inv h
  strip h
  subst eff
  insert_one

theorem opRegister_spec {c e ot t ro eff d} (h : opRegister c e ot t ro = .ok (eff, d)) : EffSpec c e Op.register eff := by
  unfold opRegister at h
  inv h
  obtain ⟨_, h⟩ := h
  split at h
  · inv h
  · inv h
    strip h
    subst eff
    insert_one

theorem opDeriveKey_spec {c e ot us t cr eff d} (h : opDeriveKey c e ot us t cr = .ok (eff, d)) :
    EffSpec c e Op.deriveKey eff := by
  unfold opDeriveKey at h
  inv h
  strip h
  subst eff
  insert_one

theorem opCreateKeyPair_spec {c e cm pr pu cr eff d} (h : opCreateKeyPair c e cm pr pu cr = .ok (eff, d)) :
    EffSpec c e Op.createKeyPair eff := by
  unfold opCreateKeyPair at h
  inv h
  obtain ⟨_, _, _, _, _, _, _, _, _, _, _, _, _, _, po, hpo, so, hso, rfl, _⟩ := h
  apply EffSpec.insert _
  intro o' ho'
  simp only [List.mem_cons, List.mem_nil_iff, or_false] at ho'
  rcases ho' with rfl | rfl
  · exact inserted_ok (fresh_of_fields rfl rfl rfl) (fun _ => by simp [newObj, storedTypes]) hpo
  · exact inserted_ok (fresh_of_fields rfl rfl rfl) (fun _ => by simp [newObj, storedTypes]) hso

/-- closes goals of read-only handlers: every successful branch returns `.none` -/
macro "readonly_handler" h:ident : tactic =>
  `(tactic| (
    simp only [bind, Except.bind] at $h:ident
    split_all $h
    all_goals first
      | (simp [kerr, ierr, cryptoErr] at $h:ident; done)
      | (simp only [pure, Except.pure, Except.ok.injEq, Prod.mk.injEq] at $h:ident; rw [← ($h).1]; exact EffSpec.none _)))

theorem opLocate_spec {c e m o as eff d} (h : opLocate c e m o as = .ok (eff, d)) : EffSpec c e Op.locate eff := by
  unfold opLocate at h
  inv h
  strip h
  subst eff
  exact EffSpec.none _
theorem opGet_spec {c e u f cp w cr eff d} (h : opGet c e u f cp w cr = .ok (eff, d)) : EffSpec c e Op.get eff := by
  unfold opGet at h
  inv h
  obtain ⟨_, _, _, _, _, h⟩ := h
  split at h <;> inv h
  · strip h; subst eff; exact EffSpec.none _
  · strip h; subst eff; exact EffSpec.none _
theorem opGetAttributes_spec {c e u ns eff d} (h : opGetAttributes c e u ns = .ok (eff, d)) : EffSpec c e Op.getAttributes eff := by
  unfold opGetAttributes at h
  inv h
  strip h
  subst eff
  exact EffSpec.none _
theorem opGetAttributeList_spec {c e u eff d} (h : opGetAttributeList c e u = .ok (eff, d)) : EffSpec c e Op.getAttributeList eff := by
  unfold opGetAttributeList at h
  inv h
  strip h
  subst eff
  exact EffSpec.none _
theorem opQuery_spec {e fs eff d} {c : Ctx} (h : opQuery e fs = .ok (eff, d)) : EffSpec c e Op.query eff := by
  unfold opQuery at h
  inv h
  strip h
  subst eff
  exact EffSpec.none _
theorem opDiscoverVersions_spec {c e vs eff d} (h : opDiscoverVersions c e vs = .ok (eff, d)) : EffSpec c e Op.discoverVersions eff := by
  unfold opDiscoverVersions at h
  split at h <;> inv h <;> (obtain ⟨rfl, _⟩ := h; exact EffSpec.none _)
theorem cryptoResult_spec {c e u cr eff d} (op : Nat) (h : cryptoResult u cr = .ok (eff, d)) : EffSpec c e op eff := by
  unfold cryptoResult at h
  split at h
  · inv h; obtain ⟨rfl, _⟩ := h; exact EffSpec.none _
  · inv h; obtain ⟨rfl, _⟩ := h; exact EffSpec.none _
  · unfold cryptoErr at h; split at h <;> inv h
theorem opEncrypt_spec {c e u p cr eff d} (h : opEncrypt c e u p cr = .ok (eff, d)) : EffSpec c e Op.encrypt eff := by
  unfold opEncrypt at h; inv h; obtain ⟨_, _, h⟩ := h; exact cryptoResult_spec _ h
theorem opDecrypt_spec {c e u p cr eff d} (h : opDecrypt c e u p cr = .ok (eff, d)) : EffSpec c e Op.decrypt eff := by
  unfold opDecrypt at h; inv h; obtain ⟨_, _, h⟩ := h; exact cryptoResult_spec _ h
theorem opSign_spec {c e u p cr eff d} (h : opSign c e u p cr = .ok (eff, d)) : EffSpec c e Op.sign eff := by
  unfold opSign at h; inv h; obtain ⟨_, _, h⟩ := h; exact cryptoResult_spec _ h
theorem opSignatureVerify_spec {c e u p cr eff d} (h : opSignatureVerify c e u p cr = .ok (eff, d)) :
    EffSpec c e Op.signatureVerify eff := by
  unfold opSignatureVerify at h; inv h; obtain ⟨_, _, h⟩ := h; exact cryptoResult_spec _ h
theorem opMac_spec {c e u a dt cr eff d} (h : opMac c e u a dt cr = .ok (eff, d)) : EffSpec c e Op.mac eff := by
  unfold opMac at h
  inv h
  strip h
  exact cryptoResult_spec _ h

theorem opActivate_spec {c e u eff d} (h : opActivate c e u = .ok (eff, d)) : EffSpec c e Op.activate eff := by
  unfold opActivate at h
  inv h
  obtain ⟨o, ho, h⟩ := h
  have hg := getWithAccess_ok ho
  split at h
  · inv h
  · rename_i s hs
    inv h
    obtain ⟨hne, rfl, _⟩ := h
    simp at hne
    exact EffSpec.activate o hg.2.1 hg.2.2 (by rw [hs, hne])

theorem opRevoke_spec {c e u code eff d} (h : opRevoke c e u code = .ok (eff, d)) : EffSpec c e Op.revoke eff := by
  unfold opRevoke at h
  split at h
  · inv h
  · inv h
    obtain ⟨o, ho, h⟩ := h
    have hg := getWithAccess_ok ho
    split at h
    · inv h
    · rename_i s hs
      split at h
      · inv h
        obtain ⟨rfl, _⟩ := h
        exact EffSpec.revokeCompromise o s hg.2.1 hg.2.2 hs
      · inv h
        obtain ⟨hne, rfl, _⟩ := h
        simp at hne
        exact EffSpec.revokeDeactivate o hg.2.1 hg.2.2 (by rw [hs, hne])

theorem opDestroy_spec {c e u eff d} (h : opDestroy c e u = .ok (eff, d)) : EffSpec c e Op.destroy eff := by
  unfold opDestroy at h
  inv h
  obtain ⟨o, ho, hne, rfl, _⟩ := h
  have hg := getWithAccess_ok ho
  exact EffSpec.destroy o hg.2.1 hg.2.2 (by simpa using hne)

theorem ProtEq.withUid {o o' : Obj} (h : ProtEq o o') : ProtEq o { o' with uid := o.uid } :=
  ⟨⟨rfl, h.otype, h.owner, h.state, h.date, h.value, h.isKey, h.format, h.subtype⟩, h.alg, h.len, h.mask, h.policy⟩

theorem not_not_true {b : Bool} (h : ¬(!b) = true) : b = true := by cases b <;> simp_all

theorem setAttrs_single_prot {c : Ctx} {o o' : Obj} {n : String} {v : AVal} (hn : n ∉ protected4)
    (hm : c.isMultivalued n = .ok false)
    (h : setAttrs c o [(n, .single v)] = .ok o') : ProtEq o o' := by
  unfold setAttrs at h
  simp only [List.foldlM] at h
  inv h
  obtain ⟨o1, h1, rfl⟩ := h
  obtain ⟨_, _, _, h1⟩ := h1
  unfold setAttr at h1
  inv h1
  obtain ⟨b, hb, h1⟩ := h1
  rw [hm] at hb
  cases hb
  simp only [Bool.false_eq_true] at h1
  exact setSingle_prot hn h1.2

theorem opSetAttribute_spec {c e u a eff d} (hr : RulesProtect c)
    (h : opSetAttribute c e u a = .ok (eff, d)) : EffSpec c e Op.setAttribute eff := by
  unfold opSetAttribute at h
  inv h
  obtain ⟨o, ho, mv, hmv, hnm, md, hmd, hmod, o', hset, rfl, _⟩ := h
  have hg := getWithAccess_ok ho
  have hmv' : c.isMultivalued a.name = .ok false := by
    rw [hmv]; cases mv <;> simp_all
  have hmd' : c.isModifiable a.name = .ok true := by
    rw [hmd]; cases md <;> simp_all
  have hp := setAttrs_single_prot (modifiable_not_protected hr hmd') hmv' hset
  exact EffSpec.attr o _ _ hg.2.1 hg.2.2 (by simp [attrOps]) hp.withUid

theorem modifyCore_prot {c : Ctx} {ver : Nat} {o o' : Obj} {attr current new : Option TAttr} {r : Option TAttr}
    (hr : RulesProtect c) (h : modifyCore c ver o attr current new = .ok (o', r)) : ProtEq o o' := by
  unfold modifyCore at h
  split at h
  · split at h
    · inv h
    · inv h
      obtain ⟨md, hmd, hmod, hmis, mv, hmv, h⟩ := h
      have hmd' := hmd
      rw [show md = true by cases md <;> simp_all] at hmd'
      split at h
      · inv h
        obtain ⟨_, _, o1, h1, rfl, _⟩ := h
        exact setByIndex_prot h1
      · inv h
        obtain ⟨_, _, o1, h1, rfl, _⟩ := h
        exact setSingle_prot (modifiable_not_protected hr hmd') h1
  · split at h
    · inv h
    · inv h
      obtain ⟨md, hmd, hmod, mv, hmv, h⟩ := h
      have hmd' := hmd
      rw [show md = true by cases md <;> simp_all] at hmd'
      split at h
      · inv h
        obtain ⟨_, _, _, _, _, o1, h1, _, _, _, _, rfl, _⟩ := h
        exact setByIndex_prot h1
      · inv h
        obtain ⟨_, _, _, _, o1, h1, _, _, _, _, rfl, _⟩ := h
        exact setSingle_prot (modifiable_not_protected hr hmd') h1

theorem opModifyAttribute_spec {c e u a cu nw eff d} (hr : RulesProtect c)
    (h : opModifyAttribute c e u a cu nw = .ok (eff, d)) : EffSpec c e Op.modifyAttribute eff := by
  unfold opModifyAttribute at h
  inv h
  obtain ⟨o, ho, r, hr', rfl, _⟩ := h
  have hg := getWithAccess_ok ho
  have hp := modifyCore_prot (r := r.2) (o' := r.1) hr (by simpa using hr')
  exact EffSpec.attr o _ _ hg.2.1 hg.2.2 (by simp [attrOps]) hp.withUid

theorem deleteCore_prot {c : Ctx} {ver : Nat} {o o' : Obj} {name : Option String} {index : Option Int}
    {current : Option TAttr} {reference : Option String} {r : Option TAttr}
    (h : deleteCore c ver o name index current reference = .ok (o', r)) : ProtEq o o' := by
  unfold deleteCore at h
  split at h
  · split at h
    · inv h; obtain ⟨o1, h1, rfl, _⟩ := h; exact delAttr_prot h1
    · inv h; obtain ⟨o1, h1, rfl, _⟩ := h; exact delAttr_prot h1
    · inv h
  · split at h
    · inv h
    · inv h
      obtain ⟨_, _, _, _, _, o1, h1, rfl, _⟩ := h
      exact delAttr_prot h1

theorem opDeleteAttribute_spec {c e u n i cu r eff d}
    (h : opDeleteAttribute c e u n i cu r = .ok (eff, d)) : EffSpec c e Op.deleteAttribute eff := by
  unfold opDeleteAttribute at h
  inv h
  obtain ⟨o, ho, r, hr', rfl, _⟩ := h
  have hg := getWithAccess_ok ho
  have hp := deleteCore_prot (r := r.2) (o' := r.1) (by simpa using hr')
  exact EffSpec.attr o _ _ hg.2.1 hg.2.2 (by simp [attrOps]) hp.withUid

/-- **The single characterisation**: whatever a successful item does to the store
is one of the `EffSpec` shapes. -/
theorem processOperation_spec {c : Ctx} {e : Engine} {it : Item} {eff : Effect} {d : Data}
    (hr : RulesProtect c) (h : processOperation c e it = .ok (eff, d)) : EffSpec c e it.payload.op eff := by
  unfold processOperation at h
  split at h
  · inv h
  · split at h
    · inv h
    · split at h <;> rename_i hpay <;> rw [hpay] <;> simp only [Payload.op]
      · exact opCreate_spec h
      · exact opCreateKeyPair_spec h
      · exact opRegister_spec h
      · exact opDeriveKey_spec h
      · exact opLocate_spec h
      · exact opGet_spec h
      · exact opGetAttributes_spec h
      · exact opGetAttributeList_spec h
      · exact opActivate_spec h
      · exact opRevoke_spec h
      · exact opDestroy_spec h
      · exact opQuery_spec h
      · exact opDiscoverVersions_spec h
      · exact opEncrypt_spec h
      · exact opDecrypt_spec h
      · exact opSign_spec h
      · exact opSignatureVerify_spec h
      · exact opMac_spec h
      · exact opSetAttribute_spec hr h
      · exact opModifyAttribute_spec hr h
      · exact opDeleteAttribute_spec h
      · inv h

end Kmip
