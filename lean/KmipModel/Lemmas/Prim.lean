/-
Lemmas about M2 (`KmipModel/Prim.lean`): closed forms of the Python encoders under their guards, the
decoder on encoder output, and the comparison of `pyBigLen` with the specification's minimal length.
-/
import KmipModel.Prim
import KmipModel.Lemmas.TTLV
namespace Kmip.Prim
open Kmip.TTLV

/-- the values whose `write` succeeds -/
def PyVal.encodable : PyVal → Prop
  | .integer v => fitsTC 4 v
  | .longInteger v => fitsTC 8 v
  | .bigInteger v => pyBigLen v < 256 ^ 4
  | .enumeration v => 0 ≤ v ∧ v < 4294967296
  | .boolean _ => True
  | .textString cps => (∀ c ∈ cps, c < 128) ∧ cps.length < 256 ^ 4
  | .byteString s => s.length < 256 ^ 4
  | .dateTime v => fitsTC 8 v
  | .interval v => 0 ≤ v ∧ v < 4294967296

theorem fitsTC4_iff (v : Int) : fitsTC 4 v ↔ -2147483648 ≤ v ∧ v ≤ 2147483647 := by
  unfold fitsTC; simp only [Nat.reducePow]; omega

theorem fitsTC8_iff (v : Int) : fitsTC 8 v ↔ -9223372036854775808 ≤ v ∧ v ≤ 9223372036854775807 := by
  unfold fitsTC; simp only [Nat.reducePow]; omega

/-! ### text -/

theorem packText_ok (cps : List Nat) (h : ∀ c ∈ cps, c < 128) : packText cps = .ok (cps.map UInt8.ofNat) := by
  induction cps with
  | nil => rfl
  | cons c cs ih =>
    have hc : c < 128 := h c (by simp)
    have := ih (fun x hx => h x (by simp [hx]))
    simp [packText, hc, this, Except.map]

theorem packText_err (cps : List Nat) (h : ∃ c ∈ cps, 128 ≤ c) : packText cps = .error .nonAscii := by
  induction cps with
  | nil => obtain ⟨c, hc, _⟩ := h; cases hc
  | cons c cs ih =>
    by_cases hc : c < 128
    · obtain ⟨x, hx, hx2⟩ := h
      have : ∃ c ∈ cs, 128 ≤ c := by
        simp only [List.mem_cons] at hx
        rcases hx with rfl | hx
        · omega
        · exact ⟨x, hx, hx2⟩
      simp [packText, hc, ih this, Except.map]
    · simp [packText, hc]

theorem map_toNat_ofNat (cps : List Nat) (h : ∀ c ∈ cps, c < 128) :
    (cps.map UInt8.ofNat).map UInt8.toNat = cps := by
  induction cps with
  | nil => rfl
  | cons c cs ih =>
    have hc : c < 128 := h c (by simp)
    simp only [List.map_cons, List.cons.injEq]
    refine ⟨?_, ih (fun x hx => h x (by simp [hx]))⟩
    rw [UInt8.toNat_ofNat']; omega

theorem all_ascii (cps : List Nat) (h : ∀ c ∈ cps, c < 128) :
    (cps.map UInt8.ofNat).all (fun b => decide (b.toNat < 128)) = true := by
  induction cps with
  | nil => rfl
  | cons c cs ih =>
    have hc : c < 128 := h c (by simp)
    simp only [List.map_cons, List.all_cons, Bool.and_eq_true, decide_eq_true_eq]
    refine ⟨?_, ih (fun x hx => h x (by simp [hx]))⟩
    rw [UInt8.toNat_ofNat']; omega

/-! ### header -/

theorem readHeader_append (tag ty len : Nat) (r : Bytes)
    (ht : tag < 256 ^ 3) (hty : ty < 256 ^ 1) (hl : len < 256 ^ 4) :
    readHeader tag ty (be 3 tag ++ (be 1 ty ++ (be 4 len ++ r))) = .ok (len, r) := by
  unfold readHeader
  rw [takeExact_append' (be 3 tag) _ 3 (be_length _ _)]
  simp only [ofBE_be _ _ ht, if_true]
  rw [takeExact_append' (be 1 ty) _ 1 (be_length _ _)]
  simp only [ofBE_be _ _ hty, if_true]
  rw [takeExact_append' (be 4 len) _ 4 (be_length _ _)]
  simp only [ofBE_be _ _ hl]

theorem read4Pad_append (x : Nat) (r : Bytes) (hx : x < 256 ^ 4) :
    read4Pad (be 4 x ++ (zeros 4 ++ r)) = .ok (x, r) := by
  unfold read4Pad
  rw [takeExact_append' (be 4 x) _ 4 (be_length _ _)]
  simp only
  rw [takeExact_append' (zeros 4) _ 4 (zeros_length _)]
  simp [ofBE_be _ _ hx, zeros, ofBE]

theorem readPadded_append (vb r : Bytes) :
    readPadded vb.length (vb ++ (zeros (padLen vb.length) ++ r)) = .ok (vb, r) := by
  unfold readPadded
  rw [takeExact_append]
  simp only
  rw [takeExact_append' (zeros _) _ _ (zeros_length _)]
  simp [allZero_zeros]

/-! ### Big Integer: the Python width against the specification's minimal width -/

theorem bitlen_eq (n e : Nat) (h1 : 2 ^ e ≤ n) (h2 : n < 2 ^ (e + 1)) : bitlen n = e + 1 := by
  have hle := bitlen_le_of_lt_pow n (e + 1) h2
  have hlt := lt_two_pow_bitlen n
  have : 2 ^ e < 2 ^ bitlen n := Nat.lt_of_le_of_lt h1 hlt
  have := (Nat.pow_lt_pow_iff_right (by decide : 1 < 2)).mp this
  omega

theorem bitlen_mono_succ (m : Nat) : bitlen m ≤ bitlen (m + 1) ∧ bitlen (m + 1) ≤ bitlen m + 1 := by
  refine ⟨?_, ?_⟩
  · exact bitlen_le_of_lt_pow m _ (Nat.lt_trans (Nat.lt_succ_self m) (lt_two_pow_bitlen (m + 1)))
  · apply bitlen_le_of_lt_pow
    have := lt_two_pow_bitlen m
    rw [Nat.pow_succ]; omega

/-- the magnitude the specification's length is computed from -/
theorem bigLen_nonneg (v : Int) (h : 0 ≤ v) : bigLen v = pyBigLen v := by
  unfold bigLen pyBigLen
  rw [if_pos h]
  have : v.toNat = v.natAbs := by omega
  rw [this]

theorem bigLen_neg (v : Int) (h : v < 0) : bigLen v = 8 * (bitlen (v.natAbs - 1) / 64 + 1) := by
  unfold bigLen
  rw [if_neg (by omega)]
  have : (-v - 1).toNat = v.natAbs - 1 := by omega
  rw [this]

/-- Python's width is the minimal one, except for `v = -2^(64k-1)` where it is one 8-byte group longer -/
theorem pyBigLen_cases (v : Int) :
    pyBigLen v = bigLen v ∨ (∃ k : Nat, 0 < k ∧ v = -((2 ^ (64 * k - 1) : Nat) : Int) ∧ pyBigLen v = bigLen v + 8) := by
  by_cases h : 0 ≤ v
  · exact Or.inl (bigLen_nonneg v h).symm
  · have hneg : v < 0 := by omega
    rw [bigLen_neg v hneg]
    unfold pyBigLen
    have hm : v.natAbs = (v.natAbs - 1) + 1 := by omega
    generalize hmm : v.natAbs - 1 = m at *
    rw [hm]
    obtain ⟨h1, h2⟩ := bitlen_mono_succ m
    by_cases heq : bitlen (m + 1) / 64 = bitlen m / 64
    · left; rw [heq]
    · right
      have hb : bitlen (m + 1) = bitlen m + 1 := by
        rcases Nat.lt_or_ge (bitlen m) (bitlen (m + 1)) with hlt | hge
        · omega
        · have : bitlen (m + 1) = bitlen m := by omega
          rw [this] at heq; exact absurd rfl heq
      have hk : (bitlen m + 1) % 64 = 0 := by rw [hb] at heq; omega
      refine ⟨(bitlen m + 1) / 64, by omega, ?_, ?_⟩
      · have he : 64 * ((bitlen m + 1) / 64) - 1 = bitlen m := by omega
        rw [he]
        have hlo : 2 ^ (bitlen (m + 1) - 1) ≤ m + 1 := two_pow_le_of_bitlen (m + 1) (by omega)
        rw [hb, Nat.add_sub_cancel] at hlo
        have hhi := lt_two_pow_bitlen m
        have : m + 1 = 2 ^ bitlen m := by omega
        rw [← this]
        omega
      · rw [hb]; omega

/-- conversely, at every `v = -2^(64k-1)` the extra group is there -/
theorem pyBigLen_at_pow (k : Nat) (hk : 0 < k) :
    pyBigLen (-((2 ^ (64 * k - 1) : Nat) : Int)) = bigLen (-((2 ^ (64 * k - 1) : Nat) : Int)) + 8 := by
  have hpos : 0 < 2 ^ (64 * k - 1) := Nat.pow_pos (by decide)
  have hneg : -((2 ^ (64 * k - 1) : Nat) : Int) < 0 := by omega
  rw [bigLen_neg _ hneg]
  unfold pyBigLen
  have hna : (-((2 ^ (64 * k - 1) : Nat) : Int)).natAbs = 2 ^ (64 * k - 1) := by omega
  rw [hna]
  have h1 : bitlen (2 ^ (64 * k - 1)) = 64 * k - 1 + 1 :=
    bitlen_eq _ _ (Nat.le_refl _) (by rw [Nat.pow_succ]; omega)
  have h2 : bitlen (2 ^ (64 * k - 1) - 1) ≤ 64 * k - 1 := bitlen_le_of_lt_pow _ _ (by omega)
  have h3 : 64 * k - 1 ≤ bitlen (2 ^ (64 * k - 1) - 1) := by
    have := lt_two_pow_bitlen (2 ^ (64 * k - 1) - 1)
    by_cases hc : 64 * k - 1 ≤ bitlen (2 ^ (64 * k - 1) - 1)
    · exact hc
    · have hlt : bitlen (2 ^ (64 * k - 1) - 1) + 1 ≤ 64 * k - 1 := by omega
      have := Nat.pow_le_pow_right (by decide : 0 < 2) hlt
      rw [Nat.pow_succ] at this
      omega
  rw [h1]; omega

/-- `v` fits in `pyBigLen v` bytes (so the Python bit-string algorithm is plain two's complement) -/
theorem fits_pyBigLen (v : Int) : fitsTC (pyBigLen v) v := by
  unfold fitsTC pyBigLen
  have h := lt_two_pow_bitlen v.natAbs
  have hp : 2 * 2 ^ bitlen v.natAbs ≤ 256 ^ (8 * (bitlen v.natAbs / 64 + 1)) := by
    rw [pow256_eq, ← Nat.pow_succ']
    exact Nat.pow_le_pow_right (by decide) (by omega)
  generalize 256 ^ (8 * (bitlen v.natAbs / 64 + 1)) = P at *
  omega

/-- `v` fits in the specification's minimal length -/
theorem fits_bigLen (v : Int) : fitsTC (bigLen v) v := by
  by_cases h : 0 ≤ v
  · rw [bigLen_nonneg v h]; exact fits_pyBigLen v
  · have hneg : v < 0 := by omega
    rw [bigLen_neg v hneg]
    unfold fitsTC
    have hb := lt_two_pow_bitlen (v.natAbs - 1)
    have hp : 2 * 2 ^ bitlen (v.natAbs - 1) ≤ 256 ^ (8 * (bitlen (v.natAbs - 1) / 64 + 1)) := by
      rw [pow256_eq, ← Nat.pow_succ']
      exact Nat.pow_le_pow_right (by decide) (by omega)
    generalize 256 ^ (8 * (bitlen (v.natAbs - 1) / 64 + 1)) = P at *
    omega

/-- the bytes BigInteger.write produces are the `pyBigLen v`-byte two's complement of `v` -/
theorem big_value_eq (v : Int) :
    (if 0 ≤ v then be (pyBigLen v) v.natAbs else be (pyBigLen v) (256 ^ pyBigLen v - v.natAbs)) =
      be (pyBigLen v) (toTC (pyBigLen v) v) := by
  have hf := fits_pyBigLen v
  unfold fitsTC at hf
  generalize pyBigLen v = n at *
  have hp : (0 : Int) < ((256 ^ n : Nat) : Int) := by exact_mod_cast pow256_pos n
  unfold toTC
  split
  · rename_i h
    congr 1
    rw [Int.emod_eq_of_lt h (by omega)]
    omega
  · rename_i h
    congr 1
    have hm : v % ((256 ^ n : Nat) : Int) = v + ((256 ^ n : Nat) : Int) := by
      have : (v + ((256 ^ n : Nat) : Int)) % ((256 ^ n : Nat) : Int) = v + ((256 ^ n : Nat) : Int) :=
        Int.emod_eq_of_lt (by omega) (by omega)
      rw [← this, Int.add_emod_right]
    rw [hm]
    omega

/-! ### the Python encoder against the specification encoder -/

/-- the value as the specification reads it; a Big Integer with the length Python chose -/
def toSpec : PyVal → PVal
  | .integer v => .integer v
  | .longInteger v => .longInteger v
  | .bigInteger v => .bigInteger v (pyBigLen v)
  | .enumeration v => .enumeration v.toNat
  | .boolean b => .boolean b
  | .textString cps => .textString (cps.map UInt8.ofNat)
  | .byteString s => .byteString s
  | .dateTime v => .dateTime v
  | .interval v => .interval v.toNat

theorem padLen_mul8 (k : Nat) : padLen (8 * k) = 0 := by unfold padLen; omega

theorem toSpec_valid (v : PyVal) (h : v.encodable) : (toSpec v).Valid := by
  cases v with
  | bigInteger x =>
    simp only [PyVal.encodable] at h
    simp only [toSpec, PVal.Valid]
    refine ⟨by unfold pyBigLen; omega, by unfold pyBigLen; omega, h, fits_pyBigLen x⟩
  | enumeration x =>
    simp only [PyVal.encodable] at h
    simp only [toSpec, PVal.Valid, Nat.reducePow]; omega
  | interval x =>
    simp only [PyVal.encodable] at h
    simp only [toSpec, PVal.Valid, Nat.reducePow]; omega
  | textString cps =>
    simp only [PyVal.encodable] at h
    simp only [toSpec, PVal.Valid, List.length_map]; exact h.2
  | _ => simp only [toSpec, PVal.Valid, PyVal.encodable] at h ⊢ <;> exact h

/-- on everything it accepts, the Python encoder produces exactly the specification encoding of the value
(for a Big Integer: with the length Python chose, see `pyBigLen_cases`) -/
theorem pyEncode_eq (tag : Nat) (v : PyVal) (h : v.encodable) :
    pyEncode tag v = .ok (encode (.prim tag (toSpec v))) := by
  cases v with
  | integer x =>
    simp only [PyVal.encodable] at h
    simp [pyEncode, pyLength, pyValue, packSigned, h, Except.map, encode, header, toSpec, PVal.typeCode,
      PyVal.typeCode, PVal.valBytes, padLen]
  | longInteger x =>
    simp only [PyVal.encodable] at h
    simp [pyEncode, pyLength, pyValue, packSigned, h, Except.map, encode, header, toSpec, PVal.typeCode,
      PyVal.typeCode, PVal.valBytes, padLen, zeros]
  | bigInteger x =>
    simp only [PyVal.encodable] at h
    have hp : padLen (pyBigLen x) = 0 := padLen_mul8 _
    simp [pyEncode, pyLength, pyValue, h, encode, header, toSpec, PVal.typeCode,
      PyVal.typeCode, PVal.valBytes, hp, zeros, big_value_eq]
  | enumeration x =>
    simp only [PyVal.encodable] at h
    simp [pyEncode, pyLength, pyValue, packUnsigned, h.1, h.2, Except.map, encode, header, toSpec, PVal.typeCode,
      PyVal.typeCode, PVal.valBytes, padLen]
  | boolean b =>
    simp [pyEncode, pyLength, pyValue, encode, header, toSpec, PVal.typeCode,
      PyVal.typeCode, PVal.valBytes, padLen, zeros]
  | textString cps =>
    simp only [PyVal.encodable] at h
    simp [pyEncode, pyLength, pyValue, h.2, packText_ok cps h.1, Except.map, encode, header, toSpec, PVal.typeCode,
      PyVal.typeCode, PVal.valBytes]
  | byteString s =>
    simp only [PyVal.encodable] at h
    simp [pyEncode, pyLength, pyValue, h, encode, header, toSpec, PVal.typeCode,
      PyVal.typeCode, PVal.valBytes]
  | dateTime x =>
    simp only [PyVal.encodable] at h
    simp [pyEncode, pyLength, pyValue, packSigned, h, Except.map, encode, header, toSpec, PVal.typeCode,
      PyVal.typeCode, PVal.valBytes, padLen, zeros]
  | interval x =>
    simp only [PyVal.encodable] at h
    simp [pyEncode, pyLength, pyValue, packUnsigned, h.1, h.2, Except.map, encode, header, toSpec, PVal.typeCode,
      PyVal.typeCode, PVal.valBytes, padLen]

/-- outside `encodable` the Python encoder raises -/
theorem pyEncode_err (tag : Nat) (v : PyVal) (h : ¬ v.encodable) : ∃ e, pyEncode tag v = .error e := by
  cases v with
  | integer x =>
    simp only [PyVal.encodable] at h
    exact ⟨.packRange, by simp [pyEncode, pyLength, pyValue, packSigned, h, Except.map]⟩
  | longInteger x =>
    simp only [PyVal.encodable] at h
    exact ⟨.packRange, by simp [pyEncode, pyLength, pyValue, packSigned, h, Except.map]⟩
  | bigInteger x =>
    simp only [PyVal.encodable] at h
    exact ⟨.lengthOverflow, by simp [pyEncode, pyLength, h]⟩
  | enumeration x =>
    simp only [PyVal.encodable] at h
    exact ⟨.packRange, by simp [pyEncode, pyLength, pyValue, packUnsigned, h, Except.map]⟩
  | boolean b => exact absurd trivial h
  | textString cps =>
    simp only [PyVal.encodable] at h
    by_cases hl : cps.length < 256 ^ 4
    · have : ∃ c ∈ cps, 128 ≤ c := by
        apply Classical.byContradiction
        intro hn
        apply h
        refine ⟨fun c hc => ?_, hl⟩
        apply Classical.byContradiction
        intro hc2
        exact hn ⟨c, hc, by omega⟩
      exact ⟨.nonAscii, by simp [pyEncode, pyLength, pyValue, hl, packText_err cps this, Except.map]⟩
    · exact ⟨.lengthOverflow, by simp [pyEncode, pyLength, hl]⟩
  | byteString s =>
    simp only [PyVal.encodable] at h
    exact ⟨.lengthOverflow, by simp [pyEncode, pyLength, h]⟩
  | dateTime x =>
    simp only [PyVal.encodable] at h
    exact ⟨.packRange, by simp [pyEncode, pyLength, pyValue, packSigned, h, Except.map]⟩
  | interval x =>
    simp only [PyVal.encodable] at h
    exact ⟨.packRange, by simp [pyEncode, pyLength, pyValue, packUnsigned, h, Except.map]⟩

/-! ### the Python decoder on Python encoder output -/

theorem pyDecode_encode (tag : Nat) (v : PyVal) (member : Nat → Bool) (rest : Bytes)
    (ht : tag < 256 ^ 3) (h : v.encodable)
    (hm : ∀ x, v = .enumeration x → member x.toNat = true) :
    pyDecode v.typeCode tag member (encode (.prim tag (toSpec v)) ++ rest) = .ok (v, rest) := by
  have hvalid := toSpec_valid v h
  have hlen := valBytes_length_lt _ hvalid
  unfold pyDecode
  simp only [encode, header, List.append_assoc]
  have htc : (toSpec v).typeCode = v.typeCode := by cases v <;> rfl
  rw [htc, readHeader_append _ _ _ _ ht (by rw [← htc]; exact typeCode_lt _) hlen]
  cases v with
  | integer x =>
    simp only [PyVal.encodable] at h
    simp only [toSpec, PVal.valBytes, be_length, PyVal.typeCode]
    rw [show padLen 4 = 4 from rfl, read4Pad_append _ _ (toTC_lt 4 x)]
    simp [Except.map, ofTC_toTC 4 x h]
  | longInteger x =>
    simp only [PyVal.encodable] at h
    simp only [toSpec, PVal.valBytes, be_length, PyVal.typeCode]
    rw [show padLen 8 = 0 from rfl]
    simp only [zeros, List.replicate_zero, List.nil_append]
    rw [takeExact_append' (be 8 (toTC 8 x)) rest 8 (be_length _ _)]
    simp [ofBE_be _ _ (toTC_lt 8 x), ofTC_toTC 8 x h]
  | bigInteger x =>
    simp only [PyVal.encodable] at h
    simp only [toSpec, PVal.valBytes, be_length, PyVal.typeCode]
    have hp : padLen (pyBigLen x) = 0 := padLen_mul8 _
    rw [hp]
    simp only [zeros, List.replicate_zero, List.nil_append]
    rw [takeExact_append' (be (pyBigLen x) (toTC (pyBigLen x) x)) rest _ (be_length _ _)]
    have h8 : pyBigLen x % 8 = 0 := by unfold pyBigLen; omega
    have h0 : pyBigLen x ≠ 0 := by unfold pyBigLen; omega
    simp [h8, h0, ofBE_be _ _ (toTC_lt _ x), ofTC_toTC _ x (fits_pyBigLen x)]
  | enumeration x =>
    simp only [PyVal.encodable] at h
    have hx : x.toNat < 256 ^ 4 := by simp only [Nat.reducePow]; omega
    have hmem := hm x rfl
    simp only [toSpec, PVal.valBytes, be_length, PyVal.typeCode]
    rw [show padLen 4 = 4 from rfl, read4Pad_append _ _ hx]
    have : ((x.toNat : Nat) : Int) = x := by omega
    simp [hmem, this]
  | boolean b =>
    simp only [toSpec, PVal.valBytes, be_length, PyVal.typeCode]
    rw [show padLen 8 = 0 from rfl]
    simp only [zeros, List.replicate_zero, List.nil_append]
    rw [takeExact_append' (be 8 (if b = true then 1 else 0)) rest 8 (be_length _ _)]
    cases b <;> simp [be, ofBE]
  | textString cps =>
    simp only [PyVal.encodable] at h
    simp only [toSpec, PVal.valBytes, PyVal.typeCode]
    rw [readPadded_append]
    simp [all_ascii cps h.1, map_toNat_ofNat cps h.1]
  | byteString s =>
    simp only [toSpec, PVal.valBytes, PyVal.typeCode]
    rw [readPadded_append]
    simp [Except.map]
  | dateTime x =>
    simp only [PyVal.encodable] at h
    simp only [toSpec, PVal.valBytes, be_length, PyVal.typeCode]
    rw [show padLen 8 = 0 from rfl]
    simp only [zeros, List.replicate_zero, List.nil_append]
    rw [takeExact_append' (be 8 (toTC 8 x)) rest 8 (be_length _ _)]
    simp [ofBE_be _ _ (toTC_lt 8 x), ofTC_toTC 8 x h]
  | interval x =>
    simp only [PyVal.encodable] at h
    have hx : x.toNat < 256 ^ 4 := by simp only [Nat.reducePow]; omega
    simp only [toSpec, PVal.valBytes, be_length, PyVal.typeCode]
    rw [show padLen 4 = 4 from rfl, read4Pad_append _ _ hx]
    have : ((x.toNat : Nat) : Int) = x := by omega
    simp [Except.map, this]

end Kmip.Prim
