/-
Lemmas about M2 (`KmipModel/Prim.lean`): closed forms of the Python encoders under their guards, the
decoder on encoder output, and the comparison of `pyBigLen` with the specification's minimal length.
-/
import KmipModel.Prim
import KmipModel.Lemmas.TTLV
namespace Kmip.Prim
open Kmip.TTLV

/-- the values whose `write` succeeds -/
def PyVal.encodable : PyVal → Prop
  | .integer v => fitsTC 4 v
  | .longInteger v => fitsTC 8 v
  | .bigInteger v => pyBigLen v < 256 ^ 4
  | .enumeration v => 0 ≤ v ∧ v < 4294967296
  | .boolean _ => True
  | .textString s => validUtf8 s = true ∧ s.length < 256 ^ 4
  | .byteString s => s.length < 256 ^ 4
  | .dateTime v => fitsTC 8 v
  | .interval v => 0 ≤ v ∧ v < 4294967296

theorem fitsTC4_iff (v : Int) : fitsTC 4 v ↔ -2147483648 ≤ v ∧ v ≤ 2147483647 := by
  unfold fitsTC; simp only [Nat.reducePow]; omega

theorem fitsTC8_iff (v : Int) : fitsTC 8 v ↔ -9223372036854775808 ≤ v ∧ v ≤ 9223372036854775807 := by
  unfold fitsTC; simp only [Nat.reducePow]; omega

/-! ### text -/

theorem packText_ok (s : Bytes) (h : validUtf8 s = true) : packText s = .ok s := by simp [packText, h]

theorem packText_err (s : Bytes) (h : ¬ validUtf8 s = true) : packText s = .error .notUtf8 := by simp [packText, h]

/-! ### header -/

theorem readHeader_append (tag ty len : Nat) (r : Bytes)
    (ht : tag < 256 ^ 3) (hty : ty < 256 ^ 1) (hl : len < 256 ^ 4) :
    readHeader tag ty (be 3 tag ++ (be 1 ty ++ (be 4 len ++ r))) = .ok (len, r) := by
  unfold readHeader
  rw [takeExact_append' (be 3 tag) _ 3 (be_length _ _)]
  simp only [ofBE_be _ _ ht, if_true]
  rw [takeExact_append' (be 1 ty) _ 1 (be_length _ _)]
  simp only [ofBE_be _ _ hty, if_true]
  rw [takeExact_append' (be 4 len) _ 4 (be_length _ _)]
  simp only [ofBE_be _ _ hl]

theorem read4Pad_append (x : Nat) (r : Bytes) (hx : x < 256 ^ 4) :
    read4Pad (be 4 x ++ (zeros 4 ++ r)) = .ok (x, r) := by
  unfold read4Pad
  rw [takeExact_append' (be 4 x) _ 4 (be_length _ _)]
  simp only
  rw [takeExact_append' (zeros 4) _ 4 (zeros_length _)]
  simp [ofBE_be _ _ hx, zeros, ofBE]

theorem readPadded_append (vb r : Bytes) :
    readPadded vb.length (vb ++ (zeros (padLen vb.length) ++ r)) = .ok (vb, r) := by
  unfold readPadded
  rw [takeExact_append]
  simp only
  rw [takeExact_append' (zeros _) _ _ (zeros_length _)]
  simp [allZero_zeros]

/-! ### Big Integer: the Python width against the specification's minimal width -/

theorem bitlen_eq (n e : Nat) (h1 : 2 ^ e ≤ n) (h2 : n < 2 ^ (e + 1)) : bitlen n = e + 1 := by
  have hle := bitlen_le_of_lt_pow n (e + 1) h2
  have hlt := lt_two_pow_bitlen n
  have : 2 ^ e < 2 ^ bitlen n := Nat.lt_of_le_of_lt h1 hlt
  have := (Nat.pow_lt_pow_iff_right (by decide : 1 < 2)).mp this
  omega

theorem bitlen_mono_succ (m : Nat) : bitlen m ≤ bitlen (m + 1) ∧ bitlen (m + 1) ≤ bitlen m + 1 := by
  refine ⟨?_, ?_⟩
  · exact bitlen_le_of_lt_pow m _ (Nat.lt_trans (Nat.lt_succ_self m) (lt_two_pow_bitlen (m + 1)))
  · apply bitlen_le_of_lt_pow
    have := lt_two_pow_bitlen m
    rw [Nat.pow_succ]; omega

/-- **the Python width is the specification's minimal width** -/
theorem pyBigLen_eq_bigLen (v : Int) : pyBigLen v = bigLen v := by
  unfold pyBigLen bigLen
  by_cases h : 0 ≤ v
  · rw [if_pos h, if_pos h]
    have : v.toNat = v.natAbs := by omega
    rw [this]
  · rw [if_neg h, if_neg h]
    have : (-v - 1).toNat = v.natAbs - 1 := by omega
    rw [this]

/-- `v` fits in `pyBigLen v` bytes (so the Python bit-string algorithm is plain two's complement) -/
theorem fits_pyBigLen (v : Int) : fitsTC (pyBigLen v) v := by
  unfold fitsTC pyBigLen
  by_cases h : 0 ≤ v
  · rw [if_pos h]
    have hb := lt_two_pow_bitlen v.natAbs
    have hp : 2 * 2 ^ bitlen v.natAbs ≤ 256 ^ (8 * (bitlen v.natAbs / 64 + 1)) := by
      rw [pow256_eq, ← Nat.pow_succ']
      exact Nat.pow_le_pow_right (by decide) (by omega)
    generalize 256 ^ (8 * (bitlen v.natAbs / 64 + 1)) = P at *
    omega
  · rw [if_neg h]
    have hb := lt_two_pow_bitlen (v.natAbs - 1)
    have hp : 2 * 2 ^ bitlen (v.natAbs - 1) ≤ 256 ^ (8 * (bitlen (v.natAbs - 1) / 64 + 1)) := by
      rw [pow256_eq, ← Nat.pow_succ']
      exact Nat.pow_le_pow_right (by decide) (by omega)
    generalize 256 ^ (8 * (bitlen (v.natAbs - 1) / 64 + 1)) = P at *
    omega

/-- `v` fits in the specification's minimal length -/
theorem fits_bigLen (v : Int) : fitsTC (bigLen v) v := by
  rw [← pyBigLen_eq_bigLen]; exact fits_pyBigLen v

/-- the minimal length really is minimal: `v` does not fit in 8 bytes less -/
theorem bigLen_minimal (v : Int) (h : 8 < bigLen v) : ¬ fitsTC (bigLen v - 8) v := by
  rw [← pyBigLen_eq_bigLen] at h ⊢
  unfold pyBigLen at h ⊢
  unfold fitsTC
  generalize hm : (if 0 ≤ v then v.natAbs else v.natAbs - 1) = m at *
  have hq : 0 < bitlen m / 64 := by omega
  have hm0 : m ≠ 0 := by
    intro h0; subst h0; unfold bitlen at hq; simp at hq
  have hlo := two_pow_le_of_bitlen m hm0
  have he : 8 * (bitlen m / 64 + 1) - 8 = 8 * (bitlen m / 64) := by omega
  rw [he]
  have hp : 256 ^ (8 * (bitlen m / 64)) ≤ 2 * 2 ^ (bitlen m - 1) := by
    rw [pow256_eq, ← Nat.pow_succ']
    exact Nat.pow_le_pow_right (by decide) (by omega)
  generalize 256 ^ (8 * (bitlen m / 64)) = P at *
  generalize 2 ^ (bitlen m - 1) = Q at *
  intro ⟨h1, h2⟩
  by_cases hv : 0 ≤ v
  · rw [if_pos hv] at hm; omega
  · rw [if_neg hv] at hm; omega

/-- the bytes BigInteger.write produces are the `pyBigLen v`-byte two's complement of `v` -/
theorem big_value_eq (v : Int) :
    (if 0 ≤ v then be (pyBigLen v) v.natAbs else be (pyBigLen v) (256 ^ pyBigLen v - v.natAbs)) =
      be (pyBigLen v) (toTC (pyBigLen v) v) := by
  have hf := fits_pyBigLen v
  unfold fitsTC at hf
  generalize pyBigLen v = n at *
  have hp : (0 : Int) < ((256 ^ n : Nat) : Int) := by exact_mod_cast pow256_pos n
  unfold toTC
  split
  · rename_i h
    congr 1
    rw [Int.emod_eq_of_lt h (by omega)]
    omega
  · rename_i h
    congr 1
    have hm : v % ((256 ^ n : Nat) : Int) = v + ((256 ^ n : Nat) : Int) := by
      have : (v + ((256 ^ n : Nat) : Int)) % ((256 ^ n : Nat) : Int) = v + ((256 ^ n : Nat) : Int) :=
        Int.emod_eq_of_lt (by omega) (by omega)
      rw [← this, Int.add_emod_right]
    rw [hm]
    omega

/-! ### the Python encoder against the specification encoder -/

/-- the value as the specification reads it (a Big Integer with the length Python chose, which is the minimal one) -/
def toSpec : PyVal → PVal
  | .integer v => .integer v
  | .longInteger v => .longInteger v
  | .bigInteger v => .bigInteger v (pyBigLen v)
  | .enumeration v => .enumeration v.toNat
  | .boolean b => .boolean b
  | .textString s => .textString s
  | .byteString s => .byteString s
  | .dateTime v => .dateTime v
  | .interval v => .interval v.toNat

theorem padLen_mul8 (k : Nat) : padLen (8 * k) = 0 := by unfold padLen; omega

theorem toSpec_valid (v : PyVal) (h : v.encodable) : (toSpec v).Valid := by
  cases v with
  | bigInteger x =>
    simp only [PyVal.encodable] at h
    simp only [toSpec, PVal.Valid]
    refine ⟨by unfold pyBigLen; omega, by unfold pyBigLen; omega, h, fits_pyBigLen x⟩
  | enumeration x =>
    simp only [PyVal.encodable] at h
    simp only [toSpec, PVal.Valid, Nat.reducePow]; omega
  | interval x =>
    simp only [PyVal.encodable] at h
    simp only [toSpec, PVal.Valid, Nat.reducePow]; omega
  | textString cps =>
    simp only [PyVal.encodable] at h
    simp only [toSpec, PVal.Valid]; exact h.2
  | _ => simp only [toSpec, PVal.Valid, PyVal.encodable] at h ⊢ <;> exact h

/-- the specification reading is canonical: no redundant sign-extension group -/
theorem toSpec_minimal (v : PyVal) : (toSpec v).minimal = true := by
  cases v <;> simp [toSpec, PVal.minimal, pyBigLen_eq_bigLen]

/-- on everything it accepts, the Python encoder produces exactly the specification encoding of the value -/
theorem pyEncode_eq (tag : Nat) (v : PyVal) (h : v.encodable) :
    pyEncode tag v = .ok (encode (.prim tag (toSpec v))) := by
  cases v with
  | integer x =>
    simp only [PyVal.encodable] at h
    simp [pyEncode, pyLength, pyValue, packSigned, h, Except.map, encode, header, toSpec, PVal.typeCode,
      PyVal.typeCode, PVal.valBytes, padLen]
  | longInteger x =>
    simp only [PyVal.encodable] at h
    simp [pyEncode, pyLength, pyValue, packSigned, h, Except.map, encode, header, toSpec, PVal.typeCode,
      PyVal.typeCode, PVal.valBytes, padLen, zeros]
  | bigInteger x =>
    simp only [PyVal.encodable] at h
    have hp : padLen (pyBigLen x) = 0 := padLen_mul8 _
    simp [pyEncode, pyLength, pyValue, h, encode, header, toSpec, PVal.typeCode,
      PyVal.typeCode, PVal.valBytes, hp, zeros, big_value_eq]
  | enumeration x =>
    simp only [PyVal.encodable] at h
    simp [pyEncode, pyLength, pyValue, packUnsigned, h.1, h.2, Except.map, encode, header, toSpec, PVal.typeCode,
      PyVal.typeCode, PVal.valBytes, padLen]
  | boolean b =>
    simp [pyEncode, pyLength, pyValue, encode, header, toSpec, PVal.typeCode,
      PyVal.typeCode, PVal.valBytes, padLen, zeros]
  | textString cps =>
    simp only [PyVal.encodable] at h
    simp [pyEncode, pyLength, pyValue, h.2, packText_ok cps h.1, Except.map, encode, header, toSpec, PVal.typeCode,
      PyVal.typeCode, PVal.valBytes]
  | byteString s =>
    simp only [PyVal.encodable] at h
    simp [pyEncode, pyLength, pyValue, h, encode, header, toSpec, PVal.typeCode,
      PyVal.typeCode, PVal.valBytes]
  | dateTime x =>
    simp only [PyVal.encodable] at h
    simp [pyEncode, pyLength, pyValue, packSigned, h, Except.map, encode, header, toSpec, PVal.typeCode,
      PyVal.typeCode, PVal.valBytes, padLen, zeros]
  | interval x =>
    simp only [PyVal.encodable] at h
    simp [pyEncode, pyLength, pyValue, packUnsigned, h.1, h.2, Except.map, encode, header, toSpec, PVal.typeCode,
      PyVal.typeCode, PVal.valBytes, padLen]

/-- outside `encodable` the Python encoder raises -/
theorem pyEncode_err (tag : Nat) (v : PyVal) (h : ¬ v.encodable) : ∃ e, pyEncode tag v = .error e := by
  cases v with
  | integer x =>
    simp only [PyVal.encodable] at h
    exact ⟨.packRange, by simp [pyEncode, pyLength, pyValue, packSigned, h, Except.map]⟩
  | longInteger x =>
    simp only [PyVal.encodable] at h
    exact ⟨.packRange, by simp [pyEncode, pyLength, pyValue, packSigned, h, Except.map]⟩
  | bigInteger x =>
    simp only [PyVal.encodable] at h
    exact ⟨.lengthOverflow, by simp [pyEncode, pyLength, h]⟩
  | enumeration x =>
    simp only [PyVal.encodable] at h
    exact ⟨.packRange, by simp [pyEncode, pyLength, pyValue, packUnsigned, h, Except.map]⟩
  | boolean b => exact absurd trivial h
  | textString cps =>
    simp only [PyVal.encodable] at h
    by_cases hl : cps.length < 256 ^ 4
    · have hn : ¬ validUtf8 cps = true := fun hv => h ⟨hv, hl⟩
      exact ⟨.notUtf8, by simp [pyEncode, pyLength, pyValue, hl, packText_err cps hn, Except.map]⟩
    · exact ⟨.lengthOverflow, by simp [pyEncode, pyLength, hl]⟩
  | byteString s =>
    simp only [PyVal.encodable] at h
    exact ⟨.lengthOverflow, by simp [pyEncode, pyLength, h]⟩
  | dateTime x =>
    simp only [PyVal.encodable] at h
    exact ⟨.packRange, by simp [pyEncode, pyLength, pyValue, packSigned, h, Except.map]⟩
  | interval x =>
    simp only [PyVal.encodable] at h
    exact ⟨.packRange, by simp [pyEncode, pyLength, pyValue, packUnsigned, h, Except.map]⟩

/-! ### the Python decoder on Python encoder output -/

theorem pyDecode_encode (tag : Nat) (v : PyVal) (member : Nat → Bool) (rest : Bytes)
    (ht : tag < 256 ^ 3) (h : v.encodable)
    (hm : ∀ x, v = .enumeration x → member x.toNat = true) :
    pyDecode v.typeCode tag member (encode (.prim tag (toSpec v)) ++ rest) = .ok (v, rest) := by
  have hvalid := toSpec_valid v h
  have hlen := valBytes_length_lt _ hvalid
  unfold pyDecode
  simp only [encode, header, List.append_assoc]
  have htc : (toSpec v).typeCode = v.typeCode := by cases v <;> rfl
  rw [htc, readHeader_append _ _ _ _ ht (by rw [← htc]; exact typeCode_lt _) hlen]
  cases v with
  | integer x =>
    simp only [PyVal.encodable] at h
    simp only [toSpec, PVal.valBytes, be_length, PyVal.typeCode]
    rw [show padLen 4 = 4 from rfl, read4Pad_append _ _ (toTC_lt 4 x)]
    simp [Except.map, ofTC_toTC 4 x h]
  | longInteger x =>
    simp only [PyVal.encodable] at h
    simp only [toSpec, PVal.valBytes, be_length, PyVal.typeCode]
    rw [show padLen 8 = 0 from rfl]
    simp only [zeros, List.replicate_zero, List.nil_append]
    rw [takeExact_append' (be 8 (toTC 8 x)) rest 8 (be_length _ _)]
    simp [ofBE_be _ _ (toTC_lt 8 x), ofTC_toTC 8 x h]
  | bigInteger x =>
    simp only [PyVal.encodable] at h
    simp only [toSpec, PVal.valBytes, be_length, PyVal.typeCode]
    have hp : padLen (pyBigLen x) = 0 := padLen_mul8 _
    rw [hp]
    simp only [zeros, List.replicate_zero, List.nil_append]
    rw [takeExact_append' (be (pyBigLen x) (toTC (pyBigLen x) x)) rest _ (be_length _ _)]
    have h8 : pyBigLen x % 8 = 0 := by unfold pyBigLen; omega
    have h0 : pyBigLen x ≠ 0 := by unfold pyBigLen; omega
    simp [h8, h0, ofBE_be _ _ (toTC_lt _ x), ofTC_toTC _ x (fits_pyBigLen x)]
  | enumeration x =>
    simp only [PyVal.encodable] at h
    have hx : x.toNat < 256 ^ 4 := by simp only [Nat.reducePow]; omega
    have hmem := hm x rfl
    simp only [toSpec, PVal.valBytes, be_length, PyVal.typeCode]
    rw [show padLen 4 = 4 from rfl, read4Pad_append _ _ hx]
    have : ((x.toNat : Nat) : Int) = x := by omega
    simp [hmem, this]
  | boolean b =>
    simp only [toSpec, PVal.valBytes, be_length, PyVal.typeCode]
    rw [show padLen 8 = 0 from rfl]
    simp only [zeros, List.replicate_zero, List.nil_append]
    rw [takeExact_append' (be 8 (if b = true then 1 else 0)) rest 8 (be_length _ _)]
    cases b <;> simp [be, ofBE]
  | textString cps =>
    simp only [PyVal.encodable] at h
    simp only [toSpec, PVal.valBytes, PyVal.typeCode]
    rw [readPadded_append]
    simp [h.1]
  | byteString s =>
    simp only [toSpec, PVal.valBytes, PyVal.typeCode]
    rw [readPadded_append]
    simp [Except.map]
  | dateTime x =>
    simp only [PyVal.encodable] at h
    simp only [toSpec, PVal.valBytes, be_length, PyVal.typeCode]
    rw [show padLen 8 = 0 from rfl]
    simp only [zeros, List.replicate_zero, List.nil_append]
    rw [takeExact_append' (be 8 (toTC 8 x)) rest 8 (be_length _ _)]
    simp [ofBE_be _ _ (toTC_lt 8 x), ofTC_toTC 8 x h]
  | interval x =>
    simp only [PyVal.encodable] at h
    have hx : x.toNat < 256 ^ 4 := by simp only [Nat.reducePow]; omega
    simp only [toSpec, PVal.valBytes, be_length, PyVal.typeCode]
    rw [show padLen 4 = 4 from rfl, read4Pad_append _ _ hx]
    have : ((x.toNat : Nat) : Int) = x := by omega
    simp [Except.map, this]

end Kmip.Prim
