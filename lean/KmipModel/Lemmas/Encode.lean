/-
Helper lemmas for the response-encoding model (M15, `KmipModel/Encode.lean`):
  * `valid_of_local`: an item tree whose tags are standard and whose fixed-width values fit, and whose ENCODING is
    shorter than 2^32 bytes, is `Item.Valid` (every inner length is bounded by the outer one);
  * what `encData` / `itemOf` / `responseItem` build is locally encodable under the explicit range predicate;
  * what they build passes the version gates (`gatingFaults`).
Core Lean only.
-/
import KmipModel.Encode
import KmipModel.Lemmas.TTLV
import KmipModel.Props.C02Engine
namespace Kmip.Encode
open Kmip Kmip.TTLV Kmip.Decode
open Kmip.EngineResponse (bytesOf verPair)

/-! ### validity from local conditions and the total length -/

def pvalLocal : PVal → Bool
  | .integer v => decide (fitsTC 4 v)
  | .longInteger v => decide (fitsTC 8 v)
  | .bigInteger v len => decide (len % 8 = 0 ∧ 0 < len ∧ fitsTC len v)
  | .enumeration v => decide (v < 256 ^ 4)
  | .boolean _ => true
  | .textString _ => true
  | .byteString _ => true
  | .dateTime v => decide (fitsTC 8 v)
  | .interval v => decide (v < 256 ^ 4)

mutual
/-- standard tags everywhere, every fixed-width value in its range (lengths are not looked at) -/
def localOk : TItem → Bool
  | .prim t v => tagOk t && pvalLocal v
  | .struct t ks => tagOk t && localOkL ks
def localOkL : List TItem → Bool
  | [] => true
  | i :: is => localOk i && localOkL is
end

theorem localOkL_all (ks : List TItem) : localOkL ks = ks.all localOk := by
  induction ks with
  | nil => rfl
  | cons i is ih => simp only [localOkL, List.all_cons, ih]

theorem localOkL_append (a b : List TItem) : localOkL (a ++ b) = (localOkL a && localOkL b) := by
  simp only [localOkL_all, List.all_append]

theorem pval_valid_of_local (v : PVal) (h : pvalLocal v = true) (hl : v.valBytes.length < 256 ^ 4) : v.Valid := by
  cases v with
  | integer x => simpa [pvalLocal, PVal.Valid] using h
  | longInteger x => simpa [pvalLocal, PVal.Valid] using h
  | bigInteger x len =>
    simp only [pvalLocal, decide_eq_true_eq] at h
    simp only [PVal.valBytes, be_length] at hl
    exact ⟨h.1, h.2.1, hl, h.2.2⟩
  | enumeration x => simpa [pvalLocal, PVal.Valid] using h
  | boolean b => trivial
  | textString s => simpa [PVal.Valid, PVal.valBytes] using hl
  | byteString s => simpa [PVal.Valid, PVal.valBytes] using hl
  | dateTime x => simpa [pvalLocal, PVal.Valid] using h
  | interval x => simpa [pvalLocal, PVal.Valid] using h

mutual
/-- **Local validity and a total length below 2^32 give validity.** -/
theorem valid_of_local : ∀ (i : TItem), localOk i = true → (encode i).length < 256 ^ 4 → i.Valid
  | .prim t v, h, hl => by
    simp only [localOk, Bool.and_eq_true] at h
    simp only [encode, List.length_append, header_length, zeros_length] at hl
    simp only [Item.Valid]
    exact ⟨h.1, pval_valid_of_local v h.2 (by omega)⟩
  | .struct t ks, h, hl => by
    simp only [localOk, Bool.and_eq_true] at h
    simp only [encode, List.length_append, header_length] at hl
    simp only [Item.Valid]
    exact ⟨h.1, validList_of_local ks h.2 (by omega), by omega⟩
theorem validList_of_local : ∀ (ks : List TItem), localOkL ks = true → (encodeList ks).length < 256 ^ 4 → validList ks
  | [], _, _ => by simp only [validList]
  | i :: is, h, hl => by
    simp only [localOkL, Bool.and_eq_true] at h
    simp only [encodeList, List.length_append] at hl
    simp only [validList]
    exact ⟨valid_of_local i h.1 (by omega), validList_of_local is h.2 (by omega)⟩
end

mutual
/-- a valid item is locally valid (used for the oracle subtrees, which are checked with `Item.validB`) -/
theorem local_of_valid : ∀ (i : TItem), i.Valid → localOk i = true
  | .prim t v, h => by
    simp only [Item.Valid] at h
    simp only [localOk, Bool.and_eq_true]
    refine ⟨h.1, ?_⟩
    cases v <;> simp_all [pvalLocal, PVal.Valid]
  | .struct t ks, h => by
    simp only [Item.Valid] at h
    simp only [localOk, Bool.and_eq_true]
    exact ⟨h.1, localL_of_valid ks h.2.1⟩
theorem localL_of_valid : ∀ (ks : List TItem), validList ks → localOkL ks = true
  | [], _ => rfl
  | i :: is, h => by
    simp only [validList] at h
    simp only [localOkL, Bool.and_eq_true]
    exact ⟨local_of_valid i h.1, localL_of_valid is h.2⟩
end

/-! ### the range predicates, in the vocabulary of M1 -/

theorem u32_iff (n : Nat) : u32 n = true ↔ n < 256 ^ 4 := by
  simp only [u32, decide_eq_true_eq]

theorem i32_iff (n : Int) : i32 n = true ↔ fitsTC 4 n := by
  simp only [i32, decide_eq_true_eq, fitsTC]
  have : ((256 ^ 4 : Nat) : Int) = 4294967296 := by decide
  rw [this]; omega

theorem i64_iff (n : Int) : i64 n = true ↔ fitsTC 8 n := by
  simp only [i64, decide_eq_true_eq, fitsTC]
  have : ((256 ^ 8 : Nat) : Int) = 18446744073709551616 := by decide
  rw [this]; omega

theorem optAll_some {α} (p : α → Bool) (a : α) : optAll p (some a) = p a := rfl

/-! ### leaves -/

theorem local_txt (t : Nat) (s : String) (ht : tagOk t = true) : localOk (txt t s) = true := by
  simp [txt, localOk, pvalLocal, ht]

theorem local_byt (t : Nat) (b : Bytes) (ht : tagOk t = true) : localOk (byt t b) = true := by
  simp [byt, localOk, pvalLocal, ht]

theorem local_enm (t n : Nat) (ht : tagOk t = true) (hn : u32 n = true) : localOk (enm t n) = true := by
  simp [enm, localOk, pvalLocal, ht, (u32_iff n).1 hn]

theorem local_int (t : Nat) (n : Int) (ht : tagOk t = true) (hn : i32 n = true) : localOk (int t n) = true := by
  simp [int, localOk, pvalLocal, ht, (i32_iff n).1 hn]

theorem local_struct (t : Nat) (ks : List TItem) (ht : tagOk t = true) (hk : localOkL ks = true) :
    localOk (.struct t ks) = true := by
  simp [localOk, ht, hk]

theorem localOkL_cons (i : TItem) (is : List TItem) : localOkL (i :: is) = (localOk i && localOkL is) := rfl
theorem localOkL_nil : localOkL [] = true := rfl

theorem local_optL {α} (o : Option α) (f : α → TItem) (h : ∀ a, o = some a → localOk (f a) = true) :
    localOkL (optL o f) = true := by
  cases o with
  | none => rfl
  | some a => simp [optL, localOkL, h a rfl]

theorem localOkL_map {α} (l : List α) (f : α → TItem) (h : ∀ a ∈ l, localOk (f a) = true) :
    localOkL (l.map f) = true := by
  rw [localOkL_all, List.all_eq_true]
  intro x hx
  obtain ⟨a, ha, rfl⟩ := List.mem_map.1 hx
  exact h a ha

theorem localOkL_filter (l : List TItem) (p : TItem → Bool) (h : localOkL l = true) : localOkL (l.filter p) = true := by
  rw [localOkL_all, List.all_eq_true] at *
  intro x hx
  exact h x (List.mem_filter.1 hx).1

theorem mapO_some {α β} (f : α → Option β) : ∀ (l : List α) (xs : List β), mapO f l = some xs →
    ∀ b ∈ xs, ∃ a ∈ l, f a = some b
  | [], xs, h, b, hb => by simp only [mapO, Option.some.injEq] at h; subst h; cases hb
  | a :: as, xs, h, b, hb => by
    simp only [mapO] at h
    split at h
    · rename_i b0 bs h1 h2
      simp only [Option.some.injEq] at h
      subst h
      rcases List.mem_cons.1 hb with rfl | hb
      · exact ⟨a, List.mem_cons_self, h1⟩
      · obtain ⟨a', ha', hf⟩ := mapO_some f as bs h2 b hb
        exact ⟨a', List.mem_cons_of_mem _ ha', hf⟩
    · cases h

theorem localOkL_mapO {α} (f : α → Option TItem) (l : List α) (xs : List TItem) (h : mapO f l = some xs)
    (hf : ∀ a ∈ l, ∀ b, f a = some b → localOk b = true) : localOkL xs = true := by
  rw [localOkL_all, List.all_eq_true]
  intro b hb
  obtain ⟨a, ha, hfa⟩ := mapO_some f l xs h b hb
  exact hf a ha b hfa

theorem lookup_all {β} (q : β → Bool) : ∀ (l : List (String × β)) (k : String) (v : β),
    l.all (fun p => q p.2) = true → l.lookup k = some v → q v = true
  | [], _, _, _, h => by simp [List.lookup] at h
  | (k', v') :: rest, k, v, hall, h => by
    simp only [List.all_cons, Bool.and_eq_true] at hall
    simp only [List.lookup] at h
    split at h
    · simp only [Option.some.injEq] at h; subst h; exact hall.1
    · exact lookup_all q rest k v hall.2 h

/-- every tag of `enums.attribute_name_tag_table` is a standard tag -/
theorem attributeNameTags_tagOk : attributeNameTags.all (fun p => tagOk p.2) = true := by decide +kernel

/-! ### attributes -/

theorem local_encValue (tag : Nat) (name : String) (v : AVal) (x : TItem) (ht : tagOk tag = true)
    (hr : avalInRange name v = true) (h : encValue tag name v = some x) : localOk x = true := by
  cases v with
  | enum n =>
    simp only [encValue, Option.some.injEq] at h; subst h
    exact local_enm _ _ ht (by simpa [avalInRange] using hr)
  | int n =>
    simp only [encValue] at h
    simp only [avalInRange] at hr
    split at h
    · rename_i hi
      rw [if_pos hi] at hr
      split at h
      · rename_i h0
        simp only [Option.some.injEq] at h; subst h
        simp only [decide_eq_true_eq] at hr
        have : n.toNat < 256 ^ 4 := by
          have : (256 : Nat) ^ 4 = 4294967296 := by decide
          omega
        simp [localOk, pvalLocal, ht, this]
      · cases h
    · rename_i hi
      rw [if_neg hi] at hr
      simp only [Option.some.injEq] at h; subst h
      exact local_int _ _ ht hr
  | text s => simp only [encValue, Option.some.injEq] at h; subst h; exact local_txt _ _ ht
  | bool b => simp only [encValue, Option.some.injEq] at h; subst h; simp [localOk, pvalLocal, ht]
  | date n =>
    simp only [encValue, Option.some.injEq] at h; subst h
    have := (i64_iff n).1 (by simpa [avalInRange] using hr)
    simp [localOk, pvalLocal, ht, this]
  | name s t =>
    simp only [encValue, Option.some.injEq] at h; subst h
    refine local_struct _ _ ht ?_
    simp only [localOkL_cons, localOkL_nil, Bool.and_true, Bool.and_eq_true]
    exact ⟨local_txt _ _ (by decide), local_enm _ _ (by decide) (by simpa [avalInRange] using hr)⟩
  | appInfo ns d =>
    simp only [encValue, Option.some.injEq] at h; subst h
    refine local_struct _ _ ht ?_
    simp only [localOkL_cons, localOkL_nil, Bool.and_true, Bool.and_eq_true]
    exact ⟨local_txt _ _ (by decide), local_txt _ _ (by decide)⟩
  | other => simp [encValue] at h

theorem local_encAttr1x (a : TAttr) (x : TItem) (hr : tattrInRange a = true) (h : encAttr1x a = some x) :
    localOk x = true := by
  simp only [tattrInRange, Bool.and_eq_true] at hr
  simp only [encAttr1x] at h
  split at h
  · rename_i v hv
    simp only [Option.some.injEq] at h; subst h
    refine local_struct _ _ (by decide) ?_
    rw [localOkL_append, localOkL_append]
    simp only [Bool.and_eq_true]
    refine ⟨⟨?_, ?_⟩, ?_⟩
    · simp only [localOkL_cons, localOkL_nil, Bool.and_true]; exact local_txt _ _ (by decide)
    · refine local_optL _ _ (fun i hi => local_int _ _ (by decide) ?_)
      have := hr.2; rw [hi] at this; simpa [optAll] using this
    · simp only [localOkL_cons, localOkL_nil, Bool.and_true]
      exact local_encValue _ _ _ _ (by decide) hr.1 hv
  · cases h

theorem local_encAttr20 (a : TAttr) (x : TItem) (hr : tattrInRange a = true) (h : encAttr20 a = some x) :
    localOk x = true := by
  simp only [tattrInRange, Bool.and_eq_true] at hr
  simp only [encAttr20] at h
  split at h
  · cases h
  · rename_i tag htag
    split at h
    · exact local_encValue _ _ _ _ (lookup_all (fun t => tagOk t) _ _ _ attributeNameTags_tagOk htag) hr.1 h
    · cases h

/-! ### managed objects -/

theorem local_encKeyBlock (format : Nat) (value : Bytes) (alg len : Option Nat) (kwd : List TItem)
    (hf : u32 format = true) (ha : optAll u32 alg = true) (hl : optAll (fun (l : Nat) => i32 (Int.ofNat l)) len = true)
    (hk : localOkL kwd = true) : localOk (encKeyBlock format value alg len kwd) = true := by
  refine local_struct _ _ (by decide) ?_
  rw [localOkL_append, localOkL_append, localOkL_append]
  simp only [Bool.and_eq_true]
  refine ⟨⟨⟨?_, ?_⟩, ?_⟩, hk⟩
  · simp only [localOkL_cons, localOkL_nil, Bool.and_true, Bool.and_eq_true]
    refine ⟨local_enm _ _ (by decide) hf, local_struct _ _ (by decide) ?_⟩
    simp only [localOkL_cons, localOkL_nil, Bool.and_true]
    exact local_byt _ _ (by decide)
  · exact local_optL _ _ (fun a h => local_enm _ _ (by decide) (by rw [h, optAll_some] at ha; exact ha))
  · exact local_optL _ _ (fun a h => local_int _ _ (by decide) (by rw [h, optAll_some] at hl; exact hl))

theorem local_encSecret (otype : Nat) (value : Bytes) (alg len format subtype : Option Nat) (wrapped : Bool)
    (extra : List TItem) (x : TItem) (ha : optAll u32 alg = true) (hl : optAll (fun (l : Nat) => i32 (Int.ofNat l)) len = true)
    (hf : optAll u32 format = true) (hs : optAll u32 subtype = true) (hx : localOkL extra = true)
    (h : encSecret otype value alg len format subtype wrapped extra = some x) : localOk x = true := by
  have hkwd : localOkL (if wrapped = true then extra.filter isKwd else []) = true := by
    split
    · exact localOkL_filter _ _ hx
    · rfl
  simp only [encSecret] at h
  split at h
  · cases subtype with
    | none => cases h
    | some st =>
      simp only [Option.map_some, Option.some.injEq] at h; subst h
      refine local_struct _ _ (by decide) ?_
      simp only [localOkL_cons, localOkL_nil, Bool.and_true, Bool.and_eq_true]
      exact ⟨local_enm _ _ (by decide) hs, local_byt _ _ (by decide)⟩
  · split at h
    · cases subtype with
      | none => cases h
      | some st =>
        simp only [Option.map_some, Option.some.injEq] at h; subst h
        refine local_struct _ _ (by decide) ?_
        simp only [localOkL_cons, localOkL_nil, Bool.and_true, Bool.and_eq_true]
        exact ⟨local_enm _ _ (by decide) hs, local_byt _ _ (by decide)⟩
    · split at h
      · cases format with
        | none => cases h
        | some f =>
          simp only [Option.map_some, Option.some.injEq] at h; subst h
          refine local_struct _ _ (by decide) ?_
          simp only [localOkL_cons, localOkL_nil, Bool.and_true]
          exact local_encKeyBlock _ _ _ _ _ hf ha hl hkwd
      · split at h
        · cases format with
          | none => cases h
          | some f =>
            simp only [Option.map_some, Option.some.injEq] at h; subst h
            refine local_struct _ _ (by decide) ?_
            simp only [localOkL_cons, localOkL_nil, Bool.and_true]
            exact local_encKeyBlock _ _ _ _ _ hf ha hl hkwd
        · split at h
          · cases format with
            | none => cases h
            | some f =>
              simp only [Option.map_some, Option.some.injEq] at h; subst h
              refine local_struct _ _ (by decide) ?_
              simp only [localOkL_cons, localOkL_nil, Bool.and_true]
              exact local_encKeyBlock _ _ _ _ _ hf ha hl hkwd
          · split at h
            · cases format with
              | none => cases h
              | some f =>
                simp only [Option.map_some, Option.some.injEq] at h; subst h
                refine local_struct _ _ (by decide) ?_
                rw [localOkL_append]
                simp only [localOkL_cons, localOkL_nil, Bool.and_true, Bool.and_eq_true]
                exact ⟨localOkL_filter _ _ hx, local_encKeyBlock _ _ _ _ _ hf ha hl hkwd⟩
            · split at h
              · split at h
                · rename_i f st
                  simp only [Option.some.injEq] at h; subst h
                  refine local_struct _ _ (by decide) ?_
                  simp only [localOkL_cons, localOkL_nil, Bool.and_true, Bool.and_eq_true]
                  exact ⟨local_enm _ _ (by decide) hs, local_encKeyBlock _ _ _ _ _ hf ha hl hkwd⟩
                · cases h
              · cases h

end Kmip.Encode
