/-
Helper lemmas for the response-encoding model (M15, `KmipModel/Encode.lean`):
  * `valid_of_local`: an item tree whose tags are standard and whose fixed-width values fit, and whose ENCODING is
    shorter than 2^32 bytes, is `Item.Valid` (every inner length is bounded by the outer one);
  * what `encData` / `itemOf` / `responseItem` build is locally encodable under the explicit range predicate;
  * what they build passes the version gates (`gatingFaults`).
Core Lean only.
-/
import KmipModel.Encode
import KmipModel.Lemmas.TTLV
import KmipModel.Props.C02Engine
namespace Kmip.Encode
open Kmip Kmip.TTLV Kmip.Decode
open Kmip.EngineResponse (bytesOf verPair)

/-! ### validity from local conditions and the total length -/

def pvalLocal : PVal → Bool
  | .integer v => decide (fitsTC 4 v)
  | .longInteger v => decide (fitsTC 8 v)
  | .bigInteger v len => decide (len % 8 = 0 ∧ 0 < len ∧ fitsTC len v)
  | .enumeration v => decide (v < 256 ^ 4)
  | .boolean _ => true
  | .textString _ => true
  | .byteString _ => true
  | .dateTime v => decide (fitsTC 8 v)
  | .interval v => decide (v < 256 ^ 4)

mutual
/-- standard tags everywhere, every fixed-width value in its range (lengths are not looked at) -/
def localOk : TItem → Bool
  | .prim t v => tagOk t && pvalLocal v
  | .struct t ks => tagOk t && localOkL ks
def localOkL : List TItem → Bool
  | [] => true
  | i :: is => localOk i && localOkL is
end

theorem localOkL_all (ks : List TItem) : localOkL ks = ks.all localOk := by
  induction ks with
  | nil => rfl
  | cons i is ih => simp only [localOkL, List.all_cons, ih]

theorem localOkL_append (a b : List TItem) : localOkL (a ++ b) = (localOkL a && localOkL b) := by
  simp only [localOkL_all, List.all_append]

theorem pval_valid_of_local (v : PVal) (h : pvalLocal v = true) (hl : v.valBytes.length < 256 ^ 4) : v.Valid := by
  cases v with
  | integer x => simpa [pvalLocal, PVal.Valid] using h
  | longInteger x => simpa [pvalLocal, PVal.Valid] using h
  | bigInteger x len =>
    simp only [pvalLocal, decide_eq_true_eq] at h
    simp only [PVal.valBytes, be_length] at hl
    exact ⟨h.1, h.2.1, hl, h.2.2⟩
  | enumeration x => simpa [pvalLocal, PVal.Valid] using h
  | boolean b => trivial
  | textString s => simpa [PVal.Valid, PVal.valBytes] using hl
  | byteString s => simpa [PVal.Valid, PVal.valBytes] using hl
  | dateTime x => simpa [pvalLocal, PVal.Valid] using h
  | interval x => simpa [pvalLocal, PVal.Valid] using h

mutual
/-- **Local validity and a total length below 2^32 give validity.** -/
theorem valid_of_local : ∀ (i : TItem), localOk i = true → (encode i).length < 256 ^ 4 → i.Valid
  | .prim t v, h, hl => by
    simp only [localOk, Bool.and_eq_true] at h
    simp only [encode, List.length_append, header_length, zeros_length] at hl
    simp only [Item.Valid]
    exact ⟨h.1, pval_valid_of_local v h.2 (by omega)⟩
  | .struct t ks, h, hl => by
    simp only [localOk, Bool.and_eq_true] at h
    simp only [encode, List.length_append, header_length] at hl
    simp only [Item.Valid]
    exact ⟨h.1, validList_of_local ks h.2 (by omega), by omega⟩
theorem validList_of_local : ∀ (ks : List TItem), localOkL ks = true → (encodeList ks).length < 256 ^ 4 → validList ks
  | [], _, _ => by simp only [validList]
  | i :: is, h, hl => by
    simp only [localOkL, Bool.and_eq_true] at h
    simp only [encodeList, List.length_append] at hl
    simp only [validList]
    exact ⟨valid_of_local i h.1 (by omega), validList_of_local is h.2 (by omega)⟩
end

mutual
/-- a valid item is locally valid (used for the oracle subtrees, which are checked with `Item.validB`) -/
theorem local_of_valid : ∀ (i : TItem), i.Valid → localOk i = true
  | .prim t v, h => by
    simp only [Item.Valid] at h
    simp only [localOk, Bool.and_eq_true]
    refine ⟨h.1, ?_⟩
    cases v <;> simp_all [pvalLocal, PVal.Valid]
  | .struct t ks, h => by
    simp only [Item.Valid] at h
    simp only [localOk, Bool.and_eq_true]
    exact ⟨h.1, localL_of_valid ks h.2.1⟩
theorem localL_of_valid : ∀ (ks : List TItem), validList ks → localOkL ks = true
  | [], _ => rfl
  | i :: is, h => by
    simp only [validList] at h
    simp only [localOkL, Bool.and_eq_true]
    exact ⟨local_of_valid i h.1, localL_of_valid is h.2⟩
end

/-! ### the range predicates, in the vocabulary of M1 -/

theorem u32_iff (n : Nat) : u32 n = true ↔ n < 256 ^ 4 := by
  simp only [u32, decide_eq_true_eq]

theorem i32_iff (n : Int) : i32 n = true ↔ fitsTC 4 n := by
  simp only [i32, decide_eq_true_eq, fitsTC]
  have : ((256 ^ 4 : Nat) : Int) = 4294967296 := by decide
  rw [this]; omega

theorem i64_iff (n : Int) : i64 n = true ↔ fitsTC 8 n := by
  simp only [i64, decide_eq_true_eq, fitsTC]
  have : ((256 ^ 8 : Nat) : Int) = 18446744073709551616 := by decide
  rw [this]; omega

theorem optAll_some {α} (p : α → Bool) (a : α) : optAll p (some a) = p a := rfl

/-! ### leaves -/

theorem local_txt (t : Nat) (s : String) (ht : tagOk t = true) : localOk (txt t s) = true := by
  simp [txt, localOk, pvalLocal, ht]

theorem local_byt (t : Nat) (b : Bytes) (ht : tagOk t = true) : localOk (byt t b) = true := by
  simp [byt, localOk, pvalLocal, ht]

theorem local_enm (t n : Nat) (ht : tagOk t = true) (hn : u32 n = true) : localOk (enm t n) = true := by
  simp [enm, localOk, pvalLocal, ht, (u32_iff n).1 hn]

theorem local_int (t : Nat) (n : Int) (ht : tagOk t = true) (hn : i32 n = true) : localOk (int t n) = true := by
  simp [int, localOk, pvalLocal, ht, (i32_iff n).1 hn]

theorem local_struct (t : Nat) (ks : List TItem) (ht : tagOk t = true) (hk : localOkL ks = true) :
    localOk (.struct t ks) = true := by
  simp [localOk, ht, hk]

theorem localOkL_cons (i : TItem) (is : List TItem) : localOkL (i :: is) = (localOk i && localOkL is) := rfl
theorem localOkL_nil : localOkL [] = true := rfl

theorem local_optL {α} (o : Option α) (f : α → TItem) (h : ∀ a, o = some a → localOk (f a) = true) :
    localOkL (optL o f) = true := by
  cases o with
  | none => rfl
  | some a => simp [optL, localOkL, h a rfl]

theorem localOkL_map {α} (l : List α) (f : α → TItem) (h : ∀ a ∈ l, localOk (f a) = true) :
    localOkL (l.map f) = true := by
  rw [localOkL_all, List.all_eq_true]
  intro x hx
  obtain ⟨a, ha, rfl⟩ := List.mem_map.1 hx
  exact h a ha

theorem localOkL_filter (l : List TItem) (p : TItem → Bool) (h : localOkL l = true) : localOkL (l.filter p) = true := by
  rw [localOkL_all, List.all_eq_true] at *
  intro x hx
  exact h x (List.mem_filter.1 hx).1

theorem mapO_some {α β} (f : α → Option β) : ∀ (l : List α) (xs : List β), mapO f l = some xs →
    ∀ b ∈ xs, ∃ a ∈ l, f a = some b
  | [], xs, h, b, hb => by simp only [mapO, Option.some.injEq] at h; subst h; cases hb
  | a :: as, xs, h, b, hb => by
    simp only [mapO] at h
    split at h
    · rename_i b0 bs h1 h2
      simp only [Option.some.injEq] at h
      subst h
      rcases List.mem_cons.1 hb with rfl | hb
      · exact ⟨a, List.mem_cons_self, h1⟩
      · obtain ⟨a', ha', hf⟩ := mapO_some f as bs h2 b hb
        exact ⟨a', List.mem_cons_of_mem _ ha', hf⟩
    · cases h

theorem localOkL_mapO {α} (f : α → Option TItem) (l : List α) (xs : List TItem) (h : mapO f l = some xs)
    (hf : ∀ a ∈ l, ∀ b, f a = some b → localOk b = true) : localOkL xs = true := by
  rw [localOkL_all, List.all_eq_true]
  intro b hb
  obtain ⟨a, ha, hfa⟩ := mapO_some f l xs h b hb
  exact hf a ha b hfa

theorem lookup_all {β} (q : β → Bool) : ∀ (l : List (String × β)) (k : String) (v : β),
    l.all (fun p => q p.2) = true → l.lookup k = some v → q v = true
  | [], _, _, _, h => by simp [List.lookup] at h
  | (k', v') :: rest, k, v, hall, h => by
    simp only [List.all_cons, Bool.and_eq_true] at hall
    simp only [List.lookup] at h
    split at h
    · simp only [Option.some.injEq] at h; subst h; exact hall.1
    · exact lookup_all q rest k v hall.2 h

/-- every tag of `enums.attribute_name_tag_table` is a standard tag -/
theorem attributeNameTags_tagOk : attributeNameTags.all (fun p => tagOk p.2) = true := by decide +kernel

/-! ### attributes -/

theorem local_encValue (tag : Nat) (name : String) (v : AVal) (x : TItem) (ht : tagOk tag = true)
    (hr : avalInRange name v = true) (h : encValue tag name v = some x) : localOk x = true := by
  cases v with
  | enum n =>
    simp only [encValue, Option.some.injEq] at h; subst h
    exact local_enm _ _ ht (by simpa [avalInRange] using hr)
  | int n =>
    simp only [encValue] at h
    simp only [avalInRange] at hr
    split at h
    · rename_i hi
      rw [if_pos hi] at hr
      split at h
      · rename_i h0
        simp only [Option.some.injEq] at h; subst h
        simp only [decide_eq_true_eq] at hr
        have : n.toNat < 256 ^ 4 := by
          have : (256 : Nat) ^ 4 = 4294967296 := by decide
          omega
        simp [localOk, pvalLocal, ht, this]
      · cases h
    · rename_i hi
      rw [if_neg hi] at hr
      simp only [Option.some.injEq] at h; subst h
      exact local_int _ _ ht hr
  | text s => simp only [encValue, Option.some.injEq] at h; subst h; exact local_txt _ _ ht
  | bool b => simp only [encValue, Option.some.injEq] at h; subst h; simp [localOk, pvalLocal, ht]
  | date n =>
    simp only [encValue, Option.some.injEq] at h; subst h
    have := (i64_iff n).1 (by simpa [avalInRange] using hr)
    simp [localOk, pvalLocal, ht, this]
  | name s t =>
    simp only [encValue, Option.some.injEq] at h; subst h
    refine local_struct _ _ ht ?_
    simp only [localOkL_cons, localOkL_nil, Bool.and_true, Bool.and_eq_true]
    exact ⟨local_txt _ _ (by decide), local_enm _ _ (by decide) (by simpa [avalInRange] using hr)⟩
  | appInfo ns d =>
    simp only [encValue, Option.some.injEq] at h; subst h
    refine local_struct _ _ ht ?_
    simp only [localOkL_cons, localOkL_nil, Bool.and_true, Bool.and_eq_true]
    exact ⟨local_txt _ _ (by decide), local_txt _ _ (by decide)⟩
  | other => simp [encValue] at h

theorem local_encAttr1x (a : TAttr) (x : TItem) (hr : tattrInRange a = true) (h : encAttr1x a = some x) :
    localOk x = true := by
  simp only [tattrInRange, Bool.and_eq_true] at hr
  simp only [encAttr1x] at h
  split at h
  · rename_i v hv
    simp only [Option.some.injEq] at h; subst h
    refine local_struct _ _ (by decide) ?_
    rw [localOkL_append, localOkL_append]
    simp only [Bool.and_eq_true]
    refine ⟨⟨?_, ?_⟩, ?_⟩
    · simp only [localOkL_cons, localOkL_nil, Bool.and_true]; exact local_txt _ _ (by decide)
    · refine local_optL _ _ (fun i hi => local_int _ _ (by decide) ?_)
      have := hr.2; rw [hi] at this; simpa [optAll] using this
    · simp only [localOkL_cons, localOkL_nil, Bool.and_true]
      exact local_encValue _ _ _ _ (by decide) hr.1 hv
  · cases h

theorem local_encAttr20 (a : TAttr) (x : TItem) (hr : tattrInRange a = true) (h : encAttr20 a = some x) :
    localOk x = true := by
  simp only [tattrInRange, Bool.and_eq_true] at hr
  simp only [encAttr20] at h
  split at h
  · cases h
  · rename_i tag htag
    split at h
    · exact local_encValue _ _ _ _ (lookup_all (fun t => tagOk t) _ _ _ attributeNameTags_tagOk htag) hr.1 h
    · cases h

/-! ### managed objects -/

theorem local_encKeyBlock (format : Nat) (value : Bytes) (alg len : Option Nat) (kwd : List TItem)
    (hf : u32 format = true) (ha : optAll u32 alg = true) (hl : optAll (fun (l : Nat) => i32 (Int.ofNat l)) len = true)
    (hk : localOkL kwd = true) : localOk (encKeyBlock format value alg len kwd) = true := by
  refine local_struct _ _ (by decide) ?_
  rw [localOkL_append, localOkL_append, localOkL_append]
  simp only [Bool.and_eq_true]
  refine ⟨⟨⟨?_, ?_⟩, ?_⟩, hk⟩
  · simp only [localOkL_cons, localOkL_nil, Bool.and_true, Bool.and_eq_true]
    refine ⟨local_enm _ _ (by decide) hf, local_struct _ _ (by decide) ?_⟩
    simp only [localOkL_cons, localOkL_nil, Bool.and_true]
    exact local_byt _ _ (by decide)
  · exact local_optL _ _ (fun a h => local_enm _ _ (by decide) (by rw [h, optAll_some] at ha; exact ha))
  · exact local_optL _ _ (fun a h => local_int _ _ (by decide) (by rw [h, optAll_some] at hl; exact hl))

theorem local_encSecret (otype : Nat) (value : Bytes) (alg len format subtype : Option Nat) (wrapped : Bool)
    (extra : List TItem) (x : TItem) (ha : optAll u32 alg = true) (hl : optAll (fun (l : Nat) => i32 (Int.ofNat l)) len = true)
    (hf : optAll u32 format = true) (hs : optAll u32 subtype = true) (hx : localOkL extra = true)
    (h : encSecret otype value alg len format subtype wrapped extra = some x) : localOk x = true := by
  have hkwd : localOkL (if wrapped = true then extra.filter isKwd else []) = true := by
    split
    · exact localOkL_filter _ _ hx
    · rfl
  simp only [encSecret] at h
  split at h
  · cases subtype with
    | none => cases h
    | some st =>
      simp only [Option.map_some, Option.some.injEq] at h; subst h
      refine local_struct _ _ (by decide) ?_
      simp only [localOkL_cons, localOkL_nil, Bool.and_true, Bool.and_eq_true]
      exact ⟨local_enm _ _ (by decide) hs, local_byt _ _ (by decide)⟩
  · split at h
    · cases subtype with
      | none => cases h
      | some st =>
        simp only [Option.map_some, Option.some.injEq] at h; subst h
        refine local_struct _ _ (by decide) ?_
        simp only [localOkL_cons, localOkL_nil, Bool.and_true, Bool.and_eq_true]
        exact ⟨local_enm _ _ (by decide) hs, local_byt _ _ (by decide)⟩
    · split at h
      · cases format with
        | none => cases h
        | some f =>
          simp only [Option.map_some, Option.some.injEq] at h; subst h
          refine local_struct _ _ (by decide) ?_
          simp only [localOkL_cons, localOkL_nil, Bool.and_true]
          exact local_encKeyBlock _ _ _ _ _ hf ha hl hkwd
      · split at h
        · cases format with
          | none => cases h
          | some f =>
            simp only [Option.map_some, Option.some.injEq] at h; subst h
            refine local_struct _ _ (by decide) ?_
            simp only [localOkL_cons, localOkL_nil, Bool.and_true]
            exact local_encKeyBlock _ _ _ _ _ hf ha hl hkwd
        · split at h
          · cases format with
            | none => cases h
            | some f =>
              simp only [Option.map_some, Option.some.injEq] at h; subst h
              refine local_struct _ _ (by decide) ?_
              simp only [localOkL_cons, localOkL_nil, Bool.and_true]
              exact local_encKeyBlock _ _ _ _ _ hf ha hl hkwd
          · split at h
            · cases format with
              | none => cases h
              | some f =>
                simp only [Option.map_some, Option.some.injEq] at h; subst h
                refine local_struct _ _ (by decide) ?_
                rw [localOkL_append]
                simp only [localOkL_cons, localOkL_nil, Bool.and_true, Bool.and_eq_true]
                exact ⟨localOkL_filter _ _ hx, local_encKeyBlock _ _ _ _ _ hf ha hl hkwd⟩
            · split at h
              · split at h
                · rename_i f st
                  simp only [Option.some.injEq] at h; subst h
                  refine local_struct _ _ (by decide) ?_
                  simp only [localOkL_cons, localOkL_nil, Bool.and_true, Bool.and_eq_true]
                  exact ⟨local_enm _ _ (by decide) hs, local_encKeyBlock _ _ _ _ _ hf ha hl hkwd⟩
                · cases h
              · cases h

/-! ### response payloads -/

theorem local_uidItem (u : String) : localOk (uidItem u) = true := local_txt _ _ (by decide)

/-- **`encData_valid`, local part**: under the range predicate on the data (and encodable oracle subtrees) every
item of the payload has standard tags and values that fit their fixed-width types. -/
theorem local_encData (ver op : Nat) (extra : List TItem) (d : Data) (ks : List TItem)
    (hr : dataInRange d = true) (hx : localOkL extra = true) (h : encData ver op extra d = some ks) :
    localOkL ks = true := by
  cases d with
  | uid u =>
    simp only [encData] at h
    split at h
    · simp only [Option.some.injEq] at h; subst h
      simp only [localOkL_cons, localOkL_nil, Bool.and_true, Bool.and_eq_true]
      exact ⟨local_enm _ _ (by decide) (by decide), local_uidItem u⟩
    · split at h
      · simp only [Option.some.injEq] at h; subst h
        simp only [localOkL_cons, localOkL_nil, Bool.and_true]; exact local_uidItem u
      · split at h
        · split at h
          · simp only [Option.some.injEq] at h; subst h
            simp only [localOkL_cons, localOkL_nil, Bool.and_true]; exact local_uidItem u
          · cases h
        · cases h
  | uidAttr u a =>
    simp only [encData] at h
    split at h
    · split at h
      · cases a with
        | none => cases h
        | some a =>
          simp only at h
          cases hx1 : encAttr1x a with
          | none => rw [hx1] at h; cases h
          | some x =>
            rw [hx1] at h
            simp only [Option.map_some, Option.some.injEq] at h; subst h
            simp only [localOkL_cons, localOkL_nil, Bool.and_true, Bool.and_eq_true]
            exact ⟨local_uidItem u, local_encAttr1x a x (by simpa [dataInRange, optAll] using hr) hx1⟩
      · simp only [Option.some.injEq] at h; subst h
        simp only [localOkL_cons, localOkL_nil, Bool.and_true]; exact local_uidItem u
    · cases h
  | keyPair priv pub =>
    simp only [encData] at h
    split at h
    · simp only [Option.some.injEq] at h; subst h
      simp only [localOkL_cons, localOkL_nil, Bool.and_true, Bool.and_eq_true]
      exact ⟨local_txt _ _ (by decide), local_txt _ _ (by decide)⟩
    · cases h
  | uids us =>
    simp only [encData] at h
    split at h
    · simp only [Option.some.injEq] at h; subst h
      exact localOkL_map _ _ (fun u _ => local_uidItem u)
    · cases h
  | object otype u value alg len format subtype wrapped =>
    simp only [dataInRange, Bool.and_eq_true] at hr
    simp only [encData] at h
    split at h
    · split at h
      · cases h
      · rename_i v hv
        split at h
        · rename_i s hs
          simp only [Option.some.injEq] at h; subst h
          simp only [localOkL_cons, localOkL_nil, Bool.and_true, Bool.and_eq_true]
          exact ⟨local_enm _ _ (by decide) hr.1.1.1.1, local_uidItem u,
            local_encSecret _ _ _ _ _ _ _ _ _ hr.1.1.1.2 hr.1.1.2 hr.1.2 hr.2 hx hs⟩
        · cases h
    · cases h
  | attrs u as =>
    simp only [dataInRange] at hr
    rw [List.all_eq_true] at hr
    simp only [encData] at h
    split at h
    · split at h
      · cases hm : mapO encAttr1x as with
        | none => rw [hm] at h; cases h
        | some xs =>
          rw [hm] at h
          simp only [Option.map_some, Option.some.injEq] at h; subst h
          simp only [localOkL_cons, Bool.and_eq_true]
          exact ⟨local_uidItem u, localOkL_mapO _ _ _ hm (fun a ha b hb => local_encAttr1x a b (hr a ha) hb)⟩
      · split at h
        · cases h
        · cases hm : mapO encAttr20 as with
          | none => rw [hm] at h; cases h
          | some xs =>
            rw [hm] at h
            simp only [Option.map_some, Option.some.injEq] at h; subst h
            simp only [localOkL_cons, localOkL_nil, Bool.and_true, Bool.and_eq_true]
            exact ⟨local_uidItem u, local_struct _ _ (by decide)
              (localOkL_mapO _ _ _ hm (fun a ha b hb => local_encAttr20 a b (hr a ha) hb))⟩
    · cases h
  | names u ns =>
    simp only [encData] at h
    split at h
    · split at h
      · cases h
      · split at h
        · simp only [Option.some.injEq] at h; subst h
          simp only [localOkL_cons, Bool.and_eq_true]
          exact ⟨local_uidItem u, localOkL_map _ _ (fun n _ => local_txt _ _ (by decide))⟩
        · cases hm : mapO (fun n => (attributeNameTags.lookup n).map (enm T.attributeReference)) ns with
          | none => rw [hm] at h; cases h
          | some xs =>
            rw [hm] at h
            simp only [Option.map_some, Option.some.injEq] at h; subst h
            simp only [localOkL_cons, Bool.and_eq_true]
            refine ⟨local_uidItem u, localOkL_mapO _ _ _ hm (fun n _ b hb => ?_)⟩
            cases hl : attributeNameTags.lookup n with
            | none => rw [hl] at hb; cases hb
            | some tag =>
              rw [hl] at hb
              simp only [Option.map_some, Option.some.injEq] at hb; subst hb
              refine local_enm _ _ (by decide) ?_
              have ht := lookup_all (fun t => tagOk t) _ _ _ attributeNameTags_tagOk hl
              have := tagOk_lt tag ht
              simp only [u32, decide_eq_true_eq]
              have h3 : (256 : Nat) ^ 3 = 16777216 := by decide
              omega
    · cases h
  | ops os vendor =>
    simp only [dataInRange] at hr
    rw [List.all_eq_true] at hr
    simp only [encData] at h
    split at h
    · simp only [Option.some.injEq] at h; subst h
      rw [localOkL_append, Bool.and_eq_true]
      refine ⟨localOkL_map _ _ (fun o ho => local_enm _ _ (by decide) (hr o ho)), ?_⟩
      split
      · simp only [localOkL_cons, localOkL_nil, Bool.and_true]; exact local_txt _ _ (by decide)
      · rfl
    · cases h
  | versions vs =>
    simp only [dataInRange] at hr
    rw [List.all_eq_true] at hr
    simp only [encData] at h
    split at h
    · simp only [Option.some.injEq] at h; subst h
      refine localOkL_map _ _ (fun v hv => local_struct _ _ (by decide) ?_)
      have hb := hr v hv
      simp only [decide_eq_true_eq] at hb
      simp only [localOkL_cons, localOkL_nil, Bool.and_true, Bool.and_eq_true]
      refine ⟨local_int _ _ (by decide) ?_, local_int _ _ (by decide) ?_⟩
      · show i32 ((v / 10 : Nat) : Int) = true
        simp only [i32, decide_eq_true_eq]; omega
      · show i32 ((v % 10 : Nat) : Int) = true
        simp only [i32, decide_eq_true_eq]; omega
    · cases h
  | crypto u c =>
    simp only [encData] at h
    cases c with
    | ok t =>
      simp only at h
      split at h
      · rename_i tag b htag hb
        simp only [Option.some.injEq] at h; subst h
        rw [localOkL_append, Bool.and_eq_true]
        refine ⟨?_, ?_⟩
        · simp only [localOkL_cons, localOkL_nil, Bool.and_true, Bool.and_eq_true]
          refine ⟨local_uidItem u, local_byt _ _ ?_⟩
          simp only [cryptoTag] at htag
          split at htag
          · simp only [Option.some.injEq] at htag; subst htag; decide
          · split at htag
            · simp only [Option.some.injEq] at htag; subst htag; decide
            · split at htag
              · simp only [Option.some.injEq] at htag; subst htag; decide
              · cases htag
        · simp only [encryptExtra]
          split
          · rw [localOkL_append, Bool.and_eq_true]
            refine ⟨localOkL_filter _ _ hx, ?_⟩
            split
            · exact localOkL_filter _ _ hx
            · rfl
          · rfl
      · cases h
    | verdict b =>
      simp only at h
      split at h
      · simp only [Option.some.injEq] at h; subst h
        simp only [localOkL_cons, localOkL_nil, Bool.and_true, Bool.and_eq_true]
        refine ⟨local_uidItem u, local_enm _ _ (by decide) ?_⟩
        cases b <;> decide
      · cases h
    | ok2 _ _ _ _ => simp at h
    | kmipError _ => simp at h
    | internal => simp at h

/-! ### batch items and the message -/

theorem localOkL_optItem {α} (o : Option α) (f : α → TItem) (h : ∀ a, o = some a → localOk (f a) = true) :
    localOkL (Envelope.optItem o f) = true := by
  cases o with
  | none => rfl
  | some a => simp [Envelope.optItem, localOkL, h a rfl]

theorem local_buildItem_success (op : Nat) (bid : Option Bytes) (ks : List TItem) (hop : u32 op = true)
    (hk : localOkL ks = true) :
    localOk (Envelope.buildItem ⟨some op, bid, .success (.struct Envelope.tResponsePayload ks)⟩) = true := by
  simp only [Envelope.buildItem]
  refine local_struct _ _ (by decide) ?_
  rw [localOkL_append, localOkL_append]
  simp only [Bool.and_eq_true]
  refine ⟨⟨localOkL_optItem _ _ (fun a ha => ?_), localOkL_optItem _ _ (fun b _ => ?_)⟩, ?_⟩
  · cases ha; simp [localOk, pvalLocal, (u32_iff op).1 hop, Envelope.tOperation, tagOk]
  · simp [localOk, pvalLocal, Envelope.tUniqueBatchItemID, tagOk]
  · simp only [localOkL_cons, localOkL_nil, Bool.and_true, Bool.and_eq_true]
    refine ⟨by simp [localOk, pvalLocal, Envelope.tResultStatus, tagOk], local_struct _ _ (by decide) hk⟩

theorem local_buildItem_failure (op : Option Nat) (bid : Option Bytes) (reason : Nat) (msg : Bytes)
    (hop : optAll u32 op = true) (hr : u32 reason = true) :
    localOk (Envelope.buildItem ⟨op, bid, .failure 1 reason msg⟩) = true := by
  simp only [Envelope.buildItem]
  refine local_struct _ _ (by decide) ?_
  rw [localOkL_append, localOkL_append]
  simp only [Bool.and_eq_true]
  refine ⟨⟨localOkL_optItem _ _ (fun a ha => ?_), localOkL_optItem _ _ (fun b _ => ?_)⟩, ?_⟩
  · rw [ha, optAll_some] at hop
    simp [localOk, pvalLocal, (u32_iff a).1 hop, Envelope.tOperation, tagOk]
  · simp [localOk, pvalLocal, Envelope.tUniqueBatchItemID, tagOk]
  · simp [localOkL, localOk, pvalLocal, (u32_iff reason).1 hr, Envelope.tResultStatus, Envelope.tResultReason,
      Envelope.tResultMessage, tagOk]

theorem local_itemOf (ver : Nat) (extra : List TItem) (r : ItemResult) (ir : Envelope.ItemResult)
    (hr : resultInRange r = true) (hx : localOkL extra = true) (h : itemOf ver extra r = some ir) :
    localOk (Envelope.buildItem ir) = true := by
  obtain ⟨op, bid, res⟩ := r
  simp only [resultInRange, Bool.and_eq_true] at hr
  simp only [itemOf] at h
  cases res with
  | ok d =>
    simp only at h hr
    cases he : encData ver op extra d with
    | none => rw [he] at h; cases h
    | some ks =>
      rw [he] at h
      simp only [Option.map_some, Option.some.injEq] at h; subst h
      exact local_buildItem_success op _ ks hr.1 (local_encData ver op extra d ks hr.2 hx he)
  | error e =>
    simp only [Option.some.injEq] at h; subst h
    cases e with
    | kmip reason msg =>
      simp only at hr
      exact local_buildItem_failure _ _ _ _ (by rw [optAll_some]; exact hr.1) hr.2
    | internal site =>
      exact local_buildItem_failure _ _ _ _ (by rw [optAll_some]; exact hr.1) (by decide)

theorem itemsOf_length (ver : Nat) : ∀ (rs : List ItemResult) (extras : List (List TItem))
    (items : List Envelope.ItemResult), itemsOf ver extras rs = some items → items.length = rs.length
  | [], _, items, h => by simp only [itemsOf, Option.some.injEq] at h; subst h; rfl
  | r :: rs, extras, items, h => by
    simp only [itemsOf] at h
    split at h
    · rename_i a as h1 h2
      simp only [Option.some.injEq] at h; subst h
      simp only [List.length_cons, itemsOf_length ver rs _ as h2]
    · cases h

theorem local_itemsOf (ver : Nat) : ∀ (rs : List ItemResult) (extras : List (List TItem))
    (items : List Envelope.ItemResult), rs.all resultInRange = true →
    extras.all (fun xs => xs.all Item.validB) = true → itemsOf ver extras rs = some items →
    localOkL (items.map Envelope.buildItem) = true
  | [], _, items, _, _, h => by simp only [itemsOf, Option.some.injEq] at h; subst h; rfl
  | r :: rs, extras, items, hr, hx, h => by
    simp only [List.all_cons, Bool.and_eq_true] at hr
    simp only [itemsOf] at h
    split at h
    · rename_i a as h1 h2
      simp only [Option.some.injEq] at h; subst h
      have hhead : localOkL (extras.headD []) = true := by
        cases extras with
        | nil => rfl
        | cons x xs =>
          simp only [List.all_cons, Bool.and_eq_true] at hx
          simp only [List.headD_cons]
          rw [localOkL_all, List.all_eq_true]
          intro i hi
          exact local_of_valid i (validB_sound i (List.all_eq_true.1 hx.1 i hi))
      have htail : extras.tail.all (fun xs => xs.all Item.validB) = true := by
        cases extras with
        | nil => rfl
        | cons x xs => simp only [List.all_cons, Bool.and_eq_true] at hx; exact hx.2
      simp only [List.map_cons, localOkL_cons, Bool.and_eq_true]
      exact ⟨local_itemOf ver _ r a hr.1 hhead h1, local_itemsOf ver rs _ as hr.2 htail h2⟩
    · cases h

theorem local_buildResponse (ver : Int × Int) (now : Int) (items : List Envelope.ItemResult)
    (h1 : i32 ver.1 = true) (h2 : i32 ver.2 = true) (hn : i64 now = true) (hl : items.length < 2147483648)
    (hi : localOkL (items.map Envelope.buildItem) = true) :
    localOk (Envelope.buildResponse ver now items) = true := by
  simp only [Envelope.buildResponse]
  refine local_struct _ _ (by decide) ?_
  simp only [localOkL_cons, Bool.and_eq_true]
  refine ⟨local_struct _ _ (by decide) ?_, hi⟩
  have hc : fitsTC 4 (items.length : Int) := by
    simp only [fitsTC]
    have : ((256 ^ 4 : Nat) : Int) = 4294967296 := by decide
    rw [this]; omega
  simp [localOkL, localOk, pvalLocal, (i32_iff _).1 h1, (i32_iff _).1 h2, (i64_iff _).1 hn, hc,
    Envelope.tProtocolVersion, Envelope.tProtocolVersionMajor, Envelope.tProtocolVersionMinor, Envelope.tTimeStamp,
    Envelope.tBatchCount, tagOk]

theorem verPair_i32 (ver : Nat) (h : ver < 21474836480) : i32 (verPair ver).1 = true ∧ i32 (verPair ver).2 = true := by
  constructor
  · show i32 ((ver / 10 : Nat) : Int) = true
    simp only [i32, decide_eq_true_eq]; omega
  · show i32 ((ver % 10 : Nat) : Int) = true
    simp only [i32, decide_eq_true_eq]; omega

/-- the message tree of an answer whose fields are in range is locally encodable -/
theorem local_responseItem (ver : Nat) (now : Int) (extras : List (List TItem)) (res : ReqResult) (i : TItem)
    (hf : fieldsInRange ver now extras res = true) (h : responseItem ver now extras res = some i) :
    localOk i = true := by
  cases res with
  | results rs =>
    simp only [fieldsInRange, Bool.and_eq_true, decide_eq_true_eq] at hf
    simp only [responseItem] at h
    cases hi : itemsOf ver extras rs with
    | none => rw [hi] at h; cases h
    | some items =>
      rw [hi] at h
      simp only [Option.map_some, Option.some.injEq] at h; subst h
      have hv := verPair_i32 ver hf.1.1.1.1
      exact local_buildResponse _ _ _ hv.1 hv.2 hf.1.1.1.2 (by rw [itemsOf_length ver rs extras items hi]; exact hf.1.1.2)
        (local_itemsOf ver rs extras items hf.1.2 hf.2 hi)
  | rejected reason msg =>
    simp only [fieldsInRange, Bool.and_eq_true, decide_eq_true_eq] at hf
    simp only [responseItem, Option.some.injEq] at h; subst h
    have hv := verPair_i32 ver hf.1.1
    refine local_buildResponse _ _ _ hv.1 hv.2 hf.1.2 (by simp) ?_
    simp only [List.map_cons, List.map_nil, localOkL_cons, localOkL_nil, Bool.and_true]
    exact local_buildItem_failure none none reason _ rfl hf.2

/-! ### version gating -/

theorem gatingL_nil_iff (ver : Nat) : ∀ (ks : List TItem), gatingFaultsL ver ks = [] ↔ ∀ k ∈ ks, gatingFaults ver k = []
  | [] => by simp [gatingFaultsL]
  | i :: is => by
    simp only [gatingFaultsL, List.append_eq_nil_iff, gatingL_nil_iff ver is, List.mem_cons, forall_eq_or_imp]

theorem gatingL_append (ver : Nat) (a b : List TItem) :
    gatingFaultsL ver (a ++ b) = [] ↔ gatingFaultsL ver a = [] ∧ gatingFaultsL ver b = [] := by
  simp only [gatingL_nil_iff, List.mem_append]
  constructor
  · intro h; exact ⟨fun k hk => h k (Or.inl hk), fun k hk => h k (Or.inr hk)⟩
  · rintro ⟨h1, h2⟩ k (hk | hk)
    · exact h1 k hk
    · exact h2 k hk

theorem gating_prim (ver t : Nat) (v : PVal) (h : tagAllowed ver t = true) : gatingFaults ver (.prim t v) = [] := by
  simp [gatingFaults, h]

theorem gating_struct (ver t : Nat) (ks : List TItem) (h : tagAllowed ver t = true) (hk : gatingFaultsL ver ks = []) :
    gatingFaults ver (.struct t ks) = [] := by
  simp [gatingFaults, h, hk]

/-- a tag no gate mentions -/
def ungated (t : Nat) : Bool := gatedTags.all (fun g => !(g.1 == t))

theorem allowed_of_ungated (ver t : Nat) (h : ungated t = true) : tagAllowed ver t = true := by
  simp only [ungated, List.all_eq_true] at h
  simp only [tagAllowed, List.all_eq_true]
  intro g hg
  rw [h g hg]; rfl

/-- a tag whose gates (if any) are open from 2.0 on for ever -/
def open20 (t : Nat) : Bool := gatedTags.all (fun g => !(g.1 == t) || (decide (g.2.1 ≤ 20) && g.2.2.isNone))

theorem allowed_of_open20 (ver t : Nat) (h : open20 t = true) (hv : 20 ≤ ver) : tagAllowed ver t = true := by
  simp only [open20, List.all_eq_true] at h
  simp only [tagAllowed, List.all_eq_true]
  intro g hg
  have := h g hg
  simp only [Bool.or_eq_true, Bool.and_eq_true, decide_eq_true_eq, Bool.not_eq_true'] at this ⊢
  rcases this with h1 | ⟨h1, h2⟩
  · exact Or.inl h1
  · right
    obtain ⟨t', lo, hi⟩ := g
    cases hi with
    | some x => cases h2
    | none => simp only [gateOpen, Bool.and_true, decide_eq_true_eq]; simp only at h1; omega

/-- every tag `enums.is_attribute(tag, KMIP 2.0)` accepts may be sent from 2.0 on (Operation Policy Name and
Template Attribute are not among them) -/
theorem attributeTags20_open : ((attributeTags.lookup 20).getD []).all open20 = true := by decide +kernel

theorem allowed_isAttribute20 (ver tag : Nat) (h : isAttribute20 tag = true) (hv : 20 ≤ ver) :
    tagAllowed ver tag = true := by
  simp only [isAttribute20, List.contains_iff_mem] at h
  exact allowed_of_open20 ver tag (List.all_eq_true.1 attributeTags20_open tag h) hv

theorem gating_txt (ver t : Nat) (s : String) (h : ungated t = true) : gatingFaults ver (txt t s) = [] :=
  gating_prim ver t _ (allowed_of_ungated ver t h)
theorem gating_enm (ver t n : Nat) (h : ungated t = true) : gatingFaults ver (enm t n) = [] :=
  gating_prim ver t _ (allowed_of_ungated ver t h)
theorem gating_int (ver t : Nat) (n : Int) (h : ungated t = true) : gatingFaults ver (int t n) = [] :=
  gating_prim ver t _ (allowed_of_ungated ver t h)
theorem gating_byt (ver t : Nat) (b : Bytes) (h : ungated t = true) : gatingFaults ver (byt t b) = [] :=
  gating_prim ver t _ (allowed_of_ungated ver t h)

theorem gatingL_cons (ver : Nat) (i : TItem) (is : List TItem) :
    gatingFaultsL ver (i :: is) = [] ↔ gatingFaults ver i = [] ∧ gatingFaultsL ver is = [] := by
  simp only [gatingFaultsL, List.append_eq_nil_iff]

theorem gatingL_nil (ver : Nat) : gatingFaultsL ver [] = [] := rfl

theorem gatingL_optL {α} (ver : Nat) (o : Option α) (f : α → TItem) (h : ∀ a, gatingFaults ver (f a) = []) :
    gatingFaultsL ver (optL o f) = [] := by
  cases o with
  | none => rfl
  | some a => simp [optL, gatingFaultsL, h a]

theorem gatingL_map {α} (ver : Nat) (l : List α) (f : α → TItem) (h : ∀ a ∈ l, gatingFaults ver (f a) = []) :
    gatingFaultsL ver (l.map f) = [] := by
  rw [gatingL_nil_iff]
  intro k hk
  obtain ⟨a, ha, rfl⟩ := List.mem_map.1 hk
  exact h a ha

theorem gatingL_mapO {α} (ver : Nat) (f : α → Option TItem) (l : List α) (xs : List TItem) (h : mapO f l = some xs)
    (hf : ∀ a ∈ l, ∀ b, f a = some b → gatingFaults ver b = []) : gatingFaultsL ver xs = [] := by
  rw [gatingL_nil_iff]
  intro b hb
  obtain ⟨a, ha, hfa⟩ := mapO_some f l xs h b hb
  exact hf a ha b hfa

theorem gating_encValue (ver tag : Nat) (name : String) (v : AVal) (x : TItem) (ht : tagAllowed ver tag = true)
    (h : encValue tag name v = some x) : gatingFaults ver x = [] := by
  cases v with
  | enum n => simp only [encValue, Option.some.injEq] at h; subst h; exact gating_prim _ _ _ ht
  | int n =>
    simp only [encValue] at h
    split at h
    · split at h
      · simp only [Option.some.injEq] at h; subst h; exact gating_prim _ _ _ ht
      · cases h
    · simp only [Option.some.injEq] at h; subst h; exact gating_prim _ _ _ ht
  | text s => simp only [encValue, Option.some.injEq] at h; subst h; exact gating_prim _ _ _ ht
  | bool b => simp only [encValue, Option.some.injEq] at h; subst h; exact gating_prim _ _ _ ht
  | date n => simp only [encValue, Option.some.injEq] at h; subst h; exact gating_prim _ _ _ ht
  | name s t =>
    simp only [encValue, Option.some.injEq] at h; subst h
    refine gating_struct _ _ _ ht ?_
    simp only [gatingL_cons, gatingL_nil, and_true]
    exact ⟨gating_txt _ _ _ (by decide), gating_enm _ _ _ (by decide)⟩
  | appInfo ns d =>
    simp only [encValue, Option.some.injEq] at h; subst h
    refine gating_struct _ _ _ ht ?_
    simp only [gatingL_cons, gatingL_nil, and_true]
    exact ⟨gating_txt _ _ _ (by decide), gating_txt _ _ _ (by decide)⟩
  | other => simp [encValue] at h

theorem gating_encAttr1x (ver : Nat) (a : TAttr) (x : TItem) (h : encAttr1x a = some x) :
    gatingFaults ver x = [] := by
  simp only [encAttr1x] at h
  split at h
  · rename_i v hv
    simp only [Option.some.injEq] at h; subst h
    refine gating_struct _ _ _ (allowed_of_ungated _ _ (by decide)) ?_
    rw [gatingL_append, gatingL_append]
    refine ⟨⟨?_, gatingL_optL _ _ _ (fun i => gating_int _ _ _ (by decide))⟩, ?_⟩
    · simp only [gatingL_cons, gatingL_nil, and_true]; exact gating_txt _ _ _ (by decide)
    · simp only [gatingL_cons, gatingL_nil, and_true]
      exact gating_encValue _ _ _ _ _ (allowed_of_ungated _ _ (by decide)) hv
  · cases h

theorem gating_encAttr20 (ver : Nat) (a : TAttr) (x : TItem) (hv : 20 ≤ ver) (h : encAttr20 a = some x) :
    gatingFaults ver x = [] := by
  simp only [encAttr20] at h
  split at h
  · cases h
  · rename_i tag htag
    split at h
    · rename_i hattr
      exact gating_encValue _ _ _ _ _ (allowed_isAttribute20 ver tag hattr hv) h
    · cases h

theorem gatingL_filter (ver : Nat) (l : List TItem) (p : TItem → Bool) (h : ∀ x ∈ l, p x = true → gatingFaults ver x = []) :
    gatingFaultsL ver (l.filter p) = [] := by
  rw [gatingL_nil_iff]
  intro k hk
  have := List.mem_filter.1 hk
  exact h k this.1 this.2

theorem gating_encKeyBlock (ver format : Nat) (value : Bytes) (alg len : Option Nat) (kwd : List TItem)
    (hk : gatingFaultsL ver kwd = []) : gatingFaults ver (encKeyBlock format value alg len kwd) = [] := by
  refine gating_struct _ _ _ (allowed_of_ungated _ _ (by decide)) ?_
  rw [gatingL_append, gatingL_append, gatingL_append]
  refine ⟨⟨⟨?_, gatingL_optL _ _ _ (fun a => gating_enm _ _ _ (by decide))⟩,
    gatingL_optL _ _ _ (fun a => gating_int _ _ _ (by decide))⟩, hk⟩
  simp only [gatingL_cons, gatingL_nil, and_true]
  refine ⟨gating_enm _ _ _ (by decide), gating_struct _ _ _ (allowed_of_ungated _ _ (by decide)) ?_⟩
  simp only [gatingL_cons, gatingL_nil, and_true]
  exact gating_byt _ _ _ (by decide)

theorem gating_encSecret (ver otype : Nat) (value : Bytes) (alg len format subtype : Option Nat) (wrapped : Bool)
    (extra : List TItem) (x : TItem) (hx : ∀ e ∈ extra, gatingFaults ver e = [])
    (h : encSecret otype value alg len format subtype wrapped extra = some x) : gatingFaults ver x = [] := by
  have hkwd : gatingFaultsL ver (if wrapped = true then extra.filter isKwd else []) = [] := by
    split
    · exact gatingL_filter _ _ _ (fun e he _ => hx e he)
    · rfl
  have hkb := fun f => gating_encKeyBlock ver f value alg len _ hkwd
  simp only [encSecret] at h
  split at h
  · cases subtype with
    | none => cases h
    | some st =>
      simp only [Option.map_some, Option.some.injEq] at h; subst h
      refine gating_struct _ _ _ (allowed_of_ungated _ _ (by decide)) ?_
      simp only [gatingL_cons, gatingL_nil, and_true]
      exact ⟨gating_enm _ _ _ (by decide), gating_byt _ _ _ (by decide)⟩
  · split at h
    · cases subtype with
      | none => cases h
      | some st =>
        simp only [Option.map_some, Option.some.injEq] at h; subst h
        refine gating_struct _ _ _ (allowed_of_ungated _ _ (by decide)) ?_
        simp only [gatingL_cons, gatingL_nil, and_true]
        exact ⟨gating_enm _ _ _ (by decide), gating_byt _ _ _ (by decide)⟩
    · split at h
      · cases format with
        | none => cases h
        | some f =>
          simp only [Option.map_some, Option.some.injEq] at h; subst h
          refine gating_struct _ _ _ (allowed_of_ungated _ _ (by decide)) ?_
          simp only [gatingL_cons, gatingL_nil, and_true]; exact hkb f
      · split at h
        · cases format with
          | none => cases h
          | some f =>
            simp only [Option.map_some, Option.some.injEq] at h; subst h
            refine gating_struct _ _ _ (allowed_of_ungated _ _ (by decide)) ?_
            simp only [gatingL_cons, gatingL_nil, and_true]; exact hkb f
        · split at h
          · cases format with
            | none => cases h
            | some f =>
              simp only [Option.map_some, Option.some.injEq] at h; subst h
              refine gating_struct _ _ _ (allowed_of_ungated _ _ (by decide)) ?_
              simp only [gatingL_cons, gatingL_nil, and_true]; exact hkb f
          · split at h
            · cases format with
              | none => cases h
              | some f =>
                simp only [Option.map_some, Option.some.injEq] at h; subst h
                refine gating_struct _ _ _ (allowed_of_ungated _ _ (by decide)) ?_
                rw [gatingL_append]
                refine ⟨gatingL_filter _ _ _ (fun e he _ => hx e he), ?_⟩
                simp only [gatingL_cons, gatingL_nil, and_true]; exact hkb f
            · split at h
              · split at h
                · rename_i f st
                  simp only [Option.some.injEq] at h; subst h
                  refine gating_struct _ _ _ (allowed_of_ungated _ _ (by decide)) ?_
                  simp only [gatingL_cons, gatingL_nil, and_true]
                  exact ⟨gating_enm _ _ _ (by decide), hkb f⟩
                · cases h
              · cases h

theorem gating_uidItem (ver : Nat) (u : String) : gatingFaults ver (uidItem u) = [] := gating_txt _ _ _ (by decide)

/-- the oracle subtrees respect the version, except that an Authenticated Encryption Tag may be handed to Encrypt
below KMIP 1.4 (the model drops it there) -/
def ExtraClean (ver op : Nat) (extra : List TItem) : Prop :=
  ∀ x ∈ extra, gatingFaults ver x = [] ∨
    (op = Op.encrypt ∧ tagOfItem x = T.authenticatedEncryptionTag ∧ ver < 14)

/-- **No element is sent under a version that excludes it** (payload level). -/
theorem gating_encData (ver op : Nat) (extra : List TItem) (d : Data) (ks : List TItem)
    (hx : ExtraClean ver op extra) (h : encData ver op extra d = some ks) : gatingFaultsL ver ks = [] := by
  cases d with
  | uid u =>
    simp only [encData] at h
    split at h
    · simp only [Option.some.injEq] at h; subst h
      simp only [gatingL_cons, gatingL_nil, and_true]
      exact ⟨gating_enm _ _ _ (by decide), gating_uidItem _ u⟩
    · split at h
      · simp only [Option.some.injEq] at h; subst h
        simp only [gatingL_cons, gatingL_nil, and_true]; exact gating_uidItem _ u
      · split at h
        · split at h
          · simp only [Option.some.injEq] at h; subst h
            simp only [gatingL_cons, gatingL_nil, and_true]; exact gating_uidItem _ u
          · cases h
        · cases h
  | uidAttr u a =>
    simp only [encData] at h
    split at h
    · split at h
      · cases a with
        | none => cases h
        | some a =>
          simp only at h
          cases hx1 : encAttr1x a with
          | none => rw [hx1] at h; cases h
          | some x =>
            rw [hx1] at h
            simp only [Option.map_some, Option.some.injEq] at h; subst h
            simp only [gatingL_cons, gatingL_nil, and_true]
            exact ⟨gating_uidItem _ u, gating_encAttr1x ver a x hx1⟩
      · simp only [Option.some.injEq] at h; subst h
        simp only [gatingL_cons, gatingL_nil, and_true]; exact gating_uidItem _ u
    · cases h
  | keyPair priv pub =>
    simp only [encData] at h
    split at h
    · simp only [Option.some.injEq] at h; subst h
      simp only [gatingL_cons, gatingL_nil, and_true]
      exact ⟨gating_txt _ _ _ (by decide), gating_txt _ _ _ (by decide)⟩
    · cases h
  | uids us =>
    simp only [encData] at h
    split at h
    · simp only [Option.some.injEq] at h; subst h
      exact gatingL_map _ _ _ (fun u _ => gating_uidItem _ u)
    · cases h
  | object otype u value alg len format subtype wrapped =>
    simp only [encData] at h
    split at h
    · rename_i hop
      have hclean : ∀ e ∈ extra, gatingFaults ver e = [] := by
        intro e he
        rcases hx e he with h1 | ⟨h1, _, _⟩
        · exact h1
        · simp only [beq_iff_eq] at hop; rw [hop] at h1; cases h1
      split at h
      · cases h
      · split at h
        · rename_i s hs
          simp only [Option.some.injEq] at h; subst h
          simp only [gatingL_cons, gatingL_nil, and_true]
          exact ⟨gating_enm _ _ _ (by decide), gating_uidItem _ u, gating_encSecret _ _ _ _ _ _ _ _ _ _ hclean hs⟩
        · cases h
    · cases h
  | attrs u as =>
    simp only [encData] at h
    split at h
    · split at h
      · cases hm : mapO encAttr1x as with
        | none => rw [hm] at h; cases h
        | some xs =>
          rw [hm] at h
          simp only [Option.map_some, Option.some.injEq] at h; subst h
          rw [gatingL_cons]
          exact ⟨gating_uidItem _ u, gatingL_mapO _ _ _ _ hm (fun a _ b hb => gating_encAttr1x ver a b hb)⟩
      · rename_i hv
        split at h
        · cases h
        · cases hm : mapO encAttr20 as with
          | none => rw [hm] at h; cases h
          | some xs =>
            rw [hm] at h
            simp only [Option.map_some, Option.some.injEq] at h; subst h
            have hv' : 20 ≤ ver := by omega
            simp only [gatingL_cons, gatingL_nil, and_true]
            refine ⟨gating_uidItem _ u, gating_struct _ _ _ ?_
              (gatingL_mapO _ _ _ _ hm (fun a _ b hb => gating_encAttr20 ver a b hv' hb))⟩
            exact allowed_of_open20 _ _ (by decide) hv'
    · cases h
  | names u ns =>
    simp only [encData] at h
    split at h
    · split at h
      · cases h
      · split at h
        · simp only [Option.some.injEq] at h; subst h
          rw [gatingL_cons]
          exact ⟨gating_uidItem _ u, gatingL_map _ _ _ (fun n _ => gating_txt _ _ _ (by decide))⟩
        · rename_i hv
          have hv' : 20 ≤ ver := by omega
          cases hm : mapO (fun n => (attributeNameTags.lookup n).map (enm T.attributeReference)) ns with
          | none => rw [hm] at h; cases h
          | some xs =>
            rw [hm] at h
            simp only [Option.map_some, Option.some.injEq] at h; subst h
            rw [gatingL_cons]
            refine ⟨gating_uidItem _ u, gatingL_mapO _ _ _ _ hm (fun n _ b hb => ?_)⟩
            cases hl : attributeNameTags.lookup n with
            | none => rw [hl] at hb; cases hb
            | some tag =>
              rw [hl] at hb
              simp only [Option.map_some, Option.some.injEq] at hb; subst hb
              exact gating_prim _ _ _ (allowed_of_open20 _ _ (by decide) hv')
    · cases h
  | ops os vendor =>
    simp only [encData] at h
    split at h
    · simp only [Option.some.injEq] at h; subst h
      rw [gatingL_append]
      refine ⟨gatingL_map _ _ _ (fun o _ => gating_enm _ _ _ (by decide)), ?_⟩
      split
      · simp only [gatingL_cons, gatingL_nil, and_true]; exact gating_txt _ _ _ (by decide)
      · rfl
    · cases h
  | versions vs =>
    simp only [encData] at h
    split at h
    · simp only [Option.some.injEq] at h; subst h
      refine gatingL_map _ _ _ (fun v _ => gating_struct _ _ _ (allowed_of_ungated _ _ (by decide)) ?_)
      simp only [gatingL_cons, gatingL_nil, and_true]
      exact ⟨gating_int _ _ _ (by decide), gating_int _ _ _ (by decide)⟩
    · cases h
  | crypto u c =>
    simp only [encData] at h
    cases c with
    | ok t =>
      simp only at h
      split at h
      · rename_i tag b htag hb
        simp only [Option.some.injEq] at h; subst h
        rw [gatingL_append]
        refine ⟨?_, ?_⟩
        · simp only [gatingL_cons, gatingL_nil, and_true]
          refine ⟨gating_uidItem _ u, gating_byt _ _ _ ?_⟩
          simp only [cryptoTag] at htag
          split at htag
          · simp only [Option.some.injEq] at htag; subst htag; decide
          · split at htag
            · simp only [Option.some.injEq] at htag; subst htag; decide
            · split at htag
              · simp only [Option.some.injEq] at htag; subst htag; decide
              · cases htag
        · simp only [encryptExtra]
          split
          · rw [gatingL_append]
            refine ⟨gatingL_filter _ _ _ (fun e he hp => ?_), ?_⟩
            · rcases hx e he with h1 | ⟨_, h2, _⟩
              · exact h1
              · simp only [beq_iff_eq] at hp; rw [h2] at hp; cases hp
            · split
              · rename_i hv
                refine gatingL_filter _ _ _ (fun e he _ => ?_)
                rcases hx e he with h1 | ⟨_, _, h3⟩
                · exact h1
                · omega
              · rfl
          · rfl
      · cases h
    | verdict b =>
      simp only at h
      split at h
      · simp only [Option.some.injEq] at h; subst h
        simp only [gatingL_cons, gatingL_nil, and_true]
        exact ⟨gating_uidItem _ u, gating_enm _ _ _ (by decide)⟩
      · cases h
    | ok2 _ _ _ _ => simp at h
    | kmipError _ => simp at h
    | internal => simp at h

/-! ### the engine model returns, for every operation, a result of that operation's shape -/

/-- the backend oracle answers a signature verification with a verdict and every other operation with a token
(the kind of thing the real backend's function returns) -/
def CryptoKindOk (it : Kmip.Item) : Prop :=
  match it.payload with
  | .signatureVerify _ _ => ∀ t, it.crypto ≠ .ok t
  | .encrypt _ _ | .decrypt _ _ | .sign _ _ | .mac _ _ _ => ∀ b, it.crypto ≠ .verdict b
  | _ => True

theorem cryptoResult_shape {uid : Option String} {cr : Crypto} {eff : Effect} {d : Data}
    (h : cryptoResult uid cr = .ok (eff, d)) :
    (∃ t, cr = .ok t ∧ d = .crypto (showUid uid) (.ok t)) ∨ (∃ b, cr = .verdict b ∧ d = .crypto (showUid uid) (.verdict b)) := by
  cases cr with
  | ok t => simp only [cryptoResult] at h; inv h; left; exact ⟨t, rfl, h.2.symm⟩
  | verdict b => simp only [cryptoResult] at h; inv h; right; exact ⟨b, rfl, h.2.symm⟩
  | ok2 _ _ _ _ => simp [cryptoResult, cryptoErr, ierr] at h
  | kmipError _ => simp [cryptoResult, cryptoErr, kerr] at h
  | internal => simp [cryptoResult, cryptoErr, ierr] at h

theorem processOperation_data_fits {c : Ctx} {e : Engine} {it : Kmip.Item} {eff : Effect} {d : Data}
    (hk : CryptoKindOk it) (h : processOperation c e it = .ok (eff, d)) : shapeFits it.payload.op d = true := by
  unfold processOperation at h
  split at h
  · inv h
  · split at h
    · inv h
    · unfold CryptoKindOk at hk
      split at h <;> rename_i hpay <;> rw [hpay] at hk ⊢ <;> simp only [Payload.op] <;> simp only at hk
      · unfold opCreate at h; inv h; strip h; rfl
      · unfold opCreateKeyPair at h; inv h; strip h; rfl
      · unfold opRegister at h
        inv h
        obtain ⟨_, h⟩ := h
        split at h
        · inv h
        · inv h; strip h; rfl
      · unfold opDeriveKey at h; inv h; strip h; rfl
      · unfold opLocate at h; inv h; strip h; rfl
      · unfold opGet at h
        inv h
        obtain ⟨_, _, _, _, _, h⟩ := h
        split at h <;> inv h
        · obtain ⟨dd, hd, _, rfl⟩ := h
          unfold coreObject at hd
          split at hd
          · inv hd; subst hd; rfl
          · split at hd
            · inv hd; subst hd; rfl
            · split at hd
              · inv hd; subst hd; rfl
              · inv hd
        · obtain ⟨_, _, dd, hd, _, rfl⟩ := h
          unfold coreObject at hd
          split at hd
          · inv hd; subst hd; rfl
          · split at hd
            · inv hd; subst hd; rfl
            · split at hd
              · inv hd; subst hd; rfl
              · inv hd
      · unfold opGetAttributes at h; inv h; strip h; rfl
      · unfold opGetAttributeList at h; inv h; strip h; rfl
      · unfold opActivate at h
        inv h
        obtain ⟨o, _, h⟩ := h
        split at h
        · inv h
        · inv h; obtain ⟨_, _, rfl⟩ := h; rfl
      · unfold opRevoke at h
        split at h
        · inv h
        · inv h
          obtain ⟨o, _, h⟩ := h
          split at h
          · inv h
          · split at h
            · inv h; obtain ⟨_, rfl⟩ := h; rfl
            · inv h; obtain ⟨_, _, rfl⟩ := h; rfl
      · unfold opDestroy at h; inv h; strip h; rfl
      · unfold opQuery at h; inv h; strip h; rfl
      · unfold opDiscoverVersions at h
        split at h <;> inv h <;> (obtain ⟨_, rfl⟩ := h; rfl)
      · unfold opEncrypt at h; inv h; obtain ⟨_, _, h⟩ := h
        rcases cryptoResult_shape h with ⟨t, _, rfl⟩ | ⟨b, hb, rfl⟩
        · rfl
        · exact absurd hb (hk b)
      · unfold opDecrypt at h; inv h; obtain ⟨_, _, h⟩ := h
        rcases cryptoResult_shape h with ⟨t, _, rfl⟩ | ⟨b, hb, rfl⟩
        · rfl
        · exact absurd hb (hk b)
      · unfold opSign at h; inv h; obtain ⟨_, _, h⟩ := h
        rcases cryptoResult_shape h with ⟨t, _, rfl⟩ | ⟨b, hb, rfl⟩
        · rfl
        · exact absurd hb (hk b)
      · unfold opSignatureVerify at h; inv h; obtain ⟨_, _, h⟩ := h
        rcases cryptoResult_shape h with ⟨t, ht, rfl⟩ | ⟨b, _, rfl⟩
        · exact absurd ht (hk t)
        · rfl
      · unfold opMac at h; inv h; strip h
        rcases cryptoResult_shape h with ⟨t, _, rfl⟩ | ⟨b, hb, rfl⟩
        · rfl
        · exact absurd hb (hk b)
      · unfold opSetAttribute at h; inv h; strip h; rfl
      · unfold opModifyAttribute at h; inv h; strip h; rfl
      · unfold opDeleteAttribute at h; inv h; strip h; rfl
      · inv h

/-- Create succeeds for Symmetric Key only: the Object Type of a Create response is that constant -/
theorem opCreate_symmetric {c : Ctx} {e : Engine} {ot : Nat} {t : Option Template} {cr : Crypto} {r : Effect × Data}
    (h : opCreate c e ot t cr = .ok r) : ot = OT.symmetricKey := by
  unfold opCreate at h
  inv h
  obtain ⟨hne, _⟩ := h
  simpa using hne

end Kmip.Encode
