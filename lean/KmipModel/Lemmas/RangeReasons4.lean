/-
Reason bounds (continued from `Lemmas/RangeReasons3.lean`): the attribute setters and deleters.
-/
import KmipModel.Lemmas.RangeReasons3
namespace Kmip.Encode
open Kmip

/-! ### attribute operations -/

theorem rb_setByIndex {o : Obj} {n : String} {v : AVal} {i : Nat} : RB (setByIndex o n v i) := by unfold setByIndex; rb
theorem rb_popAt {α : Type} {l : List α} {i : Int} : RB (popAt l i) := by unfold popAt; rb
macro_rules | `(tactic| rb_lemmas) => `(tactic| exact rb_setByIndex)
macro_rules | `(tactic| rb_lemmas) => `(tactic| exact rb_popAt)
theorem rb_delGeneric {α : Type} [BEq α] {l : List α} {v : Option α} {t : Bool} {i : Option Int} :
    RB (delGeneric l v t i) := by unfold delGeneric; rb
macro_rules | `(tactic| rb_lemmas) => `(tactic| exact rb_delGeneric)
theorem rb_delAttr {c : Ctx} {o : Obj} {n : String} {i : Option Int} {v : Option AVal} : RB (delAttr c o n i v) := by
  unfold delAttr; rb
macro_rules | `(tactic| rb_lemmas) => `(tactic| exact rb_delAttr)
theorem rb_opSetAttribute {c : Ctx} {e : Engine} {u : Option String} {a : TAttr} : RB (opSetAttribute c e u a) := by
  unfold opSetAttribute; rb
theorem rb_gotLength {g : Option Got} : RB (gotLength g) := by unfold gotLength; rb
theorem rb_nthAttr {as : List TAttr} {i : Nat} {s : String} : RB (nthAttr as i s) := by unfold nthAttr; rb
theorem rb_checkCurrent {o : Obj} {n : String} {cu : Option TAttr} : RB (checkCurrent o n cu) := by
  unfold checkCurrent; rb
  all_goals (rename_i heq; first | exact RB.of_error rb_getAttr heq | exact RB.of_error rb_attrIndex heq)
theorem rb_currentIndex {o : Obj} {n : String} {cu : Option TAttr} : RB (currentIndex o n cu) := by
  unfold currentIndex; rb
  all_goals (rename_i heq; first | exact RB.of_error rb_getAttr heq | exact RB.of_error rb_attrIndex heq)
macro_rules | `(tactic| rb_lemmas) => `(tactic| exact rb_gotLength)
macro_rules | `(tactic| rb_lemmas) => `(tactic| exact rb_nthAttr)
macro_rules | `(tactic| rb_lemmas) => `(tactic| exact rb_checkCurrent)
macro_rules | `(tactic| rb_lemmas) => `(tactic| exact rb_currentIndex)

end Kmip.Encode
