/-
Where `norm` (KmipModel/EncodeRequest.lean) loses nothing: the decidable predicate `Exact` and the lemmas behind
`C19Encode.norm_exact` / `norm_runs_like`.
-/
import KmipModel.Lemmas.EncodeRequestPayloads
import KmipModel.Server
set_option linter.unusedSimpArgs false
namespace Kmip.EncodeRequest
open Kmip Kmip.TTLV Kmip.Decode

/-! ### where `norm` loses nothing -/

def exactValue (name : String) : AVal → Bool
  | .int n => wireInt name n == n
  | _ => true
def exactAttr1x (a : TAttr) : Bool := exactValue a.name a.value
def exactAttr20 (a : TAttr) : Bool := a.index.isNone && exactValue a.name a.value
def exactTemplate (v : Nat) (t : Template) : Bool :=
  if v < 20 then t.attrs.all exactAttr1x else t.templateNames == 0 && t.attrs.all exactAttr20
def exactObj (o : RegObj) : Bool := normObj o == o
def exactWrap (w : WrapSpec) : Bool := normWrap w == w

/-- the payload is given back as it is (decidable; what it excludes is exactly what `normPayload` changes) -/
def exactPayload (v : Nat) : Payload → Bool
  | .create _ t => okOpt (exactTemplate v) t
  | .createKeyPair c pr pu => okOpt (exactTemplate v) c && okOpt (exactTemplate v) pr && okOpt (exactTemplate v) pu
  | .register _ t o => okOpt (exactTemplate v) t && okOpt exactObj o
  | .deriveKey _ _ t dd dl => okOpt (exactTemplate v) t && (dd || dl == 0)
  | .locate _ _ as => if v < 20 then as.all exactAttr1x else as.all exactAttr20
  | .get _ _ _ w => okOpt exactWrap w
  | .getAttributes _ ns => ns.eraseDups == ns
  | .setAttribute _ a => exactAttr20 a
  | .modifyAttribute _ a cu nw =>
      if v < 20 then okOpt exactAttr1x a && cu.isNone && nw.isNone
      else a.isNone && okOpt exactAttr20 cu && okOpt exactAttr20 nw
  | .deleteAttribute _ n i cu r =>
      if v < 20 then cu.isNone && r.isNone else n.isNone && i.isNone && okOpt exactAttr20 cu
  | _ => true

theorem normValue_exact (name : String) (v : AVal) (h : exactValue name v = true) : normValue name v = v := by
  cases v <;> first | rfl | (simp only [exactValue, beq_iff_eq] at h; simp only [normValue, h])

theorem normAttr1x_exact (a : TAttr) (h : exactAttr1x a = true) : normAttr1x a = a := by
  obtain ⟨n, i, v⟩ := a
  simp only [normAttr1x, normValue_exact n v h]

theorem normAttr20_exact (a : TAttr) (h : exactAttr20 a = true) : normAttr20 a = a := by
  obtain ⟨n, i, v⟩ := a
  simp only [exactAttr20, Bool.and_eq_true, Option.isNone_iff_eq_none] at h
  obtain ⟨rfl, hv⟩ := h
  simp only [normAttr20, normValue_exact n v hv]

theorem map_exact {α} (f : α → α) (p : α → Bool) (hf : ∀ a, p a = true → f a = a) (l : List α) (h : l.all p = true) :
    l.map f = l := by
  induction l with
  | nil => rfl
  | cons a as ih =>
    simp only [List.all_cons, Bool.and_eq_true] at h
    simp only [List.map_cons, hf a h.1, ih h.2]

theorem normTemplate_exact (v : Nat) (t : Template) (h : exactTemplate v t = true) : normTemplate v t = t := by
  obtain ⟨n, as⟩ := t
  unfold exactTemplate at h
  unfold normTemplate
  by_cases hv : v < 20
  · simp only [hv, ↓reduceIte] at h ⊢
    rw [map_exact normAttr1x exactAttr1x normAttr1x_exact as h]
  · simp only [hv, ↓reduceIte, Bool.and_eq_true, beq_iff_eq] at h ⊢
    obtain ⟨rfl, ha⟩ := h
    rw [map_exact normAttr20 exactAttr20 normAttr20_exact as ha]

theorem optMap_exact {α} (f : α → α) (p : α → Bool) (hf : ∀ a, p a = true → f a = a) (o : Option α)
    (h : okOpt p o = true) : o.map f = o := by
  cases o with
  | none => rfl
  | some a => simp only [okOpt] at h; simp only [Option.map_some, hf a h]

theorem normPayload_exact (v : Nat) (p : Payload) (h : exactPayload v p = true) : normPayload v p = p := by
  have hT := fun o h => optMap_exact (normTemplate v) (exactTemplate v) (normTemplate_exact v) o h
  have hA20 := fun o h => optMap_exact normAttr20 exactAttr20 normAttr20_exact o h
  cases p <;> simp only [exactPayload, Bool.and_eq_true, Bool.or_eq_true, beq_iff_eq] at h <;> simp only [normPayload]
  case create ot t => rw [hT t h]
  case createKeyPair c pr pu => rw [hT c h.1.1, hT pr h.1.2, hT pu h.2]
  case register ot t o =>
    rw [hT t h.1, optMap_exact normObj exactObj (fun a ha => by simpa only [exactObj, beq_iff_eq] using ha) o h.2]
  case deriveKey ot us t dd dl =>
    rw [hT t h.1]
    rcases h.2 with hd | hd
    · simp only [hd, ↓reduceIte]
    · subst hd; simp only [ite_self]
  case locate mx off as =>
    by_cases hv : v < 20
    · simp only [hv, ↓reduceIte] at h ⊢; rw [map_exact normAttr1x exactAttr1x normAttr1x_exact as h]
    · simp only [hv, ↓reduceIte] at h ⊢; rw [map_exact normAttr20 exactAttr20 normAttr20_exact as h]
  case get u f c w =>
    rw [optMap_exact normWrap exactWrap (fun a ha => by simpa only [exactWrap, beq_iff_eq] using ha) w h]
  case getAttributes u ns => rw [h]
  case setAttribute u a => rw [normAttr20_exact a h]
  case modifyAttribute u a cu nw =>
    by_cases hv : v < 20
    · simp only [hv, ↓reduceIte, Bool.and_eq_true, Option.isNone_iff_eq_none] at h ⊢
      obtain ⟨⟨ha, rfl⟩, rfl⟩ := h
      rw [optMap_exact normAttr1x exactAttr1x normAttr1x_exact a ha]
    · simp only [hv, ↓reduceIte, Bool.and_eq_true, Option.isNone_iff_eq_none] at h ⊢
      obtain ⟨⟨rfl, hc⟩, hn⟩ := h
      rw [hA20 cu hc, hA20 nw hn]
  case deleteAttribute u n i cu r =>
    by_cases hv : v < 20
    · simp only [hv, ↓reduceIte, Bool.and_eq_true, Option.isNone_iff_eq_none] at h ⊢
      obtain ⟨rfl, rfl⟩ := h
      rfl
    · simp only [hv, ↓reduceIte, Bool.and_eq_true, Option.isNone_iff_eq_none] at h ⊢
      obtain ⟨⟨rfl, rfl⟩, hc⟩ := h
      rw [hA20 cu hc]

/-- every payload of the request is given back as it is -/
def Exact (r : Request) : Prop := r.items.all (fun it => exactPayload r.version it.payload) = true

instance (r : Request) : Decidable (Exact r) := by unfold Exact; exact inferInstance

/-- forget the scripted backend outcomes (they are not on the wire) -/
def eraseCrypto (r : Request) : Request := { r with items := r.items.map (fun it => { it with crypto := .internal }) }

theorem norm_exact (r : Request) (h : Exact r) : norm r = eraseCrypto r := by
  obtain ⟨v, ts, as, bo, mx, items⟩ := r
  simp only [norm, eraseCrypto, Request.mk.injEq, true_and]
  apply List.map_congr_left
  intro it hit
  have := List.all_eq_true.mp h it hit
  simp only [normItem, normPayload_exact v it.payload this]

theorem fillCrypto_erase (items : List Kmip.Item) (answers : List Crypto) :
    Server.fillCrypto (items.map (fun it => { it with crypto := Crypto.internal })) answers = Server.fillCrypto items answers := by
  simp only [Server.fillCrypto, List.length_map, List.zip_map_left, List.map_map]
  apply List.map_congr_left
  intro p _
  rfl

end Kmip.EncodeRequest
