/-
`NoInternal x`: the computation `x` never ends in the model's `internal` outcome
(= a non-KMIP Python exception = General Failure).  Small calculus to prove it
compositionally.
-/
import KmipModel.Lemmas.EngineSpec
namespace Kmip

def NoInternal {α} (x : R α) : Prop := ∀ s, x ≠ .error (.internal s)

theorem NoInternal.pure {α} (a : α) : NoInternal (pure a : R α) := by intro s h; cases h
theorem NoInternal.ok {α} (a : α) : NoInternal (.ok a : R α) := by intro s h; cases h
theorem NoInternal.kerr {α} (r : Nat) (m : String) : NoInternal (kerr r m : R α) := by
  intro s h; simp [Kmip.kerr] at h
theorem NoInternal.kmip {α} (r : Nat) (m : String) : NoInternal (.error (.kmip r m) : R α) := by
  intro s h; cases h

theorem NoInternal.bind {α β} {x : R α} {f : α → R β}
    (hx : NoInternal x) (hf : ∀ a, x = .ok a → NoInternal (f a)) : NoInternal (x >>= f) := by
  intro s h
  cases hxx : x with
  | error e =>
    simp only [hxx, bind, Except.bind] at h
    cases h
    exact hx s hxx
  | ok a =>
    simp only [hxx, bind, Except.bind] at h
    exact hf a hxx s h

theorem NoInternal.ite {α} {c : Prop} [Decidable c] {x y : R α}
    (hx : c → NoInternal x) (hy : ¬ c → NoInternal y) : NoInternal (if c then x else y) := by
  by_cases h : c
  · simp only [h, if_true]; exact hx h
  · simp only [h, if_false]; exact hy h

theorem getWithAccess_noInternal (c : Ctx) (e : Engine) (uid : Option String) (op : Nat) :
    NoInternal (getWithAccess c e uid op) := by
  unfold getWithAccess
  split
  · exact NoInternal.kerr _ _
  · split
    · exact NoInternal.pure _
    · exact NoInternal.kerr _ _

/-- a name the rule table knows -/
def Ctx.Known (c : Ctx) (name : String) : Prop := (c.rule? name).isSome = true

theorem isSupported_known {c : Ctx} {ver : Nat} {name : String} (h : c.isSupported ver name = true) : c.Known name := by
  unfold Ctx.isSupported at h
  unfold Ctx.Known
  split at h
  · rename_i r hr; rw [hr]; rfl
  · cases h

/-- after the repair of F-C13-c the rule queries are total: unknown names answer `false` -/
theorem isDeprecated_noInternal (c : Ctx) (ver : Nat) (name : String) : NoInternal (c.isDeprecated ver name) := by
  unfold Ctx.isDeprecated
  split
  · split <;> exact NoInternal.pure _
  · exact NoInternal.pure _

theorem isApplicable_noInternal (c : Ctx) (name : String) (ot : Nat) : NoInternal (c.isApplicable name ot) :=
  NoInternal.pure _
theorem isMultivalued_noInternal (c : Ctx) (name : String) : NoInternal (c.isMultivalued name) := NoInternal.pure _
theorem isModifiable_noInternal (c : Ctx) (name : String) : NoInternal (c.isModifiable name) := NoInternal.pure _
theorem isDeletable_noInternal (c : Ctx) (name : String) : NoInternal (c.isDeletable name) := NoInternal.pure _

end Kmip
