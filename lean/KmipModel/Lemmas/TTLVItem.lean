/-
Item-level lemmas about M1: `decode ∘ encode`, inversion of `decode`, well-formedness of `encode`.
-/
import KmipModel.Lemmas.TTLV
namespace Kmip.TTLV

mutual
theorem dec_enc : ∀ (i : Item), i.Valid → ∀ (f : Nat) (rest : Bytes), (encode i).length ≤ f →
    decode f (encode i ++ rest) = some (i, rest)
  | .prim t v, hv, f, rest, hf => by
    have hv' : tagOk t = true ∧ v.Valid := by simpa only [Item.Valid] using hv
    obtain ⟨ht, hvv⟩ := hv'
    cases f with
    | zero => have := encode_length_ge (.prim t v); omega
    | succ f =>
      simp only [encode, List.append_assoc]
      rw [decode]
      rw [splitHeader_header _ _ _ _ (tagOk_lt t ht) (typeCode_lt v) (valBytes_length_lt v hvv)]
      simp only [ht, if_true, typeCode_ne_one v, if_false]
      rw [takeExact_append]
      simp only
      rw [takeExact_append' (zeros _) rest _ (zeros_length _)]
      simp only [allZero_zeros, if_true, decodeVal_valBytes v hvv]
  | .struct t ks, hv, f, rest, hf => by
    have hv' : tagOk t = true ∧ validList ks ∧ (encodeList ks).length < 256 ^ 4 := by
      simpa only [Item.Valid] using hv
    obtain ⟨ht, hks, hlen⟩ := hv'
    cases f with
    | zero => have := encode_length_ge (.struct t ks); omega
    | succ f =>
      have hf' : (encodeList ks).length + 1 ≤ f := by
        simp only [encode, List.length_append, header_length] at hf; omega
      simp only [encode, List.append_assoc]
      rw [decode]
      rw [splitHeader_header _ _ _ _ (tagOk_lt t ht) (by decide) hlen]
      simp only [ht, if_true]
      rw [takeExact_append]
      simp only [decs_encs ks hks f hf']
theorem decs_encs : ∀ (ks : List Item), validList ks → ∀ (f : Nat), (encodeList ks).length + 1 ≤ f →
    decodeList f (encodeList ks) = some ks
  | [], _, f, _ => by
    cases f <;> simp [encodeList, decodeList]
  | i :: is, hv, f, hf => by
    have hv' : i.Valid ∧ validList is := by simpa only [validList] using hv
    obtain ⟨hi, his⟩ := hv'
    have h8 := encode_length_ge i
    simp only [encodeList, List.length_append] at hf
    cases f with
    | zero => omega
    | succ f =>
      simp only [encodeList]
      obtain ⟨b, bs, hb⟩ := encode_cons i (encodeList is)
      rw [hb, decodeList, ← hb, dec_enc i hi f (encodeList is) (by omega)]
      simp only [decs_encs is his f (by omega)]
end

/-! ### items: everything the decoder accepts is the encoding of a valid item -/

theorem dec_inv : ∀ (f : Nat),
    (∀ (bs : Bytes) (i : Item) (rest : Bytes), decode f bs = some (i, rest) → i.Valid ∧ bs = encode i ++ rest) ∧
    (∀ (bs : Bytes) (ks : List Item), decodeList f bs = some ks → validList ks ∧ bs = encodeList ks) := by
  intro f
  induction f with
  | zero =>
    refine ⟨?_, ?_⟩
    · intro bs i rest h; simp [decode] at h
    · intro bs ks h
      cases bs with
      | nil => simp [decodeList] at h; subst h; simp [validList, encodeList]
      | cons b bs => simp [decodeList] at h
  | succ f ih =>
    refine ⟨?_, ?_⟩
    · intro bs i rest h
      simp only [decode] at h
      split at h
      · cases h
      · rename_i t ty len rest0 hsh
        obtain ⟨hbs, _, _, hl⟩ := splitHeader_some _ _ _ _ _ hsh
        split at h
        · rename_i htag
          split at h
          · rename_i hty
            split at h
            · cases h
            · rename_i body rest' hte
              obtain ⟨hr0, hbl⟩ := takeExact_some _ _ _ _ hte
              split at h
              · cases h
              · rename_i ks hks
                simp only [Option.some.injEq, Prod.mk.injEq] at h
                obtain ⟨rfl, rfl⟩ := h
                obtain ⟨hvl, hbody⟩ := ih.2 _ _ hks
                subst hty
                refine ⟨?_, ?_⟩
                · simp only [Item.Valid]
                  exact ⟨htag, hvl, by rw [← hbody, hbl]; exact hl⟩
                · simp only [encode]
                  rw [hbs, hr0, ← hbody, hbl]
                  simp only [List.append_assoc]
          · split at h
            · cases h
            · rename_i value r1 hte1
              obtain ⟨hr0, hvl⟩ := takeExact_some _ _ _ _ hte1
              split at h
              · cases h
              · rename_i pad r2 hte2
                obtain ⟨hr1, hpl⟩ := takeExact_some _ _ _ _ hte2
                split at h
                · rename_i hz
                  split at h
                  · cases h
                  · rename_i v hdv
                    simp only [Option.some.injEq, Prod.mk.injEq] at h
                    obtain ⟨rfl, rfl⟩ := h
                    obtain ⟨hvv, htc, hvb⟩ := decodeVal_some _ _ _ _ hvl hl hdv
                    refine ⟨?_, ?_⟩
                    · simp only [Item.Valid]; exact ⟨htag, hvv⟩
                    · simp only [encode]
                      have hp := eq_zeros_of_allZero pad hz
                      rw [hpl] at hp
                      rw [hbs, hr0, hr1, htc, hvb, hvl, hp]
                      simp only [List.append_assoc]
                · cases h
        · cases h
    · intro bs ks h
      cases bs with
      | nil => simp [decodeList] at h; subst h; simp [validList, encodeList]
      | cons b bs =>
        simp only [decodeList] at h
        split at h
        · cases h
        · rename_i i rest hd
          split at h
          · cases h
          · rename_i is his
            simp only [Option.some.injEq] at h
            subst h
            obtain ⟨hi, hbs⟩ := ih.1 _ _ _ hd
            obtain ⟨hv, hrest⟩ := ih.2 _ _ his
            refine ⟨?_, ?_⟩
            · simp only [validList]; exact ⟨hi, hv⟩
            · simp only [encodeList]; rw [hbs, hrest]

/-! ### a boolean validity checker (for `decide` on concrete trees and for the driver) -/

mutual
def Item.validB : Item → Bool
  | .prim t v => tagOk t && decide v.Valid
  | .struct t ks => tagOk t && validListB ks && decide ((encodeList ks).length < 256 ^ 4)
def validListB : List Item → Bool
  | [] => true
  | i :: is => i.validB && validListB is
end

mutual
theorem validB_sound : ∀ (i : Item), i.validB = true → i.Valid
  | .prim t v, h => by
    simp only [Item.validB, Bool.and_eq_true, decide_eq_true_eq] at h
    simp only [Item.Valid]; exact h
  | .struct t ks, h => by
    simp only [Item.validB, Bool.and_eq_true, decide_eq_true_eq] at h
    simp only [Item.Valid]; exact ⟨h.1.1, validListB_sound ks h.1.2, h.2⟩
theorem validListB_sound : ∀ (ks : List Item), validListB ks = true → validList ks
  | [], _ => by simp only [validList]
  | i :: is, h => by
    simp only [validListB, Bool.and_eq_true] at h
    simp only [validList]; exact ⟨validB_sound i h.1, validListB_sound is h.2⟩
end

/-! ### well-formedness of everything `encode` produces -/

theorem primOk_of_valid (v : PVal) (h : v.Valid) : primOk v.typeCode v.valBytes.length v.valBytes := by
  cases v with
  | boolean b => cases b <;> simp [primOk, PVal.typeCode, PVal.valBytes, be]
  | bigInteger x len =>
    simp only [PVal.Valid] at h
    simp [primOk, PVal.typeCode, PVal.valBytes, h.1, h.2.1]
  | _ => simp [primOk, PVal.typeCode, PVal.valBytes]

mutual
theorem enc_wf : ∀ (i : Item), i.Valid → WF (encode i)
  | .prim t v, hv => by
    have hv' : tagOk t = true ∧ v.Valid := by simpa only [Item.Valid] using hv
    have := WF.prim t v.typeCode v.valBytes.length v.valBytes hv'.1 rfl
      (valBytes_length_lt v hv'.2) (primOk_of_valid v hv'.2)
    simpa only [encode, header, List.append_assoc] using this
  | .struct t ks, hv => by
    have hv' : tagOk t = true ∧ validList ks ∧ (encodeList ks).length < 256 ^ 4 := by
      simpa only [Item.Valid] using hv
    have := WF.struct t (encodeList ks) hv'.1 hv'.2.2 (encs_wf ks hv'.2.1)
    simpa only [encode, header, List.append_assoc] using this
theorem encs_wf : ∀ (ks : List Item), validList ks → WFList (encodeList ks)
  | [], _ => by simp only [encodeList]; exact WFList.nil
  | i :: is, hv => by
    have hv' : i.Valid ∧ validList is := by simpa only [validList] using hv
    simp only [encodeList]
    exact WFList.cons _ _ (enc_wf i hv'.1) (encs_wf is hv'.2)
end

end Kmip.TTLV

namespace Kmip.TTLV

/-! ### completeness: every well-formed byte string is the encoding of a valid item -/

theorem decodeVal_of_primOk (ty len : Nat) (value : Bytes) (hlen : value.length = len)
    (h : primOk ty len value) : ∃ v, decodeVal ty len value = some v := by
  unfold primOk at h
  rcases h with ⟨rfl, rfl⟩ | ⟨rfl, rfl⟩ | ⟨rfl, h8, hpos⟩ | ⟨rfl, rfl⟩ | ⟨rfl, rfl, hv⟩ | rfl | rfl | ⟨rfl, rfl⟩ | ⟨rfl, rfl⟩
  · exact ⟨_, by simp [decodeVal]; try rfl⟩
  · exact ⟨_, by simp [decodeVal]; try rfl⟩
  · exact ⟨_, by simp [decodeVal, h8, hpos]; try rfl⟩
  · exact ⟨_, by simp [decodeVal]; try rfl⟩
  · rcases hv with rfl | rfl
    · exact ⟨.boolean false, by simp [decodeVal, ofBE]⟩
    · exact ⟨.boolean true, by simp [decodeVal, ofBE]⟩
  · exact ⟨_, by simp [decodeVal]; try rfl⟩
  · exact ⟨_, by simp [decodeVal]; try rfl⟩
  · exact ⟨_, by simp [decodeVal]; try rfl⟩
  · exact ⟨_, by simp [decodeVal]; try rfl⟩

mutual
theorem wf_is_encoding : ∀ (bs : Bytes), WF bs → ∃ i : Item, i.Valid ∧ encode i = bs
  | _, .prim t ty len value ht hlen hl hp => by
    obtain ⟨v, hv⟩ := decodeVal_of_primOk ty len value hlen hp
    obtain ⟨hvalid, htc, hvb⟩ := decodeVal_some ty len value v hlen hl hv
    refine ⟨.prim t v, ?_, ?_⟩
    · simp only [Item.Valid]; exact ⟨ht, hvalid⟩
    · simp only [encode, header, List.append_assoc]
      rw [htc, hvb, hlen]
  | _, .struct t body ht hl hb => by
    obtain ⟨ks, hks, he⟩ := wflist_is_encoding body hb
    refine ⟨.struct t ks, ?_, ?_⟩
    · simp only [Item.Valid]; exact ⟨ht, hks, by rw [he]; exact hl⟩
    · simp only [encode, header, List.append_assoc]
      rw [he]
theorem wflist_is_encoding : ∀ (bs : Bytes), WFList bs → ∃ ks : List Item, validList ks ∧ encodeList ks = bs
  | _, .nil => ⟨[], by simp only [validList], by simp only [encodeList]⟩
  | _, .cons a b ha hb => by
    obtain ⟨i, hi, he⟩ := wf_is_encoding a ha
    obtain ⟨ks, hks, hes⟩ := wflist_is_encoding b hb
    exact ⟨i :: ks, by simp only [validList]; exact ⟨hi, hks⟩, by simp only [encodeList]; rw [he, hes]⟩
end

end Kmip.TTLV
