/-
Lemmas about M1 (`KmipModel/TTLV.lean`): header splitting, primitive value round trips in both
directions, the two item-level inversion theorems and well-formedness of everything `encode` produces.
-/
import KmipModel.TTLV
namespace Kmip.TTLV

theorem tagOk_lt (t : Nat) (h : tagOk t = true) : t < 256 ^ 3 := by
  simp only [tagOk, Bool.or_eq_true, Bool.and_eq_true, decide_eq_true_eq] at h
  simp only [Nat.reducePow]
  omega

/-! ### header -/

theorem splitHeader_header (t ty len : Nat) (rest : Bytes)
    (ht : t < 256 ^ 3) (hty : ty < 256 ^ 1) (hl : len < 256 ^ 4) :
    splitHeader (header t ty len ++ rest) = some (t, ty, len, rest) := by
  unfold splitHeader header
  simp only [List.append_assoc]
  rw [takeExact_append' (be 3 t) _ 3 (be_length _ _)]
  simp only
  rw [takeExact_append' (be 1 ty) _ 1 (be_length _ _)]
  simp only
  rw [takeExact_append' (be 4 len) _ 4 (be_length _ _)]
  simp only
  rw [ofBE_be _ _ ht, ofBE_be _ _ hty, ofBE_be _ _ hl]

theorem splitHeader_some (bs rest : Bytes) (t ty len : Nat)
    (h : splitHeader bs = some (t, ty, len, rest)) :
    bs = header t ty len ++ rest ∧ t < 256 ^ 3 ∧ ty < 256 ^ 1 ∧ len < 256 ^ 4 := by
  unfold splitHeader at h
  split at h
  · cases h
  · rename_i tg r1 h1
    split at h
    · cases h
    · rename_i tyb r2 h2
      split at h
      · cases h
      · rename_i ln r3 h3
        simp only [Option.some.injEq, Prod.mk.injEq] at h
        obtain ⟨rfl, rfl, rfl, rfl⟩ := h
        obtain ⟨e1, l1⟩ := takeExact_some _ _ _ _ h1
        obtain ⟨e2, l2⟩ := takeExact_some _ _ _ _ h2
        obtain ⟨e3, l3⟩ := takeExact_some _ _ _ _ h3
        refine ⟨?_, ?_, ?_, ?_⟩
        · unfold header
          rw [be_ofBE' tg 3 l1, be_ofBE' tyb 1 l2, be_ofBE' ln 4 l3, e1, e2, e3]
          simp only [List.append_assoc]
        · have := ofBE_lt tg; rw [l1] at this; exact this
        · have := ofBE_lt tyb; rw [l2] at this; exact this
        · have := ofBE_lt ln; rw [l3] at this; exact this

theorem header_length (t ty len : Nat) : (header t ty len).length = 8 := by
  simp [header]

/-! ### primitive values -/

theorem valBytes_length_lt (v : PVal) (h : v.Valid) : v.valBytes.length < 256 ^ 4 := by
  cases v <;> simp only [PVal.valBytes, be_length, PVal.Valid] at * <;> first | omega | (simp only [Nat.reducePow]; omega) | skip
  all_goals first | exact h | exact h.2.2.1

theorem typeCode_lt (v : PVal) : v.typeCode < 256 ^ 1 := by
  cases v <;> simp [PVal.typeCode]

theorem typeCode_ne_one (v : PVal) : v.typeCode ≠ 1 := by
  cases v <;> simp [PVal.typeCode]

theorem decodeVal_valBytes (v : PVal) (h : v.Valid) :
    decodeVal v.typeCode v.valBytes.length v.valBytes = some v := by
  cases v with
  | integer x =>
    simp only [PVal.Valid] at h
    simp [decodeVal, PVal.typeCode, PVal.valBytes, ofBE_be _ _ (toTC_lt 4 x), ofTC_toTC 4 x h]
  | longInteger x =>
    simp only [PVal.Valid] at h
    simp [decodeVal, PVal.typeCode, PVal.valBytes, ofBE_be _ _ (toTC_lt 8 x), ofTC_toTC 8 x h]
  | bigInteger x len =>
    simp only [PVal.Valid] at h
    obtain ⟨h8, hpos, _, hfit⟩ := h
    simp [decodeVal, PVal.typeCode, PVal.valBytes, ofBE_be _ _ (toTC_lt len x), ofTC_toTC len x hfit, h8, hpos]
  | enumeration x =>
    simp only [PVal.Valid] at h
    simp [decodeVal, PVal.typeCode, PVal.valBytes, ofBE_be _ _ h]
  | boolean b =>
    cases b <;> simp [decodeVal, PVal.typeCode, PVal.valBytes, be, ofBE]
  | textString s => simp [decodeVal, PVal.typeCode, PVal.valBytes]
  | byteString s => simp [decodeVal, PVal.typeCode, PVal.valBytes]
  | dateTime x =>
    simp only [PVal.Valid] at h
    simp [decodeVal, PVal.typeCode, PVal.valBytes, ofBE_be _ _ (toTC_lt 8 x), ofTC_toTC 8 x h]
  | interval x =>
    simp only [PVal.Valid] at h
    simp [decodeVal, PVal.typeCode, PVal.valBytes, ofBE_be _ _ h]

/-- everything `decodeVal` accepts is a valid value whose type, length and bytes are the ones read -/
theorem decodeVal_some (ty len : Nat) (value : Bytes) (v : PVal)
    (hlen : value.length = len) (hl : len < 256 ^ 4)
    (h : decodeVal ty len value = some v) :
    v.Valid ∧ v.typeCode = ty ∧ v.valBytes = value := by
  unfold decodeVal at h
  have hv := ofBE_lt value
  rw [hlen] at hv
  repeat' split at h
  all_goals first | cases h | (simp only [Option.some.injEq] at h; subst h)
  all_goals simp only [PVal.Valid, PVal.typeCode, PVal.valBytes]
  · rename_i h2 h4; subst h2 h4
    exact ⟨fitsTC_ofTC 4 _ hv, rfl, by rw [toTC_ofTC 4 _ hv]; exact be_ofBE' _ _ hlen⟩
  · rename_i _ h3 h8; subst h3 h8
    exact ⟨fitsTC_ofTC 8 _ hv, rfl, by rw [toTC_ofTC 8 _ hv]; exact be_ofBE' _ _ hlen⟩
  · rename_i _ _ h4 hc; subst h4
    exact ⟨⟨hc.1, hc.2, hl, fitsTC_ofTC len _ hv⟩, rfl, by rw [toTC_ofTC len _ hv]; exact be_ofBE' _ _ hlen⟩
  · rename_i _ _ _ h5 h4; subst h5 h4
    exact ⟨hv, rfl, be_ofBE' _ _ hlen⟩
  · rename_i _ _ _ _ h6 h8 h0; subst h6 h8
    refine ⟨trivial, rfl, ?_⟩
    have := be_ofBE' _ _ hlen; rw [h0] at this; simpa using this
  · rename_i _ _ _ _ h6 h8 _ h1; subst h6 h8
    refine ⟨trivial, rfl, ?_⟩
    have := be_ofBE' _ _ hlen; rw [h1] at this; simpa using this
  · rename_i _ _ _ _ _ h7; subst h7
    exact ⟨by rw [hlen]; exact hl, by simp⟩
  · rename_i _ _ _ _ _ _ h8; subst h8
    exact ⟨by rw [hlen]; exact hl, by simp⟩
  · rename_i _ _ _ _ _ _ _ h9 h8; subst h9 h8
    exact ⟨fitsTC_ofTC 8 _ hv, rfl, by rw [toTC_ofTC 8 _ hv]; exact be_ofBE' _ _ hlen⟩
  · rename_i _ _ _ _ _ _ _ _ h10 h4; subst h10 h4
    exact ⟨hv, rfl, be_ofBE' _ _ hlen⟩

/-! ### items: decode ∘ encode -/

theorem encode_length_ge (i : Item) : 8 ≤ (encode i).length := by
  cases i <;> simp [encode, header_length] <;> omega

theorem be3_ne_nil (t : Nat) : ∃ b bs, be 3 t = b :: bs := ⟨_, _, rfl⟩

theorem encode_cons (i : Item) (tl : Bytes) : ∃ b bs, encode i ++ tl = b :: bs := by
  cases i <;> simp only [encode, header, be, List.cons_append] <;> exact ⟨_, _, rfl⟩

end Kmip.TTLV
