/-
Helper lemmas about the session model (M7): the receive loops on a well-behaved
transport compute a function of the concatenated byte stream; the outer loop is a
fold over the sequence of framing results.
-/
import KmipModel.Session
namespace Kmip.Session

/-- a transport that only delivers non-empty segments (no `None`, no early `b''`) -/
def Clean (c : Conn) : Prop := ∀ x ∈ c, ∃ bs, x = some bs ∧ bs ≠ []

/-- all bytes the transport will deliver -/
def flat : Conn → Bytes
  | [] => []
  | none :: r => flat r
  | some bs :: r => bs ++ flat r

/-- the connection that delivers exactly these chunks -/
def ofChunks (cs : List Bytes) : Conn := cs.map some

theorem flat_ofChunks (cs : List Bytes) : flat (ofChunks cs) = cs.flatten := by
  induction cs with
  | nil => rfl
  | cons b cs ih => simp [ofChunks, flat] at *; exact ih

theorem clean_ofChunks (cs : List Bytes) (h : ∀ b ∈ cs, b ≠ []) : Clean (ofChunks cs) := by
  intro x hx
  simp only [ofChunks, List.mem_map] at hx
  obtain ⟨b, hb, rfl⟩ := hx
  exact ⟨b, rfl, h b hb⟩

theorem clean_tail {x : Option Bytes} {c : Conn} (h : Clean (x :: c)) : Clean c :=
  fun y hy => h y (List.mem_cons_of_mem _ hy)

/-- one `recv` on a clean transport: a prefix of the stream, empty only at the end -/
theorem recv_clean (n : Nat) (hn : 0 < n) (c : Conn) (hc : Clean c) :
    ∃ p c', recv n c = (some p, c') ∧ p.length ≤ n ∧ Clean c' ∧ flat c = p ++ flat c' ∧
      (p = [] → flat c = []) := by
  cases c with
  | nil => exact ⟨[], [], rfl, by simp, hc, rfl, fun _ => rfl⟩
  | cons x r =>
    obtain ⟨bs, hx, hne⟩ := hc x (List.mem_cons_self ..)
    subst hx
    have hr : Clean r := clean_tail hc
    unfold recv
    by_cases hl : bs.length ≤ n
    · simp only [hl, if_true]
      exact ⟨bs, r, rfl, hl, hr, rfl, fun h => absurd h hne⟩
    · simp only [hl, if_false]
      refine ⟨bs.take n, some (bs.drop n) :: r, rfl, by rw [List.length_take]; exact Nat.min_le_left _ _, ?_, ?_, ?_⟩
      · intro y hy
        rcases List.mem_cons.mp hy with rfl | hy
        · refine ⟨_, rfl, ?_⟩
          intro h
          have h0 : (bs.drop n).length = 0 := by rw [h]; rfl
          rw [List.length_drop] at h0; omega
        · exact hr y hy
      · simp [flat, ← List.append_assoc, List.take_append_drop]
      · intro h
        have h0 : (bs.take n).length = 0 := by rw [h]; rfl
        rw [List.length_take] at h0
        have : bs.length ≠ 0 := fun h0 => hne (List.length_eq_zero_iff.mp h0)
        omega

/-- `_receive_bytes` on a clean transport: the next `size` bytes of the stream, or
ConnectionClosed when the stream is shorter -/
theorem recvLoop_clean (size received : Nat) (msg : Bytes) (c : Conn) (hc : Clean c) (hle : received ≤ size) :
    (size - received ≤ (flat c).length →
      ∃ c', recvLoop size received msg c = (.ok (msg ++ (flat c).take (size - received)), c') ∧ Clean c' ∧
        flat c' = (flat c).drop (size - received)) ∧
    ((flat c).length < size - received →
      ∃ c', recvLoop size received msg c = (.closed (msg ++ flat c), c')) := by
  fun_induction recvLoop size received msg c with
  | case1 received msg c h c' hr =>
    have hn : 0 < min (size - received) maxBufferSize := by simp [maxBufferSize]; omega
    obtain ⟨p, c'', h1, _⟩ := recv_clean _ hn c hc
    rw [hr] at h1; simp at h1
  | case2 received msg c h p c' hr hp =>
    have hn : 0 < min (size - received) maxBufferSize := by simp [maxBufferSize]; omega
    obtain ⟨p', c'', h1, _, _, hf, he⟩ := recv_clean _ hn c hc
    rw [hr] at h1
    simp only [Prod.mk.injEq, Option.some.injEq] at h1
    obtain ⟨rfl, rfl⟩ := h1
    have hp0 : p = [] := List.length_eq_zero_iff.mp hp
    have hfc := he hp0
    constructor
    · intro hl; rw [hfc] at hl; simp at hl; omega
    · intro _; exact ⟨c', by rw [hfc]; simp⟩
  | case3 received msg c h p c' hr hp ih =>
    have hn : 0 < min (size - received) maxBufferSize := by simp [maxBufferSize]; omega
    obtain ⟨p', c'', h1, hlen, hcl, hf, _⟩ := recv_clean _ hn c hc
    rw [hr] at h1
    simp only [Prod.mk.injEq, Option.some.injEq] at h1
    obtain ⟨rfl, rfl⟩ := h1
    have hpl : p.length ≤ size - received := by
      have := Nat.min_le_left (size - received) maxBufferSize; omega
    obtain ⟨ih1, ih2⟩ := ih hcl (by omega)
    have hsub : size - (received + p.length) = size - received - p.length := by omega
    constructor
    · intro hl
      rw [hf, List.length_append] at hl
      obtain ⟨c2, e, hc2, hf2⟩ := ih1 (by omega)
      refine ⟨c2, ?_, hc2, ?_⟩
      · rw [e, hf, List.take_append, List.take_of_length_le hpl, hsub, List.append_assoc]
      · rw [hf2, hf, List.drop_append, List.drop_of_length_le hpl, hsub, List.nil_append]
    · intro hl
      rw [hf, List.length_append] at hl
      obtain ⟨c2, e⟩ := ih2 (by omega)
      exact ⟨c2, by rw [e, hf, List.append_assoc]⟩
  | case4 received msg c h =>
    have he : received = size := by omega
    subst he
    constructor
    · intro _; exact ⟨c, by simp [finish], hc, by simp⟩
    · intro hl; simp at hl

/-- the frame at the head of a byte stream and the rest, if a whole frame is there -/
def splitFrame (bs : Bytes) : Option (Bytes × Bytes) :=
  if bs.length < 8 then none
  else if (bs.drop 8).length < be32 ((bs.take 8).drop 4) then none
  else some (bs.take (8 + be32 ((bs.take 8).drop 4)), bs.drop (8 + be32 ((bs.take 8).drop 4)))

theorem splitFrame_some {bs f rest : Bytes} (h : splitFrame bs = some (f, rest)) :
    bs = f ++ rest ∧ 8 ≤ f.length ∧ f.length = 8 + be32 ((f.take 8).drop 4) := by
  unfold splitFrame at h
  split at h
  · simp at h
  · split at h
    · simp at h
    · rename_i h8 hp
      simp only [Option.some.injEq, Prod.mk.injEq] at h
      obtain ⟨rfl, rfl⟩ := h
      simp only [List.length_drop] at hp
      refine ⟨(List.take_append_drop _ _).symm, ?_, ?_⟩
      · simp [List.length_take]; omega
      · have : (List.take (8 + be32 ((bs.take 8).drop 4)) bs).take 8 = bs.take 8 := by
          rw [List.take_take]; congr 1; omega
        rw [this, List.length_take]; omega

/-- `_receive_request` on a clean transport reads exactly the head frame of the stream -/
theorem receiveRequest_clean (c : Conn) (hc : Clean c) :
    (∀ f rest, splitFrame (flat c) = some (f, rest) →
      ∃ c', receiveRequest c = (.ok f, c') ∧ Clean c' ∧ flat c' = rest) ∧
    (splitFrame (flat c) = none → ∃ c', receiveRequest c = (.closed (flat c), c')) := by
  unfold receiveRequest recvBytes
  obtain ⟨h1, h2⟩ := recvLoop_clean 8 0 [] c hc (by omega)
  simp only [Nat.sub_zero, List.nil_append] at h1 h2
  by_cases h8 : (flat c).length < 8
  · obtain ⟨c1, e1⟩ := h2 h8
    have hn : splitFrame (flat c) = none := by unfold splitFrame; rw [if_pos h8]
    constructor
    · intro f rest hs; rw [hn] at hs; cases hs
    · intro _; exact ⟨c1, by rw [e1]⟩
  · obtain ⟨c1, e1, hc1, hf1⟩ := h1 (by omega)
    rw [e1]; simp only
    obtain ⟨g1, g2⟩ := recvLoop_clean (be32 (((flat c).take 8).drop 4)) 0 [] c1 hc1 (by omega)
    simp only [Nat.sub_zero, List.nil_append] at g1 g2
    rw [hf1] at g1 g2
    by_cases hp : ((flat c).drop 8).length < be32 (((flat c).take 8).drop 4)
    · obtain ⟨c2, e2⟩ := g2 hp
      have hn : splitFrame (flat c) = none := by unfold splitFrame; rw [if_neg h8, if_pos hp]
      constructor
      · intro f rest hs; rw [hn] at hs; cases hs
      · intro _; exact ⟨c2, by rw [e2]; simp only; rw [List.take_append_drop]⟩
    · obtain ⟨c2, e2, hc2, hf2⟩ := g1 (by omega)
      have hn : splitFrame (flat c) = some ((flat c).take (8 + be32 (((flat c).take 8).drop 4)),
          (flat c).drop (8 + be32 (((flat c).take 8).drop 4))) := by
        unfold splitFrame; rw [if_neg h8, if_neg hp]
      constructor
      · intro f rest hs
        rw [hn] at hs
        simp only [Option.some.injEq, Prod.mk.injEq] at hs
        obtain ⟨rfl, rfl⟩ := hs
        refine ⟨c2, ?_, hc2, ?_⟩
        · rw [e2]; simp only
          congr 2
          rw [← List.take_add]
        · rw [hf2, List.drop_drop]
      · intro hs; rw [hn] at hs; cases hs

theorem splitFrame_rest_lt {bs f rest : Bytes} (h : splitFrame bs = some (f, rest)) : rest.length < bs.length := by
  obtain ⟨h1, h2, _⟩ := splitFrame_some h
  rw [h1, List.length_append]; omega

/-- framing results as a function of the byte stream alone -/
def flatReads (bs : Bytes) : List Recv :=
  match h : splitFrame bs with
  | none => [.closed bs]
  | some (f, rest) =>
    have : rest.length < bs.length := splitFrame_rest_lt h
    .ok f :: flatReads rest
termination_by bs.length

theorem flatReads_none {bs : Bytes} (h : splitFrame bs = none) : flatReads bs = [.closed bs] := by
  rw [flatReads]; split
  · rfl
  · rename_i h'; rw [h] at h'; cases h'

theorem flatReads_some {bs f rest : Bytes} (h : splitFrame bs = some (f, rest)) :
    flatReads bs = .ok f :: flatReads rest := by
  rw [flatReads]; split
  · rename_i h'; rw [h] at h'; cases h'
  · rename_i f' rest' h'; rw [h] at h'; cases h'; rfl

/-- on a clean transport the loop sees what the byte stream alone determines -/
theorem reads_clean (c : Conn) (hc : Clean c) : reads c = flatReads (flat c) := by
  fun_induction reads c with
  | case1 c p c' h =>
    obtain ⟨h1, h2⟩ := receiveRequest_clean c hc
    cases hs : splitFrame (flat c) with
    | none =>
      obtain ⟨c2, e⟩ := h2 hs
      rw [h] at e; cases e
      rw [flatReads_none hs]
    | some fr =>
      obtain ⟨c2, e, _⟩ := h1 fr.1 fr.2 hs
      rw [h] at e; cases e
  | case2 c p c' h _ ih =>
    obtain ⟨h1, h2⟩ := receiveRequest_clean c hc
    cases hs : splitFrame (flat c) with
    | none => obtain ⟨c2, e⟩ := h2 hs; rw [h] at e; cases e
    | some fr => obtain ⟨c2, e, _⟩ := h1 fr.1 fr.2 hs; rw [h] at e; cases e
  | case3 c d c' h _ ih =>
    obtain ⟨h1, h2⟩ := receiveRequest_clean c hc
    cases hs : splitFrame (flat c) with
    | none => obtain ⟨c2, e⟩ := h2 hs; rw [h] at e; cases e
    | some fr =>
      obtain ⟨c2, e, hc2, hf2⟩ := h1 fr.1 fr.2 hs
      rw [h] at e
      simp only [Prod.mk.injEq, Recv.ok.injEq] at e
      obtain ⟨rfl, rfl⟩ := e
      rw [flatReads_some hs, ih hc2, hf2]

/-! ### the outer loop is a fold over the framing results -/

def runReads {Q R σ} (env : Env Q R σ) (cfg : SessionCfg) (peer : Option Cert) : σ → List Recv → List (Event Q R) × σ
  | s, [] => ([], s)
  | s, .closed _ :: _ => ([], s)
  | s, .short p :: r =>
    (.badFrame p :: (runReads env cfg peer s r).1, (runReads env cfg peer s r).2)
  | s, .ok d :: r =>
    (.handled d (handleMessage env cfg peer s d).1 :: (runReads env cfg peer (handleMessage env cfg peer s d).2 r).1,
     (runReads env cfg peer (handleMessage env cfg peer s d).2 r).2)

theorem run_eq_runReads {Q R σ} (env : Env Q R σ) (cfg : SessionCfg) (peer : Option Cert) (s : σ) (c : Conn) :
    run env cfg peer s c = runReads env cfg peer s (reads c) := by
  fun_induction run env cfg peer s c with
  | case1 s c p c' h =>
    rw [reads]; split
    · rfl
    · rename_i h'; rw [h] at h'; cases h'
    · rename_i h'; rw [h] at h'; cases h'
  | case2 s c p c' h _ t ih =>
    rw [reads]; split
    · rename_i h'; rw [h] at h'; cases h'
    · rename_i h'; rw [h] at h'; cases h'
      simp only [runReads, ← ih, t]
    · rename_i h'; rw [h] at h'; cases h'
  | case3 s c d c' h _ r t ih =>
    rw [reads]; split
    · rename_i h'; rw [h] at h'; cases h'
    · rename_i h'; rw [h] at h'; cases h'
    · rename_i h'; rw [h] at h'; cases h'
      simp only [runReads, ← ih, t, r]

/-! ### framing facts on the byte stream -/

/-- a complete frame: 8-byte header whose bytes 4..7 give the length of what follows -/
def WellFramed (f : Bytes) : Prop := 8 ≤ f.length ∧ f.length = 8 + be32 ((f.take 8).drop 4)

instance (f : Bytes) : Decidable (WellFramed f) := by unfold WellFramed; exact inferInstance

theorem splitFrame_append {f : Bytes} (rest : Bytes) (h : WellFramed f) : splitFrame (f ++ rest) = some (f, rest) := by
  obtain ⟨h8, hl⟩ := h
  have ht : (f ++ rest).take 8 = f.take 8 := List.take_append_of_le_length h8
  unfold splitFrame
  rw [ht]
  have h1 : ¬ (f ++ rest).length < 8 := by rw [List.length_append]; omega
  have h2 : ¬ ((f ++ rest).drop 8).length < be32 ((f.take 8).drop 4) := by
    rw [List.length_drop, List.length_append]; omega
  rw [if_neg h1, if_neg h2, ← hl]
  simp

theorem flatReads_append {f : Bytes} (rest : Bytes) (h : WellFramed f) :
    flatReads (f ++ rest) = .ok f :: flatReads rest := flatReads_some (splitFrame_append rest h)

theorem flatReads_no_short (bs : Bytes) : ∀ p, Recv.short p ∉ flatReads bs := by
  fun_induction flatReads bs with
  | case1 bs h => intro p hp; simp at hp
  | case2 bs f rest h _ ih => intro p hp; simp at hp; exact ih p hp

/-- the frames and the residue partition the stream; every frame is complete -/
theorem framesOf_flatReads (bs : Bytes) :
    (framesOf (flatReads bs)).1.flatten ++ (framesOf (flatReads bs)).2 = bs ∧
    ∀ f ∈ (framesOf (flatReads bs)).1, WellFramed f := by
  fun_induction flatReads bs with
  | case1 bs h => simp [framesOf]
  | case2 bs f rest h _ ih =>
    obtain ⟨h1, h2, h3⟩ := splitFrame_some h
    obtain ⟨ih1, ih2⟩ := ih
    simp only [framesOf]
    constructor
    · simp only [List.flatten_cons, List.append_assoc, ih1]; exact h1.symm
    · intro g hg
      rcases List.mem_cons.mp hg with rfl | hg
      · exact ⟨h2, h3⟩
      · exact ih2 g hg

/-! ### identity establishment -/

/-- the SLUGS service behind plugin `p` knows `user` and reports the group list `g` -/
def Vouches (sl : Slugs) (p : Plugin) (user : String) (g : Option (List String)) : Prop :=
  ∃ u, p.url = some u ∧
    (∃ code body, sl.users (normUrl u) user = .status code body ∧ code ≠ 404) ∧
    (∃ code, sl.groups (normUrl u) user = .status code (.groups g) ∧ code ≠ 404)

theorem clientIdentity_some (c : Cert) (u : String) : clientIdentity c = some u ↔ c.commonNames = [u] := by
  unfold clientIdentity
  split
  · rename_i cn h; rw [h]; simp
  · rename_i h
    constructor
    · intro h'; cases h'
    · intro h'; exact absurd h' (h u)

theorem slugsAuthenticate_some (sl : Slugs) (p : Plugin) (cert : Cert) (id : Identity) :
    slugsAuthenticate sl p.url cert = some id ↔
    ∃ user g, cert.commonNames = [user] ∧ id = ⟨some user, g⟩ ∧ Vouches sl p user g := by
  unfold slugsAuthenticate Vouches
  constructor
  · intro h
    split at h
    · cases h
    · rename_i u hu
      split at h
      · cases h
      · rename_i user hci
        split at h
        · cases h
        · rename_i code body hus
          split at h
          · cases h
          · rename_i hc
            split at h
            · cases h
            · rename_i code2 body2 hgs
              split at h
              · cases h
              · rename_i hc2
                split at h
                · cases h
                · rename_i g
                  cases h
                  exact ⟨user, g, (clientIdentity_some _ _).mp hci, rfl, u, hu, ⟨code, body, hus, hc⟩,
                    ⟨code2, hgs, hc2⟩⟩
  · rintro ⟨user, g, hcn, rfl, u, hu, ⟨code, body, hus, hc⟩, ⟨code2, hgs, hc2⟩⟩
    rw [hu]
    simp only [(clientIdentity_some _ _).mpr hcn, hus, hc, if_false, hgs, hc2]

theorem vouches_unique {sl : Slugs} {p : Plugin} {user : String} {g g' : Option (List String)}
    (h : Vouches sl p user g) (h' : Vouches sl p user g') : g = g' := by
  obtain ⟨u, hu, _, ⟨c, hg, _⟩⟩ := h
  obtain ⟨u', hu', _, ⟨c', hg', _⟩⟩ := h'
  rw [hu] at hu'; cases hu'
  rw [hg] at hg'; cases hg'; rfl

/-- the plugin loop returns the answer of the first active plugin that answers -/
theorem authLoop_some (sl : Slugs) (cert : Cert) (ps : List Plugin) (en b : Bool) (id : Identity) :
    authLoop sl cert ps en = (some id, b) ↔
    b = true ∧ ∃ pre p post, ps = pre ++ p :: post ∧ p.active = true ∧ slugsAuthenticate sl p.url cert = some id ∧
      ∀ q ∈ pre, q.active = true → slugsAuthenticate sl q.url cert = none := by
  induction ps generalizing en with
  | nil =>
    simp only [authLoop, Prod.mk.injEq]
    constructor
    · rintro ⟨h, _⟩; cases h
    · rintro ⟨_, pre, p, post, h, _⟩; cases pre <;> cases h
  | cons x xs ih =>
    unfold authLoop
    by_cases ha : x.active = true
    · simp only [ha, if_true]
      cases hs : slugsAuthenticate sl x.url cert with
      | some id' =>
        simp only [Prod.mk.injEq, Option.some.injEq]
        constructor
        · rintro ⟨rfl, rfl⟩
          exact ⟨rfl, [], x, xs, rfl, ha, hs, by simp⟩
        · rintro ⟨rfl, pre, p, post, hps, hpa, hp, hpre⟩
          cases pre with
          | nil =>
            simp only [List.nil_append, List.cons.injEq] at hps
            obtain ⟨rfl, rfl⟩ := hps
            rw [hs] at hp; cases hp; exact ⟨rfl, rfl⟩
          | cons y ys =>
            simp only [List.cons_append, List.cons.injEq] at hps
            obtain ⟨rfl, rfl⟩ := hps
            have := hpre x (List.mem_cons_self ..) ha
            rw [hs] at this; cases this
      | none =>
        simp only
        rw [ih]
        constructor
        · rintro ⟨hb, pre, p, post, hps, hpa, hp, hpre⟩
          refine ⟨hb, x :: pre, p, post, by rw [hps]; rfl, hpa, hp, ?_⟩
          intro q hq hqa
          rcases List.mem_cons.mp hq with rfl | hq
          · exact hs
          · exact hpre q hq hqa
        · rintro ⟨hb, pre, p, post, hps, hpa, hp, hpre⟩
          cases pre with
          | nil =>
            simp only [List.nil_append, List.cons.injEq] at hps
            obtain ⟨rfl, rfl⟩ := hps
            rw [hs] at hp; cases hp
          | cons y ys =>
            simp only [List.cons_append, List.cons.injEq] at hps
            obtain ⟨rfl, rfl⟩ := hps
            exact ⟨hb, ys, p, post, rfl, hpa, hp, fun q hq => hpre q (List.mem_cons_of_mem _ hq)⟩
    · rw [if_neg ha, ih]
      constructor
      · rintro ⟨hb, pre, p, post, hps, hpa, hp, hpre⟩
        refine ⟨hb, x :: pre, p, post, by rw [hps]; rfl, hpa, hp, ?_⟩
        intro q hq hqa
        rcases List.mem_cons.mp hq with rfl | hq
        · exact absurd hqa ha
        · exact hpre q hq hqa
      · rintro ⟨hb, pre, p, post, hps, hpa, hp, hpre⟩
        cases pre with
        | nil =>
          simp only [List.nil_append, List.cons.injEq] at hps
          obtain ⟨rfl, rfl⟩ := hps
          exact absurd hpa ha
        | cons y ys =>
          simp only [List.cons_append, List.cons.injEq] at hps
          obtain ⟨rfl, rfl⟩ := hps
          exact ⟨hb, ys, p, post, rfl, hpa, hp, fun q hq => hpre q (List.mem_cons_of_mem _ hq)⟩

/-- the loop falls through exactly when no active plugin answers; `plugin_enabled` records whether one was tried -/
theorem authLoop_none (sl : Slugs) (cert : Cert) (ps : List Plugin) (en b : Bool) :
    authLoop sl cert ps en = (none, b) ↔
    (∀ q ∈ ps, q.active = true → slugsAuthenticate sl q.url cert = none) ∧ b = (en || ps.any (·.active)) := by
  induction ps generalizing en with
  | nil =>
    simp only [authLoop, List.any_nil, Bool.or_false]
    constructor
    · intro h; cases h; exact ⟨fun q hq => (by cases hq), rfl⟩
    · rintro ⟨_, rfl⟩; rfl
  | cons x xs ih =>
    unfold authLoop
    by_cases ha : x.active = true
    · simp only [ha, if_true]
      cases hs : slugsAuthenticate sl x.url cert with
      | some id' =>
        simp only [Prod.mk.injEq]
        constructor
        · rintro ⟨h, _⟩; cases h
        · rintro ⟨h, _⟩
          have := h x (List.mem_cons_self ..) ha
          rw [hs] at this; cases this
      | none =>
        simp only
        rw [ih]
        simp only [List.any_cons, ha, Bool.true_or, Bool.or_true]
        constructor
        · rintro ⟨h, hb⟩
          refine ⟨?_, hb⟩
          intro q hq hqa
          rcases List.mem_cons.mp hq with rfl | hq
          · exact hs
          · exact h q hq hqa
        · rintro ⟨h, hb⟩
          exact ⟨fun q hq => h q (List.mem_cons_of_mem _ hq), hb⟩
    · rw [if_neg ha, ih]
      have hf : x.active = false := by cases h : x.active <;> simp_all
      simp only [List.any_cons, hf, Bool.false_or]
      constructor
      · rintro ⟨h, hb⟩
        refine ⟨?_, hb⟩
        intro q hq hqa
        rcases List.mem_cons.mp hq with rfl | hq
        · exact absurd hqa ha
        · exact h q hq hqa
      · rintro ⟨h, hb⟩
        exact ⟨fun q hq => h q (List.mem_cons_of_mem _ hq), hb⟩

theorem certStage_some (tls : Bool) (peer : Option Cert) (cert : Cert) :
    certStage tls peer = some cert ↔
    peer = some cert ∧ (tls = true → ∃ ek, cert.eku = some ek ∧ Eku.clientAuth ∈ ek) := by
  unfold certStage
  cases peer with
  | none => simp
  | some c =>
    simp only [Option.some.injEq]
    cases tls with
    | false => simp
    | true =>
      simp only [if_true, true_implies]
      cases he : c.eku with
      | none =>
        simp only
        constructor
        · intro h; cases h
        · rintro ⟨rfl, ek, h, _⟩; rw [he] at h; cases h
      | some ek =>
        simp only
        by_cases hm : Eku.clientAuth ∈ ek
        · simp only [hm, if_true, Option.some.injEq]
          constructor
          · rintro rfl; exact ⟨rfl, ek, he, hm⟩
          · rintro ⟨h, _⟩; exact h
        · simp only [hm, if_false]
          constructor
          · intro h; cases h
          · rintro ⟨rfl, ek', h, hm'⟩; rw [he] at h; cases h; exact absurd hm' hm

end Kmip.Session
