/-
Reason bounds (continued from `Lemmas/RangeReasons2.lean`): Get, the cryptographic operations.
-/
import KmipModel.Lemmas.RangeReasons2
namespace Kmip.Encode
open Kmip

/-! ### Get and the rest -/

theorem rb_coreObject {o : Obj} {v : String} {w : Bool} {u : String} : RB (coreObject o v w u) := by
  unfold coreObject; rb
theorem rb_checkFormat {o : Obj} {f : Option Nat} : RB (checkFormat o f) := by unfold checkFormat; rb
theorem rb_getWrapKey {c : Ctx} {e : Engine} {k : String} : RB (getWrapKey c e k) := by unfold getWrapKey; rb
macro_rules | `(tactic| rb_lemmas) => `(tactic| exact rb_coreObject)
macro_rules | `(tactic| rb_lemmas) => `(tactic| exact rb_checkFormat)
macro_rules | `(tactic| rb_lemmas) => `(tactic| exact rb_getWrapKey)
theorem rb_wrapGuards {c : Ctx} {e : Engine} {o : Obj} {w : WrapSpec} {cr : Crypto} (hc : cryptoReq cr = true) :
    RB (wrapGuards c e o w cr) := by unfold wrapGuards; rb
macro_rules | `(tactic| rb_lemmas) => `(tactic| (apply rb_wrapGuards; assumption))
theorem rb_opGet {c : Ctx} {e : Engine} {u : Option String} {f : Option Nat} {cp : Bool} {w : Option WrapSpec}
    {cr : Crypto} (hc : cryptoReq cr = true) : RB (opGet c e u f cp w cr) := by unfold opGet; rb
theorem rb_opGetAttributes {c : Ctx} {e : Engine} {u : Option String} {ns : List String} :
    RB (opGetAttributes c e u ns) := by unfold opGetAttributes; rb
theorem rb_opGetAttributeList {c : Ctx} {e : Engine} {u : Option String} : RB (opGetAttributeList c e u) := by
  unfold opGetAttributeList; rb
theorem rb_opActivate {c : Ctx} {e : Engine} {u : Option String} : RB (opActivate c e u) := by unfold opActivate; rb
theorem rb_opRevoke {c : Ctx} {e : Engine} {u : Option String} {k : Option Nat} : RB (opRevoke c e u k) := by
  unfold opRevoke; rb
theorem rb_opDestroy {c : Ctx} {e : Engine} {u : Option String} : RB (opDestroy c e u) := by unfold opDestroy; rb
theorem rb_opQuery {e : Engine} {fs : List Nat} : RB (opQuery e fs) := by unfold opQuery; rb
theorem rb_opDiscoverVersions {c : Ctx} {e : Engine} {vs : List Nat} : RB (opDiscoverVersions c e vs) := by
  unfold opDiscoverVersions; rb
theorem rb_cryptoGuard {c : Ctx} {e : Engine} {u : Option String} {p : Bool} {k b : Nat} :
    RB (cryptoGuard c e u p k b) := by unfold cryptoGuard; rb
macro_rules | `(tactic| rb_lemmas) => `(tactic| exact rb_cryptoGuard)
theorem rb_opEncrypt {c : Ctx} {e : Engine} {u : Option String} {p : Bool} {cr : Crypto} (hc : cryptoReq cr = true) :
    RB (opEncrypt c e u p cr) := by unfold opEncrypt; rb
theorem rb_opDecrypt {c : Ctx} {e : Engine} {u : Option String} {p : Bool} {cr : Crypto} (hc : cryptoReq cr = true) :
    RB (opDecrypt c e u p cr) := by unfold opDecrypt; rb
theorem rb_opSign {c : Ctx} {e : Engine} {u : Option String} {p : Bool} {cr : Crypto} (hc : cryptoReq cr = true) :
    RB (opSign c e u p cr) := by unfold opSign; rb
theorem rb_opSignatureVerify {c : Ctx} {e : Engine} {u : Option String} {p : Bool} {cr : Crypto}
    (hc : cryptoReq cr = true) : RB (opSignatureVerify c e u p cr) := by unfold opSignatureVerify; rb
theorem rb_opMac {c : Ctx} {e : Engine} {u : Option String} {a : Option Nat} {d : Bool} {cr : Crypto}
    (hc : cryptoReq cr = true) : RB (opMac c e u a d cr) := by unfold opMac; rb


end Kmip.Encode
