/-
Reason bounds (continued from `Lemmas/RangeReasons2.lean`): Get, the cryptographic operations, the attribute
operations, and `processOperation_reason`.
-/
import KmipModel.Lemmas.RangeReasons2
namespace Kmip.Encode
open Kmip

/-! ### Get and the rest -/

theorem rb_coreObject {o : Obj} {v : String} {w : Bool} {u : String} : RB (coreObject o v w u) := by
  unfold coreObject; rb
theorem rb_checkFormat {o : Obj} {f : Option Nat} : RB (checkFormat o f) := by unfold checkFormat; rb
theorem rb_getWrapKey {c : Ctx} {e : Engine} {k : String} : RB (getWrapKey c e k) := by unfold getWrapKey; rb
macro_rules | `(tactic| rb_lemmas) => `(tactic| exact rb_coreObject)
macro_rules | `(tactic| rb_lemmas) => `(tactic| exact rb_checkFormat)
macro_rules | `(tactic| rb_lemmas) => `(tactic| exact rb_getWrapKey)
theorem rb_wrapGuards {c : Ctx} {e : Engine} {o : Obj} {w : WrapSpec} {cr : Crypto} (hc : cryptoReq cr = true) :
    RB (wrapGuards c e o w cr) := by unfold wrapGuards; rb
macro_rules | `(tactic| rb_lemmas) => `(tactic| (apply rb_wrapGuards; assumption))
theorem rb_opGet {c : Ctx} {e : Engine} {u : Option String} {f : Option Nat} {cp : Bool} {w : Option WrapSpec}
    {cr : Crypto} (hc : cryptoReq cr = true) : RB (opGet c e u f cp w cr) := by unfold opGet; rb
theorem rb_opGetAttributes {c : Ctx} {e : Engine} {u : Option String} {ns : List String} :
    RB (opGetAttributes c e u ns) := by unfold opGetAttributes; rb
theorem rb_opGetAttributeList {c : Ctx} {e : Engine} {u : Option String} : RB (opGetAttributeList c e u) := by
  unfold opGetAttributeList; rb
theorem rb_opActivate {c : Ctx} {e : Engine} {u : Option String} : RB (opActivate c e u) := by unfold opActivate; rb
theorem rb_opRevoke {c : Ctx} {e : Engine} {u : Option String} {k : Option Nat} : RB (opRevoke c e u k) := by
  unfold opRevoke; rb
theorem rb_opDestroy {c : Ctx} {e : Engine} {u : Option String} : RB (opDestroy c e u) := by unfold opDestroy; rb
theorem rb_opQuery {e : Engine} {fs : List Nat} : RB (opQuery e fs) := by unfold opQuery; rb
theorem rb_opDiscoverVersions {c : Ctx} {e : Engine} {vs : List Nat} : RB (opDiscoverVersions c e vs) := by
  unfold opDiscoverVersions; rb
theorem rb_cryptoGuard {c : Ctx} {e : Engine} {u : Option String} {p : Bool} {k b : Nat} :
    RB (cryptoGuard c e u p k b) := by unfold cryptoGuard; rb
macro_rules | `(tactic| rb_lemmas) => `(tactic| exact rb_cryptoGuard)
theorem rb_opEncrypt {c : Ctx} {e : Engine} {u : Option String} {p : Bool} {cr : Crypto} (hc : cryptoReq cr = true) :
    RB (opEncrypt c e u p cr) := by unfold opEncrypt; rb
theorem rb_opDecrypt {c : Ctx} {e : Engine} {u : Option String} {p : Bool} {cr : Crypto} (hc : cryptoReq cr = true) :
    RB (opDecrypt c e u p cr) := by unfold opDecrypt; rb
theorem rb_opSign {c : Ctx} {e : Engine} {u : Option String} {p : Bool} {cr : Crypto} (hc : cryptoReq cr = true) :
    RB (opSign c e u p cr) := by unfold opSign; rb
theorem rb_opSignatureVerify {c : Ctx} {e : Engine} {u : Option String} {p : Bool} {cr : Crypto}
    (hc : cryptoReq cr = true) : RB (opSignatureVerify c e u p cr) := by unfold opSignatureVerify; rb
theorem rb_opMac {c : Ctx} {e : Engine} {u : Option String} {a : Option Nat} {d : Bool} {cr : Crypto}
    (hc : cryptoReq cr = true) : RB (opMac c e u a d cr) := by unfold opMac; rb

/-! ### attribute operations -/

theorem rb_setByIndex {o : Obj} {n : String} {v : AVal} {i : Nat} : RB (setByIndex o n v i) := by unfold setByIndex; rb
theorem rb_popAt {α : Type} {l : List α} {i : Int} : RB (popAt l i) := by unfold popAt; rb
macro_rules | `(tactic| rb_lemmas) => `(tactic| exact rb_setByIndex)
macro_rules | `(tactic| rb_lemmas) => `(tactic| exact rb_popAt)
theorem rb_delGeneric {α : Type} [BEq α] {l : List α} {v : Option α} {t : Bool} {i : Option Int} :
    RB (delGeneric l v t i) := by unfold delGeneric; rb
macro_rules | `(tactic| rb_lemmas) => `(tactic| exact rb_delGeneric)
theorem rb_delAttr {c : Ctx} {o : Obj} {n : String} {i : Option Int} {v : Option AVal} : RB (delAttr c o n i v) := by
  unfold delAttr; rb
macro_rules | `(tactic| rb_lemmas) => `(tactic| exact rb_delAttr)
theorem rb_opSetAttribute {c : Ctx} {e : Engine} {u : Option String} {a : TAttr} : RB (opSetAttribute c e u a) := by
  unfold opSetAttribute; rb
theorem rb_gotLength {g : Option Got} : RB (gotLength g) := by unfold gotLength; rb
theorem rb_nthAttr {as : List TAttr} {i : Nat} {s : String} : RB (nthAttr as i s) := by unfold nthAttr; rb
theorem rb_checkCurrent {o : Obj} {n : String} {cu : Option TAttr} : RB (checkCurrent o n cu) := by
  unfold checkCurrent; rb
  all_goals (rename_i heq; first | exact RB.of_error rb_getAttr heq | exact RB.of_error rb_attrIndex heq)
theorem rb_currentIndex {o : Obj} {n : String} {cu : Option TAttr} : RB (currentIndex o n cu) := by
  unfold currentIndex; rb
  all_goals (rename_i heq; first | exact RB.of_error rb_getAttr heq | exact RB.of_error rb_attrIndex heq)
macro_rules | `(tactic| rb_lemmas) => `(tactic| exact rb_gotLength)
macro_rules | `(tactic| rb_lemmas) => `(tactic| exact rb_nthAttr)
macro_rules | `(tactic| rb_lemmas) => `(tactic| exact rb_checkCurrent)
macro_rules | `(tactic| rb_lemmas) => `(tactic| exact rb_currentIndex)
theorem rb_modifyCore {c : Ctx} {v : Nat} {o : Obj} {a cu nw : Option TAttr} : RB (modifyCore c v o a cu nw) := by
  unfold modifyCore; rb
macro_rules | `(tactic| rb_lemmas) => `(tactic| exact rb_modifyCore)
theorem rb_opModifyAttribute {c : Ctx} {e : Engine} {u : Option String} {a cu nw : Option TAttr} :
    RB (opModifyAttribute c e u a cu nw) := by unfold opModifyAttribute; rb
theorem rb_deletedAttr {ex : List TAttr} {i : Int} : RB (deletedAttr ex i) := by unfold deletedAttr; rb
macro_rules | `(tactic| rb_lemmas) => `(tactic| exact rb_deletedAttr)
theorem rb_deleteCore {c : Ctx} {v : Nat} {o : Obj} {n : Option String} {i : Option Int} {cu : Option TAttr}
    {r : Option String} : RB (deleteCore c v o n i cu r) := by unfold deleteCore; rb
macro_rules | `(tactic| rb_lemmas) => `(tactic| exact rb_deleteCore)
theorem rb_opDeleteAttribute {c : Ctx} {e : Engine} {u : Option String} {n : Option String} {i : Option Int}
    {cu : Option TAttr} {r : Option String} : RB (opDeleteAttribute c e u n i cu r) := by unfold opDeleteAttribute; rb

/-- **Every KMIP error of an item carries a reason that fits an Enumeration.** -/
theorem processOperation_reason {c : Ctx} {e : Engine} {it : Kmip.Item} (hc : cryptoReq it.crypto = true) :
    RB (processOperation c e it) := by
  unfold processOperation
  split
  · exact RB.kerr _ _ (by decide)
  · split
    · exact RB.kerr _ _ (by decide)
    · split
      · exact rb_opCreate hc
      · exact rb_opCreateKeyPair hc
      · exact rb_opRegister
      · exact rb_opDeriveKey hc
      · exact rb_opLocate
      · exact rb_opGet hc
      · exact rb_opGetAttributes
      · exact rb_opGetAttributeList
      · exact rb_opActivate
      · exact rb_opRevoke
      · exact rb_opDestroy
      · exact rb_opQuery
      · exact rb_opDiscoverVersions
      · exact rb_opEncrypt hc
      · exact rb_opDecrypt hc
      · exact rb_opSign hc
      · exact rb_opSignatureVerify hc
      · exact rb_opMac hc
      · exact rb_opSetAttribute
      · exact rb_opModifyAttribute
      · exact rb_opDeleteAttribute
      · exact RB.kerr _ _ (by decide)

end Kmip.Encode
