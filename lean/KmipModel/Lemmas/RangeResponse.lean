/-
From the engine model's invariants to the hypothesis of `C02Encode.server_response_wellformed`:
`responseInRange` holds for the answer to every request in range, in every engine state whose store values are in
range, as soon as the message is shorter than 2^32 bytes (which also bounds the number of items and of attributes
in it: every item and every attribute takes at least 8 bytes).
-/
import KmipModel.Lemmas.RangeResults
import KmipModel.Lemmas.RangeReasons5
namespace Kmip.Encode
open Kmip Kmip.TTLV Kmip.Decode
open Kmip.EngineResponse (bytesOf verPair)

/-! ### every item takes at least 8 bytes -/

theorem encodeList_ge : ∀ (ks : List TItem), 8 * ks.length ≤ (encodeList ks).length
  | [] => by simp [encodeList]
  | i :: is => by
    have := encode_length_ge i
    have := encodeList_ge is
    simp only [encodeList, List.length_append, List.length_cons]; omega

theorem encode_le_list : ∀ (ks : List TItem) (x : TItem), x ∈ ks → (encode x).length ≤ (encodeList ks).length
  | [], _, h => by cases h
  | i :: is, x, h => by
    simp only [encodeList, List.length_append]
    rcases List.mem_cons.1 h with rfl | h
    · omega
    · have := encode_le_list is x h; omega

theorem struct_ge (t : Nat) (ks : List TItem) : (encodeList ks).length ≤ (encode (.struct t ks)).length := by
  simp only [encode, List.length_append, header_length]; omega

theorem mapO_length {α β} (f : α → Option β) : ∀ (l : List α) (xs : List β), mapO f l = some xs → xs.length = l.length
  | [], xs, h => by simp only [mapO, Option.some.injEq] at h; subst h; rfl
  | a :: as, xs, h => by
    simp only [mapO] at h
    split at h
    · rename_i b bs _ h2
      simp only [Option.some.injEq] at h; subst h
      simp only [List.length_cons, mapO_length f as bs h2]
    · cases h

/-- a GetAttributes payload takes at least 8 bytes per attribute -/
theorem attrs_payload_ge (ver op : Nat) (extra : List TItem) (u : String) (as : List TAttr) (ks : List TItem)
    (h : encData ver op extra (.attrs u as) = some ks) : 8 * as.length ≤ (encodeList ks).length := by
  simp only [encData] at h
  split at h
  · split at h
    · cases hm : mapO encAttr1x as with
      | none => rw [hm] at h; cases h
      | some xs =>
        rw [hm] at h
        simp only [Option.map_some, Option.some.injEq] at h; subst h
        have := encodeList_ge (uidItem u :: xs)
        simp only [List.length_cons, mapO_length _ _ _ hm] at this
        omega
    · split at h
      · cases h
      · cases hm : mapO encAttr20 as with
        | none => rw [hm] at h; cases h
        | some xs =>
          rw [hm] at h
          simp only [Option.map_some, Option.some.injEq] at h; subst h
          have h1 := encodeList_ge xs
          have h2 := struct_ge T.attributes_ xs
          have h3 := encode_le_list [uidItem u, .struct T.attributes_ xs] (.struct T.attributes_ xs)
            (by simp)
          rw [mapO_length _ _ _ hm] at h1
          omega
  · cases h

/-- the payload of a successful item is inside the batch item -/
theorem buildItem_ge (op : Option Nat) (bid : Option Bytes) (ks : List TItem) :
    (encodeList ks).length ≤ (encode (Envelope.buildItem ⟨op, bid, .success (.struct Envelope.tResponsePayload ks)⟩)).length := by
  simp only [Envelope.buildItem]
  refine Nat.le_trans ?_ (struct_ge _ _)
  refine Nat.le_trans (struct_ge Envelope.tResponsePayload ks) (encode_le_list _ _ ?_)
  simp

theorem itemOf_attrs_ge (ver : Nat) (extra : List TItem) (r : ItemResult) (ir : Envelope.ItemResult) (u : String)
    (as : List TAttr) (hr : r.result = .ok (.attrs u as)) (h : itemOf ver extra r = some ir) :
    8 * as.length ≤ (encode (Envelope.buildItem ir)).length := by
  obtain ⟨op, bid, res⟩ := r
  simp only at hr
  subst hr
  simp only [itemOf] at h
  cases he : encData ver op extra (.attrs u as) with
  | none => rw [he] at h; cases h
  | some ks =>
    rw [he] at h
    simp only [Option.map_some, Option.some.injEq] at h; subst h
    have h1 := attrs_payload_ge ver op extra u as ks he
    have h2 := buildItem_ge (some op) (bid.map bytesOf) ks
    simp only [EngineResponse.itemOf, EngineResponse.outcomeOf]
    omega

/-- every result has its batch item in the message -/
theorem itemsOf_mem (ver : Nat) : ∀ (rs : List ItemResult) (extras : List (List TItem))
    (items : List Envelope.ItemResult), itemsOf ver extras rs = some items →
    ∀ r ∈ rs, ∃ extra ir, ir ∈ items ∧ itemOf ver extra r = some ir
  | [], _, _, _, r, hr => by cases hr
  | r0 :: rs, extras, items, h, r, hr => by
    simp only [itemsOf] at h
    split at h
    · rename_i a as h1 h2
      simp only [Option.some.injEq] at h; subst h
      rcases List.mem_cons.1 hr with rfl | hr
      · exact ⟨_, a, List.mem_cons_self, h1⟩
      · obtain ⟨x, ir, hir, hx⟩ := itemsOf_mem ver rs _ as h2 r hr
        exact ⟨x, ir, List.mem_cons_of_mem _ hir, hx⟩
    · cases h

theorem buildResponse_ge (v : Int × Int) (now : Int) (items : List Envelope.ItemResult) :
    8 * items.length ≤ (encode (Envelope.buildResponse v now items)).length ∧
    ∀ ir ∈ items, (encode (Envelope.buildItem ir)).length ≤ (encode (Envelope.buildResponse v now items)).length := by
  simp only [Envelope.buildResponse]
  constructor
  · refine Nat.le_trans ?_ (struct_ge _ _)
    have := encodeList_ge (items.map Envelope.buildItem)
    simp only [encodeList, List.length_append, List.length_map] at this ⊢
    omega
  · intro ir hir
    refine Nat.le_trans (encode_le_list _ _ ?_) (struct_ge _ _)
    exact List.mem_cons_of_mem _ (List.mem_map_of_mem hir)

/-! ### results -/

/-- a result in range up to the size of a GetAttributes answer -/
def ResultAlmost (r : ItemResult) : Prop :=
  u32 r.op = true ∧
  match r.result with
  | .ok d => DataAlmost d
  | .error (.kmip reason _) => u32 reason = true
  | .error (.internal _) => True

theorem payload_op_u32 (p : Payload) (h : payloadReq p = true) : u32 p.op = true := by
  cases p <;> first | exact h | rfl

theorem batchSpec_results (c : Ctx) (hn : i64 (Int.ofNat c.now) = true)
    (hv : ∀ v ∈ c.supportedVersions, v < 21474836480) (stop : Bool) (e : Engine) (items : List Kmip.Item)
    (hit : items.all itemReq = true) (hi : e.store.Inv) (hs : StoreVals e.store) :
    ∀ r ∈ (batchSpec c stop e items).2, ResultAlmost r := by
  induction items generalizing e with
  | nil => intro r hr; simp [batchSpec] at hr
  | cons it rest ih =>
    simp only [List.all_cons, Bool.and_eq_true] at hit
    have hop : u32 it.payload.op = true := by
      have := hit.1; simp only [itemReq, Bool.and_eq_true] at this
      exact payload_op_u32 _ this.1
    have hcr : cryptoReq it.crypto = true := by
      have := hit.1; simp only [itemReq, Bool.and_eq_true] at this; exact this.2
    intro r hr
    simp only [batchSpec] at hr
    cases hp : processOperation c e it with
    | ok res =>
      obtain ⟨eff, d⟩ := res
      rw [hp] at hr
      simp only [List.mem_cons] at hr
      rcases hr with rfl | hr
      · exact ⟨hop, processOperation_almost hs hit.1 hv hp⟩
      · exact ih _ hit.2 (applyEffect_inv e eff hi).1
          (applyEffect_vals hi hs (processOperation_effVals hs hit.1 hn hp)) r hr
    | error err =>
      rw [hp] at hr
      have hthis : ResultAlmost ⟨it.payload.op, it.batchId, .error err⟩ := by
        refine ⟨hop, ?_⟩
        cases err with
        | kmip reason msg =>
          have := processOperation_reason (c := c) (e := e) hcr reason msg hp
          simp only [u32, decide_eq_true_eq]; exact this
        | internal s => trivial
      cases stop with
      | true => simp only [if_true, List.mem_singleton] at hr; subst hr; exact hthis
      | false =>
        simp only [Bool.false_eq_true, if_false, List.mem_cons] at hr
        rcases hr with rfl | hr
        · exact hthis
        · exact ih e hit.2 hi hs r hr

/-- a request the engine rejects as a whole is rejected as an Invalid Message -/
theorem processRequest_rejected (c : Ctx) (e : Engine) (id : Identity) (r : Request) (rsn : Nat) (m : String)
    (h : (processRequest c e id r).2 = .rejected rsn m) : rsn = Rsn.invalidMessage := by
  unfold processRequest at h
  simp only at h
  repeat' split at h
  all_goals first
    | (simp only [ReqResult.rejected.injEq] at h; exact h.1.symm)
    | cases h

/-! ### the answer -/

theorem resultInRange_of_almost (r : ItemResult) (h : ResultAlmost r)
    (hsmall : ∀ d, r.result = .ok d → attrsSmall d = true) : resultInRange r = true := by
  obtain ⟨op, bid, res⟩ := r
  simp only [resultInRange, Bool.and_eq_true]
  refine ⟨h.1, ?_⟩
  cases res with
  | ok d => exact dataInRange_of_almost h.2 (hsmall d rfl)
  | error err =>
    cases err with
    | kmip reason msg => exact h.2
    | internal s => rfl

/-- **The answer to a request in range is in range**: in every engine state whose store values are in range
(the invariant `run_vals`), at a time that fits a Date-Time, with valid oracle subtrees - whenever the message is
shorter than 2^32 bytes. -/
theorem request_response_in_range (c : Ctx) (e : Engine) (id : Identity) (r : Request)
    (extras : List (List TItem)) (i : TItem)
    (hs : StoreVals e.store) (hi : e.store.Inv) (hr : RequestInRange r)
    (hv : ∀ v ∈ c.supportedVersions, v < 21474836480) (hn : i64 (Int.ofNat c.now) = true)
    (hx : extras.all (fun xs => xs.all Item.validB) = true)
    (hitem : responseItem r.version c.now extras (processRequest c e id r).2 = some i)
    (hlen : (encode i).length < 4294967296) :
    responseInRange r.version c.now extras (processRequest c e id r).2 = true := by
  simp only [RequestInRange, requestInRange, Bool.and_eq_true, decide_eq_true_eq] at hr
  have hbytes : responseBytes r.version c.now extras (processRequest c e id r).2 = some (encode i) := by
    simp only [responseBytes, hitem, Option.map_some]
  simp only [responseInRange, hbytes, Bool.and_eq_true, decide_eq_true_eq]
  refine ⟨?_, hlen⟩
  cases hres : (processRequest c e id r).2 with
  | rejected rsn m =>
    have := processRequest_rejected c e id r rsn m hres
    subst this
    simp only [fieldsInRange, Bool.and_eq_true, decide_eq_true_eq]
    exact ⟨⟨hr.1, hn⟩, by decide⟩
  | results rs =>
    rw [hres] at hitem
    simp only [responseItem] at hitem
    cases hio : itemsOf r.version extras rs with
    | none => rw [hio] at hitem; cases hitem
    | some items =>
      rw [hio] at hitem
      simp only [Option.map_some, Option.some.injEq] at hitem
      subst hitem
      have hge := buildResponse_ge (verPair r.version) c.now items
      have hall : ∀ x ∈ rs, ResultAlmost x := by
        rcases processRequest_cases c e id r with ⟨_, rsn, m, hrej⟩ | hb
        · rw [hrej] at hres; cases hres
        · rw [hb] at hres
          simp only [ReqResult.results.injEq] at hres
          subst hres
          exact batchSpec_results c hn hv r.stop ⟨e.store, none, r.version, id⟩ r.items hr.2 hi hs
      simp only [fieldsInRange, Bool.and_eq_true, decide_eq_true_eq]
      refine ⟨⟨⟨⟨hr.1, hn⟩, ?_⟩, ?_⟩, hx⟩
      · have := itemsOf_length r.version rs extras items hio
        omega
      · rw [List.all_eq_true]
        intro x hx'
        refine resultInRange_of_almost x (hall x hx') (fun d hd => ?_)
        cases d with
        | attrs u as =>
          obtain ⟨extra, ir, hir, hio'⟩ := itemsOf_mem r.version rs extras items hio x hx'
          have h1 := itemOf_attrs_ge r.version extra x ir u as hd hio'
          have h2 := hge.2 ir hir
          simp only [attrsSmall, decide_eq_true_eq]
          omega
        | _ => rfl

end Kmip.Encode
