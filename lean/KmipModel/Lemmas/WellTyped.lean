/-
Well-typed requests: the value carried by an attribute has the kind the attribute
classes of kmip.core give that attribute name (the TTLV decoder guarantees this: the
value class is chosen from the name / tag), integers that are lengths or masks are
non-negative, and structure-valued attributes occur only for multivalued names.
Under these hypotheses the attribute machinery of the engine model never ends in an
`internal` outcome.
-/
import KmipModel.Lemmas.NoInternal
import KmipModel.Lemmas.EngineSpec
namespace Kmip

inductive Kind where
  | enum | int | text | bool | name | appInfo | date | other
  deriving DecidableEq, Repr

def AVal.kind : AVal → Kind
  | .enum _ => .enum
  | .int _ => .int
  | .text _ => .text
  | .bool _ => .bool
  | .name _ _ => .name
  | .appInfo _ _ => .appInfo
  | .date _ => .date
  | .other => .other

/-- the attribute names the engine looks into, with the kind of their value -/
def inspected : List (String × Kind) :=
  [("Unique Identifier", .text), ("Name", .name), ("Object Type", .enum), ("Cryptographic Algorithm", .enum),
   ("Cryptographic Length", .int), ("Certificate Type", .enum), ("Operation Policy Name", .text),
   ("Cryptographic Usage Mask", .int), ("State", .enum), ("Initial Date", .date), ("Object Group", .text),
   ("Application Specific Information", .appInfo), ("Sensitive", .bool)]

def AVal.nonneg : AVal → Prop
  | .int n => 0 ≤ n
  | _ => True

/-- the value of attribute `name` is well typed -/
structure ValOk (c : Ctx) (name : String) (v : AVal) : Prop where
  kind : ∀ k, inspected.lookup name = some k → v.kind = k
  /-- a length set on an object is not negative (the model stores lengths as naturals) -/
  nonneg : name = "Cryptographic Length" → v.nonneg
  struct : v = .other → ∀ r, c.rule? name = some r → r.multivalued = true

theorem lookup_lit {k : Kind} {name lit : String} (h : name = lit) (hl : inspected.lookup lit = some k) :
    inspected.lookup name = some k := by rw [h]; exact hl

theorem ValOk.enum_of {c : Ctx} {name : String} {v : AVal} (hv : ValOk c name v)
    (h : inspected.lookup name = some .enum) : ∃ a, v = .enum a := by
  have := hv.kind _ h
  cases v <;> simp only [AVal.kind] at this <;> first | exact ⟨_, rfl⟩ | cases this

theorem ValOk.int_of {c : Ctx} {name : String} {v : AVal} (hv : ValOk c name v)
    (h : inspected.lookup name = some .int) : ∃ n, v = .int n := by
  have hk := hv.kind _ h
  cases v with
  | int n => exact ⟨n, rfl⟩
  | _ => simp only [AVal.kind] at hk; cases hk

theorem ValOk.len_of {c : Ctx} {name : String} {v : AVal} (hv : ValOk c name v)
    (h : name = "Cryptographic Length") : ∃ n, v = .int n ∧ 0 ≤ n := by
  obtain ⟨n, rfl⟩ := hv.int_of (lookup_lit h (by decide))
  exact ⟨n, rfl, hv.nonneg h⟩

theorem ValOk.text_of {c : Ctx} {name : String} {v : AVal} (hv : ValOk c name v)
    (h : inspected.lookup name = some .text) : ∃ a, v = .text a := by
  have := hv.kind _ h
  cases v <;> simp only [AVal.kind] at this <;> first | exact ⟨_, rfl⟩ | cases this

theorem ValOk.bool_of {c : Ctx} {name : String} {v : AVal} (hv : ValOk c name v)
    (h : inspected.lookup name = some .bool) : ∃ a, v = .bool a := by
  have := hv.kind _ h
  cases v <;> simp only [AVal.kind] at this <;> first | exact ⟨_, rfl⟩ | cases this

theorem ValOk.name_of {c : Ctx} {name : String} {v : AVal} (hv : ValOk c name v)
    (h : inspected.lookup name = some .name) : ∃ a t, v = .name a t := by
  have := hv.kind _ h
  cases v <;> simp only [AVal.kind] at this <;> first | exact ⟨_, _, rfl⟩ | cases this

theorem ValOk.appInfo_of {c : Ctx} {name : String} {v : AVal} (hv : ValOk c name v)
    (h : inspected.lookup name = some .appInfo) : ∃ a t, v = .appInfo a t := by
  have := hv.kind _ h
  cases v <;> simp only [AVal.kind] at this <;> first | exact ⟨_, _, rfl⟩ | cases this

theorem ValOk.date_of {c : Ctx} {name : String} {v : AVal} (hv : ValOk c name v)
    (h : inspected.lookup name = some .date) : ∃ a, v = .date a := by
  have := hv.kind _ h
  cases v <;> simp only [AVal.kind] at this <;> first | exact ⟨_, rfl⟩ | cases this

/-! ### setters -/

/-- close goals `NoInternal (nested ifs/matches ending in kerr / pure)`; `omega` refutes the negative-integer branches -/
macro "ni_auto" : tactic =>
  `(tactic| repeat' (first | exact NoInternal.kerr _ _ | exact NoInternal.pure _ | (exfalso; omega) | (exfalso; injections; omega) | split | dsimp only))

theorem setSingle_noInternal {c : Ctx} {o : Obj} {name : String} {v : AVal} (hv : ValOk c name v)
    (hs : ∀ r, c.rule? name = some r → r.multivalued = false) (hk : c.Known name) :
    NoInternal (setSingle o name v) := by
  unfold setSingle
  split
  · rename_i hn
    obtain ⟨a, rfl⟩ := hv.enum_of (lookup_lit (by simpa using hn) (by decide))
    ni_auto
  · split
    · rename_i hn
      obtain ⟨n, rfl, hnn⟩ := hv.len_of (by simpa using hn)
      ni_auto
    · split
      · rename_i hn
        obtain ⟨n, rfl⟩ := hv.int_of (lookup_lit (by simpa using hn) (by decide))
        ni_auto
      · split
        · rename_i hn
          obtain ⟨a, rfl⟩ := hv.text_of (lookup_lit (by simpa using hn) (by decide))
          ni_auto
        · split
          · rename_i hn
            obtain ⟨a, rfl⟩ := hv.bool_of (lookup_lit (by simpa using hn) (by decide))
            ni_auto
          · split
            · exfalso
              obtain ⟨r, hr⟩ := Option.isSome_iff_exists.mp hk
              have h1 := hv.struct rfl r hr
              have h2 := hs r hr
              rw [h1] at h2; cases h2
            · exact NoInternal.kerr _ _

theorem lookup_mem_wt {α β} [BEq α] [LawfulBEq α] (l : List (α × β)) (k : α) (v : β)
    (h : l.lookup k = some v) : (k, v) ∈ l := by
  induction l with
  | nil => simp at h
  | cons p ps ih =>
    obtain ⟨a, b⟩ := p
    simp only [List.lookup] at h
    split at h
    · rename_i heq
      simp only [beq_iff_eq] at heq
      simp only [Option.some.injEq] at h
      subst heq; subst h; exact List.mem_cons_self
    · exact List.mem_cons_of_mem _ (ih h)

theorem setMulti_noInternal {c : Ctx} {o : Obj} {name : String} {vs : List AVal}
    (hv : ∀ v ∈ vs, ValOk c name v) : NoInternal (setMulti o name vs) := by
  unfold setMulti
  split
  · rename_i hn
    split
    · ni_auto
    · rename_i hneg
      exfalso; apply hneg
      rw [List.all_eq_true]; intro v hvm
      obtain ⟨a, t, rfl⟩ := (hv v hvm).name_of (lookup_lit (by simpa using hn) (by decide))
      rfl
  · split
    · rename_i hn
      split
      · exact NoInternal.pure _
      · rename_i hneg
        exfalso; apply hneg
        rw [List.all_eq_true]; intro v hvm
        obtain ⟨a, t, rfl⟩ := (hv v hvm).appInfo_of (lookup_lit (by simpa using hn) (by decide))
        rfl
    · split
      · rename_i hn
        split
        · exact NoInternal.pure _
        · rename_i hneg
          exfalso; apply hneg
          rw [List.all_eq_true]; intro v hvm
          obtain ⟨a, rfl⟩ := (hv v hvm).text_of (lookup_lit (by simpa using hn) (by decide))
          rfl
      · exact NoInternal.kerr _ _

/-- the multivalued flag of the rule table (`False` for unknown names) -/
def Ctx.mv (c : Ctx) (name : String) : Bool :=
  match c.rule? name with | some r => r.multivalued | none => false

theorem isMultivalued_eq (c : Ctx) (name : String) : c.isMultivalued name = .ok (c.mv name) := rfl

/-- the collected value(s) of one attribute name are well typed and have the shape the rule table says -/
def ColOk (c : Ctx) (name : String) : Collected → Prop
  | .single v => c.mv name = false ∧ ValOk c name v
  | .multi vs => c.mv name = true ∧ ∀ v ∈ vs, ValOk c name v

def DictOk (c : Ctx) (d : AttrDict) : Prop := ∀ kv ∈ d, c.Known kv.1 ∧ ColOk c kv.1 kv.2

theorem mv_false_single {c : Ctx} {name : String} (h : c.mv name = false) :
    ∀ r, c.rule? name = some r → r.multivalued = false := by
  intro r hr; simp only [Ctx.mv, hr] at h; exact h

theorem setAttr_noInternal {c : Ctx} {o : Obj} {name : String} {col : Collected}
    (hk : c.Known name) (hc : ColOk c name col) : NoInternal (setAttr c o name col) := by
  unfold setAttr
  rw [isMultivalued_eq]
  simp only [bind, Except.bind]
  cases col with
  | single v =>
    obtain ⟨hm, hv⟩ := hc
    rw [hm]; simp only [Bool.false_eq_true, if_false]
    exact setSingle_noInternal hv (mv_false_single hm) hk
  | multi vs =>
    obtain ⟨hm, hv⟩ := hc
    rw [hm]; simp only [if_true]
    exact setMulti_noInternal hv

/-- invariants and absence of internal errors along a monadic fold -/
theorem foldlM_inv {α β} (f : β → α → R β) (P : β → Prop) (Q : α → Prop)
    (hstep : ∀ b a b', P b → Q a → f b a = .ok b' → P b') :
    ∀ (l : List α) (b b' : β), (∀ a ∈ l, Q a) → P b → l.foldlM f b = .ok b' → P b' := by
  intro l
  induction l with
  | nil => intro b b' _ hp h; simp only [List.foldlM_nil, pure, Except.pure, Except.ok.injEq] at h; subst h; exact hp
  | cons a as ih =>
    intro b b' hq hp h
    simp only [List.foldlM_cons, bind, Except.bind] at h
    cases hfa : f b a with
    | error e => rw [hfa] at h; cases h
    | ok b1 =>
      rw [hfa] at h
      exact ih b1 b' (fun x hx => hq x (List.mem_cons_of_mem _ hx))
        (hstep b a b1 hp (hq a List.mem_cons_self) hfa) h

theorem foldlM_noInternal {α β} (f : β → α → R β) (P : β → Prop) (Q : α → Prop)
    (hstep : ∀ b a b', P b → Q a → f b a = .ok b' → P b')
    (hni : ∀ b a, P b → Q a → NoInternal (f b a)) :
    ∀ (l : List α) (b : β), (∀ a ∈ l, Q a) → P b → NoInternal (l.foldlM f b) := by
  intro l
  induction l with
  | nil => intro b _ _; exact NoInternal.pure _
  | cons a as ih =>
    intro b hq hp
    rw [List.foldlM_cons]
    refine NoInternal.bind (hni b a hp (hq a List.mem_cons_self)) (fun b1 hb1 => ?_)
    exact ih b1 (fun x hx => hq x (List.mem_cons_of_mem _ hx)) (hstep b a b1 hp (hq a List.mem_cons_self) hb1)

theorem setAttrs_noInternal {c : Ctx} {o : Obj} {d : AttrDict} (hd : DictOk c d) :
    NoInternal (setAttrs c o d) := by
  unfold setAttrs
  refine foldlM_noInternal _ (fun _ => True) (fun kv : String × Collected => c.Known kv.1 ∧ ColOk c kv.1 kv.2)
    (fun _ _ _ _ _ _ => trivial) ?_ d o hd trivial
  intro b kv _ hkv
  simp only [Ctx.isApplicable, bind, Except.bind, pure, Except.pure]
  repeat' (first | exact setAttr_noInternal hkv.1 hkv.2 | exact NoInternal.kerr _ _ | split)

/-! ### template processing -/

def TemplateOk (c : Ctx) (t : Template) : Prop := ∀ a ∈ t.attrs, ValOk c a.name a.value

def TemplateOk? (c : Ctx) : Option Template → Prop
  | none => True
  | some t => TemplateOk c t

theorem DictOk.nil (c : Ctx) : DictOk c [] := by intro kv h; cases h

theorem DictOk.set {c : Ctx} {d : AttrDict} {name : String} {col : Collected}
    (hd : DictOk c d) (hk : c.Known name) (hc : ColOk c name col) : DictOk c (d.set name col) := by
  unfold AttrDict.set
  split
  · intro kv hkv
    simp only [List.mem_map] at hkv
    obtain ⟨kv0, hm, rfl⟩ := hkv
    split
    · exact ⟨hk, hc⟩
    · exact hd kv0 hm
  · intro kv hkv
    simp only [List.mem_append, List.mem_singleton] at hkv
    rcases hkv with h | rfl
    · exact hd kv h
    · exact ⟨hk, hc⟩

theorem DictOk.erase {c : Ctx} {d : AttrDict} (hd : DictOk c d) (name : String) : DictOk c (d.erase name) := by
  intro kv hkv
  simp only [AttrDict.erase, List.mem_filter] at hkv
  exact hd kv hkv.1

theorem DictOk.get {c : Ctx} {d : AttrDict} {name : String} {col : Collected}
    (hd : DictOk c d) (h : d.get name = some col) : c.Known name ∧ ColOk c name col :=
  hd (name, col) (lookup_mem_wt d name col h)

theorem processTemplateStep_ok {c : Ctx} {ver : Nat} {d d' : AttrDict} {a : TAttr}
    (hd : DictOk c d) (ha : ValOk c a.name a.value) (h : processTemplateStep c ver d a = .ok d') :
    DictOk c d' := by
  unfold processTemplateStep at h
  simp only [isMultivalued_eq, bind, Except.bind, pure, Except.pure] at h
  by_cases hsup : c.isSupported ver a.name = true
  · have hk : c.Known a.name := isSupported_known hsup
    simp only [hsup, Bool.not_true, Bool.false_eq_true, if_false] at h
    cases hmv : c.mv a.name with
    | true =>
      simp only [hmv, if_true] at h
      have fin : ∀ vs, (∀ v ∈ vs, ValOk c a.name v) →
          DictOk c (d.set a.name (.multi (vs ++ [a.value]))) := by
        intro vs hvs
        refine hd.set hk ⟨hmv, ?_⟩
        intro v hv
        simp only [List.mem_append, List.mem_singleton] at hv
        rcases hv with hv | rfl
        · exact hvs v hv
        · exact ha
      cases hget : d.get a.name with
      | none =>
        simp only [hget] at h
        split at h
        · cases h
        · simp only [Except.ok.injEq] at h; subst h; exact fin [] (fun _ hv => by cases hv)
      | some col =>
        cases col with
        | single v =>
          simp only [hget] at h
          split at h
          · cases h
          · simp only [Except.ok.injEq] at h; subst h; exact fin [] (fun _ hv => by cases hv)
        | multi vs =>
          simp only [hget] at h
          split at h
          · cases h
          · simp only [Except.ok.injEq] at h; subst h; exact fin vs (hd.get hget).2.2
    | false =>
      simp only [hmv, Bool.false_eq_true, if_false] at h
      split at h
      · split at h
        · cases h
        · split at h
          · cases h
          · simp only [Except.ok.injEq] at h; subst h; exact hd.set hk ⟨hmv, ha⟩
      · split at h
        · cases h
        · simp only [Except.ok.injEq] at h; subst h; exact hd.set hk ⟨hmv, ha⟩
  · simp only [hsup, Bool.not_false, if_true] at h
    cases h

theorem processTemplateStep_noInternal (c : Ctx) (ver : Nat) (d : AttrDict) (a : TAttr) :
    NoInternal (processTemplateStep c ver d a) := by
  unfold processTemplateStep
  simp only [isMultivalued_eq, bind, Except.bind, pure, Except.pure]
  repeat' (first | exact NoInternal.kerr _ _ | exact NoInternal.ok _ | split)

theorem processTemplate_ok {c : Ctx} {ver : Nat} {t : Template} {d : AttrDict}
    (ht : TemplateOk c t) (h : processTemplate c ver t = .ok d) : DictOk c d := by
  unfold processTemplate at h
  split at h
  · cases h
  · exact foldlM_inv _ (DictOk c) (fun a : TAttr => ValOk c a.name a.value)
      (fun b a b' hb ha hs => processTemplateStep_ok hb ha hs) t.attrs [] d ht (DictOk.nil c) h

theorem processTemplate_noInternal {c : Ctx} {ver : Nat} {t : Template} :
    NoInternal (processTemplate c ver t) := by
  unfold processTemplate
  split
  · exact NoInternal.kerr _ _
  · exact foldlM_noInternal _ (fun _ => True) (fun _ => True) (fun _ _ _ _ _ _ => trivial)
      (fun b a _ _ => processTemplateStep_noInternal c ver b a) t.attrs [] (fun _ _ => trivial) trivial

theorem processTemplate?_ok {c : Ctx} {ver : Nat} {t : Option Template} {d : AttrDict}
    (ht : TemplateOk? c t) (h : processTemplate? c ver t = .ok d) : DictOk c d := by
  cases t with
  | none => simp only [processTemplate?, pure, Except.pure, Except.ok.injEq] at h; subst h; exact DictOk.nil c
  | some t => exact processTemplate_ok ht h

theorem processTemplate?_noInternal {c : Ctx} {ver : Nat} {t : Option Template} :
    NoInternal (processTemplate? c ver t) := by
  cases t with
  | none => exact NoInternal.pure _
  | some t => exact processTemplate_noInternal

/-! ### what the handlers read from the processed template -/

/-- facts about the rule table the handlers rely on (proved for the generated table by evaluation) -/
structure TableFacts (c : Ctx) : Prop where
  alg_single : c.mv "Cryptographic Algorithm" = false
  len_single : c.mv "Cryptographic Length" = false

theorem single_of_colOk {c : Ctx} {name : String} {col : Collected} (hs : c.mv name = false)
    (hc : ColOk c name col) : ∃ v, col = .single v ∧ ValOk c name v := by
  cases col with
  | single v => exact ⟨v, rfl, hc.2⟩
  | multi vs => have := hc.1; rw [hs] at this; cases this

theorem reqAlg_noInternal {c : Ctx} {d : AttrDict} (msg : String) (hd : DictOk c d)
    (hs : c.mv "Cryptographic Algorithm" = false) : NoInternal (reqAlg d msg) := by
  unfold reqAlg
  cases hget : d.get "Cryptographic Algorithm" with
  | none => exact NoInternal.kerr _ _
  | some col =>
    obtain ⟨v, rfl, hv⟩ := single_of_colOk hs (hd.get hget).2
    obtain ⟨a, rfl⟩ := hv.enum_of (by decide)
    exact NoInternal.pure _

theorem reqLen_noInternal {c : Ctx} {d : AttrDict} (msg : String) (hd : DictOk c d)
    (hs : c.mv "Cryptographic Length" = false) : NoInternal (reqLen d msg) := by
  unfold reqLen
  cases hget : d.get "Cryptographic Length" with
  | none => exact NoInternal.kerr _ _
  | some col =>
    obtain ⟨v, rfl, hv⟩ := single_of_colOk hs (hd.get hget).2
    obtain ⟨n, rfl⟩ := hv.int_of (by decide)
    exact NoInternal.pure _

theorem reqMask_noInternal (d : AttrDict) (msg : String) : NoInternal (reqMask d msg) := by
  unfold reqMask; split
  · exact NoInternal.kerr _ _
  · exact NoInternal.pure _

theorem deriveLen_noInternal {c : Ctx} {d : AttrDict} (hd : DictOk c d)
    (hs : c.mv "Cryptographic Length" = false) : NoInternal (deriveLen d) := by
  unfold deriveLen
  cases hget : d.get "Cryptographic Length" with
  | none => exact NoInternal.kerr _ _
  | some col =>
    obtain ⟨v, rfl, hv⟩ := single_of_colOk hs (hd.get hget).2
    obtain ⟨n, rfl⟩ := hv.int_of (by decide)
    simp only
    ni_auto

theorem deriveAlg_noInternal {c : Ctx} {d : AttrDict} (otype : Nat) (hd : DictOk c d)
    (hs : c.mv "Cryptographic Algorithm" = false) : NoInternal (deriveAlg otype d) := by
  unfold deriveAlg
  split
  · cases hget : d.get "Cryptographic Algorithm" with
    | none => exact NoInternal.kerr _ _
    | some col =>
      obtain ⟨v, rfl, hv⟩ := single_of_colOk hs (hd.get hget).2
      obtain ⟨a, rfl⟩ := hv.enum_of (by decide)
      exact NoInternal.pure _
  · exact NoInternal.pure _

/-! ### stored objects -/

/-- every stored object other than an opaque object carries a usage mask and a state
(the shape `newObj` gives; preserved by every operation, see `Lemmas/StoreWT.lean`) -/
def ObjWT (o : Obj) : Prop := o.otype ≠ OT.opaqueData → o.mask.isSome = true ∧ o.state.isSome = true

def StoreWT (s : Store) : Prop := ∀ o ∈ s.objs, ObjWT o

/-! ### the cryptography backend as an oracle -/

/-- the backend answered with bytes or with a KMIP error (it did not raise anything else) -/
def Crypto.IsBytes : Crypto → Prop
  | .ok _ => True
  | .kmipError _ => True
  | _ => False

def Crypto.IsPair : Crypto → Prop
  | .ok2 .. => True
  | .kmipError _ => True
  | _ => False

theorem cryptoToken_ni {cr : Crypto} (h : cr.IsBytes) : NoInternal (cryptoToken cr) := by
  unfold cryptoToken
  cases cr <;> simp only [Crypto.IsBytes] at h <;> first | exact NoInternal.pure _ | exact NoInternal.kerr _ _

theorem cryptoPair_ni {cr : Crypto} (h : cr.IsPair) : NoInternal (cryptoPair cr) := by
  unfold cryptoPair
  cases cr <;> simp only [Crypto.IsPair] at h <;> first | exact NoInternal.pure _ | exact NoInternal.kerr _ _

/-- `create_symmetric_key(alg, length)` returns `length / 8` bytes -/
def Crypto.FitsCreate (c : Ctx) (ver : Nat) (tmpl : Option Template) (cr : Crypto) : Prop :=
  cr.IsBytes ∧ ∀ token d len msg, cr = .ok token → processTemplate? c ver tmpl = .ok d → reqLen d msg = .ok len →
    hexBytes token * 8 = len

/-! ### Create, CreateKeyPair, Register -/

theorem opCreate_noInternal {c : Ctx} {e : Engine} {otype : Nat} {tmpl : Option Template} {cr : Crypto}
    (hf : TableFacts c) (ht : TemplateOk? c tmpl) (hcr : cr.FitsCreate c e.version tmpl) :
    NoInternal (opCreate c e otype tmpl cr) := by
  unfold opCreate
  split
  · exact NoInternal.kerr _ _
  refine NoInternal.bind processTemplate?_noInternal (fun d hd => ?_)
  have hdo := processTemplate?_ok ht hd
  refine NoInternal.bind (reqAlg_noInternal _ hdo hf.alg_single) (fun alg _ => ?_)
  refine NoInternal.bind (reqLen_noInternal _ hdo hf.len_single) (fun len hlen => ?_)
  refine NoInternal.bind (reqMask_noInternal _ _) (fun _ _ => ?_)
  refine NoInternal.bind (cryptoToken_ni hcr.1) (fun token htok => ?_)
  have hcr' : cr = .ok token := by
    unfold cryptoToken at htok
    cases cr <;> simp [cryptoErr, pure, Except.pure, kerr, ierr] at htok
    subst htok; rfl
  have hfit := hcr.2 token d len _ hcr' hd hlen
  split
  · rename_i hne; exfalso; simp [hfit] at hne
  · exact NoInternal.bind (setAttrs_noInternal hdo) (fun o _ => NoInternal.pure _)

theorem mergeCommon_ok {c : Ctx} {common specific : AttrDict} (hc : DictOk c common) (hs : DictOk c specific) :
    DictOk c (mergeCommon common specific) := by
  unfold mergeCommon
  induction common generalizing specific with
  | nil => exact hs
  | cons kv rest ih =>
    simp only [List.foldl_cons]
    refine ih (fun x hx => hc x (List.mem_cons_of_mem _ hx)) ?_
    split
    · exact hs
    · intro x hx
      simp only [List.mem_append, List.mem_singleton] at hx
      rcases hx with hx | rfl
      · exact hs x hx
      · exact hc _ List.mem_cons_self

theorem requireKeyAttrs_noInternal {c : Ctx} {d : AttrDict} (which : String) (hf : TableFacts c) (hd : DictOk c d) :
    NoInternal (requireKeyAttrs d which) := by
  unfold requireKeyAttrs
  refine NoInternal.bind (reqAlg_noInternal _ hd hf.alg_single) (fun alg _ => ?_)
  refine NoInternal.bind (reqLen_noInternal _ hd hf.len_single) (fun len hlen => ?_)
  exact NoInternal.bind (reqMask_noInternal _ _) (fun _ _ => NoInternal.pure _)

theorem opCreateKeyPair_noInternal {c : Ctx} {e : Engine} {common priv pub : Option Template} {cr : Crypto}
    (hf : TableFacts c) (hc : TemplateOk? c common) (hpr : TemplateOk? c priv) (hpu : TemplateOk? c pub)
    (hcr : cr.IsPair) : NoInternal (opCreateKeyPair c e common priv pub cr) := by
  unfold opCreateKeyPair
  refine NoInternal.bind processTemplate?_noInternal (fun dpub hdpub => ?_)
  refine NoInternal.bind processTemplate?_noInternal (fun dpriv hdpriv => ?_)
  refine NoInternal.bind processTemplate?_noInternal (fun dcom hdcom => ?_)
  have h1 := mergeCommon_ok (processTemplate?_ok hc hdcom) (processTemplate?_ok hpu hdpub)
  have h2 := mergeCommon_ok (processTemplate?_ok hc hdcom) (processTemplate?_ok hpr hdpriv)
  refine NoInternal.bind (requireKeyAttrs_noInternal _ hf h1) (fun pk _ => ?_)
  refine NoInternal.bind (requireKeyAttrs_noInternal _ hf h2) (fun sk _ => ?_)
  split
  · exact NoInternal.kerr _ _
  split
  · exact NoInternal.kerr _ _
  refine NoInternal.bind (cryptoPair_ni hcr) (fun t _ => ?_)
  refine NoInternal.bind (setAttrs_noInternal h1) (fun po _ => ?_)
  exact NoInternal.bind (setAttrs_noInternal h2) (fun so _ => NoInternal.pure _)

theorem convertCheck_noInternal (ro : RegObj) : NoInternal (convertCheck ro) := by
  unfold convertCheck
  ni_auto

theorem opRegister_noInternal {c : Ctx} {e : Engine} {otype : Nat} {tmpl : Option Template} {obj : Option RegObj}
    (ht : TemplateOk? c tmpl) : NoInternal (opRegister c e otype tmpl obj) := by
  unfold opRegister
  split
  · exact NoInternal.kerr _ _
  split
  · exact NoInternal.kerr _ _
  refine NoInternal.bind processTemplate?_noInternal (fun d hd => ?_)
  refine NoInternal.bind (convertCheck_noInternal _) (fun _ _ => ?_)
  exact NoInternal.bind (setAttrs_noInternal (processTemplate?_ok ht hd)) (fun o _ => NoInternal.pure _)

/-! ### DeriveKey -/

theorem deriveBases_noInternal {c : Ctx} {e : Engine} (hs : StoreWT e.store) (uids : List String) :
    NoInternal (deriveBases c e uids) := by
  induction uids with
  | nil => exact NoInternal.pure _
  | cons u us ih =>
    unfold deriveBases
    refine NoInternal.bind (getWithAccess_noInternal _ _ _ _) (fun o ho => ?_)
    have hmem := (getWithAccess_ok ho).2.1
    split
    · exact NoInternal.kerr _ _
    rename_i hder
    have hno : o.otype ≠ OT.opaqueData := by
      intro heq; rw [heq] at hder; simp [derivable, OT.opaqueData, OT.secretData, OT.symmetricKey, OT.publicKey, OT.privateKey] at hder
    have := (hs o hmem hno).1
    split
    · rename_i hm; rw [hm] at this; cases this
    · split
      · exact NoInternal.kerr _ _
      · exact NoInternal.bind ih (fun _ _ => NoInternal.pure _)

/-- the derivation backend answered with bytes or a KMIP error -/
theorem opDeriveKey_noInternal {c : Ctx} {e : Engine} {otype : Nat} {uids : List String} {tmpl : Option Template}
    {cr : Crypto} (hf : TableFacts c) (hs : StoreWT e.store) (ht : TemplateOk? c tmpl) (hu : uids ≠ [])
    (hcr : cr.IsBytes) : NoInternal (opDeriveKey c e otype uids tmpl cr) := by
  unfold opDeriveKey
  refine NoInternal.bind processTemplate?_noInternal (fun d hd => ?_)
  have hdo := processTemplate?_ok ht hd
  split
  · exact NoInternal.kerr _ _
  refine NoInternal.bind (deriveBases_noInternal hs _) (fun bases hb => ?_)
  split
  · rename_i hemp
    exfalso
    cases uids with
    | nil => exact hu rfl
    | cons u us =>
      unfold deriveBases at hb
      simp only [bind, Except.bind] at hb
      repeat (split at hb <;> try (first | cases hb | skip))
      all_goals (first | (simp at hemp; done) | (simp only [pure, Except.pure, Except.ok.injEq] at hb; subst hb; simp at hemp))
  refine NoInternal.bind (deriveLen_noInternal hdo hf.len_single) (fun bytes _ => ?_)
  refine NoInternal.bind (deriveAlg_noInternal _ hdo hf.alg_single) (fun alg _ => ?_)
  refine NoInternal.bind (cryptoToken_ni hcr) (fun token _ => ?_)
  split
  · exact NoInternal.kerr _ _
  refine NoInternal.bind (setAttrs_noInternal ?_) (fun o _ => NoInternal.pure _)
  split
  · exact hdo.erase _
  · exact hdo

end Kmip
