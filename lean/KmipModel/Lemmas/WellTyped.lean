/-
Well-typed requests: the value carried by an attribute has the kind the attribute
classes of kmip.core give that attribute name (the TTLV decoder guarantees this: the
value class is chosen from the name / tag), integers that are lengths or masks are
non-negative, and structure-valued attributes occur only for multivalued names.
Under these hypotheses the attribute machinery of the engine model never ends in an
`internal` outcome.
-/
import KmipModel.Lemmas.NoInternal
namespace Kmip

inductive Kind where
  | enum | int | text | bool | name | appInfo | date | other
  deriving DecidableEq, Repr

def AVal.kind : AVal → Kind
  | .enum _ => .enum
  | .int _ => .int
  | .text _ => .text
  | .bool _ => .bool
  | .name _ _ => .name
  | .appInfo _ _ => .appInfo
  | .date _ => .date
  | .other => .other

/-- the attribute names the engine looks into, with the kind of their value -/
def inspected : List (String × Kind) :=
  [("Unique Identifier", .text), ("Name", .name), ("Object Type", .enum), ("Cryptographic Algorithm", .enum),
   ("Cryptographic Length", .int), ("Certificate Type", .enum), ("Operation Policy Name", .text),
   ("Cryptographic Usage Mask", .int), ("State", .enum), ("Initial Date", .date), ("Object Group", .text),
   ("Application Specific Information", .appInfo), ("Sensitive", .bool)]

def AVal.nonneg : AVal → Prop
  | .int n => 0 ≤ n
  | _ => True

/-- the value of attribute `name` is well typed -/
structure ValOk (c : Ctx) (name : String) (v : AVal) : Prop where
  kind : ∀ k, inspected.lookup name = some k → v.kind = k
  nonneg : v.nonneg
  struct : v = .other → ∀ r, c.rule? name = some r → r.multivalued = true

theorem lookup_lit {k : Kind} {name lit : String} (h : name = lit) (hl : inspected.lookup lit = some k) :
    inspected.lookup name = some k := by rw [h]; exact hl

/-! ### setters -/

theorem setSingle_noInternal {c : Ctx} {o : Obj} {name : String} {v : AVal} (hv : ValOk c name v)
    (hs : ∀ r, c.rule? name = some r → r.multivalued = false) (hk : c.Known name) :
    NoInternal (setSingle o name v) := by
  unfold setSingle
  split
  · rename_i hn
    have hkind := hv.kind .enum (lookup_lit (by simpa using hn) (by decide))
    cases v <;> simp only [AVal.kind] at hkind <;> try cases hkind
    split
    · exact NoInternal.kerr _ _
    · dsimp only; split
      · split <;> first | exact NoInternal.kerr _ _ | exact NoInternal.pure _
      · exact NoInternal.pure _
  · split
    · rename_i hn
      have hkind := hv.kind .int (lookup_lit (by simpa using hn) (by decide))
      have hnn := hv.nonneg
      cases v <;> simp only [AVal.kind] at hkind <;> try cases hkind
      rename_i n
      simp only [AVal.nonneg] at hnn
      have hneg : ¬ (n < 0) := by omega
      split
      · exact NoInternal.kerr _ _
      · dsimp only
        split
        · split
          · split <;> first | exact NoInternal.kerr _ _ | exact NoInternal.pure _
          · simp only [hneg, if_false]; exact NoInternal.pure _
        · simp only [hneg, if_false]; exact NoInternal.pure _
    · split
      · rename_i hn
        have hkind := hv.kind .int (lookup_lit (by simpa using hn) (by decide))
        have hnn := hv.nonneg
        cases v <;> simp only [AVal.kind] at hkind <;> try cases hkind
        rename_i n
        simp only [AVal.nonneg] at hnn
        have hneg : ¬ (n < 0) := by omega
        split
        · exact NoInternal.kerr _ _
        · dsimp only
          simp only [hneg, if_false]
          split
          · split <;> first | exact NoInternal.kerr _ _ | exact NoInternal.pure _
          · exact NoInternal.pure _
      · split
        · rename_i hn
          have hkind := hv.kind .text (lookup_lit (by simpa using hn) (by decide))
          cases v <;> simp only [AVal.kind] at hkind <;> try cases hkind
          dsimp only
          split
          · split <;> first | exact NoInternal.kerr _ _ | exact NoInternal.pure _
          · exact NoInternal.pure _
        · split
          · rename_i hn
            have hkind := hv.kind .bool (lookup_lit (by simpa using hn) (by decide))
            cases v <;> simp only [AVal.kind] at hkind <;> try cases hkind
            dsimp only
            split
            · split <;> first | exact NoInternal.kerr _ _ | exact NoInternal.pure _
            · exact NoInternal.pure _
          · -- any other single-valued attribute: unsupported, unless its value were a structure
            split
            · exfalso
              obtain ⟨r, hr⟩ := Option.isSome_iff_exists.mp hk
              have h1 := hv.struct rfl r hr
              have h2 := hs r hr
              rw [h1] at h2; cases h2
            · exact NoInternal.kerr _ _

end Kmip
