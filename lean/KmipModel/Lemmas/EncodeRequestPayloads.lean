/-
M14's readers evaluated on the trees of M16, bottom up: attribute values, attributes (1.x and 2.0 forms), templates,
key blocks and secrets, key wrapping specifications, then the request payload of every operation
(`payload_roundtrip`).  Helper lemmas for Props/C19Encode.lean.
-/
import KmipModel.Lemmas.EncodeRequest
set_option linter.unusedSimpArgs false
namespace Kmip.EncodeRequest
open Kmip Kmip.TTLV Kmip.Decode

macro "rd_run" : tactic => `(tactic| simp only [rd_eval, kmip_tags, Nat.reduceBEq, ↓reduceIte, *])

@[rd_eval] theorem tagOf_encValue (tag : Nat) (name : String) (spec : VSpec) (v : AVal) :
    tagOf (encValue tag name spec v) = tag := by
  cases spec <;> cases v <;> rfl

@[rd_eval] theorem c_blockCipherMode1 : E.blockCipherMode.contains 1 = true := by decide
@[rd_eval] theorem c_blockCipherMode13 : E.blockCipherMode.contains 13 = true := by decide
@[rd_eval] theorem c_paddingMethod3 : E.paddingMethod.contains 3 = true := by decide
@[rd_eval] theorem c_hashingAlgorithm6 : E.hashingAlgorithm.contains 6 = true := by decide
@[rd_eval] theorem c_cryptographicAlgorithm3 : E.cryptographicAlgorithm.contains 3 = true := by decide
@[rd_eval] theorem c_keyFormatType1 : E.keyFormatType.contains 1 = true := by decide
@[rd_eval] theorem c_keyFormatType2 : E.keyFormatType.contains 2 = true := by decide
@[rd_eval] theorem c_keyCompressionType1 : E.keyCompressionType.contains 1 = true := by decide
@[rd_eval] theorem c_splitKeyMethod1 : E.splitKeyMethod.contains 1 = true := by decide
@[rd_eval] theorem c_derivationMethod2 : E.derivationMethod.contains 2 = true := by decide
@[rd_eval] theorem c_nameType1 : E.nameType.contains 1 = true := by decide

/-- the parameters `{Block Cipher Mode m}` -/
theorem cryptoParams_mode (tag m : Nat) (h : E.blockCipherMode.contains m = true) :
    cryptoParams (.struct tag [enm T.blockCipherMode m]) = .ok none := by
  simp only [cryptoParams, cryptoParamsBody, rd_eval, kmip_tags, Nat.reduceBEq, ↓reduceIte, h]

theorem cryptoParams_alg (tag a : Nat) (h : E.cryptographicAlgorithm.contains a = true) :
    cryptoParams (.struct tag [enm T.cryptographicAlgorithm a]) = .ok (some a) := by
  simp only [cryptoParams, cryptoParamsBody, rd_eval, kmip_tags, Nat.reduceBEq, ↓reduceIte, h]

theorem cryptoParams_some : cryptoParams encSomeParams = .ok (some 3) := by
  simp only [encSomeParams, cryptoParams, cryptoParamsBody, rd_eval, kmip_tags, Nat.reduceBEq, ↓reduceIte]

theorem readValue_encValue (tag : Nat) (name : String) (spec : VSpec) (v : AVal) (h : okValue name spec v = true) :
    readValue name spec (encValue tag name spec v) = .ok (normValue name v) := by
  cases spec <;> cases v <;> first | exact absurd h Bool.false_ne_true | skip
  case text.text s =>
    simp only [okValue] at h
    simp only [readValue, encValue, normValue, rd_eval, h]
  case int.int n => rfl
  case interval.int n =>
    simp only [okValue, Bool.and_eq_true, decide_eq_true_eq, bne_iff_ne, ne_eq] at h
    show (Except.ok (AVal.int ((n.toNat : Nat) : Int)) : D AVal) = _
    simp only [normValue, wireInt, h.2, ↓reduceIte, Int.toNat_of_nonneg h.1.1]
  case bool.bool b => rfl
  case date.date n => rfl
  case enum.enum ms n =>
    simp only [okValue, Bool.and_eq_true] at h
    simp only [readValue, encValue, normValue, rd_eval, h.1]
  case name.name s t =>
    simp only [okValue, Bool.and_eq_true] at h
    simp only [readValue, encValue, normValue, nameBody, rd_eval, kmip_tags, Nat.reduceBEq, ↓reduceIte, h]
  case appInfo.appInfo ns d =>
    simp only [okValue, Bool.and_eq_true] at h
    simp only [readValue, encValue, normValue, appInfoBody, rd_eval, kmip_tags, Nat.reduceBEq, ↓reduceIte, h]
  case cryptoParams.other =>
    simp only [readValue, encValue, normValue, cryptoParams_mode _ _ c_blockCipherMode1, rd_eval]
  case digest.other =>
    simp only [readValue, encValue, normValue, digestBody, rd_eval, kmip_tags, Nat.reduceBEq, ↓reduceIte]

/-! ### attributes -/

theorem attribute1x_enc (a : TAttr) (h : okAttr1x a = true) : attribute1x (encAttr1x a) = .ok (normAttr1x a) := by
  obtain ⟨name, index, value⟩ := a
  simp only [okAttr1x, Bool.and_eq_true] at h
  obtain ⟨⟨hn, hi⟩, hs⟩ := h
  cases hsp : specOf name with
  | none => simp only [hsp] at hs; exact absurd hs Bool.false_ne_true
  | some sp =>
    simp only [hsp] at hs
    have hsn := specOfName_of_specOf name sp hn hsp
    cases index <;>
      simp only [attribute1x, encAttr1x, attributeBody, normAttr1x, rd_eval, kmip_tags, Nat.reduceBEq, ↓reduceIte, hn,
        hsp, hsn, readValue_encValue _ _ _ _ hs]

theorem attrByTag_enc (a : TAttr) (h : okAttr20 a = true) : attrByTag (encAttr20 a) = .ok (normAttr20 a) := by
  obtain ⟨name, index, value⟩ := a
  simp only [okAttr20] at h
  cases ht : tagOfName name with
  | none => simp only [ht] at h; exact absurd h Bool.false_ne_true
  | some t =>
    cases hsp : specOf name with
    | none => simp only [ht, hsp] at h; exact absurd h Bool.false_ne_true
    | some sp =>
      simp only [ht, hsp, Bool.and_eq_true, beq_iff_eq] at h
      obtain ⟨⟨h2, h3⟩, hv⟩ := h
      obtain ⟨h1, h4⟩ := nameOfTag_tagOfName name t ht
      simp only [attrByTag, encAttr20, normAttr20, ht, hsp, rd_eval, h1, h2, h3, h4, Bool.not_true, ↓reduceIte,
        readValue_encValue _ _ _ _ hv]

theorem tagOf_encAttr1x (a : TAttr) : tagOf (encAttr1x a) = T.attribute_ := rfl

/-! ### templates -/

@[rd_eval] theorem tagOf_encTemplate1x (tag : Nat) (t : Template) : tagOf (encTemplate1x tag t) = tag := rfl
@[rd_eval] theorem tagOf_encAttributes20 (tag : Nat) (as : List TAttr) : tagOf (encAttributes20 tag as) = tag := rfl
@[rd_eval] theorem tagOf_encAttr1x' (a : TAttr) : tagOf (encAttr1x a) = T.attribute_ := rfl

theorem name_enc (i : Nat) :
    inStruct "Name" nameBody (encTemplateName i) = .ok (AVal.name (textOf (asciiBytes ("tmpl" ++ toString i))) 1) := by
  simp only [encTemplateName, nameBody, rd_eval, kmip_tags, Nat.reduceBEq, ↓reduceIte, asText_txt']

theorem template1x_enc (tag : Nat) (t : Template) (h : t.attrs.all okAttr1x = true) :
    template1x (encTemplate1x tag t) = .ok ⟨t.templateNames, t.attrs.map normAttr1x⟩ := by
  have hall := List.all_eq_true.mp h
  have h1 := many_map_append T.name_ (inStruct "Name" nameBody) encTemplateName
    (fun i => AVal.name (textOf (asciiBytes ("tmpl" ++ toString i))) 1) (List.range t.templateNames)
    (t.attrs.map encAttr1x) (fun i _ => ⟨rfl, name_enc i⟩)
    (by have := headNe_map T.name_ encAttr1x t.attrs [] (fun _ => rfl) rfl
        simpa only [List.append_nil] using this)
  have h2 := many_map T.attribute_ attribute1x encAttr1x normAttr1x t.attrs
    (fun a ha => ⟨rfl, attribute1x_enc a (hall a ha)⟩)
  simp only [template1x, encTemplate1x, templateBody, rd_eval, h1, h2, List.length_map, List.length_range, ↓reduceIte]

theorem attributes20_enc (what : String) (tag : Nat) (as : List TAttr) (h : as.all okAttr20 = true) :
    attributes20 what (encAttributes20 tag as) = .ok (as.map normAttr20) := by
  have hall := List.all_eq_true.mp h
  simp only [attributes20, encAttributes20]
  exact mapD_map attrByTag encAttr20 normAttr20 as (fun a ha => attrByTag_enc a (hall a ha))

theorem tagOf_encTemplate (v t1 t2 : Nat) (t : Template) : tagOf (encTemplate v t1 t2 t) = if v < 20 then t1 else t2 := by
  unfold encTemplate; split <;> rfl

theorem reqTemplate_enc (v : Nat) (t : Template) (rest : List TItem) (h : okTemplate v t = true) :
    reqTemplate v (encTemplate v T.templateAttribute T.attributes_ t :: rest) = .ok (normTemplate v t, rest) := by
  unfold okTemplate at h
  by_cases hv : v < 20
  · simp only [hv, ↓reduceIte] at h
    simp only [reqTemplate, encTemplate, normTemplate, hv, ↓reduceIte, rd_eval, kmip_tags, template1x_enc _ t h]
  · simp only [hv, ↓reduceIte] at h
    simp only [reqTemplate, encTemplate, normTemplate, template20, hv, ↓reduceIte, rd_eval, kmip_tags,
      attributes20_enc _ _ _ h]

/-! ### key blocks, secrets -/

theorem hexOf_unhex (s : String) (h : okHex s = true) : hexOf (unhex s) = s := by
  unfold okHex at h
  unfold unhex
  cases hu : unhexL s.toList with
  | none => rw [hu] at h; exact absurd h Bool.false_ne_true
  | some b => rw [hu] at h; simpa only [Option.getD_some, beq_iff_eq] using h

@[rd_eval] theorem tagOf_prim (t : Nat) (v : PVal) : tagOf (.prim t v) = t := rfl

theorem keyValueBody_enc (b : Bytes) : keyValueBody [byt T.keyMaterial b] = .ok (b, []) := by
  simp only [keyValueBody, byt, rd_eval, many_nil, ↓reduceIte, asBytes]

@[rd_eval] theorem tagOf_encKeyBlock (f : Nat) (b : Bytes) (a l : Option Nat) : tagOf (encKeyBlock f b a l) = T.keyBlock := rfl

theorem keyBlock_enc (fmt : Nat) (b : Bytes) (alg len : Option Nat) (hf : E.keyFormatType.contains fmt = true)
    (ha : okOpt E.cryptographicAlgorithm.contains alg = true) :
    keyBlock (encKeyBlock fmt b alg len) = .ok ⟨fmt, b, alg, len.map Int.ofNat⟩ := by
  have hk : keyValueBody [byt 4325443 b] = .ok (b, []) := keyValueBody_enc b
  cases alg <;> cases len <;> simp only [okOpt] at ha <;>
    simp only [keyBlock, encKeyBlock, rd_eval, kmip_tags, Nat.reduceBEq, ↓reduceIte, hf, ha, hk]

theorem secret_enc (o : RegObj) (h : okSecret o = true) :
    ∃ tag rd, secretReader o.otype = some (tag, rd) ∧ tagOf (encSecret o) = tag ∧ rd (encSecret o) = .ok (normObj o) := by
  obtain ⟨otype, value, alg, len, format, subtype⟩ := o
  simp only [okSecret, Bool.and_eq_true] at h
  obtain ⟨hx, h⟩ := h
  have hhex := hexOf_unhex value hx
  by_cases h1 : otype = 1
  · subst h1
    simp only [↓reduceIte] at h
    cases subtype with
    | none => exact absurd h Bool.false_ne_true
    | some st =>
      simp only at h
      refine ⟨_, _, by simp only [secretReader, ↓reduceIte]; rfl, rfl, ?_⟩
      simp only [encSecret, normObj, rd_eval, kmip_tags, Nat.reduceBEq, ↓reduceIte, h, hhex, true_or]
  · by_cases h2 : otype = 2 ∨ otype = 3 ∨ otype = 4
    · simp only [h1, h2, ↓reduceIte, Bool.and_eq_true] at h
      obtain ⟨⟨hf, ha⟩, hl⟩ := h
      cases format with
      | none => exact absurd hf Bool.false_ne_true
      | some f =>
        simp only at hf
        refine ⟨_, _, by simp only [secretReader, h1, h2, ↓reduceIte]; rfl, ?_, ?_⟩
        · simp only [encSecret, h1, h2, ↓reduceIte, rd_eval]
        · have hne : ¬ (otype = 1 ∨ otype = 8) := by omega
          have hne7 : ¬ otype = 7 := by omega
          have hne8 : ¬ otype = 8 := by omega
          cases len <;>
            simp only [encSecret, normObj, h1, h2, hne, hne7, hne8, false_or, ↓reduceIte, rd_eval, kmip_tags, Nat.reduceBEq,
              keyBlock_enc _ _ _ _ hf ha, regOfKB, hhex, Option.map_some, Option.map_none]
    · have h2' : ¬ otype = 2 ∧ ¬ otype = 3 ∧ ¬ otype = 4 := by omega
      by_cases h5 : otype = 5
      · subst h5
        simp only [h2, ↓reduceIte, Nat.reduceEqDiff, or_self] at h
        cases format <;> cases alg <;> cases len <;>
          simp only [Bool.and_eq_true, Bool.false_eq_true] at h
        rename_i f a l
        obtain ⟨⟨hf, ha⟩, hl⟩ := h
        refine ⟨_, _, by simp only [secretReader, ↓reduceIte, Nat.reduceEqDiff, false_or]; rfl, rfl, ?_⟩
        simp only [encSecret, normObj, ↓reduceIte, Nat.reduceEqDiff, false_or, or_self, rd_eval, kmip_tags, Nat.reduceBEq,
          keyBlock_enc _ _ _ _ hf (show okOpt E.cryptographicAlgorithm.contains (some a) = true from ha), regOfKB, hhex,
          Option.map_some, c_splitKeyMethod1, false_and, Option.isNone_none]
      · by_cases h7 : otype = 7
        · subst h7
          simp only [h2, ↓reduceIte, Nat.reduceEqDiff, or_self] at h
          cases subtype with
          | none => exact absurd h Bool.false_ne_true
          | some st =>
            simp only at h
            refine ⟨_, _, by simp only [secretReader, ↓reduceIte, Nat.reduceEqDiff, false_or]; rfl, rfl, ?_⟩
            simp only [encSecret, normObj, ↓reduceIte, Nat.reduceEqDiff, false_or, rd_eval, kmip_tags, Nat.reduceBEq,
              keyBlock_enc _ _ none none c_keyFormatType2 rfl, regOfKB, hhex, Option.map_none, h]
        · by_cases h8 : otype = 8
          · subst h8
            simp only [h2, ↓reduceIte, Nat.reduceEqDiff, or_self] at h
            cases subtype with
            | none => exact absurd h Bool.false_ne_true
            | some st =>
              simp only at h
              refine ⟨_, _, by simp only [secretReader, ↓reduceIte, Nat.reduceEqDiff, false_or]; rfl, rfl, ?_⟩
              simp only [encSecret, normObj, ↓reduceIte, Nat.reduceEqDiff, false_or, or_true, rd_eval, kmip_tags,
                Nat.reduceBEq, hhex, h]
          · simp only [h1, h2, h5, h7, h8, ↓reduceIte] at h
            exact absurd h Bool.false_ne_true

/-! ### key wrapping specification -/

theorem many_replicate_append {β} (t : Nat) (g : TItem → D β) (x : TItem) (b : β) (n : Nat) (rest : List TItem)
    (hx : tagOf x = t) (hg : g x = .ok b) (hr : headNe t rest = true) :
    many t g (List.replicate n x ++ rest) = .ok (List.replicate n b, rest) := by
  induction n with
  | zero => exact many_stop t g rest hr
  | succ n ih =>
    simp only [List.replicate_succ, List.cons_append]
    rw [many]
    simp only [hx, beq_self_eq_true, ↓reduceIte, hg, ih]

theorem many_replicate {β} (t : Nat) (g : TItem → D β) (x : TItem) (b : β) (n : Nat)
    (hx : tagOf x = t) (hg : g x = .ok b) : many t g (List.replicate n x) = .ok (List.replicate n b, []) := by
  have := many_replicate_append t g x b n [] hx hg rfl
  simpa only [List.append_nil] using this

theorem headNe_replicate_append (t : Nat) (x : TItem) (n : Nat) (r : List TItem) (hx : (tagOf x != t) = true)
    (hr : headNe t r = true) : headNe t (List.replicate n x ++ r) = true := by
  cases n with
  | zero => exact hr
  | succ n => exact hx

theorem opt_replicate_append {α} (t : Nat) (f : TItem → D α) (x : TItem) (n : Nat) (r : List TItem)
    (hx : (tagOf x != t) = true) (hr : headNe t r = true) :
    opt t f (List.replicate n x ++ r) = .ok (none, List.replicate n x ++ r) :=
  opt_miss t f _ (headNe_replicate_append t x n r hx hr)

theorem opt_replicate {α} (t : Nat) (f : TItem → D α) (x : TItem) (n : Nat) (hx : (tagOf x != t) = true) :
    opt t f (List.replicate n x) = .ok (none, List.replicate n x) := by
  have := opt_replicate_append t f x n [] hx rfl
  simpa only [List.append_nil] using this

@[rd_eval] theorem tagOf_encWrap (w : WrapSpec) : tagOf (encWrap w) = T.keyWrappingSpecification := rfl

theorem keyWrappingSpec_enc (w : WrapSpec) (h : okWrap w = true) : keyWrappingSpec (encWrap w) = .ok (normWrap w) := by
  obtain ⟨m, eu, ep, mk, n, eo⟩ := w
  simp only [okWrap, Bool.and_eq_true] at h
  obtain ⟨⟨hm, hu⟩, ho⟩ := h
  have hcp : cryptoParams (.struct T.cryptographicParameters [enm T.blockCipherMode 13]) = .ok none :=
    cryptoParams_mode _ _ c_blockCipherMode13
  have hname : asText "attribute name" (txt T.attributeName "Name") = .ok "Name" := asText_txt _ _ _ (by decide)
  have hn0 := many_replicate T.attributeName (asText "attribute name") (txt T.attributeName "Name") "Name" n rfl hname
  have hn1 : ∀ e, _ := fun e => many_replicate_append T.attributeName (asText "attribute name")
    (txt T.attributeName "Name") "Name" n [enm T.encodingOption e] rfl hname rfl
  have ho1 : ∀ f : TItem → D (String × Bool), _ :=
    fun f => opt_replicate T.encryptionKeyInformation f (txt T.attributeName "Name") n rfl
  have ho2 : ∀ f : TItem → D (String × Bool), _ :=
    fun f => opt_replicate T.macSignatureKeyInformation f (txt T.attributeName "Name") n rfl
  have ho3 : ∀ (f : TItem → D (String × Bool)) e, _ := fun f e =>
    opt_replicate_append T.encryptionKeyInformation f (txt T.attributeName "Name") n [enm T.encodingOption e] rfl rfl
  have ho4 : ∀ (f : TItem → D (String × Bool)) e, _ := fun f e =>
    opt_replicate_append T.macSignatureKeyInformation f (txt T.attributeName "Name") n [enm T.encodingOption e] rfl rfl
  simp only [kmip_tags] at hcp hname hn0 hn1 ho1 ho2 ho3 ho4
  have h1 : okText "1" = true := by decide
  cases eu <;> cases ep <;> cases mk <;> cases eo <;> simp only [okOpt] at hu ho <;>
    simp only [keyWrappingSpec, encWrap, normWrap, keyInfo, keyInfoBody, rd_eval, kmip_tags, Nat.reduceBEq, ↓reduceIte,
      hm, hu, ho, hcp, hn0, hn1, ho1, ho2, ho3, ho4, h1, List.length_replicate, Bool.and_true, Bool.and_false,
      Bool.false_and, Bool.true_and]

/-! ### request payloads: the simple ones -/

theorem activate_rt (u : Option String) (h : okOpt okText u = true) :
    activateBody (uidL u) = .ok (.activate u, []) := by
  cases u <;> simp only [okOpt] at h <;> simp only [activateBody, rd_eval, h, ↓reduceIte]

theorem destroy_rt (u : Option String) (h : okOpt okText u = true) :
    destroyBody (uidL u) = .ok (.destroy u, []) := by
  cases u <;> simp only [okOpt] at h <;> simp only [destroyBody, rd_eval, h, ↓reduceIte]

theorem getAttributeList_rt (u : Option String) (h : okOpt okText u = true) :
    getAttributeListBody (uidL u) = .ok (.getAttributeList u, []) := by
  cases u <;> simp only [okOpt] at h <;> simp only [getAttributeListBody, rd_eval, h, ↓reduceIte]

theorem revoke_rt (u : Option String) (c : Nat) (h : okOpt okText u = true) (hc : E.revocationReasonCode.contains c = true) :
    revokeBody (uidL u ++ [.struct T.revocationReason [enm T.revocationReasonCode c]]) = .ok (.revoke u (some c), []) := by
  cases u <;> simp only [okOpt] at h <;>
    simp only [revokeBody, revocationReason, rd_eval, kmip_tags, h, hc, Nat.reduceBEq, ↓reduceIte]

theorem get_rt (u : Option String) (f : Option Nat) (c : Bool) (w : Option WrapSpec) (hu : okOpt okText u = true)
    (hf : okOpt E.keyFormatType.contains f = true) (hw : okOpt okWrap w = true) :
    getBody (uidL u ++ optL f (enm T.keyFormatType) ++ ifL c (enm T.keyCompressionType 1) ++ optL w encWrap) =
      .ok (.get u f c (w.map normWrap), []) := by
  cases u <;> cases f <;> cases c <;> cases w <;> simp only [okOpt] at hu hf hw <;>
    simp only [getBody, rd_eval, kmip_tags, hu, hf, Nat.reduceBEq, ↓reduceIte, keyWrappingSpec_enc, hw]

theorem query_rt (fs : List Nat) (h0 : fs.isEmpty = false) (h : fs.all E.queryFunction.contains = true) :
    queryBody (fs.map (enm T.queryFunction)) = .ok (.query fs, []) := by
  have hall := List.all_eq_true.mp h
  have hm := many_map T.queryFunction (asEnum "query function" E.queryFunction) (enm T.queryFunction) id fs
    (fun a ha => ⟨rfl, asEnum_enm _ _ _ _ (hall a ha)⟩)
  simp only [queryBody, rd_eval, hm, List.map_id, h0, ↓reduceIte]

theorem version_enc (v : Nat) : protocolVersion (encVersion v) = .ok (Int.ofNat (v / 10), Int.ofNat (v % 10)) := by
  simp only [protocolVersion, protocolVersionBody, encVersion, rd_eval, kmip_tags, Nat.reduceBEq, ↓reduceIte]

@[rd_eval] theorem tagOf_encVersion (v : Nat) : tagOf (encVersion v) = T.protocolVersion := rfl

theorem versionNumber_enc (v : Nat) : versionNumber (Int.ofNat (v / 10), Int.ofNat (v % 10)) = .ok v := by
  have h1 : ¬ ((((v / 10 : Nat) : Int)) < 0 ∨ (((v % 10 : Nat) : Int)) < 0) := by omega
  simp only [versionNumber, Int.ofNat_eq_natCast, h1, ↓reduceIte, Int.toNat_natCast]
  congr 1; omega

theorem discoverVersions_rt (vs : List Nat) :
    discoverVersionsBody (vs.map encVersion) = .ok (.discoverVersions vs, []) := by
  have hm := many_map T.protocolVersion protocolVersion encVersion
    (fun v => ((Int.ofNat (v / 10) : Int), (Int.ofNat (v % 10) : Int))) vs (fun a _ => ⟨rfl, version_enc a⟩)
  have hd := mapD_map versionNumber (fun v : Nat => ((Int.ofNat (v / 10) : Int), (Int.ofNat (v % 10) : Int))) id vs
    (fun a _ => versionNumber_enc a)
  simp only [discoverVersionsBody, rd_eval, hm, hd, List.map_id]

/-! ### request payloads: GetAttributes and the cryptographic operations -/

theorem getAttributes_rt1 (v : Nat) (hv : v < 20) (u : Option String) (ns : List String) (hu : okOpt okText u = true)
    (hn : ns.eraseDups.all okText = true) :
    getAttributesBody v (uidL u ++ ns.eraseDups.map (txt T.attributeName)) = .ok (.getAttributes u ns.eraseDups, []) := by
  have hall := List.all_eq_true.mp hn
  have hm := many_map T.attributeName (asText "attribute name") (txt T.attributeName) id ns.eraseDups
    (fun a ha => ⟨rfl, asText_txt _ _ _ (hall a ha)⟩)
  have hmiss := opt_miss T.uniqueIdentifier (asText "unique identifier") (ns.eraseDups.map (txt T.attributeName))
    (by have := headNe_map T.uniqueIdentifier (txt T.attributeName) ns.eraseDups [] (fun _ => rfl) rfl
        simpa only [List.append_nil] using this)
  cases u with
  | none => simp only [getAttributesBody, rd_eval, hv, ↓reduceIte, hmiss, hm, List.map_id]
  | some s =>
    simp only [okOpt] at hu
    simp only [getAttributesBody, rd_eval, hv, ↓reduceIte, hu, hm, List.map_id]

theorem attributeReference_enc (n : String) (t : Nat) (ht : tagOfName n = some t) :
    attributeReferenceName (enm T.attributeReference ((tagOfName n).getD 0)) = .ok n := by
  obtain ⟨h1, h2⟩ := nameOfTag_tagOfName n t ht
  simp only [ht, Option.getD_some, enm, attributeReferenceName, asEnum, h1, ↓reduceIte, Except.bind, h2]

theorem getAttributes_rt2 (v : Nat) (hv : ¬ v < 20) (u : Option String) (ns : List String) (hu : okOpt okText u = true)
    (hn : ns.eraseDups.all (fun n => (tagOfName n).isSome) = true) :
    getAttributesBody v (uidL u ++ ns.eraseDups.map (fun n => enm T.attributeReference ((tagOfName n).getD 0))) =
      .ok (.getAttributes u ns.eraseDups, []) := by
  have hall := List.all_eq_true.mp hn
  have hm := many_map T.attributeReference attributeReferenceName
    (fun n => enm T.attributeReference ((tagOfName n).getD 0)) id ns.eraseDups
    (fun a ha => by
      have := hall a ha
      cases ht : tagOfName a with
      | none => simp only [ht, Option.isSome_none] at this; exact absurd this Bool.false_ne_true
      | some t => exact ⟨rfl, by rw [← ht]; exact attributeReference_enc a t ht⟩)
  have hmiss := opt_miss T.uniqueIdentifier (asText "unique identifier")
    (ns.eraseDups.map (fun n => enm T.attributeReference ((tagOfName n).getD 0)))
    (by have := headNe_map T.uniqueIdentifier (fun n => enm T.attributeReference ((tagOfName n).getD 0)) ns.eraseDups []
          (fun _ => rfl) rfl
        simpa only [List.append_nil] using this)
  cases u with
  | none => simp only [getAttributesBody, rd_eval, hv, ↓reduceIte, hmiss, hm, List.map_id]
  | some s =>
    simp only [okOpt] at hu
    simp only [getAttributesBody, rd_eval, hv, ↓reduceIte, hu, hm, List.map_id]

@[rd_eval] theorem tagOf_encSomeParams : tagOf encSomeParams = T.cryptographicParameters := rfl

theorem encrypt_rt (v : Nat) (u : Option String) (p : Bool) (hu : okOpt okText u = true) :
    encryptBody v (uidL u ++ ifL p encSomeParams ++ [byt T.data_ zeros16, byt T.ivCounterNonce zeros16]) =
      .ok (.encrypt u p, []) := by
  by_cases hv : v ≥ 14 <;> cases u <;> cases p <;> simp only [okOpt] at hu <;>
    simp only [encryptBody, rd_eval, kmip_tags, hv, hu, Nat.reduceBEq, ↓reduceIte, cryptoParams_some]

theorem decrypt_rt (v : Nat) (u : Option String) (p : Bool) (hu : okOpt okText u = true) :
    decryptBody v (uidL u ++ ifL p encSomeParams ++ [byt T.data_ zeros16, byt T.ivCounterNonce zeros16]) =
      .ok (.decrypt u p, []) := by
  by_cases hv : v ≥ 14 <;> cases u <;> cases p <;> simp only [okOpt] at hu <;>
    simp only [decryptBody, rd_eval, kmip_tags, hv, hu, Nat.reduceBEq, ↓reduceIte, cryptoParams_some]

theorem sign_rt (u : Option String) (p : Bool) (hu : okOpt okText u = true) :
    signBody (uidL u ++ ifL p encSomeParams ++ [byt T.data_ abc]) = .ok (.sign u p, []) := by
  cases u <;> cases p <;> simp only [okOpt] at hu <;>
    simp only [signBody, rd_eval, kmip_tags, hu, Nat.reduceBEq, ↓reduceIte, cryptoParams_some]

theorem signatureVerify_rt (u : Option String) (p : Bool) (hu : okOpt okText u = true) :
    signatureVerifyBody (uidL u ++ ifL p encSomeParams ++ [byt T.data_ abc, byt T.signatureData sig]) =
      .ok (.signatureVerify u p, []) := by
  cases u <;> cases p <;> simp only [okOpt] at hu <;>
    simp only [signatureVerifyBody, rd_eval, kmip_tags, hu, Nat.reduceBEq, ↓reduceIte, cryptoParams_some]

theorem mac_rt (u : Option String) (alg : Option Nat) (hu : okOpt okText u = true)
    (ha : okOpt E.cryptographicAlgorithm.contains alg = true) :
    macBody (uidL u ++ optL alg (fun a => .struct T.cryptographicParameters [enm T.cryptographicAlgorithm a]) ++
      ifL true (byt T.data_ abc)) = .ok (.mac u alg true, []) := by
  have hcp : ∀ a, E.cryptographicAlgorithm.contains a = true →
      cryptoParams (.struct T.cryptographicParameters [enm T.cryptographicAlgorithm a]) = .ok (some a) :=
    fun a h => cryptoParams_alg _ a h
  simp only [kmip_tags] at hcp
  cases u <;> cases alg <;> simp only [okOpt] at hu ha <;>
    simp only [macBody, rd_eval, kmip_tags, hu, Nat.reduceBEq, ↓reduceIte, hcp, ha, id]

/-! ### request payloads: Locate and the attribute operations -/

theorem headNe_attrs (t : Nat) (as : List TAttr) (ht : (T.attribute_ != t) = true) :
    headNe t (as.map encAttr1x) = true := by
  have := headNe_map t encAttr1x as [] (fun _ => ht) rfl
  simpa only [List.append_nil] using this

theorem locate_rt1 (v : Nat) (hv : v < 20) (mx off : Option Int) (as : List TAttr) (hm : okOpt okInt mx = true)
    (ho : okOpt okInt off = true) (ha : as.all okAttr1x = true) :
    locateBody v (optL mx (int T.maximumItems) ++ optL off (int T.offsetItems) ++ as.map encAttr1x) =
      .ok (.locate mx off (as.map normAttr1x), []) := by
  have hall := List.all_eq_true.mp ha
  have hmany := many_map T.attribute_ attribute1x encAttr1x normAttr1x as (fun a h => ⟨rfl, attribute1x_enc a (hall a h)⟩)
  have m1 := opt_miss T.maximumItems (asInt "maximum items") _ (headNe_attrs T.maximumItems as rfl)
  have m2 := opt_miss T.offsetItems (asInt "offset items") _ (headNe_attrs T.offsetItems as rfl)
  have m3 := opt_miss T.storageStatusMask (asInt "storage status mask") _ (headNe_attrs T.storageStatusMask as rfl)
  have m4 := opt_miss T.objectGroupMember (asEnum "object group member" E.objectGroupMember) _
    (headNe_attrs T.objectGroupMember as rfl)
  simp only [kmip_tags] at hmany m1 m2 m3 m4
  cases mx <;> cases off <;>
    simp only [locateBody, rd_eval, kmip_tags, hv, Nat.reduceBEq, ↓reduceIte, hmany, m1, m2, m3, m4]

theorem locate_rt2 (v : Nat) (hv : ¬ v < 20) (mx off : Option Int) (as : List TAttr) (hm : okOpt okInt mx = true)
    (ho : okOpt okInt off = true) (ha : as.all okAttr20 = true) :
    locateBody v (optL mx (int T.maximumItems) ++ optL off (int T.offsetItems) ++
        (if as.isEmpty then [] else [encAttributes20 T.attributes_ as])) =
      .ok (.locate mx off (as.map normAttr20), []) := by
  have h20 := attributes20_enc "Attributes" T.attributes_ as ha
  simp only [kmip_tags] at h20
  cases as with
  | nil =>
    cases mx <;> cases off <;>
      simp only [locateBody, rd_eval, kmip_tags, hv, Nat.reduceBEq, ↓reduceIte, List.map_nil]
  | cons a as =>
    cases mx <;> cases off <;>
      simp only [locateBody, rd_eval, kmip_tags, hv, Nat.reduceBEq, ↓reduceIte, h20, Bool.false_eq_true]

@[rd_eval] theorem tagOf_encHolder (tag : Nat) (a : TAttr) : tagOf (encHolder tag a) = tag := rfl

theorem attrHolder_enc (what : String) (tag : Nat) (a : TAttr) (h : okAttr20 a = true) :
    attrHolder what (encHolder tag a) = .ok (normAttr20 a) := by
  simp only [attrHolder, encHolder, attrHolderBody, rd_eval, attrByTag_enc a h]

theorem setAttribute_rt (v : Nat) (hv : 20 ≤ v) (u : Option String) (a : TAttr) (hu : okOpt okText u = true)
    (ha : okAttr20 a = true) :
    setAttributeBody v (uidL u ++ [encHolder T.newAttribute a]) = .ok (.setAttribute u (normAttr20 a), []) := by
  have hv' : ¬ v < 20 := by omega
  cases u <;> simp only [okOpt] at hu <;>
    simp only [setAttributeBody, rd_eval, kmip_tags, hv', hu, Nat.reduceBEq, ↓reduceIte, attrHolder_enc _ _ a ha]

theorem modifyAttribute_rt1 (v : Nat) (hv : v < 20) (u : Option String) (a : TAttr) (hu : okOpt okText u = true)
    (ha : okAttr1x a = true) :
    modifyAttributeBody v (uidL u ++ optL (some a) encAttr1x) = .ok (.modifyAttribute u (some (normAttr1x a)) none none, []) := by
  have h1 := attribute1x_enc a ha
  cases u <;> simp only [okOpt] at hu <;>
    simp only [modifyAttributeBody, rd_eval, kmip_tags, hv, hu, Nat.reduceBEq, ↓reduceIte, h1]

theorem modifyAttribute_rt2 (v : Nat) (hv : ¬ v < 20) (u : Option String) (cu : Option TAttr) (nw : TAttr)
    (hu : okOpt okText u = true) (hc : okOpt okAttr20 cu = true) (hn : okAttr20 nw = true) :
    modifyAttributeBody v (uidL u ++ (optL cu (encHolder T.currentAttribute) ++ optL (some nw) (encHolder T.newAttribute))) =
      .ok (.modifyAttribute u none (cu.map normAttr20) (some (normAttr20 nw)), []) := by
  cases u <;> cases cu <;> simp only [okOpt] at hu hc <;>
    simp only [modifyAttributeBody, rd_eval, kmip_tags, hv, hu, Nat.reduceBEq, ↓reduceIte, attrHolder_enc, hc, hn]

theorem deleteAttribute_rt1 (v : Nat) (hv : v < 20) (u : Option String) (n : String) (i : Option Int)
    (hu : okOpt okText u = true) (hn : okText n = true) :
    deleteAttributeBody v (uidL u ++ (optL (some n) (txt T.attributeName) ++ optL i (int T.attributeIndex))) =
      .ok (.deleteAttribute u (some n) i none none, []) := by
  cases u <;> cases i <;> simp only [okOpt] at hu <;>
    simp only [deleteAttributeBody, rd_eval, kmip_tags, hv, hu, hn, Nat.reduceBEq, ↓reduceIte]

theorem deleteAttribute_rt2 (v : Nat) (hv : ¬ v < 20) (u : Option String) (cu : Option TAttr) (r : Option String)
    (hu : okOpt okText u = true) (hc : okOpt okAttr20 cu = true) (hr : okOpt okText r = true)
    (hcr : (cu.isSome || r.isSome) = true) :
    deleteAttributeBody v (uidL u ++ (optL cu (encHolder T.currentAttribute) ++
        optL r (fun n => .struct T.attributeReference [txt T.vendorIdentification "v", txt T.attributeName n]))) =
      .ok (.deleteAttribute u none none (cu.map normAttr20) r, []) := by
  have hvv : okText "v" = true := by decide
  cases u <;> cases cu <;> cases r <;> simp only [okOpt] at hu hc hr <;>
    first
    | exact absurd hcr (by decide)
    | simp only [deleteAttributeBody, attributeReferenceBody, rd_eval, kmip_tags, hv, hu, hr, hvv, Nat.reduceBEq, ↓reduceIte,
        attrHolder_enc, hc, Option.isNone_none, Option.isNone_some, and_self, and_false, false_and]

/-! ### request payloads: Create, CreateKeyPair, Register, DeriveKey -/

theorem optMasks_nil (v t : Nat) : optMasks v t [] = .ok ((), []) := by
  unfold optMasks; split <;> rfl

theorem create_rt (v ot : Nat) (t : Template) (ho : E.objectType.contains ot = true) (ht : okTemplate v t = true) :
    createBody v ([enm T.objectType ot] ++ optL (some t) (encTemplate v T.templateAttribute T.attributes_)) =
      .ok (.create ot (some (normTemplate v t)), []) := by
  simp only [createBody, rd_eval, kmip_tags, Nat.reduceBEq, ↓reduceIte, ho]
  have := reqTemplate_enc v t [] ht
  simp only [kmip_tags] at this
  simp only [this, optMasks_nil, rd_eval]

/-- an optional template of CreateKeyPair, present -/
theorem optTemplate_hit (v t1 t2 : Nat) (t : Template) (rest : List TItem) (h : okTemplate v t = true) :
    optTemplate v t1 t2 (encTemplate v t1 t2 t :: rest) = .ok (some (normTemplate v t), rest) := by
  unfold okTemplate at h
  by_cases hv : v < 20
  · simp only [hv, ↓reduceIte] at h
    simp only [optTemplate, encTemplate, normTemplate, hv, ↓reduceIte, rd_eval, template1x_enc _ t h]
  · simp only [hv, ↓reduceIte] at h
    simp only [optTemplate, encTemplate, normTemplate, template20, hv, ↓reduceIte, rd_eval, attributes20_enc _ _ _ h]

theorem optTemplate_miss (v t1 t2 : Nat) (s : List TItem) (h1 : headNe t1 s = true) (h2 : headNe t2 s = true) :
    optTemplate v t1 t2 s = .ok (none, s) := by
  unfold optTemplate; split
  · exact opt_miss _ _ _ h1
  · exact opt_miss _ _ _ h2

@[rd_eval] theorem tagOf_encTemplate' (v t1 t2 : Nat) (t : Template) :
    tagOf (encTemplate v t1 t2 t) = if v < 20 then t1 else t2 := tagOf_encTemplate v t1 t2 t

theorem okTemplate_lt {v : Nat} (hv : v < 20) {t : Template} (h : okTemplate v t = true) : t.attrs.all okAttr1x = true := by
  simpa only [okTemplate, hv, ↓reduceIte] using h
theorem okTemplate_ge {v : Nat} (hv : ¬ v < 20) {t : Template} (h : okTemplate v t = true) : t.attrs.all okAttr20 = true := by
  simpa only [okTemplate, hv, ↓reduceIte] using h

theorem createKeyPair_rt (v : Nat) (c pr pu : Option Template) (hc : okTemplateO v c = true) (hpr : okTemplateO v pr = true)
    (hpu : okTemplateO v pu = true) :
    createKeyPairBody v (optL c (encTemplate v T.commonTemplateAttribute T.commonAttributes) ++
      optL pr (encTemplate v T.privateKeyTemplateAttribute T.privateKeyAttributes) ++
      optL pu (encTemplate v T.publicKeyTemplateAttribute T.publicKeyAttributes)) =
      .ok (.createKeyPair (c.map (normTemplate v)) (pr.map (normTemplate v)) (pu.map (normTemplate v)), []) := by
  by_cases hv : v < 20
  · cases c <;> cases pr <;> cases pu <;> simp only [okTemplateO] at hc hpr hpu <;>
      (try have hc' := okTemplate_lt hv hc) <;> (try have hpr' := okTemplate_lt hv hpr) <;>
      (try have hpu' := okTemplate_lt hv hpu) <;>
      simp only [createKeyPairBody, optTemplate, encTemplate, normTemplate, optMasks_nil, rd_eval, kmip_tags, hv,
        Nat.reduceBEq, ↓reduceIte, template1x_enc, *]
  · cases c <;> cases pr <;> cases pu <;> simp only [okTemplateO] at hc hpr hpu <;>
      (try have hc' := okTemplate_ge hv hc) <;> (try have hpr' := okTemplate_ge hv hpr) <;>
      (try have hpu' := okTemplate_ge hv hpu) <;>
      simp only [createKeyPairBody, optTemplate, encTemplate, normTemplate, template20, optMasks_nil, rd_eval, kmip_tags, hv,
        Nat.reduceBEq, ↓reduceIte, attributes20_enc, *]

theorem register_rt (v ot : Nat) (t : Template) (o : RegObj) (ho : E.objectType.contains ot = true)
    (ht : okTemplate v t = true) (hot : o.otype = ot) (hs : okSecret o = true) :
    registerBody v ([enm T.objectType ot] ++ optL (some t) (encTemplate v T.templateAttribute T.attributes_) ++
      optL (some o) encSecret) = .ok (.register ot (some (normTemplate v t)) (some (normObj o)), []) := by
  obtain ⟨tag, rd, hsr, htag, hrd⟩ := secret_enc o hs
  rw [hot] at hsr
  have hreq := reqTemplate_enc v t [encSecret o] ht
  simp only [kmip_tags] at hreq
  simp only [registerBody, rd_eval, kmip_tags, Nat.reduceBEq, ↓reduceIte, ho, hreq, hsr, htag, hrd, optMasks_nil]

theorem derivationData_length (n : Nat) : (derivationData n).length = n := by
  simp only [derivationData, List.length_map, List.length_range]

theorem deriveKey_rt (v ot : Nat) (us : List String) (t : Template) (dd : Bool) (dl : Nat)
    (ho : E.objectType.contains ot = true) (hne : us.isEmpty = false) (hus : us.all okText = true)
    (ht : okTemplate v t = true) :
    deriveKeyBody v ([enm T.objectType ot] ++ us.map (txt T.uniqueIdentifier) ++
      [enm T.derivationMethod 2,
       .struct T.derivationParameters ([encSomeParams] ++ ifL dd (byt T.derivationData (derivationData dl)))] ++
      optL (some t) (encTemplate v T.templateAttribute T.attributes_)) =
      .ok (.deriveKey ot us (some (normTemplate v t)) dd (if dd then dl else 0), []) := by
  have hall := List.all_eq_true.mp hus
  have hreq := reqTemplate_enc v t [] ht
  have hm : ∀ rest, _ := fun rest => many_map_append T.uniqueIdentifier (asText "unique identifier") (txt T.uniqueIdentifier) id us
    (enm T.derivationMethod 2 :: rest) (fun a ha => ⟨rfl, asText_txt _ _ _ (hall a ha)⟩) rfl
  simp only [kmip_tags] at hreq hm
  cases dd <;>
    simp only [deriveKeyBody, derivationParameters, rd_eval, kmip_tags, Nat.reduceBEq, ↓reduceIte, ho, hm, List.map_id, hne,
      cryptoParams_some, hreq, derivationData_length, List.append_assoc]

/-! ### every request payload -/

macro "dispatch" : tactic =>
  `(tactic| simp only [payloadBody, Payload.op, Op.create, Op.createKeyPair, Op.register, Op.deriveKey, Op.locate, Op.get,
      Op.getAttributes, Op.getAttributeList, Op.activate, Op.revoke, Op.destroy, Op.query, Op.discoverVersions, Op.encrypt,
      Op.decrypt, Op.sign, Op.signatureVerify, Op.mac, Op.setAttribute, Op.modifyAttribute, Op.deleteAttribute,
      Nat.reduceEqDiff, ↓reduceIte, encPayload, normPayload, Option.map_some, Option.map_none])

/-- **the payload reader of M14 inverts the payload encoder of M16** on the encoder's domain, for every operation
and both forms (1.x / 2.0) -/
theorem payload_roundtrip (v : Nat) (p : Payload) (h : okPayload v p = true) :
    payloadBody p.op v (encPayload v p) = .ok (normPayload v p, []) := by
  cases p with
  | create ot t =>
    simp only [okPayload, Bool.and_eq_true] at h
    obtain ⟨⟨ho, hs⟩, ht⟩ := h
    cases t with
    | none => exact absurd hs Bool.false_ne_true
    | some t => dispatch; exact create_rt v ot t ho ht
  | createKeyPair c pr pu =>
    simp only [okPayload, Bool.and_eq_true] at h
    dispatch; exact createKeyPair_rt v c pr pu h.1.1 h.1.2 h.2
  | register ot t o =>
    simp only [okPayload, Bool.and_eq_true] at h
    obtain ⟨⟨⟨ho, hs⟩, ht⟩, hob⟩ := h
    cases t with
    | none => exact absurd hs Bool.false_ne_true
    | some t =>
      cases o with
      | none => exact absurd hob Bool.false_ne_true
      | some o =>
        simp only [Bool.and_eq_true, beq_iff_eq] at hob
        dispatch; exact register_rt v ot t o ho ht hob.1 hob.2
  | deriveKey ot us t dd dl =>
    simp only [okPayload, Bool.and_eq_true, Bool.not_eq_true'] at h
    obtain ⟨⟨⟨⟨ho, hne⟩, hus⟩, hs⟩, ht⟩ := h
    cases t with
    | none => exact absurd hs Bool.false_ne_true
    | some t => dispatch; exact deriveKey_rt v ot us t dd dl ho hne hus ht
  | locate mx off as =>
    simp only [okPayload, Bool.and_eq_true] at h
    obtain ⟨⟨hm, ho⟩, ha⟩ := h
    by_cases hv : v < 20
    · simp only [hv, ↓reduceIte] at ha
      dispatch; simp only [hv, ↓reduceIte]; exact locate_rt1 v hv mx off as hm ho ha
    · simp only [hv, ↓reduceIte] at ha
      dispatch; simp only [hv, ↓reduceIte]; exact locate_rt2 v hv mx off as hm ho ha
  | get u f c w =>
    simp only [okPayload, Bool.and_eq_true] at h
    dispatch; exact get_rt u f c w h.1.1 h.1.2 h.2
  | getAttributes u ns =>
    simp only [okPayload, Bool.and_eq_true, Bool.or_eq_true, decide_eq_true_eq] at h
    obtain ⟨⟨hu, hn⟩, ht⟩ := h
    by_cases hv : v < 20
    · dispatch; simp only [hv, ↓reduceIte]; exact getAttributes_rt1 v hv u ns hu hn
    · dispatch; simp only [hv, ↓reduceIte]; exact getAttributes_rt2 v hv u ns hu (ht.resolve_left hv)
  | getAttributeList u => simp only [okPayload] at h; dispatch; exact getAttributeList_rt u h
  | activate u => simp only [okPayload] at h; dispatch; exact activate_rt u h
  | revoke u c =>
    simp only [okPayload, Bool.and_eq_true] at h
    cases c with
    | none => exact absurd h.2 Bool.false_ne_true
    | some c => dispatch; exact revoke_rt u c h.1 h.2
  | destroy u => simp only [okPayload] at h; dispatch; exact destroy_rt u h
  | query fs =>
    simp only [okPayload, Bool.and_eq_true, Bool.not_eq_true'] at h
    dispatch; exact query_rt fs h.1 h.2
  | discoverVersions vs => dispatch; exact discoverVersions_rt vs
  | encrypt u p => simp only [okPayload] at h; dispatch; exact encrypt_rt v u p h
  | decrypt u p => simp only [okPayload] at h; dispatch; exact decrypt_rt v u p h
  | sign u p => simp only [okPayload] at h; dispatch; exact sign_rt u p h
  | signatureVerify u p => simp only [okPayload] at h; dispatch; exact signatureVerify_rt u p h
  | mac u alg d =>
    simp only [okPayload, Bool.and_eq_true] at h
    obtain ⟨⟨hu, ha⟩, hd⟩ := h
    subst hd
    dispatch; exact mac_rt u alg hu ha
  | setAttribute u a =>
    simp only [okPayload, Bool.and_eq_true, decide_eq_true_eq] at h
    dispatch; exact setAttribute_rt v h.1.1 u a h.1.2 h.2
  | modifyAttribute u a cu nw =>
    simp only [okPayload, Bool.and_eq_true] at h
    obtain ⟨hu, h⟩ := h
    by_cases hv : v < 20
    · simp only [hv, ↓reduceIte] at h
      cases a with
      | none => exact absurd h Bool.false_ne_true
      | some a => dispatch; simp only [hv, ↓reduceIte]; exact modifyAttribute_rt1 v hv u a hu h
    · simp only [hv, ↓reduceIte, Bool.and_eq_true] at h
      cases nw with
      | none => exact absurd h.2 Bool.false_ne_true
      | some nw => dispatch; simp only [hv, ↓reduceIte]; exact modifyAttribute_rt2 v hv u cu nw hu h.1 h.2
  | deleteAttribute u n i cu r =>
    simp only [okPayload, Bool.and_eq_true] at h
    obtain ⟨hu, h⟩ := h
    by_cases hv : v < 20
    · simp only [hv, ↓reduceIte, Bool.and_eq_true] at h
      cases n with
      | none => exact absurd h.1 Bool.false_ne_true
      | some n => dispatch; simp only [hv, ↓reduceIte]; exact deleteAttribute_rt1 v hv u n i hu h.1
    · simp only [hv, ↓reduceIte, Bool.and_eq_true] at h
      dispatch; simp only [hv, ↓reduceIte]; exact deleteAttribute_rt2 v hv u cu r hu h.1.1 h.1.2 h.2
  | unsupported op => exact absurd h Bool.false_ne_true

/-! ### batch items, header, message -/

theorem op_member (v : Nat) (p : Payload) (h : okPayload v p = true) : E.operation.contains p.op = true := by
  cases p <;> first | exact absurd h Bool.false_ne_true | (show E.operation.contains _ = true; simp only [Payload.op]; decide)

theorem batchIdOf_ascii (s : String) (h : okText s = true) : batchIdOf (asciiBytes s) = .ok s := by
  simp only [batchIdOf, validUtf8_asciiBytes s h, ↓reduceIte, textOf_asciiBytes s h]

theorem batchItem_enc (v : Nat) (it : Kmip.Item) (h : okItem v it = true) :
    batchItem (some v) (encItem v it) = .ok (normItem v it) := by
  obtain ⟨p, bid, cr⟩ := it
  simp only [okItem, Bool.and_eq_true] at h
  obtain ⟨hb, hp⟩ := h
  have hop := op_member v p hp
  have hpl := payload_roundtrip v p hp
  by_cases hv : v ≥ 20 <;> cases bid <;> simp only [okOpt] at hb <;>
    simp only [batchItem, batchItemBody, encItem, normItem, rd_eval, kmip_tags, Nat.reduceBEq, ↓reduceIte, hop, hv, hpl,
      batchIdOf_ascii, hb]

theorem takeItems_enc (v : Nat) (items : List Kmip.Item) (h : items.all (okItem v) = true) :
    takeItems (some v) items.length (items.map (encItem v)) = .ok (items.map (normItem v)) := by
  induction items with
  | nil => rfl
  | cons it rest ih =>
    simp only [List.all_cons, Bool.and_eq_true] at h
    simp only [List.length_cons, List.map_cons]
    rw [takeItems]
    have ht : (tagOf (encItem v it) == T.batchItem) = true := rfl
    simp only [ht, ↓reduceIte, batchItem_enc v it h.1, ih h.2]

theorem kmipVersion_supported (v : Nat) (h : supportedVersion v = true) :
    kmipVersion (Int.ofNat (v / 10), Int.ofNat (v % 10)) = some v := by
  simp only [supportedVersion, Bool.or_eq_true, decide_eq_true_eq] at h
  rcases h with ((((h | h) | h) | h) | h) | h <;> subst h <;> rfl

@[rd_eval] theorem tagOf_encHeader (r : Request) : tagOf (encHeader r) = T.requestHeader := rfl

theorem header_enc (r : Request) (hv : supportedVersion r.version = true)
    (hb : okOpt E.batchErrorContinuationOption.contains r.batchOption = true) :
    inStruct "RequestHeader" headerBody (encHeader r) =
      .ok ⟨some r.version, r.maxResponseSize.map Int.ofNat, r.async, r.batchOption, r.timeStamp, Int.ofNat r.items.length⟩ := by
  obtain ⟨v, ts, as, bo, mx, items⟩ := r
  have hver := version_enc v
  have hk := kmipVersion_supported v hv
  cases ts <;> cases as <;> cases bo <;> cases mx <;> simp only [okOpt] at hb <;>
    simp only [headerBody, encHeader, rd_eval, kmip_tags, Nat.reduceBEq, ↓reduceIte, hver, hk, hb]

end Kmip.EncodeRequest
