/-
Reason bounds (continued from `Lemmas/RangeReasons.lean`): reading attributes, Locate.
-/
import KmipModel.Lemmas.RangeReasons
namespace Kmip.Encode
open Kmip

/-! ### reading attributes -/

theorem rb_getAttr {o : Obj} {n : String} : RB (getAttr o n) := by
  unfold getAttr
  split
  · rename_i f hf
    simp only [getters, List.lookup] at hf
    repeat' split at hf
    all_goals first
      | (simp only [Option.some.injEq] at hf; subst hf; rb)
      | cases hf
  · exact RB.pure _
macro_rules | `(tactic| rb_lemmas) => `(tactic| exact rb_getAttr)

theorem rb_getAttrsStep {c : Ctx} {v : Nat} {o : Obj} {n : String} : RB (getAttrsStep c v o n) := by
  unfold getAttrsStep; rb

theorem rb_getAttrs {c : Ctx} {v : Nat} {o : Obj} {ns : List String} : RB (getAttrs c v o ns) := by
  unfold getAttrs
  exact RB.bind (rb_mapM _ (fun _ => rb_getAttrsStep) _) (fun _ => RB.pure _)
macro_rules | `(tactic| rb_lemmas) => `(tactic| exact rb_getAttrs)

theorem rb_attrIndex {o : Obj} {n : String} {v : AVal} : RB (attrIndex o n v) := by
  unfold attrIndex
  split
  · rename_i f hf
    simp only [indexers, List.lookup] at hf
    repeat' split at hf
    all_goals first
      | (simp only [Option.some.injEq] at hf; subst hf; rb)
      | cases hf
  · exact RB.pure _
macro_rules | `(tactic| rb_lemmas) => `(tactic| exact rb_attrIndex)

/-! ### Locate -/

theorem rb_trackDate {t : DateTrack} {v : Int} : RB (trackDate t v) := by unfold trackDate; rb
macro_rules | `(tactic| rb_lemmas) => `(tactic| exact rb_trackDate)
theorem rb_passIf {t : DateTrack} {b : Bool} : RB (passIf t b) := RB.pure _
macro_rules | `(tactic| rb_lemmas) => `(tactic| exact rb_passIf)
theorem rb_compareFilter {o : Obj} {t : DateTrack} {a : TAttr} {g : Got} : RB (compareFilter o t a g) := by
  unfold compareFilter; rb
macro_rules | `(tactic| rb_lemmas) => `(tactic| exact rb_compareFilter)
theorem rb_filterOne {c : Ctx} {o : Obj} {t : DateTrack} {a : TAttr} : RB (filterOne c o t a) := by
  unfold filterOne; rb
macro_rules | `(tactic| rb_lemmas) => `(tactic| exact rb_filterOne)
theorem rb_filterObj {c : Ctx} {o : Obj} : ∀ (as : List TAttr) (t : DateTrack), RB (filterObj c o t as)
  | [], t => by unfold filterObj; rb
  | a :: as, t => by
    have ih := fun t' => rb_filterObj (c := c) (o := o) as t'
    unfold filterObj
    refine RB.bind rb_filterOne (fun r => ?_)
    split
    · exact RB.pure _
    · exact ih _
theorem rb_matchesObj {c : Ctx} {o : Obj} {as : List TAttr} : RB (matchesObj c o as) := by
  unfold matchesObj
  refine RB.bind (rb_filterObj _ _) (fun r => ?_)
  rb
theorem rb_locateFilter {c : Ctx} {as : List TAttr} : ∀ (os : List Obj), RB (locateFilter c as os)
  | [] => by unfold locateFilter; rb
  | o :: os => by
    have ih := rb_locateFilter (c := c) (as := as) os
    unfold locateFilter
    exact RB.bind rb_matchesObj (fun _ => RB.bind ih (fun _ => RB.pure _))
theorem rb_opLocate {c : Ctx} {e : Engine} {m o : Option Int} {as : List TAttr} : RB (opLocate c e m o as) := by
  unfold opLocate
  refine RB.bind ?_ (fun _ => RB.pure _)
  unfold locateMatched
  split
  · exact RB.pure _
  · exact rb_locateFilter _


end Kmip.Encode
