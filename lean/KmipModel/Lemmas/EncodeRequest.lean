/-
Helper definitions and lemmas for Props/C19Encode.lean: the lenient byte reader of M14 inverts M1's `encode` on
valid trees, and the readers of M14 applied to the trees of M16 (`KmipModel/EncodeRequest.lean`).
-/
import KmipModel.EncodeRequest
import KmipModel.Lemmas.TTLVItem
import KmipModel.Lemmas.Prim
import KmipModel.Lemmas.EncodeRequestAttr
namespace Kmip.EncodeRequest
open Kmip Kmip.TTLV Kmip.Decode

/-! ### the trees the lenient reader gives back unchanged -/

mutual
/-- every Text String of the tree is well-formed UTF-8 (what `TextString.read` insists on) -/
def textOkB : TItem → Bool
  | .prim _ (.textString s) => Prim.validUtf8 s
  | .prim _ _ => true
  | .struct _ ks => textOkListB ks
def textOkListB : List TItem → Bool
  | [] => true
  | i :: is => textOkB i && textOkListB is
end

/-- M1 validity (tags, ranges, 32-bit lengths) and UTF-8 text -/
def lvalidB (i : TItem) : Bool := i.validB && textOkB i

/-- **the domain of the round trip**: the request is in the encoder's domain (`okRequest`) and its frame can be
written at all (its length fits the 32-bit length field of the outermost structure) -/
def Encodable (r : Request) : Prop := okRequest r = true ∧ (requestBytes r).length < 2 ^ 32

instance (r : Request) : Decidable (Encodable r) := by unfold Encodable; exact inferInstance

/-! ### the lenient byte reader inverts `encode` -/

theorem padLen4 : padLen 4 = 4 := by decide
theorem padLen8 : padLen 8 = 0 := by decide
def textOkP : PVal → Bool
  | .textString s => Prim.validUtf8 s
  | _ => true

theorem zeros0 (tail : Bytes) : zeros 0 ++ tail = tail := rfl

theorem lenientVal_valBytes (v : PVal) (h : v.Valid) (ht : textOkP v = true) (tail : Bytes) :
    lenientVal v.typeCode v.valBytes.length (v.valBytes ++ (zeros (padLen v.valBytes.length) ++ tail)) = some (v, tail) := by
  cases v with
  | integer x =>
    simp only [PVal.Valid] at h
    simp only [PVal.typeCode, PVal.valBytes, be_length, lenientVal, padLen4, ↓reduceIte]
    rw [Prim.read4Pad_append _ _ (toTC_lt 4 x)]
    simp only [ofTC_toTC 4 x h]
  | longInteger x =>
    simp only [PVal.Valid] at h
    simp only [PVal.typeCode, PVal.valBytes, be_length, lenientVal, padLen8, zeros0, Nat.reduceEqDiff, ↓reduceIte]
    rw [takeExact_append' _ _ 8 (be_length _ _)]
    simp only [ofBE_be _ _ (toTC_lt 8 x), ofTC_toTC 8 x h]
  | bigInteger x len =>
    simp only [PVal.Valid] at h
    obtain ⟨h8, hpos, _, hfit⟩ := h
    have hp : padLen len = 0 := by unfold padLen; omega
    simp only [PVal.typeCode, PVal.valBytes, be_length, lenientVal, hp, zeros0, Nat.reduceEqDiff, ↓reduceIte]
    rw [if_pos ⟨h8, hpos⟩, takeExact_append' _ _ len (be_length _ _)]
    simp only [ofBE_be _ _ (toTC_lt len x), ofTC_toTC len x hfit]
  | enumeration x =>
    simp only [PVal.Valid] at h
    simp only [PVal.typeCode, PVal.valBytes, be_length, lenientVal, padLen4, Nat.reduceEqDiff, ↓reduceIte]
    rw [Prim.read4Pad_append _ _ h]
  | boolean b =>
    simp only [PVal.typeCode, PVal.valBytes, be_length, lenientVal, padLen8, zeros0, Nat.reduceEqDiff, ↓reduceIte]
    rw [takeExact_append' _ _ 8 (be_length _ _)]
    cases b
    · simp only [Bool.false_eq_true, ↓reduceIte, ofBE_be 8 0 (by decide)]
      rfl
    · simp only [↓reduceIte, ofBE_be 8 1 (by decide)]
  | textString s =>
    simp only [textOkP] at ht
    simp only [PVal.typeCode, PVal.valBytes, lenientVal, Nat.reduceEqDiff, ↓reduceIte]
    rw [Prim.readPadded_append]
    simp only [ht, ↓reduceIte]
  | byteString s =>
    simp only [PVal.typeCode, PVal.valBytes, lenientVal, Nat.reduceEqDiff, ↓reduceIte]
    rw [Prim.readPadded_append]
  | dateTime x =>
    simp only [PVal.Valid] at h
    simp only [PVal.typeCode, PVal.valBytes, be_length, lenientVal, padLen8, zeros0, Nat.reduceEqDiff, ↓reduceIte]
    rw [takeExact_append' _ _ 8 (be_length _ _)]
    simp only [ofBE_be _ _ (toTC_lt 8 x), ofTC_toTC 8 x h]
  | interval x =>
    simp only [PVal.Valid] at h
    simp only [PVal.typeCode, PVal.valBytes, be_length, lenientVal, padLen4, Nat.reduceEqDiff, ↓reduceIte]
    rw [Prim.read4Pad_append _ _ h]
mutual
/-- one item followed by anything -/
theorem lparse_item : ∀ (i : TItem), i.Valid → textOkB i = true → ∀ (f : Nat) (tail : Bytes), (encode i).length ≤ f →
    lparseList (f + 1) (encode i ++ tail) = i :: lparseList f tail
  | .prim t v, hv, ht, f, tail, _ => by
    have hv' : tagOk t = true ∧ v.Valid := by simpa only [Item.Valid] using hv
    obtain ⟨htag, hvv⟩ := hv'
    have htx : textOkP v = true := by cases v <;> first | rfl | (simpa only [textOkB, textOkP] using ht)
    obtain ⟨b, bs, hb⟩ := encode_cons (.prim t v) tail
    rw [hb, lparseList, ← hb]
    simp only [encode, List.append_assoc]
    rw [splitHeader_header _ _ _ _ (tagOk_lt t htag) (typeCode_lt v) (valBytes_length_lt v hvv)]
    simp only [typeCode_ne_one v, if_false]
    rw [lenientVal_valBytes v hvv htx tail]
  | .struct t ks, hv, ht, f, tail, hf => by
    have hv' : tagOk t = true ∧ validList ks ∧ (encodeList ks).length < 256 ^ 4 := by
      simpa only [Item.Valid] using hv
    obtain ⟨htag, hks, hlen⟩ := hv'
    have htk : textOkListB ks = true := by simpa only [textOkB] using ht
    have hf' : (encodeList ks).length + 1 ≤ f := by
      simp only [encode, List.length_append, header_length] at hf; omega
    obtain ⟨b, bs, hb⟩ := encode_cons (.struct t ks) tail
    rw [hb, lparseList, ← hb]
    simp only [encode, List.append_assoc]
    rw [splitHeader_header _ _ _ _ (tagOk_lt t htag) (by decide) hlen]
    simp only [if_true, List.take_left', List.drop_left']
    rw [lparse_list ks hks htk f hf']
/-- the children of a structure -/
theorem lparse_list : ∀ (ks : List TItem), validList ks → textOkListB ks = true → ∀ (f : Nat),
    (encodeList ks).length + 1 ≤ f → lparseList f (encodeList ks) = ks
  | [], _, _, f, _ => by
    cases f <;> simp [encodeList, lparseList]
  | i :: is, hv, ht, f, hf => by
    have hv' : i.Valid ∧ validList is := by simpa only [validList] using hv
    obtain ⟨hi, his⟩ := hv'
    have ht' : textOkB i = true ∧ textOkListB is = true := by simpa only [textOkListB, Bool.and_eq_true] using ht
    have h8 := encode_length_ge i
    simp only [encodeList, List.length_append] at hf
    cases f with
    | zero => omega
    | succ f =>
      simp only [encodeList]
      rw [lparse_item i hi ht'.1 f (encodeList is) (by omega), lparse_list is his ht'.2 f (by omega)]
end

/-- **the lenient reader gives back the tree of every valid request structure** -/
theorem lenientTop_encode (t : Nat) (ks : List TItem) (hv : (Item.struct t ks).Valid)
    (ht : textOkB (.struct t ks) = true) : lenientTop (encode (.struct t ks)) = .struct t ks := by
  have hv' : tagOk t = true ∧ validList ks ∧ (encodeList ks).length < 256 ^ 4 := by
    simpa only [Item.Valid] using hv
  obtain ⟨htag, hks, hlen⟩ := hv'
  have htk : textOkListB ks = true := by simpa only [textOkB] using ht
  unfold lenientTop
  simp only [encode]
  rw [splitHeader_header _ _ _ _ (tagOk_lt t htag) (by decide) hlen]
  simp only [if_true]
  rw [lparse_list ks hks htk _ (by omega)]

/-! ### text -/

theorem utf8Chars_ascii (l : List Char) (h : l.all (fun c => c.toNat < 128) = true) :
    utf8Chars (l.map (fun c => UInt8.ofNat c.toNat)) = l := by
  induction l with
  | nil => rfl
  | cons c cs ih =>
    simp only [List.all_cons, Bool.and_eq_true, decide_eq_true_eq] at h
    have hb : (UInt8.ofNat c.toNat).toNat = c.toNat := by rw [UInt8.toNat_ofNat']; omega
    have hlt : UInt8.ofNat c.toNat < 0x80 := by rw [UInt8.lt_iff_toNat_lt, hb]; exact h.1
    rw [List.map_cons, utf8Chars.eq_def]
    simp only [hlt, ↓reduceIte, hb, Char.ofNat_toNat, ih h.2]

/-- an ASCII string is the text of its bytes -/
theorem textOf_asciiBytes (s : String) (h : isAscii s = true) : textOf (asciiBytes s) = s := by
  unfold textOf asciiBytes
  rw [utf8Chars_ascii _ h, String.ofList_toList]

theorem validUtf8_ascii (l : List Char) (h : l.all (fun c => c.toNat < 128) = true) :
    Prim.validUtf8 (l.map (fun c => UInt8.ofNat c.toNat)) = true := by
  induction l with
  | nil => rfl
  | cons c cs ih =>
    simp only [List.all_cons, Bool.and_eq_true, decide_eq_true_eq] at h
    have hb : (UInt8.ofNat c.toNat).toNat = c.toNat := by rw [UInt8.toNat_ofNat']; omega
    have hlt : UInt8.ofNat c.toNat < 0x80 := by rw [UInt8.lt_iff_toNat_lt, hb]; exact h.1
    rw [List.map_cons, Prim.validUtf8.eq_def]
    simp only [hlt, ↓reduceIte, ih h.2]

theorem validUtf8_asciiBytes (s : String) (h : isAscii s = true) : Prim.validUtf8 (asciiBytes s) = true :=
  validUtf8_ascii _ h

/-! ### the reader monad of M14, evaluated -/

attribute [kmip_tags]
  T.activationDate T.applicationData T.applicationNamespace T.applicationSpecificInformation T.archiveDate 
  T.asynchronousIndicator T.attestationAssertion T.attestationMeasurement T.attestationType T.attributeIndex 
  T.attributeName T.attributeReference T.attributeValue T.attribute_ T.attributes_ 
  T.authenticatedEncryptionAdditionalData T.authenticatedEncryptionTag T.authentication T.batchCount 
  T.batchErrorContinuationOption T.batchItem T.batchOrderOption T.blockCipherMode T.certificateIdentifier 
  T.certificateIssuer T.certificateLength T.certificateSubject T.certificateType T.certificateValue 
  T.certificate_ T.commonAttributes T.commonProtectionStorageMasks T.commonTemplateAttribute T.compromiseDate 
  T.compromiseOccurrenceDate T.contactInformation T.correlationValue T.counterLength T.credential 
  T.credentialType T.credentialValue T.cryptographicAlgorithm T.cryptographicDomainParameters 
  T.cryptographicLength T.cryptographicParameters T.cryptographicUsageMask T.currentAttribute T.data_ 
  T.deactivationDate T.derivationData T.derivationMethod T.derivationParameters T.destroyDate 
  T.deviceIdentifier T.deviceSerialNumber T.digestValue T.digest_ T.digestedData T.digitalSignatureAlgorithm 
  T.encodingOption T.encryptionKeyInformation T.ephemeral T.finalIndicator T.fixedFieldLength T.fresh_ 
  T.hashingAlgorithm T.initIndicator T.initialCounterValue T.initialDate T.initializationVector 
  T.invocationFieldLength T.iterationCount T.ivCounterNonce T.ivLength T.keyBlock T.keyCompressionType 
  T.keyFormatType T.keyMaterial T.keyPartIdentifier T.keyRoleType T.keyValue T.keyWrappingData 
  T.keyWrappingSpecification T.lastChangeDate T.leaseTime T.link_ T.macSignature T.macSignatureKeyInformation 
  T.machineIdentifier T.maximumItems T.maximumResponseSize T.mediaIdentifier T.messageExtension T.nameType 
  T.nameValue T.name_ T.networkIdentifier T.newAttribute T.nonce T.nonceId T.nonceValue T.objectGroup 
  T.objectGroupMember T.objectType T.offsetItems T.opaqueDataType T.opaqueDataValue T.opaqueObject 
  T.operationPolicyName T.operation_ T.paddingMethod T.password_ T.primeFieldSize T.privateKey 
  T.privateKeyAttributes T.privateKeyTemplateAttribute T.privateProtectionStorageMasks T.processStartDate 
  T.protectStopDate T.protectionStorageMask T.protectionStorageMasks T.protocolVersion T.protocolVersionMajor 
  T.protocolVersionMinor T.publicKey T.publicKeyAttributes T.publicKeyTemplateAttribute 
  T.publicProtectionStorageMasks T.queryFunction T.randomIv T.requestHeader T.requestMessage T.requestPayload 
  T.revocationMessage T.revocationReason T.revocationReasonCode T.salt T.secretData T.secretDataType 
  T.sensitive_ T.signatureData T.splitKey T.splitKeyMethod T.splitKeyParts T.splitKeyThreshold T.state_ 
  T.storageStatusMask T.symmetricKey T.tagLength T.templateAttribute T.template_ T.timeStamp 
  T.uniqueBatchItemId T.uniqueIdentifier T.usageLimits T.username_ T.vendorIdentification T.wrappingMethod 
  T.x509CertificateIdentifier T.x509CertificateIssuer T.x509CertificateSubject 

@[rd_eval] theorem bind_apply {α β} (m : Rd α) (k : α → Rd β) (s : List TItem) :
    (m >>= k) s = (match m s with | .ok (a, s') => k a s' | .error e => .error e) := rfl
@[rd_eval] theorem pure_apply {α} (a : α) (s : List TItem) : (pure a : Rd α) s = .ok (a, s) := rfl

@[rd_eval] theorem tagOf_txt (t : Nat) (s : String) : tagOf (txt t s) = t := rfl
@[rd_eval] theorem tagOf_enm (t n : Nat) : tagOf (enm t n) = t := rfl
@[rd_eval] theorem tagOf_int (t : Nat) (n : Int) : tagOf (int t n) = t := rfl
@[rd_eval] theorem tagOf_byt (t : Nat) (b : Bytes) : tagOf (byt t b) = t := rfl
@[rd_eval] theorem tagOf_boo (t : Nat) (b : Bool) : tagOf (boo t b) = t := rfl
@[rd_eval] theorem tagOf_dat (t : Nat) (n : Int) : tagOf (dat t n) = t := rfl
@[rd_eval] theorem tagOf_struct (t : Nat) (ks : List TItem) : tagOf (.struct t ks) = t := rfl

/-- `TextString.read` of an ASCII text -/
@[rd_eval] theorem asText_txt (w : String) (t : Nat) (s : String) (h : okText s = true) : asText w (txt t s) = .ok s := by
  simp only [asText, txt, textOf_asciiBytes s h]
/-- … of any text, when the value does not matter -/
theorem asText_txt' (w : String) (t : Nat) (s : String) : asText w (txt t s) = .ok (textOf (asciiBytes s)) := rfl
@[rd_eval] theorem asEnum_enm (w : String) (ms : List Nat) (t n : Nat) (h : ms.contains n = true) :
    asEnum w ms (enm t n) = .ok n := by
  simp only [asEnum, enm, h, ↓reduceIte]
@[rd_eval] theorem asInt_int (w : String) (t : Nat) (n : Int) : asInt w (int t n) = .ok n := rfl
@[rd_eval] theorem asBytes_byt (w : String) (t : Nat) (b : Bytes) : asBytes w (byt t b) = .ok b := rfl
@[rd_eval] theorem asBool_boo (w : String) (t : Nat) (b : Bool) : asBool w (boo t b) = .ok b := rfl
@[rd_eval] theorem asDate_dat (w : String) (t : Nat) (n : Int) : asDate w (dat t n) = .ok n := rfl

attribute [rd_eval] Rd.lift Rd.fail Rd.run inStruct uidField optL ifL uidL okOpt
  beq_self_eq_true List.isEmpty_nil List.isEmpty_cons List.nil_append List.cons_append List.append_nil
  Bool.and_eq_true Bool.false_eq_true Except.map Option.map_some Option.map_none Option.isSome_some Option.isSome_none
  Option.getD_some Option.getD_none Option.bind_some Option.bind_none

/-- the first item of a stream is not tagged `t` (what ends a `while is_tag_next` loop / skips an optional field) -/
def headNe (t : Nat) : List TItem → Bool
  | [] => true
  | i :: _ => tagOf i != t

@[rd_eval] theorem headNe_nil (t : Nat) : headNe t [] = true := rfl
@[rd_eval] theorem headNe_cons (t : Nat) (i : TItem) (r : List TItem) : headNe t (i :: r) = (tagOf i != t) := rfl

@[rd_eval] theorem req_cons {α} (what : String) (t : Nat) (f : TItem → D α) (i : TItem) (rest : List TItem) :
    req what t f (i :: rest) =
      if tagOf i == t then (match f i with | .ok a => .ok (a, rest) | .error e => .error e) else .error (.missing what) := rfl
@[rd_eval] theorem req_nil {α} (what : String) (t : Nat) (f : TItem → D α) : req what t f [] = .error (.missing what) := rfl
@[rd_eval] theorem opt_cons {α} (t : Nat) (f : TItem → D α) (i : TItem) (rest : List TItem) :
    opt t f (i :: rest) =
      if tagOf i == t then (match f i with | .ok a => .ok (some a, rest) | .error e => .error e) else .ok (none, i :: rest) := rfl
@[rd_eval] theorem opt_nil {α} (t : Nat) (f : TItem → D α) : opt t f [] = .ok (none, []) := rfl
@[rd_eval] theorem done_nil (what : String) : done what [] = .ok ((), []) := rfl
@[rd_eval] theorem done_cons (what : String) (i : TItem) (r : List TItem) : done what (i :: r) = .error (.trailing what) := rfl

/-- `if is_tag_next(t)` on a stream that starts with something else -/
theorem opt_miss {α} (t : Nat) (f : TItem → D α) (s : List TItem) (h : headNe t s = true) :
    opt t f s = .ok (none, s) := by
  cases s with
  | nil => rfl
  | cons i r =>
    simp only [headNe, bne_iff_ne, ne_eq] at h
    simp only [opt, beq_iff_eq, h, ↓reduceIte]

theorem many_nil {β} (t : Nat) (g : TItem → D β) : many t g [] = .ok ([], []) := rfl

theorem many_stop {β} (t : Nat) (g : TItem → D β) (rest : List TItem) (h : headNe t rest = true) :
    many t g rest = .ok ([], rest) := by
  cases rest with
  | nil => rfl
  | cons i r =>
    simp only [headNe, bne_iff_ne, ne_eq] at h
    rw [many]
    simp only [beq_iff_eq, h, ↓reduceIte]

/-- `while is_tag_next(t): read` over the encodings of a list, followed by something else -/
theorem many_map_append {α β} (t : Nat) (g : TItem → D β) (f : α → TItem) (h : α → β) (l : List α)
    (rest : List TItem) (hf : ∀ a ∈ l, tagOf (f a) = t ∧ g (f a) = .ok (h a)) (hr : headNe t rest = true) :
    many t g (l.map f ++ rest) = .ok (l.map h, rest) := by
  induction l with
  | nil => exact many_stop t g rest hr
  | cons a as ih =>
    have ha := hf a List.mem_cons_self
    have ih' := ih (fun x hx => hf x (List.mem_cons_of_mem _ hx))
    simp only [List.map_cons, List.cons_append]
    rw [many]
    simp only [ha.1, beq_self_eq_true, ↓reduceIte, ha.2, ih']

theorem many_map {α β} (t : Nat) (g : TItem → D β) (f : α → TItem) (h : α → β) (l : List α)
    (hf : ∀ a ∈ l, tagOf (f a) = t ∧ g (f a) = .ok (h a)) :
    many t g (l.map f) = .ok (l.map h, []) := by
  have := many_map_append t g f h l [] hf rfl
  simpa only [List.append_nil] using this

theorem headNe_map {α} (t : Nat) (f : α → TItem) (l : List α) (rest : List TItem)
    (hf : ∀ a, (tagOf (f a) != t) = true) (hr : headNe t rest = true) : headNe t (l.map f ++ rest) = true := by
  cases l with
  | nil => exact hr
  | cons a as => exact hf a

theorem mapD_map {α β γ} (g : β → D γ) (f : α → β) (h : α → γ) (l : List α)
    (hf : ∀ a ∈ l, g (f a) = .ok (h a)) : mapD g (l.map f) = .ok (l.map h) := by
  induction l with
  | nil => rfl
  | cons a as ih =>
    simp only [List.map_cons]
    rw [mapD]
    simp only [hf a List.mem_cons_self, ih (fun x hx => hf x (List.mem_cons_of_mem _ hx))]

/-! ### attribute names -/

/-- the member name of every `enums.AttributeType` is the normalised wire name (what `Attribute.read` computes) -/
theorem attributeTypes_norm : attributeTypes.all (fun p => normName p.2.1 == p.1) = true := by decide +kernel

/-- **the reader looks up the class the writer used**: for an ASCII member value of `enums.AttributeType` the factory
call of `Attribute.read` (by normalised name) yields the value class of `create_attribute` -/
theorem specOfName_of_specOf (name : String) (sp : VSpec) (ha : okText name = true) (h : specOf name = some sp) :
    specOfName name = .ok sp := by
  unfold specOf memberOf at h
  cases hf : attributeTypes.find? (fun p => p.2.1 == name) with
  | none => rw [hf] at h; cases h
  | some p =>
    rw [hf] at h
    simp only [Option.map_some] at h
    have hmem := List.mem_of_find?_eq_some hf
    have hp := List.find?_some hf
    simp only [beq_iff_eq] at hp
    have hn := List.all_eq_true.mp attributeTypes_norm p hmem
    simp only [beq_iff_eq] at hn
    rw [hp] at hn
    unfold specOfName
    simp only [okText] at ha
    simp only [ha, Bool.not_true, Bool.false_eq_true, ↓reduceIte, hn, h]

theorem lookup_mem' {β} (l : List (String × β)) (k : String) (v : β) (h : l.lookup k = some v) : (k, v) ∈ l := by
  induction l with
  | nil => simp only [List.lookup] at h; cases h
  | cons p ps ih =>
    obtain ⟨a, b⟩ := p
    simp only [List.lookup] at h
    split at h
    · rename_i heq
      simp only [beq_iff_eq] at heq
      simp only [Option.some.injEq] at h
      subst heq; subst h; exact List.mem_cons_self
    · exact List.mem_cons_of_mem _ (ih h)

/-- `enums.attribute_name_tag_table` maps into `enums.Tags`, and no two names share a tag -/
theorem nameTags_sound : attributeNameTags.all (fun p => allTags.contains p.2 && nameOfTag p.2 == some p.1) = true := by
  decide +kernel

/-- `convert_attribute_tag_to_name` inverts `convert_attribute_name_to_tag` -/
theorem nameOfTag_tagOfName (name : String) (t : Nat) (h : tagOfName name = some t) :
    allTags.contains t = true ∧ nameOfTag t = some name := by
  have hm := lookup_mem' _ _ _ h
  have := List.all_eq_true.mp nameTags_sound _ hm
  simpa only [Bool.and_eq_true, beq_iff_eq] using this

end Kmip.EncodeRequest
