/-
Helper definitions and lemmas for Props/C19Encode.lean: the lenient byte reader of M14 inverts M1's `encode` on
valid trees, and the readers of M14 applied to the trees of M16 (`KmipModel/EncodeRequest.lean`).
-/
import KmipModel.EncodeRequest
import KmipModel.Lemmas.TTLVItem
import KmipModel.Lemmas.Prim
namespace Kmip.EncodeRequest
open Kmip Kmip.TTLV Kmip.Decode

/-! ### the trees the lenient reader gives back unchanged -/

mutual
/-- every Text String of the tree is well-formed UTF-8 (what `TextString.read` insists on) -/
def textOkB : TItem → Bool
  | .prim _ (.textString s) => Prim.validUtf8 s
  | .prim _ _ => true
  | .struct _ ks => textOkListB ks
def textOkListB : List TItem → Bool
  | [] => true
  | i :: is => textOkB i && textOkListB is
end

/-- M1 validity (tags, ranges, 32-bit lengths) and UTF-8 text -/
def lvalidB (i : TItem) : Bool := i.validB && textOkB i

/-- **the domain of the round trip**: the request is in the encoder's domain (`okRequest`) and its tree can be
written (every length fits the 32-bit length field, `lvalidB`) -/
def Encodable (r : Request) : Prop := okRequest r = true ∧ lvalidB (encRequest r) = true

instance (r : Request) : Decidable (Encodable r) := by unfold Encodable; exact inferInstance

/-! ### the lenient byte reader inverts `encode` -/

theorem padLen4 : padLen 4 = 4 := by decide
theorem padLen8 : padLen 8 = 0 := by decide
def textOkP : PVal → Bool
  | .textString s => Prim.validUtf8 s
  | _ => true

theorem zeros0 (tail : Bytes) : zeros 0 ++ tail = tail := rfl

theorem lenientVal_valBytes (v : PVal) (h : v.Valid) (ht : textOkP v = true) (tail : Bytes) :
    lenientVal v.typeCode v.valBytes.length (v.valBytes ++ (zeros (padLen v.valBytes.length) ++ tail)) = some (v, tail) := by
  cases v with
  | integer x =>
    simp only [PVal.Valid] at h
    simp only [PVal.typeCode, PVal.valBytes, be_length, lenientVal, padLen4, ↓reduceIte]
    rw [Prim.read4Pad_append _ _ (toTC_lt 4 x)]
    simp only [ofTC_toTC 4 x h]
  | longInteger x =>
    simp only [PVal.Valid] at h
    simp only [PVal.typeCode, PVal.valBytes, be_length, lenientVal, padLen8, zeros0, Nat.reduceEqDiff, ↓reduceIte]
    rw [takeExact_append' _ _ 8 (be_length _ _)]
    simp only [ofBE_be _ _ (toTC_lt 8 x), ofTC_toTC 8 x h]
  | bigInteger x len =>
    simp only [PVal.Valid] at h
    obtain ⟨h8, hpos, _, hfit⟩ := h
    have hp : padLen len = 0 := by unfold padLen; omega
    simp only [PVal.typeCode, PVal.valBytes, be_length, lenientVal, hp, zeros0, Nat.reduceEqDiff, ↓reduceIte]
    rw [if_pos ⟨h8, hpos⟩, takeExact_append' _ _ len (be_length _ _)]
    simp only [ofBE_be _ _ (toTC_lt len x), ofTC_toTC len x hfit]
  | enumeration x =>
    simp only [PVal.Valid] at h
    simp only [PVal.typeCode, PVal.valBytes, be_length, lenientVal, padLen4, Nat.reduceEqDiff, ↓reduceIte]
    rw [Prim.read4Pad_append _ _ h]
  | boolean b =>
    simp only [PVal.typeCode, PVal.valBytes, be_length, lenientVal, padLen8, zeros0, Nat.reduceEqDiff, ↓reduceIte]
    rw [takeExact_append' _ _ 8 (be_length _ _)]
    cases b
    · simp only [Bool.false_eq_true, ↓reduceIte, ofBE_be 8 0 (by decide)]
      rfl
    · simp only [↓reduceIte, ofBE_be 8 1 (by decide)]
  | textString s =>
    simp only [textOkP] at ht
    simp only [PVal.typeCode, PVal.valBytes, lenientVal, Nat.reduceEqDiff, ↓reduceIte]
    rw [Prim.readPadded_append]
    simp only [ht, ↓reduceIte]
  | byteString s =>
    simp only [PVal.typeCode, PVal.valBytes, lenientVal, Nat.reduceEqDiff, ↓reduceIte]
    rw [Prim.readPadded_append]
  | dateTime x =>
    simp only [PVal.Valid] at h
    simp only [PVal.typeCode, PVal.valBytes, be_length, lenientVal, padLen8, zeros0, Nat.reduceEqDiff, ↓reduceIte]
    rw [takeExact_append' _ _ 8 (be_length _ _)]
    simp only [ofBE_be _ _ (toTC_lt 8 x), ofTC_toTC 8 x h]
  | interval x =>
    simp only [PVal.Valid] at h
    simp only [PVal.typeCode, PVal.valBytes, be_length, lenientVal, padLen4, Nat.reduceEqDiff, ↓reduceIte]
    rw [Prim.read4Pad_append _ _ h]
mutual
/-- one item followed by anything -/
theorem lparse_item : ∀ (i : TItem), i.Valid → textOkB i = true → ∀ (f : Nat) (tail : Bytes), (encode i).length ≤ f →
    lparseList (f + 1) (encode i ++ tail) = i :: lparseList f tail
  | .prim t v, hv, ht, f, tail, _ => by
    have hv' : tagOk t = true ∧ v.Valid := by simpa only [Item.Valid] using hv
    obtain ⟨htag, hvv⟩ := hv'
    have htx : textOkP v = true := by cases v <;> first | rfl | (simpa only [textOkB, textOkP] using ht)
    obtain ⟨b, bs, hb⟩ := encode_cons (.prim t v) tail
    rw [hb, lparseList, ← hb]
    simp only [encode, List.append_assoc]
    rw [splitHeader_header _ _ _ _ (tagOk_lt t htag) (typeCode_lt v) (valBytes_length_lt v hvv)]
    simp only [typeCode_ne_one v, if_false]
    rw [lenientVal_valBytes v hvv htx tail]
  | .struct t ks, hv, ht, f, tail, hf => by
    have hv' : tagOk t = true ∧ validList ks ∧ (encodeList ks).length < 256 ^ 4 := by
      simpa only [Item.Valid] using hv
    obtain ⟨htag, hks, hlen⟩ := hv'
    have htk : textOkListB ks = true := by simpa only [textOkB] using ht
    have hf' : (encodeList ks).length + 1 ≤ f := by
      simp only [encode, List.length_append, header_length] at hf; omega
    obtain ⟨b, bs, hb⟩ := encode_cons (.struct t ks) tail
    rw [hb, lparseList, ← hb]
    simp only [encode, List.append_assoc]
    rw [splitHeader_header _ _ _ _ (tagOk_lt t htag) (by decide) hlen]
    simp only [if_true, List.take_left', List.drop_left']
    rw [lparse_list ks hks htk f hf']
/-- the children of a structure -/
theorem lparse_list : ∀ (ks : List TItem), validList ks → textOkListB ks = true → ∀ (f : Nat),
    (encodeList ks).length + 1 ≤ f → lparseList f (encodeList ks) = ks
  | [], _, _, f, _ => by
    cases f <;> simp [encodeList, lparseList]
  | i :: is, hv, ht, f, hf => by
    have hv' : i.Valid ∧ validList is := by simpa only [validList] using hv
    obtain ⟨hi, his⟩ := hv'
    have ht' : textOkB i = true ∧ textOkListB is = true := by simpa only [textOkListB, Bool.and_eq_true] using ht
    have h8 := encode_length_ge i
    simp only [encodeList, List.length_append] at hf
    cases f with
    | zero => omega
    | succ f =>
      simp only [encodeList]
      rw [lparse_item i hi ht'.1 f (encodeList is) (by omega), lparse_list is his ht'.2 f (by omega)]
end

/-- **the lenient reader gives back the tree of every valid request structure** -/
theorem lenientTop_encode (t : Nat) (ks : List TItem) (h : lvalidB (.struct t ks) = true) :
    lenientTop (encode (.struct t ks)) = .struct t ks := by
  simp only [lvalidB, Bool.and_eq_true] at h
  have hv := validB_sound _ h.1
  have hv' : tagOk t = true ∧ validList ks ∧ (encodeList ks).length < 256 ^ 4 := by
    simpa only [Item.Valid] using hv
  obtain ⟨htag, hks, hlen⟩ := hv'
  have htk : textOkListB ks = true := by simpa only [textOkB] using h.2
  unfold lenientTop
  simp only [encode]
  rw [splitHeader_header _ _ _ _ (tagOk_lt t htag) (by decide) hlen]
  simp only [if_true]
  rw [lparse_list ks hks htk _ (by omega)]

end Kmip.EncodeRequest
