/-
Helper definitions and lemmas for Props/C19Encode.lean: the lenient byte reader of M14 inverts M1's `encode` on
valid trees, and the readers of M14 applied to the trees of M16 (`KmipModel/EncodeRequest.lean`).
-/
import KmipModel.EncodeRequest
import KmipModel.Lemmas.TTLVItem
import KmipModel.Lemmas.Prim
namespace Kmip.EncodeRequest
open Kmip Kmip.TTLV Kmip.Decode

/-! ### the trees the lenient reader gives back unchanged -/

mutual
/-- every Text String of the tree is well-formed UTF-8 (what `TextString.read` insists on) -/
def textOkB : TItem → Bool
  | .prim _ (.textString s) => Prim.validUtf8 s
  | .prim _ _ => true
  | .struct _ ks => textOkListB ks
def textOkListB : List TItem → Bool
  | [] => true
  | i :: is => textOkB i && textOkListB is
end

/-- M1 validity (tags, ranges, 32-bit lengths) and UTF-8 text -/
def lvalidB (i : TItem) : Bool := i.validB && textOkB i

/-- **the domain of the round trip**: the request is in the encoder's domain (`okRequest`) and its tree can be
written (every length fits the 32-bit length field, `lvalidB`) -/
def Encodable (r : Request) : Prop := okRequest r = true ∧ lvalidB (encRequest r) = true

instance (r : Request) : Decidable (Encodable r) := by unfold Encodable; exact inferInstance

end Kmip.EncodeRequest
