/-
The shape every stored object has (a stored type; a usage mask and a state unless opaque)
is an invariant of every history of decodable requests.  It is the store hypothesis of
the C13 theorem `no_internal_error`.
-/
import KmipModel.Lemmas.Evolve
namespace Kmip

def ObjShape (o : Obj) : Prop :=
  o.otype ∈ storedTypes ∧ (o.otype ≠ OT.opaqueData → o.mask.isSome = true ∧ o.state.isSome = true)

def StoreShape (s : Store) : Prop := ∀ o ∈ s.objs, ObjShape o

theorem StoreShape.empty : StoreShape Store.empty := by intro o h; simp [Store.empty] at h

/-- the decoder builds the secret of a Register payload from the announced object type -/
def Item.RegTyped (it : Item) : Prop :=
  match it.payload with
  | .register ot _ (some ro) => ro.otype = ot
  | _ => True

theorem opRegister_type {c : Ctx} {e : Engine} {ot : Nat} {t : Option Template} {ro : RegObj} {eff : Effect} {d : Data}
    (h : opRegister c e ot t (some ro) = .ok (eff, d)) (hty : ro.otype = ot) :
    ∃ o, eff = .insert [o] ∧ o.otype ∈ storedTypes := by
  unfold opRegister at h
  inv h
  obtain ⟨hreg, dd, _, _, _, o, ho, rfl, _⟩ := h
  refine ⟨_, rfl, ?_⟩
  show o.otype ∈ storedTypes
  rw [(setAttrs_core ho).otype]
  show ro.otype ∈ storedTypes
  rw [hty]
  have : registrable ot = true := by cases hr : registrable ot <;> simp_all
  simp only [registrable, Bool.or_eq_true, beq_iff_eq] at this
  simp only [storedTypes, List.mem_cons, List.mem_nil_iff, or_false]
  omega

/-- objects inserted by a successful item have a stored type -/
theorem insert_types {c : Ctx} {e : Engine} {it : Item} {os : List Obj} {d : Data} (hr : RulesProtect c)
    (hreg : it.RegTyped) (h : processOperation c e it = .ok (.insert os, d)) : ∀ o ∈ os, o.otype ∈ storedTypes := by
  intro o ho
  have hspec := processOperation_spec hr h
  generalize hop : it.payload.op = op at hspec
  cases hspec with
  | insert _ _ hos =>
    by_cases hopr : op = Op.register
    · subst hopr
      unfold processOperation at h
      rw [hop] at h
      cases hp : it.payload with
      | register ot t obj =>
        rw [hp] at h
        split at h
        · inv h
        · split at h
          · inv h
          · cases obj with
            | none => unfold opRegister at h; inv h
            | some ro =>
              have hty : ro.otype = ot := by simpa [Item.RegTyped, hp] using hreg
              obtain ⟨o1, ho1, hty1⟩ := opRegister_type h hty
              cases ho1
              simp only [List.mem_singleton] at ho
              subst ho; exact hty1
      | unsupported k =>
        rw [hp] at h
        split at h
        · inv h
        · split at h <;> inv h
      | _ => rw [hp] at hop; simp [Payload.op, Op.register, Op.create, Op.createKeyPair,
          Op.deriveKey, Op.locate, Op.get, Op.getAttributes, Op.getAttributeList, Op.activate, Op.revoke, Op.destroy,
          Op.query, Op.discoverVersions, Op.encrypt, Op.decrypt, Op.sign, Op.signatureVerify, Op.mac, Op.setAttribute,
          Op.modifyAttribute, Op.deleteAttribute] at hop
    · exact (hos o ho).2.2.2.2 hopr

theorem update_shape {s : Store} {u : Nat} {o' : Obj} (hs : StoreShape s) (h : ObjShape o') :
    StoreShape (s.update u (fun _ => o')) := by
  intro x hx
  simp only [Store.update, List.mem_map] at hx
  obtain ⟨y, hy, rfl⟩ := hx
  split
  · exact h
  · exact hs y hy

theorem ObjShape.withState {o : Obj} (h : ObjShape o) (st : Nat) : ObjShape { o with state := some st } :=
  ⟨h.1, fun hne => ⟨(h.2 hne).1, rfl⟩⟩

theorem ObjShape.ofProt {o o' : Obj} (h : ObjShape o) (hp : ProtEq o o') : ObjShape o' := by
  refine ⟨by rw [hp.otype]; exact h.1, fun hne => ?_⟩
  rw [hp.otype] at hne
  rw [hp.mask, hp.state]; exact h.2 hne

theorem applyEffect_shape {c : Ctx} {e : Engine} {op : Nat} {eff : Effect} (hi : e.store.Inv)
    (hs : StoreShape e.store) (hspec : EffSpec c e op eff)
    (hty : ∀ os, eff = .insert os → ∀ o ∈ os, o.otype ∈ storedTypes) :
    StoreShape (applyEffect e eff).store := by
  cases hspec with
  | none => exact hs
  | insert _ os hos =>
    intro x hx
    simp only [applyEffect] at hx
    rcases (Store.insertAll_spec e.store os hi).2.2 x hx with hx' | ⟨_, o, ho, hxo⟩
    · exact hs x hx'
    · rw [hxo]; exact ⟨hty os rfl o ho, (hos o ho).2.2.2.1⟩
  | activate o hmem _ _ => exact update_shape hs ((hs o hmem).withState _)
  | revokeCompromise o st hmem _ _ => exact update_shape hs ((hs o hmem).withState _)
  | revokeDeactivate o hmem _ _ => exact update_shape hs ((hs o hmem).withState _)
  | attr o o' _ hmem _ _ hp => exact update_shape hs ((hs o hmem).ofProt hp)
  | destroy o hmem _ _ =>
    intro x hx
    simp only [applyEffect, Store.delete] at hx
    exact hs x (List.mem_filter.mp hx).1

/-- all items of a batch are decodable in the sense of `RegTyped` -/
def ItemsTyped (items : List Item) : Prop := ∀ it ∈ items, it.RegTyped

theorem batchSpec_shape (c : Ctx) (hr : RulesProtect c) (stop : Bool) (e : Engine) (items : List Item)
    (hit : ItemsTyped items) (hi : e.store.Inv) (hs : StoreShape e.store) :
    StoreShape (batchSpec c stop e items).1.store := by
  induction items generalizing e with
  | nil => exact hs
  | cons it rest ih =>
    have hrest : ItemsTyped rest := fun x hx => hit x (List.mem_cons_of_mem _ hx)
    simp only [batchSpec]
    cases hp : processOperation c e it with
    | ok r =>
      obtain ⟨eff, d⟩ := r
      have h1 := applyEffect_shape hi hs (processOperation_spec hr hp)
        (fun os heq => by subst heq; exact insert_types hr (hit it List.mem_cons_self) hp)
      exact ih _ hrest (applyEffect_inv e eff hi).1 h1
    | error err =>
      simp only
      cases stop
      · simpa using ih e hrest hi hs
      · simpa using hs

theorem processRequest_shape (c : Ctx) (hr : RulesProtect c) (e : Engine) (id : Identity) (r : Request)
    (hit : ItemsTyped r.items) (hi : e.store.Inv) (hs : StoreShape e.store) :
    StoreShape (processRequest c e id r).1.store := by
  rcases processRequest_cases c e id r with ⟨hst, _⟩ | hb
  · rw [hst]; exact hs
  · rw [hb]; exact batchSpec_shape c hr r.stop ⟨e.store, none, r.version, id⟩ r.items hit hi hs

/-- every request of the history runs under a protecting rule table and carries decodable Register payloads -/
def StepsTyped (steps : List Step) : Prop :=
  ∀ s ∈ steps, match s with
    | .request c _ r => RulesProtect c ∧ ItemsTyped r.items
    | .restart => True

/-- **Store shape is an invariant of every history** from any well-shaped store (in particular the empty one). -/
theorem run_shape (e : Engine) (steps : List Step) (hok : StepsTyped steps)
    (hi : e.store.Inv) (hs : StoreShape e.store) : StoreShape (run e steps).store := by
  induction steps generalizing e with
  | nil => exact hs
  | cons s rest ih =>
    have hrest : StepsTyped rest := fun s hs' => hok s (List.mem_cons_of_mem _ hs')
    cases s with
    | request c id r =>
      have := hok (.request c id r) List.mem_cons_self
      exact ih _ hrest (processRequest_inv c e id r hi).1 (processRequest_shape c this.1 e id r this.2 hi hs)
    | restart => exact ih _ hrest hi hs

end Kmip
