/-
Helper lemmas for C05Convert: the type decorators (usage mask, enumeration columns), the key wrapping columns, and
inversion of the checks of the conversions.
-/
import KmipModel.ConvertObjectsSpec
import KmipModel.Props.C05
set_option linter.unusedSimpArgs false
namespace Kmip.ConvObj
open Kmip.Convert

/-! ### Except -/
theorem bind_ok' {α β} (x : C α) (f : α → C β) (r : β) :
    (x >>= f) = Except.ok r ↔ ∃ a, x = Except.ok a ∧ f a = Except.ok r := by
  cases x <;> simp [bind, Except.bind]

theorem unit_bind_ok {β} (x : C Unit) (f : Unit → C β) (r : β) :
    (x >>= f) = Except.ok r ↔ x = Except.ok () ∧ f () = Except.ok r := by
  cases x <;> simp [bind, Except.bind]

theorem pure_ok' {β} (a r : β) : (pure a : C β) = Except.ok r ↔ a = r := by simp [pure, Except.pure]

/-! ### enumeration columns -/
theorem enum_roundtrip (v : Option Nat) : decEnum (encEnum v) = v := by
  cases v with
  | none => rfl
  | some n =>
    have h : ((n : Int) == -1) = false := by
      apply beq_false_of_ne; omega
    simp [encEnum, decEnum, h]

theorem encEnumFV_roundtrip (v : FV) (h : fvIsEnum v = true) : decEnumFV (encEnumFV v) = v := by
  cases v with
  | none => rfl
  | enum n =>
    have h : ((n : Int) == -1) = false := by
      apply beq_false_of_ne; omega
    simp [encEnumFV, decEnumFV, h]
  | _ => simp [fvIsEnum] at h

theorem cp_roundtrip (l : List FV) (h : cpTyped l = true) : mapFirst decEnumFV 6 (mapFirst encEnumFV 6 l) = l := by
  unfold cpTyped at h
  split at h
  · simp only [Bool.and_eq_true] at h
    obtain ⟨⟨⟨⟨⟨⟨⟨⟨⟨⟨⟨⟨ha, hb⟩, hc⟩, hd⟩, he⟩, hf⟩, _⟩, _⟩, _⟩, _⟩, _⟩, _⟩, _⟩ := h
    simp [mapFirst, encEnumFV_roundtrip, ha, hb, hc, hd, he, hf]
  · simp at h

theorem cols_roundtrip (c : Columns) (h : colsTyped c = true) : decCols (encCols c) = c := by
  unfold colsTyped at h
  simp only [Bool.and_eq_true] at h
  obtain ⟨⟨⟨⟨⟨⟨⟨hm, _⟩, he⟩, _⟩, hs⟩, _⟩, _⟩, hen⟩ := h
  obtain ⟨method, ekiUid, ekiCp, mskiUid, mskiCp, macSig, iv, encoding⟩ := c
  simp only [encCols, decCols]
  simp only at hm he hs hen
  rw [encEnumFV_roundtrip _ hm, encEnumFV_roundtrip _ hen, cp_roundtrip _ he, cp_roundtrip _ hs]

theorem cpTyped_length {l : List FV} (h : cpTyped l = true) : l.length = 13 := by
  unfold cpTyped at h
  split at h
  · rfl
  · simp at h

/-! ### usage masks -/
theorem mem_maskBits {m : Nat} : m ∈ maskBits ↔ ∃ i, i < 24 ∧ m = 2 ^ i := by
  simp only [maskBits, List.mem_map, List.mem_range]
  constructor
  · rintro ⟨i, hi, rfl⟩; exact ⟨i, hi, rfl⟩
  · rintro ⟨i, hi, rfl⟩; exact ⟨i, hi, rfl⟩

theorem two_pow_and_ne_zero (i v : Nat) : (2 ^ i &&& v != 0) = v.testBit i := by
  cases hb : v.testBit i with
  | true =>
    have : (2 ^ i &&& v).testBit i = true := by simp [Nat.testBit_and, Nat.testBit_two_pow_self, hb]
    have hne : 2 ^ i &&& v ≠ 0 := by
      intro h0; rw [h0] at this; simp at this
    simp [hne]
  | false =>
    have : 2 ^ i &&& v = 0 := by
      apply Nat.eq_of_testBit_eq
      intro j
      simp only [Nat.testBit_and, Nat.zero_testBit, Nat.testBit_two_pow]
      by_cases hij : i = j
      · subst hij; simp [hb]
      · simp [hij]
    simp [this]

theorem foldl_or_testBit (l : List Nat) (a i : Nat) :
    (l.foldl (fun acc m => acc ||| m) a).testBit i = (a.testBit i || l.any (fun m => m.testBit i)) := by
  induction l generalizing a with
  | nil => simp
  | cons x xs ih => simp [List.foldl, ih, Nat.testBit_or, Bool.or_assoc]

theorem encMask_testBit (l : List Nat) (i : Nat) : (encMask l).testBit i = l.any (fun m => m.testBit i) := by
  simp [encMask, foldl_or_testBit]

theorem any_testBit_eq_contains (l : List Nat) (hl : ∀ m ∈ l, m ∈ maskBits) (i : Nat) :
    l.any (fun m => m.testBit i) = l.contains (2 ^ i) := by
  induction l with
  | nil => simp
  | cons x xs ih =>
    have hx := hl x (by simp)
    obtain ⟨j, _, rfl⟩ := mem_maskBits.mp hx
    have ih' := ih (fun m hm => hl m (by simp [hm]))
    simp only [List.any_cons, List.contains_cons, ih', Nat.testBit_two_pow]
    congr 1
    by_cases hji : j = i
    · subst hji; simp
    · have : ¬ (2 ^ i = 2 ^ j) := by
        intro h
        exact hji ((Nat.pow_right_inj (by decide : 1 < 2)).mp h).symm
      simp [hji, this]

/-- **the bitmask round trip**: the stored integer is read back as the members of the list, each once, in the
order of the enumeration (bit order) -/
theorem mask_roundtrip (l : List Nat) (hl : ∀ m ∈ l, m ∈ maskBits) :
    decMask (encMask l) = maskBits.filter (fun b => l.contains b) := by
  have hfilter : maskBits.filter (fun m => m &&& encMask l != 0) = maskBits.filter (fun b => l.contains b) := by
    apply List.filter_congr
    intro m hm
    obtain ⟨i, _, rfl⟩ := mem_maskBits.mp hm
    rw [two_pow_and_ne_zero, encMask_testBit, any_testBit_eq_contains l hl]
  unfold decMask
  split
  · exact hfilter
  · rename_i h0
    have h0' : encMask l = 0 := by simpa using h0
    rw [← hfilter, h0']
    simp

/-- as sets, the masks read back are the masks stored -/
theorem mask_roundtrip_mem (l : List Nat) (hl : ∀ m ∈ l, m ∈ maskBits) (m : Nat) :
    m ∈ decMask (encMask l) ↔ m ∈ l := by
  rw [mask_roundtrip l hl, List.mem_filter]
  constructor
  · rintro ⟨_, h⟩; simpa using h
  · intro h; exact ⟨hl m h, by simpa using h⟩

/-! ### the key wrapping columns: what the property returns is always normal -/
theorem keyInfoOf_normal {uid : FV} {cp : List FV} {k : KeyInfo} (hlen : cp.length = 13)
    (h : keyInfoOf uid cp = some k) : k.Normal := by
  unfold keyInfoOf at h
  by_cases ht : anyTruthy cp = true
  · simp [ht] at h
    subst h
    exact ⟨⟨hlen, ht⟩, Or.inr rfl⟩
  · simp [ht] at h
    obtain ⟨hu, rfl⟩ := h
    exact ⟨trivial, Or.inl hu⟩

theorem fromColumns_normal {c : Columns} {w : WrapDict} (h1 : c.ekiCp.length = 13) (h2 : c.mskiCp.length = 13)
    (h : fromColumns c = some w) : w.Normal := by
  unfold fromColumns at h
  simp only at h
  split at h
  · rename_i hcond
    simp only [Option.some.injEq] at h
    subst h
    refine ⟨?_, ?_, ?_⟩
    · show match keyInfoOf c.ekiUid c.ekiCp with | some k => k.Normal | none => True
      cases hk : keyInfoOf c.ekiUid c.ekiCp with
      | none => trivial
      | some k => exact keyInfoOf_normal h1 hk
    · show match keyInfoOf c.mskiUid c.mskiCp with | some k => k.Normal | none => True
      cases hk : keyInfoOf c.mskiUid c.mskiCp with
      | none => trivial
      | some k => exact keyInfoOf_normal h2 hk
    · simp only [Bool.or_eq_true] at hcond
      rcases hcond with ((((h | h) | h) | h) | h) | h
      · exact Or.inl h
      · exact Or.inr (Or.inl h)
      · exact Or.inr (Or.inr (Or.inl h))
      · exact Or.inr (Or.inr (Or.inr (Or.inl h)))
      · exact Or.inr (Or.inr (Or.inr (Or.inr (Or.inl h))))
      · exact Or.inr (Or.inr (Or.inr (Or.inr (Or.inr h))))
  · simp at h

/-- the property is idempotent through the setter: storing what was read changes nothing that can be read -/
theorem fromColumns_idem (c : Columns) (h1 : c.ekiCp.length = 13) (h2 : c.mskiCp.length = 13) :
    fromColumns (toColumns (fromColumns c)) = fromColumns c := by
  cases h : fromColumns c with
  | none => exact Kmip.C05.wrapping_absent
  | some w => exact Kmip.C05.wrapping_roundtrip w (fromColumns_normal h1 h2 h)

theorem colsTyped_lengths {c : Columns} (h : colsTyped c = true) : c.ekiCp.length = 13 ∧ c.mskiCp.length = 13 := by
  unfold colsTyped at h
  simp only [Bool.and_eq_true] at h
  exact ⟨cpTyped_length h.1.1.1.1.1.2, cpTyped_length h.1.1.1.2⟩

/-! ### the conversions -/
theorem fldValue_optFld {α} (o : Option α) : fldValue (optFld o) = .ok o := by cases o <;> rfl

theorem validateKey_ok_some {kk : KeyKind} {k : PieKey} {v : String} (h : validateKey kk k v = .ok ()) :
    ∃ a l, k.alg = some a ∧ k.len = some l := by
  unfold validateKey at h
  cases ha : k.alg with
  | none => simp [ha, typeErr] at h
  | some a =>
    cases hl : k.len with
    | none => simp [ha, hl, typeErr] at h
    | some l => exact ⟨a, l, rfl, rfl⟩

theorem validateKey_congr {kk : KeyKind} {k k' : PieKey} {v : String} (ha : k'.alg = k.alg) (hl : k'.len = k.len)
    (hf : k'.format = k.format) (hc : fromColumns k'.cols = fromColumns k.cols) :
    validateKey kk k' v = validateKey kk k v := by
  unfold validateKey
  rw [ha, hl, hf, hc]

theorem validateKey_format {kk : KeyKind} {k : PieKey} {v : String} (h : validateKey kk k v = .ok ())
    (hk : kk ≠ .symmetric) : k.format.isSome = true := by
  obtain ⟨a, l, ha, hl⟩ := validateKey_ok_some h
  unfold validateKey at h
  simp only [ha, hl] at h
  cases kk with
  | symmetric => exact absurd rfl hk
  | publicKey => cases hf : k.format with
    | none => simp [hf, typeErr] at h
    | some f => rfl
  | privateKey => cases hf : k.format with
    | none => simp [hf, typeErr] at h
    | some f => rfl

theorem isOk_match (x : C Unit) : (match x with | .ok _ => true | .error _ => false) = true ↔ x = .ok () := by
  cases x <;> simp

theorem optFld_of_fldValue {α} {x : Fld α} {o : Option α} (h : fldValue x = .ok o) : optFld o = x := by
  cases x <;> simp [fldValue, attrErr, pure, Except.pure] at h <;> subst h <;> rfl

theorem materialValue_ok {kb : CoreKeyBlock} {v : String} (h : materialValue (some kb) = .ok v) :
    ∃ n, kb.keyValue = some ⟨.bytes v, n⟩ := by
  unfold materialValue at h
  simp only at h
  split at h
  · simp [attrErr] at h
  · simp [attrErr] at h
  · rename_i b n hkv
    simp [pure, Except.pure] at h
    subst h
    exact ⟨n, hkv⟩

theorem chkCp_noneCp : chkCpFrom 0 noneCp = .ok () := by rfl

theorem chkKeyInfo?_keyInfoOf {uid : FV} {cp : List FV} (hu : chkText "Unique identifier must be a string." uid = .ok ())
    (hc : chkCpFrom 0 cp = .ok ()) : chkKeyInfo? (keyInfoOf uid cp) = .ok () := by
  unfold keyInfoOf
  by_cases ht : anyTruthy cp = true
  · simp [ht, chkKeyInfo?, chkKeyInfo, hu, hc, bind, Except.bind]
  · by_cases hut : uid.truthy = true
    · simp [ht, hut, chkKeyInfo?, chkKeyInfo, hu, bind, Except.bind, pure, Except.pure]
    · simp [ht, hut, chkKeyInfo?, pure, Except.pure]

theorem chkCp_cpColumns {cp : Option (List FV)} (h : match cp with | some l => chkCpFrom 0 l = .ok () | none => True) :
    chkCpFrom 0 (cpColumns cp) = .ok () := by
  cases cp with
  | none => exact chkCp_noneCp
  | some l =>
    simp only [cpColumns]
    by_cases hl : l.length = 13
    · simpa [hl] using h
    · simpa [hl] using chkCp_noneCp

theorem chkKeyInfo_parts {k : KeyInfo} (h : chkKeyInfo k = .ok ()) :
    chkText "Unique identifier must be a string." k.uid = .ok () ∧ chkCpFrom 0 (cpColumns k.cp) = .ok () := by
  simp only [chkKeyInfo, bind_ok'] at h
  obtain ⟨_, hu, hc⟩ := h
  refine ⟨hu, chkCp_cpColumns ?_⟩
  cases hcp : k.cp with
  | none => trivial
  | some l => simpa [hcp] using hc

theorem chkWrap_norm {w : WrapDict} (h : chkWrap w = .ok ()) : chkWrap? (fromColumns (toColumns (some w))) = .ok () := by
  simp only [chkWrap, bind_ok'] at h
  obtain ⟨_, hm, _, he, _, hs, _, hmac, _, hiv, henc⟩ := h
  have hE : chkText "Unique identifier must be a string." (toColumns (some w)).ekiUid = .ok () ∧
      chkCpFrom 0 (toColumns (some w)).ekiCp = .ok () := by
    cases hw : w.eki with
    | none => simp only [toColumns, hw]; exact ⟨rfl, chkCp_noneCp⟩
    | some k => simp only [toColumns, hw]; rw [hw] at he; exact chkKeyInfo_parts he
  have hS : chkText "Unique identifier must be a string." (toColumns (some w)).mskiUid = .ok () ∧
      chkCpFrom 0 (toColumns (some w)).mskiCp = .ok () := by
    cases hw : w.mski with
    | none => simp only [toColumns, hw]; exact ⟨rfl, chkCp_noneCp⟩
    | some k => simp only [toColumns, hw]; rw [hw] at hs; exact chkKeyInfo_parts hs
  unfold fromColumns
  simp only
  split
  · simp only [chkWrap?, chkWrap, bind_ok']
    exact ⟨(), hm, (), chkKeyInfo?_keyInfoOf hE.1 hE.2, (), chkKeyInfo?_keyInfoOf hS.1 hS.2, (), hmac, (), hiv, henc⟩
  · rfl

theorem chkWrap?_norm {w : Option WrapDict} (h : chkWrap? w = .ok ()) : chkWrap? (fromColumns (toColumns w)) = .ok () := by
  cases w with
  | none => rw [Kmip.C05.wrapping_absent]; rfl
  | some w => exact chkWrap_norm h


theorem chkInteger_zero : chkInteger 0 = .ok () := by rfl

theorem chkEnum_ok {s : String} {v : FV} (h : chkEnum s v = .ok ()) : fvIsEnum v = true := by
  cases v <;> simp [chkEnum, typeErr] at h <;> rfl
theorem chkText_ok {s : String} {v : FV} (h : chkText s v = .ok ()) : fvIsText v = true := by
  cases v <;> simp [chkText, typeErr] at h <;> rfl
theorem chkBytes_ok {s : String} {v : FV} (h : chkBytes s v = .ok ()) : fvIsBytes v = true := by
  cases v <;> simp [chkBytes, typeErr] at h <;> rfl
theorem chkBool_ok {s : String} {v : FV} (h : chkBool s v = .ok ()) : fvIsBool v = true := by
  cases v <;> simp [chkBool, typeErr] at h <;> rfl
theorem chkInt_ok {s : String} {v : FV} (h : chkInt s v = .ok ()) : fvIsInt v = true := by
  cases v <;> simp [chkInt, typeErr] at h <;> rfl

theorem cpTyped_noneCp : cpTyped noneCp = true := by decide

theorem chkCpFrom_cons (i : Nat) (v : FV) (rest : List FV) :
    chkCpFrom i (v :: rest) = .ok () ↔ chkCpAt i v = .ok () ∧ chkCpFrom (i + 1) rest = .ok () := by
  simp only [chkCpFrom, bind_ok']
  constructor
  · rintro ⟨_, h1, h2⟩; exact ⟨h1, h2⟩
  · rintro ⟨h1, h2⟩; exact ⟨(), h1, h2⟩

theorem cpTyped_of_chk {l : List FV} (hlen : l.length = 13) (h : chkCpFrom 0 l = .ok ()) : cpTyped l = true := by
  rcases l with _ | ⟨a, _ | ⟨b, _ | ⟨c, _ | ⟨d, _ | ⟨e, _ | ⟨f, _ | ⟨g, _ | ⟨h1, _ | ⟨i, _ | ⟨j, _ | ⟨k, _ | ⟨l', _ | ⟨m, _ | ⟨n, r⟩⟩⟩⟩⟩⟩⟩⟩⟩⟩⟩⟩⟩⟩ <;>
    simp at hlen
  simp only [chkCpFrom_cons] at h
  simp [chkCpAt] at h
  obtain ⟨ha, hb, hc, hd, he, hf, hg, hh, hi, hj, hk, hl, hm, _⟩ := h
  simp [cpTyped, chkEnum_ok ha, chkEnum_ok hb, chkEnum_ok hc, chkEnum_ok hd, chkEnum_ok he, chkEnum_ok hf,
    chkBool_ok hg, chkInt_ok hh, chkInt_ok hi, chkInt_ok hj, chkInt_ok hk, chkInt_ok hl, chkInt_ok hm]

theorem cpTyped_cpColumns {cp : Option (List FV)} (h : match cp with | some l => chkCpFrom 0 l = .ok () | none => True) :
    cpTyped (cpColumns cp) = true := by
  cases cp with
  | none => exact cpTyped_noneCp
  | some l =>
    simp only [cpColumns]
    by_cases hl : l.length = 13
    · simp only [hl, if_true]; exact cpTyped_of_chk hl h
    · simp only [hl, if_false]; exact cpTyped_noneCp

theorem keyInfo_typed {k : KeyInfo} (h : chkKeyInfo k = .ok ()) :
    fvIsText k.uid = true ∧ cpTyped (cpColumns k.cp) = true := by
  simp only [chkKeyInfo, bind_ok'] at h
  obtain ⟨_, hu, hc⟩ := h
  refine ⟨chkText_ok hu, cpTyped_cpColumns ?_⟩
  cases hcp : k.cp with
  | none => trivial
  | some l => simpa [hcp] using hc

theorem colsTyped_toColumns {w : Option WrapDict} (h : chkWrap? w = .ok ()) : colsTyped (toColumns w) = true := by
  cases w with
  | none => decide
  | some w =>
    simp only [chkWrap?, chkWrap, bind_ok'] at h
    obtain ⟨_, hm, _, he, _, hs, _, hmac, _, hiv, henc⟩ := h
    have hE : fvIsText (toColumns (some w)).ekiUid = true ∧ cpTyped (toColumns (some w)).ekiCp = true := by
      cases hw : w.eki with
      | none => simp only [toColumns, hw]; exact ⟨rfl, cpTyped_noneCp⟩
      | some k => simp only [toColumns, hw]; rw [hw] at he; exact keyInfo_typed he
    have hS : fvIsText (toColumns (some w)).mskiUid = true ∧ cpTyped (toColumns (some w)).mskiCp = true := by
      cases hw : w.mski with
      | none => simp only [toColumns, hw]; exact ⟨rfl, cpTyped_noneCp⟩
      | some k => simp only [toColumns, hw]; rw [hw] at hs; exact keyInfo_typed hs
    simp only [colsTyped, Bool.and_eq_true]
    exact ⟨⟨⟨⟨⟨⟨⟨chkEnum_ok hm, hE.1⟩, hE.2⟩, hS.1⟩, hS.2⟩, chkBytes_ok hmac⟩, chkBytes_ok hiv⟩, chkEnum_ok henc⟩


/-! ### the database hop -/
theorem pieWf_masks {p : PieObj} (h : PieWf p) {cr : PieCrypto} (hc : p.spec.crypto? = some cr) :
    ∀ m ∈ cr.masks, m ∈ maskBits := by
  unfold PieWf pieWf at h
  simp only [Bool.and_eq_true, hc] at h
  intro m hm
  have := List.all_eq_true.mp h.1 m hm
  simpa using this

theorem pieWf_cols {p : PieObj} (h : PieWf p) {k : PieKey} (hk : p.spec.key? = some k) : colsTyped k.cols = true := by
  unfold PieWf pieWf at h
  simp only [Bool.and_eq_true, hk] at h
  exact h.2

theorem names_roundtrip (l : List NameRow) :
    List.map ((fun n => (⟨n.name, n.index, decEnum n.nameType⟩ : NameRow)) ∘
      (fun n => (⟨n.name, n.index, encEnum n.nameType⟩ : NameRec))) l = l := by
  induction l with
  | nil => rfl
  | cons x xs ih => simp [enum_roundtrip, ih]

theorem crypto_roundtrip (cr : PieCrypto) (h : ∀ m ∈ cr.masks, m ∈ maskBits) :
    decCrypto (encCrypto cr) = { cr with masks := maskBits.filter (fun b => cr.masks.contains b) } := by
  simp [decCrypto, encCrypto, enum_roundtrip, mask_roundtrip cr.masks h]

theorem key_roundtrip (k : PieKey) (h : colsTyped k.cols = true) : decKey (encKey k) = k := by
  simp [decKey, encKey, enum_roundtrip, cols_roundtrip k.cols h]

theorem split_roundtrip (s : SplitFields) : decSplit (encSplit s) = s := by
  simp [decSplit, encSplit, enum_roundtrip]

theorem pieToRow_ok {p : PieObj} {r : Row} (h : pieToRow p = .ok r) : r = rowOf p := by
  unfold pieToRow at h
  simp only [unit_bind_ok, pure_ok'] at h
  exact h.2.symm

theorem dbNorm_dbEq (p : PieObj) (hwf : PieWf p) : DbEq p (dbNorm p) := by
  obtain ⟨spec, ot, value, names, ni, policy, sens, date, owner⟩ := p
  refine ⟨rfl, rfl, rfl, rfl, ?_, rfl, rfl, rfl, ?_, ?_⟩
  · simp [dbNorm]
  · cases spec <;> simp [dbNorm, PieSpecific.mapCrypto]
  · intro m
    cases spec with
    | opaqueObj t => simp [dbNorm, PieSpecific.mapCrypto, PieSpecific.crypto?]
    | certificate cr t =>
      have hm := pieWf_masks hwf (cr := cr) rfl
      simp only [dbNorm, PieSpecific.mapCrypto, PieSpecific.crypto?, Option.map_some, Option.getD_some]
      rw [← mask_roundtrip cr.masks hm]; exact mask_roundtrip_mem cr.masks hm m
    | key cr kk k =>
      have hm := pieWf_masks hwf (cr := cr) rfl
      simp only [dbNorm, PieSpecific.mapCrypto, PieSpecific.crypto?, Option.map_some, Option.getD_some]
      rw [← mask_roundtrip cr.masks hm]; exact mask_roundtrip_mem cr.masks hm m
    | splitKey cr k s =>
      have hm := pieWf_masks hwf (cr := cr) rfl
      simp only [dbNorm, PieSpecific.mapCrypto, PieSpecific.crypto?, Option.map_some, Option.getD_some]
      rw [← mask_roundtrip cr.masks hm]; exact mask_roundtrip_mem cr.masks hm m
    | secretData cr t =>
      have hm := pieWf_masks hwf (cr := cr) rfl
      simp only [dbNorm, PieSpecific.mapCrypto, PieSpecific.crypto?, Option.map_some, Option.getD_some]
      rw [← mask_roundtrip cr.masks hm]; exact mask_roundtrip_mem cr.masks hm m


/-! ### attribute part -/
theorem engineBuildCore_strip (p : PieObj) : engineBuildCore (strip p) = engineBuildCore p := by
  obtain ⟨spec, ot, value, names, ni, policy, sens, date, owner⟩ := p
  cases spec <;> rfl

theorem strip_dbNorm_withAttrs (p : PieObj) (a : Attrs) : strip (dbNorm (withAttrs p a)) = strip p := by
  obtain ⟨spec, ot, value, names, ni, policy, sens, date, owner⟩ := p
  cases spec <;> rfl

theorem engineBuildCore_attrs (p : PieObj) (a : Attrs) :
    engineBuildCore (dbNorm (withAttrs p a)) = engineBuildCore p := by
  rw [← engineBuildCore_strip, strip_dbNorm_withAttrs, engineBuildCore_strip]

theorem kind_mapCrypto (s : PieSpecific) (f : PieCrypto → PieCrypto) : (s.mapCrypto f).kind = s.kind := by
  cases s <;> rfl


/-! ### the object factory, key classes -/
theorem pie_core_roundtrip_key (cr : PieCrypto) (kk : KeyKind) (k : PieKey) (ot : Option Nat) (v : String)
    (names : List NameRow) (ni : Int) (policy : Option String) (sens : Bool) (date : Int) (owner : Option String)
    (hok : PieOk ⟨.key cr kk k, ot, some v, names, ni, policy, sens, date, owner⟩)
    (hwf : PieWf ⟨.key cr kk k, ot, some v, names, ni, policy, sens, date, owner⟩) (c : CoreObj)
    (h : pieToCore ⟨.key cr kk k, ot, some v, names, ni, policy, sens, date, owner⟩ = .ok c) :
    coreToPie c = .ok (fresh ⟨.key cr kk k, ot, some v, names, ni, policy, sens, date, owner⟩) := by
  have hcols := pieWf_cols hwf (k := k) rfl
  obtain ⟨hl1, hl2⟩ := colsTyped_lengths hcols
  simp only [PieOk, pieOk, PieObj.kind, PieSpecific.kind, Bool.and_eq_true, beq_iff_eq] at hok
  obtain ⟨hot, hval, hfmt⟩ := hok
  replace hval := (isOk_match _).mp hval
  obtain ⟨a, l, ha, hl⟩ := validateKey_ok_some hval
  simp only [pieToCore, factoryKeyBlock, bind_ok', pure_ok'] at h
  obtain ⟨kb, ⟨_, _, _, _, rfl⟩, rfl⟩ := h
  have hidem := fromColumns_idem k.cols hl1 hl2
  cases kk with
  | symmetric =>
    have hf : k.format = some fmtRaw := by simpa using hfmt
    have hv : validateKey .symmetric ⟨some a, some l, some fmtRaw, toColumns (fromColumns k.cols)⟩ v = .ok () := by
      rw [← hval]; exact validateKey_congr ha.symm hl.symm hf.symm hidem
    simp [coreToPie, buildPieKey, keyBlock, ha, hl, hf, materialValue, fldValue, optFld, hv,
      fresh, normCols, PieSpecific.mapCrypto, PieSpecific.mapKey, pure, Except.pure, bind, Except.bind]
  | publicKey =>
    obtain ⟨f, hf⟩ := Option.isSome_iff_exists.mp (validateKey_format hval (by decide))
    have hv : validateKey .publicKey ⟨some a, some l, some f, toColumns (fromColumns k.cols)⟩ v = .ok () := by
      rw [← hval]; exact validateKey_congr ha.symm hl.symm hf.symm hidem
    simp [coreToPie, buildPieKey, keyBlock, ha, hl, hf, materialValue, fldValue, optFld, hv, fresh,
      normCols, PieSpecific.mapCrypto, PieSpecific.mapKey, pure, Except.pure, bind, Except.bind]
  | privateKey =>
    obtain ⟨f, hf⟩ := Option.isSome_iff_exists.mp (validateKey_format hval (by decide))
    have hv : validateKey .privateKey ⟨some a, some l, some f, toColumns (fromColumns k.cols)⟩ v = .ok () := by
      rw [← hval]; exact validateKey_congr ha.symm hl.symm hf.symm hidem
    simp [coreToPie, buildPieKey, keyBlock, ha, hl, hf, materialValue, fldValue, optFld, hv, fresh,
      normCols, PieSpecific.mapCrypto, PieSpecific.mapKey, pure, Except.pure, bind, Except.bind]
theorem kbChecks_ok {kb : CoreKeyBlock} (h : kbChecks kb = .ok ()) :
    (∀ n, kb.len = .val n → chkInteger n = .ok ()) ∧ chkWrap? kb.wrapping = .ok () := by
  simp only [kbChecks, bind_ok'] at h
  obtain ⟨_, hl, hw⟩ := h
  refine ⟨?_, hw⟩
  intro n hn
  simpa [hn] using hl

theorem core_pie_roundtrip_key (kk : KeyKind) (kb? : Option CoreKeyBlock) (hwf : CoreWf (.key kk kb?)) (p : PieObj)
    (h : coreToPie (.key kk kb?) = .ok p) : pieToCore p = .ok (factoryNorm (.key kk kb?)) := by
  cases kb? with
  | none => simp [coreToPie, buildPieKey, keyBlock, attrErr, bind, Except.bind] at h
  | some kb =>
    obtain ⟨hlen, hwrap⟩ := kbChecks_ok hwf
    have hwrap' := chkWrap?_norm hwrap
    simp only [coreToPie, buildPieKey, keyBlock, bind_ok', pure_ok'] at h
    obtain ⟨_, rfl, alg, halg, len, hlenv, value, hval, format, hfmt, h⟩ := h
    have ealg := optFld_of_fldValue halg
    have elen := optFld_of_fldValue hlenv
    have efmt := optFld_of_fldValue hfmt
    obtain ⟨n, hkv⟩ := materialValue_ok hval
    cases kk with
    | symmetric =>
      simp only [bind_ok'] at h
      obtain ⟨_, hv, h⟩ := h
      obtain ⟨a, l, ha, hl⟩ := validateKey_ok_some hv
      simp only at ha hl
      subst ha hl
      split at h
      · simp [typeErr] at h
      · rename_i hne
        have hf : format = some fmtRaw := by
          have : some fmtRaw = format := by simpa using hne
          exact this.symm
        subst hf
        simp only [pure_ok'] at h
        subst h
        have hl' : kb.len = .val l := elen.symm
        simp [pieToCore, freshPie, factoryKeyBlock, hwrap', hlen l hl', bind, Except.bind, pure, Except.pure,
          factoryNorm, normKb, hkv, ← ealg, ← efmt, hl', optFld]
    | publicKey =>
      simp only [bind_ok', pure_ok'] at h
      obtain ⟨_, hv, h⟩ := h
      obtain ⟨a, l, ha, hl⟩ := validateKey_ok_some hv
      simp only at ha hl
      subst ha hl h
      have hl' : kb.len = .val l := elen.symm
      simp [pieToCore, freshPie, factoryKeyBlock, hwrap', hlen l hl', bind, Except.bind, pure, Except.pure,
        factoryNorm, normKb, hkv, ← ealg, hl', optFld]
      exact efmt
    | privateKey =>
      simp only [bind_ok', pure_ok'] at h
      obtain ⟨_, hv, h⟩ := h
      obtain ⟨a, l, ha, hl⟩ := validateKey_ok_some hv
      simp only at ha hl
      subst ha hl h
      have hl' : kb.len = .val l := elen.symm
      simp [pieToCore, freshPie, factoryKeyBlock, hwrap', hlen l hl', bind, Except.bind, pure, Except.pure,
        factoryNorm, normKb, hkv, ← ealg, hl', optFld]
      exact efmt


theorem engine_of_coreToPie_key (kk : KeyKind) (kb? : Option CoreKeyBlock) (hwf : CoreWf (.key kk kb?)) (p : PieObj)
    (h : coreToPie (.key kk kb?) = .ok p) : engineBuildCore p = .ok (engineNorm (.key kk kb?)) := by
  cases kb? with
  | none => simp [coreToPie, buildPieKey, keyBlock, attrErr, bind, Except.bind] at h
  | some kb =>
    obtain ⟨hlen, hwrap⟩ := kbChecks_ok hwf
    have hwrap' := chkWrap?_norm hwrap
    simp only [coreToPie, buildPieKey, keyBlock, bind_ok', pure_ok'] at h
    obtain ⟨_, rfl, alg, halg, len, hlenv, value, hval, format, hfmt, h⟩ := h
    have ealg := optFld_of_fldValue halg
    have elen := optFld_of_fldValue hlenv
    have efmt := optFld_of_fldValue hfmt
    obtain ⟨n, hkv⟩ := materialValue_ok hval
    cases kk with
    | symmetric =>
      simp only [bind_ok'] at h
      obtain ⟨_, hv, h⟩ := h
      obtain ⟨a, l, ha, hl⟩ := validateKey_ok_some hv
      simp only at ha hl
      subst ha hl
      split at h
      · simp [typeErr] at h
      · rename_i hne
        have hf : format = some fmtRaw := by
          have : some fmtRaw = format := by simpa using hne
          exact this.symm
        subst hf
        simp only [pure_ok'] at h
        subst h
        have hl' : kb.len = .val l := elen.symm
        simp [engineBuildCore, PieObj.kind, PieSpecific.kind, freshPie, engineKeyBlock, chkInteger?, hwrap', hlen l hl', bind, Except.bind, pure, Except.pure,
          engineNorm, engineKb, normKb, hkv, ← ealg, ← efmt, hl', optFld]
    | publicKey =>
      simp only [bind_ok', pure_ok'] at h
      obtain ⟨_, hv, h⟩ := h
      obtain ⟨a, l, ha, hl⟩ := validateKey_ok_some hv
      simp only at ha hl
      subst ha hl h
      have hl' : kb.len = .val l := elen.symm
      simp [engineBuildCore, PieObj.kind, PieSpecific.kind, freshPie, engineKeyBlock, chkInteger?, hwrap', hlen l hl', bind, Except.bind, pure, Except.pure,
        engineNorm, engineKb, normKb, hkv, ← ealg, hl', optFld]
      exact efmt
    | privateKey =>
      simp only [bind_ok', pure_ok'] at h
      obtain ⟨_, hv, h⟩ := h
      obtain ⟨a, l, ha, hl⟩ := validateKey_ok_some hv
      simp only at ha hl
      subst ha hl h
      have hl' : kb.len = .val l := elen.symm
      simp [engineBuildCore, PieObj.kind, PieSpecific.kind, freshPie, engineKeyBlock, chkInteger?, hwrap', hlen l hl', bind, Except.bind, pure, Except.pure,
        engineNorm, engineKb, normKb, hkv, ← ealg, hl', optFld]
      exact efmt




/-! ### Register ; database ; Get -/
/-- what a successful conversion of a Secret Data says about it (after the repair 683f968: no wrapping data) -/
theorem coreToPie_secretData_ok {t : Fld Nat} {kb? : Option CoreKeyBlock} {p : PieObj}
    (h : coreToPie (.secretData t kb?) = .ok p) :
    ∃ kb t' value n, kb? = some kb ∧ t = .val t' ∧ kb.keyValue = some ⟨.bytes value, n⟩ ∧ kb.wrapping = none ∧
      p = freshPie (.secretData freshCrypto (some t')) (some value) := by
  simp only [coreToPie, bind_ok'] at h
  obtain ⟨t', ht, value, hval, kb, hkb, h⟩ := h
  cases kb? with
  | none => simp [keyBlock, attrErr] at hkb
  | some kb0 =>
    simp only [keyBlock, pure_ok'] at hkb
    subst hkb
    obtain ⟨n, hkv⟩ := materialValue_ok hval
    have et := optFld_of_fldValue ht
    cases hw : kb0.wrapping with
    | some w => simp [hw, typeErr] at h
    | none =>
      simp only [hw, Option.isSome_none, Bool.false_eq_true, if_false] at h
      cases t' with
      | none => simp [typeErr] at h
      | some t' =>
        simp only [pure_ok'] at h
        exact ⟨kb0, t', value, n, rfl, et.symm, hkv, hw, h.symm⟩

/-- what a successful conversion of a Split Key says about it (after the repair 8b96c42: the prime field size fits) -/
theorem coreToPie_splitKey_ok {s : SplitFields} {kb? : Option CoreKeyBlock} {p : PieObj}
    (h : coreToPie (.splitKey s kb?) = .ok p) :
    ∃ kb alg len value format n, kb? = some kb ∧ optFld alg = kb.alg ∧ optFld len = kb.len ∧
      optFld format = kb.format ∧ kb.keyValue = some ⟨.bytes value, n⟩ ∧
      chkPrimeFieldSize s.primeFieldSize = .ok () ∧
      p = freshPie (.splitKey freshCrypto ⟨alg, len, format, toColumns kb.wrapping⟩ s) (some value) := by
  cases kb? with
  | none => simp [coreToPie, keyBlock, attrErr, bind, Except.bind] at h
  | some kb =>
    simp only [coreToPie, keyBlock, bind_ok', pure_ok'] at h
    obtain ⟨_, rfl, alg, halg, len, hlenv, value, hval, format, hfmt, _, hprime, h⟩ := h
    obtain ⟨n, hkv⟩ := materialValue_ok hval
    exact ⟨_, alg, len, value, format, n, rfl, optFld_of_fldValue halg, optFld_of_fldValue hlenv,
      optFld_of_fldValue hfmt, hkv, hprime, h.symm⟩

/-- the key wrapping columns a conversion from a core secret produces are typed -/
theorem coreToPie_cols (c : CoreObj) (hwf : CoreWf c) (p : PieObj) (h : coreToPie c = .ok p) (k : PieKey)
    (hk : p.spec.key? = some k) : colsTyped k.cols = true := by
  cases c with
  | certificate t v =>
    simp only [coreToPie] at h
    split at h
    · simp only [pure_ok'] at h; subst h; simp [freshPie, PieSpecific.key?] at hk
    · simp [typeErr] at h
  | key kk kb? =>
    cases kb? with
    | none => simp [coreToPie, buildPieKey, keyBlock, attrErr, bind, Except.bind] at h
    | some kb =>
      obtain ⟨_, hwrap⟩ := kbChecks_ok hwf
      have ht := colsTyped_toColumns hwrap
      simp only [coreToPie, buildPieKey, keyBlock, bind_ok', pure_ok'] at h
      obtain ⟨_, rfl, alg, _, len, _, value, _, format, _, h⟩ := h
      cases kk with
      | symmetric =>
        simp only [bind_ok'] at h
        obtain ⟨_, _, h⟩ := h
        split at h
        · simp [typeErr] at h
        · simp only [pure_ok'] at h; subst h
          simp only [freshPie, PieSpecific.key?, Option.some.injEq] at hk; subst hk; exact ht
      | publicKey =>
        simp only [bind_ok', pure_ok'] at h
        obtain ⟨_, _, h⟩ := h
        subst h
        simp only [freshPie, PieSpecific.key?, Option.some.injEq] at hk; subst hk; exact ht
      | privateKey =>
        simp only [bind_ok', pure_ok'] at h
        obtain ⟨_, _, h⟩ := h
        subst h
        simp only [freshPie, PieSpecific.key?, Option.some.injEq] at hk; subst hk; exact ht
  | splitKey s kb? =>
    obtain ⟨kb, alg, len, value, format, n, rfl, _, _, _, _, _, rfl⟩ := coreToPie_splitKey_ok h
    simp only [CoreWf, coreChecks, bind_ok'] at hwf
    obtain ⟨_, hkb, _⟩ := hwf
    obtain ⟨_, hwrap⟩ := kbChecks_ok hkb
    have ht := colsTyped_toColumns hwrap
    simp only [freshPie, PieSpecific.key?, Option.some.injEq] at hk; subst hk; exact ht
  | secretData t kb? =>
    obtain ⟨kb, t', value, n, _, _, _, _, rfl⟩ := coreToPie_secretData_ok h
    simp [freshPie, PieSpecific.key?] at hk
  | opaqueObj t v =>
    simp only [coreToPie, bind_ok'] at h
    obtain ⟨t', _, h⟩ := h
    cases v with
    | none => simp [attrErr] at h
    | some v =>
      cases t' with
      | none => simp [typeErr] at h
      | some t' => simp only [pure_ok'] at h; subst h; simp [freshPie, PieSpecific.key?] at hk

theorem key?_withAttrs (p : PieObj) (a : Attrs) : (withAttrs p a).spec.key? = p.spec.key? := by
  obtain ⟨spec, ot, value, names, ni, policy, sens, date, owner⟩ := p
  cases spec <;> rfl

theorem pieWf_withAttrs (p : PieObj) (a : Attrs) (ha : ∀ m ∈ a.masks, m ∈ maskBits)
    (hk : ∀ k, p.spec.key? = some k → colsTyped k.cols = true) : PieWf (withAttrs p a) := by
  have hk' : (match (withAttrs p a).spec.key? with | some k => colsTyped k.cols | none => true) = true := by
    rw [key?_withAttrs]
    cases hkk : p.spec.key? with
    | none => rfl
    | some k => exact hk k hkk
  have hm : a.masks.all (fun m => maskBits.contains m) = true := by
    apply List.all_eq_true.mpr
    intro m hm
    simpa using ha m hm
  obtain ⟨spec, ot, value, names, ni, policy, sens, date, owner⟩ := p
  unfold PieWf pieWf
  rw [Bool.and_eq_true]
  refine ⟨?_, hk'⟩
  cases spec <;> first | exact hm | rfl

theorem engineKb_storable (kb : CoreKeyBlock) (h : kbStorable kb) : engineKb kb = kb := by
  obtain ⟨format, compression, keyValue, alg, len, wrapping⟩ := kb
  obtain ⟨hc, hkv, ha, hl, hw⟩ := h
  simp only at hc hkv ha hl hw
  subst hc
  have h1 : keyValue.map (fun kv => { kv with attrs := 0 }) = keyValue := by
    cases keyValue with
    | none => rfl
    | some kv =>
      obtain ⟨m, n⟩ := kv
      simp only [Option.map_some, Option.getD_some] at hkv
      subst hkv; rfl
  have h2 : fromColumns (toColumns wrapping) = wrapping := by
    cases wrapping with
    | none => exact Kmip.C05.wrapping_absent
    | some w => exact Kmip.C05.wrapping_roundtrip w hw
  have h3 : (match alg with | .unset => Fld.absent | a => a) = alg := by
    cases alg <;> first | rfl | exact absurd rfl ha
  have h4 : (match len with | .unset => Fld.absent | l => l) = len := by
    cases len <;> first | rfl | exact absurd rfl hl
  simp only [engineKb, normKb, h1, h2, h3, h4]

theorem secretKb_storable (kb : CoreKeyBlock) (h : kbSecretStorable kb) : secretKb kb = kb := by
  obtain ⟨format, compression, keyValue, alg, len, wrapping⟩ := kb
  obtain ⟨hf, hc, hkv, ha, hl⟩ := h
  simp only at hf hc hkv ha hl
  subst hf hc ha hl
  have h1 : keyValue.map (fun kv => { kv with attrs := 0 }) = keyValue := by
    cases keyValue with
    | none => rfl
    | some kv =>
      obtain ⟨m, n⟩ := kv
      simp only [Option.map_some, Option.getD_some] at hkv
      subst hkv; rfl
  simp only [secretKb, h1]

theorem pieOk_objectType {p : PieObj} (h : PieOk p) : p.objectType = some p.kind.objectType := by
  unfold PieOk pieOk at h
  simp only [Bool.and_eq_true, beq_iff_eq] at h
  exact h.1



theorem normKb_storable (kb : CoreKeyBlock) (h : kbStorable kb) : normKb kb = kb := by
  obtain ⟨format, compression, keyValue, alg, len, wrapping⟩ := kb
  obtain ⟨hc, hkv, ha, hl, hw⟩ := h
  simp only at hc hkv ha hl hw
  subst hc
  have h1 : keyValue.map (fun kv => { kv with attrs := 0 }) = keyValue := by
    cases keyValue with
    | none => rfl
    | some kv =>
      obtain ⟨m, n⟩ := kv
      simp only [Option.map_some, Option.getD_some] at hkv
      subst hkv; rfl
  have h2 : fromColumns (toColumns wrapping) = wrapping := by
    cases wrapping with
    | none => exact Kmip.C05.wrapping_absent
    | some w => exact Kmip.C05.wrapping_roundtrip w hw
  have h4 : (match len with | .unset => Fld.val 0 | l => l) = len := by
    cases len <;> first | rfl | exact absurd rfl hl
  simp only [normKb, h1, h2, h4]


/-! ### what Register accepts can be stored -/
theorem chkInteger_fits {n : Int} (h : chkInteger n = .ok ()) : chk64 n = .ok () := by
  unfold chkInteger at h
  split at h
  · simp [valErr] at h
  · split at h
    · simp [valErr] at h
    · have : fits64 n = true := by simp [fits64]; omega
      simp [chk64, this]; rfl

theorem chkInteger?_fits {n : Option Int} (h : chkInteger? n = .ok ()) : chk64? n = .ok () := by
  cases n with
  | none => rfl
  | some n => exact chkInteger_fits h

theorem chkCpAt_64 {i : Nat} {v : FV} (h : chkCpAt i v = .ok ()) : chk64FV v = .ok () := by
  cases v with
  | int n =>
    unfold chkCpAt at h
    split at h
    · simp [chkEnum, typeErr] at h
    · split at h
      · simp [chkBool, typeErr] at h
      · exact chkInteger_fits h
  | _ => rfl

theorem chkCpFrom_forM {l : List FV} : ∀ {i : Nat}, chkCpFrom i l = .ok () → l.forM chk64FV = .ok () := by
  induction l with
  | nil => intro _ _; rfl
  | cons v rest ih =>
    intro i h
    obtain ⟨h1, h2⟩ := (chkCpFrom_cons i v rest).mp h
    show (do chk64FV v; rest.forM chk64FV) = Except.ok ()
    rw [chkCpAt_64 h1]; exact ih h2

theorem noneCp_forM : noneCp.forM chk64FV = .ok () := by rfl

theorem cpColumns_forM {cp : Option (List FV)} (h : match cp with | some l => chkCpFrom 0 l = .ok () | none => True) :
    (cpColumns cp).forM chk64FV = .ok () := by
  cases cp with
  | none => exact noneCp_forM
  | some l =>
    simp only [cpColumns]
    by_cases hl : l.length = 13
    · simp only [hl, if_true]; exact chkCpFrom_forM h
    · simp only [hl, if_false]; exact noneCp_forM

theorem keyInfo_forM {k : KeyInfo} (h : chkKeyInfo k = .ok ()) : (cpColumns k.cp).forM chk64FV = .ok () := by
  simp only [chkKeyInfo, bind_ok'] at h
  obtain ⟨_, _, hc⟩ := h
  apply cpColumns_forM
  cases hcp : k.cp with
  | none => trivial
  | some l => simpa [hcp] using hc

theorem toColumns_forM {w : Option WrapDict} (h : chkWrap? w = .ok ()) :
    (toColumns w).ekiCp.forM chk64FV = .ok () ∧ (toColumns w).mskiCp.forM chk64FV = .ok () := by
  cases w with
  | none => exact ⟨noneCp_forM, noneCp_forM⟩
  | some w =>
    simp only [chkWrap?, chkWrap, bind_ok'] at h
    obtain ⟨_, _, _, he, _, hs, _⟩ := h
    constructor
    · cases hw : w.eki with
      | none => simp only [toColumns, hw]; exact noneCp_forM
      | some k => simp only [toColumns, hw]; rw [hw] at he; exact keyInfo_forM he
    · cases hw : w.mski with
      | none => simp only [toColumns, hw]; exact noneCp_forM
      | some k => simp only [toColumns, hw]; rw [hw] at hs; exact keyInfo_forM hs

theorem chkKey64_of_core {kb : CoreKeyBlock} (hkb : kbChecks kb = .ok ()) {alg : Option Nat} {len : Option Int}
    {format : Option Nat} (elen : optFld len = kb.len) : chkKey64 ⟨alg, len, format, toColumns kb.wrapping⟩ = .ok () := by
  obtain ⟨hlen, hwrap⟩ := kbChecks_ok hkb
  obtain ⟨h1, h2⟩ := toColumns_forM hwrap
  have h0 : chk64? len = .ok () := by
    cases len with
    | none => rfl
    | some l => exact chkInteger_fits (hlen l elen.symm)
  simp only [chkKey64, bind_ok']
  exact ⟨(), h0, (), h1, h2⟩

theorem chkSpec64_mapCrypto (s : PieSpecific) (f : PieCrypto → PieCrypto) : chkSpec64 (s.mapCrypto f) = chkSpec64 s := by
  cases s <;> rfl

/-- the integers of an object converted from a core secret fit the database -/
theorem coreToPie_spec64 (c : CoreObj) (hwf : CoreWf c) (p : PieObj) (h : coreToPie c = .ok p) :
    chkSpec64 p.spec = .ok () := by
  cases c with
  | certificate t v =>
    simp only [coreToPie] at h
    split at h
    · simp only [pure_ok'] at h; subst h; rfl
    · simp [typeErr] at h
  | key kk kb? =>
    cases kb? with
    | none => simp [coreToPie, buildPieKey, keyBlock, attrErr, bind, Except.bind] at h
    | some kb =>
      have hkb : kbChecks kb = .ok () := hwf
      simp only [coreToPie, buildPieKey, keyBlock, bind_ok', pure_ok'] at h
      obtain ⟨_, rfl, alg, _, len, hlenv, value, _, format, _, h⟩ := h
      have elen := optFld_of_fldValue hlenv
      cases kk with
      | symmetric =>
        simp only [bind_ok'] at h
        obtain ⟨_, _, h⟩ := h
        split at h
        · simp [typeErr] at h
        · simp only [pure_ok'] at h; subst h
          exact chkKey64_of_core hkb elen
      | publicKey =>
        simp only [bind_ok', pure_ok'] at h
        obtain ⟨_, _, h⟩ := h
        subst h
        exact chkKey64_of_core hkb elen
      | privateKey =>
        simp only [bind_ok', pure_ok'] at h
        obtain ⟨_, _, h⟩ := h
        subst h
        exact chkKey64_of_core hkb elen
  | splitKey s kb? =>
    obtain ⟨kb, alg, len, value, format, n, rfl, _, elen, _, _, hprime, rfl⟩ := coreToPie_splitKey_ok h
    simp only [CoreWf, coreChecks, bind_ok'] at hwf
    obtain ⟨_, hkb, hs⟩ := hwf
    simp only [chkSplit, bind_ok'] at hs
    obtain ⟨_, h1, _, h2, h3⟩ := hs
    have hp : chk64? s.primeFieldSize = .ok () := by
      cases hpf : s.primeFieldSize with
      | none => rfl
      | some n =>
        simp only [hpf, chkPrimeFieldSize] at hprime
        split at hprime
        · rename_i hf; simp [chk64?, chk64, hf]; rfl
        · simp [valErr] at hprime
    simp only [freshPie, chkSpec64, chkSplit64, bind_ok']
    exact ⟨(), chkKey64_of_core hkb elen, (), chkInteger?_fits h1, (), chkInteger?_fits h2, (), chkInteger?_fits h3, hp⟩
  | secretData t kb? =>
    obtain ⟨kb, t', value, n, _, _, _, _, rfl⟩ := coreToPie_secretData_ok h
    rfl
  | opaqueObj t v =>
    simp only [coreToPie, bind_ok'] at h
    obtain ⟨t', _, h⟩ := h
    cases v with
    | none => simp [attrErr] at h
    | some v =>
      cases t' with
      | none => simp [typeErr] at h
      | some t' => simp only [pure_ok'] at h; subst h; rfl


end Kmip.ConvObj
