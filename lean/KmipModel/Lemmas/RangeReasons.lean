/-
Every KMIP error the engine model answers carries a Result Reason that fits an Enumeration (32 bits): the reasons
are the constants of `Rsn` or the reason the cryptography backend raised (`cryptoReq`).
-/
import KmipModel.Lemmas.RangeInv
namespace Kmip.Encode
open Kmip

/-- the reason of a KMIP error of `x`, if `x` is one, fits 32 bits -/
def RB {α : Type} (x : R α) : Prop := ∀ r m, x = .error (.kmip r m) → r < 4294967296

theorem RB.pure {α : Type} (a : α) : RB (pure a : R α) := by intro r m h; cases h
theorem RB.ok {α : Type} (a : α) : RB (.ok a : R α) := by intro r m h; cases h
theorem RB.ierr {α : Type} (s : String) : RB (ierr s : R α) := by intro r m h; cases h
theorem RB.kerr {α : Type} (rs : Nat) (msg : String) (h : rs < 4294967296) : RB (kerr rs msg : R α) := by
  intro r m hh; unfold Kmip.kerr at hh; cases hh; exact h
theorem RB.bind {α β : Type} {x : R α} {f : α → R β} (hx : RB x) (hf : ∀ a, RB (f a)) : RB (x >>= f) := by
  intro r m h
  cases x with
  | error e =>
    have h' : (Except.error e : R α) = .error (.kmip r m) := by
      have h0 : (Except.error e >>= f : R β) = Except.error e := rfl
      rw [h0] at h; cases h; rfl
    exact hx r m h'
  | ok a => exact hf a r m h
theorem RB.ite {α : Type} {c : Prop} [Decidable c] {x y : R α} (hx : RB x) (hy : RB y) : RB (if c then x else y) := by
  split <;> assumption

theorem RB.of_error {α β : Type} {x : R α} {err : Err} (hx : RB x) (h : x = .error err) : RB (.error err : R β) := by
  intro r m hh; cases hh; exact hx r m h

syntax "rb_lemmas" : tactic
macro_rules | `(tactic| rb_lemmas) => `(tactic| fail "no lemma")

/-- structural proof of `RB`: binds, conditionals, matches; constants by `decide`; registered lemmas -/
macro "rb" : tactic => `(tactic| repeat' (first
  | exact RB.pure _ | exact RB.ok _ | exact RB.ierr _ | exact RB.kerr _ _ (by decide)
  | rb_lemmas
  | assumption
  | (refine RB.bind ?_ (fun _ => ?_))
  | split
  | dsimp only))

theorem rb_isMultivalued {c : Ctx} {n : String} : RB (c.isMultivalued n) := RB.pure _
theorem rb_isModifiable {c : Ctx} {n : String} : RB (c.isModifiable n) := RB.pure _
theorem rb_isDeletable {c : Ctx} {n : String} : RB (c.isDeletable n) := RB.pure _
theorem rb_isApplicable {c : Ctx} {n : String} {t : Nat} : RB (c.isApplicable n t) := RB.pure _
theorem rb_isDeprecated {c : Ctx} {v : Nat} {n : String} : RB (c.isDeprecated v n) := by unfold Ctx.isDeprecated; rb
macro_rules | `(tactic| rb_lemmas) => `(tactic| exact rb_isMultivalued)
macro_rules | `(tactic| rb_lemmas) => `(tactic| exact rb_isModifiable)
macro_rules | `(tactic| rb_lemmas) => `(tactic| exact rb_isDeletable)
macro_rules | `(tactic| rb_lemmas) => `(tactic| exact rb_isApplicable)
macro_rules | `(tactic| rb_lemmas) => `(tactic| exact rb_isDeprecated)

theorem rb_getWithAccess {c : Ctx} {e : Engine} {u : Option String} {op : Nat} : RB (getWithAccess c e u op) := by
  unfold getWithAccess; rb
macro_rules | `(tactic| rb_lemmas) => `(tactic| exact rb_getWithAccess)

theorem rb_foldlM {α β : Type} (f : β → α → R β) (hf : ∀ b a, RB (f b a)) : ∀ (l : List α) (b : β), RB (l.foldlM f b)
  | [], b => RB.pure _
  | a :: as, b => by rw [List.foldlM_cons]; exact RB.bind (hf b a) (fun b' => rb_foldlM f hf as b')

theorem rb_mapM {α β : Type} (f : α → R β) (hf : ∀ a, RB (f a)) : ∀ (l : List α), RB (l.mapM f)
  | [] => by rw [List.mapM_nil]; exact RB.pure _
  | a :: as => by
    rw [List.mapM_cons]
    exact RB.bind (hf a) (fun b => RB.bind (rb_mapM f hf as) (fun bs => RB.pure _))

theorem rb_processTemplateStep {c : Ctx} {v : Nat} {d : AttrDict} {a : TAttr} : RB (processTemplateStep c v d a) := by
  unfold processTemplateStep; rb

theorem rb_processTemplate? {c : Ctx} {v : Nat} {t : Option Template} : RB (processTemplate? c v t) := by
  unfold processTemplate?
  split
  · exact RB.pure _
  · unfold processTemplate
    split
    · exact RB.kerr _ _ (by decide)
    · exact rb_foldlM _ (fun _ _ => rb_processTemplateStep) _ _
macro_rules | `(tactic| rb_lemmas) => `(tactic| exact rb_processTemplate?)

theorem rb_setSingle {o : Obj} {n : String} {v : AVal} : RB (setSingle o n v) := by unfold setSingle; rb
theorem rb_setMulti {o : Obj} {n : String} {vs : List AVal} : RB (setMulti o n vs) := by unfold setMulti; rb
macro_rules | `(tactic| rb_lemmas) => `(tactic| exact rb_setSingle)
macro_rules | `(tactic| rb_lemmas) => `(tactic| exact rb_setMulti)
theorem rb_setAttr {c : Ctx} {o : Obj} {n : String} {v : Collected} : RB (setAttr c o n v) := by unfold setAttr; rb
macro_rules | `(tactic| rb_lemmas) => `(tactic| exact rb_setAttr)
theorem rb_setAttrs {c : Ctx} {o : Obj} {d : AttrDict} : RB (setAttrs c o d) := by
  unfold setAttrs
  refine rb_foldlM _ (fun b kv => ?_) _ _
  rb
macro_rules | `(tactic| rb_lemmas) => `(tactic| exact rb_setAttrs)

/-! ### the cryptography backend's answer -/

theorem rb_cryptoErr {α : Type} {cr : Crypto} (hc : cryptoReq cr = true) : RB (cryptoErr cr : R α) := by
  cases cr with
  | kmipError r =>
    simp only [cryptoReq, u32, decide_eq_true_eq] at hc
    intro r' m h; simp only [cryptoErr, kerr, Except.error.injEq, Err.kmip.injEq] at h; omega
  | _ => intro r' m h; simp [cryptoErr, ierr] at h
macro_rules | `(tactic| rb_lemmas) => `(tactic| (apply rb_cryptoErr; assumption))

theorem rb_cryptoToken {cr : Crypto} (hc : cryptoReq cr = true) : RB (cryptoToken cr) := by unfold cryptoToken; rb
theorem rb_cryptoPair {cr : Crypto} (hc : cryptoReq cr = true) : RB (cryptoPair cr) := by unfold cryptoPair; rb
theorem rb_cryptoResult {u : Option String} {cr : Crypto} (hc : cryptoReq cr = true) : RB (cryptoResult u cr) := by
  unfold cryptoResult; rb
macro_rules | `(tactic| rb_lemmas) => `(tactic| (apply rb_cryptoToken; assumption))
macro_rules | `(tactic| rb_lemmas) => `(tactic| (apply rb_cryptoPair; assumption))
macro_rules | `(tactic| rb_lemmas) => `(tactic| (apply rb_cryptoResult; assumption))

/-! ### creating operations -/

theorem rb_reqAlg {d : AttrDict} {m : String} : RB (reqAlg d m) := by unfold reqAlg; rb
theorem rb_reqLen {d : AttrDict} {m : String} : RB (reqLen d m) := by unfold reqLen; rb
theorem rb_reqMask {d : AttrDict} {m : String} : RB (reqMask d m) := by unfold reqMask; rb
macro_rules | `(tactic| rb_lemmas) => `(tactic| exact rb_reqAlg)
macro_rules | `(tactic| rb_lemmas) => `(tactic| exact rb_reqLen)
macro_rules | `(tactic| rb_lemmas) => `(tactic| exact rb_reqMask)

theorem rb_opCreate {c : Ctx} {e : Engine} {ot : Nat} {t : Option Template} {cr : Crypto} (hc : cryptoReq cr = true) :
    RB (opCreate c e ot t cr) := by unfold opCreate; rb

theorem rb_requireKeyAttrs {d : AttrDict} {w : String} : RB (requireKeyAttrs d w) := by unfold requireKeyAttrs; rb
macro_rules | `(tactic| rb_lemmas) => `(tactic| exact rb_requireKeyAttrs)

theorem rb_opCreateKeyPair {c : Ctx} {e : Engine} {a b d : Option Template} {cr : Crypto} (hc : cryptoReq cr = true) :
    RB (opCreateKeyPair c e a b d cr) := by unfold opCreateKeyPair; rb

theorem rb_convertCheck {ro : RegObj} : RB (convertCheck ro) := by unfold convertCheck; rb
macro_rules | `(tactic| rb_lemmas) => `(tactic| exact rb_convertCheck)

theorem rb_opRegister {c : Ctx} {e : Engine} {ot : Nat} {t : Option Template} {o : Option RegObj} :
    RB (opRegister c e ot t o) := by unfold opRegister; rb

theorem rb_deriveBases {c : Ctx} {e : Engine} : ∀ (us : List String), RB (deriveBases c e us)
  | [] => by unfold deriveBases; rb
  | u :: us => by
    have ih := rb_deriveBases (c := c) (e := e) us
    unfold deriveBases; rb
macro_rules | `(tactic| rb_lemmas) => `(tactic| exact rb_deriveBases _)

theorem rb_deriveLen {d : AttrDict} : RB (deriveLen d) := by unfold deriveLen; rb
theorem rb_deriveAlg {ot : Nat} {d : AttrDict} : RB (deriveAlg ot d) := by unfold deriveAlg; rb
macro_rules | `(tactic| rb_lemmas) => `(tactic| exact rb_deriveLen)
macro_rules | `(tactic| rb_lemmas) => `(tactic| exact rb_deriveAlg)

theorem rb_opDeriveKey {c : Ctx} {e : Engine} {ot : Nat} {us : List String} {t : Option Template} {cr : Crypto}
    (hc : cryptoReq cr = true) : RB (opDeriveKey c e ot us t cr) := by unfold opDeriveKey; rb

/-! ### reading attributes -/

theorem rb_getAttr {o : Obj} {n : String} : RB (getAttr o n) := by
  unfold getAttr
  split
  · rename_i f hf
    simp only [getters, List.lookup] at hf
    repeat' split at hf
    all_goals first
      | (simp only [Option.some.injEq] at hf; subst hf; rb)
      | cases hf
  · exact RB.pure _
macro_rules | `(tactic| rb_lemmas) => `(tactic| exact rb_getAttr)

theorem rb_getAttrsStep {c : Ctx} {v : Nat} {o : Obj} {n : String} : RB (getAttrsStep c v o n) := by
  unfold getAttrsStep; rb

theorem rb_getAttrs {c : Ctx} {v : Nat} {o : Obj} {ns : List String} : RB (getAttrs c v o ns) := by
  unfold getAttrs
  exact RB.bind (rb_mapM _ (fun _ => rb_getAttrsStep) _) (fun _ => RB.pure _)
macro_rules | `(tactic| rb_lemmas) => `(tactic| exact rb_getAttrs)

theorem rb_attrIndex {o : Obj} {n : String} {v : AVal} : RB (attrIndex o n v) := by
  unfold attrIndex
  split
  · rename_i f hf
    simp only [indexers, List.lookup] at hf
    repeat' split at hf
    all_goals first
      | (simp only [Option.some.injEq] at hf; subst hf; rb)
      | cases hf
  · exact RB.pure _
macro_rules | `(tactic| rb_lemmas) => `(tactic| exact rb_attrIndex)

/-! ### Locate -/

theorem rb_trackDate {t : DateTrack} {v : Int} : RB (trackDate t v) := by unfold trackDate; rb
macro_rules | `(tactic| rb_lemmas) => `(tactic| exact rb_trackDate)
theorem rb_passIf {t : DateTrack} {b : Bool} : RB (passIf t b) := RB.pure _
macro_rules | `(tactic| rb_lemmas) => `(tactic| exact rb_passIf)
theorem rb_compareFilter {o : Obj} {t : DateTrack} {a : TAttr} {g : Got} : RB (compareFilter o t a g) := by
  unfold compareFilter; rb
macro_rules | `(tactic| rb_lemmas) => `(tactic| exact rb_compareFilter)
theorem rb_filterOne {c : Ctx} {o : Obj} {t : DateTrack} {a : TAttr} : RB (filterOne c o t a) := by
  unfold filterOne; rb
macro_rules | `(tactic| rb_lemmas) => `(tactic| exact rb_filterOne)
theorem rb_filterObj {c : Ctx} {o : Obj} : ∀ (as : List TAttr) (t : DateTrack), RB (filterObj c o t as)
  | [], t => by unfold filterObj; rb
  | a :: as, t => by
    have ih := fun t' => rb_filterObj (c := c) (o := o) as t'
    unfold filterObj
    refine RB.bind rb_filterOne (fun r => ?_)
    split
    · exact RB.pure _
    · exact ih _
theorem rb_matchesObj {c : Ctx} {o : Obj} {as : List TAttr} : RB (matchesObj c o as) := by
  unfold matchesObj
  refine RB.bind (rb_filterObj _ _) (fun r => ?_)
  rb
theorem rb_locateFilter {c : Ctx} {as : List TAttr} : ∀ (os : List Obj), RB (locateFilter c as os)
  | [] => by unfold locateFilter; rb
  | o :: os => by
    have ih := rb_locateFilter (c := c) (as := as) os
    unfold locateFilter
    exact RB.bind rb_matchesObj (fun _ => RB.bind ih (fun _ => RB.pure _))
theorem rb_opLocate {c : Ctx} {e : Engine} {m o : Option Int} {as : List TAttr} : RB (opLocate c e m o as) := by
  unfold opLocate
  refine RB.bind ?_ (fun _ => RB.pure _)
  unfold locateMatched
  split
  · exact RB.pure _
  · exact rb_locateFilter _

/-! ### Get and the rest -/

theorem rb_coreObject {o : Obj} {v : String} {w : Bool} {u : String} : RB (coreObject o v w u) := by
  unfold coreObject; rb
theorem rb_checkFormat {o : Obj} {f : Option Nat} : RB (checkFormat o f) := by unfold checkFormat; rb
theorem rb_getWrapKey {c : Ctx} {e : Engine} {k : String} : RB (getWrapKey c e k) := by unfold getWrapKey; rb
macro_rules | `(tactic| rb_lemmas) => `(tactic| exact rb_coreObject)
macro_rules | `(tactic| rb_lemmas) => `(tactic| exact rb_checkFormat)
macro_rules | `(tactic| rb_lemmas) => `(tactic| exact rb_getWrapKey)
theorem rb_wrapGuards {c : Ctx} {e : Engine} {o : Obj} {w : WrapSpec} {cr : Crypto} (hc : cryptoReq cr = true) :
    RB (wrapGuards c e o w cr) := by unfold wrapGuards; rb
macro_rules | `(tactic| rb_lemmas) => `(tactic| (apply rb_wrapGuards; assumption))
theorem rb_opGet {c : Ctx} {e : Engine} {u : Option String} {f : Option Nat} {cp : Bool} {w : Option WrapSpec}
    {cr : Crypto} (hc : cryptoReq cr = true) : RB (opGet c e u f cp w cr) := by unfold opGet; rb
theorem rb_opGetAttributes {c : Ctx} {e : Engine} {u : Option String} {ns : List String} :
    RB (opGetAttributes c e u ns) := by unfold opGetAttributes; rb
theorem rb_opGetAttributeList {c : Ctx} {e : Engine} {u : Option String} : RB (opGetAttributeList c e u) := by
  unfold opGetAttributeList; rb
theorem rb_opActivate {c : Ctx} {e : Engine} {u : Option String} : RB (opActivate c e u) := by unfold opActivate; rb
theorem rb_opRevoke {c : Ctx} {e : Engine} {u : Option String} {k : Option Nat} : RB (opRevoke c e u k) := by
  unfold opRevoke; rb
theorem rb_opDestroy {c : Ctx} {e : Engine} {u : Option String} : RB (opDestroy c e u) := by unfold opDestroy; rb
theorem rb_opQuery {e : Engine} {fs : List Nat} : RB (opQuery e fs) := by unfold opQuery; rb
theorem rb_opDiscoverVersions {c : Ctx} {e : Engine} {vs : List Nat} : RB (opDiscoverVersions c e vs) := by
  unfold opDiscoverVersions; rb
theorem rb_cryptoGuard {c : Ctx} {e : Engine} {u : Option String} {p : Bool} {k b : Nat} :
    RB (cryptoGuard c e u p k b) := by unfold cryptoGuard; rb
macro_rules | `(tactic| rb_lemmas) => `(tactic| exact rb_cryptoGuard)
theorem rb_opEncrypt {c : Ctx} {e : Engine} {u : Option String} {p : Bool} {cr : Crypto} (hc : cryptoReq cr = true) :
    RB (opEncrypt c e u p cr) := by unfold opEncrypt; rb
theorem rb_opDecrypt {c : Ctx} {e : Engine} {u : Option String} {p : Bool} {cr : Crypto} (hc : cryptoReq cr = true) :
    RB (opDecrypt c e u p cr) := by unfold opDecrypt; rb
theorem rb_opSign {c : Ctx} {e : Engine} {u : Option String} {p : Bool} {cr : Crypto} (hc : cryptoReq cr = true) :
    RB (opSign c e u p cr) := by unfold opSign; rb
theorem rb_opSignatureVerify {c : Ctx} {e : Engine} {u : Option String} {p : Bool} {cr : Crypto}
    (hc : cryptoReq cr = true) : RB (opSignatureVerify c e u p cr) := by unfold opSignatureVerify; rb
theorem rb_opMac {c : Ctx} {e : Engine} {u : Option String} {a : Option Nat} {d : Bool} {cr : Crypto}
    (hc : cryptoReq cr = true) : RB (opMac c e u a d cr) := by unfold opMac; rb

/-! ### attribute operations -/

theorem rb_setByIndex {o : Obj} {n : String} {v : AVal} {i : Nat} : RB (setByIndex o n v i) := by unfold setByIndex; rb
theorem rb_popAt {α : Type} {l : List α} {i : Int} : RB (popAt l i) := by unfold popAt; rb
macro_rules | `(tactic| rb_lemmas) => `(tactic| exact rb_setByIndex)
macro_rules | `(tactic| rb_lemmas) => `(tactic| exact rb_popAt)
theorem rb_delGeneric {α : Type} [BEq α] {l : List α} {v : Option α} {t : Bool} {i : Option Int} :
    RB (delGeneric l v t i) := by unfold delGeneric; rb
macro_rules | `(tactic| rb_lemmas) => `(tactic| exact rb_delGeneric)
theorem rb_delAttr {c : Ctx} {o : Obj} {n : String} {i : Option Int} {v : Option AVal} : RB (delAttr c o n i v) := by
  unfold delAttr; rb
macro_rules | `(tactic| rb_lemmas) => `(tactic| exact rb_delAttr)
theorem rb_opSetAttribute {c : Ctx} {e : Engine} {u : Option String} {a : TAttr} : RB (opSetAttribute c e u a) := by
  unfold opSetAttribute; rb
theorem rb_gotLength {g : Option Got} : RB (gotLength g) := by unfold gotLength; rb
theorem rb_nthAttr {as : List TAttr} {i : Nat} {s : String} : RB (nthAttr as i s) := by unfold nthAttr; rb
theorem rb_checkCurrent {o : Obj} {n : String} {cu : Option TAttr} : RB (checkCurrent o n cu) := by
  unfold checkCurrent; rb
  all_goals (rename_i heq; first | exact RB.of_error rb_getAttr heq | exact RB.of_error rb_attrIndex heq)
theorem rb_currentIndex {o : Obj} {n : String} {cu : Option TAttr} : RB (currentIndex o n cu) := by
  unfold currentIndex; rb
  all_goals (rename_i heq; first | exact RB.of_error rb_getAttr heq | exact RB.of_error rb_attrIndex heq)
macro_rules | `(tactic| rb_lemmas) => `(tactic| exact rb_gotLength)
macro_rules | `(tactic| rb_lemmas) => `(tactic| exact rb_nthAttr)
macro_rules | `(tactic| rb_lemmas) => `(tactic| exact rb_checkCurrent)
macro_rules | `(tactic| rb_lemmas) => `(tactic| exact rb_currentIndex)
theorem rb_modifyCore {c : Ctx} {v : Nat} {o : Obj} {a cu nw : Option TAttr} : RB (modifyCore c v o a cu nw) := by
  unfold modifyCore; rb
macro_rules | `(tactic| rb_lemmas) => `(tactic| exact rb_modifyCore)
theorem rb_opModifyAttribute {c : Ctx} {e : Engine} {u : Option String} {a cu nw : Option TAttr} :
    RB (opModifyAttribute c e u a cu nw) := by unfold opModifyAttribute; rb
theorem rb_deletedAttr {ex : List TAttr} {i : Int} : RB (deletedAttr ex i) := by unfold deletedAttr; rb
macro_rules | `(tactic| rb_lemmas) => `(tactic| exact rb_deletedAttr)
theorem rb_deleteCore {c : Ctx} {v : Nat} {o : Obj} {n : Option String} {i : Option Int} {cu : Option TAttr}
    {r : Option String} : RB (deleteCore c v o n i cu r) := by unfold deleteCore; rb
macro_rules | `(tactic| rb_lemmas) => `(tactic| exact rb_deleteCore)
theorem rb_opDeleteAttribute {c : Ctx} {e : Engine} {u : Option String} {n : Option String} {i : Option Int}
    {cu : Option TAttr} {r : Option String} : RB (opDeleteAttribute c e u n i cu r) := by unfold opDeleteAttribute; rb

/-- **Every KMIP error of an item carries a reason that fits an Enumeration.** -/
theorem processOperation_reason {c : Ctx} {e : Engine} {it : Kmip.Item} (hc : cryptoReq it.crypto = true) :
    RB (processOperation c e it) := by
  unfold processOperation
  split
  · exact RB.kerr _ _ (by decide)
  · split
    · exact RB.kerr _ _ (by decide)
    · split
      · exact rb_opCreate hc
      · exact rb_opCreateKeyPair hc
      · exact rb_opRegister
      · exact rb_opDeriveKey hc
      · exact rb_opLocate
      · exact rb_opGet hc
      · exact rb_opGetAttributes
      · exact rb_opGetAttributeList
      · exact rb_opActivate
      · exact rb_opRevoke
      · exact rb_opDestroy
      · exact rb_opQuery
      · exact rb_opDiscoverVersions
      · exact rb_opEncrypt hc
      · exact rb_opDecrypt hc
      · exact rb_opSign hc
      · exact rb_opSignatureVerify hc
      · exact rb_opMac hc
      · exact rb_opSetAttribute
      · exact rb_opModifyAttribute
      · exact rb_opDeleteAttribute
      · exact RB.kerr _ _ (by decide)

end Kmip.Encode
