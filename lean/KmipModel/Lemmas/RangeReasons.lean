/-
Every KMIP error the engine model answers carries a Result Reason that fits an Enumeration (32 bits): the reasons
are the constants of `Rsn` or the reason the cryptography backend raised (`cryptoReq`).
`RB x` is proved structurally (tactic `rb`) for every function on the way from `processOperation` down; the file is
continued in `RangeReasons2` … `RangeReasons5` (`processOperation_reason`) to keep each build short.
-/
import KmipModel.Lemmas.RangeInv
namespace Kmip.Encode
open Kmip

/-- the reason of a KMIP error of `x`, if `x` is one, fits 32 bits -/
def RB {α : Type} (x : R α) : Prop := ∀ r m, x = .error (.kmip r m) → r < 4294967296

theorem RB.pure {α : Type} (a : α) : RB (pure a : R α) := by intro r m h; cases h
theorem RB.ok {α : Type} (a : α) : RB (.ok a : R α) := by intro r m h; cases h
theorem RB.ierr {α : Type} (s : String) : RB (ierr s : R α) := by intro r m h; cases h
theorem RB.kerr {α : Type} (rs : Nat) (msg : String) (h : rs < 4294967296) : RB (kerr rs msg : R α) := by
  intro r m hh; unfold Kmip.kerr at hh; cases hh; exact h
theorem RB.bind {α β : Type} {x : R α} {f : α → R β} (hx : RB x) (hf : ∀ a, RB (f a)) : RB (x >>= f) := by
  intro r m h
  cases x with
  | error e =>
    have h' : (Except.error e : R α) = .error (.kmip r m) := by
      have h0 : (Except.error e >>= f : R β) = Except.error e := rfl
      rw [h0] at h; cases h; rfl
    exact hx r m h'
  | ok a => exact hf a r m h
theorem RB.ite {α : Type} {c : Prop} [Decidable c] {x y : R α} (hx : RB x) (hy : RB y) : RB (if c then x else y) := by
  split <;> assumption

theorem RB.of_error {α β : Type} {x : R α} {err : Err} (hx : RB x) (h : x = .error err) : RB (.error err : R β) := by
  intro r m hh; cases hh; exact hx r m h

syntax "rb_lemmas" : tactic
macro_rules | `(tactic| rb_lemmas) => `(tactic| fail "no lemma")

/-- structural proof of `RB`: binds, conditionals, matches; constants by `decide`; registered lemmas -/
macro "rb" : tactic => `(tactic| repeat' (first
  | exact RB.pure _ | exact RB.ok _ | exact RB.ierr _ | exact RB.kerr _ _ (by decide)
  | rb_lemmas
  | assumption
  | (refine RB.bind ?_ (fun _ => ?_))
  | split
  | dsimp only))

theorem rb_isMultivalued {c : Ctx} {n : String} : RB (c.isMultivalued n) := RB.pure _
theorem rb_isModifiable {c : Ctx} {n : String} : RB (c.isModifiable n) := RB.pure _
theorem rb_isDeletable {c : Ctx} {n : String} : RB (c.isDeletable n) := RB.pure _
theorem rb_isApplicable {c : Ctx} {n : String} {t : Nat} : RB (c.isApplicable n t) := RB.pure _
theorem rb_isDeprecated {c : Ctx} {v : Nat} {n : String} : RB (c.isDeprecated v n) := by unfold Ctx.isDeprecated; rb
macro_rules | `(tactic| rb_lemmas) => `(tactic| exact rb_isMultivalued)
macro_rules | `(tactic| rb_lemmas) => `(tactic| exact rb_isModifiable)
macro_rules | `(tactic| rb_lemmas) => `(tactic| exact rb_isDeletable)
macro_rules | `(tactic| rb_lemmas) => `(tactic| exact rb_isApplicable)
macro_rules | `(tactic| rb_lemmas) => `(tactic| exact rb_isDeprecated)

theorem rb_getWithAccess {c : Ctx} {e : Engine} {u : Option String} {op : Nat} : RB (getWithAccess c e u op) := by
  unfold getWithAccess; rb
macro_rules | `(tactic| rb_lemmas) => `(tactic| exact rb_getWithAccess)

theorem rb_foldlM {α β : Type} (f : β → α → R β) (hf : ∀ b a, RB (f b a)) : ∀ (l : List α) (b : β), RB (l.foldlM f b)
  | [], b => RB.pure _
  | a :: as, b => by rw [List.foldlM_cons]; exact RB.bind (hf b a) (fun b' => rb_foldlM f hf as b')

theorem rb_mapM {α β : Type} (f : α → R β) (hf : ∀ a, RB (f a)) : ∀ (l : List α), RB (l.mapM f)
  | [] => by rw [List.mapM_nil]; exact RB.pure _
  | a :: as => by
    rw [List.mapM_cons]
    exact RB.bind (hf a) (fun b => RB.bind (rb_mapM f hf as) (fun bs => RB.pure _))

theorem rb_processTemplateStep {c : Ctx} {v : Nat} {d : AttrDict} {a : TAttr} : RB (processTemplateStep c v d a) := by
  unfold processTemplateStep; rb

theorem rb_processTemplate? {c : Ctx} {v : Nat} {t : Option Template} : RB (processTemplate? c v t) := by
  unfold processTemplate?
  split
  · exact RB.pure _
  · unfold processTemplate
    split
    · exact RB.kerr _ _ (by decide)
    · exact rb_foldlM _ (fun _ _ => rb_processTemplateStep) _ _
macro_rules | `(tactic| rb_lemmas) => `(tactic| exact rb_processTemplate?)

theorem rb_setSingle {o : Obj} {n : String} {v : AVal} : RB (setSingle o n v) := by unfold setSingle; rb
theorem rb_setMulti {o : Obj} {n : String} {vs : List AVal} : RB (setMulti o n vs) := by unfold setMulti; rb
macro_rules | `(tactic| rb_lemmas) => `(tactic| exact rb_setSingle)
macro_rules | `(tactic| rb_lemmas) => `(tactic| exact rb_setMulti)
theorem rb_setAttr {c : Ctx} {o : Obj} {n : String} {v : Collected} : RB (setAttr c o n v) := by unfold setAttr; rb
macro_rules | `(tactic| rb_lemmas) => `(tactic| exact rb_setAttr)
theorem rb_setAttrs {c : Ctx} {o : Obj} {d : AttrDict} : RB (setAttrs c o d) := by
  unfold setAttrs
  refine rb_foldlM _ (fun b kv => ?_) _ _
  rb
macro_rules | `(tactic| rb_lemmas) => `(tactic| exact rb_setAttrs)

/-! ### the cryptography backend's answer -/

theorem rb_cryptoErr {α : Type} {cr : Crypto} (hc : cryptoReq cr = true) : RB (cryptoErr cr : R α) := by
  cases cr with
  | kmipError r =>
    simp only [cryptoReq, u32, decide_eq_true_eq] at hc
    intro r' m h; simp only [cryptoErr, kerr, Except.error.injEq, Err.kmip.injEq] at h; omega
  | _ => intro r' m h; simp [cryptoErr, ierr] at h
macro_rules | `(tactic| rb_lemmas) => `(tactic| (apply rb_cryptoErr; assumption))

theorem rb_cryptoToken {cr : Crypto} (hc : cryptoReq cr = true) : RB (cryptoToken cr) := by unfold cryptoToken; rb
theorem rb_cryptoPair {cr : Crypto} (hc : cryptoReq cr = true) : RB (cryptoPair cr) := by unfold cryptoPair; rb
theorem rb_cryptoResult {u : Option String} {cr : Crypto} (hc : cryptoReq cr = true) : RB (cryptoResult u cr) := by
  unfold cryptoResult; rb
macro_rules | `(tactic| rb_lemmas) => `(tactic| (apply rb_cryptoToken; assumption))
macro_rules | `(tactic| rb_lemmas) => `(tactic| (apply rb_cryptoPair; assumption))
macro_rules | `(tactic| rb_lemmas) => `(tactic| (apply rb_cryptoResult; assumption))

/-! ### creating operations -/

theorem rb_reqAlg {d : AttrDict} {m : String} : RB (reqAlg d m) := by unfold reqAlg; rb
theorem rb_reqLen {d : AttrDict} {m : String} : RB (reqLen d m) := by unfold reqLen; rb
theorem rb_reqMask {d : AttrDict} {m : String} : RB (reqMask d m) := by unfold reqMask; rb
macro_rules | `(tactic| rb_lemmas) => `(tactic| exact rb_reqAlg)
macro_rules | `(tactic| rb_lemmas) => `(tactic| exact rb_reqLen)
macro_rules | `(tactic| rb_lemmas) => `(tactic| exact rb_reqMask)

theorem rb_opCreate {c : Ctx} {e : Engine} {ot : Nat} {t : Option Template} {cr : Crypto} (hc : cryptoReq cr = true) :
    RB (opCreate c e ot t cr) := by unfold opCreate; rb

theorem rb_requireKeyAttrs {d : AttrDict} {w : String} : RB (requireKeyAttrs d w) := by unfold requireKeyAttrs; rb
macro_rules | `(tactic| rb_lemmas) => `(tactic| exact rb_requireKeyAttrs)

theorem rb_opCreateKeyPair {c : Ctx} {e : Engine} {a b d : Option Template} {cr : Crypto} (hc : cryptoReq cr = true) :
    RB (opCreateKeyPair c e a b d cr) := by unfold opCreateKeyPair; rb

theorem rb_convertCheck {ro : RegObj} : RB (convertCheck ro) := by unfold convertCheck; rb
macro_rules | `(tactic| rb_lemmas) => `(tactic| exact rb_convertCheck)

theorem rb_opRegister {c : Ctx} {e : Engine} {ot : Nat} {t : Option Template} {o : Option RegObj} :
    RB (opRegister c e ot t o) := by unfold opRegister; rb

theorem rb_deriveBases {c : Ctx} {e : Engine} : ∀ (us : List String), RB (deriveBases c e us)
  | [] => by unfold deriveBases; rb
  | u :: us => by
    have ih := rb_deriveBases (c := c) (e := e) us
    unfold deriveBases; rb
macro_rules | `(tactic| rb_lemmas) => `(tactic| exact rb_deriveBases _)

theorem rb_deriveLen {d : AttrDict} : RB (deriveLen d) := by unfold deriveLen; rb
theorem rb_deriveAlg {ot : Nat} {d : AttrDict} : RB (deriveAlg ot d) := by unfold deriveAlg; rb
macro_rules | `(tactic| rb_lemmas) => `(tactic| exact rb_deriveLen)
macro_rules | `(tactic| rb_lemmas) => `(tactic| exact rb_deriveAlg)

theorem rb_opDeriveKey {c : Ctx} {e : Engine} {ot : Nat} {us : List String} {t : Option Template} {cr : Crypto}
    (hc : cryptoReq cr = true) : RB (opDeriveKey c e ot us t cr) := by unfold opDeriveKey; rb


end Kmip.Encode
