/-
The simp set `kmip_tags` (the tag constants of `KmipModel/DecodeTables.lean`, unfolded to their numbers when the
readers of M14 are evaluated on the trees of M16) — a simp attribute has to be registered in a file of its own.
-/
import Lean.Meta.Tactic.Simp.RegisterCommand
register_simp_attr kmip_tags
