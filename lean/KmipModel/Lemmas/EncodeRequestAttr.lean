/-
Simp sets used when the readers of M14 are evaluated on the trees of M16 (a simp attribute has to be registered
in a file of its own):
  kmip_tags   the tag constants of `KmipModel/DecodeTables.lean`, unfolded to their numbers
  rd_eval     the reader monad's combinators and the leaf lemmas
-/
import Lean.Meta.Tactic.Simp.RegisterCommand
register_simp_attr kmip_tags
register_simp_attr rd_eval
