/-
Validity of the trees of M16 (`KmipModel/EncodeRequest.lean`), DERIVED from the encoder's domain `okRequest` and one
bound on the length of the frame: every leaf is within the range of its primitive, every tag is a KMIP tag, every
text is well-formed UTF-8 (`prims_of_okRequest`), and a tree of such leaves whose encoding is shorter than 2^32 bytes
is a valid M1 item (`valid_of_prims`).  Helper lemmas for Props/C19Encode.lean.
-/
import KmipModel.Lemmas.EncodeRequestPayloads
set_option linter.unusedSimpArgs false
namespace Kmip.EncodeRequest
open Kmip Kmip.TTLV Kmip.Decode
/-! ### validity of a tree from its leaves and one length bound -/

/-- a primitive value within its range (text: well-formed UTF-8); no condition on the length of strings -/
def pvalOk : PVal → Bool
  | .integer v => decide (fitsTC 4 v)
  | .longInteger v => decide (fitsTC 8 v)
  | .bigInteger v len => decide (len % 8 = 0 ∧ 0 < len ∧ fitsTC len v)
  | .enumeration v => decide (v < 256 ^ 4)
  | .boolean _ => true
  | .textString s => Prim.validUtf8 s
  | .byteString _ => true
  | .dateTime v => decide (fitsTC 8 v)
  | .interval v => decide (v < 256 ^ 4)

mutual
def primsOkB : TItem → Bool
  | .prim t v => tagOk t && pvalOk v
  | .struct t ks => tagOk t && primsOkListB ks
def primsOkListB : List TItem → Bool
  | [] => true
  | i :: is => primsOkB i && primsOkListB is
end

theorem valBytes_le_encode (t : Nat) (v : PVal) : v.valBytes.length ≤ (encode (.prim t v)).length := by
  simp only [encode, List.length_append]; omega

mutual
theorem valid_of_prims : ∀ (i : TItem), primsOkB i = true → (encode i).length < 256 ^ 4 → i.Valid ∧ textOkB i = true
  | .prim t v, h, hl => by
    simp only [primsOkB, Bool.and_eq_true] at h
    have hle := valBytes_le_encode t v
    refine ⟨?_, ?_⟩
    · simp only [Item.Valid]
      refine ⟨h.1, ?_⟩
      cases v <;> simp only [pvalOk, decide_eq_true_eq] at h <;> simp only [PVal.Valid, PVal.valBytes, be_length] at hle ⊢
      all_goals first | exact h.2 | trivial | omega | skip
      · exact ⟨h.2.1, h.2.2.1, by omega, h.2.2.2⟩
    · cases v <;> first | rfl | (simpa only [textOkB, pvalOk] using h.2)
  | .struct t ks, h, hl => by
    simp only [primsOkB, Bool.and_eq_true] at h
    have hlen : (encodeList ks).length < 256 ^ 4 := by
      simp only [encode, List.length_append] at hl; omega
    have := valid_of_prims_list ks h.2 hlen
    exact ⟨by simp only [Item.Valid]; exact ⟨h.1, this.1, hlen⟩, by simp only [textOkB]; exact this.2⟩
theorem valid_of_prims_list : ∀ (ks : List TItem), primsOkListB ks = true → (encodeList ks).length < 256 ^ 4 →
    validList ks ∧ textOkListB ks = true
  | [], _, _ => ⟨by simp only [validList], rfl⟩
  | i :: is, h, hl => by
    simp only [primsOkListB, Bool.and_eq_true] at h
    simp only [encodeList, List.length_append] at hl
    have h1 := valid_of_prims i h.1 (by omega)
    have h2 := valid_of_prims_list is h.2 (by omega)
    exact ⟨by simp only [validList]; exact ⟨h1.1, h2.1⟩, by simp only [textOkListB, h1.2, h2.2, Bool.and_self]⟩
end


/-! ### the leaves and lists of M16's trees -/

theorem primsOkListB_append (a b : List TItem) : primsOkListB (a ++ b) = (primsOkListB a && primsOkListB b) := by
  induction a with
  | nil => simp only [List.nil_append, primsOkListB, Bool.true_and]
  | cons i is ih => simp only [List.cons_append, primsOkListB, ih, Bool.and_assoc]

theorem primsOkListB_map {α} (f : α → TItem) (l : List α) (h : ∀ a ∈ l, primsOkB (f a) = true) :
    primsOkListB (l.map f) = true := by
  induction l with
  | nil => rfl
  | cons a as ih =>
    simp only [List.map_cons, primsOkListB, h a List.mem_cons_self, ih (fun x hx => h x (List.mem_cons_of_mem _ hx)),
      Bool.and_self]

theorem primsOkListB_replicate (x : TItem) (n : Nat) (h : primsOkB x = true) : primsOkListB (List.replicate n x) = true := by
  induction n with
  | zero => rfl
  | succ n ih => simp only [List.replicate_succ, primsOkListB, h, ih, Bool.and_self]

theorem primsOkListB_optL {α} (o : Option α) (f : α → TItem) (h : ∀ a, o = some a → primsOkB (f a) = true) :
    primsOkListB (optL o f) = true := by
  cases o with
  | none => rfl
  | some a => simp only [optL, primsOkListB, h a rfl, Bool.and_self]

theorem primsOkListB_ifL (b : Bool) (i : TItem) (h : primsOkB i = true) : primsOkListB (ifL b i) = true := by
  cases b <;> simp only [ifL, primsOkListB, h, Bool.and_self, Bool.false_eq_true, ↓reduceIte]

theorem primsOkB_txt (t : Nat) (s : String) (ht : tagOk t = true) (h : okText s = true) : primsOkB (txt t s) = true := by
  simp only [txt, primsOkB, pvalOk, ht, validUtf8_asciiBytes s h, Bool.and_self]
theorem primsOkB_enm (t n : Nat) (ht : tagOk t = true) (h : n < 4294967296) : primsOkB (enm t n) = true := by
  have h' : n < 256 ^ 4 := h
  simp only [enm, primsOkB, pvalOk, ht, h', decide_true, Bool.and_self]
theorem primsOkB_int (t : Nat) (n : Int) (ht : tagOk t = true) (h : okInt n = true) : primsOkB (int t n) = true := by
  simp only [okInt] at h
  simp only [int, primsOkB, pvalOk, ht, h, Bool.and_self]
theorem primsOkB_byt (t : Nat) (b : Bytes) (ht : tagOk t = true) : primsOkB (byt t b) = true := by
  simp only [byt, primsOkB, pvalOk, ht, Bool.and_self]
theorem primsOkB_boo (t : Nat) (b : Bool) (ht : tagOk t = true) : primsOkB (boo t b) = true := by
  simp only [boo, primsOkB, pvalOk, ht, Bool.and_self]
theorem primsOkB_dat (t : Nat) (n : Int) (ht : tagOk t = true) (h : okDate n = true) : primsOkB (dat t n) = true := by
  simp only [okDate] at h
  simp only [dat, primsOkB, pvalOk, ht, h, Bool.and_self]
theorem primsOkB_struct (t : Nat) (ks : List TItem) (ht : tagOk t = true) (h : primsOkListB ks = true) :
    primsOkB (.struct t ks) = true := by
  simp only [primsOkB, ht, h, Bool.and_self]

/-- the members of an enumeration class fit the 32-bit Enumeration -/
theorem contains_lt (ms : List Nat) (n : Nat) (hms : ms.all (fun m => decide (m < 4294967296)) = true)
    (h : ms.contains n = true) : n < 4294967296 := by
  have := List.all_eq_true.mp hms n (List.contains_iff_mem.mp h)
  simpa only [decide_eq_true_eq] using this

theorem isAscii_tmpl (i : Nat) : okText ("tmpl" ++ toString i) = true := by
  show isAscii ("tmpl" ++ Nat.repr i) = true
  simp only [isAscii, String.toList_append, Nat.repr, String.toList_ofList, List.all_append, Bool.and_eq_true]
  refine ⟨by decide, ?_⟩
  apply List.all_eq_true.mpr
  intro c hc
  have := Nat.isDigit_of_mem_toDigits (by decide) (by decide) hc
  simp only [Char.isDigit, Bool.and_eq_true, decide_eq_true_eq] at this
  have h2 := this.2
  simp only [decide_eq_true_eq]
  have : c.val.toNat ≤ 57 := by exact UInt32.le_iff_toNat_le.mp h2
  exact Nat.lt_of_le_of_lt this (by decide)

theorem primsOkB_struct_eq (t : Nat) (ks : List TItem) (ht : tagOk t = true) :
    primsOkB (.struct t ks) = primsOkListB ks := by
  simp only [primsOkB, ht, Bool.true_and]

/-- (stated as a lemma: the kernel must not be asked to compare `okOpt okLen (some n)` with `okLen n` by
unfolding — it unfolds the wrong side into the decision procedure of `fitsTC`) -/
theorem okOpt_some {α} (f : α → Bool) (a : α) (h : okOpt f (some a) = true) : f a = true := h

theorem okOpt_of {α} (f : α → Bool) (a : α) (h : f a = true) : okOpt f (some a) = true := h

theorem primsOkB_len (t n : Nat) (ht : tagOk t = true) (h : okLen n = true) : primsOkB (int t (Int.ofNat n)) = true :=
  primsOkB_int t _ ht h

theorem okInt_small (n : Nat) (h : n < 10) : okInt (Int.ofNat n) = true := by
  unfold okInt
  rw [decide_eq_true_eq]
  simp only [fitsTC, Int.ofNat_eq_natCast, Nat.reducePow]
  omega

/-- evaluate `primsOkB` / `primsOkListB` on a tree built from M16's leaves; side conditions from the context -/
macro "vs" : tactic =>
  `(tactic| simp (disch := first | assumption | decide) only [primsOkB_struct_eq, primsOkListB, primsOkListB_append,
      primsOkB_txt, primsOkB_enm, primsOkB_int, primsOkB_byt, primsOkB_boo, primsOkB_dat, kmip_tags, decide_true,
      decide_false, Bool.and_self, Bool.and_true, Bool.true_and, Bool.or_true, Bool.true_or, Bool.or_false,
      Bool.false_or, Bool.and_false, optL, ifL, okOpt, List.nil_append, List.cons_append, List.append_nil, ↓reduceIte,
      Option.getD_some, Bool.false_eq_true, *])

/-! ### every encoder of M16 produces such leaves on its domain -/

theorem lt_objectType : E.objectType.all (fun m => decide (m < 4294967296)) = true := by decide
theorem lt_keyFormatType : E.keyFormatType.all (fun m => decide (m < 4294967296)) = true := by decide
theorem lt_cryptographicAlgorithm : E.cryptographicAlgorithm.all (fun m => decide (m < 4294967296)) = true := by decide
theorem lt_certificateType : E.certificateType.all (fun m => decide (m < 4294967296)) = true := by decide
theorem lt_secretDataType : E.secretDataType.all (fun m => decide (m < 4294967296)) = true := by decide
theorem lt_opaqueDataType : E.opaqueDataType.all (fun m => decide (m < 4294967296)) = true := by decide
theorem lt_wrappingMethod : E.wrappingMethod.all (fun m => decide (m < 4294967296)) = true := by decide
theorem lt_encodingOption : E.encodingOption.all (fun m => decide (m < 4294967296)) = true := by decide
theorem lt_revocationReasonCode : E.revocationReasonCode.all (fun m => decide (m < 4294967296)) = true := by decide
theorem lt_queryFunction : E.queryFunction.all (fun m => decide (m < 4294967296)) = true := by decide
theorem lt_batchOption : E.batchErrorContinuationOption.all (fun m => decide (m < 4294967296)) = true := by decide
theorem lt_nameType : E.nameType.all (fun m => decide (m < 4294967296)) = true := by decide
theorem lt_operation : E.operation.all (fun m => decide (m < 4294967296)) = true := by decide
theorem lt_allTags : allTags.all (fun m => decide (m < 4294967296)) = true := by decide +kernel
theorem allTags_tagOk : allTags.all tagOk = true := by decide +kernel

theorem prims_encValue (tag : Nat) (name : String) (spec : VSpec) (v : AVal) (ht : tagOk tag = true)
    (h : okValue name spec v = true) : primsOkB (encValue tag name spec v) = true := by
  cases spec <;> cases v <;> first | exact absurd h Bool.false_ne_true | skip
  case text.text s => exact primsOkB_txt _ _ ht h
  case int.int n => exact primsOkB_int _ _ ht h
  case interval.int n =>
    simp only [okValue, Bool.and_eq_true, decide_eq_true_eq] at h
    have : n.toNat < 256 ^ 4 := by have := h.1; omega
    simp only [encValue, primsOkB, pvalOk, ht, this, decide_true, Bool.and_self]
  case bool.bool b => exact primsOkB_boo _ _ ht
  case date.date n => exact primsOkB_dat _ _ ht h
  case enum.enum ms n =>
    simp only [okValue, Bool.and_eq_true, decide_eq_true_eq] at h
    exact primsOkB_enm _ _ ht h.2
  case name.name s t =>
    simp only [okValue, Bool.and_eq_true] at h
    have h2 := contains_lt _ _ lt_nameType h.2
    have h1 := h.1
    simp only [encValue]; vs
  case appInfo.appInfo ns d =>
    simp only [okValue, Bool.and_eq_true] at h
    have h1 := h.1; have h2 := h.2
    simp only [encValue]; vs
  case cryptoParams.other => simp only [encValue]; vs
  case digest.other => simp only [encValue]; vs

theorem prims_encAttr1x (a : TAttr) (h : okAttr1x a = true) : primsOkB (encAttr1x a) = true := by
  obtain ⟨name, index, value⟩ := a
  simp only [okAttr1x, Bool.and_eq_true] at h
  obtain ⟨⟨hn, hi⟩, hs⟩ := h
  cases hsp : specOf name with
  | none => simp only [hsp] at hs; exact absurd hs Bool.false_ne_true
  | some sp =>
    simp only [hsp] at hs
    have hv := prims_encValue T.attributeValue name sp value (by decide) hs
    simp only [kmip_tags] at hv
    cases index with
    | none => simp only [encAttr1x, hsp]; vs
    | some i =>
      have hi' := primsOkB_int T.attributeIndex i (by decide) (okOpt_some _ _ hi)
      simp only [kmip_tags] at hi'
      simp only [encAttr1x, hsp]; vs

theorem prims_encAttr20 (a : TAttr) (h : okAttr20 a = true) : primsOkB (encAttr20 a) = true := by
  obtain ⟨name, index, value⟩ := a
  simp only [okAttr20] at h
  cases ht : tagOfName name with
  | none => simp only [ht] at h; exact absurd h Bool.false_ne_true
  | some t =>
    cases hsp : specOf name with
    | none => simp only [ht, hsp] at h; exact absurd h Bool.false_ne_true
    | some sp =>
      simp only [ht, hsp, Bool.and_eq_true] at h
      have htag : tagOk t = true :=
        List.all_eq_true.mp allTags_tagOk t (List.contains_iff_mem.mp (nameOfTag_tagOfName name t ht).1)
      simp only [encAttr20, ht, hsp, Option.getD_some]
      exact prims_encValue t name sp value htag h.2

theorem prims_encTemplateName (i : Nat) : primsOkB (encTemplateName i) = true := by
  have := isAscii_tmpl i
  simp only [encTemplateName]; vs

theorem prims_encTemplate (v t1 t2 : Nat) (t : Template) (h1 : tagOk t1 = true) (h2 : tagOk t2 = true)
    (h : okTemplate v t = true) : primsOkB (encTemplate v t1 t2 t) = true := by
  unfold okTemplate at h
  unfold encTemplate
  by_cases hv : v < 20
  · simp only [hv, ↓reduceIte] at h ⊢
    have hall := List.all_eq_true.mp h
    have a1 := primsOkListB_map encTemplateName (List.range t.templateNames) (fun i _ => prims_encTemplateName i)
    have a2 := primsOkListB_map encAttr1x t.attrs (fun a ha => prims_encAttr1x a (hall a ha))
    simp only [encTemplate1x]; vs
  · simp only [hv, ↓reduceIte] at h ⊢
    have hall := List.all_eq_true.mp h
    have a2 := primsOkListB_map encAttr20 t.attrs (fun a ha => prims_encAttr20 a (hall a ha))
    simp only [encAttributes20]; vs

theorem prims_encSomeParams : primsOkB encSomeParams = true := by
  simp only [encSomeParams]; vs

theorem prims_encKeyBlock (fmt : Nat) (b : Bytes) (alg len : Option Nat) (hf : E.keyFormatType.contains fmt = true)
    (ha : okOpt E.cryptographicAlgorithm.contains alg = true) (hl : okOpt okLen len = true) :
    primsOkB (encKeyBlock fmt b alg len) = true := by
  have h1 := contains_lt _ _ lt_keyFormatType hf
  cases alg with
  | none =>
    cases len with
    | none => simp only [encKeyBlock]; vs
    | some l =>
      have hl' := primsOkB_len T.cryptographicLength l (by decide) (okOpt_some _ _ hl)
      simp only [kmip_tags] at hl'
      simp only [encKeyBlock]; vs
  | some a =>
    have h2 := contains_lt _ _ lt_cryptographicAlgorithm (okOpt_some _ _ ha)
    cases len with
    | none => simp only [encKeyBlock]; vs
    | some l =>
      have hl' := primsOkB_len T.cryptographicLength l (by decide) (okOpt_some _ _ hl)
      simp only [kmip_tags] at hl'
      simp only [encKeyBlock]; vs

theorem prims_encSecret (o : RegObj) (h : okSecret o = true) : primsOkB (encSecret o) = true := by
  obtain ⟨otype, value, alg, len, format, subtype⟩ := o
  simp only [okSecret, Bool.and_eq_true] at h
  obtain ⟨hx, h⟩ := h
  by_cases h1 : otype = 1
  · subst h1
    simp only [↓reduceIte] at h
    cases subtype <;> simp only [Bool.false_eq_true] at h
    have := contains_lt _ _ lt_certificateType h
    simp only [encSecret]; vs
  · by_cases h2 : otype = 2 ∨ otype = 3 ∨ otype = 4
    · simp only [h1, h2, ↓reduceIte, Bool.and_eq_true] at h
      obtain ⟨⟨hf, ha⟩, hl⟩ := h
      cases format <;> simp only [Bool.false_eq_true] at hf
      have hk := prims_encKeyBlock _ (unhex value) alg len hf ha hl
      simp only [encSecret, h1, h2, ↓reduceIte, Option.getD_some]
      rcases h2 with rfl | rfl | rfl <;> simp only [Nat.reduceEqDiff, ↓reduceIte] <;> vs
    · by_cases h5 : otype = 5
      · subst h5
        simp only [h2, ↓reduceIte, Nat.reduceEqDiff, or_self] at h
        cases format with
        | none => exact absurd h Bool.false_ne_true
        | some f =>
          cases alg with
          | none => exact absurd h Bool.false_ne_true
          | some a =>
            cases len with
            | none => exact absurd h Bool.false_ne_true
            | some l =>
              have h' : (E.keyFormatType.contains f && E.cryptographicAlgorithm.contains a && okLen l) = true := h
              rw [Bool.and_eq_true, Bool.and_eq_true] at h'
              have hk := prims_encKeyBlock f (unhex value) (some a) (some l) h'.1.1 (okOpt_of _ _ h'.1.2)
                (okOpt_of _ _ h'.2)
              simp only [encSecret, ↓reduceIte, Nat.reduceEqDiff, or_self, Option.getD_some]; vs
      · by_cases h7 : otype = 7
        · subst h7
          simp only [h2, ↓reduceIte, Nat.reduceEqDiff, or_self] at h
          cases subtype <;> simp only [Bool.false_eq_true] at h
          have := contains_lt _ _ lt_secretDataType h
          have hk := prims_encKeyBlock 2 (unhex value) none none (by decide) rfl rfl
          simp only [encSecret, ↓reduceIte, Nat.reduceEqDiff, or_self, Option.getD_some]; vs
        · by_cases h8 : otype = 8
          · subst h8
            simp only [h2, ↓reduceIte, Nat.reduceEqDiff, or_self] at h
            cases subtype <;> simp only [Bool.false_eq_true] at h
            have := contains_lt _ _ lt_opaqueDataType h
            simp only [encSecret, ↓reduceIte, Nat.reduceEqDiff, or_self, Option.getD_some]; vs
          · simp only [h1, h2, h5, h7, h8, ↓reduceIte] at h
            exact absurd h Bool.false_ne_true

theorem prims_encWrap (w : WrapSpec) (h : okWrap w = true) : primsOkB (encWrap w) = true := by
  obtain ⟨m, eu, ep, mk, n, eo⟩ := w
  simp only [okWrap, Bool.and_eq_true] at h
  obtain ⟨⟨hm, hu⟩, ho⟩ := h
  have h1 := contains_lt _ _ lt_wrappingMethod hm
  have hn := primsOkListB_replicate (txt T.attributeName "Name") n (primsOkB_txt _ _ (by decide) (by decide))
  have h1' : okText "1" = true := by decide
  simp only [kmip_tags] at hn
  cases eu <;> cases ep <;> cases mk <;> cases eo <;> simp only [okOpt] at hu ho <;>
    (try have h2 := contains_lt _ _ lt_encodingOption ho) <;> simp only [encWrap] <;> vs

theorem prims_encVersion (v : Nat) (h : okInt (Int.ofNat (v / 10)) = true) : primsOkB (encVersion v) = true := by
  have h2 : okInt (Int.ofNat (v % 10)) = true := okInt_small _ (by omega)
  simp only [encVersion]; vs

theorem prims_encHolder (tag : Nat) (a : TAttr) (ht : tagOk tag = true) (h : okAttr20 a = true) :
    primsOkB (encHolder tag a) = true := by
  have := prims_encAttr20 a h
  simp only [encHolder]; vs

theorem prims_uidL (u : Option String) (h : okOpt okText u = true) : primsOkListB (uidL u) = true := by
  cases u with
  | none => rfl
  | some s => have := okOpt_some _ _ h; simp only [uidL]; vs

theorem prims_optTemplate (v t1 t2 : Nat) (o : Option Template) (h1 : tagOk t1 = true) (h2 : tagOk t2 = true)
    (h : okTemplateO v o = true) : primsOkListB (optL o (encTemplate v t1 t2)) = true := by
  cases o with
  | none => rfl
  | some t =>
    have := prims_encTemplate v t1 t2 t h1 h2 h
    simp only [optL, primsOkListB, this, Bool.and_self]

theorem prims_optInt (t : Nat) (o : Option Int) (ht : tagOk t = true) (h : okOpt okInt o = true) :
    primsOkListB (optL o (int t)) = true := by
  cases o with
  | none => rfl
  | some n => simp only [optL, primsOkListB, primsOkB_int t n ht (okOpt_some _ _ h), Bool.and_self]

theorem prims_optHolder (t : Nat) (o : Option TAttr) (ht : tagOk t = true) (h : okOpt okAttr20 o = true) :
    primsOkListB (optL o (encHolder t)) = true := by
  cases o with
  | none => rfl
  | some a => simp only [optL, primsOkListB, prims_encHolder t a ht (okOpt_some _ _ h), Bool.and_self]

theorem prims_encPayload (v : Nat) (p : Payload) (h : okPayload v p = true) : primsOkListB (encPayload v p) = true := by
  cases p with
  | create ot t =>
    simp only [okPayload, Bool.and_eq_true] at h
    have h1 := contains_lt _ _ lt_objectType h.1.1
    have h2 := prims_optTemplate v T.templateAttribute T.attributes_ t (by decide) (by decide) h.2
    simp only [kmip_tags, optL, uidL] at *; simp only [encPayload, uidL]; vs
  | createKeyPair c pr pu =>
    simp only [okPayload, Bool.and_eq_true] at h
    have h1 := prims_optTemplate v T.commonTemplateAttribute T.commonAttributes c (by decide) (by decide) h.1.1
    have h2 := prims_optTemplate v T.privateKeyTemplateAttribute T.privateKeyAttributes pr (by decide) (by decide) h.1.2
    have h3 := prims_optTemplate v T.publicKeyTemplateAttribute T.publicKeyAttributes pu (by decide) (by decide) h.2
    simp only [kmip_tags, optL, uidL] at *; simp only [encPayload, uidL]; vs
  | register ot t o =>
    simp only [okPayload, Bool.and_eq_true] at h
    obtain ⟨⟨⟨ho, hs⟩, ht⟩, hob⟩ := h
    have h1 := contains_lt _ _ lt_objectType ho
    have h2 := prims_optTemplate v T.templateAttribute T.attributes_ t (by decide) (by decide) ht
    cases o with
    | none => exact absurd hob Bool.false_ne_true
    | some o =>
      simp only [Bool.and_eq_true] at hob
      have h3 := prims_encSecret o hob.2
      simp only [kmip_tags, optL, uidL] at *; simp only [encPayload, uidL]; vs
  | deriveKey ot us t dd dl =>
    simp only [okPayload, Bool.and_eq_true] at h
    obtain ⟨⟨⟨⟨ho, hne⟩, hus⟩, hs⟩, ht⟩ := h
    have h1 := contains_lt _ _ lt_objectType ho
    have h2 := prims_optTemplate v T.templateAttribute T.attributes_ t (by decide) (by decide) ht
    have hall := List.all_eq_true.mp hus
    have h3 := primsOkListB_map (txt T.uniqueIdentifier) us (fun a ha => primsOkB_txt _ _ (by decide) (hall a ha))
    have h4 := prims_encSomeParams
    cases dd <;> simp only [kmip_tags, optL, uidL] at * <;> simp only [encPayload, uidL] <;> vs
  | locate mx off as =>
    simp only [okPayload, Bool.and_eq_true] at h
    obtain ⟨⟨hm, ho⟩, ha⟩ := h
    have h1 := prims_optInt T.maximumItems mx (by decide) hm
    have h2 := prims_optInt T.offsetItems off (by decide) ho
    by_cases hv : v < 20
    · simp only [hv, ↓reduceIte] at ha
      have hall := List.all_eq_true.mp ha
      have h3 := primsOkListB_map encAttr1x as (fun a h => prims_encAttr1x a (hall a h))
      simp only [kmip_tags, optL, uidL] at *; simp only [encPayload, uidL, hv, ↓reduceIte]; vs
    · simp only [hv, ↓reduceIte] at ha
      have hall := List.all_eq_true.mp ha
      have h3 := primsOkListB_map encAttr20 as (fun a h => prims_encAttr20 a (hall a h))
      simp only [kmip_tags, optL, uidL] at *
      cases as <;> simp only [encPayload, uidL, hv, ↓reduceIte, encAttributes20, List.isEmpty_nil, List.isEmpty_cons] <;> vs
  | get u f c w =>
    simp only [okPayload, Bool.and_eq_true] at h
    obtain ⟨⟨hu, hf⟩, hw⟩ := h
    have h1 := prims_uidL u hu
    cases f <;> cases c <;> cases w <;> simp only [okOpt] at hf hw <;>
      (try have h2 := contains_lt _ _ lt_keyFormatType hf) <;> (try have h3 := prims_encWrap _ hw) <;>
      simp only [kmip_tags, optL, uidL] at * <;> simp only [encPayload, uidL] <;> vs
  | getAttributes u ns =>
    simp only [okPayload, Bool.and_eq_true, Bool.or_eq_true, decide_eq_true_eq] at h
    obtain ⟨⟨hu, hn⟩, ht⟩ := h
    have h1 := prims_uidL u hu
    have hall := List.all_eq_true.mp hn
    by_cases hv : v < 20
    · have h2 := primsOkListB_map (txt T.attributeName) ns.eraseDups (fun a ha => primsOkB_txt _ _ (by decide) (hall a ha))
      simp only [kmip_tags, optL, uidL] at *; simp only [encPayload, uidL, hv, ↓reduceIte]; vs
    · have hall2 := List.all_eq_true.mp (ht.resolve_left hv)
      have h2 := primsOkListB_map (fun n => enm T.attributeReference ((tagOfName n).getD 0)) ns.eraseDups
        (fun a ha => by
          have := hall2 a ha
          cases htn : tagOfName a with
          | none => simp only [htn, Option.isSome_none] at this; exact absurd this Bool.false_ne_true
          | some t =>
            exact primsOkB_enm _ _ (by decide) (contains_lt _ _ lt_allTags (nameOfTag_tagOfName a t htn).1))
      simp only [kmip_tags, optL, uidL] at *; simp only [encPayload, uidL, hv, ↓reduceIte]; vs
  | getAttributeList u => simp only [okPayload] at h; exact prims_uidL u h
  | activate u => simp only [okPayload] at h; exact prims_uidL u h
  | revoke u c =>
    simp only [okPayload, Bool.and_eq_true] at h
    have h1 := prims_uidL u h.1
    cases c with
    | none => exact absurd h.2 Bool.false_ne_true
    | some c =>
      have h2 := contains_lt _ _ lt_revocationReasonCode h.2
      simp only [kmip_tags, optL, uidL] at *; simp only [encPayload, uidL]; vs
  | destroy u => simp only [okPayload] at h; exact prims_uidL u h
  | query fs =>
    simp only [okPayload, Bool.and_eq_true] at h
    have hall := List.all_eq_true.mp h.2
    exact primsOkListB_map (enm T.queryFunction) fs
      (fun a ha => primsOkB_enm _ _ (by decide) (contains_lt _ _ lt_queryFunction (hall a ha)))
  | discoverVersions vs =>
    simp only [okPayload] at h
    have hall := List.all_eq_true.mp h
    exact primsOkListB_map encVersion vs (fun a ha => prims_encVersion a (hall a ha))
  | encrypt u p =>
    simp only [okPayload] at h
    have h1 := prims_uidL u h
    have h4 := prims_encSomeParams
    cases p <;> simp only [kmip_tags, optL, uidL] at * <;> simp only [encPayload, uidL] <;> vs
  | decrypt u p =>
    simp only [okPayload] at h
    have h1 := prims_uidL u h
    have h4 := prims_encSomeParams
    cases p <;> simp only [kmip_tags, optL, uidL] at * <;> simp only [encPayload, uidL] <;> vs
  | sign u p =>
    simp only [okPayload] at h
    have h1 := prims_uidL u h
    have h4 := prims_encSomeParams
    cases p <;> simp only [kmip_tags, optL, uidL] at * <;> simp only [encPayload, uidL] <;> vs
  | signatureVerify u p =>
    simp only [okPayload] at h
    have h1 := prims_uidL u h
    have h4 := prims_encSomeParams
    cases p <;> simp only [kmip_tags, optL, uidL] at * <;> simp only [encPayload, uidL] <;> vs
  | mac u alg d =>
    simp only [okPayload, Bool.and_eq_true] at h
    obtain ⟨⟨hu, ha⟩, hd⟩ := h
    have h1 := prims_uidL u hu
    cases alg <;> cases d <;> simp only [okOpt] at ha <;>
      (try have h2 := contains_lt _ _ lt_cryptographicAlgorithm ha) <;> simp only [kmip_tags, optL, uidL] at * <;> simp only [encPayload, uidL] <;> vs
  | setAttribute u a =>
    simp only [okPayload, Bool.and_eq_true] at h
    have h1 := prims_uidL u h.1.2
    have h2 := prims_encHolder T.newAttribute a (by decide) h.2
    simp only [kmip_tags] at h2
    simp only [kmip_tags, optL, uidL] at *; simp only [encPayload, uidL]; vs
  | modifyAttribute u a cu nw =>
    simp only [okPayload, Bool.and_eq_true] at h
    obtain ⟨hu, h⟩ := h
    have h1 := prims_uidL u hu
    by_cases hv : v < 20
    · simp only [hv, ↓reduceIte] at h
      cases a with
      | none => exact absurd h Bool.false_ne_true
      | some a =>
        have h2 := prims_encAttr1x a h
        simp only [kmip_tags, optL, uidL] at *; simp only [encPayload, uidL, hv, ↓reduceIte]; vs
    · simp only [hv, ↓reduceIte, Bool.and_eq_true] at h
      have h2 := prims_optHolder T.currentAttribute cu (by decide) h.1
      cases nw with
      | none => exact absurd h.2 Bool.false_ne_true
      | some nw =>
        have h3 := prims_encHolder T.newAttribute nw (by decide) h.2
        simp only [kmip_tags] at h2 h3
        simp only [kmip_tags, optL, uidL] at *; simp only [encPayload, uidL, hv, ↓reduceIte]; vs
  | deleteAttribute u n i cu r =>
    simp only [okPayload, Bool.and_eq_true] at h
    obtain ⟨hu, h⟩ := h
    have h1 := prims_uidL u hu
    by_cases hv : v < 20
    · simp only [hv, ↓reduceIte, Bool.and_eq_true] at h
      have h2 := prims_optInt T.attributeIndex i (by decide) h.2
      cases n with
      | none => exact absurd h.1 Bool.false_ne_true
      | some n =>
        have h3 := h.1
        simp only [kmip_tags] at h2
        simp only [kmip_tags, optL, uidL] at *; simp only [encPayload, uidL, hv, ↓reduceIte]; vs
    · simp only [hv, ↓reduceIte, Bool.and_eq_true] at h
      have h2 := prims_optHolder T.currentAttribute cu (by decide) h.1.1
      have hvv : okText "v" = true := by decide
      simp only [kmip_tags] at h2
      cases r with
      | none => simp only [kmip_tags, optL, uidL] at *; simp only [encPayload, uidL, hv, ↓reduceIte]; vs
      | some r =>
        have h3 := okOpt_some _ _ h.1.2
        simp only [kmip_tags, optL, uidL] at *; simp only [encPayload, uidL, hv, ↓reduceIte]; vs
  | unsupported op => rfl

theorem prims_encItem (v : Nat) (it : Kmip.Item) (h : okItem v it = true) : primsOkB (encItem v it) = true := by
  obtain ⟨p, bid, cr⟩ := it
  simp only [okItem, Bool.and_eq_true] at h
  have h1 := contains_lt _ _ lt_operation (op_member v p h.2)
  have h2 := prims_encPayload v p h.2
  cases bid <;> simp only [encItem] <;> vs

theorem okLen_supported (v : Nat) (h : supportedVersion v = true) : okInt (Int.ofNat (v / 10)) = true := by
  simp only [supportedVersion, Bool.or_eq_true, decide_eq_true_eq] at h
  exact okInt_small _ (by omega)

theorem prims_encHeader (v : Nat) (ts : Option Int) (as : Option Bool) (bo mx : Option Nat) (items : List Kmip.Item)
    (hv : supportedVersion v = true) (hm : okOpt okLen mx = true)
    (hb : okOpt E.batchErrorContinuationOption.contains bo = true) (ht : okOpt okDate ts = true)
    (hl : okLen items.length = true) : primsOkB (encHeader ⟨v, ts, as, bo, mx, items⟩) = true := by
  have h1 := prims_encVersion v (okLen_supported v hv)
  have h2 : primsOkListB (optL mx (fun n => int T.maximumResponseSize (Int.ofNat n))) = true := by
    cases mx with
    | none => rfl
    | some n =>
      simp only [optL, primsOkListB, primsOkB_len T.maximumResponseSize n (by decide) (okOpt_some _ _ hm), Bool.and_self]
  have h3 : primsOkListB (optL ts (dat T.timeStamp)) = true := by
    cases ts with
    | none => rfl
    | some n => simp only [optL, primsOkListB, primsOkB_dat T.timeStamp n (by decide) (okOpt_some _ _ ht), Bool.and_self]
  have h4 : primsOkListB (optL bo (enm T.batchErrorContinuationOption)) = true := by
    cases bo with
    | none => rfl
    | some n =>
      simp only [optL, primsOkListB, primsOkB_enm T.batchErrorContinuationOption n (by decide)
        (contains_lt _ _ lt_batchOption (okOpt_some _ _ hb)), Bool.and_self]
  have h5 := primsOkB_len T.batchCount items.length (by decide) hl
  have h6 : primsOkListB (optL as (boo T.asynchronousIndicator)) = true := by
    cases as with
    | none => rfl
    | some b => simp only [optL, primsOkListB, primsOkB_boo T.asynchronousIndicator b (by decide), Bool.and_self]
  simp only [encHeader, primsOkB_struct_eq _ _ (by decide : tagOk T.requestHeader = true), primsOkListB_append,
    primsOkListB, h1, h2, h3, h4, h5, h6, Bool.and_self]

/-- **every leaf of the tree M16 builds for a request of its domain is within the range of its primitive** -/
theorem prims_of_okRequest (r : Request) (h : okRequest r = true) : primsOkB (encRequest r) = true := by
  obtain ⟨v, ts, as, bo, mx, items⟩ := r
  simp only [okRequest, Bool.and_eq_true] at h
  obtain ⟨⟨⟨⟨⟨hv, hm⟩, hb⟩, ht⟩, hl⟩, hi⟩ := h
  have h1 := prims_encHeader v ts as bo mx items hv hm hb ht hl
  have hall := List.all_eq_true.mp hi
  have h2 := primsOkListB_map (encItem v) items (fun it hit => prims_encItem v it (hall it hit))
  simp only [encRequest, primsOkB_struct_eq _ _ (by decide : tagOk T.requestMessage = true), primsOkListB, h1, h2,
    Bool.and_self]

/-- **the tree of a request of the encoder's domain whose frame is shorter than 2^32 bytes is a valid M1 item with
well-formed text** -/
theorem valid_of_okRequest (r : Request) (h : okRequest r = true) (hl : (encode (encRequest r)).length < 2 ^ 32) :
    (encRequest r).Valid ∧ textOkB (encRequest r) = true :=
  valid_of_prims (encRequest r) (prims_of_okRequest r h) hl

end Kmip.EncodeRequest
