/-
Validity of the trees of M16 (`KmipModel/EncodeRequest.lean`), DERIVED from the encoder's domain `okRequest` and one
bound on the length of the frame: every leaf is within the range of its primitive, every tag is a KMIP tag, every
text is well-formed UTF-8 (`prims_of_okRequest`), and a tree of such leaves whose encoding is shorter than 2^32 bytes
is a valid M1 item (`valid_of_prims`).  Helper lemmas for Props/C19Encode.lean.
-/
import KmipModel.Lemmas.EncodeRequestPayloads
set_option linter.unusedSimpArgs false
namespace Kmip.EncodeRequest
open Kmip Kmip.TTLV Kmip.Decode
/-! ### validity of a tree from its leaves and one length bound -/

/-- a primitive value within its range (text: well-formed UTF-8); no condition on the length of strings -/
def pvalOk : PVal → Bool
  | .integer v => decide (fitsTC 4 v)
  | .longInteger v => decide (fitsTC 8 v)
  | .bigInteger v len => decide (len % 8 = 0 ∧ 0 < len ∧ fitsTC len v)
  | .enumeration v => decide (v < 256 ^ 4)
  | .boolean _ => true
  | .textString s => Prim.validUtf8 s
  | .byteString _ => true
  | .dateTime v => decide (fitsTC 8 v)
  | .interval v => decide (v < 256 ^ 4)

mutual
def primsOkB : TItem → Bool
  | .prim t v => tagOk t && pvalOk v
  | .struct t ks => tagOk t && primsOkListB ks
def primsOkListB : List TItem → Bool
  | [] => true
  | i :: is => primsOkB i && primsOkListB is
end

theorem valBytes_le_encode (t : Nat) (v : PVal) : v.valBytes.length ≤ (encode (.prim t v)).length := by
  simp only [encode, List.length_append]; omega

mutual
theorem valid_of_prims : ∀ (i : TItem), primsOkB i = true → (encode i).length < 256 ^ 4 → i.Valid ∧ textOkB i = true
  | .prim t v, h, hl => by
    simp only [primsOkB, Bool.and_eq_true] at h
    have hle := valBytes_le_encode t v
    refine ⟨?_, ?_⟩
    · simp only [Item.Valid]
      refine ⟨h.1, ?_⟩
      cases v <;> simp only [pvalOk, decide_eq_true_eq] at h <;> simp only [PVal.Valid, PVal.valBytes, be_length] at hle ⊢
      all_goals first | exact h.2 | trivial | omega | skip
      · exact ⟨h.2.1, h.2.2.1, by omega, h.2.2.2⟩
    · cases v <;> first | rfl | (simpa only [textOkB, pvalOk] using h.2)
  | .struct t ks, h, hl => by
    simp only [primsOkB, Bool.and_eq_true] at h
    have hlen : (encodeList ks).length < 256 ^ 4 := by
      simp only [encode, List.length_append] at hl; omega
    have := valid_of_prims_list ks h.2 hlen
    exact ⟨by simp only [Item.Valid]; exact ⟨h.1, this.1, hlen⟩, by simp only [textOkB]; exact this.2⟩
theorem valid_of_prims_list : ∀ (ks : List TItem), primsOkListB ks = true → (encodeList ks).length < 256 ^ 4 →
    validList ks ∧ textOkListB ks = true
  | [], _, _ => ⟨by simp only [validList], rfl⟩
  | i :: is, h, hl => by
    simp only [primsOkListB, Bool.and_eq_true] at h
    simp only [encodeList, List.length_append] at hl
    have h1 := valid_of_prims i h.1 (by omega)
    have h2 := valid_of_prims_list is h.2 (by omega)
    exact ⟨by simp only [validList]; exact ⟨h1.1, h2.1⟩, by simp only [textOkListB, h1.2, h2.2, Bool.and_self]⟩
end


/-! ### the leaves and lists of M16's trees -/

theorem primsOkListB_append (a b : List TItem) : primsOkListB (a ++ b) = (primsOkListB a && primsOkListB b) := by
  induction a with
  | nil => simp only [List.nil_append, primsOkListB, Bool.true_and]
  | cons i is ih => simp only [List.cons_append, primsOkListB, ih, Bool.and_assoc]

theorem primsOkListB_map {α} (f : α → TItem) (l : List α) (h : ∀ a ∈ l, primsOkB (f a) = true) :
    primsOkListB (l.map f) = true := by
  induction l with
  | nil => rfl
  | cons a as ih =>
    simp only [List.map_cons, primsOkListB, h a List.mem_cons_self, ih (fun x hx => h x (List.mem_cons_of_mem _ hx)),
      Bool.and_self]

theorem primsOkListB_replicate (x : TItem) (n : Nat) (h : primsOkB x = true) : primsOkListB (List.replicate n x) = true := by
  induction n with
  | zero => rfl
  | succ n ih => simp only [List.replicate_succ, primsOkListB, h, ih, Bool.and_self]

theorem primsOkListB_optL {α} (o : Option α) (f : α → TItem) (h : ∀ a, o = some a → primsOkB (f a) = true) :
    primsOkListB (optL o f) = true := by
  cases o with
  | none => rfl
  | some a => simp only [optL, primsOkListB, h a rfl, Bool.and_self]

theorem primsOkListB_ifL (b : Bool) (i : TItem) (h : primsOkB i = true) : primsOkListB (ifL b i) = true := by
  cases b <;> simp only [ifL, primsOkListB, h, Bool.and_self, Bool.false_eq_true, ↓reduceIte]

theorem primsOkB_txt (t : Nat) (s : String) (ht : tagOk t = true) (h : okText s = true) : primsOkB (txt t s) = true := by
  simp only [txt, primsOkB, pvalOk, ht, validUtf8_asciiBytes s h, Bool.and_self]
theorem primsOkB_enm (t n : Nat) (ht : tagOk t = true) (h : n < 4294967296) : primsOkB (enm t n) = true := by
  have h' : n < 256 ^ 4 := h
  simp only [enm, primsOkB, pvalOk, ht, h', decide_true, Bool.and_self]
theorem primsOkB_int (t : Nat) (n : Int) (ht : tagOk t = true) (h : okInt n = true) : primsOkB (int t n) = true := by
  simp only [okInt] at h
  simp only [int, primsOkB, pvalOk, ht, h, Bool.and_self]
theorem primsOkB_byt (t : Nat) (b : Bytes) (ht : tagOk t = true) : primsOkB (byt t b) = true := by
  simp only [byt, primsOkB, pvalOk, ht, Bool.and_self]
theorem primsOkB_boo (t : Nat) (b : Bool) (ht : tagOk t = true) : primsOkB (boo t b) = true := by
  simp only [boo, primsOkB, pvalOk, ht, Bool.and_self]
theorem primsOkB_dat (t : Nat) (n : Int) (ht : tagOk t = true) (h : okDate n = true) : primsOkB (dat t n) = true := by
  simp only [okDate] at h
  simp only [dat, primsOkB, pvalOk, ht, h, Bool.and_self]
theorem primsOkB_struct (t : Nat) (ks : List TItem) (ht : tagOk t = true) (h : primsOkListB ks = true) :
    primsOkB (.struct t ks) = true := by
  simp only [primsOkB, ht, h, Bool.and_self]

/-- the members of an enumeration class fit the 32-bit Enumeration -/
theorem contains_lt (ms : List Nat) (n : Nat) (hms : ms.all (fun m => decide (m < 4294967296)) = true)
    (h : ms.contains n = true) : n < 4294967296 := by
  have := List.all_eq_true.mp hms n (List.contains_iff_mem.mp h)
  simpa only [decide_eq_true_eq] using this

theorem isAscii_tmpl (i : Nat) : okText ("tmpl" ++ toString i) = true := by
  show isAscii ("tmpl" ++ Nat.repr i) = true
  simp only [isAscii, String.toList_append, Nat.repr, String.toList_ofList, List.all_append, Bool.and_eq_true]
  refine ⟨by decide, ?_⟩
  apply List.all_eq_true.mpr
  intro c hc
  have := Nat.isDigit_of_mem_toDigits (by decide) (by decide) hc
  simp only [Char.isDigit, Bool.and_eq_true, decide_eq_true_eq] at this
  have h2 := this.2
  simp only [decide_eq_true_eq]
  have : c.val.toNat ≤ 57 := by exact UInt32.le_iff_toNat_le.mp h2
  exact Nat.lt_of_le_of_lt this (by decide)

theorem primsOkB_struct_eq (t : Nat) (ks : List TItem) (ht : tagOk t = true) :
    primsOkB (.struct t ks) = primsOkListB ks := by
  simp only [primsOkB, ht, Bool.true_and]

/-- evaluate `primsOkB` / `primsOkListB` on a tree built from M16's leaves; side conditions from the context -/
macro "vs" : tactic =>
  `(tactic| simp (disch := first | assumption | decide) only [primsOkB_struct_eq, primsOkListB, primsOkListB_append,
      primsOkB_txt, primsOkB_enm, primsOkB_int, primsOkB_byt, primsOkB_boo, primsOkB_dat, kmip_tags, decide_true,
      decide_false, Bool.and_self, Bool.and_true, Bool.true_and, Bool.or_true, Bool.true_or, Bool.or_false,
      Bool.false_or, Bool.and_false, optL, ifL, okOpt, List.nil_append, List.cons_append, List.append_nil, ↓reduceIte,
      Option.getD_some, Bool.false_eq_true, *])

/-! ### every encoder of M16 produces such leaves on its domain -/

theorem lt_objectType : E.objectType.all (fun m => decide (m < 4294967296)) = true := by decide
theorem lt_keyFormatType : E.keyFormatType.all (fun m => decide (m < 4294967296)) = true := by decide
theorem lt_cryptographicAlgorithm : E.cryptographicAlgorithm.all (fun m => decide (m < 4294967296)) = true := by decide
theorem lt_certificateType : E.certificateType.all (fun m => decide (m < 4294967296)) = true := by decide
theorem lt_secretDataType : E.secretDataType.all (fun m => decide (m < 4294967296)) = true := by decide
theorem lt_opaqueDataType : E.opaqueDataType.all (fun m => decide (m < 4294967296)) = true := by decide
theorem lt_wrappingMethod : E.wrappingMethod.all (fun m => decide (m < 4294967296)) = true := by decide
theorem lt_encodingOption : E.encodingOption.all (fun m => decide (m < 4294967296)) = true := by decide
theorem lt_revocationReasonCode : E.revocationReasonCode.all (fun m => decide (m < 4294967296)) = true := by decide
theorem lt_queryFunction : E.queryFunction.all (fun m => decide (m < 4294967296)) = true := by decide
theorem lt_batchOption : E.batchErrorContinuationOption.all (fun m => decide (m < 4294967296)) = true := by decide
theorem lt_nameType : E.nameType.all (fun m => decide (m < 4294967296)) = true := by decide
theorem lt_operation : E.operation.all (fun m => decide (m < 4294967296)) = true := by decide
theorem lt_allTags : allTags.all (fun m => decide (m < 4294967296)) = true := by decide +kernel
theorem allTags_tagOk : allTags.all tagOk = true := by decide +kernel

theorem prims_encValue (tag : Nat) (name : String) (spec : VSpec) (v : AVal) (ht : tagOk tag = true)
    (h : okValue name spec v = true) : primsOkB (encValue tag name spec v) = true := by
  cases spec <;> cases v <;> first | exact absurd h Bool.false_ne_true | skip
  case text.text s => exact primsOkB_txt _ _ ht h
  case int.int n => exact primsOkB_int _ _ ht h
  case interval.int n =>
    simp only [okValue, Bool.and_eq_true, decide_eq_true_eq] at h
    have : n.toNat < 256 ^ 4 := by have := h.1; omega
    simp only [encValue, primsOkB, pvalOk, ht, this, decide_true, Bool.and_self]
  case bool.bool b => exact primsOkB_boo _ _ ht
  case date.date n => exact primsOkB_dat _ _ ht h
  case enum.enum ms n =>
    simp only [okValue, Bool.and_eq_true, decide_eq_true_eq] at h
    exact primsOkB_enm _ _ ht h.2
  case name.name s t =>
    simp only [okValue, Bool.and_eq_true] at h
    have h2 := contains_lt _ _ lt_nameType h.2
    have h1 := h.1
    simp only [encValue]; vs
  case appInfo.appInfo ns d =>
    simp only [okValue, Bool.and_eq_true] at h
    have h1 := h.1; have h2 := h.2
    simp only [encValue]; vs
  case cryptoParams.other => simp only [encValue]; vs
  case digest.other => simp only [encValue]; vs

theorem prims_encAttr1x (a : TAttr) (h : okAttr1x a = true) : primsOkB (encAttr1x a) = true := by
  obtain ⟨name, index, value⟩ := a
  simp only [okAttr1x, Bool.and_eq_true] at h
  obtain ⟨⟨hn, hi⟩, hs⟩ := h
  cases hsp : specOf name with
  | none => simp only [hsp] at hs; exact absurd hs Bool.false_ne_true
  | some sp =>
    cases hsn : specOfName name with
    | error e => simp only [hsp, hsn] at hs; exact absurd hs Bool.false_ne_true
    | ok sp' =>
      simp only [hsp, hsn, Bool.and_eq_true, beq_iff_eq] at hs
      obtain ⟨rfl, hs⟩ := hs
      have hv := prims_encValue T.attributeValue name sp value (by decide) hs
      simp only [kmip_tags] at hv
      cases index <;> simp only [okOpt] at hi <;> simp only [encAttr1x, hsp] <;> vs

theorem prims_encAttr20 (a : TAttr) (h : okAttr20 a = true) : primsOkB (encAttr20 a) = true := by
  obtain ⟨name, index, value⟩ := a
  simp only [okAttr20] at h
  cases ht : tagOfName name with
  | none => simp only [ht] at h; exact absurd h Bool.false_ne_true
  | some t =>
    cases hsp : specOf name with
    | none => simp only [ht, hsp] at h; exact absurd h Bool.false_ne_true
    | some sp =>
      simp only [ht, hsp, Bool.and_eq_true] at h
      have htag : tagOk t = true := List.all_eq_true.mp allTags_tagOk t (List.contains_iff_mem.mp h.1.1.1.1)
      simp only [encAttr20, ht, hsp, Option.getD_some]
      exact prims_encValue t name sp value htag h.2

end Kmip.EncodeRequest
