/-
Histories: sequences of requests (each with its own context: clock, policies)
and server restarts on the same database.
-/
import KmipModel.Lemmas.Store
namespace Kmip

inductive Step where
  | request (c : Ctx) (id : Identity) (r : Request)
  | restart

def stepEngine (e : Engine) : Step → Engine
  | .request c id r => (processRequest c e id r).1
  | .restart => e.restart

def run (e : Engine) (steps : List Step) : Engine := steps.foldl stepEngine e

/-- Either the request is rejected before the batch loop (store untouched) or the
result is that of the batch loop on the normalised engine. -/
theorem processRequest_cases (c : Ctx) (e : Engine) (id : Identity) (r : Request) :
    ((processRequest c e id r).1.store = e.store ∧ ∃ rsn m, (processRequest c e id r).2 = .rejected rsn m) ∨
    (processRequest c e id r =
        ((batchSpec c r.stop ⟨e.store, none, r.version, id⟩ r.items).1,
         .results (batchSpec c r.stop ⟨e.store, none, r.version, id⟩ r.items).2)) := by
  unfold processRequest
  simp only
  split
  · exact Or.inl ⟨rfl, _, _, rfl⟩
  · split
    · exact Or.inl ⟨rfl, _, _, rfl⟩
    · split
      · exact Or.inl ⟨rfl, _, _, rfl⟩
      · split
        · exact Or.inl ⟨rfl, _, _, rfl⟩
        · split
          · exact Or.inl ⟨rfl, _, _, rfl⟩
          · refine Or.inr ?_
            rw [processBatch_eq]
            simp

theorem processRequest_inv (c : Ctx) (e : Engine) (id : Identity) (r : Request) (h : e.store.Inv) :
    (processRequest c e id r).1.store.Inv ∧ e.store.Extends (processRequest c e id r).1.store := by
  rcases processRequest_cases c e id r with ⟨hs, _⟩ | hb
  · rw [hs]; exact ⟨h, Store.Extends.refl _⟩
  · rw [hb]
    exact batchSpec_inv c r.stop ⟨e.store, none, r.version, id⟩ r.items h

theorem step_inv (e : Engine) (s : Step) (h : e.store.Inv) :
    (stepEngine e s).store.Inv ∧ e.store.Extends (stepEngine e s).store := by
  cases s with
  | request c id r => exact processRequest_inv c e id r h
  | restart => exact ⟨h, Store.Extends.refl _⟩

theorem run_inv (e : Engine) (steps : List Step) (h : e.store.Inv) :
    (run e steps).store.Inv ∧ e.store.Extends (run e steps).store := by
  induction steps generalizing e with
  | nil => exact ⟨h, Store.Extends.refl _⟩
  | cons s rest ih =>
    have h1 := step_inv e s h
    have h2 := ih (stepEngine e s) h1.1
    exact ⟨h2.1, h1.2.trans h2.2⟩

end Kmip
