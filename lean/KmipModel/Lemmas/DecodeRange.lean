/-
What the request decoder (M14, `KmipModel/Decode.lean` over the lenient byte reader `DecodeBytes.lean`) guarantees
about the RANGE of the values it hands to the engine: `decode_in_range` - every request decoded from ANY byte string
is `RequestInRange` (`Lemmas/RangeInv.lean`).  Integers come out of 4-byte big-endian two's-complement fields, so
they fit 32 bits by construction (`lenientTop_ranged`); enumeration values are members of the enumeration class
the reader instantiates (`asEnum`), all of which fit 32 bits; the protocol version is one of six constants.

`Sat` of `Lemmas/Decode.lean` speaks about a reader on ANY stream; ranges need the stream to come from bytes:
`SatR m P` = on a stream of ranged items, the result satisfies `P` and the remainder is ranged.
-/
import KmipModel.DecodeBytes
import KmipModel.Lemmas.Decode
import KmipModel.Lemmas.RangeInv
namespace Kmip.Decode
open Kmip Kmip.TTLV
open Kmip.Encode (i32 u32 optAll avalReq tattrReq tmplReq regReq payloadReq itemReq requestInRange RequestInRange
  optAll_some i32_iff)

/-! ### trees that come from bytes -/

mutual
/-- every Integer in the tree fits 32 bits signed -/
def Ranged : TItem → Prop
  | .prim _ (.integer v) => i32 v = true
  | .prim _ _ => True
  | .struct _ ks => RangedL ks
def RangedL : List TItem → Prop
  | [] => True
  | i :: is => Ranged i ∧ RangedL is
end

theorem rangedL_append : ∀ (a b : List TItem), RangedL a → RangedL b → RangedL (a ++ b)
  | [], _, _, hb => hb
  | i :: is, b, ha, hb => by
    simp only [RangedL] at ha
    simp only [List.cons_append, RangedL]
    exact ⟨ha.1, rangedL_append is b ha.2 hb⟩

theorem ranged_junk (bs : Bytes) : Ranged (junk bs) := by unfold junk; simp only [Ranged]

theorem read4Pad_lt {r r' : Bytes} {x : Nat} (h : Prim.read4Pad r = .ok (x, r')) : x < 256 ^ 4 := by
  unfold Prim.read4Pad at h
  split at h
  · cases h
  · rename_i vb r1 hv
    split at h
    · cases h
    · split at h
      · simp only [Except.ok.injEq, Prod.mk.injEq] at h
        obtain ⟨rfl, _⟩ := h
        have hl := (takeExact_some 4 r vb r1 hv).2
        have := ofBE_lt vb
        rw [hl] at this; exact this
      · cases h

theorem lenientVal_ranged {ty len : Nat} {r r' : Bytes} {v : PVal} (t : Nat)
    (h : lenientVal ty len r = some (v, r')) : Ranged (.prim t v) := by
  unfold lenientVal at h
  split at h
  · split at h
    · split at h
      · rename_i x r1 hx
        simp only [Option.some.injEq, Prod.mk.injEq] at h
        obtain ⟨rfl, _⟩ := h
        simp only [Ranged]
        rw [i32_iff]
        exact fitsTC_ofTC 4 x (read4Pad_lt hx)
      · cases h
    · cases h
  · -- every other type: no Integer
    repeat' split at h
    all_goals (cases h <;> simp only [Ranged])

theorem lparseList_ranged : ∀ (f : Nat) (bs : Bytes), RangedL (lparseList f bs)
  | 0, _ => by simp only [lparseList, RangedL]
  | _ + 1, [] => by simp only [lparseList, RangedL]
  | f + 1, b :: bs => by
    simp only [lparseList]
    split
    · simp only [RangedL]; exact ⟨ranged_junk _, trivial⟩
    · split
      · simp only [RangedL, Ranged]
        exact ⟨lparseList_ranged f _, lparseList_ranged f _⟩
      · split
        · simp only [RangedL]; exact ⟨ranged_junk _, trivial⟩
        · rename_i v rest' hv
          simp only [RangedL]
          exact ⟨lenientVal_ranged _ hv, lparseList_ranged f _⟩

/-- **whatever the bytes, the tree the request decoder works on is ranged** -/
theorem lenientTop_ranged (bs : Bytes) : Ranged (lenientTop bs) := by
  unfold lenientTop
  split
  · exact ranged_junk _
  · split
    · simp only [Ranged]; exact lparseList_ranged _ _
    · exact ranged_junk _

/-! ### readers on ranged streams -/

def SatR {α} (m : Rd α) (P : α → Prop) : Prop :=
  ∀ s a s', RangedL s → m s = .ok (a, s') → P a ∧ RangedL s'

theorem SatR.weaken {α} {m : Rd α} {P Q : α → Prop} (h : SatR m P) (hpq : ∀ a, P a → Q a) : SatR m Q :=
  fun s a s' hs hh => ⟨hpq a (h s a s' hs hh).1, (h s a s' hs hh).2⟩

theorem SatR.pure {α} {P : α → Prop} {a : α} (h : P a) : SatR (pure a : Rd α) P := by
  intro s a' s' hs hh
  have : (Except.ok (a, s) : D (α × List TItem)) = .ok (a', s') := hh
  cases this; exact ⟨h, hs⟩

theorem SatR.fail {α} {P : α → Prop} (e : DErr) : SatR (Rd.fail e : Rd α) P := by
  intro s a s' _ hh
  have : (Except.error e : D (α × List TItem)) = .ok (a, s') := hh
  cases this

theorem SatR.bind {α β} {m : Rd α} {f : α → Rd β} {Q : α → Prop} {P : β → Prop}
    (hm : SatR m Q) (hf : ∀ a, Q a → SatR (f a) P) : SatR (m >>= f) P := by
  intro s b s' hs hh
  have hh' : (match m s with | .ok (a, s1) => f a s1 | .error e => .error e) = .ok (b, s') := hh
  cases hms : m s with
  | error e => rw [hms] at hh'; cases hh'
  | ok p =>
    obtain ⟨a, s1⟩ := p
    rw [hms] at hh'
    have := hm s a s1 hs hms
    exact hf a this.1 s1 b s' this.2 hh'

theorem SatR.ite {α} {P : α → Prop} {c : Prop} [Decidable c] {a b : Rd α}
    (ha : c → SatR a P) (hb : ¬ c → SatR b P) : SatR (if c then a else b) P := by
  by_cases h : c
  · simp only [h, if_true]; exact ha h
  · simp only [h, if_false]; exact hb h

theorem lift_satR {α} {P : α → Prop} {x : D α} (h : DSat x P) : SatR (Rd.lift x) P := by
  intro s a s' hs hh
  unfold Rd.lift at hh
  cases x with
  | error e => cases hh
  | ok v => cases hh; exact ⟨h _ rfl, hs⟩

theorem inStruct_dsatR {α} {P : α → Prop} {what : String} {body : Rd α} (h : SatR body P) (i : TItem)
    (hi : Ranged i) : DSat (inStruct what body i) P := by
  intro a ha
  cases i with
  | prim t v => cases ha
  | struct t kids =>
    simp only [inStruct] at ha
    cases hb : body.run kids with
    | error e => rw [hb] at ha; cases ha
    | ok p =>
      obtain ⟨x, r⟩ := p
      rw [hb] at ha
      cases ha
      simp only [Ranged] at hi
      exact (h kids a r hi hb).1

theorem req_satR {α} {P : α → Prop} {what : String} {t : Nat} {f : TItem → D α} (h : ∀ i, Ranged i → DSat (f i) P) :
    SatR (req what t f) P := by
  intro s a s' hs hh
  unfold req at hh
  cases s with
  | nil => cases hh
  | cons i rest =>
    simp only [RangedL] at hs
    simp only at hh
    split at hh
    · cases hf : f i with
      | error e => rw [hf] at hh; cases hh
      | ok v => rw [hf] at hh; cases hh; exact ⟨h i hs.1 a hf, hs.2⟩
    · cases hh

theorem opt_satR {α} {P : α → Prop} {t : Nat} {f : TItem → D α} (h : ∀ i, Ranged i → DSat (f i) P) :
    SatR (opt t f) (fun o => ∀ a, o = some a → P a) := by
  intro s o s' hs hh
  unfold opt at hh
  cases s with
  | nil => cases hh; exact ⟨fun a ha => (by cases ha), trivial⟩
  | cons i rest =>
    simp only [RangedL] at hs
    simp only at hh
    split at hh
    · cases hf : f i with
      | error e => rw [hf] at hh; cases hh
      | ok v =>
        rw [hf] at hh; cases hh
        exact ⟨fun a ha => (by cases ha; exact h i hs.1 _ hf), hs.2⟩
    · cases hh; exact ⟨fun a ha => (by cases ha), (by simp only [RangedL]; exact hs)⟩

theorem many_satR {α} {P : α → Prop} {t : Nat} {f : TItem → D α} (h : ∀ i, Ranged i → DSat (f i) P) :
    SatR (many t f) (fun l => ∀ a ∈ l, P a) := by
  intro s
  induction s with
  | nil => intro l s' _ hh; unfold many at hh; cases hh; exact ⟨fun a ha => (by cases ha), trivial⟩
  | cons i rest ih =>
    intro l s' hs hh
    simp only [RangedL] at hs
    unfold many at hh
    split at hh
    · cases hf : f i with
      | error e => rw [hf] at hh; cases hh
      | ok v =>
        rw [hf] at hh
        simp only at hh
        cases hr : many t f rest with
        | error e => rw [hr] at hh; cases hh
        | ok p =>
          obtain ⟨as, r⟩ := p
          rw [hr] at hh
          cases hh
          have := ih _ _ hs.2 hr
          refine ⟨fun a ha => ?_, this.2⟩
          rcases List.mem_cons.mp ha with rfl | ha
          · exact h i hs.1 a hf
          · exact this.1 a ha
    · cases hh; exact ⟨fun a ha => (by cases ha), (by simp only [RangedL]; exact hs)⟩

theorem done_satR (what : String) : SatR (done what) (fun _ => True) := by
  intro s a s' _ hh
  unfold done at hh
  split at hh
  · cases hh; exact ⟨trivial, trivial⟩
  · cases hh

/-- a reader whose result does not matter: only that the remainder stays ranged -/
macro "skipR" : tactic =>
  `(tactic| first
      | exact req_satR (fun _ _ => DSat.triv _)
      | exact (opt_satR (P := fun _ => True) (fun _ _ => DSat.triv _)).weaken (fun _ _ => trivial)
      | exact (many_satR (P := fun _ => True) (fun _ _ => DSat.triv _)).weaken (fun _ _ => trivial)
      | exact done_satR _)

macro "satr_triv" : tactic =>
  `(tactic| repeat' (first
      | exact SatR.fail _
      | exact SatR.pure trivial
      | (refine SatR.ite (fun _ => ?_) (fun _ => ?_))
      | (refine SatR.bind (Q := fun _ => True) (by skipR) (fun _ _ => ?_))
      | split))

theorem uidField_satR : SatR uidField (fun _ => True) := by unfold uidField; skipR

theorem optMasks_satR (v t : Nat) : SatR (optMasks v t) (fun _ => True) := by unfold optMasks; satr_triv

/-! ### values -/

theorem asInt_r {what : String} {i : TItem} (hi : Ranged i) : DSat (asInt what i) (fun v => i32 v = true) := by
  intro v hv
  cases i with
  | struct t ks => cases hv
  | prim t p =>
    cases p with
    | integer x => simp only [asInt, Except.ok.injEq] at hv; subst hv; simpa only [Ranged] using hi
    | _ => cases hv

theorem asEnum_mem {what : String} {ms : List Nat} {i : TItem} : DSat (asEnum what ms i) (fun v => v ∈ ms) := by
  intro v hv
  cases i with
  | struct t ks => cases hv
  | prim t p =>
    cases p <;> first
      | cases hv
      | (simp only [asEnum] at hv
         split at hv
         · rename_i hc; simp only [Except.ok.injEq] at hv; subst hv; exact List.contains_iff_mem.1 hc
         · cases hv)

/-- the members of an enumeration class fit 32 bits -/
def smallL (ms : List Nat) : Bool := ms.all u32

theorem asEnum_u32 {what : String} {ms : List Nat} {i : TItem} (hm : smallL ms = true) :
    DSat (asEnum what ms i) (fun v => u32 v = true) :=
  fun v hv => List.all_eq_true.1 hm v (asEnum_mem v hv)

def specOk : VSpec → Bool
  | .enum ms => smallL ms
  | _ => true

/-- only a value read as an Integer is kept as a Cryptographic Length -/
def specFor (name : String) (s : VSpec) : Bool := !(name == "Cryptographic Length") || s == .int

theorem readValue_r {what name : String} {spec : VSpec} {i : TItem} (hs : specOk spec = true)
    (hn : specFor name spec = true) (hi : Ranged i) : DSat (readValue what spec i) (fun v => avalReq name v = true) := by
  intro v hv
  cases spec with
  | text => obtain ⟨x, _, rfl⟩ := map_ok hv; rfl
  | int =>
    obtain ⟨x, hx, rfl⟩ := map_ok hv
    simp only [avalReq, asInt_r hi x hx, Bool.or_true]
  | interval =>
    obtain ⟨x, _, rfl⟩ := map_ok hv
    simp only [specFor, Bool.or_eq_true, Bool.not_eq_true', beq_iff_eq] at hn
    rcases hn with hn | hn
    · simp only [avalReq, hn, Bool.not_false, Bool.true_or]
    · cases hn
  | bool => obtain ⟨x, _, rfl⟩ := map_ok hv; rfl
  | date => obtain ⟨x, _, rfl⟩ := map_ok hv; rfl
  | «enum» ms =>
    obtain ⟨x, hx, rfl⟩ := map_ok hv
    exact asEnum_u32 hs x hx
  | name =>
    have := inStruct_dsat (what := what) nameBody_sat i v hv
    cases v <;> simp_all [AVal.kind, avalReq]
  | appInfo =>
    have := inStruct_dsat (what := what) appInfoBody_sat i v hv
    cases v <;> simp_all [AVal.kind, avalReq]
  | cryptoParams => obtain ⟨x, _, rfl⟩ := map_ok hv; rfl
  | digest =>
    have := inStruct_dsat (what := what) digestBody_sat i v hv
    cases v <;> simp_all [AVal.kind, avalReq]
  | notImplemented => cases hv

/-! ### attributes -/

theorem valueByName_specOk : valueByName.all (fun p => specOk p.2) = true := by decide +kernel
theorem valueByTag_specOk : valueByTag.all (fun p => specOk p.2) = true := by decide +kernel

/-- a 1.x attribute named Cryptographic Length is read as an Integer -/
theorem cryptoLength_spec : (match specOfName "Cryptographic Length" with | .ok .int => true | _ => false) = true := by
  decide +kernel

/-- a 2.0 attribute whose tag is Cryptographic Length's is read as an Integer -/
theorem valueByTag_specFor :
    valueByTag.all (fun p => match nameOfTag p.1 with | some n => specFor n p.2 | none => true) = true := by
  decide +kernel

theorem specOfName_ok {name : String} {spec : VSpec} (h : specOfName name = .ok spec) :
    specOk spec = true ∧ specFor name spec = true := by
  constructor
  · unfold specOfName at h
    split at h
    · cases h
    · split at h
      · rename_i s hl
        simp only [Except.ok.injEq] at h; subst h
        exact List.all_eq_true.1 valueByName_specOk _ (lookup_mem _ _ _ hl)
      · split at h
        · cases h
        · split at h
          · simp only [Except.ok.injEq] at h; subst h; rfl
          · cases h
  · simp only [specFor, Bool.or_eq_true, Bool.not_eq_true', beq_iff_eq]
    by_cases hn : name = "Cryptographic Length"
    · right
      subst hn
      have := cryptoLength_spec
      rw [h] at this
      cases spec <;> first | rfl | cases this
    · left; simpa using hn

theorem attributeBody_satR : SatR attributeBody (fun a => tattrReq a = true) := by
  unfold attributeBody
  refine SatR.bind (Q := fun _ => True) (by skipR) (fun name _ => ?_)
  refine SatR.bind (opt_satR (fun i hi => asInt_r hi)) (fun index hidx => ?_)
  refine SatR.bind (Q := fun spec => specOk spec = true ∧ specFor name spec = true)
    (lift_satR (fun spec hs => specOfName_ok hs)) (fun spec hspec => ?_)
  refine SatR.bind (req_satR (fun i hi => readValue_r hspec.1 hspec.2 hi)) (fun value hval => ?_)
  refine SatR.bind (done_satR _) (fun _ _ => SatR.pure ?_)
  simp only [tattrReq, Bool.and_eq_true]
  refine ⟨hval, ?_⟩
  cases index with
  | none => rfl
  | some x => rw [optAll_some]; exact hidx x rfl

theorem attribute1x_r {i : TItem} (hi : Ranged i) : DSat (attribute1x i) (fun a => tattrReq a = true) :=
  inStruct_dsatR attributeBody_satR i hi

theorem attrByTag_r {i : TItem} (hi : Ranged i) : DSat (attrByTag i) (fun a => tattrReq a = true) := by
  intro a ha
  unfold attrByTag at ha
  simp only at ha
  split at ha
  · cases ha
  · split at ha
    · cases ha
    · split at ha
      · rename_i spec name hs hn
        obtain ⟨v, hv, rfl⟩ := map_ok ha
        have hmem := lookup_mem _ _ _ hs
        have h1 := List.all_eq_true.1 valueByTag_specOk _ hmem
        have h2 := List.all_eq_true.1 valueByTag_specFor _ hmem
        simp only [hn] at h2
        simp only [tattrReq, Bool.and_eq_true]
        exact ⟨readValue_r h1 h2 hi v hv, rfl⟩
      · cases ha

theorem mapD_r {α : Type} {P : α → Prop} {f : TItem → D α} (h : ∀ i, Ranged i → DSat (f i) P) :
    ∀ (l : List TItem), RangedL l → DSat (mapD f l) (fun bs => ∀ b ∈ bs, P b)
  | [], _ => by intro bs hb; unfold mapD at hb; cases hb; intro b hb; cases hb
  | a :: as, hl => by
    simp only [RangedL] at hl
    intro bs hb
    unfold mapD at hb
    cases hf : f a with
    | error e => rw [hf] at hb; cases hb
    | ok b =>
      rw [hf] at hb
      simp only at hb
      cases hr : mapD f as with
      | error e => rw [hr] at hb; cases hb
      | ok bs' =>
        rw [hr] at hb
        cases hb
        intro x hx
        rcases List.mem_cons.mp hx with rfl | hx
        · exact h a hl.1 x hf
        · exact mapD_r h as hl.2 bs' hr x hx

theorem attributes20_r {what : String} {i : TItem} (hi : Ranged i) :
    DSat (attributes20 what i) (fun as => ∀ a ∈ as, tattrReq a = true) := by
  cases i with
  | prim t v => intro as h; cases h
  | struct t ks =>
    simp only [Ranged] at hi
    exact mapD_r (fun i hi => attrByTag_r hi) ks hi

theorem attrHolder_r {what : String} {i : TItem} (hi : Ranged i) : DSat (attrHolder what i) (fun a => tattrReq a = true) := by
  refine inStruct_dsatR ?_ i hi
  intro s a s' hs hh
  unfold attrHolderBody at hh
  cases s with
  | nil => cases hh
  | cons i0 rest =>
    simp only [RangedL] at hs
    simp only at hh
    cases hat : attrByTag i0 with
    | error e => rw [hat] at hh; cases hh
    | ok a0 =>
      rw [hat] at hh
      simp only at hh
      split at hh
      · cases hh; exact ⟨attrByTag_r hs.1 _ hat, trivial⟩
      · cases hh

/-! ### templates -/

def tmplOk (t : Template) : Prop := ∀ a ∈ t.attrs, tattrReq a = true

theorem template1x_r {i : TItem} (hi : Ranged i) : DSat (template1x i) tmplOk := by
  refine inStruct_dsatR ?_ i hi
  unfold templateBody
  refine SatR.bind (Q := fun _ => True) (by skipR) (fun names _ => ?_)
  refine SatR.bind (many_satR (fun i hi => attribute1x_r hi)) (fun attrs hattrs => ?_)
  exact SatR.bind (done_satR _) (fun _ _ => SatR.pure hattrs)

theorem template20_r {what : String} {i : TItem} (hi : Ranged i) : DSat (template20 what i) tmplOk := by
  intro t ht
  obtain ⟨as, has, rfl⟩ := map_ok ht
  exact attributes20_r hi as has

theorem tmplReq_some {t : Template} (h : tmplOk t) : tmplReq (some t) = true := by
  simp only [tmplReq, optAll, List.all_eq_true]; exact h

theorem reqTemplate_satR (v : Nat) : SatR (reqTemplate v) tmplOk := by
  unfold reqTemplate
  exact SatR.ite (fun _ => req_satR (fun i hi => template1x_r hi)) (fun _ => req_satR (fun i hi => template20_r hi))

theorem optTemplate_satR (v t1 t2 : Nat) : SatR (optTemplate v t1 t2) (fun o => tmplReq o = true) := by
  unfold optTemplate
  refine SatR.ite (fun _ => ?_) (fun _ => ?_)
  · refine (opt_satR (fun i hi => template1x_r hi)).weaken (fun o ho => ?_)
    cases o with
    | none => rfl
    | some t => exact tmplReq_some (ho t rfl)
  · refine (opt_satR (fun i hi => template20_r hi)).weaken (fun o ho => ?_)
    cases o with
    | none => rfl
    | some t => exact tmplReq_some (ho t rfl)

/-! ### key blocks and managed objects -/

theorem enums_small : smallL E.keyFormatType = true ∧ smallL E.cryptographicAlgorithm = true ∧
    smallL E.certificateType = true ∧ smallL E.secretDataType = true ∧ smallL E.opaqueDataType = true ∧
    smallL E.operation = true := by decide +kernel

def kbOk (kb : KB) : Prop :=
  u32 kb.format = true ∧ optAll u32 kb.alg = true ∧ optAll i32 kb.len = true

theorem opt_all {α : Type} {p : α → Bool} {o : Option α} (h : ∀ a, o = some a → p a = true) : optAll p o = true := by
  cases o with
  | none => rfl
  | some a => rw [optAll_some]; exact h a rfl

theorem keyBlock_r {i : TItem} (hi : Ranged i) : DSat (keyBlock i) kbOk := by
  refine inStruct_dsatR ?_ i hi
  refine SatR.bind (req_satR (fun i _ => asEnum_u32 enums_small.1)) (fun fmt hfmt => ?_)
  refine SatR.bind (Q := fun _ => True) (by skipR) (fun _ _ => ?_)
  refine SatR.bind (Q := fun _ => True) (by skipR) (fun v _ => ?_)
  refine SatR.bind (opt_satR (fun i _ => asEnum_u32 enums_small.2.1)) (fun alg halg => ?_)
  refine SatR.bind (opt_satR (fun i hi => asInt_r hi)) (fun len hlen => ?_)
  refine SatR.bind (Q := fun _ => True) (by skipR) (fun _ _ => ?_)
  refine SatR.bind (done_satR _) (fun _ _ => SatR.pure ?_)
  exact ⟨hfmt, opt_all halg, opt_all hlen⟩

theorem regOfKB_r {ot : Nat} {st : Option Nat} {kb : KB} (hot : u32 ot = true) (hst : optAll u32 st = true)
    (hkb : kbOk kb) : DSat (regOfKB ot st kb) (fun ro => regReq ro = true) := by
  intro ro h
  unfold regOfKB at h
  obtain ⟨hf, ha, hl⟩ := hkb
  split at h
  · cases h
  · rename_i n hn
    simp only [Except.ok.injEq] at h; subst h
    rw [hn, optAll_some] at hl
    simp only [regReq, Bool.and_eq_true]
    refine ⟨⟨⟨⟨hot, ha⟩, ?_⟩, ?_⟩, hst⟩
    · rw [optAll_some]; exact hl
    · rw [optAll_some]; exact hf
  · simp only [Except.ok.injEq] at h; subst h
    simp only [regReq, Bool.and_eq_true]
    refine ⟨⟨⟨⟨hot, ha⟩, rfl⟩, ?_⟩, hst⟩
    rw [optAll_some]; exact hf

theorem secretReader_r {ot tag : Nat} {rd : TItem → D RegObj} (h : secretReader ot = some (tag, rd)) {i : TItem}
    (hi : Ranged i) : DSat (rd i) (fun ro => regReq ro = true) := by
  unfold secretReader at h
  split at h
  · simp only [Option.some.injEq, Prod.mk.injEq] at h
    obtain ⟨_, rfl⟩ := h
    refine inStruct_dsatR ?_ i hi
    refine SatR.bind (req_satR (fun i _ => asEnum_u32 enums_small.2.2.1)) (fun ct hct => ?_)
    refine SatR.bind (Q := fun _ => True) (by skipR) (fun v _ => ?_)
    refine SatR.bind (done_satR _) (fun _ _ => SatR.pure ?_)
    simp only [regReq, Bool.and_eq_true]
    exact ⟨⟨⟨⟨by decide, rfl⟩, rfl⟩, rfl⟩, by rw [optAll_some]; exact hct⟩
  · split at h
    · rename_i hot
      simp only [Option.some.injEq, Prod.mk.injEq] at h
      obtain ⟨_, rfl⟩ := h
      refine inStruct_dsatR ?_ i hi
      refine SatR.bind (req_satR (fun i hi => keyBlock_r hi)) (fun kb hkb => ?_)
      refine SatR.bind (done_satR _) (fun _ _ => ?_)
      refine lift_satR (regOfKB_r ?_ rfl hkb)
      rcases hot with rfl | rfl | rfl <;> decide
    · split at h
      · simp only [Option.some.injEq, Prod.mk.injEq] at h
        obtain ⟨_, rfl⟩ := h
        refine inStruct_dsatR ?_ i hi
        refine SatR.bind (Q := fun _ => True) (by skipR) (fun _ _ => ?_)
        refine SatR.bind (Q := fun _ => True) (by skipR) (fun _ _ => ?_)
        refine SatR.bind (Q := fun _ => True) (by skipR) (fun _ _ => ?_)
        refine SatR.bind (Q := fun _ => True) (by skipR) (fun m _ => ?_)
        refine SatR.bind (Q := fun _ => True) (by skipR) (fun p _ => ?_)
        refine SatR.ite (fun _ => SatR.fail _) (fun _ => ?_)
        refine SatR.bind (req_satR (fun i hi => keyBlock_r hi)) (fun kb hkb => ?_)
        refine SatR.bind (done_satR _) (fun _ _ => ?_)
        exact lift_satR (regOfKB_r (by decide) rfl hkb)
      · split at h
        · simp only [Option.some.injEq, Prod.mk.injEq] at h
          obtain ⟨_, rfl⟩ := h
          refine inStruct_dsatR ?_ i hi
          refine SatR.bind (Q := fun _ => True) (req_satR (fun _ _ => DSat.triv _)) (fun _ _ => ?_)
          refine SatR.bind (Q := fun _ => True)
            ((many_satR (P := fun _ => True) (fun _ _ => DSat.triv _)).weaken (fun _ _ => trivial)) (fun _ _ => ?_)
          refine SatR.bind (done_satR _) (fun _ _ => SatR.pure ?_)
          decide
        · split at h
          · simp only [Option.some.injEq, Prod.mk.injEq] at h
            obtain ⟨_, rfl⟩ := h
            refine inStruct_dsatR ?_ i hi
            refine SatR.bind (req_satR (fun i _ => asEnum_u32 enums_small.2.2.2.1)) (fun st hst => ?_)
            refine SatR.bind (req_satR (fun i hi => keyBlock_r hi)) (fun kb hkb => ?_)
            refine SatR.bind (done_satR _) (fun _ _ => ?_)
            exact lift_satR (regOfKB_r (by decide) (by rw [optAll_some]; exact hst) hkb)
          · split at h
            · simp only [Option.some.injEq, Prod.mk.injEq] at h
              obtain ⟨_, rfl⟩ := h
              refine inStruct_dsatR ?_ i hi
              refine SatR.bind (req_satR (fun i _ => asEnum_u32 enums_small.2.2.2.2.1)) (fun t ht => ?_)
              refine SatR.bind (Q := fun _ => True) (by skipR) (fun v _ => ?_)
              refine SatR.bind (done_satR _) (fun _ _ => SatR.pure ?_)
              simp only [regReq, Bool.and_eq_true]
              exact ⟨⟨⟨⟨by decide, rfl⟩, rfl⟩, rfl⟩, by rw [optAll_some]; exact ht⟩
            · cases h

/-! ### payloads -/

/-- only the result matters (the body of a structure: what is left over is dropped) -/
def SatP {α} (m : Rd α) (P : α → Prop) : Prop := ∀ s a s', RangedL s → m s = .ok (a, s') → P a

theorem SatR.toP {α} {m : Rd α} {P : α → Prop} (h : SatR m P) : SatP m P := fun s a s' hs hh => (h s a s' hs hh).1
theorem Sat.toP {α} {m : Rd α} {P : α → Prop} (h : Sat m P) : SatP m P := fun s a s' _ hh => h s a s' hh

theorem inStruct_dsatP {α} {P : α → Prop} {what : String} {body : Rd α} (h : SatP body P) (i : TItem)
    (hi : Ranged i) : DSat (inStruct what body i) P := by
  intro a ha
  cases i with
  | prim t v => cases ha
  | struct t kids =>
    simp only [inStruct] at ha
    cases hb : body.run kids with
    | error e => rw [hb] at ha; cases ha
    | ok p =>
      obtain ⟨x, r⟩ := p
      rw [hb] at ha
      cases ha
      simp only [Ranged] at hi
      exact h kids a r hi hb

/-- a body whose payload carries nothing that reaches the store -/
macro "sat_req" : tactic =>
  `(tactic| repeat' (first
      | exact Sat.fail _
      | exact Sat.pure rfl
      | (refine Sat.ite (fun _ => ?_) (fun _ => ?_))
      | (refine Sat.bind (Sat.triv _) (fun _ _ => ?_))
      | split))

abbrev PReq (p : Payload) : Prop := payloadReq p = true

theorem createBody_r (v : Nat) : SatR (createBody v) PReq := by
  unfold createBody
  refine SatR.bind (Q := fun _ => True) (by skipR) (fun ot _ => ?_)
  refine SatR.bind (reqTemplate_satR v) (fun t ht => ?_)
  refine SatR.bind (optMasks_satR _ _) (fun _ _ => ?_)
  exact SatR.bind (done_satR _) (fun _ _ => SatR.pure (tmplReq_some ht))

theorem createKeyPairBody_r (v : Nat) : SatR (createKeyPairBody v) PReq := by
  unfold createKeyPairBody
  refine SatR.bind (optTemplate_satR _ _ _) (fun c hc => ?_)
  refine SatR.bind (optTemplate_satR _ _ _) (fun pr hpr => ?_)
  refine SatR.bind (optTemplate_satR _ _ _) (fun pu hpu => ?_)
  refine SatR.bind (optMasks_satR _ _) (fun _ _ => ?_)
  refine SatR.bind (optMasks_satR _ _) (fun _ _ => ?_)
  refine SatR.bind (optMasks_satR _ _) (fun _ _ => ?_)
  refine SatR.bind (done_satR _) (fun _ _ => SatR.pure ?_)
  simp only [PReq, payloadReq, Bool.and_eq_true]; exact ⟨⟨hc, hpr⟩, hpu⟩

theorem registerBody_r (v : Nat) : SatR (registerBody v) PReq := by
  unfold registerBody
  refine SatR.bind (Q := fun _ => True) (by skipR) (fun ot _ => ?_)
  refine SatR.bind (reqTemplate_satR v) (fun t ht => ?_)
  split
  · exact SatR.fail _
  · rename_i tag rd hrd
    refine SatR.bind (req_satR (fun i hi => secretReader_r hrd hi)) (fun o ho => ?_)
    refine SatR.bind (optMasks_satR _ _) (fun _ _ => ?_)
    refine SatR.bind (done_satR _) (fun _ _ => SatR.pure ?_)
    simp only [PReq, payloadReq, Bool.and_eq_true, optAll_some]; exact ⟨tmplReq_some ht, ho⟩

theorem deriveKeyBody_r (v : Nat) : SatR (deriveKeyBody v) PReq := by
  unfold deriveKeyBody
  refine SatR.bind (Q := fun _ => True) (by skipR) (fun ot _ => ?_)
  refine SatR.bind (Q := fun _ => True) (by skipR) (fun us _ => ?_)
  refine SatR.ite (fun _ => SatR.fail _) (fun _ => ?_)
  refine SatR.bind (Q := fun _ => True) (by skipR) (fun _ _ => ?_)
  refine SatR.bind (Q := fun _ => True) (by skipR) (fun d _ => ?_)
  refine SatR.bind (reqTemplate_satR v) (fun t ht => ?_)
  exact SatR.bind (done_satR _) (fun _ _ => SatR.pure (tmplReq_some ht))

theorem setAttributeBody_r (v : Nat) : SatR (setAttributeBody v) PReq := by
  unfold setAttributeBody
  refine SatR.ite (fun _ => SatR.fail _) (fun _ => ?_)
  refine SatR.bind uidField_satR (fun u _ => ?_)
  refine SatR.bind (req_satR (fun i hi => attrHolder_r hi)) (fun a ha => ?_)
  exact SatR.bind (done_satR _) (fun _ _ => SatR.pure ha)

theorem modifyAttributeBody_r (v : Nat) : SatR (modifyAttributeBody v) PReq := by
  unfold modifyAttributeBody
  refine SatR.bind uidField_satR (fun u _ => ?_)
  refine SatR.ite (fun _ => ?_) (fun _ => ?_)
  · refine SatR.bind (req_satR (fun i hi => attribute1x_r hi)) (fun a ha => ?_)
    refine SatR.bind (done_satR _) (fun _ _ => SatR.pure ?_)
    simp only [PReq, payloadReq, Bool.and_eq_true, optAll_some]; exact ⟨ha, rfl⟩
  · refine SatR.bind (Q := fun _ => True)
      ((opt_satR (P := fun _ => True) (fun _ _ => DSat.triv _)).weaken (fun _ _ => trivial)) (fun cu _ => ?_)
    refine SatR.bind (req_satR (fun i hi => attrHolder_r hi)) (fun nw hnw => ?_)
    refine SatR.bind (done_satR _) (fun _ _ => SatR.pure ?_)
    simp only [PReq, payloadReq, Bool.and_eq_true, optAll_some]; exact ⟨rfl, hnw⟩

theorem deleteAttributeBody_r (v : Nat) : SatR (deleteAttributeBody v) PReq := by
  unfold deleteAttributeBody
  refine SatR.bind uidField_satR (fun u _ => ?_)
  refine SatR.ite (fun _ => ?_) (fun _ => ?_)
  · refine SatR.bind (Q := fun _ => True) (by skipR) (fun n _ => ?_)
    refine SatR.bind (opt_satR (fun i hi => asInt_r hi)) (fun i hi => ?_)
    refine SatR.bind (done_satR _) (fun _ _ => SatR.pure ?_)
    exact opt_all hi
  · refine SatR.bind (Q := fun _ => True)
      ((opt_satR (P := fun _ => True) (fun _ _ => DSat.triv _)).weaken (fun _ _ => trivial)) (fun cu _ => ?_)
    refine SatR.bind (Q := fun _ => True)
      ((opt_satR (P := fun _ => True) (fun _ _ => DSat.triv _)).weaken (fun _ _ => trivial)) (fun r _ => ?_)
    refine SatR.ite (fun _ => SatR.fail _) (fun _ => ?_)
    exact SatR.bind (done_satR _) (fun _ _ => SatR.pure rfl)

/-- **every decoded payload is in range** -/
theorem trivBody_r {m : Rd Payload} (h : Sat m PReq) : SatP m PReq := Sat.toP h

theorem SatP.ite {α} {P : α → Prop} {c : Prop} [Decidable c] {a b : Rd α}
    (ha : c → SatP a P) (hb : ¬ c → SatP b P) : SatP (if c then a else b) P := by
  by_cases h : c
  · simp only [h, if_true]; exact ha h
  · simp only [h, if_false]; exact hb h

theorem payloadBody_r (op v : Nat) : SatP (payloadBody op v) PReq := by
  unfold payloadBody
  refine SatP.ite (fun _ => (createBody_r v).toP) (fun _ => ?_)
  refine SatP.ite (fun _ => (createKeyPairBody_r v).toP) (fun _ => ?_)
  refine SatP.ite (fun _ => (registerBody_r v).toP) (fun _ => ?_)
  refine SatP.ite (fun _ => (deriveKeyBody_r v).toP) (fun _ => ?_)
  refine SatP.ite (fun _ => trivBody_r (by unfold locateBody; sat_req)) (fun _ => ?_)
  refine SatP.ite (fun _ => trivBody_r (by unfold getBody; sat_req)) (fun _ => ?_)
  refine SatP.ite (fun _ => trivBody_r (by unfold getAttributesBody; sat_req)) (fun _ => ?_)
  refine SatP.ite (fun _ => trivBody_r (by unfold getAttributeListBody; sat_req)) (fun _ => ?_)
  refine SatP.ite (fun _ => trivBody_r (by unfold activateBody; sat_req)) (fun _ => ?_)
  refine SatP.ite (fun _ => trivBody_r (by unfold revokeBody; sat_req)) (fun _ => ?_)
  refine SatP.ite (fun _ => trivBody_r (by unfold destroyBody; sat_req)) (fun _ => ?_)
  refine SatP.ite (fun _ => trivBody_r (by unfold queryBody; sat_req)) (fun _ => ?_)
  refine SatP.ite (fun _ => trivBody_r (by unfold discoverVersionsBody; sat_req)) (fun _ => ?_)
  refine SatP.ite (fun _ => trivBody_r (by unfold encryptBody; sat_req)) (fun _ => ?_)
  refine SatP.ite (fun _ => trivBody_r (by unfold decryptBody; sat_req)) (fun _ => ?_)
  refine SatP.ite (fun _ => trivBody_r (by unfold signBody; sat_req)) (fun _ => ?_)
  refine SatP.ite (fun _ => trivBody_r (by unfold signatureVerifyBody; sat_req)) (fun _ => ?_)
  refine SatP.ite (fun _ => trivBody_r (by unfold macBody; sat_req)) (fun _ => ?_)
  refine SatP.ite (fun _ => (setAttributeBody_r v).toP) (fun _ => ?_)
  refine SatP.ite (fun _ => (modifyAttributeBody_r v).toP) (fun _ => ?_)
  refine SatP.ite (fun _ => (deleteAttributeBody_r v).toP) (fun _ => ?_)
  exact SatP.ite (fun _ => Sat.toP (Sat.fail _)) (fun _ => Sat.toP (Sat.fail _))

/-! ### batch items, the request -/

theorem batchItemBody_r (ver : Option Nat) : SatR (batchItemBody ver) (fun it => itemReq it = true) := by
  unfold batchItemBody
  refine SatR.bind (Q := fun _ => True) (by skipR) (fun op _ => ?_)
  split
  · exact SatR.fail _
  · rename_i v
    have hp : SatR (req "request payload" T.requestPayload (inStruct "request payload" (payloadBody op v))) PReq :=
      req_satR (fun i hi => inStruct_dsatP (payloadBody_r op v) i hi)
    refine SatR.ite (fun _ => ?_) (fun _ => ?_)
    · refine SatR.bind (Q := fun _ => True) (by skipR) (fun _ _ => ?_)
      refine SatR.bind (Q := fun _ => True) (by skipR) (fun bid _ => ?_)
      refine SatR.bind hp (fun p hpp => ?_)
      refine SatR.bind (Q := fun _ => True) (by skipR) (fun _ _ => ?_)
      refine SatR.bind (done_satR _) (fun _ _ => ?_)
      refine SatR.bind (Q := fun _ => True) (lift_satR (DSat.triv _)) (fun b _ => SatR.pure ?_)
      simp only [itemReq, Bool.and_eq_true]; exact ⟨hpp, rfl⟩
    · refine SatR.bind (Q := fun _ => True) (by skipR) (fun bid _ => ?_)
      refine SatR.bind hp (fun p hpp => ?_)
      refine SatR.bind (Q := fun _ => True) (by skipR) (fun _ _ => ?_)
      refine SatR.bind (done_satR _) (fun _ _ => ?_)
      refine SatR.bind (Q := fun _ => True) (lift_satR (DSat.triv _)) (fun b _ => SatR.pure ?_)
      simp only [itemReq, Bool.and_eq_true]; exact ⟨hpp, rfl⟩

theorem takeItems_r (ver : Option Nat) : ∀ (n : Nat) (l : List TItem), RangedL l →
    DSat (takeItems ver n l) (fun items => ∀ it ∈ items, itemReq it = true)
  | 0, _, _ => by intro items h; unfold takeItems at h; cases h; intro it hit; cases hit
  | _ + 1, [], _ => by intro items h; unfold takeItems at h; cases h
  | n + 1, i :: rest, hl => by
    simp only [RangedL] at hl
    intro items h
    unfold takeItems at h
    split at h
    · cases hb : batchItem ver i with
      | error e => rw [hb] at h; cases h
      | ok x =>
        rw [hb] at h
        simp only at h
        cases hr : takeItems ver n rest with
        | error e => rw [hr] at h; cases h
        | ok xs =>
          rw [hr] at h
          cases h
          intro it hit
          rcases List.mem_cons.mp hit with rfl | hit
          · exact inStruct_dsatR (batchItemBody_r ver) i hl.1 _ hb
          · exact takeItems_r ver n rest hl.2 xs hr it hit
    · cases h

theorem kmipVersion_le (p : Int × Int) : (kmipVersion p).getD 0 ≤ 20 := by
  unfold kmipVersion
  repeat' split
  all_goals decide

theorem headerBody_version : Sat headerBody (fun hd => hd.version.getD 0 ≤ 20) := by
  unfold headerBody
  refine Sat.bind (Sat.triv _) (fun pv _ => ?_)
  repeat (refine Sat.bind (Sat.triv _) (fun _ _ => ?_))
  exact Sat.pure (kmipVersion_le pv)

/-- **`decode_in_range`**: whatever tree of ranged items the request is decoded from, it is in range -/
theorem decodeRequest_in_range (dv : Nat) (t : TItem) (ht : Ranged t) (r : Request)
    (h : decodeRequest dv t = .ok r) : RequestInRange r := by
  cases t with
  | prim _ _ => cases h
  | struct tg kids =>
    simp only [Ranged] at ht
    simp only [decodeRequest] at h
    split at h
    · split at h
      · rename_i hd0 rest
        simp only [RangedL] at ht
        split at h
        · split at h
          · cases h
          · rename_i hd hhd
            split at h
            · cases h
            · rename_i items hitems
              have hver := inStruct_dsat headerBody_version hd0 hd hhd
              have hit := takeItems_r hd.version _ rest ht.2 items hitems
              split at h
              · cases h
              · simp only [Except.ok.injEq] at h; subst h
                simp only [RequestInRange, requestInRange, Bool.and_eq_true, decide_eq_true_eq, List.all_eq_true]
                exact ⟨by omega, hit⟩
        · cases h
      · cases h
    · cases h

/-- **every request decoded from bytes is in range** - no hypothesis on the bytes -/
theorem decode_in_range (dv : Nat) (bs : Bytes) (r : Request) (h : decodeFrame dv bs = .ok r) : RequestInRange r :=
  decodeRequest_in_range dv _ (lenientTop_ranged bs) r h

end Kmip.Decode
