/-
Helper lemmas about the engine model: what a successful handler can do to the store.
-/
import KmipModel.Engine.Batch
namespace Kmip

/-- split every `if`/`match` in hypothesis `h` (zeta-reducing `have`s in the way) -/
macro "split_all" h:ident : tactic =>
  `(tactic| repeat' (first | split at $h:ident | (dsimp only at $h:ident; split at $h:ident)))

/-- discharge the goals whose hypotheses say that a failing computation succeeded -/
macro "kill_errors" h:ident : tactic =>
  `(tactic| all_goals try (first
      | (simp [kerr, ierr, cryptoErr] at $h:ident; done)
      | (exfalso; simp_all [kerr, ierr, cryptoErr, pure, Except.pure]; done)))

/-! ### inversion of successful `do` blocks (no case explosion) -/
theorem bind_ok {α β} (x : R α) (f : α → R β) (r : β) :
    (x >>= f) = Except.ok r ↔ ∃ a, x = Except.ok a ∧ f a = Except.ok r := by
  cases x <;> simp [bind, Except.bind]
theorem ite_kerr {β} (c : Prop) [Decidable c] (rs : Nat) (m : String) (y : R β) (r : β) :
    (if c then kerr rs m else y) = Except.ok r ↔ ¬ c ∧ y = Except.ok r := by
  by_cases h : c <;> simp [h, kerr]
theorem ite_ierr {β} (c : Prop) [Decidable c] (m : String) (y : R β) (r : β) :
    (if c then ierr m else y) = Except.ok r ↔ ¬ c ∧ y = Except.ok r := by
  by_cases h : c <;> simp [h, ierr]
theorem ite_kerr' {β} (c : Prop) [Decidable c] (rs : Nat) (m : String) (y : R β) (r : β) :
    (if c then y else kerr rs m) = Except.ok r ↔ c ∧ y = Except.ok r := by
  by_cases h : c <;> simp [h, kerr]
theorem ite_ierr' {β} (c : Prop) [Decidable c] (m : String) (y : R β) (r : β) :
    (if c then y else ierr m) = Except.ok r ↔ c ∧ y = Except.ok r := by
  by_cases h : c <;> simp [h, ierr]
theorem kerr_ne {β} (rs : Nat) (m : String) (r : β) : (kerr rs m : R β) = Except.ok r ↔ False := by simp [kerr]
theorem ierr_ne {β} (m : String) (r : β) : (ierr m : R β) = Except.ok r ↔ False := by simp [ierr]
theorem pure_ok {β} (a r : β) : (pure a : R β) = Except.ok r ↔ a = r := by simp [pure, Except.pure]
theorem error_ne {β} (err : Err) (r : β) : (Except.error err : R β) = Except.ok r ↔ False := by simp

/-- turn `h : (do …) = .ok r` into the facts each step established -/
macro "inv" h:ident : tactic =>
  `(tactic| simp only [bind_ok, ite_kerr, ite_ierr, ite_kerr', ite_ierr', kerr_ne, ierr_ne, pure_ok, error_ne,
      false_and, and_false, exists_false, exists_const, Prod.mk.injEq, Except.ok.injEq] at $h:ident)

/-- strip `h : ∃ a, A ∧ ∃ b, B ∧ … ∧ Z` down to `h : Z`, leaving the other facts anonymous in the context -/
macro "strip" h:ident : tactic => `(tactic| repeat (obtain ⟨_, $h:ident⟩ := $h:ident))

def Allowed (c : Ctx) (e : Engine) (o : Obj) (op : Nat) : Prop :=
  allowedByPolicy c.policies o.policy e.identity o.owner o.otype op = true

/-- fields no attribute operation and no template attribute can ever touch -/
structure CoreEq (o o' : Obj) : Prop where
  uid : o'.uid = o.uid
  otype : o'.otype = o.otype
  owner : o'.owner = o.owner
  state : o'.state = o.state
  date : o'.initialDate = o.initialDate
  value : o'.value = o.value
  isKey : o'.isKey = o.isKey
  format : o'.format = o.format
  subtype : o'.subtype = o.subtype

theorem CoreEq.refl (o : Obj) : CoreEq o o := ⟨rfl, rfl, rfl, rfl, rfl, rfl, rfl, rfl, rfl⟩
theorem CoreEq.trans {a b c : Obj} (h1 : CoreEq a b) (h2 : CoreEq b c) : CoreEq a c :=
  ⟨h2.uid.trans h1.uid, h2.otype.trans h1.otype, h2.owner.trans h1.owner, h2.state.trans h1.state,
   h2.date.trans h1.date, h2.value.trans h1.value, h2.isKey.trans h1.isKey, h2.format.trans h1.format,
   h2.subtype.trans h1.subtype⟩

/-- additionally: algorithm, length, usage mask and policy name unchanged -/
structure ProtEq (o o' : Obj) : Prop extends CoreEq o o' where
  alg : o'.alg = o.alg
  len : o'.len = o.len
  mask : o'.mask = o.mask
  policy : o'.policy = o.policy

theorem ProtEq.refl (o : Obj) : ProtEq o o := ⟨CoreEq.refl o, rfl, rfl, rfl, rfl⟩

theorem find?_mem_objs {s : Store} {u : Nat} {o : Obj} (h : s.find u = some o) : o ∈ s.objs ∧ o.uid = u := by
  unfold Store.find at h
  have h1 := List.mem_of_find?_eq_some h
  have h2 := List.find?_some h
  exact ⟨h1, by simpa using h2⟩

theorem lookup_mem {s : Store} {uid : Option String} {o : Obj} (h : s.lookup uid = some o) :
    o ∈ s.objs ∧ ∃ str, uid = some str ∧ parseUid str = some o.uid := by
  unfold Store.lookup at h
  split at h
  · simp at h
  · rename_i str
    split at h
    · simp at h
    · rename_i u hu
      have := find?_mem_objs h
      exact ⟨this.1, str, rfl, by rw [this.2]; exact hu⟩

theorem getWithAccess_ok {c : Ctx} {e : Engine} {uid : Option String} {op : Nat} {o : Obj}
    (h : getWithAccess c e uid op = .ok o) :
    e.store.lookup uid = some o ∧ o ∈ e.store.objs ∧ Allowed c e o op := by
  unfold getWithAccess at h
  split at h
  · simp [kerr] at h
  · rename_i o' ho'
    split at h
    · rename_i ha
      simp only [pure, Except.pure, Except.ok.injEq] at h
      subst h
      exact ⟨ho', (lookup_mem ho').1, ha⟩
    · simp [kerr] at h

/-! ### attribute setters preserve the core fields -/

theorem setSingle_core {o o' : Obj} {n : String} {v : AVal} (h : setSingle o n v = .ok o') : CoreEq o o' := by
  unfold setSingle at h
  split_all h
  all_goals first
    | (simp [kerr, ierr] at h; done)
    | (simp only [pure, Except.pure, Except.ok.injEq] at h; subst h; exact ⟨rfl, rfl, rfl, rfl, rfl, rfl, rfl, rfl, rfl⟩)

theorem setMulti_core {o o' : Obj} {n : String} {vs : List AVal} (h : setMulti o n vs = .ok o') : CoreEq o o' := by
  unfold setMulti at h
  split_all h
  all_goals first
    | (simp [kerr, ierr] at h; done)
    | (simp only [pure, Except.pure, Except.ok.injEq] at h; subst h; exact ⟨rfl, rfl, rfl, rfl, rfl, rfl, rfl, rfl, rfl⟩)

theorem setAttr_core {c : Ctx} {o o' : Obj} {n : String} {v : Collected} (h : setAttr c o n v = .ok o') :
    CoreEq o o' := by
  unfold setAttr at h
  simp only [bind, Except.bind] at h
  split at h
  · simp at h
  · split at h
    · split at h
      · exact setMulti_core h
      · simp [ierr] at h
    · split at h
      · exact setSingle_core h
      · simp [ierr] at h

theorem setAttrs_core {c : Ctx} {d : AttrDict} {o o' : Obj} (h : setAttrs c o d = .ok o') : CoreEq o o' := by
  unfold setAttrs at h
  induction d generalizing o with
  | nil => simp [List.foldlM, pure, Except.pure] at h; subst h; exact CoreEq.refl _
  | cons kv rest ih =>
    simp only [List.foldlM, bind, Except.bind] at h
    split at h
    · simp at h
    · rename_i o1 h1
      have hc : CoreEq o o1 := by
        split at h1
        · simp at h1
        · split at h1
          · exact setAttr_core h1
          · simp [kerr] at h1
      exact hc.trans (ih h)

/-! ### the usage mask stays present -/

def storedTypes : List Nat :=
  [OT.certificate, OT.symmetricKey, OT.publicKey, OT.privateKey, OT.splitKey, OT.secretData, OT.opaqueData]

theorem setSingle_maskSome {o o' : Obj} {n : String} {v : AVal} (h : setSingle o n v = .ok o')
    (hm : o.mask.isSome = true) : o'.mask.isSome = true := by
  unfold setSingle at h
  repeat' (first
    | (split at h)
    | (cases h; done)
    | (simp only [pure, Except.pure, Except.ok.injEq] at h; subst h; first | exact hm | rfl)
    | (dsimp only at h))

theorem setMulti_mask {o o' : Obj} {n : String} {vs : List AVal} (h : setMulti o n vs = .ok o') :
    o'.mask = o.mask := by
  unfold setMulti at h
  repeat' (first
    | (split at h)
    | (cases h; done)
    | (simp only [pure, Except.pure, Except.ok.injEq] at h; subst h; rfl)
    | (dsimp only at h))

theorem setAttr_maskSome {c : Ctx} {o o' : Obj} {n : String} {v : Collected} (h : setAttr c o n v = .ok o')
    (hm : o.mask.isSome = true) : o'.mask.isSome = true := by
  unfold setAttr at h
  simp only [Ctx.isMultivalued, bind, Except.bind, pure, Except.pure] at h
  repeat' (first
    | (split at h)
    | (cases h; done)
    | (rw [setMulti_mask h]; exact hm)
    | exact setSingle_maskSome h hm)

theorem setAttrs_maskSome {c : Ctx} {d : AttrDict} {o o' : Obj} (h : setAttrs c o d = .ok o')
    (hm : o.mask.isSome = true) : o'.mask.isSome = true := by
  unfold setAttrs at h
  induction d generalizing o with
  | nil => simp [List.foldlM, pure, Except.pure] at h; subst h; exact hm
  | cons kv rest ih =>
    simp only [List.foldlM, bind, Except.bind] at h
    split at h
    · simp at h
    · rename_i o1 h1
      have hc : o1.mask.isSome = true := by
        split at h1
        · simp at h1
        · split at h1
          · exact setAttr_maskSome h1 hm
          · simp [kerr] at h1
      exact ih h hc

/-! ### attribute operations change only names / groups / app-info / sensitive -/

def protected4 : List String :=
  ["Cryptographic Algorithm", "Cryptographic Length", "Cryptographic Usage Mask", "Operation Policy Name"]

theorem setSingle_prot {o o' : Obj} {n : String} {v : AVal} (hn : n ∉ protected4)
    (h : setSingle o n v = .ok o') : ProtEq o o' := by
  have h1 : (n == "Cryptographic Algorithm") = false := by
    simp only [protected4, List.mem_cons, not_or] at hn; simp [hn.1]
  have h2 : (n == "Cryptographic Length") = false := by
    simp only [protected4, List.mem_cons, not_or] at hn; simp [hn.2.1]
  have h3 : (n == "Cryptographic Usage Mask") = false := by
    simp only [protected4, List.mem_cons, not_or] at hn; simp [hn.2.2.1]
  have h4 : (n == "Operation Policy Name") = false := by
    simp only [protected4, List.mem_cons, not_or] at hn; simp [hn.2.2.2.1]
  unfold setSingle at h
  simp only [h1, h2, h3, h4, Bool.false_eq_true, if_false] at h
  split_all h
  all_goals first
    | (simp [kerr, ierr] at h; done)
    | (simp only [pure, Except.pure, Except.ok.injEq] at h; subst h
       exact ⟨⟨rfl, rfl, rfl, rfl, rfl, rfl, rfl, rfl, rfl⟩, rfl, rfl, rfl, rfl⟩)

theorem setByIndex_prot {o o' : Obj} {n : String} {v : AVal} {i : Nat}
    (h : setByIndex o n v i = .ok o') : ProtEq o o' := by
  unfold setByIndex at h
  split_all h
  all_goals first
    | (simp [kerr, ierr] at h; done)
    | (simp only [pure, Except.pure, Except.ok.injEq] at h; subst h
       exact ⟨⟨rfl, rfl, rfl, rfl, rfl, rfl, rfl, rfl, rfl⟩, rfl, rfl, rfl, rfl⟩)

theorem delAttr_prot {c : Ctx} {o o' : Obj} {n : String} {i : Option Int} {v : Option AVal}
    (h : delAttr c o n i v = .ok o') : ProtEq o o' := by
  unfold delAttr at h
  simp only [bind, Except.bind] at h
  split_all h
  all_goals first
    | (simp [kerr, ierr] at h; done)
    | (simp only [pure, Except.pure, Except.ok.injEq] at h; subst h
       exact ⟨⟨rfl, rfl, rfl, rfl, rfl, rfl, rfl, rfl, rfl⟩, rfl, rfl, rfl, rfl⟩)

/-- the rule table marks the four stored protected attributes as not client-modifiable -/
def RulesProtect (c : Ctx) : Prop :=
  ∀ n ∈ protected4, ∀ r, c.rule? n = some r → r.modifiableByClient = false

theorem modifiable_not_protected {c : Ctx} (hr : RulesProtect c) {n : String}
    (h : c.isModifiable n = .ok true) : n ∉ protected4 := by
  intro hm
  unfold Ctx.isModifiable at h
  simp only [pure, Except.pure, Except.ok.injEq] at h
  split at h
  · rename_i r hr'
    have := hr n hm r hr'
    simp [this] at h
  · cases h

end Kmip
