/-
What the engine model itself guarantees about the RANGE of the values it answers with (the `dataInRange`
hypothesis of `C02Encode.server_response_wellformed`): everything read from a stored object is in range when the
object is (`ObjInRange`: a statement about the STORE, not about the answer).
-/
import KmipModel.Lemmas.Encode
namespace Kmip.Encode
open Kmip

/-- the value fields of a stored object fit the primitives they are written into -/
structure ObjVals (o : Obj) : Prop where
  otype : u32 o.otype = true
  alg : optAll u32 o.alg = true
  len : optAll (fun (l : Nat) => i32 (Int.ofNat l)) o.len = true
  format : optAll u32 o.format = true
  subtype : optAll u32 o.subtype = true
  mask : optAll (fun (m : Nat) => i32 (Int.ofNat m)) o.mask = true
  state : optAll u32 o.state = true
  date : i64 (Int.ofNat o.initialDate) = true

/-- at most 2^31 instances of each multi-valued attribute -/
structure ObjCounts (o : Obj) : Prop where
  names : o.names.length ≤ 2147483648
  groups : o.groups.length ≤ 2147483648
  appInfo : o.appInfo.length ≤ 2147483648

/-- the fields of a stored object that are written into fixed-width TTLV types fit them; the multi-valued
attributes have at most 2^31 instances (the Attribute Index is an Integer) -/
structure ObjInRange (o : Obj) : Prop where
  otype : u32 o.otype = true
  alg : optAll u32 o.alg = true
  len : optAll (fun (l : Nat) => i32 (Int.ofNat l)) o.len = true
  format : optAll u32 o.format = true
  subtype : optAll u32 o.subtype = true
  mask : optAll (fun (m : Nat) => i32 (Int.ofNat m)) o.mask = true
  state : optAll u32 o.state = true
  date : i64 (Int.ofNat o.initialDate) = true
  names : o.names.length ≤ 2147483648
  groups : o.groups.length ≤ 2147483648
  appInfo : o.appInfo.length ≤ 2147483648

def StoreInRange (s : Store) : Prop := ∀ o ∈ s.objs, ObjInRange o

theorem objInRange_iff (o : Obj) : ObjInRange o ↔ ObjVals o ∧ ObjCounts o :=
  ⟨fun h => ⟨⟨h.otype, h.alg, h.len, h.format, h.subtype, h.mask, h.state, h.date⟩, ⟨h.names, h.groups, h.appInfo⟩⟩,
   fun h => ⟨h.1.otype, h.1.alg, h.1.len, h.1.format, h.1.subtype, h.1.mask, h.1.state, h.1.date,
             h.2.names, h.2.groups, h.2.appInfo⟩⟩

/-- a value that is in range whatever the attribute's name (an Integer that is also an Interval) -/
def avalStrong : AVal → Bool
  | .enum n => u32 n
  | .int n => decide (0 ≤ n ∧ n < 2147483648)
  | .date n => i64 n
  | .name _ t => u32 t
  | _ => true

theorem avalInRange_of_strong (name : String) (v : AVal) (h : avalStrong v = true) : avalInRange name v = true := by
  cases v <;> simp only [avalStrong, avalInRange] at h ⊢ <;> try exact h
  simp only [decide_eq_true_eq] at h
  split
  · simp only [decide_eq_true_eq]; omega
  · simp only [i32, decide_eq_true_eq]; omega

theorem optAll_none {α} (p : α → Bool) : optAll p none = true := rfl

/-- a fresh engine's store is in range -/
example : StoreInRange Engine.init.store := by intro o ho; cases ho

/-! ### Get -/

theorem coreObject_in_range {o : Obj} {value : String} {wrapped : Bool} {uid : String} {d : Data}
    (ho : ObjInRange o) (h : coreObject o value wrapped uid = .ok d) : dataInRange d = true := by
  unfold coreObject at h
  split at h
  · inv h; subst h
    simp only [dataInRange, Bool.and_eq_true]
    exact ⟨⟨⟨⟨ho.otype, rfl⟩, rfl⟩, rfl⟩, ho.subtype⟩
  · split at h
    · inv h; subst h
      simp only [dataInRange, Bool.and_eq_true]
      exact ⟨⟨⟨⟨ho.otype, rfl⟩, rfl⟩, by decide⟩, ho.subtype⟩
    · split at h
      · inv h; subst h
        simp only [dataInRange, Bool.and_eq_true]
        exact ⟨⟨⟨⟨ho.otype, ho.alg⟩, ho.len⟩, ho.format⟩, rfl⟩
      · inv h

/-- **Get answers in range when the store is** -/
theorem get_in_range {c : Ctx} {e : Engine} {u : Option String} {f : Option Nat} {cp : Bool} {w : Option WrapSpec}
    {cr : Crypto} {eff : Effect} {d : Data} (hs : StoreInRange e.store) (h : opGet c e u f cp w cr = .ok (eff, d)) :
    dataInRange d = true := by
  unfold opGet at h
  inv h
  obtain ⟨_, o, ho, _, _, h⟩ := h
  have hin := hs o (getWithAccess_ok ho).2.1
  split at h <;> inv h
  · obtain ⟨dd, hd, _, rfl⟩ := h
    exact coreObject_in_range hin hd
  · obtain ⟨_, _, dd, hd, _, rfl⟩ := h
    exact coreObject_in_range hin hd

/-! ### GetAttributes and the attributes echoed by Modify / DeleteAttribute -/

/-- what a getter returns for an object in range -/
def gotStrong (n : Nat) : Option Got → Prop
  | none => True
  | some (.single v) => avalStrong v = true
  | some (.multi vs) => vs.length ≤ n ∧ ∀ v ∈ vs, avalStrong v = true

theorem getAttr_gen {o : Obj} {name : String} {g : Option Got} {n : Nat} (ho : ObjVals o)
    (hn : o.names.length ≤ n ∧ o.groups.length ≤ n ∧ o.appInfo.length ≤ n) (h : getAttr o name = .ok g) :
    gotStrong n g := by
  unfold getAttr at h
  split at h
  · rename_i f hf
    -- which getter
    simp only [getters, List.lookup] at hf
    repeat' split at hf
    all_goals first
      | (simp only [Option.some.injEq] at hf; subst hf)
      | cases hf
    all_goals try simp only [pure, Except.pure, Except.ok.injEq] at h
    · subst h; exact (rfl : avalStrong (.text _) = true)
    · subst h
      refine ⟨by simpa using hn.1, fun v hv => ?_⟩
      obtain ⟨n, _, rfl⟩ := List.mem_map.1 hv
      rfl
    · subst h; exact ho.otype
    · split at h
      · simp only [Except.ok.injEq] at h; subst h
        cases ha : o.alg with
        | none => trivial
        | some a => have := ho.alg; rw [ha] at this; exact this
      · simp [ierr] at h
    · split at h
      · simp only [Except.ok.injEq] at h; subst h
        cases ha : o.len with
        | none => trivial
        | some a =>
          have := ho.len; rw [ha, optAll_some] at this
          simp only [i32, decide_eq_true_eq, Int.ofNat_eq_natCast] at this
          simp [gotStrong, avalStrong]
          omega
      · simp [ierr] at h
    · split at h
      · simp only [Except.ok.injEq] at h; subst h
        cases ha : o.subtype with
        | none => trivial
        | some a => have := ho.subtype; rw [ha] at this; exact this
      · simp [ierr] at h
    · subst h; exact (rfl : avalStrong (.text _) = true)
    · split at h
      · rename_i m hm
        simp only [Except.ok.injEq] at h; subst h
        have := ho.mask; rw [hm, optAll_some] at this
        simp only [i32, decide_eq_true_eq, Int.ofNat_eq_natCast] at this
        simp only [gotStrong, avalStrong, decide_eq_true_eq]
        omega
      · simp [ierr] at h
    · split at h
      · rename_i s hs
        simp only [Except.ok.injEq] at h; subst h
        have := ho.state; rw [hs] at this; exact this
      · simp [ierr] at h
    · subst h; exact ho.date
    · subst h
      refine ⟨by simpa using hn.2.1, fun v hv => ?_⟩
      obtain ⟨n, _, rfl⟩ := List.mem_map.1 hv
      rfl
    · subst h
      refine ⟨by simpa using hn.2.2, fun v hv => ?_⟩
      obtain ⟨n, _, rfl⟩ := List.mem_map.1 hv
      rfl
    · subst h; exact (rfl : avalStrong (.bool _) = true)
  · simp only [pure, Except.pure, Except.ok.injEq] at h; subst h; trivial

theorem getAttr_strong {o : Obj} {name : String} {g : Option Got} (ho : ObjInRange o) (h : getAttr o name = .ok g) :
    gotStrong 2147483648 g :=
  getAttr_gen ((objInRange_iff o).1 ho).1 ⟨ho.names, ho.groups, ho.appInfo⟩ h

theorem getAttrsStep_in_range {c : Ctx} {ver : Nat} {o : Obj} {name : String} {as : List TAttr}
    (ho : ObjInRange o) (h : getAttrsStep c ver o name = .ok as) : ∀ a ∈ as, tattrInRange a = true := by
  unfold getAttrsStep at h
  inv h
  split at h
  · inv h; subst h; simp
  · inv h
    obtain ⟨dep, _, h⟩ := h
    split at h
    · inv h; subst h; simp
    · inv h
      obtain ⟨app, _, h⟩ := h
      split at h
      · inv h; subst h; simp
      · cases hga : getAttr o name with
        | error err => rw [hga] at h; simp only at h; inv h; subst h; simp
        | ok g =>
        rw [hga] at h
        simp only at h
        have hg := getAttr_strong ho hga
        cases g with
        | none => simp only at h; inv h; subst h; simp
        | some got =>
          inv h
          obtain ⟨mv, _, h⟩ := h
          split at h
          · cases got with
            | multi vs =>
              simp only at h
              inv h; subst h
              have hlen : vs.length ≤ 2147483648 := hg.1
              have hvs : ∀ v ∈ vs, avalStrong v = true := hg.2
              intro a ha
              simp only [List.mem_map] at ha
              obtain ⟨iv, hiv, rfl⟩ := ha
              have hz := List.of_mem_zip hiv
              simp only [tattrInRange, Bool.and_eq_true]
              refine ⟨avalInRange_of_strong _ _ (hvs _ hz.2), ?_⟩
              have : iv.1 < vs.length := List.mem_range.1 hz.1
              rw [optAll_some, i32_iff]
              simp only [Kmip.TTLV.fitsTC]
              have h4 : ((256 ^ 4 : Nat) : Int) = 4294967296 := by decide
              rw [h4]
              omega
            | single v => simp only at h; inv h
          · cases got with
            | single v =>
              simp only at h
              inv h; subst h
              intro a ha
              simp only [List.mem_singleton] at ha
              subst ha
              simp only [tattrInRange, Bool.and_eq_true]
              have hg' : avalStrong v = true := hg
              exact ⟨avalInRange_of_strong _ _ hg', optAll_none _⟩
            | multi vs => simp only at h; inv h

/-- **every attribute the engine reports of an object in range is in range** -/
theorem getAttrs_in_range {c : Ctx} {ver : Nat} {o : Obj} {names : List String} {as : List TAttr}
    (ho : ObjInRange o) (h : getAttrs c ver o names = .ok as) : ∀ a ∈ as, tattrInRange a = true := by
  unfold getAttrs at h
  inv h
  obtain ⟨parts, hp, rfl⟩ := h
  intro a ha
  simp only [List.mem_flatten] at ha
  obtain ⟨part, hpart, hap⟩ := ha
  generalize (if names.isEmpty = true then List.map (fun x => x.name) c.rules else names) = ns at hp
  induction ns generalizing parts with
  | nil => simp [List.mapM_nil, pure, Except.pure] at hp; subst hp; simp at hpart
  | cons n rest ih =>
    rw [List.mapM_cons] at hp
    inv hp
    obtain ⟨p1, hp1, ps, hps, rfl⟩ := hp
    simp only [List.mem_cons] at hpart
    rcases hpart with rfl | hpart
    · exact getAttrsStep_in_range ho hp1 a hap
    · exact ih ps hpart hps

/-- **GetAttributes answers in range when the store is** -/
theorem getAttributes_in_range {c : Ctx} {e : Engine} {u : Option String} {ns : List String} {eff : Effect} {d : Data}
    (hs : StoreInRange e.store) (h : opGetAttributes c e u ns = .ok (eff, d)) : dataInRange d = true := by
  unfold opGetAttributes at h
  inv h
  obtain ⟨o, ho, as, has, _, rfl⟩ := h
  simp only [dataInRange, List.all_eq_true]
  exact getAttrs_in_range (hs o (getWithAccess_ok ho).2.1) has

/-- the attribute DeleteAttribute echoes (1.x) is read from the stored object before the deletion -/
theorem deleteAttribute_in_range {c : Ctx} {e : Engine} {u : Option String} {name : Option String}
    {index : Option Int} {current : Option TAttr} {reference : Option String} {eff : Effect} {d : Data}
    (hs : StoreInRange e.store) (h : opDeleteAttribute c e u name index current reference = .ok (eff, d)) :
    dataInRange d = true := by
  unfold opDeleteAttribute at h
  inv h
  obtain ⟨o, ho, r, hr, _, rfl⟩ := h
  have hin := hs o (getWithAccess_ok ho).2.1
  simp only [dataInRange]
  unfold deleteCore at hr
  split at hr
  · split at hr
    · inv hr; obtain ⟨_, _, rfl⟩ := hr; rfl
    · inv hr; obtain ⟨_, _, rfl⟩ := hr; rfl
    · inv hr
  · split at hr
    · inv hr
    · rename_i nm
      inv hr
      obtain ⟨_, existing, hex, deleted, hdel, _, _, rfl⟩ := hr
      have hall := getAttrs_in_range hin hex
      unfold deletedAttr at hdel
      split at hdel
      · split at hdel
        · inv hdel; subst hdel
          cases hx : existing[0]? with
          | none => rfl
          | some a => exact hall a (List.mem_of_getElem? hx)
        · split at hdel
          · inv hdel; subst hdel
            cases hx : existing[(index.getD 0).toNat]? with
            | none => rfl
            | some a => exact hall a (List.mem_of_getElem? hx)
          · inv hdel
      · inv hdel; subst hdel; rfl

/-- from 2.0 on ModifyAttribute echoes no attribute -/
theorem modifyCore_20 {c : Ctx} {ver : Nat} {o : Obj} {attr current new : Option TAttr} {r : Obj × Option TAttr}
    (hv : 20 ≤ ver) (h : modifyCore c ver o attr current new = .ok r) : r.2 = none := by
  unfold modifyCore at h
  rw [if_pos hv] at h
  split at h
  · inv h
  · inv h
    obtain ⟨_, _, _, _, mv, _, h⟩ := h
    split at h
    · inv h; obtain ⟨_, _, _, _, rfl⟩ := h; rfl
    · inv h; obtain ⟨_, _, _, _, rfl⟩ := h; rfl

/-- **Every successful result of the engine model is in range when the store and the server's version list are**
- except the attribute a KMIP 1.x ModifyAttribute echoes, which is read back from the object AFTER the
modification and therefore depends on the range of the value in the request. -/
theorem processOperation_in_range {c : Ctx} {e : Engine} {it : Kmip.Item} {eff : Effect} {d : Data}
    (hs : StoreInRange e.store) (hv : ∀ v ∈ c.supportedVersions, v < 21474836480)
    (hm : ∀ u a cu nw, it.payload = .modifyAttribute u a cu nw → 20 ≤ e.version)
    (h : processOperation c e it = .ok (eff, d)) : dataInRange d = true := by
  unfold processOperation at h
  split at h
  · inv h
  · split at h
    · inv h
    · split at h <;> rename_i hpay
      · unfold opCreate at h; inv h; strip h; rfl
      · unfold opCreateKeyPair at h; inv h; strip h; rfl
      · unfold opRegister at h
        inv h
        obtain ⟨_, h⟩ := h
        split at h
        · inv h
        · inv h; strip h; rfl
      · unfold opDeriveKey at h; inv h; strip h; rfl
      · unfold opLocate at h; inv h; strip h; rfl
      · exact get_in_range hs h
      · exact getAttributes_in_range hs h
      · unfold opGetAttributeList at h; inv h; strip h; rfl
      · unfold opActivate at h
        inv h
        obtain ⟨o, _, h⟩ := h
        split at h
        · inv h
        · inv h; obtain ⟨_, _, rfl⟩ := h; rfl
      · unfold opRevoke at h
        split at h
        · inv h
        · inv h
          obtain ⟨o, _, h⟩ := h
          split at h
          · inv h
          · split at h
            · inv h; obtain ⟨_, rfl⟩ := h; rfl
            · inv h; obtain ⟨_, _, rfl⟩ := h; rfl
      · unfold opDestroy at h; inv h; strip h; rfl
      · unfold opQuery at h
        inv h
        obtain ⟨_, _, rfl⟩ := h
        simp only [dataInRange]
        split <;> (repeat' split) <;> decide
      · unfold opDiscoverVersions at h
        split at h <;> inv h <;> obtain ⟨_, rfl⟩ := h <;> simp only [dataInRange, List.all_eq_true, decide_eq_true_eq]
        · exact hv
        · intro v hv'; exact hv v (List.contains_iff_mem.1 (List.mem_filter.1 hv').2)
      · unfold opEncrypt at h; inv h; obtain ⟨_, _, h⟩ := h
        rcases cryptoResult_shape h with ⟨t, _, rfl⟩ | ⟨b, _, rfl⟩ <;> rfl
      · unfold opDecrypt at h; inv h; obtain ⟨_, _, h⟩ := h
        rcases cryptoResult_shape h with ⟨t, _, rfl⟩ | ⟨b, _, rfl⟩ <;> rfl
      · unfold opSign at h; inv h; obtain ⟨_, _, h⟩ := h
        rcases cryptoResult_shape h with ⟨t, _, rfl⟩ | ⟨b, _, rfl⟩ <;> rfl
      · unfold opSignatureVerify at h; inv h; obtain ⟨_, _, h⟩ := h
        rcases cryptoResult_shape h with ⟨t, _, rfl⟩ | ⟨b, _, rfl⟩ <;> rfl
      · unfold opMac at h; inv h; strip h
        rcases cryptoResult_shape h with ⟨t, _, rfl⟩ | ⟨b, _, rfl⟩ <;> rfl
      · unfold opSetAttribute at h; inv h; strip h; rfl
      · unfold opModifyAttribute at h
        inv h
        obtain ⟨o, _, r, hr, _, rfl⟩ := h
        have := modifyCore_20 (hm _ _ _ _ hpay) hr
        simp only [dataInRange, this]; rfl
      · exact deleteAttribute_in_range hs h
      · inv h

end Kmip.Encode
