/-
Lemmas about M3 (`KmipModel/Schema.lean`), each by induction over the field list.
-/
import KmipModel.Schema
namespace Kmip.Schema
open Kmip.TTLV

theorem accepts_iff (f : Field) (i : Item) : f.accepts i = true ↔ itemTag i = f.tag ∧ kindOk f.kind i = true := by
  simp [Field.accepts]

/-! ### the reader on what the writer produced -/

theorem takeMany_append (f : Field) (l E : List Item) (hl : l.all f.accepts = true)
    (hE : ∀ i, E.head? = some i → itemTag i ≠ f.tag) : takeMany f (l ++ E) = some (l, E) := by
  induction l with
  | nil =>
    cases E with
    | nil => rfl
    | cons i r =>
      have : itemTag i ≠ f.tag := hE i rfl
      simp [takeMany, this]
  | cons a l ih =>
    simp only [List.all_cons, Bool.and_eq_true] at hl
    obtain ⟨ha, hl⟩ := hl
    rw [accepts_iff] at ha
    simp [takeMany, ha.1, ha.2, ih hl]

theorem takeField_append (f : Field) (l E : List Item) (hc : cardOk f.card l = true)
    (hl : l.all f.accepts = true)
    (hE : f.card ≠ .one → ∀ i, E.head? = some i → itemTag i ≠ f.tag) :
    takeField f (l ++ E) = some (l, E) := by
  unfold takeField
  cases hcard : f.card with
  | one =>
    rw [hcard] at hc
    simp only [cardOk, beq_iff_eq] at hc
    match l, hc with
    | [a], _ =>
      simp only [List.all_cons, List.all_nil, Bool.and_true] at hl
      simp [hl]
  | opt =>
    rw [hcard] at hc
    simp only [cardOk, decide_eq_true_eq] at hc
    have hE' := hE (by rw [hcard]; exact fun h => by cases h)
    match l, hc with
    | [], _ =>
      cases E with
      | nil => rfl
      | cons i r =>
        have : itemTag i ≠ f.tag := hE' i rfl
        simp [this]
    | [a], _ =>
      simp only [List.all_cons, List.all_nil, Bool.and_true] at hl
      rw [accepts_iff] at hl
      simp [hl.1, hl.2]
  | many =>
    exact takeMany_append f l E hl (hE (by rw [hcard]; exact fun h => by cases h))

theorem head_firstTags (fs : List Field) (v : Nat) (ls : SVal) (h : conforms fs v ls = true) :
    ∀ i, (encodeFields fs v ls).head? = some i → itemTag i ∈ firstTags fs v := by
  induction fs generalizing ls with
  | nil => intro i hi; cases ls <;> simp [encodeFields] at hi
  | cons f fs ih =>
    cases ls with
    | nil => simp [conforms] at h
    | cons l ls =>
      simp only [conforms, Bool.and_eq_true] at h
      obtain ⟨hf, hrest⟩ := h
      intro i hi
      simp only [encodeFields] at hi
      simp only [firstTags]
      by_cases hc : (f.active v && f.writes) = true
      · simp only [hc, if_true] at hi ⊢
        simp only [conformsField, hc, if_true, Bool.and_eq_true] at hf
        cases l with
        | nil =>
          simp only [List.nil_append] at hi
          have hne : f.card ≠ .one := by
            intro h1; rw [h1] at hf; simp [cardOk] at hf
          simp only [hne, if_false, List.mem_cons]
          exact Or.inr (ih ls hrest i hi)
        | cons a l =>
          simp only [List.cons_append, List.head?_cons, Option.some.injEq] at hi
          subst hi
          simp only [List.all_cons, Bool.and_eq_true] at hf
          have := (accepts_iff f a).mp hf.2.1
          by_cases h1 : f.card = .one <;> simp [h1, this.1]
      · simp only [hc] at hi ⊢
        simp only [Bool.false_eq_true, if_false, List.nil_append] at hi ⊢
        exact ih ls hrest i hi

/-- **Schema round trip**, proved once for all schemas: when tag peeking is unambiguous under `v` and the value
conforms (mandatory fields present, cardinalities, item kinds, nothing in fields `v` does not define), the reader
returns exactly the value the writer was given. -/
theorem decodeFields_encodeFields (fs : List Field) (v : Nat) (x : SVal)
    (hu : unambiguous fs v = true) (hc : conforms fs v x = true) :
    decodeFields fs v (encodeFields fs v x) = some x := by
  induction fs generalizing x with
  | nil =>
    cases x with
    | nil => simp [encodeFields, decodeFields]
    | cons l ls => simp [conforms] at hc
  | cons f fs ih =>
    cases x with
    | nil => simp [conforms] at hc
    | cons l ls =>
      simp only [conforms, Bool.and_eq_true] at hc
      obtain ⟨hf, hrest⟩ := hc
      simp only [unambiguous, Bool.and_eq_true] at hu
      obtain ⟨huf, hus⟩ := hu
      have ihr := ih ls hus hrest
      have hhead := head_firstTags fs v ls hrest
      simp only [encodeFields, decodeFields]
      by_cases ha : f.active v = true
      · simp only [ha, if_true, Bool.true_and] at huf ⊢
        by_cases hw : f.writes = true
        · simp only [hw, if_true]
          simp only [conformsField, ha, hw, Bool.and_self, if_true, Bool.and_eq_true] at hf
          have hE : f.card ≠ .one → ∀ i, (encodeFields fs v ls).head? = some i → itemTag i ≠ f.tag := by
            intro hne i hi heq
            simp only [hne, if_false, Bool.not_eq_true', List.contains_eq_mem, decide_eq_false_iff_not] at huf
            exact huf (heq ▸ hhead i hi)
          rw [takeField_append f l _ hf.1 hf.2 hE]
          simp only [ihr]
        · have hw' : f.writes = false := by simpa using hw
          simp only [hw', Bool.false_eq_true, if_false, List.nil_append]
          simp only [conformsField, ha, hw', Bool.and_false, Bool.false_eq_true, if_false,
            List.isEmpty_iff] at hf
          subst hf
          have hne : f.card ≠ .one := by
            intro h1; simp [h1, hw'] at huf
          have hE : f.card ≠ .one → ∀ i, (encodeFields fs v ls).head? = some i → itemTag i ≠ f.tag := by
            intro _ i hi heq
            simp only [hne, if_false, Bool.not_eq_true', List.contains_eq_mem, decide_eq_false_iff_not] at huf
            exact huf (heq ▸ hhead i hi)
          have := takeField_append f [] _ (by cases hcd : f.card <;> simp_all [cardOk]) (by simp) hE
          simp only [List.nil_append] at this
          rw [this]
          simp only [ihr]
      · have ha' : f.active v = false := by simpa using ha
        simp only [ha', Bool.false_and, Bool.false_eq_true, if_false, List.nil_append]
        simp only [conformsField, ha', Bool.false_and, Bool.false_eq_true, if_false, List.isEmpty_iff] at hf
        subst hf
        simp only [ihr]

/-! ### the writer on what the reader accepted -/

theorem takeMany_some (f : Field) (items l rest : List Item) (h : takeMany f items = some (l, rest)) :
    items = l ++ rest ∧ l.all f.accepts = true := by
  induction items generalizing l with
  | nil => simp [takeMany] at h; obtain ⟨rfl, rfl⟩ := h; simp
  | cons i r ih =>
    simp only [takeMany] at h
    split at h
    · rename_i htag
      split at h
      · rename_i hk
        split at h
        · rename_i a r' hrec
          simp only [Option.some.injEq, Prod.mk.injEq] at h
          obtain ⟨rfl, rfl⟩ := h
          obtain ⟨e, hall⟩ := ih a hrec
          refine ⟨by rw [e]; rfl, ?_⟩
          simp only [List.all_cons, Bool.and_eq_true]
          exact ⟨by simp [Field.accepts, htag, hk], hall⟩
        · cases h
      · cases h
    · simp only [Option.some.injEq, Prod.mk.injEq] at h
      obtain ⟨rfl, rfl⟩ := h
      simp

theorem takeField_some (f : Field) (items l rest : List Item) (h : takeField f items = some (l, rest)) :
    items = l ++ rest ∧ cardOk f.card l = true ∧ l.all f.accepts = true := by
  unfold takeField at h
  cases hcard : f.card with
  | one =>
    simp only [hcard] at h
    cases items with
    | nil => cases h
    | cons i r =>
      simp only at h
      split at h
      · rename_i hacc
        simp only [Option.some.injEq, Prod.mk.injEq] at h
        obtain ⟨rfl, rfl⟩ := h
        simp [cardOk, hacc]
      · cases h
  | opt =>
    simp only [hcard] at h
    cases items with
    | nil => simp at h; obtain ⟨rfl, rfl⟩ := h; simp [cardOk]
    | cons i r =>
      simp only at h
      split at h
      · rename_i htag
        split at h
        · rename_i hk
          simp only [Option.some.injEq, Prod.mk.injEq] at h
          obtain ⟨rfl, rfl⟩ := h
          simp [cardOk, Field.accepts, htag, hk]
        · cases h
      · simp only [Option.some.injEq, Prod.mk.injEq] at h
        obtain ⟨rfl, rfl⟩ := h
        simp [cardOk]
  | many =>
    simp only [hcard] at h
    obtain ⟨e, hall⟩ := takeMany_some f items l rest h
    exact ⟨e, by simp [cardOk], hall⟩

/-- every field is written -/
def allWritten (fs : List Field) : Bool := fs.all (·.writes)

/-- **Re-encoding is stable**: whatever child list the reader accepts, the writer turns the decoded value back
into exactly that list, and the decoded value conforms — provided the writer emits every field the reader knows. -/
theorem encodeFields_decodeFields (fs : List Field) (v : Nat) (items : List Item) (x : SVal)
    (hw : allWritten fs = true) (h : decodeFields fs v items = some x) :
    encodeFields fs v x = items ∧ conforms fs v x = true := by
  induction fs generalizing items x with
  | nil =>
    simp only [decodeFields] at h
    split at h
    · rename_i he
      simp only [Option.some.injEq] at h; subst h
      simp only [List.isEmpty_iff] at he; subst he
      simp [encodeFields, conforms]
    · cases h
  | cons f fs ih =>
    simp only [allWritten, List.all_cons, Bool.and_eq_true] at hw
    obtain ⟨hwf, hws⟩ := hw
    simp only [decodeFields] at h
    split at h
    · rename_i ha
      split at h
      · cases h
      · rename_i l rest htake
        split at h
        · rename_i ls hrec
          simp only [Option.some.injEq] at h; subst h
          obtain ⟨e, hcard, hall⟩ := takeField_some f items l rest htake
          obtain ⟨he, hc⟩ := ih rest ls hws hrec
          refine ⟨?_, ?_⟩
          · simp only [encodeFields, ha, hwf, Bool.and_self, if_true, he, e]
          · simp only [conforms, conformsField, ha, hwf, Bool.and_self, if_true, hcard, hall, hc]
        · cases h
    · rename_i ha
      have ha' : f.active v = false := by simpa using ha
      split at h
      · rename_i ls hrec
        simp only [Option.some.injEq] at h; subst h
        obtain ⟨he, hc⟩ := ih items ls hws hrec
        refine ⟨?_, ?_⟩
        · simp only [encodeFields, ha', Bool.false_and, Bool.false_eq_true, if_false, List.nil_append, he]
        · simp only [conforms, conformsField, ha', Bool.false_and, Bool.false_eq_true, if_false,
            List.isEmpty_nil, hc, Bool.and_self]
      · cases h

/-! ### version gates -/

/-- everything the writer emits under `v` belongs to a field `v` defines -/
theorem emitted_is_active (fs : List Field) (v : Nat) (x : SVal) (hc : conforms fs v x = true) :
    ∀ i ∈ encodeFields fs v x, ∃ f ∈ fs, f.active v = true ∧ f.writes = true ∧ f.accepts i = true := by
  induction fs generalizing x with
  | nil => intro i hi; cases x <;> simp [encodeFields] at hi
  | cons f fs ih =>
    cases x with
    | nil => simp [conforms] at hc
    | cons l ls =>
      simp only [conforms, Bool.and_eq_true] at hc
      intro i hi
      simp only [encodeFields, List.mem_append] at hi
      rcases hi with hi | hi
      · by_cases hcnd : (f.active v && f.writes) = true
        · simp only [hcnd, if_true] at hi
          have hf := hc.1
          simp only [conformsField, hcnd, if_true, Bool.and_eq_true, List.all_eq_true] at hf
          simp only [Bool.and_eq_true] at hcnd
          exact ⟨f, by simp, hcnd.1, hcnd.2, hf.2 i hi⟩
        · simp only [hcnd] at hi; simp at hi
      · obtain ⟨g, hg, h1, h2, h3⟩ := ih ls hc.2 i hi
        exact ⟨g, by simp [hg], h1, h2, h3⟩

/-- everything the reader accepts under `v` consists of items of fields `v` defines … -/
theorem accepted_is_active (fs : List Field) (v : Nat) (items : List Item) (x : SVal)
    (h : decodeFields fs v items = some x) :
    ∀ i ∈ items, ∃ f ∈ fs, f.active v = true ∧ f.accepts i = true := by
  induction fs generalizing items x with
  | nil =>
    simp only [decodeFields] at h
    split at h
    · rename_i he; simp only [List.isEmpty_iff] at he; subst he; intro i hi; cases hi
    · cases h
  | cons f fs ih =>
    simp only [decodeFields] at h
    split at h
    · rename_i ha
      split at h
      · cases h
      · rename_i l rest htake
        split at h
        · rename_i ls hrec
          obtain ⟨e, _, hall⟩ := takeField_some f items l rest htake
          intro i hi
          rw [e, List.mem_append] at hi
          rcases hi with hi | hi
          · simp only [List.all_eq_true] at hall
            exact ⟨f, by simp, ha, hall i hi⟩
          · obtain ⟨g, hg, h1, h2⟩ := ih rest ls hrec i hi
            exact ⟨g, by simp [hg], h1, h2⟩
        · cases h
    · split at h
      · rename_i ls hrec
        intro i hi
        obtain ⟨g, hg, h1, h2⟩ := ih items ls hrec i hi
        exact ⟨g, by simp [hg], h1, h2⟩
      · cases h

end Kmip.Schema
