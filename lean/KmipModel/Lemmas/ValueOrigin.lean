/-
Where values come from and where they go:
* the only answer that carries a value (`Data.object`) comes from Get, and an unwrapped one carries
  the value of the very object the Get addresses;
* the value of an inserted object is supplied by the creating item itself (the registered secret, or
  the token answered by the cryptography backend) — never read from the store.
-/
import KmipModel.Lemmas.ValueNIRun
namespace Kmip

/-- closes a goal whose hypothesis `h : handler … = .ok (eff, d)` has an effect / answer of a shape the
handler never produces -/
macro "shape_contra" h:ident : tactic =>
  `(tactic| (
    simp only [bind, Except.bind] at $h:ident
    split_all $h
    all_goals (simp [kerr, ierr, cryptoErr, pure, Except.pure] at $h:ident)))

/-! ### `Data.object` is answered by Get only -/

def Data.isObject : Data → Bool
  | .object .. => true
  | _ => false

theorem cryptoResult_noObject {u cr eff d} (h : cryptoResult u cr = .ok (eff, d)) : d.isObject = false := by
  unfold cryptoResult at h
  split at h
  · inv h; rw [← h.2]; rfl
  · inv h; rw [← h.2]; rfl
  · unfold cryptoErr at h; split at h <;> inv h

/-- every successful branch of the handler answers something that is not a `Data.object` -/
macro "answer_shape" h:ident : tactic =>
  `(tactic| (
    try simp only [bind, Except.bind] at $h:ident
    split_all $h
    all_goals first
      | (simp [kerr, ierr, cryptoErr] at $h:ident; done)
      | exact cryptoResult_noObject $h
      | (simp only [pure, Except.pure, Except.ok.injEq, Prod.mk.injEq] at $h:ident; rw [← ($h).2]; rfl)))

/-- **Only Get answers a managed object**: if an item's answer is a `Data.object`, the item is a Get. -/
theorem object_only_from_get {c : Ctx} {e : Engine} {it : Item} {eff : Effect} {d : Data}
    (h : processOperation c e it = .ok (eff, d)) (hd : d.isObject = true) :
    ∃ u f cp w, it.payload = .get u f cp w := by
  unfold processOperation at h
  split at h
  · inv h
  · split at h
    · inv h
    · split at h <;> rename_i hpay
      case h_6 => exact ⟨_, _, _, _, hpay⟩
      all_goals exfalso
      all_goals (have : d.isObject = false := ?_) <;> first | (rw [this] at hd; cases hd) | skip
      · unfold opCreate at h; answer_shape h
      · unfold opCreateKeyPair at h; answer_shape h
      · unfold opRegister at h; answer_shape h
      · unfold opDeriveKey at h; answer_shape h
      · unfold opLocate at h; answer_shape h
      · unfold opGetAttributes at h; answer_shape h
      · unfold opGetAttributeList at h; answer_shape h
      · unfold opActivate at h; answer_shape h
      · unfold opRevoke at h; answer_shape h
      · unfold opDestroy at h; answer_shape h
      · unfold opQuery at h; answer_shape h
      · unfold opDiscoverVersions at h; answer_shape h
      · unfold opEncrypt at h; answer_shape h
      · unfold opDecrypt at h; answer_shape h
      · unfold opSign at h; answer_shape h
      · unfold opSignatureVerify at h; answer_shape h
      · unfold opMac at h; answer_shape h
      · unfold opSetAttribute at h; answer_shape h
      · unfold opModifyAttribute at h; answer_shape h
      · unfold opDeleteAttribute at h; answer_shape h
      · inv h

/-- an unwrapped Get answer carries the value of the object the Get addressed (and was granted) -/
theorem opGet_value {c : Ctx} {e : Engine} {u : Option String} {f : Option Nat} {cp : Bool} {w : Option WrapSpec}
    {cr : Crypto} {eff : Effect} {ot : Nat} {us v : String} {a l fm s : Option Nat}
    (h : opGet c e u f cp w cr = .ok (eff, .object ot us v a l fm s false)) :
    ∃ o, getWithAccess c e (uidOr u e.placeholder) Op.get = .ok o ∧ o.value = v := by
  unfold opGet at h
  inv h
  obtain ⟨_, o, ho, _, _, h⟩ := h
  refine ⟨o, ho, ?_⟩
  split at h
  · inv h
    obtain ⟨data, hdata, _, rfl⟩ := h
    unfold coreObject at hdata
    split_all hdata
    all_goals first
      | (simp [kerr] at hdata; done)
      | (simp only [pure, Except.pure, Except.ok.injEq, Data.object.injEq] at hdata; exact hdata.2.2.1)
  · inv h
    obtain ⟨tok, _, data, hdata, _, rfl⟩ := h
    unfold coreObject at hdata
    split_all hdata
    all_goals (simp [kerr, pure, Except.pure] at hdata)

theorem processOperation_get_value {c : Ctx} {e : Engine} {it : Item} {eff : Effect} {ot : Nat} {us v : String}
    {a l fm s : Option Nat} (h : processOperation c e it = .ok (eff, .object ot us v a l fm s false)) :
    ∃ u f cp w, it.payload = .get u f cp w ∧
      ∃ o, getWithAccess c e (uidOr u e.placeholder) Op.get = .ok o ∧ o.value = v := by
  obtain ⟨u, f, cp, w, hpay⟩ := object_only_from_get h rfl
  refine ⟨u, f, cp, w, hpay, ?_⟩
  unfold processOperation at h
  rw [hpay] at h
  split at h
  · inv h
  · split at h
    · inv h
    · exact opGet_value h

/-- in the results of a batch, a `Data.object` answer belongs to a Get item -/
theorem batchSpec_object_op (c : Ctx) (stop : Bool) (e : Engine) (items : List Item) :
    ∀ r ∈ (batchSpec c stop e items).2, ∀ d, r.result = .ok d → d.isObject = true → r.op = Op.get := by
  induction items generalizing e with
  | nil => intro r hr; simp [batchSpec] at hr
  | cons it rest ih =>
    intro r hr d hd hobj
    simp only [batchSpec] at hr
    cases hp : processOperation c e it with
    | ok p =>
      obtain ⟨eff, d0⟩ := p
      rw [hp] at hr
      simp only [List.mem_cons] at hr
      rcases hr with rfl | hr
      · simp only [Except.ok.injEq] at hd
        subst hd
        obtain ⟨u, f, cp, w, hpay⟩ := object_only_from_get hp hobj
        simp only [hpay, Payload.op]
      · exact ih _ r hr d hd hobj
    | error err =>
      rw [hp] at hr
      cases stop with
      | true =>
        simp only [if_true, List.mem_singleton] at hr
        subst hr
        cases hd
      | false =>
        simp only [Bool.false_eq_true, if_false, List.mem_cons] at hr
        rcases hr with rfl | hr
        · cases hd
        · exact ih _ r hr d hd hobj

/-! ### inserted values are supplied by the creating item -/

theorem cryptoToken_ok {cr : Crypto} {t : String} (h : cryptoToken cr = .ok t) : cr = .ok t := by
  unfold cryptoToken at h
  split at h
  · inv h; rw [h]
  · unfold cryptoErr at h; split at h <;> inv h

theorem cryptoPair_ok {cr : Crypto} {t : String × String × Nat × Nat} (h : cryptoPair cr = .ok t) :
    cr = .ok2 t.1 t.2.1 t.2.2.1 t.2.2.2 := by
  unfold cryptoPair at h
  split at h
  · inv h; rw [← h]
  · unfold cryptoErr at h; split at h <;> inv h

theorem opCreate_supplies {c e ot t cr eff d} (h : opCreate c e ot t cr = .ok (eff, d)) :
    ∃ o, eff = .insert [o] ∧ cr = .ok o.value := by
  unfold opCreate at h
  inv h
  obtain ⟨_, _, _, _, _, _, _, _, _, tok, ht, _, o, hs, rfl, _⟩ := h
  refine ⟨_, rfl, ?_⟩
  rw [cryptoToken_ok ht]
  exact congrArg Crypto.ok (setAttrs_core hs).value.symm

theorem opRegister_supplies {c e ot t ro eff d} (h : opRegister c e ot t ro = .ok (eff, d)) :
    ∃ o r, eff = .insert [o] ∧ ro = some r ∧ o.value = r.value := by
  unfold opRegister at h
  inv h
  obtain ⟨_, h⟩ := h
  split at h
  · inv h
  · rename_i r
    inv h
    obtain ⟨_, _, _, _, o, hs, rfl, _⟩ := h
    exact ⟨_, r, rfl, rfl, (setAttrs_core hs).value⟩

theorem opDeriveKey_supplies {c e ot us t cr eff d} (h : opDeriveKey c e ot us t cr = .ok (eff, d)) :
    ∃ o tok n, eff = .insert [o] ∧ cr = .ok tok ∧ o.value = (tok.take n).toString := by
  unfold opDeriveKey at h
  inv h
  obtain ⟨_, _, _, _, _, _, bytes, _, _, _, tok, ht, _, o, hs, rfl, _⟩ := h
  refine ⟨_, tok, 2 * bytes, rfl, cryptoToken_ok ht, ?_⟩
  refine (setAttrs_core hs).value.trans ?_
  unfold derivedObj
  split <;> rfl

theorem opCreateKeyPair_supplies {c e cm pr pu cr eff d} (h : opCreateKeyPair c e cm pr pu cr = .ok (eff, d)) :
    ∃ po so a b f g, eff = .insert [po, so] ∧ cr = .ok2 a b f g ∧ po.value = a ∧ so.value = b := by
  unfold opCreateKeyPair at h
  inv h
  obtain ⟨_, _, _, _, _, _, _, _, _, _, _, _, t, ht, po, hpo, so, hso, rfl, _⟩ := h
  exact ⟨_, _, _, _, _, _, rfl, cryptoPair_ok ht, (setAttrs_core hpo).value, (setAttrs_core hso).value⟩

def Effect.isInsert : Effect → Bool
  | .insert _ => true
  | _ => false

theorem cryptoResult_noInsert {u cr eff d} (h : cryptoResult u cr = .ok (eff, d)) : eff.isInsert = false := by
  unfold cryptoResult at h
  split at h
  · inv h; rw [← h.1]; rfl
  · inv h; rw [← h.1]; rfl
  · unfold cryptoErr at h; split at h <;> inv h

/-- every successful branch of the handler has an effect that is not an insertion -/
macro "effect_shape" h:ident : tactic =>
  `(tactic| (
    try simp only [bind, Except.bind] at $h:ident
    split_all $h
    all_goals first
      | (simp [kerr, ierr, cryptoErr] at $h:ident; done)
      | exact cryptoResult_noInsert $h
      | (simp only [pure, Except.pure, Except.ok.injEq, Prod.mk.injEq] at $h:ident; rw [← ($h).1]; rfl)))

/-- the values an item can put into the store: the secret it registers, or the token(s) the
cryptography backend answers for it (a prefix of the token for DeriveKey) -/
def Item.Supplies (it : Item) (v : String) : Prop :=
  (∃ ot t ro, it.payload = .register ot t (some ro) ∧ v = ro.value) ∨
  (∃ tok, it.crypto = .ok tok ∧ (v = tok ∨ ∃ n, v = (tok.take n).toString)) ∨
  (∃ a b f g, it.crypto = .ok2 a b f g ∧ (v = a ∨ v = b))

/-- **Inserted values come from the item itself**: whatever an item inserts carries a value supplied by
that item (request or backend answer) — no handler copies a stored value into a new object. -/
theorem inserted_values_supplied {c : Ctx} {e : Engine} {it : Item} {os : List Obj} {d : Data}
    (h : processOperation c e it = .ok (.insert os, d)) : ∀ o ∈ os, it.Supplies o.value := by
  unfold processOperation at h
  split at h
  · inv h
  · split at h
    · inv h
    · split at h <;> rename_i hpay
      case h_1 =>
        obtain ⟨o, ho, hcr⟩ := opCreate_supplies h
        cases ho
        intro x hx
        simp only [List.mem_singleton] at hx
        subst hx
        exact Or.inr (Or.inl ⟨_, hcr, Or.inl rfl⟩)
      case h_2 =>
        obtain ⟨po, so, a, b, f, g, ho, hcr, ha, hb⟩ := opCreateKeyPair_supplies h
        cases ho
        intro x hx
        simp only [List.mem_cons, List.not_mem_nil, or_false] at hx
        rcases hx with rfl | rfl
        · exact Or.inr (Or.inr ⟨_, _, _, _, hcr, Or.inl ha⟩)
        · exact Or.inr (Or.inr ⟨_, _, _, _, hcr, Or.inr hb⟩)
      case h_3 =>
        obtain ⟨o, r, ho, hro, hv⟩ := opRegister_supplies h
        cases ho
        subst hro
        intro x hx
        simp only [List.mem_singleton] at hx
        subst hx
        exact Or.inl ⟨_, _, _, hpay, hv⟩
      case h_4 =>
        obtain ⟨o, tok, n, ho, hcr, hv⟩ := opDeriveKey_supplies h
        cases ho
        intro x hx
        simp only [List.mem_singleton] at hx
        subst hx
        exact Or.inr (Or.inl ⟨_, hcr, Or.inr ⟨n, hv⟩⟩)
      all_goals exfalso
      all_goals (have : (Effect.insert os).isInsert = false := ?_) <;> first | (cases this; done) | skip
      · unfold opLocate at h; effect_shape h
      · unfold opGet at h; effect_shape h
      · unfold opGetAttributes at h; effect_shape h
      · unfold opGetAttributeList at h; effect_shape h
      · unfold opActivate at h; effect_shape h
      · unfold opRevoke at h; effect_shape h
      · unfold opDestroy at h; effect_shape h
      · unfold opQuery at h; effect_shape h
      · unfold opDiscoverVersions at h; effect_shape h
      · unfold opEncrypt at h; effect_shape h
      · unfold opDecrypt at h; effect_shape h
      · unfold opSign at h; effect_shape h
      · unfold opSignatureVerify at h; effect_shape h
      · unfold opMac at h; effect_shape h
      · unfold opSetAttribute at h; effect_shape h
      · unfold opModifyAttribute at h; effect_shape h
      · unfold opDeleteAttribute at h; effect_shape h
      · inv h

/-! ### stored values over batches, requests and histories -/

/-- an object with a fresh identifier after an effect was inserted by that effect -/
theorem applyEffect_fresh {e : Engine} {eff : Effect} (hi : e.store.Inv) {y : Obj}
    (hy : y ∈ (applyEffect e eff).store.objs) (hge : e.store.nextUid ≤ y.uid) :
    ∃ os, eff = .insert os ∧ ∃ o ∈ os, y.value = o.value := by
  cases eff with
  | none => have := hi.2 y hy; omega
  | insert os =>
    rcases (Store.insertAll_spec e.store os hi).2.2 y hy with h | ⟨_, o, ho, hyo⟩
    · have := hi.2 y h; omega
    · exact ⟨os, rfl, o, ho, by rw [hyo]⟩
  | update o' =>
    exfalso
    simp only [applyEffect, Store.update, List.mem_map] at hy
    obtain ⟨z, hz, rfl⟩ := hy
    have := hi.2 z hz
    split at hge
    · rename_i hh; simp only [beq_iff_eq] at hh; omega
    · omega
  | delete u =>
    exfalso
    simp only [applyEffect, Store.delete] at hy
    have := hi.2 y (List.mem_filter.mp hy).1
    omega

/-- where the value of an object stored after a batch comes from -/
theorem batchSpec_values (c : Ctx) (hr : RulesProtect c) (stop : Bool) (e : Engine) (items : List Item)
    (hi : e.store.Inv) (hs : e.store.StatesOk) :
    ∀ x ∈ (batchSpec c stop e items).1.store.objs,
      (∃ y ∈ e.store.objs, y.uid = x.uid ∧ x.value = y.value) ∨
      (e.store.nextUid ≤ x.uid ∧ ∃ it ∈ items, it.Supplies x.value) := by
  induction items generalizing e with
  | nil => exact fun x hx => Or.inl ⟨x, hx, rfl, rfl⟩
  | cons it rest ih =>
    intro x hx
    simp only [batchSpec] at hx
    cases hp : processOperation c e it with
    | ok r =>
      obtain ⟨eff, d⟩ := r
      rw [hp] at hx
      have hev := applyEffect_evolves hi hs (processOperation_spec hr hp)
      rcases ih (applyEffect e eff) hev.inv hev.ok x hx with ⟨y, hy1, hyu, hv⟩ | ⟨hge1, it', hit', hsup⟩
      · rcases hev.ext.2 y hy1 with ⟨z, hz, hzu⟩ | hge
        · have hp' := hev.persist z hz y hy1 hzu.symm
          exact Or.inl ⟨z, hz, hzu.trans hyu, hv.trans hp'.value⟩
        · obtain ⟨os, rfl, o, ho, hyo⟩ := applyEffect_fresh hi hy1 hge
          have := inserted_values_supplied hp o ho
          refine Or.inr ⟨hyu ▸ hge, it, List.mem_cons_self, ?_⟩
          rw [hv, hyo]; exact this
      · exact Or.inr ⟨Nat.le_trans hev.ext.1 hge1, it', List.mem_cons_of_mem _ hit', hsup⟩
    | error err =>
      rw [hp] at hx
      cases stop with
      | true => exact Or.inl ⟨x, hx, rfl, rfl⟩
      | false =>
        rcases ih e hi hs x hx with h | ⟨hge, it', hit', hsup⟩
        · exact Or.inl h
        · exact Or.inr ⟨hge, it', List.mem_cons_of_mem _ hit', hsup⟩

theorem processRequest_values (c : Ctx) (hr : RulesProtect c) (e : Engine) (id : Identity) (r : Request)
    (hi : e.store.Inv) (hs : e.store.StatesOk) :
    ∀ x ∈ (processRequest c e id r).1.store.objs,
      (∃ y ∈ e.store.objs, y.uid = x.uid ∧ x.value = y.value) ∨
      (e.store.nextUid ≤ x.uid ∧ ∃ it ∈ r.items, it.Supplies x.value) := by
  intro x hx
  rcases processRequest_cases c e id r with ⟨hst, _⟩ | hb
  · rw [hst] at hx; exact Or.inl ⟨x, hx, rfl, rfl⟩
  · rw [hb] at hx
    exact batchSpec_values c hr r.stop ⟨e.store, none, r.version, id⟩ r.items hi hs x hx

/-- the values a step of a history can put into the store -/
def Step.Supplies (s : Step) (v : String) : Prop :=
  match s with
  | .request _ _ r => ∃ it ∈ r.items, it.Supplies v
  | .restart => False

theorem run_values (e : Engine) (steps : List Step) (hok : StepsOk steps) (hi : e.store.Inv)
    (hs : e.store.StatesOk) :
    ∀ x ∈ (run e steps).store.objs,
      (∃ y ∈ e.store.objs, y.uid = x.uid ∧ x.value = y.value) ∨
      (e.store.nextUid ≤ x.uid ∧ ∃ s ∈ steps, s.Supplies x.value) := by
  induction steps generalizing e with
  | nil => exact fun x hx => Or.inl ⟨x, hx, rfl, rfl⟩
  | cons s rest ih =>
    intro x hx
    rw [run_cons] at hx
    have hok' : StepsOk rest := fun s hs' => hok s (List.mem_cons_of_mem _ hs')
    have hev : Evolves e.store (stepEngine e s).store := by
      cases s with
      | request c id r => exact processRequest_evolves c (hok (.request c id r) List.mem_cons_self) e id r hi hs
      | restart => exact Evolves.refl _ hi hs
    rcases ih (stepEngine e s) hok' hev.inv hev.ok x hx with ⟨y, hy1, hyu, hv⟩ | ⟨hge1, s', hs', hsup⟩
    · cases s with
      | request c id r =>
        have hr := hok (.request c id r) List.mem_cons_self
        rcases processRequest_values c hr e id r hi hs y hy1 with ⟨z, hz, hzu, hzv⟩ | ⟨hge, it, hit, hsup⟩
        · exact Or.inl ⟨z, hz, hzu.trans hyu, hv.trans hzv⟩
        · refine Or.inr ⟨hyu ▸ hge, .request c id r, List.mem_cons_self, it, hit, ?_⟩
          rw [hv]; exact hsup
      | restart => exact Or.inl ⟨y, hy1, hyu, hv⟩
    · exact Or.inr ⟨Nat.le_trans hev.ext.1 hge1, s', List.mem_cons_of_mem _ hs', hsup⟩

end Kmip
