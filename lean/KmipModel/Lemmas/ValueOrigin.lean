/-
Where values come from and where they go:
* the only answer that carries a value (`Data.object`) comes from Get, and an unwrapped one carries
  the value of the very object the Get addresses;
* the value of an inserted object is supplied by the creating item itself (the registered secret, or
  the token answered by the cryptography backend) — never read from the store.
-/
import KmipModel.Lemmas.ValueNIRun
namespace Kmip

/-- closes a goal whose hypothesis `h : handler … = .ok (eff, d)` has an effect / answer of a shape the
handler never produces -/
macro "shape_contra" h:ident : tactic =>
  `(tactic| (
    simp only [bind, Except.bind] at $h:ident
    split_all $h
    all_goals (simp [kerr, ierr, cryptoErr, pure, Except.pure] at $h:ident)))

/-! ### `Data.object` is answered by Get only -/

def Data.isObject : Data → Bool
  | .object .. => true
  | _ => false

theorem cryptoResult_noObject {u cr eff d} (h : cryptoResult u cr = .ok (eff, d)) : d.isObject = false := by
  unfold cryptoResult at h
  split at h
  · inv h; rw [← h.2]; rfl
  · inv h; rw [← h.2]; rfl
  · unfold cryptoErr at h; split at h <;> inv h

/-- every successful branch of the handler answers something that is not a `Data.object` -/
macro "answer_shape" h:ident : tactic =>
  `(tactic| (
    try simp only [bind, Except.bind] at $h:ident
    split_all $h
    all_goals first
      | (simp [kerr, ierr, cryptoErr] at $h:ident; done)
      | exact cryptoResult_noObject $h
      | (simp only [pure, Except.pure, Except.ok.injEq, Prod.mk.injEq] at $h:ident; rw [← ($h).2]; rfl)))

/-- **Only Get answers a managed object**: if an item's answer is a `Data.object`, the item is a Get. -/
theorem object_only_from_get {c : Ctx} {e : Engine} {it : Item} {eff : Effect} {d : Data}
    (h : processOperation c e it = .ok (eff, d)) (hd : d.isObject = true) :
    ∃ u f cp w, it.payload = .get u f cp w := by
  unfold processOperation at h
  split at h
  · inv h
  · split at h
    · inv h
    · split at h <;> rename_i hpay
      case h_6 => exact ⟨_, _, _, _, hpay⟩
      all_goals exfalso
      all_goals (have : d.isObject = false := ?_) <;> first | (rw [this] at hd; cases hd) | skip
      · unfold opCreate at h; answer_shape h
      · unfold opCreateKeyPair at h; answer_shape h
      · unfold opRegister at h; answer_shape h
      · unfold opDeriveKey at h; answer_shape h
      · unfold opLocate at h; answer_shape h
      · unfold opGetAttributes at h; answer_shape h
      · unfold opGetAttributeList at h; answer_shape h
      · unfold opActivate at h; answer_shape h
      · unfold opRevoke at h; answer_shape h
      · unfold opDestroy at h; answer_shape h
      · unfold opQuery at h; answer_shape h
      · unfold opDiscoverVersions at h; answer_shape h
      · unfold opEncrypt at h; answer_shape h
      · unfold opDecrypt at h; answer_shape h
      · unfold opSign at h; answer_shape h
      · unfold opSignatureVerify at h; answer_shape h
      · unfold opMac at h; answer_shape h
      · unfold opSetAttribute at h; answer_shape h
      · unfold opModifyAttribute at h; answer_shape h
      · unfold opDeleteAttribute at h; answer_shape h
      · inv h

/-- an unwrapped Get answer carries the value of the object the Get addressed (and was granted) -/
theorem opGet_value {c : Ctx} {e : Engine} {u : Option String} {f : Option Nat} {cp : Bool} {w : Option WrapSpec}
    {cr : Crypto} {eff : Effect} {ot : Nat} {us v : String} {a l fm s : Option Nat}
    (h : opGet c e u f cp w cr = .ok (eff, .object ot us v a l fm s false)) :
    ∃ o, getWithAccess c e (uidOr u e.placeholder) Op.get = .ok o ∧ o.value = v := by
  unfold opGet at h
  inv h
  obtain ⟨_, o, ho, _, _, h⟩ := h
  refine ⟨o, ho, ?_⟩
  split at h
  · inv h
    obtain ⟨data, hdata, _, rfl⟩ := h
    unfold coreObject at hdata
    split_all hdata
    all_goals first
      | (simp [kerr] at hdata; done)
      | (simp only [pure, Except.pure, Except.ok.injEq, Data.object.injEq] at hdata; exact hdata.2.2.1)
  · inv h
    obtain ⟨tok, _, data, hdata, _, rfl⟩ := h
    unfold coreObject at hdata
    split_all hdata
    all_goals (simp [kerr, pure, Except.pure] at hdata)

theorem processOperation_get_value {c : Ctx} {e : Engine} {it : Item} {eff : Effect} {ot : Nat} {us v : String}
    {a l fm s : Option Nat} (h : processOperation c e it = .ok (eff, .object ot us v a l fm s false)) :
    ∃ u f cp w, it.payload = .get u f cp w ∧
      ∃ o, getWithAccess c e (uidOr u e.placeholder) Op.get = .ok o ∧ o.value = v := by
  obtain ⟨u, f, cp, w, hpay⟩ := object_only_from_get h rfl
  refine ⟨u, f, cp, w, hpay, ?_⟩
  unfold processOperation at h
  rw [hpay] at h
  split at h
  · inv h
  · split at h
    · inv h
    · exact opGet_value h

/-! ### inserted values are supplied by the creating item -/

theorem cryptoToken_ok {cr : Crypto} {t : String} (h : cryptoToken cr = .ok t) : cr = .ok t := by
  unfold cryptoToken at h
  split at h
  · inv h; rw [h]
  · unfold cryptoErr at h; split at h <;> inv h

theorem cryptoPair_ok {cr : Crypto} {t : String × String × Nat × Nat} (h : cryptoPair cr = .ok t) :
    cr = .ok2 t.1 t.2.1 t.2.2.1 t.2.2.2 := by
  unfold cryptoPair at h
  split at h
  · inv h; rw [← h]
  · unfold cryptoErr at h; split at h <;> inv h

theorem opCreate_supplies {c e ot t cr eff d} (h : opCreate c e ot t cr = .ok (eff, d)) :
    ∃ o, eff = .insert [o] ∧ cr = .ok o.value := by
  unfold opCreate at h
  inv h
  strip h
  subst eff
  have hs : setAttrs c _ _ = .ok _ := by assumption
  have ht : cryptoToken cr = .ok _ := by assumption
  refine ⟨_, rfl, ?_⟩
  rw [cryptoToken_ok ht]
  exact congrArg Crypto.ok (setAttrs_core hs).value.symm

theorem opRegister_supplies {c e ot t ro eff d} (h : opRegister c e ot t ro = .ok (eff, d)) :
    ∃ o r, eff = .insert [o] ∧ ro = some r ∧ o.value = r.value := by
  unfold opRegister at h
  inv h
  obtain ⟨_, h⟩ := h
  split at h
  · inv h
  · rename_i r
    inv h
    strip h
    subst eff
    have hs : setAttrs c _ _ = .ok _ := by assumption
    exact ⟨_, r, rfl, rfl, (setAttrs_core hs).value⟩

theorem opDeriveKey_supplies {c e ot us t cr eff d} (h : opDeriveKey c e ot us t cr = .ok (eff, d)) :
    ∃ o tok n, eff = .insert [o] ∧ cr = .ok tok ∧ o.value = (tok.take n).toString := by
  unfold opDeriveKey at h
  inv h
  strip h
  subst eff
  have hs : setAttrs c _ _ = .ok _ := by assumption
  have ht : cryptoToken cr = .ok _ := by assumption
  refine ⟨_, _, _, rfl, cryptoToken_ok ht, ?_⟩
  refine (setAttrs_core hs).value.trans ?_
  unfold derivedObj
  split <;> rfl

theorem opCreateKeyPair_supplies {c e cm pr pu cr eff d} (h : opCreateKeyPair c e cm pr pu cr = .ok (eff, d)) :
    ∃ po so a b f g, eff = .insert [po, so] ∧ cr = .ok2 a b f g ∧ po.value = a ∧ so.value = b := by
  unfold opCreateKeyPair at h
  inv h
  obtain ⟨_, _, _, _, _, _, _, _, _, _, _, _, t, ht, po, hpo, so, hso, rfl, _⟩ := h
  exact ⟨_, _, _, _, _, _, rfl, cryptoPair_ok ht, (setAttrs_core hpo).value, (setAttrs_core hso).value⟩

def Effect.isInsert : Effect → Bool
  | .insert _ => true
  | _ => false

theorem cryptoResult_noInsert {u cr eff d} (h : cryptoResult u cr = .ok (eff, d)) : eff.isInsert = false := by
  unfold cryptoResult at h
  split at h
  · inv h; rw [← h.1]; rfl
  · inv h; rw [← h.1]; rfl
  · unfold cryptoErr at h; split at h <;> inv h

/-- every successful branch of the handler has an effect that is not an insertion -/
macro "effect_shape" h:ident : tactic =>
  `(tactic| (
    try simp only [bind, Except.bind] at $h:ident
    split_all $h
    all_goals first
      | (simp [kerr, ierr, cryptoErr] at $h:ident; done)
      | exact cryptoResult_noInsert $h
      | (simp only [pure, Except.pure, Except.ok.injEq, Prod.mk.injEq] at $h:ident; rw [← ($h).1]; rfl)))

/-- the values an item can put into the store: the secret it registers, or the token(s) the
cryptography backend answers for it (a prefix of the token for DeriveKey) -/
def Item.Supplies (it : Item) (v : String) : Prop :=
  (∃ ot t ro, it.payload = .register ot t (some ro) ∧ v = ro.value) ∨
  (∃ tok, it.crypto = .ok tok ∧ (v = tok ∨ ∃ n, v = (tok.take n).toString)) ∨
  (∃ a b f g, it.crypto = .ok2 a b f g ∧ (v = a ∨ v = b))

/-- **Inserted values come from the item itself**: whatever an item inserts carries a value supplied by
that item (request or backend answer) — no handler copies a stored value into a new object. -/
theorem inserted_values_supplied {c : Ctx} {e : Engine} {it : Item} {os : List Obj} {d : Data}
    (h : processOperation c e it = .ok (.insert os, d)) : ∀ o ∈ os, it.Supplies o.value := by
  unfold processOperation at h
  split at h
  · inv h
  · split at h
    · inv h
    · split at h <;> rename_i hpay
      case h_1 =>
        obtain ⟨o, ho, hcr⟩ := opCreate_supplies h
        cases ho
        intro x hx
        simp only [List.mem_singleton] at hx
        subst hx
        exact Or.inr (Or.inl ⟨_, hcr, Or.inl rfl⟩)
      case h_2 =>
        obtain ⟨po, so, a, b, f, g, ho, hcr, ha, hb⟩ := opCreateKeyPair_supplies h
        cases ho
        intro x hx
        simp only [List.mem_cons, List.not_mem_nil, or_false] at hx
        rcases hx with rfl | rfl
        · exact Or.inr (Or.inr ⟨_, _, _, _, hcr, Or.inl ha⟩)
        · exact Or.inr (Or.inr ⟨_, _, _, _, hcr, Or.inr hb⟩)
      case h_3 =>
        obtain ⟨o, r, ho, hro, hv⟩ := opRegister_supplies h
        cases ho
        subst hro
        intro x hx
        simp only [List.mem_singleton] at hx
        subst hx
        exact Or.inl ⟨_, _, _, hpay, hv⟩
      case h_4 =>
        obtain ⟨o, tok, n, ho, hcr, hv⟩ := opDeriveKey_supplies h
        cases ho
        intro x hx
        simp only [List.mem_singleton] at hx
        subst hx
        exact Or.inr (Or.inl ⟨_, hcr, Or.inr ⟨n, hv⟩⟩)
      all_goals exfalso
      all_goals (have : (Effect.insert os).isInsert = false := ?_) <;> first | (cases this; done) | skip
      · unfold opLocate at h; effect_shape h
      · unfold opGet at h; effect_shape h
      · unfold opGetAttributes at h; effect_shape h
      · unfold opGetAttributeList at h; effect_shape h
      · unfold opActivate at h; effect_shape h
      · unfold opRevoke at h; effect_shape h
      · unfold opDestroy at h; effect_shape h
      · unfold opQuery at h; effect_shape h
      · unfold opDiscoverVersions at h; effect_shape h
      · unfold opEncrypt at h; effect_shape h
      · unfold opDecrypt at h; effect_shape h
      · unfold opSign at h; effect_shape h
      · unfold opSignatureVerify at h; effect_shape h
      · unfold opMac at h; effect_shape h
      · unfold opSetAttribute at h; effect_shape h
      · unfold opModifyAttribute at h; effect_shape h
      · unfold opDeleteAttribute at h; effect_shape h
      · inv h

end Kmip
