/-
Reason bounds (end): Modify / DeleteAttribute, and `processOperation_reason` - every KMIP error of an item carries a
reason that fits an Enumeration.
-/
import KmipModel.Lemmas.RangeReasons4
namespace Kmip.Encode
open Kmip

theorem rb_modifyCore {c : Ctx} {v : Nat} {o : Obj} {a cu nw : Option TAttr} : RB (modifyCore c v o a cu nw) := by
  unfold modifyCore; rb
macro_rules | `(tactic| rb_lemmas) => `(tactic| exact rb_modifyCore)
theorem rb_opModifyAttribute {c : Ctx} {e : Engine} {u : Option String} {a cu nw : Option TAttr} :
    RB (opModifyAttribute c e u a cu nw) := by unfold opModifyAttribute; rb
theorem rb_deletedAttr {ex : List TAttr} {i : Int} : RB (deletedAttr ex i) := by unfold deletedAttr; rb
macro_rules | `(tactic| rb_lemmas) => `(tactic| exact rb_deletedAttr)
theorem rb_deleteCore {c : Ctx} {v : Nat} {o : Obj} {n : Option String} {i : Option Int} {cu : Option TAttr}
    {r : Option String} : RB (deleteCore c v o n i cu r) := by unfold deleteCore; rb
macro_rules | `(tactic| rb_lemmas) => `(tactic| exact rb_deleteCore)
theorem rb_opDeleteAttribute {c : Ctx} {e : Engine} {u : Option String} {n : Option String} {i : Option Int}
    {cu : Option TAttr} {r : Option String} : RB (opDeleteAttribute c e u n i cu r) := by unfold opDeleteAttribute; rb

/-- **Every KMIP error of an item carries a reason that fits an Enumeration.** -/
theorem processOperation_reason {c : Ctx} {e : Engine} {it : Kmip.Item} (hc : cryptoReq it.crypto = true) :
    RB (processOperation c e it) := by
  unfold processOperation
  split
  · exact RB.kerr _ _ (by decide)
  · split
    · exact RB.kerr _ _ (by decide)
    · split
      · exact rb_opCreate hc
      · exact rb_opCreateKeyPair hc
      · exact rb_opRegister
      · exact rb_opDeriveKey hc
      · exact rb_opLocate
      · exact rb_opGet hc
      · exact rb_opGetAttributes
      · exact rb_opGetAttributeList
      · exact rb_opActivate
      · exact rb_opRevoke
      · exact rb_opDestroy
      · exact rb_opQuery
      · exact rb_opDiscoverVersions
      · exact rb_opEncrypt hc
      · exact rb_opDecrypt hc
      · exact rb_opSign hc
      · exact rb_opSignatureVerify hc
      · exact rb_opMac hc
      · exact rb_opSetAttribute
      · exact rb_opModifyAttribute
      · exact rb_opDeleteAttribute
      · exact RB.kerr _ _ (by decide)

end Kmip.Encode
