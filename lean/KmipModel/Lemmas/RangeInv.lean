/-
The RANGE of the values in the store is an invariant of serving requests whose values are in range
(`RequestInRange`: what the request decoder hands over, M14 - `Lemmas/DecodeRange.lean`): every enumeration value,
Cryptographic Length, usage mask, state and date a stored object carries fits the TTLV primitive it is written
into when the object is read back (`ObjVals`).  Inserted and updated objects only carry values from the request,
from the cryptography backend's answer (key formats), from the clock, and from objects already stored.

(The NUMBER of instances of a multi-valued attribute is not bounded by any invariant; the indices that are written
are bounded otherwise: `Lemmas/RangeResults.lean`.)
-/
import KmipModel.Lemmas.EncodeRange
import KmipModel.Lemmas.WellTyped
namespace Kmip.Encode
open Kmip

/-! ### objects -/

def StoreVals (s : Store) : Prop := ∀ o ∈ s.objs, ObjVals o

theorem StoreVals.empty : StoreVals Store.empty := by intro o h; simp [Store.empty] at h

/-- `ObjVals` looks at eight fields only -/
theorem ObjVals.congr {o o' : Obj} (h : ObjVals o) (h1 : o'.otype = o.otype) (h2 : o'.alg = o.alg) (h3 : o'.len = o.len)
    (h4 : o'.format = o.format) (h5 : o'.subtype = o.subtype) (h6 : o'.mask = o.mask) (h7 : o'.state = o.state)
    (h8 : o'.initialDate = o.initialDate) : ObjVals o' :=
  ⟨by rw [h1]; exact h.otype, by rw [h2]; exact h.alg, by rw [h3]; exact h.len, by rw [h4]; exact h.format,
   by rw [h5]; exact h.subtype, by rw [h6]; exact h.mask, by rw [h7]; exact h.state, by rw [h8]; exact h.date⟩

/-! ### requests -/

/-- the values of a request that can reach the store: enumeration values fit 32 bits, a Cryptographic Length fits an
Integer (an Interval attribute - Lease Time - also arrives as `AVal.int` and may be as large as 2^32 - 1: it is never
stored) -/
def avalReq (name : String) : AVal → Bool
  | .enum n => u32 n
  | .int n => !(name == "Cryptographic Length") || i32 n
  | _ => true

def tattrReq (a : TAttr) : Bool := avalReq a.name a.value && optAll i32 a.index

def tmplReq (t : Option Template) : Bool := optAll (fun (t : Template) => t.attrs.all tattrReq) t

def regReq (ro : RegObj) : Bool :=
  u32 ro.otype && optAll u32 ro.alg && optAll (fun (l : Nat) => i32 (Int.ofNat l)) ro.len && optAll u32 ro.format &&
  optAll u32 ro.subtype

def payloadReq : Payload → Bool
  | .create _ t => tmplReq t
  | .createKeyPair a b c => tmplReq a && tmplReq b && tmplReq c
  | .register _ t o => tmplReq t && optAll regReq o
  | .deriveKey _ _ t _ _ => tmplReq t
  | .setAttribute _ a => tattrReq a
  | .modifyAttribute _ a _ nw => optAll tattrReq a && optAll tattrReq nw
  | .deleteAttribute _ _ index _ _ => optAll i32 index
  | .unsupported op => u32 op
  | _ => true

/-- what the cryptography backend answers: key format types and error reasons are enumeration values -/
def cryptoReq : Crypto → Bool
  | .ok2 _ _ f g => u32 f && u32 g
  | .kmipError r => u32 r
  | _ => true

def itemReq (it : Kmip.Item) : Bool := payloadReq it.payload && cryptoReq it.crypto

/-- **`RequestInRange`**: every integer / enumeration value the request's items carry (and the backend's answers
attached to them) is within what its TTLV primitive can hold -/
def requestInRange (r : Request) : Bool := decide (r.version < 21474836480) && r.items.all itemReq
def RequestInRange (r : Request) : Prop := requestInRange r = true

instance (r : Request) : Decidable (RequestInRange r) := by unfold RequestInRange; exact inferInstance

/-! ### collected template values -/

def colReq (name : String) : Collected → Bool
  | .single v => avalReq name v
  | .multi vs => vs.all (avalReq name)

def DictReq (d : AttrDict) : Prop := ∀ kv ∈ d, colReq kv.1 kv.2 = true

theorem DictReq.nil : DictReq [] := by intro kv h; cases h

theorem DictReq.get {d : AttrDict} {name : String} {col : Collected} (hd : DictReq d) (h : d.get name = some col) :
    colReq name col = true := hd (name, col) (lookup_mem_wt d name col h)

theorem DictReq.set {d : AttrDict} {name : String} {col : Collected} (hd : DictReq d) (hc : colReq name col = true) :
    DictReq (d.set name col) := by
  unfold AttrDict.set
  split
  · intro kv hkv
    simp only [List.mem_map] at hkv
    obtain ⟨kv0, hm, rfl⟩ := hkv
    split
    · exact hc
    · exact hd kv0 hm
  · intro kv hkv
    simp only [List.mem_append, List.mem_singleton] at hkv
    rcases hkv with h | rfl
    · exact hd kv h
    · exact hc

theorem DictReq.erase {d : AttrDict} (hd : DictReq d) (name : String) : DictReq (d.erase name) := by
  intro kv hkv
  simp only [AttrDict.erase, List.mem_filter] at hkv
  exact hd kv hkv.1

theorem processTemplateStep_req {c : Ctx} {ver : Nat} {d d' : AttrDict} {a : TAttr}
    (hd : DictReq d) (ha : avalReq a.name a.value = true) (h : processTemplateStep c ver d a = .ok d') : DictReq d' := by
  unfold processTemplateStep at h
  simp only [isMultivalued_eq, bind, Except.bind, pure, Except.pure] at h
  by_cases hsup : c.isSupported ver a.name = true
  · simp only [hsup, Bool.not_true, Bool.false_eq_true, if_false] at h
    cases hmv : c.mv a.name with
    | true =>
      simp only [hmv, if_true] at h
      have fin : ∀ vs : List AVal, vs.all (avalReq a.name) = true → DictReq (d.set a.name (.multi (vs ++ [a.value]))) := by
        intro vs hvs
        refine hd.set ?_
        simp only [colReq, List.all_append, List.all_cons, List.all_nil, Bool.and_true, Bool.and_eq_true]
        exact ⟨hvs, ha⟩
      cases hget : d.get a.name with
      | none =>
        simp only [hget] at h
        split at h
        · cases h
        · simp only [Except.ok.injEq] at h; subst h; exact fin [] rfl
      | some col =>
        cases col with
        | single v =>
          simp only [hget] at h
          split at h
          · cases h
          · simp only [Except.ok.injEq] at h; subst h; exact fin [] rfl
        | multi vs =>
          simp only [hget] at h
          split at h
          · cases h
          · simp only [Except.ok.injEq] at h; subst h; exact fin vs (hd.get hget)
    | false =>
      simp only [hmv, Bool.false_eq_true, if_false] at h
      split at h
      · split at h
        · cases h
        · split at h
          · cases h
          · simp only [Except.ok.injEq] at h; subst h; exact hd.set ha
      · split at h
        · cases h
        · simp only [Except.ok.injEq] at h; subst h; exact hd.set ha
  · simp only [hsup, Bool.not_false, if_true] at h
    cases h

theorem processTemplate?_req {c : Ctx} {ver : Nat} {t : Option Template} {d : AttrDict}
    (ht : tmplReq t = true) (h : processTemplate? c ver t = .ok d) : DictReq d := by
  cases t with
  | none => simp only [processTemplate?, pure, Except.pure, Except.ok.injEq] at h; subst h; exact DictReq.nil
  | some t =>
    simp only [processTemplate?, processTemplate] at h
    split at h
    · cases h
    · simp only [tmplReq, optAll, List.all_eq_true] at ht
      exact foldlM_inv _ DictReq (fun a : TAttr => avalReq a.name a.value = true)
        (fun b a b' hb ha hs => processTemplateStep_req hb ha hs) t.attrs [] d
        (fun a ha => by have := ht a ha; simp only [tattrReq, Bool.and_eq_true] at this; exact this.1)
        DictReq.nil h

theorem mergeCommon_req {common specific : AttrDict} (hc : DictReq common) (hs : DictReq specific) :
    DictReq (mergeCommon common specific) := by
  unfold mergeCommon
  induction common generalizing specific with
  | nil => exact hs
  | cons kv rest ih =>
    simp only [List.foldl_cons]
    refine ih (fun x hx => hc x (List.mem_cons_of_mem _ hx)) ?_
    split
    · exact hs
    · intro x hx
      simp only [List.mem_append, List.mem_singleton] at hx
      rcases hx with hx | rfl
      · exact hs x hx
      · exact hc _ List.mem_cons_self

/-! ### the attribute setters -/

theorem landMask_le (a : Int) (m : Nat) : landMask a m ≤ m := by
  unfold landMask
  split
  · exact Nat.and_le_right
  · exact Nat.sub_le _ _

theorem vals_alg {o : Obj} (ho : ObjVals o) (a : Nat) (h : u32 a = true) : ObjVals { o with alg := some a } :=
  ⟨ho.otype, h, ho.len, ho.format, ho.subtype, ho.mask, ho.state, ho.date⟩

theorem vals_len {o : Obj} (ho : ObjVals o) (a : Int) (h : i32 a = true) : ObjVals { o with len := some a.toNat } := by
  refine ⟨ho.otype, ho.alg, ?_, ho.format, ho.subtype, ho.mask, ho.state, ho.date⟩
  rw [i32_iff] at h
  show optAll (fun (l : Nat) => i32 (Int.ofNat l)) (some a.toNat) = true
  rw [optAll_some, i32_iff]
  simp only [TTLV.fitsTC, Int.ofNat_eq_natCast] at h ⊢
  have h4 : ((256 ^ 4 : Nat) : Int) = 4294967296 := by decide
  rw [h4] at h ⊢
  omega

theorem vals_mask {o : Obj} (ho : ObjVals o) (a : Int) : ObjVals { o with mask := some (landMask a Mask.all) } := by
  refine ⟨ho.otype, ho.alg, ho.len, ho.format, ho.subtype, ?_, ho.state, ho.date⟩
  have := landMask_le a Mask.all
  show optAll (fun (l : Nat) => i32 (Int.ofNat l)) (some (landMask a Mask.all)) = true
  rw [optAll_some, i32_iff]
  simp only [TTLV.fitsTC, Int.ofNat_eq_natCast, Mask.all] at this ⊢
  have h4 : ((256 ^ 4 : Nat) : Int) = 4294967296 := by decide
  rw [h4]
  omega

theorem vals_format {o : Obj} (ho : ObjVals o) (f : Nat) (h : u32 f = true) : ObjVals { o with format := some f } :=
  ⟨ho.otype, ho.alg, ho.len, h, ho.subtype, ho.mask, ho.state, ho.date⟩

theorem vals_subtype {o : Obj} (ho : ObjVals o) (f : Nat) (h : u32 f = true) : ObjVals { o with subtype := some f } :=
  ⟨ho.otype, ho.alg, ho.len, ho.format, h, ho.mask, ho.state, ho.date⟩

theorem vals_state {o : Obj} (ho : ObjVals o) (f : Nat) (h : u32 f = true) : ObjVals { o with state := some f } :=
  ⟨ho.otype, ho.alg, ho.len, ho.format, ho.subtype, ho.mask, h, ho.date⟩

theorem vals_algO {o : Obj} (ho : ObjVals o) (a : Option Nat) (h : optAll u32 a = true) : ObjVals { o with alg := a } :=
  ⟨ho.otype, h, ho.len, ho.format, ho.subtype, ho.mask, ho.state, ho.date⟩

theorem vals_lenN {o : Obj} (ho : ObjVals o) (l : Nat) (h : i32 (Int.ofNat l) = true) : ObjVals { o with len := some l } := by
  refine ⟨ho.otype, ho.alg, ?_, ho.format, ho.subtype, ho.mask, ho.state, ho.date⟩
  show optAll (fun (l : Nat) => i32 (Int.ofNat l)) (some l) = true
  rw [optAll_some]; exact h

theorem setSingle_vals {o o' : Obj} {n : String} {v : AVal} (ho : ObjVals o) (hv : avalReq n v = true)
    (h : setSingle o n v = .ok o') : ObjVals o' := by
  unfold setSingle at h
  split_all h
  all_goals first
    | (simp [kerr, ierr] at h; done)
    | (simp only [pure, Except.pure, Except.ok.injEq] at h; subst h
       first
         | exact ho
         | exact vals_alg ho _ hv
         | exact vals_len ho _ (by simp_all [avalReq])
         | exact vals_mask ho _
         | exact ho.congr rfl rfl rfl rfl rfl rfl rfl rfl)

theorem setMulti_vals {o o' : Obj} {n : String} {vs : List AVal} (ho : ObjVals o) (h : setMulti o n vs = .ok o') :
    ObjVals o' := by
  unfold setMulti at h
  split_all h
  all_goals first
    | (simp [kerr, ierr] at h; done)
    | (simp only [pure, Except.pure, Except.ok.injEq] at h; subst h; exact ho.congr rfl rfl rfl rfl rfl rfl rfl rfl)

theorem setAttr_vals {c : Ctx} {o o' : Obj} {n : String} {v : Collected} (ho : ObjVals o) (hv : colReq n v = true)
    (h : setAttr c o n v = .ok o') : ObjVals o' := by
  unfold setAttr at h
  simp only [bind, Except.bind] at h
  split at h
  · simp at h
  · split at h
    · split at h
      · exact setMulti_vals ho h
      · simp [ierr] at h
    · split at h
      · exact setSingle_vals ho hv h
      · simp [ierr] at h

theorem setAttrs_vals {c : Ctx} {d : AttrDict} {o o' : Obj} (ho : ObjVals o) (hd : DictReq d)
    (h : setAttrs c o d = .ok o') : ObjVals o' := by
  unfold setAttrs at h
  refine foldlM_inv _ ObjVals (fun kv : String × Collected => colReq kv.1 kv.2 = true) ?_ d o o' hd ho h
  intro b kv b' hb hkv hs
  simp only [bind, Except.bind] at hs
  split at hs
  · simp at hs
  · split at hs
    · exact setAttr_vals hb hkv hs
    · simp [kerr] at hs

theorem setByIndex_vals {o o' : Obj} {n : String} {v : AVal} {i : Nat} (ho : ObjVals o)
    (h : setByIndex o n v i = .ok o') : ObjVals o' := by
  unfold setByIndex at h
  split_all h
  all_goals first
    | (simp [ierr] at h; done)
    | (simp only [pure, Except.pure, Except.ok.injEq] at h; subst h; exact ho.congr rfl rfl rfl rfl rfl rfl rfl rfl)

theorem delAttr_vals {c : Ctx} {o o' : Obj} {n : String} {i : Option Int} {v : Option AVal} (ho : ObjVals o)
    (h : delAttr c o n i v = .ok o') : ObjVals o' := by
  unfold delAttr at h
  simp only [Ctx.isApplicable, Ctx.isDeletable, Ctx.isMultivalued, bind, Except.bind, pure, Except.pure] at h
  split_all h
  all_goals first
    | (simp [kerr, ierr] at h; done)
    | (simp only [Except.ok.injEq] at h; subst h; exact ho.congr rfl rfl rfl rfl rfl rfl rfl rfl)

/-! ### fresh objects -/

theorem newObj_vals (ot : Nat) (v : String) (h : u32 ot = true) : ObjVals (newObj ot v) := by
  refine ⟨h, rfl, rfl, rfl, rfl, ?_, ?_, (by show i64 (Int.ofNat 0) = true; decide)⟩
  · simp only [newObj]; split <;> decide
  · simp only [newObj]; split <;> decide

theorem finalize_vals {c : Ctx} {e : Engine} {o : Obj} (ho : ObjVals o) (hn : i64 (Int.ofNat c.now) = true) :
    ObjVals (finalize c e o) :=
  ⟨ho.otype, ho.alg, ho.len, ho.format, ho.subtype, ho.mask, ho.state, hn⟩

/-! ### what a successful operation writes into the store -/

def EffVals : Effect → Prop
  | .insert os => ∀ o ∈ os, ObjVals o
  | .update o' => ObjVals o'
  | _ => True

theorem reqAlg_req {d : AttrDict} {msg : String} {a : Nat} (hd : DictReq d) (h : reqAlg d msg = .ok a) : u32 a = true := by
  unfold reqAlg at h
  split at h
  · rename_i a' hget
    simp only [pure, Except.pure, Except.ok.injEq] at h; subst h
    exact hd.get hget
  · simp [ierr] at h
  · simp [kerr] at h

theorem reqLen_req {d : AttrDict} {msg : String} {l : Int} (hd : DictReq d) (h : reqLen d msg = .ok l) : i32 l = true := by
  unfold reqLen at h
  split at h
  · rename_i l' hget
    simp only [pure, Except.pure, Except.ok.injEq] at h; subst h
    exact hd.get hget
  · simp [ierr] at h
  · simp [kerr] at h

theorem one_vals {o : Obj} (h : ObjVals o) : ∀ x ∈ [o], ObjVals x := by
  intro x hx; simp only [List.mem_singleton] at hx; subst hx; exact h

theorem opCreate_vals {c : Ctx} {e : Engine} {ot : Nat} {t : Option Template} {cr : Crypto} {eff : Effect} {d : Data}
    (hp : tmplReq t = true) (hn : i64 (Int.ofNat c.now) = true) (h : opCreate c e ot t cr = .ok (eff, d)) :
    EffVals eff := by
  unfold opCreate at h
  inv h
  obtain ⟨_, dd, hdd, alg, halg, len, hlen, _, _, token, _, _, o, ho, rfl, _⟩ := h
  have hd := processTemplate?_req hp hdd
  refine one_vals (finalize_vals (setAttrs_vals ?_ hd ho) hn)
  have h0 := newObj_vals OT.symmetricKey token (by decide)
  have h1 := vals_len (vals_alg h0 alg (reqAlg_req hd halg)) len (reqLen_req hd hlen)
  exact vals_format h1 1 (by decide)

theorem cryptoPair_req {cr : Crypto} {t : String × String × Nat × Nat} (hc : cryptoReq cr = true)
    (h : cryptoPair cr = .ok t) : u32 t.2.2.1 = true ∧ u32 t.2.2.2 = true := by
  cases cr with
  | ok2 a b f g =>
    simp only [cryptoPair, pure, Except.pure, Except.ok.injEq] at h; subst h
    simpa [cryptoReq] using hc
  | ok _ => simp [cryptoPair, cryptoErr, ierr] at h
  | verdict _ => simp [cryptoPair, cryptoErr, ierr] at h
  | kmipError _ => simp [cryptoPair, cryptoErr, kerr] at h
  | internal => simp [cryptoPair, cryptoErr, ierr] at h

theorem requireKeyAttrs_req {d : AttrDict} {which : String} {r : Nat × Int} (hd : DictReq d)
    (h : requireKeyAttrs d which = .ok r) : u32 r.1 = true ∧ i32 r.2 = true := by
  unfold requireKeyAttrs at h
  inv h
  obtain ⟨alg, halg, len, hlen, _, _, rfl⟩ := h
  exact ⟨reqAlg_req hd halg, reqLen_req hd hlen⟩

theorem opCreateKeyPair_vals {c : Ctx} {e : Engine} {cm pr pu : Option Template} {cr : Crypto} {eff : Effect} {d : Data}
    (h1 : tmplReq cm = true) (h2 : tmplReq pr = true) (h3 : tmplReq pu = true) (hc : cryptoReq cr = true)
    (hn : i64 (Int.ofNat c.now) = true) (h : opCreateKeyPair c e cm pr pu cr = .ok (eff, d)) : EffVals eff := by
  unfold opCreateKeyPair at h
  inv h
  obtain ⟨dpub, hdpub, dpriv, hdpriv, dcom, hdcom, pk, hpk, sk, hsk, _, _, t, ht, po, hpo, so, hso, rfl, _⟩ := h
  have hcom := processTemplate?_req h1 hdcom
  have hpub := mergeCommon_req hcom (processTemplate?_req h3 hdpub)
  have hpriv := mergeCommon_req hcom (processTemplate?_req h2 hdpriv)
  have hpk' := requireKeyAttrs_req hpub hpk
  have hf := cryptoPair_req hc ht
  intro x hx
  simp only [List.mem_cons, List.not_mem_nil, or_false] at hx
  rcases hx with rfl | rfl
  · refine finalize_vals (setAttrs_vals ?_ hpub hpo) hn
    exact vals_format (vals_len (vals_alg (newObj_vals OT.publicKey _ (by decide)) _ hpk'.1) _ hpk'.2) _ hf.1
  · refine finalize_vals (setAttrs_vals ?_ hpriv hso) hn
    exact vals_format (vals_len (vals_alg (newObj_vals OT.privateKey _ (by decide)) _ hpk'.1) _ hpk'.2) _ hf.2

theorem opRegister_vals {c : Ctx} {e : Engine} {ot : Nat} {t : Option Template} {obj : Option RegObj} {eff : Effect}
    {d : Data} (h1 : tmplReq t = true) (h2 : optAll regReq obj = true) (hn : i64 (Int.ofNat c.now) = true)
    (h : opRegister c e ot t obj = .ok (eff, d)) : EffVals eff := by
  unfold opRegister at h
  inv h
  obtain ⟨_, h⟩ := h
  split at h
  · inv h
  · rename_i ro
    inv h
    obtain ⟨dd, hdd, _, _, o, ho, rfl, _⟩ := h
    rw [optAll_some] at h2
    simp only [regReq, Bool.and_eq_true] at h2
    refine one_vals (finalize_vals (setAttrs_vals ?_ (processTemplate?_req h1 hdd) ho) hn)
    have h0 := newObj_vals ro.otype ro.value h2.1.1.1.1
    exact ⟨h0.otype, h2.1.1.1.2, h2.1.1.2, h2.1.2, h2.2, h0.mask, h0.state, h0.date⟩

theorem deriveLen_req {d : AttrDict} {n : Nat} (hd : DictReq d) (h : deriveLen d = .ok n) :
    i32 (Int.ofNat (n * 8)) = true := by
  unfold deriveLen at h
  split at h
  · rename_i l hget
    have hl : i32 l = true := hd.get hget
    split at h
    · split at h
      · simp [kerr] at h
      · simp only [pure, Except.pure, Except.ok.injEq] at h; subst h
        rename_i hm _
        simp only [i32, decide_eq_true_eq, Int.ofNat_eq_natCast] at hl ⊢
        simp only [beq_iff_eq] at hm
        omega
    · simp [kerr] at h
  · simp [ierr] at h
  · simp [kerr] at h

theorem deriveAlg_req {ot : Nat} {d : AttrDict} {a : Option Nat} (hd : DictReq d) (h : deriveAlg ot d = .ok a) :
    optAll u32 a = true := by
  unfold deriveAlg at h
  split at h
  · split at h
    · rename_i a' hget
      simp only [pure, Except.pure, Except.ok.injEq] at h; subst h
      exact hd.get hget
    · simp [ierr] at h
    · simp [kerr] at h
  · simp only [pure, Except.pure, Except.ok.injEq] at h; subst h; rfl

theorem derivedObj_vals (ot : Nat) (alg : Option Nat) (bytes : Nat) (v : String) (ha : optAll u32 alg = true)
    (hb : i32 (Int.ofNat (bytes * 8)) = true) : ObjVals (derivedObj ot alg bytes v) := by
  unfold derivedObj
  split
  · exact vals_format (vals_lenN (vals_algO (newObj_vals OT.symmetricKey v (by decide)) alg ha) _ hb) 1 (by decide)
  · exact vals_subtype (newObj_vals OT.secretData v (by decide)) 2 (by decide)

theorem opDeriveKey_vals {c : Ctx} {e : Engine} {ot : Nat} {us : List String} {t : Option Template} {cr : Crypto}
    {eff : Effect} {d : Data} (h1 : tmplReq t = true) (hn : i64 (Int.ofNat c.now) = true)
    (h : opDeriveKey c e ot us t cr = .ok (eff, d)) : EffVals eff := by
  unfold opDeriveKey at h
  inv h
  obtain ⟨dd, hdd, _, bases, _, _, bytes, hbytes, alg, halg, token, _, _, o, ho, rfl, _⟩ := h
  have hd := processTemplate?_req h1 hdd
  refine one_vals (finalize_vals (setAttrs_vals (derivedObj_vals _ _ _ _ (deriveAlg_req hd halg) (deriveLen_req hd hbytes))
    ?_ ho) hn)
  split
  · exact hd.erase _
  · exact hd

theorem ObjVals.withUid {o : Obj} (h : ObjVals o) (u : Nat) : ObjVals { o with uid := u } :=
  h.congr rfl rfl rfl rfl rfl rfl rfl rfl

theorem modifyCore_vals {c : Ctx} {ver : Nat} {o : Obj} {attr current new : Option TAttr} {r : Obj × Option TAttr}
    (ho : ObjVals o) (ha : optAll tattrReq attr = true) (hnw : optAll tattrReq new = true)
    (h : modifyCore c ver o attr current new = .ok r) : ObjVals r.1 := by
  unfold modifyCore at h
  split at h
  · split at h
    · inv h
    · rename_i nw
      rw [optAll_some] at hnw
      simp only [tattrReq, Bool.and_eq_true] at hnw
      inv h
      obtain ⟨_, _, _, _, mv, _, h⟩ := h
      split at h
      · inv h; obtain ⟨_, _, o', ho', rfl⟩ := h; exact setByIndex_vals ho ho'
      · inv h; obtain ⟨_, _, o', ho', rfl⟩ := h; exact setSingle_vals ho hnw.1 ho'
  · split at h
    · inv h
    · rename_i a
      rw [optAll_some] at ha
      simp only [tattrReq, Bool.and_eq_true] at ha
      inv h
      obtain ⟨_, _, _, mv, _, h⟩ := h
      split at h
      · inv h
        obtain ⟨_, _, _, _, _, o', ho', _, _, _, _, rfl⟩ := h
        exact setByIndex_vals ho ho'
      · inv h
        obtain ⟨_, _, _, _, o', ho', _, _, _, _, rfl⟩ := h
        exact setSingle_vals ho ha.1 ho'

theorem deleteCore_vals {c : Ctx} {ver : Nat} {o : Obj} {name : Option String} {index : Option Int}
    {current : Option TAttr} {reference : Option String} {r : Obj × Option TAttr} (ho : ObjVals o)
    (h : deleteCore c ver o name index current reference = .ok r) : ObjVals r.1 := by
  unfold deleteCore at h
  split at h
  · split at h
    · inv h; obtain ⟨o', ho', rfl⟩ := h; exact delAttr_vals ho ho'
    · inv h; obtain ⟨o', ho', rfl⟩ := h; exact delAttr_vals ho ho'
    · inv h
  · split at h
    · inv h
    · inv h
      obtain ⟨_, _, _, _, _, o', ho', rfl⟩ := h
      exact delAttr_vals ho ho'

theorem cryptoResult_eff {uid : Option String} {cr : Crypto} {eff : Effect} {d : Data}
    (h : cryptoResult uid cr = .ok (eff, d)) : eff = .none := by
  cases cr with
  | ok t => simp only [cryptoResult] at h; inv h; exact h.1.symm
  | verdict b => simp only [cryptoResult] at h; inv h; exact h.1.symm
  | ok2 _ _ _ _ => simp [cryptoResult, cryptoErr, ierr] at h
  | kmipError _ => simp [cryptoResult, cryptoErr, kerr] at h
  | internal => simp [cryptoResult, cryptoErr, ierr] at h

/-- **What a successful item writes into the store is in range**: values from the request, from the backend's
answer, from the clock and from objects already stored. -/
theorem processOperation_effVals {c : Ctx} {e : Engine} {it : Kmip.Item} {eff : Effect} {d : Data}
    (hs : StoreVals e.store) (hit : itemReq it = true) (hn : i64 (Int.ofNat c.now) = true)
    (h : processOperation c e it = .ok (eff, d)) : EffVals eff := by
  simp only [itemReq, Bool.and_eq_true] at hit
  obtain ⟨hp, hcr⟩ := hit
  unfold processOperation at h
  split at h
  · inv h
  · split at h
    · inv h
    · split at h <;> rename_i hpay <;> rw [hpay] at hp <;> simp only [payloadReq, Bool.and_eq_true] at hp
      · exact opCreate_vals hp hn h
      · exact opCreateKeyPair_vals hp.1.1 hp.1.2 hp.2 hcr hn h
      · exact opRegister_vals hp.1 hp.2 hn h
      · exact opDeriveKey_vals hp hn h
      · unfold opLocate at h; inv h; strip h; subst eff; trivial
      · unfold opGet at h
        inv h
        obtain ⟨_, _, _, _, _, h⟩ := h
        split at h <;> inv h
        · strip h; subst eff; trivial
        · strip h; subst eff; trivial
      · unfold opGetAttributes at h; inv h; strip h; subst eff; trivial
      · unfold opGetAttributeList at h; inv h; strip h; subst eff; trivial
      · unfold opActivate at h
        inv h
        obtain ⟨o, ho, h⟩ := h
        split at h
        · inv h
        · inv h; obtain ⟨_, rfl, _⟩ := h
          exact vals_state (hs o (getWithAccess_ok ho).2.1) _ (by decide)
      · unfold opRevoke at h
        split at h
        · inv h
        · inv h
          obtain ⟨o, ho, h⟩ := h
          have hin := hs o (getWithAccess_ok ho).2.1
          split at h
          · inv h
          · split at h
            · inv h; obtain ⟨rfl, _⟩ := h
              refine vals_state hin _ ?_
              split <;> decide
            · inv h; obtain ⟨_, rfl, _⟩ := h
              exact vals_state hin _ (by decide)
      · unfold opDestroy at h; inv h; strip h; subst eff; trivial
      · unfold opQuery at h; inv h; strip h; subst eff; trivial
      · unfold opDiscoverVersions at h
        split at h <;> inv h <;> (obtain ⟨rfl, _⟩ := h; trivial)
      · unfold opEncrypt at h; inv h; obtain ⟨_, _, h⟩ := h
        rw [cryptoResult_eff h]; trivial
      · unfold opDecrypt at h; inv h; obtain ⟨_, _, h⟩ := h
        rw [cryptoResult_eff h]; trivial
      · unfold opSign at h; inv h; obtain ⟨_, _, h⟩ := h
        rw [cryptoResult_eff h]; trivial
      · unfold opSignatureVerify at h; inv h; obtain ⟨_, _, h⟩ := h
        rw [cryptoResult_eff h]; trivial
      · unfold opMac at h; inv h; strip h
        rw [cryptoResult_eff h]; trivial
      · unfold opSetAttribute at h
        inv h
        obtain ⟨o, ho, _, _, _, _, _, _, o', ho', rfl, _⟩ := h
        refine (setAttrs_vals (hs o (getWithAccess_ok ho).2.1) ?_ ho').withUid _
        intro kv hkv
        simp only [List.mem_singleton] at hkv
        subst hkv
        simp only [tattrReq, Bool.and_eq_true] at hp
        exact hp.1
      · unfold opModifyAttribute at h
        inv h
        obtain ⟨o, ho, r, hr, rfl, _⟩ := h
        exact (modifyCore_vals (hs o (getWithAccess_ok ho).2.1) hp.1 hp.2 hr).withUid _
      · unfold opDeleteAttribute at h
        inv h
        obtain ⟨o, ho, r, hr, rfl, _⟩ := h
        exact (deleteCore_vals (hs o (getWithAccess_ok ho).2.1) hr).withUid _
      · inv h

/-! ### the store -/

theorem applyEffect_vals {e : Engine} {eff : Effect} (hi : e.store.Inv) (hs : StoreVals e.store) (he : EffVals eff) :
    StoreVals (applyEffect e eff).store := by
  cases eff with
  | none => exact hs
  | insert os =>
    intro x hx
    simp only [applyEffect] at hx
    rcases (Store.insertAll_spec e.store os hi).2.2 x hx with hx' | ⟨_, o, ho, hxo⟩
    · exact hs x hx'
    · rw [hxo]; exact (he o ho).withUid _
  | update o' =>
    intro x hx
    simp only [applyEffect, Store.update, List.mem_map] at hx
    obtain ⟨y, hy, rfl⟩ := hx
    split
    · exact he
    · exact hs y hy
  | delete u =>
    intro x hx
    simp only [applyEffect, Store.delete] at hx
    exact hs x (List.mem_filter.mp hx).1

theorem batchSpec_vals (c : Ctx) (hn : i64 (Int.ofNat c.now) = true) (stop : Bool) (e : Engine) (items : List Kmip.Item)
    (hit : items.all itemReq = true) (hi : e.store.Inv) (hs : StoreVals e.store) :
    StoreVals (batchSpec c stop e items).1.store := by
  induction items generalizing e with
  | nil => exact hs
  | cons it rest ih =>
    simp only [List.all_cons, Bool.and_eq_true] at hit
    simp only [batchSpec]
    cases hp : processOperation c e it with
    | ok r =>
      obtain ⟨eff, d⟩ := r
      exact ih _ hit.2 (applyEffect_inv e eff hi).1 (applyEffect_vals hi hs (processOperation_effVals hs hit.1 hn hp))
    | error err =>
      simp only
      cases stop
      · simpa using ih e hit.2 hi hs
      · simpa using hs

/-- **`processRequest_store_in_range`**: serving a request whose values are in range keeps the values of the
store in range. -/
theorem processRequest_store_in_range (c : Ctx) (hn : i64 (Int.ofNat c.now) = true) (e : Engine) (id : Identity)
    (r : Request) (hr : RequestInRange r) (hi : e.store.Inv) (hs : StoreVals e.store) :
    StoreVals (processRequest c e id r).1.store := by
  rcases processRequest_cases c e id r with ⟨hst, _⟩ | hb
  · rw [hst]; exact hs
  · rw [hb]
    simp only [RequestInRange, requestInRange, Bool.and_eq_true] at hr
    exact batchSpec_vals c hn r.stop ⟨e.store, none, r.version, id⟩ r.items hr.2 hi hs

/-- every request of the history is in range and served at a time that fits a Date-Time -/
def StepsInRange (steps : List Step) : Prop :=
  ∀ s ∈ steps, match s with
    | .request c _ r => i64 (Int.ofNat c.now) = true ∧ RequestInRange r
    | .restart => True

/-- **The values of the store are in range after every history of in-range requests and restarts**, from any
store in range - in particular the empty one. -/
theorem run_vals (e : Engine) (steps : List Step) (hok : StepsInRange steps) (hi : e.store.Inv)
    (hs : StoreVals e.store) : StoreVals (run e steps).store := by
  induction steps generalizing e with
  | nil => exact hs
  | cons s rest ih =>
    have hrest : StepsInRange rest := fun s hs' => hok s (List.mem_cons_of_mem _ hs')
    cases s with
    | request c id r =>
      have := hok (.request c id r) List.mem_cons_self
      exact ih _ hrest (processRequest_inv c e id r hi).1 (processRequest_store_in_range c this.1 e id r this.2 hi hs)
    | restart => exact ih _ hrest hi hs

end Kmip.Encode
