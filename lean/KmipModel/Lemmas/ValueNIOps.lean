/-
Non-interference of stored key material, part 2: every handler run on the scrambled
store answers the scrambling of what it answers on the original store
(`processOperation_mapV`).
-/
import KmipModel.Lemmas.ValueNI
namespace Kmip

/-- rewriting with the commutation lemmas of part 1 -/
macro "mapv_simp" : tactic =>
  `(tactic| simp only [getWithAccess_mapV, listWithAccess_mapV, getAttr_mapV, getAttrs_mapV, attrIndex_mapV,
      setSingle_mapV, setMulti_mapV, setAttr_mapV, setAttrs_mapV, setByIndex_mapV, delAttr_mapV,
      Engine.mapV_placeholder, Engine.mapV_version, Engine.mapV_identity, Engine.mapV_store, Store.mapV_nextUid,
      Obj.mapV_uid, Obj.mapV_otype, Obj.mapV_owner, Obj.mapV_policy, Obj.mapV_names, Obj.mapV_groups,
      Obj.mapV_appInfo, Obj.mapV_sensitive, Obj.mapV_initialDate, Obj.mapV_state, Obj.mapV_mask, Obj.mapV_isKey,
      Obj.mapV_alg, Obj.mapV_len, Obj.mapV_format, Obj.mapV_subtype, Obj.mapV_value, List.isEmpty_map])

/-- `split`, then reduce the copy of the same condition on the other side -/
macro "split_both" : tactic => `(tactic| (split <;> try simp only [*, ↓reduceIte, Bool.false_eq_true]))

/-- walk through both `do` blocks in step -/
macro "ni_steps" : tactic =>
  `(tactic| repeat' (first
      | rfl
      | mapv_simp
      | (refine bind_map_eq _ _ _ _ _ (fun _ => ?_))
      | (refine bind_same_eq _ _ _ _ (fun _ => ?_))
      | (refine bind_map_eq' _ _ _ _ (fun _ => ?_))
      | (refine bind_same_eq' _ _ _ (fun _ => ?_))
      | (split <;> try simp only [*, ↓reduceIte, Bool.false_eq_true])))

variable (g : String → String) (c : Ctx) (e : Engine)

/-! ### creating handlers: they do not look at stored objects -/

theorem finalize_mapV (o : Obj) : finalize c (e.mapV g) o = finalize c e o := rfl

theorem opCreate_mapV (ot : Nat) (t : Option Template) (cr : Crypto) :
    opCreate c (e.mapV g) ot t cr = (opCreate c e ot t cr).map (outMapV g) := by
  unfold opCreate
  ni_steps

theorem opCreateKeyPair_mapV (cm pr pu : Option Template) (cr : Crypto) :
    opCreateKeyPair c (e.mapV g) cm pr pu cr = (opCreateKeyPair c e cm pr pu cr).map (outMapV g) := by
  unfold opCreateKeyPair
  ni_steps

theorem opRegister_mapV (ot : Nat) (t : Option Template) (ro : Option RegObj) :
    opRegister c (e.mapV g) ot t ro = (opRegister c e ot t ro).map (outMapV g) := by
  unfold opRegister
  ni_steps

/-! ### DeriveKey: the base objects are looked up, only their type and usage mask are read -/

theorem deriveBases_mapV (us : List String) :
    deriveBases c (e.mapV g) us = (deriveBases c e us).map (List.map (Obj.mapV g)) := by
  induction us with
  | nil => rfl
  | cons u us ih =>
    unfold deriveBases
    rw [ih]
    ni_steps

theorem opDeriveKey_mapV (ot : Nat) (us : List String) (t : Option Template) (cr : Crypto) :
    opDeriveKey c (e.mapV g) ot us t cr = (opDeriveKey c e ot us t cr).map (outMapV g) := by
  unfold opDeriveKey
  simp only [deriveBases_mapV]
  ni_steps

/-! ### Get -/

/-- an unwrapped Get answers the stored value: scrambled on the scrambled store — the ONLY place
where a stored value reaches an answer -/
theorem coreObject_mapV_plain (o : Obj) (v u : String) :
    coreObject (o.mapV g) (g v) false u = (coreObject o v false u).map (Data.mapV g) := by
  unfold coreObject
  ni_steps

/-- a wrapped Get answers the backend's token -/
theorem coreObject_mapV_wrapped (o : Obj) (tok u : String) :
    coreObject (o.mapV g) tok true u = (coreObject o tok true u).map (Data.mapV g) := by
  unfold coreObject
  ni_steps

theorem checkFormat_mapV (o : Obj) (f : Option Nat) : checkFormat (o.mapV g) f = checkFormat o f := rfl

theorem getWrapKey_mapV (ku : String) :
    getWrapKey c (e.mapV g) ku = (getWrapKey c e ku).map (Obj.mapV g) := by
  unfold getWrapKey
  mapv_simp
  cases getWithAccess c e (some ku) Op.get <;> rfl

theorem wrapGuards_mapV (o : Obj) (w : WrapSpec) (cr : Crypto) :
    wrapGuards c (e.mapV g) (o.mapV g) w cr = wrapGuards c e o w cr := by
  unfold wrapGuards
  simp only [getWrapKey_mapV]
  ni_steps

theorem opGet_mapV (u : Option String) (f : Option Nat) (cp : Bool) (w : Option WrapSpec) (cr : Crypto) :
    opGet c (e.mapV g) u f cp w cr = (opGet c e u f cp w cr).map (outMapV g) := by
  unfold opGet
  mapv_simp
  split
  · rfl
  refine bind_map_eq _ _ _ _ _ (fun o => ?_)
  simp only [checkFormat_mapV, wrapGuards_mapV, coreObject_mapV_plain, coreObject_mapV_wrapped, Obj.mapV_value]
  ni_steps

/-! ### GetAttributes / GetAttributeList -/

theorem opGetAttributes_mapV (u : Option String) (ns : List String) :
    opGetAttributes c (e.mapV g) u ns = (opGetAttributes c e u ns).map (outMapV g) := by
  unfold opGetAttributes
  ni_steps

theorem opGetAttributeList_mapV (u : Option String) :
    opGetAttributeList c (e.mapV g) u = (opGetAttributeList c e u).map (outMapV g) := by
  unfold opGetAttributeList
  ni_steps

/-! ### Activate / Revoke / Destroy -/

theorem opActivate_mapV (u : Option String) :
    opActivate c (e.mapV g) u = (opActivate c e u).map (outMapV g) := by
  unfold opActivate
  ni_steps

theorem opRevoke_mapV (u : Option String) (code : Option Nat) :
    opRevoke c (e.mapV g) u code = (opRevoke c e u code).map (outMapV g) := by
  unfold opRevoke
  ni_steps

theorem opDestroy_mapV (u : Option String) :
    opDestroy c (e.mapV g) u = (opDestroy c e u).map (outMapV g) := by
  unfold opDestroy
  ni_steps

/-! ### Query / DiscoverVersions -/

theorem opQuery_mapV (fs : List Nat) : opQuery (e.mapV g) fs = (opQuery e fs).map (outMapV g) := by
  unfold opQuery
  ni_steps

theorem opDiscoverVersions_mapV (vs : List Nat) :
    opDiscoverVersions c (e.mapV g) vs = (opDiscoverVersions c e vs).map (outMapV g) := by
  unfold opDiscoverVersions
  ni_steps

/-! ### cryptographic operations: the key's type, state and usage mask are read; the result is the
backend's scripted answer -/

theorem cryptoGuard_mapV (u : Option String) (p : Bool) (kind bit : Nat) :
    cryptoGuard c (e.mapV g) u p kind bit = (cryptoGuard c e u p kind bit).map (Obj.mapV g) := by
  unfold cryptoGuard
  ni_steps

theorem cryptoResult_mapV (u : Option String) (cr : Crypto) :
    cryptoResult u cr = (cryptoResult u cr).map (outMapV g) := by
  cases cr <;> rfl

theorem opEncrypt_mapV (u : Option String) (p : Bool) (cr : Crypto) :
    opEncrypt c (e.mapV g) u p cr = (opEncrypt c e u p cr).map (outMapV g) := by
  unfold opEncrypt
  simp only [cryptoGuard_mapV, Engine.mapV_placeholder]
  exact bind_map_eq _ _ _ _ _ (fun _ => cryptoResult_mapV g _ _)

theorem opDecrypt_mapV (u : Option String) (p : Bool) (cr : Crypto) :
    opDecrypt c (e.mapV g) u p cr = (opDecrypt c e u p cr).map (outMapV g) := by
  unfold opDecrypt
  simp only [cryptoGuard_mapV, Engine.mapV_placeholder]
  exact bind_map_eq _ _ _ _ _ (fun _ => cryptoResult_mapV g _ _)

theorem opSign_mapV (u : Option String) (p : Bool) (cr : Crypto) :
    opSign c (e.mapV g) u p cr = (opSign c e u p cr).map (outMapV g) := by
  unfold opSign
  simp only [cryptoGuard_mapV, Engine.mapV_placeholder]
  exact bind_map_eq _ _ _ _ _ (fun _ => cryptoResult_mapV g _ _)

theorem opSignatureVerify_mapV (u : Option String) (p : Bool) (cr : Crypto) :
    opSignatureVerify c (e.mapV g) u p cr = (opSignatureVerify c e u p cr).map (outMapV g) := by
  unfold opSignatureVerify
  simp only [cryptoGuard_mapV, Engine.mapV_placeholder]
  exact bind_map_eq _ _ _ _ _ (fun _ => cryptoResult_mapV g _ _)

/-- MAC is the one handler that looks at the value: it tests it for emptiness — hence the
hypothesis that `g` keeps empty values empty and non-empty values non-empty. -/
theorem opMac_mapV (hg : ∀ s, g s = "" ↔ s = "") (u : Option String) (a : Option Nat) (dt : Bool) (cr : Crypto) :
    opMac c (e.mapV g) u a dt cr = (opMac c e u a dt cr).map (outMapV g) := by
  unfold opMac
  mapv_simp
  refine bind_map_eq _ _ _ _ _ (fun o => ?_)
  simp only [Obj.mapV_isKey, Obj.mapV_alg, Obj.mapV_value, Obj.mapV_state, Obj.mapV_mask, hg]
  repeat' (first
    | exact cryptoResult_mapV g _ _
    | rfl
    | (split <;> try simp only [*, ↓reduceIte, Bool.false_eq_true]))

/-! ### SetAttribute / ModifyAttribute / DeleteAttribute -/

theorem opSetAttribute_mapV (u : Option String) (a : TAttr) :
    opSetAttribute c (e.mapV g) u a = (opSetAttribute c e u a).map (outMapV g) := by
  unfold opSetAttribute
  ni_steps

theorem checkCurrent_mapV (o : Obj) (n : String) (cu : Option TAttr) :
    checkCurrent (o.mapV g) n cu = checkCurrent o n cu := by
  unfold checkCurrent
  mapv_simp

theorem currentIndex_mapV (o : Obj) (n : String) (cu : Option TAttr) :
    currentIndex (o.mapV g) n cu = currentIndex o n cu := by
  unfold currentIndex
  mapv_simp

theorem modifyCore_mapV (ver : Nat) (o : Obj) (a cu nw : Option TAttr) :
    modifyCore c ver (o.mapV g) a cu nw =
      (modifyCore c ver o a cu nw).map (fun r => (r.1.mapV g, r.2)) := by
  unfold modifyCore
  simp only [checkCurrent_mapV, currentIndex_mapV]
  ni_steps

theorem opModifyAttribute_mapV (u : Option String) (a cu nw : Option TAttr) :
    opModifyAttribute c (e.mapV g) u a cu nw = (opModifyAttribute c e u a cu nw).map (outMapV g) := by
  unfold opModifyAttribute
  mapv_simp
  refine bind_map_eq _ _ _ _ _ (fun o => ?_)
  simp only [modifyCore_mapV, Obj.mapV_uid]
  exact bind_map_eq _ _ _ _ _ (fun r => rfl)

theorem deleteCore_mapV (ver : Nat) (o : Obj) (n : Option String) (i : Option Int) (cu : Option TAttr)
    (r : Option String) :
    deleteCore c ver (o.mapV g) n i cu r =
      (deleteCore c ver o n i cu r).map (fun r => (r.1.mapV g, r.2)) := by
  unfold deleteCore
  ni_steps

theorem opDeleteAttribute_mapV (u : Option String) (n : Option String) (i : Option Int) (cu : Option TAttr)
    (r : Option String) :
    opDeleteAttribute c (e.mapV g) u n i cu r = (opDeleteAttribute c e u n i cu r).map (outMapV g) := by
  unfold opDeleteAttribute
  mapv_simp
  refine bind_map_eq _ _ _ _ _ (fun o => ?_)
  simp only [deleteCore_mapV, Obj.mapV_uid]
  exact bind_map_eq _ _ _ _ _ (fun r => rfl)

/-! ### Locate: filters, ordering and slicing never look at a value -/

theorem compareFilter_mapV (o : Obj) (t : DateTrack) (a : TAttr) (got : Got) :
    compareFilter (o.mapV g) t a got = compareFilter o t a got := rfl

theorem filterOne_mapV (o : Obj) (t : DateTrack) (a : TAttr) :
    filterOne c (o.mapV g) t a = filterOne c o t a := by
  simp only [filterOne, getAttr_mapV, compareFilter_mapV, Obj.mapV_otype]

theorem filterObj_mapV (o : Obj) (t : DateTrack) (as : List TAttr) :
    filterObj c (o.mapV g) t as = filterObj c o t as := by
  induction as generalizing t with
  | nil => rfl
  | cons a as ih => simp only [filterObj, filterOne_mapV, ih]

theorem matchesObj_mapV (o : Obj) (as : List TAttr) : matchesObj c (o.mapV g) as = matchesObj c o as := by
  simp only [matchesObj, filterObj_mapV]

theorem locateFilter_mapV (as : List TAttr) (os : List Obj) :
    locateFilter c as (os.map (Obj.mapV g)) = (locateFilter c as os).map (List.map (Obj.mapV g)) := by
  induction os with
  | nil => rfl
  | cons o os ih =>
    simp only [List.map_cons, locateFilter, matchesObj_mapV, ih]
    refine bind_same_eq _ _ _ _ (fun keep => ?_)
    refine bind_map_eq _ _ _ _ _ (fun rest => ?_)
    cases keep <;> rfl

theorem locateMatched_mapV (vis : List Obj) (as : List TAttr) :
    locateMatched c (vis.map (Obj.mapV g)) as = (locateMatched c vis as).map (List.map (Obj.mapV g)) := by
  unfold locateMatched
  split
  · rfl
  · exact locateFilter_mapV g c as vis

theorem insertDesc_mapV (o : Obj) (l : List Obj) :
    insertDesc (o.mapV g) (l.map (Obj.mapV g)) = (insertDesc o l).map (Obj.mapV g) := by
  induction l with
  | nil => rfl
  | cons x xs ih =>
    simp only [List.map_cons, insertDesc, Obj.mapV_initialDate]
    split_both
    · rfl
    · simp only [List.map_cons]

theorem sortDesc_mapV (l : List Obj) : sortDesc (l.map (Obj.mapV g)) = (sortDesc l).map (Obj.mapV g) := by
  induction l with
  | nil => rfl
  | cons x xs ih => simp only [List.map_cons, sortDesc, ih, insertDesc_mapV]

theorem slice_map {α β} (f : α → β) (l : List α) (off mx : Option Int) :
    slice (l.map f) off mx = (slice l off mx).map f := by
  unfold slice
  split <;> simp only [pySlice, List.length_map, List.map_take, List.map_drop]

theorem opLocate_mapV (m o : Option Int) (as : List TAttr) :
    opLocate c (e.mapV g) m o as = (opLocate c e m o as).map (outMapV g) := by
  unfold opLocate
  simp only [listWithAccess_mapV, locateMatched_mapV]
  refine bind_map_eq _ _ _ _ _ (fun matched => ?_)
  simp only [sortDesc_mapV, slice_map, List.map_map]
  rfl

/-! ### the dispatcher -/

/-- **One item on the scrambled store**: it fails iff it fails on the original store, with the
same error (reason and message); when it succeeds it answers the same data — except that an
unwrapped Get answers the scrambled value — and its effect on the store is the same, an update
writing back the scrambled object. -/
theorem processOperation_mapV (hg : ∀ s, g s = "" ↔ s = "") (it : Item) :
    processOperation c (e.mapV g) it = (processOperation c e it).map (outMapV g) := by
  unfold processOperation
  simp only [Engine.mapV_version]
  split
  · rfl
  · split_both
    · rfl
    · split
      · exact opCreate_mapV g c e _ _ _
      · exact opCreateKeyPair_mapV g c e _ _ _ _
      · exact opRegister_mapV g c e _ _ _
      · exact opDeriveKey_mapV g c e _ _ _ _
      · exact opLocate_mapV g c e _ _ _
      · exact opGet_mapV g c e _ _ _ _ _
      · exact opGetAttributes_mapV g c e _ _
      · exact opGetAttributeList_mapV g c e _
      · exact opActivate_mapV g c e _
      · exact opRevoke_mapV g c e _ _
      · exact opDestroy_mapV g c e _
      · exact opQuery_mapV g e _
      · exact opDiscoverVersions_mapV g c e _
      · exact opEncrypt_mapV g c e _ _ _
      · exact opDecrypt_mapV g c e _ _ _
      · exact opSign_mapV g c e _ _ _
      · exact opSignatureVerify_mapV g c e _ _ _
      · exact opMac_mapV g c e hg _ _ _ _
      · exact opSetAttribute_mapV g c e _ _
      · exact opModifyAttribute_mapV g c e _ _ _ _
      · exact opDeleteAttribute_mapV g c e _ _ _ _ _
      · rfl

end Kmip
