/-
The RESULTS of the engine model are in range (`resultInRange`, the hypothesis of
`C02Encode.server_response_wellformed`) when the values of the store are (`StoreVals`, an invariant:
`Lemmas/RangeInv.lean`) and the request is (`RequestInRange`).

The number of instances of a multi-valued attribute is NOT bounded by any invariant, and the Attribute Index is a
32-bit Integer.  Two facts close that gap without a hypothesis on the store:
  * the index of the attribute a KMIP 1.x Modify / DeleteAttribute echoes is the index the REQUEST named;
  * the indices in a GetAttributes answer are smaller than the number of attributes in that answer, and every
    attribute takes at least 8 bytes of a message that is shorter than 2^32 bytes (`attrs_small`).
-/
import KmipModel.Lemmas.RangeInv
namespace Kmip.Encode
open Kmip Kmip.TTLV

/-! ### attributes read from an object whose values are in range -/

/-- value in range; index absent or equal to the position -/
def AttrAt (k : Nat) (a : TAttr) : Prop :=
  avalInRange a.name a.value = true ∧ (a.index = none ∨ a.index = some (k : Int))

theorem getAttrsStep_at {c : Ctx} {ver : Nat} {o : Obj} {name : String} {as : List TAttr}
    (ho : ObjVals o) (h : getAttrsStep c ver o name = .ok as) : ∀ k a, as[k]? = some a → AttrAt k a := by
  unfold getAttrsStep at h
  inv h
  split at h
  · inv h; subst h; simp
  · inv h
    obtain ⟨dep, _, h⟩ := h
    split at h
    · inv h; subst h; simp
    · inv h
      obtain ⟨app, _, h⟩ := h
      split at h
      · inv h; subst h; simp
      · cases hga : getAttr o name with
        | error err => rw [hga] at h; simp only at h; inv h; subst h; simp
        | ok g =>
        rw [hga] at h
        simp only at h
        have hg := getAttr_gen (n := o.names.length + o.groups.length + o.appInfo.length) ho
          ⟨by omega, by omega, by omega⟩ hga
        cases g with
        | none => simp only at h; inv h; subst h; simp
        | some got =>
          inv h
          obtain ⟨mv, _, h⟩ := h
          split at h
          · cases got with
            | multi vs =>
              simp only at h
              inv h; subst h
              intro k a hk
              simp only [List.getElem?_map, Option.map_eq_some_iff] at hk
              obtain ⟨iv, hiv, rfl⟩ := hk
              rw [List.getElem?_zip_eq_some] at hiv
              obtain ⟨h1, h2⟩ := hiv
              have hk' : iv.1 = k := by
                have := List.getElem?_range (n := vs.length) (i := k)
                by_cases hlt : k < vs.length
                · rw [List.getElem?_range hlt] at h1; simpa using h1.symm
                · have : (List.range vs.length)[k]? = none := by simp; omega
                  rw [this] at h1; cases h1
              refine ⟨avalInRange_of_strong _ _ (hg.2 _ (List.mem_of_getElem? h2)), Or.inr ?_⟩
              simp only [hk']
            | single v => simp only at h; inv h
          · cases got with
            | single v =>
              simp only at h
              inv h; subst h
              intro k a hk
              cases k with
              | zero =>
                simp only [List.getElem?_cons_zero, Option.some.injEq] at hk; subst hk
                exact ⟨avalInRange_of_strong _ _ hg, Or.inl rfl⟩
              | succ k => simp at hk
            | multi vs => simp only at h; inv h

/-- one name asked for: the answer is that name's instances, in order -/
theorem getAttrs_one {c : Ctx} {ver : Nat} {o : Obj} {nm : String} {as : List TAttr} (ho : ObjVals o)
    (h : getAttrs c ver o [nm] = .ok as) : ∀ k a, as[k]? = some a → AttrAt k a := by
  unfold getAttrs at h
  simp only [List.isEmpty_cons, Bool.false_eq_true, if_false, List.mapM_cons, List.mapM_nil] at h
  inv h
  obtain ⟨parts, ⟨p1, hp1, _, rfl, rfl⟩, rfl⟩ := h
  simp only [List.flatten_cons, List.flatten_nil, List.append_nil]
  exact getAttrsStep_at ho hp1

/-- any names: every index is smaller than the number of attributes answered -/
def AttrIn (n : Nat) (a : TAttr) : Prop :=
  avalInRange a.name a.value = true ∧ ∀ i, a.index = some i → 0 ≤ i ∧ i < (n : Int)

theorem AttrIn.mono {n m : Nat} {a : TAttr} (h : AttrIn n a) (hnm : n ≤ m) : AttrIn m a :=
  ⟨h.1, fun i hi => ⟨(h.2 i hi).1, by have := (h.2 i hi).2; omega⟩⟩

theorem getAttrs_all {c : Ctx} {ver : Nat} {o : Obj} {names : List String} {as : List TAttr} (ho : ObjVals o)
    (h : getAttrs c ver o names = .ok as) : ∀ a ∈ as, AttrIn as.length a := by
  unfold getAttrs at h
  inv h
  obtain ⟨parts, hp, rfl⟩ := h
  generalize (if names.isEmpty = true then List.map (fun x => x.name) c.rules else names) = ns at hp
  induction ns generalizing parts with
  | nil => simp [List.mapM_nil, pure, Except.pure] at hp; subst hp; simp
  | cons n rest ih =>
    rw [List.mapM_cons] at hp
    inv hp
    obtain ⟨p1, hp1, ps, hps, rfl⟩ := hp
    intro a ha
    simp only [List.flatten_cons, List.mem_append, List.length_append] at ha ⊢
    rcases ha with ha | ha
    · obtain ⟨k, hk, hka⟩ := List.getElem_of_mem ha
      have hat := getAttrsStep_at ho hp1 k a (by rw [List.getElem?_eq_getElem hk, hka])
      refine ⟨hat.1, fun i hi => ?_⟩
      rcases hat.2 with h0 | h0
      · rw [h0] at hi; cases hi
      · rw [h0] at hi; cases hi; omega
    · exact (ih ps hps a ha).mono (by omega)

/-! ### data -/

/-- `dataInRange` up to the size of a GetAttributes answer -/
def DataAlmost : Data → Prop
  | .attrs _ as => ∀ a ∈ as, AttrIn as.length a
  | d => dataInRange d = true

def attrsSmall : Data → Bool
  | .attrs _ as => decide (as.length ≤ 2147483648)
  | _ => true

theorem dataInRange_of_almost {d : Data} (h : DataAlmost d) (hs : attrsSmall d = true) : dataInRange d = true := by
  cases d with
  | attrs u as =>
    simp only [attrsSmall, decide_eq_true_eq] at hs
    simp only [dataInRange, List.all_eq_true]
    intro a ha
    have := h a ha
    simp only [tattrInRange, Bool.and_eq_true]
    refine ⟨this.1, ?_⟩
    cases hi : a.index with
    | none => rfl
    | some i =>
      have := this.2 i hi
      rw [optAll_some]
      simp only [i32, decide_eq_true_eq]
      omega
  | _ => exact h

theorem tattr_of_at {k : Nat} {a : TAttr} (h : AttrAt k a) (hk : k < 2147483648) : tattrInRange a = true := by
  simp only [tattrInRange, Bool.and_eq_true]
  refine ⟨h.1, ?_⟩
  rcases h.2 with h0 | h0
  · rw [h0]; rfl
  · rw [h0, optAll_some]; simp only [i32, decide_eq_true_eq]; omega

theorem nthAttr_at {as : List TAttr} {i : Nat} {site : String} {m : TAttr} (h : nthAttr as i site = .ok m) :
    as[i]? = some m := by
  unfold nthAttr at h
  split at h
  · rename_i m' hm; simp only [pure, Except.pure, Except.ok.injEq] at h; subst h; exact hm
  · simp [ierr] at h

/-- the attribute a KMIP 1.x ModifyAttribute echoes: read back from the modified object (values in range), at the
index the request named -/
theorem modifyCore_echo {c : Ctx} {ver : Nat} {o : Obj} {attr current new : Option TAttr} {r : Obj × Option TAttr}
    (ho : ObjVals o) (ha : optAll tattrReq attr = true) (hnw : optAll tattrReq new = true)
    (h : modifyCore c ver o attr current new = .ok r) : optAll tattrInRange r.2 = true := by
  by_cases hv : 20 ≤ ver
  · rw [modifyCore_20 hv h]; rfl
  · have hvals := modifyCore_vals ho ha hnw h
    unfold modifyCore at h
    rw [if_neg hv] at h
    split at h
    · inv h
    · rename_i a
      rw [optAll_some] at ha
      simp only [tattrReq, Bool.and_eq_true] at ha
      inv h
      obtain ⟨_, _, _, mv, _, h⟩ := h
      split at h
      · inv h
        obtain ⟨_, _, n, _, hidx, o', ho', as, has, m, hm, rfl⟩ := h
        rw [optAll_some]
        simp only [Bool.and_eq_true, decide_eq_true_eq] at hidx
        have hi : i32 (a.index.getD 0) = true := by
          cases hx : a.index with
          | none => decide
          | some i => have := ha.2; rw [hx, optAll_some] at this; simpa using this
        simp only [i32, decide_eq_true_eq] at hi
        exact tattr_of_at (getAttrs_one (setByIndex_vals ho ho') has _ _ (nthAttr_at hm)) (by omega)
      · inv h
        obtain ⟨_, _, _, _, o', ho', as, has, m, hm, rfl⟩ := h
        rw [optAll_some]
        exact tattr_of_at (getAttrs_one (setSingle_vals ho ha.1 ho') has _ _ (nthAttr_at hm)) (by decide)

/-- the attribute a KMIP 1.x DeleteAttribute echoes: read from the stored object, at the index the request named -/
theorem deleteCore_echo {c : Ctx} {ver : Nat} {o : Obj} {name : Option String} {index : Option Int}
    {current : Option TAttr} {reference : Option String} {r : Obj × Option TAttr} (ho : ObjVals o)
    (hidx : optAll i32 index = true) (h : deleteCore c ver o name index current reference = .ok r) :
    optAll tattrInRange r.2 = true := by
  unfold deleteCore at h
  split at h
  · split at h
    · inv h; obtain ⟨_, _, rfl⟩ := h; rfl
    · inv h; obtain ⟨_, _, rfl⟩ := h; rfl
    · inv h
  · split at h
    · inv h
    · rename_i nm
      inv h
      obtain ⟨_, existing, hex, deleted, hdel, _, _, rfl⟩ := h
      have hat := getAttrs_one ho hex
      have hi : i32 (index.getD 0) = true := by
        cases hx : index with
        | none => decide
        | some i => rw [hx, optAll_some] at hidx; simpa using hidx
      simp only [i32, decide_eq_true_eq] at hi
      unfold deletedAttr at hdel
      split at hdel
      · split at hdel
        · inv hdel; subst hdel
          cases hx : existing[0]? with
          | none => rfl
          | some a => rw [optAll_some]; exact tattr_of_at (hat 0 a hx) (by decide)
        · split at hdel
          · rename_i hb
            inv hdel; subst hdel
            simp only [Bool.and_eq_true, decide_eq_true_eq] at hb
            cases hx : existing[(index.getD 0).toNat]? with
            | none => rfl
            | some a => rw [optAll_some]; exact tattr_of_at (hat _ a hx) (by omega)
          · inv hdel
      · inv hdel; subst hdel; rfl

theorem coreObject_vals {o : Obj} {value : String} {wrapped : Bool} {uid : String} {d : Data}
    (ho : ObjVals o) (h : coreObject o value wrapped uid = .ok d) : DataAlmost d := by
  unfold coreObject at h
  split at h
  · inv h; subst h
    simp only [DataAlmost, dataInRange, Bool.and_eq_true]
    exact ⟨⟨⟨⟨ho.otype, rfl⟩, rfl⟩, rfl⟩, ho.subtype⟩
  · split at h
    · inv h; subst h
      simp only [DataAlmost, dataInRange, Bool.and_eq_true]
      exact ⟨⟨⟨⟨ho.otype, rfl⟩, rfl⟩, by decide⟩, ho.subtype⟩
    · split at h
      · inv h; subst h
        simp only [DataAlmost, dataInRange, Bool.and_eq_true]
        exact ⟨⟨⟨⟨ho.otype, ho.alg⟩, ho.len⟩, ho.format⟩, rfl⟩
      · inv h

/-- **The data of every successful item is in range, up to the size of a GetAttributes answer** - in every engine
state whose store VALUES are in range, for every item in range. -/
theorem processOperation_almost {c : Ctx} {e : Engine} {it : Kmip.Item} {eff : Effect} {d : Data}
    (hs : StoreVals e.store) (hit : itemReq it = true) (hv : ∀ v ∈ c.supportedVersions, v < 21474836480)
    (h : processOperation c e it = .ok (eff, d)) : DataAlmost d := by
  simp only [itemReq, Bool.and_eq_true] at hit
  obtain ⟨hp, _⟩ := hit
  unfold processOperation at h
  split at h
  · inv h
  · split at h
    · inv h
    · split at h <;> rename_i hpay <;> rw [hpay] at hp <;> simp only [payloadReq, Bool.and_eq_true] at hp
      · unfold opCreate at h; inv h; strip h; exact (rfl : dataInRange (.uid _) = true)
      · unfold opCreateKeyPair at h; inv h; strip h; exact (rfl : dataInRange (.keyPair _ _) = true)
      · unfold opRegister at h
        inv h
        obtain ⟨_, h⟩ := h
        split at h
        · inv h
        · inv h; strip h; exact (rfl : dataInRange (.uid _) = true)
      · unfold opDeriveKey at h; inv h; strip h; exact (rfl : dataInRange (.uid _) = true)
      · unfold opLocate at h; inv h; strip h; exact (rfl : dataInRange (.uids _) = true)
      · unfold opGet at h
        inv h
        obtain ⟨_, o, ho, _, _, h⟩ := h
        have hin := hs o (getWithAccess_ok ho).2.1
        split at h <;> inv h
        · obtain ⟨dd, hd, _, rfl⟩ := h
          exact coreObject_vals hin hd
        · obtain ⟨_, _, dd, hd, _, rfl⟩ := h
          exact coreObject_vals hin hd
      · unfold opGetAttributes at h
        inv h
        obtain ⟨o, ho, as, has, _, rfl⟩ := h
        exact getAttrs_all (hs o (getWithAccess_ok ho).2.1) has
      · unfold opGetAttributeList at h; inv h; strip h; exact (rfl : dataInRange (.names _ _) = true)
      · unfold opActivate at h
        inv h
        obtain ⟨o, _, h⟩ := h
        split at h
        · inv h
        · inv h; obtain ⟨_, _, rfl⟩ := h; exact (rfl : dataInRange (.uid _) = true)
      · unfold opRevoke at h
        split at h
        · inv h
        · inv h
          obtain ⟨o, _, h⟩ := h
          split at h
          · inv h
          · split at h
            · inv h; obtain ⟨_, rfl⟩ := h; exact (rfl : dataInRange (.uid _) = true)
            · inv h; obtain ⟨_, _, rfl⟩ := h; exact (rfl : dataInRange (.uid _) = true)
      · unfold opDestroy at h; inv h; strip h; exact (rfl : dataInRange (.uid _) = true)
      · unfold opQuery at h
        inv h
        obtain ⟨_, _, rfl⟩ := h
        simp only [DataAlmost, dataInRange]
        split <;> (repeat' split) <;> decide
      · unfold opDiscoverVersions at h
        split at h <;> inv h <;> obtain ⟨_, rfl⟩ := h <;>
          simp only [DataAlmost, dataInRange, List.all_eq_true, decide_eq_true_eq]
        · exact hv
        · intro v hv'; exact hv v (List.contains_iff_mem.1 (List.mem_filter.1 hv').2)
      · unfold opEncrypt at h; inv h; obtain ⟨_, _, h⟩ := h
        rcases cryptoResult_shape h with ⟨t, _, rfl⟩ | ⟨b, _, rfl⟩ <;> exact (rfl : dataInRange (.crypto _ _) = true)
      · unfold opDecrypt at h; inv h; obtain ⟨_, _, h⟩ := h
        rcases cryptoResult_shape h with ⟨t, _, rfl⟩ | ⟨b, _, rfl⟩ <;> exact (rfl : dataInRange (.crypto _ _) = true)
      · unfold opSign at h; inv h; obtain ⟨_, _, h⟩ := h
        rcases cryptoResult_shape h with ⟨t, _, rfl⟩ | ⟨b, _, rfl⟩ <;> exact (rfl : dataInRange (.crypto _ _) = true)
      · unfold opSignatureVerify at h; inv h; obtain ⟨_, _, h⟩ := h
        rcases cryptoResult_shape h with ⟨t, _, rfl⟩ | ⟨b, _, rfl⟩ <;> exact (rfl : dataInRange (.crypto _ _) = true)
      · unfold opMac at h; inv h; strip h
        rcases cryptoResult_shape h with ⟨t, _, rfl⟩ | ⟨b, _, rfl⟩ <;> exact (rfl : dataInRange (.crypto _ _) = true)
      · unfold opSetAttribute at h; inv h; strip h; exact (rfl : dataInRange (.uid _) = true)
      · unfold opModifyAttribute at h
        inv h
        obtain ⟨o, ho, r, hr, _, rfl⟩ := h
        exact modifyCore_echo (hs o (getWithAccess_ok ho).2.1) hp.1 hp.2 hr
      · unfold opDeleteAttribute at h
        inv h
        obtain ⟨o, ho, r, hr, _, rfl⟩ := h
        exact deleteCore_echo (hs o (getWithAccess_ok ho).2.1) hp hr
      · inv h

end Kmip.Encode
