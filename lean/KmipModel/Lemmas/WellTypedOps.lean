/-
Well-typed requests, continued: Locate filters and the attribute operations never end
in an `internal` outcome.
-/
import KmipModel.Lemmas.WellTyped
namespace Kmip

/-! ### Locate -/

theorem passIf_ni (t : DateTrack) (b : Bool) : NoInternal (passIf t b) := NoInternal.pure _

theorem trackDate_ni (t : DateTrack) (v : Int) : NoInternal (trackDate t v) := by
  unfold trackDate
  repeat' (first | exact NoInternal.kerr _ _ | exact NoInternal.pure _ | split)

/-- the filter value is compared with what the getter returned for that name: both have the kind the name
dictates, so no comparison branch is the `AttributeError` one -/
theorem compareFilter_noInternal {c : Ctx} {o : Obj} {t : DateTrack} {a : TAttr} {got : Got}
    (ha : ValOk c a.name a.value) (hg : getAttr o a.name = .ok (some got)) :
    NoInternal (compareFilter o t a got) := by
  obtain ⟨nm, idx, val⟩ := a
  simp only at ha hg
  unfold getAttr at hg
  cases hf : getters.lookup nm with
  | none => rw [hf] at hg; simp [pure, Except.pure] at hg
  | some f =>
    rw [hf] at hg
    have hm := lookup_mem_wt _ _ _ hf
    simp only [getters, List.mem_cons, Prod.mk.injEq, List.mem_nil_iff, or_false] at hm
    rcases hm with ⟨rfl, rfl⟩ | ⟨rfl, rfl⟩ | ⟨rfl, rfl⟩ | ⟨rfl, rfl⟩ | ⟨rfl, rfl⟩ | ⟨rfl, rfl⟩ | ⟨rfl, rfl⟩ |
      ⟨rfl, rfl⟩ | ⟨rfl, rfl⟩ | ⟨rfl, rfl⟩ | ⟨rfl, rfl⟩ | ⟨rfl, rfl⟩ | ⟨rfl, rfl⟩
    -- Unique Identifier
    · obtain ⟨s, rfl⟩ := ha.text_of (by decide)
      simp only [pure, Except.pure, Except.ok.injEq, Option.some.injEq] at hg; subst hg
      exact NoInternal.pure _
    -- Name
    · simp only [pure, Except.pure, Except.ok.injEq, Option.some.injEq] at hg; subst hg
      exact NoInternal.pure _
    -- Object Type
    · obtain ⟨s, rfl⟩ := ha.enum_of (by decide)
      simp only [pure, Except.pure, Except.ok.injEq, Option.some.injEq] at hg; subst hg
      exact NoInternal.pure _
    -- Cryptographic Algorithm
    · obtain ⟨s, rfl⟩ := ha.enum_of (by decide)
      simp only at hg
      split at hg
      · simp only [pure, Except.pure, Except.ok.injEq, Option.map_eq_some_iff] at hg
        obtain ⟨x, _, rfl⟩ := hg
        exact NoInternal.pure _
      · simp [ierr] at hg
    -- Cryptographic Length
    · obtain ⟨s, rfl, _⟩ := ha.int_of (by decide)
      simp only at hg
      split at hg
      · simp only [pure, Except.pure, Except.ok.injEq, Option.map_eq_some_iff] at hg
        obtain ⟨x, _, rfl⟩ := hg
        exact NoInternal.pure _
      · simp [ierr] at hg
    -- Certificate Type
    · obtain ⟨s, rfl⟩ := ha.enum_of (by decide)
      simp only at hg
      split at hg
      · simp only [pure, Except.pure, Except.ok.injEq, Option.map_eq_some_iff] at hg
        obtain ⟨x, _, rfl⟩ := hg
        exact NoInternal.pure _
      · simp [ierr] at hg
    -- Operation Policy Name
    · obtain ⟨s, rfl⟩ := ha.text_of (by decide)
      simp only [pure, Except.pure, Except.ok.injEq, Option.some.injEq] at hg; subst hg
      exact NoInternal.pure _
    -- Cryptographic Usage Mask
    · obtain ⟨s, rfl, hs⟩ := ha.int_of (by decide)
      simp only at hg
      split at hg
      · simp only [pure, Except.pure, Except.ok.injEq, Option.some.injEq] at hg; subst hg
        have : ¬ s < 0 := by omega
        unfold compareFilter
        simp only [show matchKinds.lookup "Cryptographic Usage Mask" = some MatchKind.mask by decide, this, if_false]
        exact NoInternal.pure _
      · simp [ierr] at hg
    -- State
    · obtain ⟨s, rfl⟩ := ha.enum_of (by decide)
      simp only at hg
      split at hg
      · simp only [pure, Except.pure, Except.ok.injEq, Option.some.injEq] at hg; subst hg
        exact NoInternal.pure _
      · simp [ierr] at hg
    -- Initial Date
    · obtain ⟨s, rfl⟩ := ha.date_of (by decide)
      simp only [pure, Except.pure, Except.ok.injEq, Option.some.injEq] at hg; subst hg
      unfold compareFilter
      simp only [show matchKinds.lookup "Initial Date" = some MatchKind.date by decide]
      exact NoInternal.bind (trackDate_ni _ _) (fun _ _ => NoInternal.pure _)
    -- Object Group
    · obtain ⟨s, rfl⟩ := ha.text_of (by decide)
      simp only [pure, Except.pure, Except.ok.injEq, Option.some.injEq] at hg; subst hg
      exact NoInternal.pure _
    -- Application Specific Information
    · obtain ⟨s, s2, rfl⟩ := ha.appInfo_of (by decide)
      simp only [pure, Except.pure, Except.ok.injEq, Option.some.injEq] at hg; subst hg
      exact NoInternal.pure _
    -- Sensitive
    · obtain ⟨s, rfl⟩ := ha.bool_of (by decide)
      simp only [pure, Except.pure, Except.ok.injEq, Option.some.injEq] at hg; subst hg
      exact NoInternal.pure _

def FiltersOk (c : Ctx) (attrs : List TAttr) : Prop := ∀ a ∈ attrs, ValOk c a.name a.value

theorem filterOne_noInternal {c : Ctx} {o : Obj} {t : DateTrack} {a : TAttr}
    (ha : ValOk c a.name a.value) : NoInternal (filterOne c o t a) := by
  unfold filterOne
  simp only [Ctx.isApplicable, bind, Except.bind, pure, Except.pure]
  have key : NoInternal (match getAttr o a.name with
      | Except.error _ => Except.ok FilterStep.fail
      | Except.ok none => Except.ok (FilterStep.pass t)
      | Except.ok (some got) => compareFilter o t a got) := by
    split
    · exact NoInternal.ok _
    · exact NoInternal.ok _
    · rename_i got hg
      exact compareFilter_noInternal ha hg
  repeat' (first | exact NoInternal.ok _ | exact key | split)

theorem filterObj_noInternal {c : Ctx} {o : Obj} (attrs : List TAttr) (t : DateTrack)
    (ha : FiltersOk c attrs) : NoInternal (filterObj c o t attrs) := by
  induction attrs generalizing t with
  | nil => exact NoInternal.pure _
  | cons a as ih =>
    unfold filterObj
    refine NoInternal.bind (filterOne_noInternal (ha a List.mem_cons_self)) (fun st _ => ?_)
    split
    · exact NoInternal.pure _
    · exact ih _ (fun x hx => ha x (List.mem_cons_of_mem _ hx))

theorem matchesObj_noInternal {c : Ctx} {o : Obj} {attrs : List TAttr} (ha : FiltersOk c attrs) :
    NoInternal (matchesObj c o attrs) := by
  unfold matchesObj
  refine NoInternal.bind (filterObj_noInternal attrs _ ha) (fun r _ => ?_)
  repeat' (first | exact NoInternal.pure _ | split)

theorem locateFilter_noInternal {c : Ctx} {attrs : List TAttr} (ha : FiltersOk c attrs) (os : List Obj) :
    NoInternal (locateFilter c attrs os) := by
  induction os with
  | nil => exact NoInternal.pure _
  | cons o os ih =>
    unfold locateFilter
    refine NoInternal.bind (matchesObj_noInternal ha) (fun keep _ => ?_)
    exact NoInternal.bind ih (fun rest _ => NoInternal.pure _)

theorem opLocate_noInternal {c : Ctx} {e : Engine} {mx off : Option Int} {attrs : List TAttr}
    (ha : FiltersOk c attrs) : NoInternal (opLocate c e mx off attrs) := by
  unfold opLocate locateMatched
  refine NoInternal.bind ?_ (fun m _ => NoInternal.pure _)
  split
  · exact NoInternal.pure _
  · exact locateFilter_noInternal ha _

end Kmip
