/-
Well-typed requests, continued: Locate filters and the attribute operations never end
in an `internal` outcome.
-/
import KmipModel.Lemmas.WellTyped
namespace Kmip

/-! ### Locate -/

theorem passIf_ni (t : DateTrack) (b : Bool) : NoInternal (passIf t b) := NoInternal.pure _

theorem trackDate_ni (t : DateTrack) (v : Int) : NoInternal (trackDate t v) := by
  unfold trackDate
  repeat' (first | exact NoInternal.kerr _ _ | exact NoInternal.pure _ | split)

/-- the filter value is compared with what the getter returned for that name: both have the kind the name
dictates, so no comparison branch is the `AttributeError` one -/
theorem compareFilter_noInternal {c : Ctx} {o : Obj} {t : DateTrack} {a : TAttr} {got : Got}
    (ha : ValOk c a.name a.value) (hg : getAttr o a.name = .ok (some got)) :
    NoInternal (compareFilter o t a got) := by
  obtain ⟨nm, idx, val⟩ := a
  simp only at ha hg
  unfold getAttr at hg
  cases hf : getters.lookup nm with
  | none => rw [hf] at hg; simp [pure, Except.pure] at hg
  | some f =>
    rw [hf] at hg
    have hm := lookup_mem_wt _ _ _ hf
    simp only [getters, List.mem_cons, Prod.mk.injEq, List.mem_nil_iff, or_false] at hm
    rcases hm with ⟨rfl, rfl⟩ | ⟨rfl, rfl⟩ | ⟨rfl, rfl⟩ | ⟨rfl, rfl⟩ | ⟨rfl, rfl⟩ | ⟨rfl, rfl⟩ | ⟨rfl, rfl⟩ |
      ⟨rfl, rfl⟩ | ⟨rfl, rfl⟩ | ⟨rfl, rfl⟩ | ⟨rfl, rfl⟩ | ⟨rfl, rfl⟩ | ⟨rfl, rfl⟩
    -- Unique Identifier
    · obtain ⟨s, rfl⟩ := ha.text_of (by decide)
      simp only [pure, Except.pure, Except.ok.injEq, Option.some.injEq] at hg; subst hg
      exact NoInternal.pure _
    -- Name
    · simp only [pure, Except.pure, Except.ok.injEq, Option.some.injEq] at hg; subst hg
      exact NoInternal.pure _
    -- Object Type
    · obtain ⟨s, rfl⟩ := ha.enum_of (by decide)
      simp only [pure, Except.pure, Except.ok.injEq, Option.some.injEq] at hg; subst hg
      exact NoInternal.pure _
    -- Cryptographic Algorithm
    · obtain ⟨s, rfl⟩ := ha.enum_of (by decide)
      simp only at hg
      split at hg
      · simp only [pure, Except.pure, Except.ok.injEq, Option.map_eq_some_iff] at hg
        obtain ⟨x, _, rfl⟩ := hg
        exact NoInternal.pure _
      · simp [ierr] at hg
    -- Cryptographic Length
    · obtain ⟨s, rfl⟩ := ha.int_of (by decide)
      simp only at hg
      split at hg
      · simp only [pure, Except.pure, Except.ok.injEq, Option.map_eq_some_iff] at hg
        obtain ⟨x, _, rfl⟩ := hg
        exact NoInternal.pure _
      · simp [ierr] at hg
    -- Certificate Type
    · obtain ⟨s, rfl⟩ := ha.enum_of (by decide)
      simp only at hg
      split at hg
      · simp only [pure, Except.pure, Except.ok.injEq, Option.map_eq_some_iff] at hg
        obtain ⟨x, _, rfl⟩ := hg
        exact NoInternal.pure _
      · simp [ierr] at hg
    -- Operation Policy Name
    · obtain ⟨s, rfl⟩ := ha.text_of (by decide)
      simp only [pure, Except.pure, Except.ok.injEq, Option.some.injEq] at hg; subst hg
      exact NoInternal.pure _
    -- Cryptographic Usage Mask
    · obtain ⟨s, rfl⟩ := ha.int_of (by decide)
      simp only at hg
      split at hg
      · simp only [pure, Except.pure, Except.ok.injEq, Option.some.injEq] at hg; subst hg
        exact NoInternal.pure _
      · simp [ierr] at hg
    -- State
    · obtain ⟨s, rfl⟩ := ha.enum_of (by decide)
      simp only at hg
      split at hg
      · simp only [pure, Except.pure, Except.ok.injEq, Option.some.injEq] at hg; subst hg
        exact NoInternal.pure _
      · simp [ierr] at hg
    -- Initial Date
    · obtain ⟨s, rfl⟩ := ha.date_of (by decide)
      simp only [pure, Except.pure, Except.ok.injEq, Option.some.injEq] at hg; subst hg
      unfold compareFilter
      simp only [show matchKinds.lookup "Initial Date" = some MatchKind.date by decide]
      exact NoInternal.bind (trackDate_ni _ _) (fun _ _ => NoInternal.pure _)
    -- Object Group
    · obtain ⟨s, rfl⟩ := ha.text_of (by decide)
      simp only [pure, Except.pure, Except.ok.injEq, Option.some.injEq] at hg; subst hg
      exact NoInternal.pure _
    -- Application Specific Information
    · obtain ⟨s, s2, rfl⟩ := ha.appInfo_of (by decide)
      simp only [pure, Except.pure, Except.ok.injEq, Option.some.injEq] at hg; subst hg
      exact NoInternal.pure _
    -- Sensitive
    · obtain ⟨s, rfl⟩ := ha.bool_of (by decide)
      simp only [pure, Except.pure, Except.ok.injEq, Option.some.injEq] at hg; subst hg
      exact NoInternal.pure _

def FiltersOk (c : Ctx) (attrs : List TAttr) : Prop := ∀ a ∈ attrs, ValOk c a.name a.value

theorem filterOne_noInternal {c : Ctx} {o : Obj} {t : DateTrack} {a : TAttr}
    (ha : ValOk c a.name a.value) : NoInternal (filterOne c o t a) := by
  unfold filterOne
  simp only [Ctx.isApplicable, bind, Except.bind, pure, Except.pure]
  have key : NoInternal (match getAttr o a.name with
      | Except.error _ => Except.ok FilterStep.fail
      | Except.ok none => Except.ok (FilterStep.pass t)
      | Except.ok (some got) => compareFilter o t a got) := by
    split
    · exact NoInternal.ok _
    · exact NoInternal.ok _
    · rename_i got hg
      exact compareFilter_noInternal ha hg
  repeat' (first | exact NoInternal.ok _ | exact key | split)

theorem filterObj_noInternal {c : Ctx} {o : Obj} (attrs : List TAttr) (t : DateTrack)
    (ha : FiltersOk c attrs) : NoInternal (filterObj c o t attrs) := by
  induction attrs generalizing t with
  | nil => exact NoInternal.pure _
  | cons a as ih =>
    unfold filterObj
    refine NoInternal.bind (filterOne_noInternal (ha a List.mem_cons_self)) (fun st _ => ?_)
    split
    · exact NoInternal.pure _
    · exact ih _ (fun x hx => ha x (List.mem_cons_of_mem _ hx))

theorem matchesObj_noInternal {c : Ctx} {o : Obj} {attrs : List TAttr} (ha : FiltersOk c attrs) :
    NoInternal (matchesObj c o attrs) := by
  unfold matchesObj
  refine NoInternal.bind (filterObj_noInternal attrs _ ha) (fun r _ => ?_)
  repeat' (first | exact NoInternal.pure _ | split)

theorem locateFilter_noInternal {c : Ctx} {attrs : List TAttr} (ha : FiltersOk c attrs) (os : List Obj) :
    NoInternal (locateFilter c attrs os) := by
  induction os with
  | nil => exact NoInternal.pure _
  | cons o os ih =>
    unfold locateFilter
    refine NoInternal.bind (matchesObj_noInternal ha) (fun keep _ => ?_)
    exact NoInternal.bind ih (fun rest _ => NoInternal.pure _)

theorem opLocate_noInternal {c : Ctx} {e : Engine} {mx off : Option Int} {attrs : List TAttr}
    (ha : FiltersOk c attrs) : NoInternal (opLocate c e mx off attrs) := by
  unfold opLocate locateMatched
  refine NoInternal.bind ?_ (fun m _ => NoInternal.pure _)
  split
  · exact NoInternal.pure _
  · exact locateFilter_noInternal ha _

/-! ### attribute look-ups used by Modify / Delete -/

/-- names whose getter / index look-up reads a field that only some object classes have -/
def shapeSensitive : List String :=
  ["Certificate Type", "Cryptographic Algorithm", "Cryptographic Length", "Cryptographic Usage Mask", "State"]

theorem getAttr_noInternal_of {o : Obj} {name : String} (h : name ∉ shapeSensitive) :
    NoInternal (getAttr o name) := by
  unfold getAttr
  cases hf : getters.lookup name with
  | none => exact NoInternal.pure _
  | some f =>
    have hm := lookup_mem_wt _ _ _ hf
    simp only [getters, List.mem_cons, Prod.mk.injEq, List.mem_nil_iff, or_false] at hm
    rcases hm with ⟨rfl, rfl⟩ | ⟨rfl, rfl⟩ | ⟨rfl, rfl⟩ | ⟨rfl, rfl⟩ | ⟨rfl, rfl⟩ | ⟨rfl, rfl⟩ | ⟨rfl, rfl⟩ |
      ⟨rfl, rfl⟩ | ⟨rfl, rfl⟩ | ⟨rfl, rfl⟩ | ⟨rfl, rfl⟩ | ⟨rfl, rfl⟩ | ⟨rfl, rfl⟩
    all_goals first
      | exact NoInternal.pure _
      | (exfalso; apply h; simp [shapeSensitive]; done)

theorem attrIndex_noInternal {c : Ctx} {o : Obj} {name : String} {v : AVal}
    (h : name ∉ shapeSensitive) (hv : ValOk c name v) : NoInternal (attrIndex o name v) := by
  unfold attrIndex
  cases hf : indexers.lookup name with
  | none => exact NoInternal.pure _
  | some f =>
    have hm := lookup_mem_wt _ _ _ hf
    simp only [indexers, List.mem_cons, Prod.mk.injEq, List.mem_nil_iff, or_false] at hm
    rcases hm with ⟨rfl, rfl⟩ | ⟨rfl, rfl⟩ | ⟨rfl, rfl⟩ | ⟨rfl, rfl⟩ | ⟨rfl, rfl⟩ | ⟨rfl, rfl⟩ | ⟨rfl, rfl⟩ |
      ⟨rfl, rfl⟩ | ⟨rfl, rfl⟩ | ⟨rfl, rfl⟩ | ⟨rfl, rfl⟩ | ⟨rfl, rfl⟩ | ⟨rfl, rfl⟩
    -- Application Specific Information
    · obtain ⟨a, b, rfl⟩ := hv.appInfo_of (by decide); exact NoInternal.pure _
    · exfalso; apply h; simp [shapeSensitive]
    · exfalso; apply h; simp [shapeSensitive]
    · exfalso; apply h; simp [shapeSensitive]
    · exfalso; apply h; simp [shapeSensitive]
    -- Initial Date
    · obtain ⟨a, rfl⟩ := hv.date_of (by decide); exact NoInternal.pure _
    -- Name
    · obtain ⟨a, b, rfl⟩ := hv.name_of (by decide); exact NoInternal.pure _
    -- Object Group
    · obtain ⟨a, rfl⟩ := hv.text_of (by decide); exact NoInternal.pure _
    -- Object Type
    · obtain ⟨a, rfl⟩ := hv.enum_of (by decide); exact NoInternal.pure _
    -- Operation Policy Name
    · obtain ⟨a, rfl⟩ := hv.text_of (by decide); exact NoInternal.pure _
    -- Sensitive
    · obtain ⟨a, rfl⟩ := hv.bool_of (by decide); exact NoInternal.pure _
    · exfalso; apply h; simp [shapeSensitive]
    -- Unique Identifier
    · obtain ⟨a, rfl⟩ := hv.text_of (by decide); exact NoInternal.pure _

theorem findIdx?_lt {α} (p : α → Bool) : ∀ (l : List α) (i : Nat), findIdx? p l = some i → i < l.length := by
  intro l
  induction l with
  | nil => intro i h; simp [findIdx?] at h
  | cons x xs ih =>
    intro i h
    simp only [findIdx?] at h
    split at h
    · simp only [Option.some.injEq] at h; subst h; simp
    · simp only [Option.map_eq_some_iff] at h
      obtain ⟨j, hj, rfl⟩ := h
      have := ih j hj
      simp; omega

/-- the index a multivalued attribute's look-up returns is inside the stored list -/
def InRange (o : Obj) (name : String) (i : Nat) : Prop :=
  (name = "Name" → i < o.names.length) ∧
  (name = "Application Specific Information" → i < o.appInfo.length) ∧
  (name = "Object Group" → i < o.groups.length)

theorem attrIndex_inRange {o : Obj} {name : String} {v : AVal} {i : Nat}
    (h : attrIndex o name v = .ok (some i)) : InRange o name i := by
  refine ⟨?_, ?_, ?_⟩ <;> intro hn <;> subst hn
  · simp [attrIndex, indexers, List.lookup] at h
    split at h
    · simp only [pure, Except.pure, Except.ok.injEq] at h; exact findIdx?_lt _ _ _ h
    · simp [ierr] at h
  · simp [attrIndex, indexers, List.lookup] at h
    split at h
    · simp only [pure, Except.pure, Except.ok.injEq] at h; exact findIdx?_lt _ _ _ h
    · simp [ierr] at h
  · simp [attrIndex, indexers, List.lookup] at h
    split at h
    · simp only [pure, Except.pure, Except.ok.injEq] at h; exact findIdx?_lt _ _ _ h
    · simp [ierr] at h

theorem setByIndex_noInternal {c : Ctx} {o : Obj} {name : String} {v : AVal} {i : Nat}
    (hv : ValOk c name v) (hi : InRange o name i) : NoInternal (setByIndex o name v i) := by
  unfold setByIndex
  split
  · rename_i hn
    have hn' : name = "Application Specific Information" := by simpa using hn
    obtain ⟨a, b, rfl⟩ := hv.appInfo_of (lookup_lit hn' (by decide))
    have := hi.2.1 hn'
    simp only [this, if_true]; exact NoInternal.pure _
  · split
    · rename_i hn
      have hn' : name = "Name" := by simpa using hn
      obtain ⟨a, b, rfl⟩ := hv.name_of (lookup_lit hn' (by decide))
      have := hi.1 hn'
      simp only [this, if_true]; exact NoInternal.pure _
    · split
      · rename_i hn
        have hn' : name = "Object Group" := by simpa using hn
        obtain ⟨a, rfl⟩ := hv.text_of (lookup_lit hn' (by decide))
        have := hi.2.2 hn'
        simp only [this, if_true]; exact NoInternal.pure _
      · exact NoInternal.pure _

theorem checkCurrent_noInternal {c : Ctx} {o : Obj} {name : String} {current : Option TAttr}
    (h : name ∉ shapeSensitive) (hv : ∀ cur, current = some cur → ValOk c name cur.value) :
    NoInternal (checkCurrent o name current) := by
  unfold checkCurrent
  cases current with
  | none =>
    have := getAttr_noInternal_of (o := o) h
    simp only
    split
    · exact NoInternal.kerr _ _
    · exact NoInternal.pure _
    · rename_i err herr
      intro s hs; cases hs; exact this s herr
  | some cur =>
    have := attrIndex_noInternal (o := o) h (hv cur rfl)
    simp only
    split
    · exact NoInternal.kerr _ _
    · exact NoInternal.pure _
    · rename_i err herr
      intro s hs; cases hs; exact this s herr

theorem currentIndex_noInternal {c : Ctx} {o : Obj} {name : String} {current : Option TAttr}
    (h : name ∉ shapeSensitive) (hv : ∀ cur, current = some cur → ValOk c name cur.value) :
    NoInternal (currentIndex o name current) := by
  unfold currentIndex
  cases current with
  | none => exact NoInternal.kerr _ _
  | some cur =>
    have := attrIndex_noInternal (o := o) h (hv cur rfl)
    simp only
    split
    · exact NoInternal.kerr _ _
    · exact NoInternal.pure _
    · rename_i err herr
      intro s hs; cases hs; exact this s herr

theorem currentIndex_inRange {o : Obj} {name : String} {current : Option TAttr} {i : Nat}
    (h : currentIndex o name current = .ok i) : InRange o name i := by
  unfold currentIndex at h
  cases current with
  | none => simp [kerr] at h
  | some cur =>
    simp only at h
    split at h
    · simp [kerr] at h
    · rename_i j hj
      simp only [pure, Except.pure, Except.ok.injEq] at h; subst h
      exact attrIndex_inRange hj
    · cases h

end Kmip
