/-
Helper lemmas for C18 (policy-file parser of M6): for every loop of the parser,
when it returns and when it can fail with something else than ValueError.
-/
import KmipModel.MonitorSpec
namespace Kmip.Mon

theorem map_ok_iff {ε α β} (x : Except ε α) (f : α → β) : (∃ r, x.map f = .ok r) ↔ ∃ a, x = .ok a := by
  cases x with
  | ok a => exact ⟨fun _ => ⟨a, rfl⟩, fun _ => ⟨f a, rfl⟩⟩
  | error e => exact ⟨fun ⟨r, h⟩ => (nomatch h), fun ⟨a, h⟩ => (nomatch h)⟩

theorem map_error {ε α β} (x : Except ε α) (f : α → β) (e : ε) (h : x.map f = .error e) : x = .error e := by
  cases x with
  | ok a => cases h
  | error e' => simpa [Except.map] using h

/-! ### when the parser returns -/

theorem parseOps_ok (T : NameTables) (kvs : List (String × J)) :
    (∃ r, parseOps T kvs = .ok r) ↔
      ∀ e ∈ kvs, T.operations.contains e.1 = true ∧ ∃ s, e.2 = .str s ∧ T.permissions.contains s = true := by
  induction kvs with
  | nil => simp [parseOps]
  | cons e r ih =>
    obtain ⟨op, perm⟩ := e
    simp only [parseOps, List.mem_cons, forall_eq_or_imp]
    by_cases hop : T.operations.contains op = true
    · simp only [hop, Bool.not_true, Bool.false_eq_true, if_false, true_and]
      cases perm with
      | str s =>
        by_cases hs : T.permissions.contains s = true
        · simp only [hs, Bool.not_true, Bool.false_eq_true, if_false]
          rw [map_ok_iff, ih]
          exact ⟨fun h => ⟨⟨s, rfl, hs⟩, h⟩, fun h => h.2⟩
        · simp only [hs, Bool.not_false, if_true]
          constructor
          · rintro ⟨r, h⟩; cases h
          · rintro ⟨⟨s', h1, h2⟩, _⟩; cases h1; exact absurd h2 hs
      | null => exact ⟨fun ⟨r, h⟩ => (nomatch h), fun ⟨⟨s, h, _⟩, _⟩ => (nomatch h)⟩
      | bool b => exact ⟨fun ⟨r, h⟩ => (nomatch h), fun ⟨⟨s, h, _⟩, _⟩ => (nomatch h)⟩
      | num n => exact ⟨fun ⟨r, h⟩ => (nomatch h), fun ⟨⟨s, h, _⟩, _⟩ => (nomatch h)⟩
      | arr l => exact ⟨fun ⟨r, h⟩ => (nomatch h), fun ⟨⟨s, h, _⟩, _⟩ => (nomatch h)⟩
      | obj l => exact ⟨fun ⟨r, h⟩ => (nomatch h), fun ⟨⟨s, h, _⟩, _⟩ => (nomatch h)⟩
    · have hop' : T.operations.contains op = false := by simpa using hop
      simp only [hop', Bool.not_false, if_true]
      constructor
      · rintro ⟨r, h⟩; cases h
      · rintro ⟨⟨h, _⟩, _⟩; cases h

theorem parseTypes_ok (T : NameTables) (kvs : List (String × J)) :
    (∃ r, parseTypes T kvs = .ok r) ↔ ∀ e ∈ kvs, T.objectTypes.contains e.1 = true ∧ OpsOK T e.2 := by
  induction kvs with
  | nil => simp [parseTypes]
  | cons e r ih =>
    obtain ⟨ot, ops⟩ := e
    simp only [List.mem_cons, forall_eq_or_imp]
    cases ops with
    | obj okvs =>
      simp only [parseTypes]
      cases hp : parseOps T okvs with
      | error e =>
        simp only
        constructor
        · rintro ⟨r, h⟩; cases h
        · rintro ⟨⟨_, kv, hk, hall⟩, _⟩
          cases hk
          have := (parseOps_ok T okvs).mpr hall
          rw [hp] at this; obtain ⟨r, h⟩ := this; cases h
      | ok tbl =>
        simp only
        have hops : OpsOK T (.obj okvs) := ⟨okvs, rfl, (parseOps_ok T okvs).mp ⟨tbl, hp⟩⟩
        by_cases hot : T.objectTypes.contains ot = true
        · simp only [hot, Bool.not_true, Bool.false_eq_true, if_false]
          rw [map_ok_iff, ih]
          exact ⟨fun h => ⟨⟨trivial, hops⟩, h⟩, fun h => h.2⟩
        · have hot' : T.objectTypes.contains ot = false := by simpa using hot
          simp only [hot', Bool.not_false, if_true]
          constructor
          · rintro ⟨r, h⟩; cases h
          · rintro ⟨⟨h, _⟩, _⟩; cases h
    | null => exact ⟨fun ⟨r, h⟩ => (nomatch h), fun ⟨⟨_, kv, h, _⟩, _⟩ => (nomatch h)⟩
    | bool b => exact ⟨fun ⟨r, h⟩ => (nomatch h), fun ⟨⟨_, kv, h, _⟩, _⟩ => (nomatch h)⟩
    | num n => exact ⟨fun ⟨r, h⟩ => (nomatch h), fun ⟨⟨_, kv, h, _⟩, _⟩ => (nomatch h)⟩
    | str s => exact ⟨fun ⟨r, h⟩ => (nomatch h), fun ⟨⟨_, kv, h, _⟩, _⟩ => (nomatch h)⟩
    | arr l => exact ⟨fun ⟨r, h⟩ => (nomatch h), fun ⟨⟨_, kv, h, _⟩, _⟩ => (nomatch h)⟩

theorem parsePolicy_ok (T : NameTables) (j : J) : (∃ r, parsePolicy T j = .ok r) ↔ TableOK T j := by
  cases j with
  | obj kvs =>
    simp only [parsePolicy]
    rw [parseTypes_ok]
    exact ⟨fun h => ⟨kvs, rfl, h⟩, fun ⟨kvs', h, hall⟩ => by cases h; exact hall⟩
  | null => exact ⟨fun ⟨r, h⟩ => (nomatch h), fun ⟨_, h, _⟩ => (nomatch h)⟩
  | bool b => exact ⟨fun ⟨r, h⟩ => (nomatch h), fun ⟨_, h, _⟩ => (nomatch h)⟩
  | num n => exact ⟨fun ⟨r, h⟩ => (nomatch h), fun ⟨_, h, _⟩ => (nomatch h)⟩
  | str s => exact ⟨fun ⟨r, h⟩ => (nomatch h), fun ⟨_, h, _⟩ => (nomatch h)⟩
  | arr l => exact ⟨fun ⟨r, h⟩ => (nomatch h), fun ⟨_, h, _⟩ => (nomatch h)⟩

theorem parseGroups_ok (T : NameTables) (kvs : List (String × J)) :
    (∃ r, parseGroups T kvs = .ok r) ↔ ∀ g ∈ kvs, TableOK T g.2 := by
  induction kvs with
  | nil => simp [parseGroups]
  | cons e r ih =>
    obtain ⟨g, gp⟩ := e
    simp only [parseGroups, List.mem_cons, forall_eq_or_imp]
    cases hp : parsePolicy T gp with
    | error e =>
      simp only
      constructor
      · rintro ⟨r, h⟩; cases h
      · rintro ⟨h, _⟩
        have := (parsePolicy_ok T gp).mpr h
        rw [hp] at this; obtain ⟨r, h⟩ := this; cases h
    | ok t =>
      simp only
      rw [map_ok_iff, ih]
      exact ⟨fun h => ⟨(parsePolicy_ok T gp).mp ⟨t, hp⟩, h⟩, fun h => h.2⟩

theorem parsePresetSection_ok (T : NameTables) (body : List (String × J)) :
    (∃ r, parsePresetSection T body = .ok r) ↔ ∀ v, dget body "preset" = some v → Falsy v ∨ TableOK T v := by
  unfold parsePresetSection
  cases hd : dget body "preset" with
  | none => exact ⟨fun _ v h => (nomatch h), fun _ => ⟨none, rfl⟩⟩
  | some v =>
    simp only
    by_cases ht : v.truthy = true
    · rw [if_pos ht, map_ok_iff, parsePolicy_ok]
      constructor
      · intro h v' hv'; cases hv'; exact Or.inr h
      · intro h
        rcases h v rfl with h | h
        · rw [Falsy, ht] at h; cases h
        · exact h
    · rw [if_neg ht]
      exact ⟨fun _ v' hv' => by cases hv'; exact Or.inl (by simpa [Falsy] using ht), fun _ => ⟨none, rfl⟩⟩

theorem parseGroupsSection_ok (T : NameTables) (body : List (String × J)) :
    (∃ r, parseGroupsSection T body = .ok r) ↔
      ∀ v, dget body "groups" = some v → Falsy v ∨ ∃ gs, v = .obj gs ∧ ∀ g ∈ gs, TableOK T g.2 := by
  unfold parseGroupsSection
  cases hd : dget body "groups" with
  | none => exact ⟨fun _ v h => (nomatch h), fun _ => ⟨none, rfl⟩⟩
  | some v =>
    simp only
    by_cases ht : v.truthy = true
    · rw [if_pos ht]
      have hnf : ¬ Falsy v := by rw [Falsy, ht]; exact fun h => nomatch h
      cases v with
      | obj gkvs =>
        simp only
        rw [map_ok_iff, parseGroups_ok]
        constructor
        · intro h v' hv'; cases hv'; exact Or.inr ⟨gkvs, rfl, h⟩
        · intro h
          rcases h _ rfl with h | ⟨gs, h1, h2⟩
          · exact absurd h hnf
          · cases h1; exact h2
      | null => exact ⟨fun ⟨r, h⟩ => (nomatch h), fun h => (h _ rfl).elim (fun h => absurd h hnf) (fun ⟨_, h, _⟩ => (nomatch h))⟩
      | bool b => exact ⟨fun ⟨r, h⟩ => (nomatch h), fun h => (h _ rfl).elim (fun h => absurd h hnf) (fun ⟨_, h, _⟩ => (nomatch h))⟩
      | num n => exact ⟨fun ⟨r, h⟩ => (nomatch h), fun h => (h _ rfl).elim (fun h => absurd h hnf) (fun ⟨_, h, _⟩ => (nomatch h))⟩
      | str s => exact ⟨fun ⟨r, h⟩ => (nomatch h), fun h => (h _ rfl).elim (fun h => absurd h hnf) (fun ⟨_, h, _⟩ => (nomatch h))⟩
      | arr l => exact ⟨fun ⟨r, h⟩ => (nomatch h), fun h => (h _ rfl).elim (fun h => absurd h hnf) (fun ⟨_, h, _⟩ => (nomatch h))⟩
    · rw [if_neg ht]
      exact ⟨fun _ v' hv' => by cases hv'; exact Or.inl (by simpa [Falsy] using ht), fun _ => ⟨none, rfl⟩⟩

theorem parseSectioned_ok (T : NameTables) (body : List (String × J)) :
    (∃ r, parseSectioned T body = .ok r) ↔
      (∀ v, dget body "preset" = some v → Falsy v ∨ TableOK T v) ∧
      (∀ v, dget body "groups" = some v → Falsy v ∨ ∃ gs, v = .obj gs ∧ ∀ g ∈ gs, TableOK T g.2) := by
  rw [← parsePresetSection_ok, ← parseGroupsSection_ok]
  unfold parseSectioned
  cases parsePresetSection T body with
  | error e => exact ⟨fun ⟨r, h⟩ => (nomatch h), fun ⟨⟨r, h⟩, _⟩ => (nomatch h)⟩
  | ok a =>
    cases parseGroupsSection T body with
    | error e => exact ⟨fun ⟨r, h⟩ => (nomatch h), fun ⟨_, ⟨r, h⟩⟩ => (nomatch h)⟩
    | ok b => exact ⟨fun _ => ⟨⟨a, rfl⟩, ⟨b, rfl⟩⟩, fun _ => ⟨_, rfl⟩⟩

/-- the two tests of l.84 / l.101 as propositions -/
theorem all_sections_iff (kvs : List (String × J)) :
    (dkeys kvs).all (fun k => ["groups", "preset"].contains k) = true ↔ ∀ k ∈ dkeys kvs, k = "groups" ∨ k = "preset" := by
  simp [List.all_eq_true]

theorem all_types_iff (T : NameTables) (kvs : List (String × J)) :
    (dkeys kvs).all (fun k => T.objectTypes.contains k) = true ↔ ∀ k ∈ dkeys kvs, T.objectTypes.contains k = true := by
  simp [List.all_eq_true]

theorem parseEntry_ok (T : NameTables) (body : J) : (∃ r, parseEntry T body = .ok r) ↔ BodyOK T body := by
  cases body with
  | obj kvs =>
    simp only [parseEntry]
    by_cases hemp : kvs.isEmpty = true
    · rw [if_pos hemp]
      have : kvs = [] := by simpa using hemp
      exact ⟨fun _ => ⟨kvs, rfl, Or.inl this⟩, fun _ => ⟨none, rfl⟩⟩
    · rw [if_neg hemp]
      have hne : kvs ≠ [] := by simpa using hemp
      by_cases hsec : (dkeys kvs).all (fun k => ["groups", "preset"].contains k) = true
      · rw [if_pos hsec, map_ok_iff, parseSectioned_ok]
        have hsec' := (all_sections_iff kvs).mp hsec
        constructor
        · intro h; exact ⟨kvs, rfl, Or.inr (Or.inl ⟨hsec', h.1, h.2⟩)⟩
        · rintro ⟨kvs', h, h'⟩
          cases h
          rcases h' with h' | ⟨_, h1, h2⟩ | ⟨h1, _⟩
          · exact absurd h' hne
          · exact ⟨h1, h2⟩
          · exact absurd hsec' h1
      · rw [if_neg hsec]
        have hsec' : ¬ ∀ k ∈ dkeys kvs, k = "groups" ∨ k = "preset" := fun h => hsec ((all_sections_iff kvs).mpr h)
        by_cases hty : (dkeys kvs).all (fun k => T.objectTypes.contains k) = true
        · rw [if_pos hty, map_ok_iff, parseTypes_ok]
          have hty' := (all_types_iff T kvs).mp hty
          constructor
          · intro h; exact ⟨kvs, rfl, Or.inr (Or.inr ⟨hsec', hty', kvs, rfl, h⟩)⟩
          · rintro ⟨kvs', h, h'⟩
            cases h
            rcases h' with h' | ⟨h1, _⟩ | ⟨_, _, kvs'', h1, h2⟩
            · exact absurd h' hne
            · exact absurd h1 hsec'
            · cases h1; exact h2
        · rw [if_neg hty]
          have hty' : ¬ ∀ k ∈ dkeys kvs, T.objectTypes.contains k = true := fun h => hty ((all_types_iff T kvs).mpr h)
          constructor
          · rintro ⟨r, h⟩; split at h <;> cases h
          · rintro ⟨kvs', h, h'⟩
            cases h
            rcases h' with h' | ⟨h1, _⟩ | ⟨_, h1, _⟩
            · exact absurd h' hne
            · exact absurd h1 hsec'
            · exact absurd h1 hty'
  | null => exact ⟨fun ⟨r, h⟩ => (nomatch h), fun ⟨_, h, _⟩ => (nomatch h)⟩
  | bool b => exact ⟨fun ⟨r, h⟩ => (nomatch h), fun ⟨_, h, _⟩ => (nomatch h)⟩
  | num n => exact ⟨fun ⟨r, h⟩ => (nomatch h), fun ⟨_, h, _⟩ => (nomatch h)⟩
  | str s => exact ⟨fun ⟨r, h⟩ => (nomatch h), fun ⟨_, h, _⟩ => (nomatch h)⟩
  | arr l => exact ⟨fun ⟨r, h⟩ => (nomatch h), fun ⟨_, h, _⟩ => (nomatch h)⟩

theorem parseEntries_ok (T : NameTables) (kvs : List (String × J)) :
    (∃ r, parseEntries T kvs = .ok r) ↔ ∀ e ∈ kvs, BodyOK T e.2 := by
  induction kvs with
  | nil => simp [parseEntries]
  | cons e r ih =>
    obtain ⟨name, body⟩ := e
    simp only [parseEntries, List.mem_cons, forall_eq_or_imp]
    cases hp : parseEntry T body with
    | error e =>
      simp only
      constructor
      · rintro ⟨r, h⟩; cases h
      · rintro ⟨h, _⟩
        have := (parseEntry_ok T body).mpr h
        rw [hp] at this; obtain ⟨r, h⟩ := this; cases h
    | ok v =>
      have hb : BodyOK T body := (parseEntry_ok T body).mp ⟨v, hp⟩
      cases v with
      | none => simp only; rw [ih]; exact ⟨fun h => ⟨hb, h⟩, fun h => h.2⟩
      | some v => simp only; rw [map_ok_iff, ih]; exact ⟨fun h => ⟨hb, h⟩, fun h => h.2⟩

theorem readPolicy_ok (T : NameTables) (j : J) : (∃ r, readPolicy T (some j) = .ok r) ↔ DocOK T j := by
  cases j with
  | obj kvs =>
    simp only [readPolicy]
    rw [parseEntries_ok]
    exact ⟨fun h => ⟨kvs, rfl, h⟩, fun ⟨kvs', h, hall⟩ => by cases h; exact hall⟩
  | null => exact ⟨fun ⟨r, h⟩ => (nomatch h), fun ⟨_, h, _⟩ => (nomatch h)⟩
  | bool b => exact ⟨fun ⟨r, h⟩ => (nomatch h), fun ⟨_, h, _⟩ => (nomatch h)⟩
  | num n => exact ⟨fun ⟨r, h⟩ => (nomatch h), fun ⟨_, h, _⟩ => (nomatch h)⟩
  | str s => exact ⟨fun ⟨r, h⟩ => (nomatch h), fun ⟨_, h, _⟩ => (nomatch h)⟩
  | arr l => exact ⟨fun ⟨r, h⟩ => (nomatch h), fun ⟨_, h, _⟩ => (nomatch h)⟩

/-! ### the parser can only fail with ValueError -/

/-- the computation either returns or raises ValueError -/
def OnlyRejects {α} (x : Except PErr α) : Prop := ∀ e, x = .error e → e = .reject

theorem onlyRejects_map {α β} (x : Except PErr α) (f : α → β) (h : OnlyRejects x) : OnlyRejects (x.map f) :=
  fun e he => h e (map_error x f e he)

theorem parseOps_onlyRejects (T : NameTables) (kvs : List (String × J)) : OnlyRejects (parseOps T kvs) := by
  induction kvs with
  | nil => intro e h; cases h
  | cons kv r ih =>
    obtain ⟨op, perm⟩ := kv
    intro e h
    simp only [parseOps] at h
    split at h
    · cases h; rfl
    · split at h
      · split at h
        · cases h; rfl
        · exact onlyRejects_map _ _ ih e h
      · cases h; rfl

theorem parseTypes_onlyRejects (T : NameTables) (kvs : List (String × J)) : OnlyRejects (parseTypes T kvs) := by
  induction kvs with
  | nil => intro e h; cases h
  | cons kv r ih =>
    obtain ⟨ot, ops⟩ := kv
    intro e h
    simp only [parseTypes] at h
    split at h
    · rename_i okvs
      cases hp : parseOps T okvs with
      | error e' =>
        rw [hp] at h; simp only at h; cases h
        exact parseOps_onlyRejects T okvs _ hp
      | ok tbl =>
        rw [hp] at h; simp only at h
        split at h
        · cases h; rfl
        · exact onlyRejects_map _ _ ih e h
    · cases h; rfl

theorem parsePolicy_onlyRejects (T : NameTables) (j : J) : OnlyRejects (parsePolicy T j) := by
  intro e h
  unfold parsePolicy at h
  split at h
  · exact parseTypes_onlyRejects T _ e h
  · cases h; rfl

theorem parseGroups_onlyRejects (T : NameTables) (kvs : List (String × J)) : OnlyRejects (parseGroups T kvs) := by
  induction kvs with
  | nil => intro e h; cases h
  | cons kv r ih =>
    obtain ⟨g, gp⟩ := kv
    intro e h
    simp only [parseGroups] at h
    cases hp : parsePolicy T gp with
    | error e' =>
      rw [hp] at h; simp only at h; cases h
      exact parsePolicy_onlyRejects T gp _ hp
    | ok t =>
      rw [hp] at h; simp only at h
      exact onlyRejects_map _ _ ih e h

theorem parsePresetSection_onlyRejects (T : NameTables) (body : List (String × J)) :
    OnlyRejects (parsePresetSection T body) := by
  unfold parsePresetSection
  intro e h
  split at h
  · split at h
    · exact onlyRejects_map _ _ (parsePolicy_onlyRejects T _) e h
    · cases h
  · cases h

theorem parseGroupsSection_onlyRejects (T : NameTables) (body : List (String × J)) :
    OnlyRejects (parseGroupsSection T body) := by
  unfold parseGroupsSection
  intro e h
  split at h
  · split at h
    · split at h
      · exact onlyRejects_map _ _ (parseGroups_onlyRejects T _) e h
      · cases h; rfl
    · cases h
  · cases h

theorem parseSectioned_onlyRejects (T : NameTables) (body : List (String × J)) : OnlyRejects (parseSectioned T body) := by
  unfold parseSectioned
  intro e h
  cases hp : parsePresetSection T body with
  | error e' =>
    rw [hp] at h; simp only at h; cases h
    exact parsePresetSection_onlyRejects T body _ hp
  | ok a =>
    rw [hp] at h; simp only at h
    cases hg : parseGroupsSection T body with
    | error e' =>
      rw [hg] at h; simp only at h; cases h
      exact parseGroupsSection_onlyRejects T body _ hg
    | ok b => rw [hg] at h; cases h

theorem parseEntry_onlyRejects (T : NameTables) (body : J) : OnlyRejects (parseEntry T body) := by
  intro e h
  unfold parseEntry at h
  split at h
  · split at h
    · cases h
    · simp only at h
      split at h
      · exact onlyRejects_map _ _ (parseSectioned_onlyRejects T _) e h
      · split at h
        · exact onlyRejects_map _ _ (parseTypes_onlyRejects T _) e h
        · split at h <;> (cases h; rfl)
  · cases h; rfl

theorem parseEntries_onlyRejects (T : NameTables) (kvs : List (String × J)) : OnlyRejects (parseEntries T kvs) := by
  induction kvs with
  | nil => intro e h; cases h
  | cons kv r ih =>
    obtain ⟨name, body⟩ := kv
    intro e h
    simp only [parseEntries] at h
    cases hp : parseEntry T body with
    | error e' =>
      rw [hp] at h; simp only at h; cases h
      exact parseEntry_onlyRejects T body _ hp
    | ok v =>
      rw [hp] at h
      cases v with
      | none => simp only at h; exact ih e h
      | some v => simp only at h; exact onlyRejects_map _ _ ih e h

/-- whatever the document (and for text that is not JSON at all) -/
theorem readPolicy_onlyRejects (T : NameTables) (doc : Option J) : OnlyRejects (readPolicy T doc) := by
  intro e h
  unfold readPolicy at h
  split at h
  · cases h; rfl
  · exact parseEntries_onlyRejects T _ e h
  · cases h; rfl

end Kmip.Mon
