/-
Non-interference of stored key material, part 1: scrambling the `value` of stored
objects (`mapV g`) commutes with everything the attribute layer and the look-ups do.

`g : String → String` is an arbitrary function (it may scramble every secret); only
the MAC handler needs `g s = "" ↔ s = ""` (it tests the value for emptiness).
-/
import KmipModel.Lemmas.Evolve
namespace Kmip

/-! ### scrambling -/

/-- apply `g` to the key material / secret / certificate bytes of one object -/
def Obj.mapV (g : String → String) (o : Obj) : Obj := { o with value := g o.value }

def Store.mapV (g : String → String) (s : Store) : Store := { s with objs := s.objs.map (Obj.mapV g) }

def Engine.mapV (g : String → String) (e : Engine) : Engine := { e with store := e.store.mapV g }

/-- `Data.object … wrapped = false` is the only answer that carries a stored value (Get without a
wrapping specification); a wrapped Get carries the token answered by the cryptography backend. -/
def Data.mapV (g : String → String) : Data → Data
  | .object ot u v a l f s false => .object ot u (g v) a l f s false
  | d => d

/-- What the handler run on the scrambled store produces: an update writes back the (scrambled)
stored object; inserted objects carry values supplied by the request / the backend answer, which are
NOT scrambled. -/
def Effect.mapV (g : String → String) : Effect → Effect
  | .update o => .update (o.mapV g)
  | eff => eff

/-- the scrambling of an item's outcome -/
def outMapV (g : String → String) (r : Effect × Data) : Effect × Data := (r.1.mapV g, r.2.mapV g)

section fields
variable (g : String → String) (o : Obj) (s : Store) (e : Engine)
@[simp] theorem Obj.mapV_uid : (o.mapV g).uid = o.uid := rfl
@[simp] theorem Obj.mapV_otype : (o.mapV g).otype = o.otype := rfl
@[simp] theorem Obj.mapV_owner : (o.mapV g).owner = o.owner := rfl
@[simp] theorem Obj.mapV_policy : (o.mapV g).policy = o.policy := rfl
@[simp] theorem Obj.mapV_names : (o.mapV g).names = o.names := rfl
@[simp] theorem Obj.mapV_groups : (o.mapV g).groups = o.groups := rfl
@[simp] theorem Obj.mapV_appInfo : (o.mapV g).appInfo = o.appInfo := rfl
@[simp] theorem Obj.mapV_sensitive : (o.mapV g).sensitive = o.sensitive := rfl
@[simp] theorem Obj.mapV_initialDate : (o.mapV g).initialDate = o.initialDate := rfl
@[simp] theorem Obj.mapV_state : (o.mapV g).state = o.state := rfl
@[simp] theorem Obj.mapV_mask : (o.mapV g).mask = o.mask := rfl
@[simp] theorem Obj.mapV_isKey : (o.mapV g).isKey = o.isKey := rfl
@[simp] theorem Obj.mapV_alg : (o.mapV g).alg = o.alg := rfl
@[simp] theorem Obj.mapV_len : (o.mapV g).len = o.len := rfl
@[simp] theorem Obj.mapV_format : (o.mapV g).format = o.format := rfl
@[simp] theorem Obj.mapV_subtype : (o.mapV g).subtype = o.subtype := rfl
@[simp] theorem Obj.mapV_value : (o.mapV g).value = g o.value := rfl
@[simp] theorem Store.mapV_objs : (s.mapV g).objs = s.objs.map (Obj.mapV g) := rfl
@[simp] theorem Store.mapV_nextUid : (s.mapV g).nextUid = s.nextUid := rfl
@[simp] theorem Engine.mapV_store : (e.mapV g).store = e.store.mapV g := rfl
@[simp] theorem Engine.mapV_placeholder : (e.mapV g).placeholder = e.placeholder := rfl
@[simp] theorem Engine.mapV_version : (e.mapV g).version = e.version := rfl
@[simp] theorem Engine.mapV_identity : (e.mapV g).identity = e.identity := rfl
end fields

theorem Obj.mapV_id (o : Obj) : o.mapV id = o := rfl
theorem Obj.mapV_comp (g h : String → String) (o : Obj) : (o.mapV g).mapV h = o.mapV (h ∘ g) := rfl

/-! ### generic facts about `Except.map` -/

theorem map_error {α β} (f : α → β) (err : Err) : Except.map f (Except.error err : R α) = .error err := rfl
theorem map_ok {α β} (f : α → β) (a : α) : Except.map f (Except.ok a : R α) = .ok (f a) := rfl
theorem map_kerr {α β} (f : α → β) (r : Nat) (m : String) : Except.map f (kerr r m : R α) = kerr r m := rfl
theorem map_ierr {α β} (f : α → β) (m : String) : Except.map f (ierr m : R α) = ierr m := rfl
theorem map_pure {α β} (f : α → β) (a : α) : Except.map f (pure a : R α) = pure (f a) := rfl

/-- `x` scrambled, then continued with `k`, is `x` continued with `k'` and scrambled at the end -/
theorem bind_map_eq {α β γ δ} (x : R α) (ψ : α → γ) (k : γ → R δ) (k' : α → R β) (φ : β → δ)
    (h : ∀ a, k (ψ a) = (k' a).map φ) : (x.map ψ >>= k) = (x >>= k').map φ := by
  cases x with
  | error err => rfl
  | ok a => exact h a

theorem bind_map_eq' {α γ δ} (x : R α) (ψ : α → γ) (k : γ → R δ) (k' : α → R δ)
    (h : ∀ a, k (ψ a) = k' a) : (x.map ψ >>= k) = (x >>= k') := by
  cases x with
  | error err => rfl
  | ok a => exact h a

theorem bind_same_eq' {α δ} (x : R α) (k k' : α → R δ) (h : ∀ a, k a = k' a) : (x >>= k) = (x >>= k') := by
  cases x with
  | error err => rfl
  | ok a => exact h a

/-- the same first step on both sides -/
theorem bind_same_eq {α β δ} (x : R α) (k : α → R δ) (k' : α → R β) (φ : β → δ)
    (h : ∀ a, k a = (k' a).map φ) : (x >>= k) = (x >>= k').map φ := by
  cases x with
  | error err => rfl
  | ok a => exact h a

/-! ### attribute getters -/

theorem lookup_mem_pair {α β} [BEq α] {l : List (α × β)} {k : α} {v : β} (h : l.lookup k = some v) :
    ∃ k', (k', v) ∈ l := by
  induction l with
  | nil => simp [List.lookup] at h
  | cons p rest ih =>
    obtain ⟨a, b⟩ := p
    simp only [List.lookup] at h
    split at h
    · cases h; exact ⟨a, List.mem_cons_self⟩
    · obtain ⟨k', hk'⟩ := ih h
      exact ⟨k', List.mem_cons_of_mem _ hk'⟩

theorem getters_mapV (g : String → String) (o : Obj) : ∀ p ∈ getters, p.2 (o.mapV g) = p.2 o := by
  intro p hp
  simp only [getters, List.mem_cons, List.not_mem_nil, or_false] at hp
  rcases hp with rfl | rfl | rfl | rfl | rfl | rfl | rfl | rfl | rfl | rfl | rfl | rfl | rfl <;> rfl

@[simp] theorem getAttr_mapV (g : String → String) (o : Obj) (name : String) :
    getAttr (o.mapV g) name = getAttr o name := by
  unfold getAttr
  cases h : getters.lookup name with
  | none => rfl
  | some f =>
    obtain ⟨k, hk⟩ := lookup_mem_pair h
    exact getters_mapV g o _ hk

@[simp] theorem getAttrsStep_mapV (g : String → String) (c : Ctx) (ver : Nat) (o : Obj) (name : String) :
    getAttrsStep c ver (o.mapV g) name = getAttrsStep c ver o name := by
  simp only [getAttrsStep, getAttr_mapV, Obj.mapV_otype]

@[simp] theorem getAttrs_mapV (g : String → String) (c : Ctx) (ver : Nat) (o : Obj) (names : List String) :
    getAttrs c ver (o.mapV g) names = getAttrs c ver o names := by
  have h : getAttrsStep c ver (o.mapV g) = getAttrsStep c ver o := funext (getAttrsStep_mapV g c ver o)
  simp only [getAttrs, h]

theorem indexers_mapV (g : String → String) (o : Obj) (v : AVal) : ∀ p ∈ indexers, p.2 (o.mapV g) v = p.2 o v := by
  intro p hp
  simp only [indexers, List.mem_cons, List.not_mem_nil, or_false] at hp
  rcases hp with rfl | rfl | rfl | rfl | rfl | rfl | rfl | rfl | rfl | rfl | rfl | rfl | rfl <;> rfl

@[simp] theorem attrIndex_mapV (g : String → String) (o : Obj) (name : String) (v : AVal) :
    attrIndex (o.mapV g) name v = attrIndex o name v := by
  unfold attrIndex
  cases h : indexers.lookup name with
  | none => rfl
  | some f =>
    obtain ⟨k, hk⟩ := lookup_mem_pair h
    exact indexers_mapV g o v _ hk

/-! ### attribute setters -/

/-- case analysis of a goal `f (o.mapV g) … = (f o …).map (Obj.mapV g)`: both sides branch alike -/
macro "mapv_cases" : tactic =>
  `(tactic| repeat' (first | rfl | (split <;> try simp only [*, ↓reduceIte, Bool.false_eq_true])))

theorem setSingle_mapV (g : String → String) (o : Obj) (n : String) (v : AVal) :
    setSingle (o.mapV g) n v = (setSingle o n v).map (Obj.mapV g) := by
  unfold setSingle
  simp only [Obj.mapV_isKey, Obj.mapV_alg, Obj.mapV_len, Obj.mapV_mask, Obj.mapV_policy, Obj.mapV_sensitive]
  mapv_cases

theorem setMulti_mapV (g : String → String) (o : Obj) (n : String) (vs : List AVal) :
    setMulti (o.mapV g) n vs = (setMulti o n vs).map (Obj.mapV g) := by
  unfold setMulti
  simp only [Obj.mapV_names, Obj.mapV_groups, Obj.mapV_appInfo]
  mapv_cases

theorem setAttr_mapV (g : String → String) (c : Ctx) (o : Obj) (n : String) (v : Collected) :
    setAttr c (o.mapV g) n v = (setAttr c o n v).map (Obj.mapV g) := by
  unfold setAttr
  simp only [Ctx.isMultivalued, bind, Except.bind, pure, Except.pure, setMulti_mapV, setSingle_mapV]
  mapv_cases

/-- the body of the `setAttrs` loop -/
def setAttrsStep (c : Ctx) (o : Obj) (kv : String × Collected) : R Obj := do
  if (← c.isApplicable kv.1 o.otype) then setAttr c o kv.1 kv.2
  else kerr Rsn.invalidField s!"Cannot set {kv.1} attribute on object."

theorem setAttrs_eq (c : Ctx) (o : Obj) (d : AttrDict) : setAttrs c o d = d.foldlM (setAttrsStep c) o := rfl

theorem setAttrsStep_mapV (g : String → String) (c : Ctx) (o : Obj) (kv : String × Collected) :
    setAttrsStep c (o.mapV g) kv = (setAttrsStep c o kv).map (Obj.mapV g) := by
  simp only [setAttrsStep, Ctx.isApplicable, bind, Except.bind, pure, Except.pure, Obj.mapV_otype, setAttr_mapV]
  mapv_cases

theorem setAttrs_mapV (g : String → String) (c : Ctx) (o : Obj) (d : AttrDict) :
    setAttrs c (o.mapV g) d = (setAttrs c o d).map (Obj.mapV g) := by
  simp only [setAttrs_eq]
  induction d generalizing o with
  | nil => rfl
  | cons kv rest ih =>
    simp only [List.foldlM_cons, setAttrsStep_mapV]
    exact bind_map_eq _ _ _ _ _ ih

theorem setByIndex_mapV (g : String → String) (o : Obj) (n : String) (v : AVal) (i : Nat) :
    setByIndex (o.mapV g) n v i = (setByIndex o n v i).map (Obj.mapV g) := by
  unfold setByIndex
  simp only [Obj.mapV_names, Obj.mapV_groups, Obj.mapV_appInfo]
  mapv_cases

theorem delAttr_mapV (g : String → String) (c : Ctx) (o : Obj) (n : String) (i : Option Int) (v : Option AVal) :
    delAttr c (o.mapV g) n i v = (delAttr c o n i v).map (Obj.mapV g) := by
  unfold delAttr
  simp only [Ctx.isApplicable, Ctx.isDeletable, Ctx.isMultivalued, bind, Except.bind, pure, Except.pure,
    Obj.mapV_otype, Obj.mapV_names, Obj.mapV_groups, Obj.mapV_appInfo]
  mapv_cases

/-! ### look-ups and access control -/

theorem Store.find_mapV (g : String → String) (s : Store) (u : Nat) :
    (s.mapV g).find u = (s.find u).map (Obj.mapV g) := by
  simp only [Store.find, Store.mapV_objs, List.find?_map]
  rfl

theorem Store.lookup_mapV (g : String → String) (s : Store) (uid : Option String) :
    (s.mapV g).lookup uid = (s.lookup uid).map (Obj.mapV g) := by
  unfold Store.lookup
  simp only [Store.find_mapV]
  mapv_cases

/-- the object is found / refused on the scrambled store exactly as on the original one,
with the same error -/
theorem getWithAccess_mapV (g : String → String) (c : Ctx) (e : Engine) (uid : Option String) (op : Nat) :
    getWithAccess c (e.mapV g) uid op = (getWithAccess c e uid op).map (Obj.mapV g) := by
  unfold getWithAccess
  simp only [Engine.mapV_store, Store.lookup_mapV, Engine.mapV_identity]
  cases e.store.lookup uid with
  | none => rfl
  | some o =>
    simp only [Option.map_some, Obj.mapV_policy, Obj.mapV_owner, Obj.mapV_otype]
    mapv_cases

theorem listWithAccess_mapV (g : String → String) (c : Ctx) (e : Engine) (op : Nat) :
    listWithAccess c (e.mapV g) op = (listWithAccess c e op).map (Obj.mapV g) := by
  simp only [listWithAccess, Engine.mapV_store, Store.mapV_objs, Engine.mapV_identity, List.filter_map]
  rfl

end Kmip
