/-
Helper lemmas for Props/C19: the chunk-wise receive loop of the client against
its byte-stream specification.
-/
import KmipModel.Client
namespace Kmip.Client

/-- no `recv()` in the script returns `b''` before the script is exhausted -/
def NoEmpty (cs : List Bytes) : Prop := ∀ c ∈ cs, c ≠ []

/-- Bytes are conserved: what `_recv_all` returned plus what is still in the
script is the original stream — whatever the script looks like. -/
theorem recvAll_conserve (n : Nat) (cs : List Bytes) :
    (recvAll n cs).1 ++ (recvAll n cs).2.flatten = cs.flatten := by
  induction cs generalizing n with
  | nil => simp [recvAll]
  | cons c rest ih =>
    unfold recvAll
    split
    · simp
    · split
      · rename_i he
        have : c = [] := by simpa using he
        simp [this]
      · split
        · have := ih (n - c.length)
          simp only [List.flatten_cons, List.append_assoc]
          rw [this]
        · simp only [List.flatten_cons, ← List.append_assoc, List.take_append_drop]

/-- `_recv_all(n)` never returns more than `n` bytes. -/
theorem recvAll_length_le (n : Nat) (cs : List Bytes) : (recvAll n cs).1.length ≤ n := by
  induction cs generalizing n with
  | nil => simp [recvAll]
  | cons c rest ih =>
    unfold recvAll
    split
    · simp
    · split
      · simp
      · split
        · have := ih (n - c.length)
          simp only [List.length_append]
          omega
        · simp only [List.length_take]
          omega

/-- With no early `b''`, `_recv_all(n)` returns exactly the first `n` bytes of the
stream (all of it if shorter), leaves exactly the rest, and the remaining script
still has no empty chunk. -/
theorem recvAll_spec (n : Nat) (cs : List Bytes) (hne : NoEmpty cs) :
    (recvAll n cs).1 = cs.flatten.take n ∧ (recvAll n cs).2.flatten = cs.flatten.drop n ∧
    NoEmpty (recvAll n cs).2 := by
  induction cs generalizing n with
  | nil => simp [recvAll, NoEmpty]
  | cons c rest ih =>
    have hc : c ≠ [] := hne c (by simp)
    have hrest : NoEmpty rest := fun x hx => hne x (by simp [hx])
    unfold recvAll
    by_cases h0 : n = 0
    · simp only [h0, if_true]
      exact ⟨by simp, by simp, hne⟩
    · simp only [h0, if_false]
      have he : c.isEmpty = false := by
        cases c with
        | nil => exact absurd rfl hc
        | cons _ _ => rfl
      simp only [he, Bool.false_eq_true, if_false]
      by_cases hl : c.length ≤ n
      · simp only [hl, if_true]
        obtain ⟨h1, h2, h3⟩ := ih (n - c.length) hrest
        refine ⟨?_, ?_, h3⟩
        · rw [h1, List.flatten_cons, List.take_append, List.take_of_length_le hl]
        · rw [h2, List.flatten_cons, List.drop_append, List.drop_of_length_le hl]
          simp
      · simp only [hl, if_false]
        have hlt : n < c.length := by omega
        refine ⟨?_, ?_, ?_⟩
        · rw [List.flatten_cons, List.take_append]
          have : n - c.length = 0 := by omega
          simp [this]
        · rw [List.flatten_cons, List.flatten_cons, List.drop_append]
          have : n - c.length = 0 := by omega
          simp [this]
        · intro x hx
          simp only [List.mem_cons] at hx
          rcases hx with hx | hx
          · subst hx
            intro hd
            have := congrArg List.length hd
            simp only [List.length_drop, List.length_nil] at this
            omega
          · exact hrest x hx

/-- One `read()` against its stream specification. -/
theorem clientRead_spec (cs : List Bytes) (hne : NoEmpty cs) :
    (clientRead cs).1 = (streamRead cs.flatten).1 ∧
    (clientRead cs).2.flatten = (streamRead cs.flatten).2 ∧ NoEmpty (clientRead cs).2 := by
  obtain ⟨h1, h2, h3⟩ := recvAll_spec 8 cs hne
  by_cases hs : cs.flatten.length < 8
  · have hlen : (recvAll 8 cs).1.length = cs.flatten.length := by
      rw [h1, List.length_take]; omega
    have hc : clientRead cs =
        (.error (if cs.flatten.length = 0 then .eof else .lengthMismatch 8 cs.flatten.length),
         (recvAll 8 cs).2) := by
      unfold clientRead
      simp only [hlen]
      rw [if_pos (by omega)]
    have hsr : streamRead cs.flatten =
        (.error (if cs.flatten.length = 0 then .eof else .lengthMismatch 8 cs.flatten.length), []) := by
      unfold streamRead
      rw [if_pos hs]
    rw [hc, hsr]
    refine ⟨rfl, ?_, h3⟩
    show (recvAll 8 cs).2.flatten = []
    rw [h2]
    exact List.drop_of_length_le (by omega)
  · have hlen : (recvAll 8 cs).1.length = 8 := by
      rw [h1, List.length_take]; omega
    obtain ⟨p1, p2, p3⟩ := recvAll_spec (msgSize (recvAll 8 cs).1) (recvAll 8 cs).2 h3
    rw [h2] at p1 p2
    by_cases hp : (List.drop 8 cs.flatten).length < msgSize (List.take 8 cs.flatten)
    · have hpl : (recvAll (msgSize (recvAll 8 cs).1) (recvAll 8 cs).2).1.length
          = (List.drop 8 cs.flatten).length := by
        rw [p1, List.length_take, h1]; omega
      have hc : clientRead cs =
          (.error (.lengthMismatch (msgSize (List.take 8 cs.flatten)) (List.drop 8 cs.flatten).length),
           (recvAll (msgSize (recvAll 8 cs).1) (recvAll 8 cs).2).2) := by
        unfold clientRead
        simp only [hlen, hpl]
        rw [if_neg (by omega), if_pos (by rw [h1]; omega), h1]
      have hsr : streamRead cs.flatten =
          (.error (.lengthMismatch (msgSize (List.take 8 cs.flatten)) (List.drop 8 cs.flatten).length), []) := by
        unfold streamRead
        simp only []
        rw [if_neg hs, if_pos hp]
      rw [hc, hsr]
      refine ⟨rfl, ?_, p3⟩
      show (recvAll (msgSize (recvAll 8 cs).1) (recvAll 8 cs).2).2.flatten = []
      rw [p2]
      exact List.drop_of_length_le (by rw [h1]; omega)
    · have hpl : (recvAll (msgSize (recvAll 8 cs).1) (recvAll 8 cs).2).1.length
          = msgSize (List.take 8 cs.flatten) := by
        rw [p1, List.length_take, h1]; omega
      have hc : clientRead cs =
          (.ok (List.take (8 + msgSize (List.take 8 cs.flatten)) cs.flatten),
           (recvAll (msgSize (recvAll 8 cs).1) (recvAll 8 cs).2).2) := by
        unfold clientRead
        simp only [hlen, hpl]
        rw [if_neg (by omega), if_neg (by rw [h1]; omega), p1, h1, List.take_add]
      have hsr : streamRead cs.flatten =
          (.ok (List.take (8 + msgSize (List.take 8 cs.flatten)) cs.flatten),
           List.drop (8 + msgSize (List.take 8 cs.flatten)) cs.flatten) := by
        unfold streamRead
        simp only []
        rw [if_neg hs, if_neg hp]
      rw [hc, hsr]
      refine ⟨rfl, ?_, p3⟩
      show (recvAll (msgSize (recvAll 8 cs).1) (recvAll 8 cs).2).2.flatten = _
      rw [p2, h1, List.drop_drop]

theorem clientFrames_eq_streamFrames (k : Nat) (cs : List Bytes) (hne : NoEmpty cs) :
    clientFrames k cs = streamFrames k cs.flatten := by
  induction k generalizing cs with
  | zero => rfl
  | succ k ih =>
    obtain ⟨h1, h2, h3⟩ := clientRead_spec cs hne
    simp only [clientFrames, streamFrames]
    rw [h1, ih _ h3, h2]

end Kmip.Client
