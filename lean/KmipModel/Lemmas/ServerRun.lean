/-
Definitions and helper lemmas for `Props/ServerRun.lean` (M17): histories of connections against the composed
server model (`serveAll`, a fold of `Server.serve`), and what one handled frame / one connection preserves:
the store invariant, reachability (`ServerWF.Reachable`), equality of everything observable between engine states
with the same store, and the no-op behaviour of frames that cannot reach the engine.
-/
import KmipModel.Props.ServerWF
import KmipModel.Props.C11
namespace Kmip.ServerRun
open Kmip Kmip.Session Kmip.Server Kmip.Encode Kmip.TTLV Kmip.ServerBytes Kmip.ServerWF
open Kmip.EngineResponse (bytesOf verPair)

/-! ## histories -/

/-- an event of the composed server -/
abbrev Ev := Event Request (List ItemResult)

/-- one step of a history -/
inductive HStep where
  /-- a connection: the peer certificate and what the transport delivers -/
  | conn (peer : Option Cert) (c : Conn)
  /-- the server process is restarted on the same database -/
  | restart

/-- **a history served**: the events of every connection, in order, and the engine state at the end -/
def serveAll (w : World) (cfg : SessionCfg) : Engine → List HStep → List (List Ev) × Engine
  | e, [] => ([], e)
  | e, .conn peer c :: rest =>
    ((serve w cfg peer e c).1 :: (serveAll w cfg (serve w cfg peer e c).2 rest).1,
     (serveAll w cfg (serve w cfg peer e c).2 rest).2)
  | e, .restart :: rest => serveAll w cfg e.restart rest

/-- a history without restarts: the fold of `serve` over (certificate, connection) pairs -/
def serveConns (w : World) (cfg : SessionCfg) (e : Engine) (cs : List (Option Cert × Conn)) : List (List Ev) × Engine :=
  serveAll w cfg e (cs.map (fun p => .conn p.1 p.2))

theorem serveAll_append (w : World) (cfg : SessionCfg) (e : Engine) (s₁ s₂ : List HStep) :
    serveAll w cfg e (s₁ ++ s₂) =
      ((serveAll w cfg e s₁).1 ++ (serveAll w cfg (serveAll w cfg e s₁).2 s₂).1,
       (serveAll w cfg (serveAll w cfg e s₁).2 s₂).2) := by
  induction s₁ generalizing e with
  | nil => rfl
  | cons x xs ih =>
    cases x with
    | conn peer c => simp only [List.cons_append, serveAll, ih]
    | restart => simp only [List.cons_append, serveAll, ih]

/-! ## the store invariant -/

/-- whatever bytes arrive from whomever, a handled frame keeps the store well formed -/
theorem handle_inv (w : World) (cfg : SessionCfg) (peer : Option Cert) (e : Engine) (data : Session.Bytes)
    (hi : e.store.Inv) : (handleMessage (serverEnv w) cfg peer e data).2.store.Inv := by
  cases hid : establish cfg.auth peer with
  | error f => rw [(ServerProps.unauthenticated_is_noop w cfg peer e data f hid).2]; exact hi
  | ok id =>
    cases hd : Decode.decodeFrame w.defaultVer data with
    | error err => rw [(ServerProps.undecodable_frame_is_noop w cfg peer e data err hd).2]; exact hi
    | ok req =>
      rw [(ServerProps.decoded_frame_runs_engine w cfg peer e data req id hd hid).2]
      exact (processRequest_inv _ e id _ hi).1

theorem runReads_inv (w : World) (cfg : SessionCfg) (peer : Option Cert) (rs : List Recv) (e : Engine)
    (hi : e.store.Inv) : (runReads (serverEnv w) cfg peer e rs).2.store.Inv := by
  induction rs generalizing e with
  | nil => exact hi
  | cons x xs ih =>
    cases x with
    | closed p => exact hi
    | short p => simp only [runReads]; exact ih e hi
    | ok d => simp only [runReads]; exact ih _ (handle_inv w cfg peer e d hi)

/-- one connection - any bytes, any chunking, any certificate - keeps the store well formed -/
theorem serve_inv (w : World) (cfg : SessionCfg) (peer : Option Cert) (e : Engine) (c : Conn) (hi : e.store.Inv) :
    (serve w cfg peer e c).2.store.Inv := by
  unfold serve
  rw [run_eq_runReads]
  exact runReads_inv w cfg peer _ e hi

theorem serveAll_inv (w : World) (cfg : SessionCfg) (steps : List HStep) (e : Engine) (hi : e.store.Inv) :
    (serveAll w cfg e steps).2.store.Inv := by
  induction steps generalizing e with
  | nil => exact hi
  | cons x xs ih =>
    cases x with
    | conn peer c => simp only [serveAll]; exact ih _ (serve_inv w cfg peer e c hi)
    | restart => simp only [serveAll]; exact ih _ hi

/-! ## reachability of the engine states a history goes through -/

/-- what `ServerWF.served_bytes_wellformed` says of a message `resp` sent for the frame `data` in engine state `e` -/
def SentWF (b : ByteWorld) (e : Engine) (data : TTLV.Bytes) (resp : Response (List ItemResult)) : Prop :=
  (∀ rs, resp = .normal rs → ∃ req, Decode.decodeFrame (world b).defaultVer data = .ok req ∧
    ∀ bs, sentBytes b ((b.ctxOf e).now : Int) (verOf req) (.normal rs) = some bs → bs.length < 4294967296 →
      WF bs ∧ ∃ i, bs = encode i ∧ i.Valid ∧ Envelope.faults (some (verPair req.version)) i = []) ∧
  (∀ hdr rsn, resp = .error hdr rsn → ∀ now : Int, i64 now = true → ∀ text : TTLV.Bytes, text.length < 4294967000 →
    WF (encode (errorItem hdr now rsn text)) ∧ (errorItem hdr now rsn text).Valid ∧
    Envelope.faults (some ((hdr.1 : Int), (hdr.2 : Int))) (errorItem hdr now rsn text) = [])

/-- every handled event of these events is `handleMessage` in a reachable engine state -/
def FromReachable (b : ByteWorld) (cfg : SessionCfg) (evs : List Ev) : Prop :=
  ∀ ev ∈ evs, ∀ d o, ev = Event.handled d o →
    ∃ peer e, Reachable b cfg e ∧ o = (handleMessage (serverEnv (world b)) cfg peer e d).1

theorem runReads_reachable (b : ByteWorld) (cfg : SessionCfg) (peer : Option Cert) (rs : List Recv) (e : Engine)
    (hr : Reachable b cfg e) :
    Reachable b cfg (runReads (serverEnv (world b)) cfg peer e rs).2 ∧
    FromReachable b cfg (runReads (serverEnv (world b)) cfg peer e rs).1 := by
  induction rs generalizing e with
  | nil => exact ⟨hr, fun ev hev => by cases hev⟩
  | cons x xs ih =>
    cases x with
    | closed p => exact ⟨hr, fun ev hev => by cases hev⟩
    | short p =>
      simp only [runReads]
      refine ⟨(ih e hr).1, fun ev hev d o hd => ?_⟩
      rcases List.mem_cons.mp hev with rfl | hev
      · cases hd
      · exact (ih e hr).2 ev hev d o hd
    | ok d =>
      simp only [runReads]
      have hr' : Reachable b cfg (handleMessage (serverEnv (world b)) cfg peer e d).2 := .frame e peer d hr
      refine ⟨(ih _ hr').1, fun ev hev d' o hd => ?_⟩
      rcases List.mem_cons.mp hev with rfl | hev
      · cases hd
        exact ⟨peer, e, hr, rfl⟩
      · exact (ih _ hr').2 ev hev d' o hd

theorem serve_reachable (b : ByteWorld) (cfg : SessionCfg) (peer : Option Cert) (e : Engine) (c : Conn)
    (hr : Reachable b cfg e) :
    Reachable b cfg (serve (world b) cfg peer e c).2 ∧ FromReachable b cfg (serve (world b) cfg peer e c).1 := by
  unfold serve
  rw [run_eq_runReads]
  exact runReads_reachable b cfg peer _ e hr

theorem serveAll_reachable (b : ByteWorld) (cfg : SessionCfg) (steps : List HStep) (e : Engine)
    (hr : Reachable b cfg e) :
    Reachable b cfg (serveAll (world b) cfg e steps).2 ∧
    ∀ evs ∈ (serveAll (world b) cfg e steps).1, FromReachable b cfg evs := by
  induction steps generalizing e with
  | nil => exact ⟨hr, fun evs h => by cases h⟩
  | cons x xs ih =>
    cases x with
    | conn peer c =>
      simp only [serveAll]
      have h1 := serve_reachable b cfg peer e c hr
      refine ⟨(ih _ h1.1).1, fun evs h => ?_⟩
      rcases List.mem_cons.mp h with rfl | h
      · exact h1.2
      · exact (ih _ h1.1).2 evs h
    | restart => simp only [serveAll]; exact ih _ (.restart e hr)

/-! ## engine states with the same store -/

/-- the world looks at the engine only through its store (true of every world whose clock and policies are given
from outside, e.g. a constant `ctxOf`) -/
def CtxOfStore (w : World) : Prop := ∀ e e' : Engine, e.store = e'.store → w.ctxOf e = w.ctxOf e'

theorem restart_eq_of_store {e e' : Engine} (h : e.store = e'.store) : e.restart = e'.restart := by
  simp [Engine.restart, h]

theorem evaluate_store_congr (w : World) (hctx : CtxOfStore w) (cfg : SessionCfg) (peer : Option Cert)
    (e e' : Engine) (data : Session.Bytes) (h : e.store = e'.store) :
    (evaluate (serverEnv w) cfg peer e data).1 = (evaluate (serverEnv w) cfg peer e' data).1 ∧
    (evaluate (serverEnv w) cfg peer e data).2.store = (evaluate (serverEnv w) cfg peer e' data).2.store := by
  unfold evaluate
  cases certStage cfg.auth.tlsClientAuth peer with
  | none => exact ⟨rfl, h⟩
  | some cert =>
    simp only
    cases (serverEnv w).parse data with
    | none => exact ⟨rfl, h⟩
    | some req =>
      simp only
      cases authenticate cfg.auth cert with
      | none => exact ⟨rfl, h⟩
      | some id =>
        simp only
        have hc := hctx e e' h
        have hres : (processRequest (w.ctxOf e') e id (withOracle w.oracle req)).2 =
            (processRequest (w.ctxOf e') e' id (withOracle w.oracle req)).2 :=
          C11.same_store_same_answer _ e e' id _ h
        have hst : (processRequest (w.ctxOf e') e id (withOracle w.oracle req)).1.store =
            (processRequest (w.ctxOf e') e' id (withOracle w.oracle req)).1.store := by
          rw [(C11.request_isolation _ e id _).2, (C11.request_isolation _ e' id _).2, restart_eq_of_store h]
        have heng : ∀ s, (serverEnv w).engine s req id = engineEntry w s req id := fun _ => rfl
        simp only [heng, engineEntry, hc]
        cases h1 : processRequest (w.ctxOf e') e id (withOracle w.oracle req) with
        | mk e1 r1 =>
          cases h2 : processRequest (w.ctxOf e') e' id (withOracle w.oracle req) with
          | mk e2 r2 =>
            rw [h1, h2] at hres hst
            simp only at hres hst
            subst hres
            cases r1 with
            | rejected reason msg => exact ⟨rfl, hst⟩
            | results rs => exact ⟨rfl, hst⟩

theorem handle_store_congr (w : World) (hctx : CtxOfStore w) (cfg : SessionCfg) (peer : Option Cert)
    (e e' : Engine) (data : Session.Bytes) (h : e.store = e'.store) :
    (handleMessage (serverEnv w) cfg peer e data).1 = (handleMessage (serverEnv w) cfg peer e' data).1 ∧
    (handleMessage (serverEnv w) cfg peer e data).2.store = (handleMessage (serverEnv w) cfg peer e' data).2.store := by
  unfold handleMessage
  have := evaluate_store_congr w hctx cfg peer e e' data h
  exact ⟨by rw [this.1], this.2⟩

theorem runReads_store_congr (w : World) (hctx : CtxOfStore w) (cfg : SessionCfg) (peer : Option Cert)
    (rs : List Recv) (e e' : Engine) (h : e.store = e'.store) :
    (runReads (serverEnv w) cfg peer e rs).1 = (runReads (serverEnv w) cfg peer e' rs).1 ∧
    (runReads (serverEnv w) cfg peer e rs).2.store = (runReads (serverEnv w) cfg peer e' rs).2.store := by
  induction rs generalizing e e' with
  | nil => exact ⟨rfl, h⟩
  | cons x xs ih =>
    cases x with
    | closed p => exact ⟨rfl, h⟩
    | short p =>
      simp only [runReads]
      exact ⟨by rw [(ih e e' h).1], (ih e e' h).2⟩
    | ok d =>
      simp only [runReads]
      have hh := handle_store_congr w hctx cfg peer e e' d h
      have ht := ih _ _ hh.2
      exact ⟨by rw [hh.1, ht.1], ht.2⟩

/-! ## frames that cannot reach the engine -/

/-- the frame cannot reach the engine: its sender has no identity, or the decoder model refuses it -/
def NoopFrame (w : World) (cfg : SessionCfg) (peer : Option Cert) (data : Session.Bytes) : Prop :=
  (∃ f, establish cfg.auth peer = .error f) ∨ (∃ err, Decode.decodeFrame w.defaultVer data = .error err)

theorem noop_frame_handled (w : World) (cfg : SessionCfg) (henc : C12.EncoderOk (serverEnv w) cfg)
    (peer : Option Cert) (e : Engine) (data : Session.Bytes) (h : NoopFrame w cfg peer data) :
    ∃ hdr rsn, handleMessage (serverEnv w) cfg peer e data = (⟨some (.error hdr rsn), none⟩, e) ∧
      (rsn = SRsn.authenticationNotSuccessful ∨ rsn = SRsn.invalidMessage) := by
  rcases h with ⟨f, hf⟩ | ⟨err, herr⟩
  · obtain ⟨v, rsn, h1, h2⟩ := C17.auth_failure_response_frames_partial (serverEnv w) cfg henc peer e data f hf
    exact ⟨v, rsn, h1, h2.imp id (fun x => x.1)⟩
  · have hp : (serverEnv w).parse data = none := by
      show parse w data = none
      simp [parse, herr]
    rw [C12.parse_failure_rejected (serverEnv w) cfg henc peer e data hp]
    unfold C12.rejection
    cases certStage cfg.auth.tlsClientAuth peer with
    | none => exact ⟨_, _, rfl, Or.inl rfl⟩
    | some c => exact ⟨_, _, rfl, Or.inr rfl⟩

theorem framesOf_ok (d : Session.Bytes) (r : List Recv) : (framesOf (.ok d :: r)).1 = d :: (framesOf r).1 := by
  simp only [framesOf]

theorem runReads_noop (w : World) (cfg : SessionCfg) (henc : C12.EncoderOk (serverEnv w) cfg) (peer : Option Cert)
    (rs : List Recv) (e : Engine) (hbad : ∀ f ∈ (framesOf rs).1, NoopFrame w cfg peer f) :
    (runReads (serverEnv w) cfg peer e rs).2 = e ∧
    (runReads (serverEnv w) cfg peer e rs).1.filterMap Event.frame? = (framesOf rs).1 ∧
    ∀ ev ∈ (runReads (serverEnv w) cfg peer e rs).1, ∀ d o, ev = Event.handled d o →
      o.engineCall = none ∧ ∃ hdr rsn, o.sent = some (.error hdr rsn) ∧
        (rsn = SRsn.authenticationNotSuccessful ∨ rsn = SRsn.invalidMessage) := by
  induction rs with
  | nil => exact ⟨rfl, rfl, fun ev hev => by cases hev⟩
  | cons x xs ih =>
    cases x with
    | closed p => exact ⟨rfl, rfl, fun ev hev => by cases hev⟩
    | short p =>
      have ih' := ih (by simpa only [framesOf] using hbad)
      simp only [runReads, framesOf]
      refine ⟨ih'.1, by simpa only [List.filterMap_cons, Event.frame?] using ih'.2.1, fun ev hev d o hd => ?_⟩
      rcases List.mem_cons.mp hev with rfl | hev
      · cases hd
      · exact ih'.2.2 ev hev d o hd
    | ok d =>
      have hd0 : NoopFrame w cfg peer d := hbad d (by rw [framesOf_ok]; exact List.mem_cons_self ..)
      have ih' := ih (fun f hf => hbad f (by rw [framesOf_ok]; exact List.mem_cons_of_mem _ hf))
      obtain ⟨hdr, rsn, hh, hr⟩ := noop_frame_handled w cfg henc peer e d hd0
      simp only [runReads, hh, framesOf_ok]
      refine ⟨ih'.1, by simp only [List.filterMap_cons, Event.frame?, ih'.2.1], fun ev hev d' o hd => ?_⟩
      rcases List.mem_cons.mp hev with rfl | hev
      · cases hd
        exact ⟨rfl, hdr, rsn, rfl, hr⟩
      · exact ih'.2.2 ev hev d' o hd

/-! ## a connection that delivers one frame -/

/-- a connection that delivers exactly one complete frame `f` (in whatever chunks) is one handled event -/
theorem serve_one_frame (w : World) (cfg : SessionCfg) (henc : C12.EncoderOk (serverEnv w) cfg) (peer : Option Cert)
    (e : Engine) (f : Session.Bytes) (hf : WellFramed f) (cs : List Session.Bytes) (h : ∀ b ∈ cs, b ≠ [])
    (hcat : cs.flatten = f) :
    serve w cfg peer e (ofChunks cs) =
      ([Event.handled f (handleMessage (serverEnv w) cfg peer e f).1], (handleMessage (serverEnv w) cfg peer e f).2) := by
  unfold serve
  rw [C12.good_after_bad (serverEnv w) cfg henc peer e [] f (fun _ h => by cases h) (fun _ h => by cases h) hf cs h
    (by simpa using hcat)]
  rfl

end Kmip.ServerRun
