/-
Helper lemmas and tactics for Props/C06Plans.lean (M9b, the plan model KmipModel/CryptoPlans.lean).
-/
import KmipModel.CryptoPlans
namespace Kmip.CryptoPlans
open Kmip Kmip.Crypto

/-- split every `if` / `match` of hypothesis `h` -/
macro "cp_split_all" h:ident : tactic =>
  `(tactic| repeat' (first | split at $h:ident | (dsimp only at $h:ident; split at $h:ident)))

/-- after `cp_split_all h` on `h : plan … = .ok pl`: refusing branches are absurd, accepting ones fix `pl` -/
macro "cp_plan_cases" h:ident : tactic =>
  `(tactic| all_goals first
    | (cases $h:ident; done)
    | (simp only [Except.ok.injEq] at $h:ident; subst $h:ident; simp_all <;> omega)
    | (simp only [Except.ok.injEq] at $h:ident; subst $h:ident; simp_all; done)
    | (simp only [Except.ok.injEq] at $h:ident; subst $h:ident; simp_all [Option.isSome_iff_ne_none]))

/-- after `cp_split_all h` on `h : plan … = .error e`: accepting branches are absurd, refusing ones fix `e`,
whose reason is then computed; branches the hypotheses exclude are closed by them -/
macro "cp_refusal_cases" h:ident : tactic =>
  `(tactic| all_goals first
    | (cases $h:ident; done)
    | (simp only [Except.error.injEq] at $h:ident; subst $h:ident; simp [PErr.reason]; done)
    | (exfalso; simp_all; done)
    | (exfalso; simp_all <;> omega)
    | (exfalso
       simp_all [rsa, padOAEP, padPKCS1v15, padPSS, mPBKDF2, mHASH, mHMAC, mENCRYPT, mNIST800_108_C] <;> omega))

/-- once hash and algorithm are selected, the two functions treat the padding method alike (Sign ⇒ Verify) -/
theorem verifyFinish_of_signFinish (T : Tables2) (h : Option HashName) (a pad : Option Nat) (sp : SigPlan)
    (hs : signFinish T h a pad = .ok sp) : verifyFinish h a pad = .ok sp := by
  unfold signFinish at hs
  unfold verifyFinish
  cases h with
  | none => cases hs
  | some hn =>
    simp only at hs
    by_cases hr : (a == some rsa) = true
    · simp only [hr, if_true] at hs ⊢
      cases pad with
      | none => cases hs
      | some pd =>
        simp only at hs
        by_cases h1 : (pd == padPSS) = true
        · have e : (some pd == some padPSS) = true := by simpa using h1
          simp only [h1, if_true] at hs
          simp only [e, if_true]; exact hs
        · have e : (some pd == some padPSS) = false := by simpa using h1
          simp only [h1, Bool.false_eq_true, if_false] at hs
          simp only [e, Bool.false_eq_true, if_false]
          by_cases h2 : (pd == padPKCS1v15) = true
          · have e2 : (some pd == some padPKCS1v15) = true := by simpa using h2
            simp only [h2, if_true] at hs
            simp only [e2, if_true]
            cases hl : List.lookup pd T.asymPadding with
            | none => simp [hl] at hs
            | some _ => simpa [hl] using hs
          · simp [h2] at hs
    · simp [hr] at hs

/-- … and conversely, where the PKCS1v15 class is in the padding table (Verify ⇒ Sign) -/
theorem signFinish_of_verifyFinish (T : Tables2) (h : Option HashName) (a pad : Option Nat) (vp : SigPlan)
    (hp : (T.asymPadding.lookup padPKCS1v15).isSome = true)
    (hv : verifyFinish h a pad = .ok vp) : signFinish T h a pad = .ok vp := by
  unfold verifyFinish at hv
  unfold signFinish
  by_cases hr : (a == some rsa) = true
  · simp only [hr, if_true] at hv
    cases pad with
    | none => simp at hv
    | some pd =>
      by_cases h1 : (pd == padPSS) = true
      · have e : (some pd == some padPSS) = true := by simpa using h1
        simp only [e, if_true] at hv
        cases h with
        | none => cases hv
        | some hn => simpa [hr, h1] using hv
      · have e : (some pd == some padPSS) = false := by simpa using h1
        simp only [e, Bool.false_eq_true, if_false] at hv
        by_cases h2 : (pd == padPKCS1v15) = true
        · have e2 : (some pd == some padPKCS1v15) = true := by simpa using h2
          simp only [e2, if_true] at hv
          have hpd : pd = padPKCS1v15 := by simpa using h2
          cases h with
          | none => cases hv
          | some hn =>
            cases hl : List.lookup pd T.asymPadding with
            | none => rw [hpd] at hl; simp [hl] at hp
            | some _ => simpa [hr, h1, h2, hl] using hv
        · have e2 : (some pd == some padPKCS1v15) = false := by simpa using h2
          simp [e2] at hv
  · simp [hr] at hv

/-- a refusal of `_encrypt_asymmetric` at the plan stage is always Invalid Field -/
theorem asym_enc_refusal_reason (T : Tables2) (p : AsymParams) (e : PErr) (h : asymEncPlan T p = .error e) :
    e.reason = .invalidField := by
  unfold asymEncPlan at h
  cp_split_all h
  all_goals first | (cases h; done) | (simp only [Except.error.injEq] at h; subst h; rfl)

theorem mem_of_lookup {α β : Type} [BEq α] [LawfulBEq α] {l : List (α × β)} {a : α} {b : β}
    (h : l.lookup a = some b) : (a, b) ∈ l := by
  induction l with
  | nil => simp at h
  | cons x xs ih =>
    obtain ⟨k, v⟩ := x
    simp only [List.lookup_cons] at h
    by_cases hk : (a == k) = true
    · simp only [hk] at h
      have : a = k := by simpa using hk
      simp only [Option.some.injEq] at h
      subst this; subst h
      exact List.mem_cons_self
    · have hk' : (a == k) = false := by simpa using hk
      simp only [hk'] at h
      exact List.mem_cons_of_mem _ (ih h)


end Kmip.CryptoPlans
