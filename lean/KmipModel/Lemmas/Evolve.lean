/-
How a stored object can evolve over a history: the fields fixed at creation stay
fixed, the lifecycle state only moves forward.
-/
import KmipModel.Lemmas.Run
namespace Kmip

/-- rank of a lifecycle state (objects without a state attribute: 0) -/
def rank : Option Nat → Nat
  | some 1 => 0
  | some 2 => 1
  | some 3 => 2
  | some 4 => 3
  | some 5 => 4
  | some 6 => 5
  | _ => 0

/-- states a stored object can be in (Destroy removes the row, so the two
destroyed states never appear on a stored object) -/
def StateOk (s : Option Nat) : Prop := s = none ∨ s = some 1 ∨ s = some 2 ∨ s = some 3 ∨ s = some 4

/-- relation between an object and its later self -/
structure Persist (o o' : Obj) : Prop where
  uid : o'.uid = o.uid
  otype : o'.otype = o.otype
  owner : o'.owner = o.owner
  date : o'.initialDate = o.initialDate
  value : o'.value = o.value
  isKey : o'.isKey = o.isKey
  format : o'.format = o.format
  subtype : o'.subtype = o.subtype
  alg : o'.alg = o.alg
  len : o'.len = o.len
  mask : o'.mask = o.mask
  policy : o'.policy = o.policy
  rank : rank o.state ≤ rank o'.state
  stateOk : StateOk o'.state
  hasState : o'.state.isSome = o.state.isSome

theorem Persist.refl (o : Obj) (h : StateOk o.state) : Persist o o :=
  ⟨rfl, rfl, rfl, rfl, rfl, rfl, rfl, rfl, rfl, rfl, rfl, rfl, Nat.le_refl _, h, rfl⟩

theorem Persist.trans {a b c : Obj} (h1 : Persist a b) (h2 : Persist b c) : Persist a c :=
  ⟨h2.uid.trans h1.uid, h2.otype.trans h1.otype, h2.owner.trans h1.owner, h2.date.trans h1.date,
   h2.value.trans h1.value, h2.isKey.trans h1.isKey, h2.format.trans h1.format, h2.subtype.trans h1.subtype,
   h2.alg.trans h1.alg, h2.len.trans h1.len, h2.mask.trans h1.mask, h2.policy.trans h1.policy,
   Nat.le_trans h1.rank h2.rank, h2.stateOk, h2.hasState.trans h1.hasState⟩

theorem Persist.ofProt {o o' : Obj} (h : ProtEq o o') (hs : StateOk o.state) : Persist o o' :=
  ⟨h.uid, h.otype, h.owner, h.date, h.value, h.isKey, h.format, h.subtype, h.alg, h.len, h.mask, h.policy,
   by rw [h.state]; exact Nat.le_refl _, by rw [h.state]; exact hs, by rw [h.state]⟩

def Store.StatesOk (s : Store) : Prop := ∀ o ∈ s.objs, StateOk o.state

/-- `s'` is a later version of `s`: identifiers are not reused, every object of `s'`
that already existed in `s` is a `Persist`ent evolution of it, and all states are legal. -/
structure Evolves (s s' : Store) : Prop where
  ext : s.Extends s'
  inv : s'.Inv
  ok : s'.StatesOk
  persist : ∀ o ∈ s.objs, ∀ o' ∈ s'.objs, o'.uid = o.uid → Persist o o'

theorem Evolves.refl (s : Store) (hi : s.Inv) (hs : s.StatesOk) : Evolves s s := by
  refine ⟨Store.Extends.refl _, hi, hs, ?_⟩
  intro o ho o' ho' hu
  have : o' = o := hi.unique ho' ho hu
  subst this
  exact Persist.refl _ (hs _ ho)

theorem Evolves.trans {a b c : Store} (ha : a.Inv) (h1 : Evolves a b) (h2 : Evolves b c) : Evolves a c := by
  refine ⟨h1.ext.trans h2.ext, h2.inv, h2.ok, ?_⟩
  intro o ho o'' ho'' hu
  rcases h2.ext.2 o'' ho'' with ⟨y, hy, hyu⟩ | hge
  · exact (h1.persist o ho y hy (hyu.trans hu)).trans (h2.persist y hy o'' ho'' hyu.symm)
  · have := ha.2 o ho
    have := h1.ext.1
    omega

theorem rank_compromise (s : Nat) (h : StateOk (some s)) :
    rank (some s) ≤ rank (some (compromiseState s)) ∧ StateOk (some (compromiseState s)) := by
  rcases h with h | h | h | h | h <;> simp at h <;> subst h <;> simp [compromiseState, rank, StateOk, St.destroyed, St.compromised]

/-- one successful operation: the new store is a legal evolution of the old one -/
theorem applyEffect_evolves {c : Ctx} {e : Engine} {op : Nat} {eff : Effect}
    (hi : e.store.Inv) (hs : e.store.StatesOk) (h : EffSpec c e op eff) :
    Evolves e.store (applyEffect e eff).store := by
  have hinv := applyEffect_inv e eff hi
  -- generic argument for updates
  have upd : ∀ (o o' : Obj), o ∈ e.store.objs → Persist o o' →
      Evolves e.store (applyEffect e (.update o')).store := by
    intro o o' ho hp
    have hinv' := applyEffect_inv e (.update o') hi
    refine ⟨hinv'.2, hinv'.1, ?_, ?_⟩
    · intro x hx
      simp only [applyEffect, Store.update, List.mem_map] at hx
      obtain ⟨y, hy, rfl⟩ := hx
      split
      · exact hp.stateOk
      · exact hs y hy
    · intro x hx x' hx' hu
      simp only [applyEffect, Store.update, List.mem_map] at hx'
      obtain ⟨y, hy, rfl⟩ := hx'
      split at hu
      · rename_i hyu
        simp only [beq_iff_eq] at hyu
        rw [if_pos (by simpa using hyu)]
        have hxo : x = o := hi.unique hx ho (by rw [← hu, hp.uid])
        subst hxo; exact hp
      · rename_i hyu
        rw [if_neg hyu]
        have : y = x := hi.unique hy hx hu
        subst this; exact Persist.refl _ (hs _ hy)
  cases h with
  | none => exact Evolves.refl _ hi hs
  | insert _ os hos =>
    have hsp := Store.insertAll_spec e.store os hi
    refine ⟨hinv.2, hinv.1, ?_, ?_⟩
    · intro x hx
      simp only [applyEffect] at hx
      rcases hsp.2.2 x hx with hx' | ⟨_, o, ho, hxo⟩
      · exact hs x hx'
      · rw [hxo]
        rcases (hos o ho).2.2 with h1 | h1
        · exact Or.inl h1
        · exact Or.inr (Or.inl h1)
    · intro x hx x' hx' hu
      simp only [applyEffect] at hx'
      rcases hsp.2.2 x' hx' with hx'' | ⟨hge, _⟩
      · have : x' = x := hi.unique hx'' hx hu
        subst this; exact Persist.refl _ (hs _ hx)
      · have := hi.2 x hx; omega
  | activate o ho _ hst =>
    refine upd o _ ho ⟨rfl, rfl, rfl, rfl, rfl, rfl, rfl, rfl, rfl, rfl, rfl, rfl, ?_, ?_, ?_⟩
    · rw [hst]; simp [rank, St.preActive, St.active]
    · simp [StateOk, St.active]
    · rw [hst]; rfl
  | revokeCompromise o s ho _ hst =>
    have hr := rank_compromise s (by rw [← hst]; exact hs o ho)
    refine upd o _ ho ⟨rfl, rfl, rfl, rfl, rfl, rfl, rfl, rfl, rfl, rfl, rfl, rfl, ?_, hr.2, ?_⟩
    · rw [hst]; exact hr.1
    · rw [hst]; rfl
  | revokeDeactivate o ho _ hst =>
    refine upd o _ ho ⟨rfl, rfl, rfl, rfl, rfl, rfl, rfl, rfl, rfl, rfl, rfl, rfl, ?_, ?_, ?_⟩
    · rw [hst]; simp [rank, St.deactivated, St.active]
    · simp [StateOk, St.deactivated]
    · rw [hst]; rfl
  | attr o o' _ ho _ _ hp => exact upd o o' ho (Persist.ofProt hp (hs o ho))
  | destroy o ho _ _ =>
    refine ⟨hinv.2, hinv.1, ?_, ?_⟩
    · intro x hx
      simp only [applyEffect, Store.delete] at hx
      exact hs x (List.mem_filter.mp hx).1
    · intro x hx x' hx' hu
      simp only [applyEffect, Store.delete] at hx'
      have : x' = x := hi.unique (List.mem_filter.mp hx').1 hx hu
      subst this; exact Persist.refl _ (hs _ hx)

theorem batchSpec_evolves (c : Ctx) (hr : RulesProtect c) (stop : Bool) (e : Engine) (items : List Item)
    (hi : e.store.Inv) (hs : e.store.StatesOk) : Evolves e.store (batchSpec c stop e items).1.store := by
  induction items generalizing e with
  | nil => exact Evolves.refl _ hi hs
  | cons it rest ih =>
    simp only [batchSpec]
    cases hp : processOperation c e it with
    | ok r =>
      obtain ⟨eff, d⟩ := r
      have h1 := applyEffect_evolves hi hs (processOperation_spec hr hp)
      exact Evolves.trans hi h1 (ih _ h1.inv h1.ok)
    | error err =>
      simp only
      cases stop
      · simpa using ih e hi hs
      · simpa using Evolves.refl _ hi hs

theorem processRequest_evolves (c : Ctx) (hr : RulesProtect c) (e : Engine) (id : Identity) (r : Request)
    (hi : e.store.Inv) (hs : e.store.StatesOk) : Evolves e.store (processRequest c e id r).1.store := by
  rcases processRequest_cases c e id r with ⟨hst, _⟩ | hb
  · rw [hst]; exact Evolves.refl _ hi hs
  · rw [hb]; exact batchSpec_evolves c hr r.stop ⟨e.store, none, r.version, id⟩ r.items hi hs

/-- every request of the history runs under a rule table that protects the four
stored protected attributes (discharged for the real table by `decide` in Props/C15) -/
def StepsOk (steps : List Step) : Prop :=
  ∀ s ∈ steps, match s with
    | .request c _ _ => RulesProtect c
    | .restart => True

theorem run_evolves (e : Engine) (steps : List Step) (hok : StepsOk steps)
    (hi : e.store.Inv) (hs : e.store.StatesOk) : Evolves e.store (run e steps).store := by
  induction steps generalizing e with
  | nil => exact Evolves.refl _ hi hs
  | cons s rest ih =>
    have h1 : Evolves e.store (stepEngine e s).store := by
      cases s with
      | request c id r =>
        have := hok (.request c id r) List.mem_cons_self
        exact processRequest_evolves c this e id r hi hs
      | restart => exact Evolves.refl _ hi hs
    exact Evolves.trans hi h1 (ih _ (fun s hs' => hok s (List.mem_cons_of_mem _ hs')) h1.inv h1.ok)

end Kmip
