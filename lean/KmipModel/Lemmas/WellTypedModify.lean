/-
Well-typed requests, continued: SetAttribute / ModifyAttribute / DeleteAttribute and the
attribute reads they perform never end in an `internal` outcome.
-/
import KmipModel.Lemmas.WellTypedOps
namespace Kmip

/-- facts about the rule table used by the attribute operations (proved for the generated table) -/
structure AttrTableFacts (c : Ctx) : Prop where
  /-- the table's multivalued flag agrees with the shape of the stored value -/
  shapes : ∀ (o : Obj) (name : String) (r : AttrRule) (g : Got), c.rule? name = some r →
    getAttr o name = .ok (some g) → (r.multivalued = true ↔ ∃ vs, g = .multi vs)
  /-- no client-modifiable attribute is one whose look-up depends on the object class, nor the policy name -/
  mod_safe : ∀ name r, c.rule? name = some r → r.modifiableByClient = true →
    name ∉ shapeSensitive ∧ name ≠ "Operation Policy Name"
  /-- the three stored multivalued attributes exist since 1.0, are never deprecated and apply to every stored type -/
  multi_stored : ∀ name, (name = "Name" ∨ name = "Object Group" ∨ name = "Application Specific Information") →
    ∃ r, c.rule? name = some r ∧ r.versionAdded ≤ 10 ∧ r.versionDeprecated = none ∧
      ∀ t ∈ storedTypes, r.appliesTo.contains t = true

/-! ### reading attributes -/

theorem getAttrsStep_noInternal' (c : Ctx) (ver : Nat) (o : Obj) (name : String)
    (hshape : ∀ r, c.rule? name = some r → ∀ g, getAttr o name = .ok (some g) →
      (r.multivalued = true ↔ ∃ vs, g = .multi vs)) :
    NoInternal (getAttrsStep c ver o name) := by
  unfold getAttrsStep
  by_cases hs : c.isSupported ver name = true
  · have hk := isSupported_known hs
    simp only [hs, Bool.not_true, Bool.false_eq_true, if_false]
    refine NoInternal.bind (isDeprecated_noInternal _ _ _) ?_
    intro dep _
    split
    · exact NoInternal.pure _
    · refine NoInternal.bind (isApplicable_noInternal _ _ _) ?_
      intro app _
      split
      · exact NoInternal.pure _
      · split
        · exact NoInternal.pure _
        · rename_i g hg
          refine NoInternal.bind (isMultivalued_noInternal _ _) ?_
          intro mv hmv
          obtain ⟨r, hr⟩ := Option.isSome_iff_exists.mp hk
          have hmv' : mv = r.multivalued := by
            simp only [Ctx.isMultivalued, hr, pure, Except.pure, Except.ok.injEq] at hmv
            exact hmv.symm
          have hgot : ∃ g', getAttr o name = .ok (some g') ∧ g' = g := by
            revert hg
            cases hga : getAttr o name with
            | error _ => intro hg; simp at hg
            | ok v => intro hg; simp at hg; exact ⟨g, by rw [hg], rfl⟩
          obtain ⟨g', hg', rfl⟩ := hgot
          have hsh := hshape r hr g' hg'
          split
          · rename_i hm
            have : ∃ vs, g' = .multi vs := hsh.mp (by rw [← hmv']; exact hm)
            obtain ⟨vs, rfl⟩ := this
            exact NoInternal.pure _
          · rename_i hm
            cases g' with
            | single v => exact NoInternal.pure _
            | multi vs =>
              exfalso
              have := hsh.mpr ⟨vs, rfl⟩
              rw [← hmv'] at this
              exact hm this
  · simp only [Bool.not_eq_true] at hs
    simp only [hs, Bool.not_false, if_true]
    exact NoInternal.pure _

theorem getAttrs_noInternal' {c : Ctx} (hf : AttrTableFacts c) (ver : Nat) (o : Obj) (names : List String) :
    NoInternal (getAttrs c ver o names) := by
  unfold getAttrs
  refine NoInternal.bind ?_ (fun _ _ => NoInternal.pure _)
  generalize (if names.isEmpty = true then List.map (fun x => x.name) c.rules else names) = ns
  induction ns with
  | nil => exact NoInternal.pure _
  | cons n rest ih =>
    rw [List.mapM_cons]
    refine NoInternal.bind (getAttrsStep_noInternal' _ ver o n (fun r hr g hg => hf.shapes o n r g hr hg)) ?_
    intro _ _
    exact NoInternal.bind ih (fun _ _ => NoInternal.pure _)

/-! ### SetAttribute -/

theorem modifiable_known {c : Ctx} {name : String} (h : c.isModifiable name = .ok true) :
    ∃ r, c.rule? name = some r ∧ r.modifiableByClient = true := by
  simp only [Ctx.isModifiable, pure, Except.pure, Except.ok.injEq] at h
  cases hr : c.rule? name with
  | none => rw [hr] at h; cases h
  | some r => rw [hr] at h; exact ⟨r, rfl, h⟩

theorem opSetAttribute_noInternal {c : Ctx} {e : Engine} {uid : Option String} {a : TAttr}
    (ha : ValOk c a.name a.value) : NoInternal (opSetAttribute c e uid a) := by
  unfold opSetAttribute
  refine NoInternal.bind (getWithAccess_noInternal _ _ _ _) (fun o _ => ?_)
  refine NoInternal.bind (isMultivalued_noInternal _ _) (fun mv hmv => ?_)
  split
  · exact NoInternal.kerr _ _
  rename_i hmvf
  refine NoInternal.bind (isModifiable_noInternal _ _) (fun md hmd => ?_)
  split
  · exact NoInternal.kerr _ _
  rename_i hmdt
  have hmd' : c.isModifiable a.name = .ok true := by
    rw [hmd]; cases md <;> simp_all
  obtain ⟨r, hr, _⟩ := modifiable_known hmd'
  have hk : c.Known a.name := by simp [Ctx.Known, hr]
  have hmv' : c.mv a.name = false := by
    rw [isMultivalued_eq] at hmv
    simp only [Except.ok.injEq] at hmv
    rw [hmv]; cases mv <;> simp_all
  refine NoInternal.bind (setAttrs_noInternal ?_) (fun _ _ => NoInternal.pure _)
  intro kv hkv
  simp only [List.mem_singleton] at hkv
  subst hkv
  exact ⟨hk, hmv', ha⟩

/-! ### DeleteAttribute -/

theorem popAt_ni {α} (l : List α) (i : Int) : NoInternal (popAt l i) := by
  unfold popAt; split
  · exact NoInternal.pure _
  · exact NoInternal.kerr _ _

theorem delGeneric_ni {α} [BEq α] (l : List α) (v : Option α) (t : Bool) (i : Option Int) :
    NoInternal (delGeneric l v t i) := by
  unfold delGeneric
  repeat' (first | exact NoInternal.pure _ | exact NoInternal.kerr _ _ | exact popAt_ni _ _ | split)

theorem delAttr_noInternal {c : Ctx} {o : Obj} {name : String} {index : Option Int} {value : Option AVal}
    (hv : ∀ v, value = some v → ValOk c name v) : NoInternal (delAttr c o name index value) := by
  unfold delAttr
  refine NoInternal.bind (isApplicable_noInternal _ _ _) (fun _ _ => ?_)
  split
  · exact NoInternal.kerr _ _
  refine NoInternal.bind (isDeletable_noInternal _ _) (fun _ _ => ?_)
  split
  · exact NoInternal.kerr _ _
  refine NoInternal.bind (isMultivalued_noInternal _ _) (fun _ _ => ?_)
  split
  · split
    · rename_i hn
      have hn' : name = "Name" := by simpa using hn
      cases value with
      | none => exact NoInternal.bind (delGeneric_ni _ _ _ _) (fun _ _ => NoInternal.pure _)
      | some v =>
        obtain ⟨a, b, rfl⟩ := (hv v rfl).name_of (lookup_lit hn' (by decide))
        exact NoInternal.bind (delGeneric_ni _ _ _ _) (fun _ _ => NoInternal.pure _)
    · split
      · rename_i hn
        have hn' : name = "Application Specific Information" := by simpa using hn
        cases value with
        | none => exact NoInternal.bind (delGeneric_ni _ _ _ _) (fun _ _ => NoInternal.pure _)
        | some v =>
          obtain ⟨a, b, rfl⟩ := (hv v rfl).appInfo_of (lookup_lit hn' (by decide))
          exact NoInternal.bind (delGeneric_ni _ _ _ _) (fun _ _ => NoInternal.pure _)
      · split
        · rename_i hn
          have hn' : name = "Object Group" := by simpa using hn
          cases value with
          | none => exact NoInternal.bind (delGeneric_ni _ _ _ _) (fun _ _ => NoInternal.pure _)
          | some v =>
            obtain ⟨a, rfl⟩ := (hv v rfl).text_of (lookup_lit hn' (by decide))
            exact NoInternal.bind (delGeneric_ni _ _ _ _) (fun _ _ => NoInternal.pure _)
        · exact NoInternal.kerr _ _
  · exact NoInternal.kerr _ _

theorem deletedAttr_ni (existing : List TAttr) (idx : Int) : NoInternal (deletedAttr existing idx) := by
  unfold deletedAttr
  repeat' (first | exact NoInternal.pure _ | exact NoInternal.kerr _ _ | split)

theorem deleteCore_noInternal {c : Ctx} {ver : Nat} {o : Obj} {name : Option String} {index : Option Int}
    {current : Option TAttr} {reference : Option String} (hf : AttrTableFacts c)
    (hcur : ∀ cur, current = some cur → ValOk c cur.name cur.value) :
    NoInternal (deleteCore c ver o name index current reference) := by
  unfold deleteCore
  split
  · cases current with
    | some cur =>
      exact NoInternal.bind (delAttr_noInternal (fun v hv => by cases hv; exact hcur cur rfl))
        (fun _ _ => NoInternal.pure _)
    | none =>
      cases reference with
      | some r => exact NoInternal.bind (delAttr_noInternal (fun v hv => by cases hv)) (fun _ _ => NoInternal.pure _)
      | none => exact NoInternal.kerr _ _
  · split
    · exact NoInternal.kerr _ _
    · split
      · exact NoInternal.kerr _ _
      · refine NoInternal.bind (getAttrs_noInternal' hf _ _ _) (fun ex _ => ?_)
        refine NoInternal.bind (deletedAttr_ni _ _) (fun _ _ => ?_)
        exact NoInternal.bind (delAttr_noInternal (fun v hv => by cases hv)) (fun _ _ => NoInternal.pure _)

theorem opDeleteAttribute_noInternal {c : Ctx} {e : Engine} {uid : Option String} {name : Option String}
    {index : Option Int} {current : Option TAttr} {reference : Option String} (hf : AttrTableFacts c)
    (hcur : ∀ cur, current = some cur → ValOk c cur.name cur.value) :
    NoInternal (opDeleteAttribute c e uid name index current reference) := by
  unfold opDeleteAttribute
  refine NoInternal.bind (getWithAccess_noInternal _ _ _ _) (fun o _ => ?_)
  exact NoInternal.bind (deleteCore_noInternal hf hcur) (fun _ _ => NoInternal.pure _)

/-! ### ModifyAttribute, KMIP 2.0 form -/

theorem isModifiable_true {c : Ctx} {name : String} {md : Bool} (h : c.isModifiable name = .ok md)
    (hmd : ¬ (!md) = true) : c.isModifiable name = .ok true := by
  rw [h]; cases md <;> simp_all

theorem mv_of_isMultivalued {c : Ctx} {name : String} {mv : Bool} (h : c.isMultivalued name = .ok mv) :
    c.mv name = mv := by
  rw [isMultivalued_eq] at h; simpa using h

theorem modifyCore20_noInternal {c : Ctx} {ver : Nat} {o : Obj} {attr current : Option TAttr} {nw : TAttr}
    (hf : AttrTableFacts c) (hver : ver ≥ 20) (hnew : ValOk c nw.name nw.value)
    (hcur : ∀ cur, current = some cur → ValOk c cur.name cur.value) :
    NoInternal (modifyCore c ver o attr current (some nw)) := by
  unfold modifyCore
  simp only [hver, if_true]
  refine NoInternal.bind (isModifiable_noInternal _ _) (fun md hmd => ?_)
  split
  · exact NoInternal.kerr _ _
  rename_i hmdt
  obtain ⟨r, hr, hrm⟩ := modifiable_known (isModifiable_true hmd hmdt)
  have hsafe := (hf.mod_safe _ r hr hrm).1
  have hk : c.Known nw.name := by simp [Ctx.Known, hr]
  split
  · exact NoInternal.kerr _ _
  rename_i hmis
  have hcur' : ∀ cur, current = some cur → ValOk c nw.name cur.value := by
    intro cur hc
    subst hc
    have : cur.name = nw.name := by
      simp only [currentMismatch, bne_iff_ne, ne_eq, decide_eq_true_eq, Decidable.not_not] at hmis
      exact hmis
    rw [← this]; exact hcur cur rfl
  refine NoInternal.bind (isMultivalued_noInternal _ _) (fun mv hmv => ?_)
  split
  · refine NoInternal.bind (currentIndex_noInternal hsafe hcur') (fun i hi => ?_)
    exact NoInternal.bind (setByIndex_noInternal hnew (currentIndex_inRange hi)) (fun _ _ => NoInternal.pure _)
  · rename_i hmvf
    have hmv' : c.mv nw.name = false := by
      rw [mv_of_isMultivalued hmv]; cases mv <;> simp_all
    refine NoInternal.bind (checkCurrent_noInternal hsafe hcur') (fun _ _ => ?_)
    exact NoInternal.bind (setSingle_noInternal hnew (mv_false_single hmv') hk) (fun _ _ => NoInternal.pure _)

/-! ### ModifyAttribute, KMIP 1.x form -/

/-- the stored list behind a multivalued attribute name -/
def listLen (o : Obj) (name : String) : Nat :=
  if name = "Name" then o.names.length
  else if name = "Object Group" then o.groups.length
  else if name = "Application Specific Information" then o.appInfo.length
  else 0

def IsStoredMulti (name : String) : Prop :=
  name = "Name" ∨ name = "Object Group" ∨ name = "Application Specific Information"

theorem getAttr_multi_names {o : Obj} {name : String} {vs : List AVal}
    (h : getAttr o name = .ok (some (.multi vs))) : IsStoredMulti name ∧ vs.length = listLen o name := by
  unfold getAttr at h
  cases hf : getters.lookup name with
  | none => rw [hf] at h; simp [pure, Except.pure] at h
  | some f =>
    rw [hf] at h
    have hm := lookup_mem_wt _ _ _ hf
    simp only [getters, List.mem_cons, Prod.mk.injEq, List.mem_nil_iff, or_false] at hm
    rcases hm with ⟨rfl, rfl⟩ | ⟨rfl, rfl⟩ | ⟨rfl, rfl⟩ | ⟨rfl, rfl⟩ | ⟨rfl, rfl⟩ | ⟨rfl, rfl⟩ | ⟨rfl, rfl⟩ |
      ⟨rfl, rfl⟩ | ⟨rfl, rfl⟩ | ⟨rfl, rfl⟩ | ⟨rfl, rfl⟩ | ⟨rfl, rfl⟩ | ⟨rfl, rfl⟩
    all_goals (simp only at h)
    all_goals try split at h
    all_goals try (simp [ierr, pure, Except.pure] at h; done)
    all_goals (simp only [pure, Except.pure, Except.ok.injEq, Option.some.injEq, Option.map_eq_some_iff] at h)
    all_goals first
      | (cases h; done)
      | (obtain ⟨_, _, h⟩ := h; cases h; done)
      | (simp only [Got.multi.injEq] at h; subst h; simp [IsStoredMulti, listLen]; done)
      | (cases h; simp [IsStoredMulti, listLen]; done)

theorem inRange_of_lt {o : Obj} {name : String} {i : Nat} (h : i < listLen o name) : InRange o name i := by
  refine ⟨?_, ?_, ?_⟩ <;> intro hn <;> subst hn <;> simpa [listLen] using h

theorem setNth_length {α} (l : List α) (i : Nat) (a : α) : (setNth l i a).length = l.length := by
  induction l generalizing i with
  | nil => rfl
  | cons x xs ih =>
    cases i with
    | zero => rfl
    | succ n => simp [setNth, ih]

theorem setByIndex_pres {o o' : Obj} {name : String} {v : AVal} {i : Nat}
    (h : setByIndex o name v i = .ok o') : o'.otype = o.otype ∧ ∀ n, listLen o' n = listLen o n := by
  unfold setByIndex at h
  repeat' (first
    | (split at h)
    | (cases h; done)
    | (simp only [pure, Except.pure, Except.ok.injEq] at h; subst h; exact ⟨rfl, fun n => by simp [listLen, setNth_length]⟩))

theorem getAttrs_single {c : Ctx} {ver : Nat} {o : Obj} {name : String} {as : List TAttr}
    (h : getAttrsStep c ver o name = .ok as) : getAttrs c ver o [name] = .ok as := by
  simp [getAttrs, List.mapM_cons, List.mapM_nil, h, bind, Except.bind, pure, Except.pure]

theorem getAttrs_single' {c : Ctx} {ver : Nat} {o : Obj} {name : String} {as : List TAttr}
    (h : getAttrs c ver o [name] = .ok as) : getAttrsStep c ver o name = .ok as := by
  cases hs : getAttrsStep c ver o name with
  | error e => simp [getAttrs, List.mapM_cons, hs, bind, Except.bind] at h
  | ok as' =>
    rw [getAttrs_single hs] at h
    exact congrArg _ (by simpa using h)

def enumAttrs (name : String) (vs : List AVal) : List TAttr :=
  (List.range vs.length).zip vs |>.map (fun iv => ⟨name, some iv.1, iv.2⟩)

theorem enumAttrs_length (name : String) (vs : List AVal) : (enumAttrs name vs).length = vs.length := by
  simp [enumAttrs]

theorem getAttrsStep_multi_len {c : Ctx} {ver : Nat} {o : Obj} {name : String} (hf : AttrTableFacts c)
    (hn : IsStoredMulti name) (hver : 10 ≤ ver) (ho : o.otype ∈ storedTypes) :
    ∃ as, getAttrsStep c ver o name = .ok as ∧ as.length = listLen o name := by
  obtain ⟨r, hr, hadd, hdep, happ⟩ := hf.multi_stored name hn
  have happ' : o.otype ∈ r.appliesTo := by simpa using happ _ ho
  have hsup : decide (r.versionAdded ≤ ver) = true := by simp; omega
  rcases hn with rfl | rfl | rfl
  · have hmv : r.multivalued = true :=
      (hf.shapes o _ r (.multi (o.names.map (fun n => .name n 1))) hr
        (by simp [getAttr, getters, List.lookup, pure, Except.pure])).mpr ⟨_, rfl⟩
    refine ⟨enumAttrs "Name" (o.names.map (fun n => .name n 1)), ?_, by simp [enumAttrs_length, listLen]⟩
    simp [getAttrsStep, Ctx.isSupported, Ctx.isDeprecated, Ctx.isApplicable, Ctx.isMultivalued, hr, hdep, happ', hmv,
      hsup, getAttr, getters, List.lookup, bind, Except.bind, pure, Except.pure, enumAttrs]
  · have hmv : r.multivalued = true :=
      (hf.shapes o _ r (.multi (o.groups.map .text)) hr
        (by simp [getAttr, getters, List.lookup, pure, Except.pure])).mpr ⟨_, rfl⟩
    refine ⟨enumAttrs "Object Group" (o.groups.map .text), ?_, by simp [enumAttrs_length, listLen]⟩
    simp [getAttrsStep, Ctx.isSupported, Ctx.isDeprecated, Ctx.isApplicable, Ctx.isMultivalued, hr, hdep, happ', hmv,
      hsup, getAttr, getters, List.lookup, bind, Except.bind, pure, Except.pure, enumAttrs]
  · have hmv : r.multivalued = true :=
      (hf.shapes o _ r (.multi (o.appInfo.map (fun p => .appInfo p.1 p.2))) hr
        (by simp [getAttr, getters, List.lookup, pure, Except.pure])).mpr ⟨_, rfl⟩
    refine ⟨enumAttrs "Application Specific Information" (o.appInfo.map (fun p => .appInfo p.1 p.2)), ?_,
      by simp [enumAttrs_length, listLen]⟩
    simp [getAttrsStep, Ctx.isSupported, Ctx.isDeprecated, Ctx.isApplicable, Ctx.isMultivalued, hr, hdep, happ', hmv,
      hsup, getAttr, getters, List.lookup, bind, Except.bind, pure, Except.pure, enumAttrs]

theorem nthAttr_ni {as : List TAttr} {i : Nat} {site : String} (h : i < as.length) :
    NoInternal (nthAttr as i site) := by
  unfold nthAttr
  rw [List.getElem?_eq_getElem h]
  exact NoInternal.pure _

macro "single_cases" h:ident : tactic =>
  `(tactic| repeat' (first | (split at $h:ident) | (cases $h:ident; done) | (simp only [pure, Except.pure, Except.ok.injEq] at $h:ident; subst $h:ident; rfl) | (dsimp only at $h:ident)))

/-- `setSingle` succeeds only for the five single-valued attributes the server stores, and keeps the type -/
theorem setSingle_ok_name {o o' : Obj} {name : String} {v : AVal} (h : setSingle o name v = .ok o') :
    (name = "Cryptographic Algorithm" ∨ name = "Cryptographic Length" ∨ name = "Cryptographic Usage Mask" ∨
      name = "Operation Policy Name" ∨ name = "Sensitive") ∧ o'.otype = o.otype := by
  unfold setSingle at h
  split at h
  · rename_i hn
    refine ⟨Or.inl (by simpa using hn), ?_⟩
    single_cases h
  · split at h
    · rename_i hn
      refine ⟨Or.inr (Or.inl (by simpa using hn)), ?_⟩
      single_cases h
    · split at h
      · rename_i hn
        refine ⟨Or.inr (Or.inr (Or.inl (by simpa using hn))), ?_⟩
        single_cases h
      · split at h
        · rename_i hn
          refine ⟨Or.inr (Or.inr (Or.inr (Or.inl (by simpa using hn)))), ?_⟩
          single_cases h
        · split at h
          · rename_i hn
            refine ⟨Or.inr (Or.inr (Or.inr (Or.inr (by simpa using hn)))), ?_⟩
            single_cases h
          · exfalso
            repeat' (first | (split at h) | (cases h; done))

/-- whether GetAttributes reports "Sensitive" depends on the object only through its type -/
theorem getAttrsStep_sensitive {c : Ctx} (hf : AttrTableFacts c) (ver : Nat) :
    ∃ f : Nat → Bool, ∀ o : Obj, getAttrsStep c ver o "Sensitive" =
      .ok (if f o.otype then [⟨"Sensitive", none, .bool o.sensitive⟩] else []) := by
  cases hr : c.rule? "Sensitive" with
  | none =>
    refine ⟨fun _ => false, fun o => ?_⟩
    simp [getAttrsStep, Ctx.isSupported, hr, pure, Except.pure]
  | some r =>
    have hmv : r.multivalued = false := by
      have := hf.shapes default "Sensitive" r (.single (.bool (default : Obj).sensitive)) hr
        (by simp [getAttr, getters, List.lookup, pure, Except.pure])
      cases hm : r.multivalued with
      | false => rfl
      | true => obtain ⟨vs, hvs⟩ := this.mp hm; cases hvs
    refine ⟨fun ot => decide (r.versionAdded ≤ ver) &&
      !(match r.versionDeprecated with | some d => decide (d ≤ ver) | none => false) && r.appliesTo.contains ot,
      fun o => ?_⟩
    cases hd : r.versionDeprecated with
    | none =>
      by_cases hs : r.versionAdded ≤ ver <;> by_cases ha : o.otype ∈ r.appliesTo <;>
        simp [getAttrsStep, Ctx.isSupported, Ctx.isDeprecated, Ctx.isApplicable, Ctx.isMultivalued, hr, hd, hs, ha, hmv,
          getAttr, getters, List.lookup, bind, Except.bind, pure, Except.pure]
    | some d =>
      by_cases hdv : d ≤ ver <;> by_cases hs : r.versionAdded ≤ ver <;> by_cases ha : o.otype ∈ r.appliesTo <;>
        simp [getAttrsStep, Ctx.isSupported, Ctx.isDeprecated, Ctx.isApplicable, Ctx.isMultivalued, hr, hd, hs, ha, hmv,
          hdv, getAttr, getters, List.lookup, bind, Except.bind, pure, Except.pure] <;> omega

theorem modifyCore1x_noInternal {c : Ctx} {ver : Nat} {o : Obj} {current new : Option TAttr} {a : TAttr}
    (hf : AttrTableFacts c) (hlt : ¬ ver ≥ 20) (hver : 10 ≤ ver) (ho : o.otype ∈ storedTypes)
    (ha : ValOk c a.name a.value) : NoInternal (modifyCore c ver o (some a) current new) := by
  unfold modifyCore
  simp only [hlt, if_false]
  refine NoInternal.bind (isModifiable_noInternal _ _) (fun md hmd => ?_)
  split
  · exact NoInternal.kerr _ _
  rename_i hmdt
  obtain ⟨r, hr, hrm⟩ := modifiable_known (isModifiable_true hmd hmdt)
  obtain ⟨hsafe, hnotpol⟩ := hf.mod_safe _ r hr hrm
  have hk : c.Known a.name := by simp [Ctx.Known, hr]
  refine NoInternal.bind (isMultivalued_noInternal _ _) (fun mv hmv => ?_)
  have hmv' := mv_of_isMultivalued hmv
  split
  · -- multivalued
    rename_i hmvt
    have hrmv : r.multivalued = true := by
      have : c.mv a.name = true := by rw [hmv']; exact hmvt
      simpa [Ctx.mv, hr] using this
    refine NoInternal.bind (getAttr_noInternal_of hsafe) (fun g hg => ?_)
    cases g with
    | none =>
      refine NoInternal.bind (NoInternal.pure _) (fun n hn => ?_)
      simp only [gotLength, pure, Except.pure, Except.ok.injEq] at hn
      subst hn
      split
      · rename_i hc; exfalso; simp at hc; omega
      · exact NoInternal.kerr _ _
    | some got =>
      obtain ⟨vs, rfl⟩ := (hf.shapes o a.name r got hr hg).mp hrmv
      refine NoInternal.bind (NoInternal.pure _) (fun n hn => ?_)
      simp only [gotLength, pure, Except.pure, Except.ok.injEq] at hn
      subst hn
      obtain ⟨hstored, hlen⟩ := getAttr_multi_names hg
      split
      · rename_i hc
        have hidx : (a.index.getD 0).toNat < listLen o a.name := by
          simp only [Bool.and_eq_true, decide_eq_true_eq] at hc
          rw [← hlen]; omega
        refine NoInternal.bind (setByIndex_noInternal ha (inRange_of_lt hidx)) (fun o' ho' => ?_)
        obtain ⟨hot, hll⟩ := setByIndex_pres ho'
        refine NoInternal.bind (getAttrs_noInternal' hf _ _ _) (fun as has => ?_)
        obtain ⟨as', has', hlen'⟩ := getAttrsStep_multi_len (ver := ver) (o := o') hf hstored hver (by rw [hot]; exact ho)
        have : as = as' := by
          have h1 := getAttrs_single' has
          rw [has'] at h1; exact (Except.ok.inj h1).symm
        subst this
        refine NoInternal.bind (nthAttr_ni (by rw [hlen', hll]; exact hidx)) (fun _ _ => NoInternal.pure _)
      · exact NoInternal.kerr _ _
  · -- single-valued
    rename_i hmvf
    have hmvf' : c.mv a.name = false := by rw [hmv']; cases mv <;> simp_all
    split
    · exact NoInternal.kerr _ _
    refine NoInternal.bind (getAttrs_noInternal' hf _ _ _) (fun existing hex => ?_)
    split
    · exact NoInternal.kerr _ _
    rename_i hne
    refine NoInternal.bind (setSingle_noInternal ha (mv_false_single hmvf') hk) (fun o' ho' => ?_)
    refine NoInternal.bind (getAttrs_noInternal' hf _ _ _) (fun as has => ?_)
    obtain ⟨hname, hot⟩ := setSingle_ok_name ho'
    have hsens : a.name = "Sensitive" := by
      rcases hname with h | h | h | h | h
      · exfalso; apply hsafe; simp [shapeSensitive, h]
      · exfalso; apply hsafe; simp [shapeSensitive, h]
      · exfalso; apply hsafe; simp [shapeSensitive, h]
      · exact absurd h hnotpol
      · exact h
    obtain ⟨f, hfo⟩ := getAttrsStep_sensitive hf ver
    have h1 := getAttrs_single' hex
    have h2 := getAttrs_single' has
    rw [hsens, hfo] at h1 h2
    have hfot : f o.otype = true := by
      cases hfv : f o.otype with
      | true => rfl
      | false =>
        rw [hfv] at h1
        simp only [Bool.false_eq_true, if_false, Except.ok.injEq] at h1
        subst h1; simp at hne
    rw [hot, hfot] at h2
    simp only [if_true, Except.ok.injEq] at h2
    subst h2
    exact NoInternal.bind (nthAttr_ni (by simp)) (fun _ _ => NoInternal.pure _)

theorem opModifyAttribute_noInternal {c : Ctx} {e : Engine} {uid : Option String} {attr current new : Option TAttr}
    (hf : AttrTableFacts c) (hs : ∀ o ∈ e.store.objs, o.otype ∈ storedTypes) (hver : 10 ≤ e.version)
    (hnew : e.version ≥ 20 → ∃ nw, new = some nw ∧ ValOk c nw.name nw.value)
    (hattr : ¬ e.version ≥ 20 → ∃ a, attr = some a ∧ ValOk c a.name a.value)
    (hcur : ∀ cur, current = some cur → ValOk c cur.name cur.value) :
    NoInternal (opModifyAttribute c e uid attr current new) := by
  unfold opModifyAttribute
  refine NoInternal.bind (getWithAccess_noInternal _ _ _ _) (fun o ho => ?_)
  have hmem := (getWithAccess_ok ho).2.1
  refine NoInternal.bind ?_ (fun _ _ => NoInternal.pure _)
  by_cases hv : e.version ≥ 20
  · obtain ⟨nw, rfl, hnw⟩ := hnew hv
    exact modifyCore20_noInternal hf hv hnw hcur
  · obtain ⟨a, rfl, hav⟩ := hattr hv
    exact modifyCore1x_noInternal hf hv hver (hs o hmem) hav

end Kmip
