/-
Helper definitions and lemmas for Props/C13Decode.lean: what the request decoder (KmipModel/Decode.lean)
guarantees about the values it produces.
-/
import KmipModel.Decode
import KmipModel.Lemmas.WellTyped
import KmipModel.Lemmas.WellTypedOps
import KmipModel.Gen.Tables
namespace Kmip.Decode
open Kmip

/-- the decoder's part of `ValOk`: the value has the kind the attribute name dictates, and a structure value the
engine does not look into (`.other`) occurs only under a name the rule table marks multivalued.  (`ValOk` also
asks a Cryptographic Length to be non-negative: a wire Integer is signed, the decoder cannot promise that.) -/
structure ValOkD (c : Ctx) (name : String) (v : AVal) : Prop where
  kind : ∀ k, inspected.lookup name = some k → v.kind = k
  struct : v = .other → ∀ r, c.rule? name = some r → r.multivalued = true

def AttrOkD (c : Ctx) (a : TAttr) : Prop := ValOkD c a.name a.value

def TemplateOkD (c : Ctx) : Option Template → Prop
  | none => True
  | some t => ∀ a ∈ t.attrs, AttrOkD c a

/-- what the decoder guarantees about a payload read under version `ver` -/
def PayloadOkD (c : Ctx) (ver : Nat) : Payload → Prop
  | .create _ t => TemplateOkD c t
  | .createKeyPair cm pr pu => TemplateOkD c cm ∧ TemplateOkD c pr ∧ TemplateOkD c pu
  | .register _ t _ => TemplateOkD c t
  | .deriveKey _ us t _ _ => TemplateOkD c t ∧ us ≠ []
  | .locate _ _ as => ∀ a ∈ as, AttrOkD c a
  | .query fs => fs ≠ []
  | .setAttribute _ a => AttrOkD c a
  | .modifyAttribute _ a cu nw =>
      (ver ≥ 20 → ∃ n, nw = some n ∧ AttrOkD c n) ∧
      (¬ ver ≥ 20 → ∃ x, a = some x ∧ AttrOkD c x) ∧
      (∀ cur, cu = some cur → AttrOkD c cur)
  | .deleteAttribute _ _ _ cu _ => ∀ cur, cu = some cur → AttrOkD c cur
  | _ => True

end Kmip.Decode
