/-
Helper definitions and lemmas for Props/C13Decode.lean: what the request decoder (KmipModel/Decode.lean)
guarantees about the values it produces.
-/
import KmipModel.Decode
import KmipModel.Lemmas.WellTyped
import KmipModel.Lemmas.WellTypedOps
import KmipModel.Gen.Tables
namespace Kmip.Decode
open Kmip

/-- the decoder's part of `ValOk`: the value has the kind the attribute name dictates, and a structure value the
engine does not look into (`.other`) occurs only under a name the rule table marks multivalued.  (`ValOk` also
asks a Cryptographic Length to be non-negative: a wire Integer is signed, the decoder cannot promise that.) -/
structure ValOkD (c : Ctx) (name : String) (v : AVal) : Prop where
  kind : ∀ k, inspected.lookup name = some k → v.kind = k
  struct : v = .other → ∀ r, c.rule? name = some r → r.multivalued = true

def AttrOkD (c : Ctx) (a : TAttr) : Prop := ValOkD c a.name a.value

def TemplateOkD (c : Ctx) : Option Template → Prop
  | none => True
  | some t => ∀ a ∈ t.attrs, AttrOkD c a

/-- what the decoder guarantees about a payload read under version `ver` -/
def PayloadOkD (c : Ctx) (ver : Nat) : Payload → Prop
  | .create _ t => TemplateOkD c t
  | .createKeyPair cm pr pu => TemplateOkD c cm ∧ TemplateOkD c pr ∧ TemplateOkD c pu
  | .register _ t _ => TemplateOkD c t
  | .deriveKey _ us t _ _ => TemplateOkD c t ∧ us ≠ []
  | .locate _ _ as => ∀ a ∈ as, AttrOkD c a
  | .query fs => fs ≠ []
  | .setAttribute _ a => AttrOkD c a
  | .modifyAttribute _ a cu nw =>
      (ver ≥ 20 → ∃ n, nw = some n ∧ AttrOkD c n) ∧
      (¬ ver ≥ 20 → ∃ x, a = some x ∧ AttrOkD c x) ∧
      (∀ cur, cu = some cur → AttrOkD c cur)
  | .deleteAttribute _ _ _ cu _ => ∀ cur, cu = some cur → AttrOkD c cur
  | _ => True


/-! ### post-conditions of readers -/

/-- every successful result of `x` satisfies `P` -/
def DSat {α} (x : D α) (P : α → Prop) : Prop := ∀ a, x = .ok a → P a

/-- every successful result of the reader `m`, on any stream, satisfies `P` -/
def Sat {α} (m : Rd α) (P : α → Prop) : Prop := ∀ s a s', m s = .ok (a, s') → P a

theorem DSat.triv {α} (x : D α) : DSat x (fun _ => True) := fun _ _ => trivial
theorem Sat.triv {α} (m : Rd α) : Sat m (fun _ => True) := fun _ _ _ _ => trivial

theorem Sat.weaken {α} {m : Rd α} {P Q : α → Prop} (h : Sat m P) (hpq : ∀ a, P a → Q a) : Sat m Q :=
  fun s a s' hh => hpq a (h s a s' hh)

theorem Sat.pure {α} {P : α → Prop} {a : α} (h : P a) : Sat (pure a : Rd α) P := by
  intro s a' s' hh
  have : (Except.ok (a, s) : D (α × List TItem)) = .ok (a', s') := hh
  cases this; exact h

theorem Sat.fail {α} {P : α → Prop} (e : DErr) : Sat (Rd.fail e : Rd α) P := by
  intro s a s' hh
  have : (Except.error e : D (α × List TItem)) = .ok (a, s') := hh
  cases this

theorem Sat.bind {α β} {m : Rd α} {f : α → Rd β} {Q : α → Prop} {P : β → Prop}
    (hm : Sat m Q) (hf : ∀ a, Q a → Sat (f a) P) : Sat (m >>= f) P := by
  intro s b s' hh
  have hh' : (match m s with | .ok (a, s1) => f a s1 | .error e => .error e) = .ok (b, s') := hh
  cases hms : m s with
  | error e => rw [hms] at hh'; cases hh'
  | ok p =>
    obtain ⟨a, s1⟩ := p
    rw [hms] at hh'
    exact hf a (hm s a s1 hms) s1 b s' hh'

theorem Sat.ite {α} {P : α → Prop} {c : Prop} [Decidable c] {a b : Rd α}
    (ha : c → Sat a P) (hb : ¬ c → Sat b P) : Sat (if c then a else b) P := by
  by_cases h : c
  · simp only [h, if_true]; exact ha h
  · simp only [h, if_false]; exact hb h

theorem lift_sat {α} {P : α → Prop} {x : D α} (h : DSat x P) : Sat (Rd.lift x) P := by
  intro s a s' hh
  unfold Rd.lift at hh
  cases x with
  | error e => cases hh
  | ok v => cases hh; exact h _ rfl

theorem inStruct_dsat {α} {P : α → Prop} {what : String} {body : Rd α} (h : Sat body P) (i : TItem) :
    DSat (inStruct what body i) P := by
  intro a ha
  cases i with
  | prim t v => cases ha
  | struct t kids =>
    simp only [inStruct] at ha
    cases hb : body.run kids with
    | error e => rw [hb] at ha; cases ha
    | ok p =>
      obtain ⟨x, r⟩ := p
      rw [hb] at ha
      cases ha
      exact h kids a r hb

theorem req_sat {α} {P : α → Prop} {what : String} {t : Nat} {f : TItem → D α} (h : ∀ i, DSat (f i) P) :
    Sat (req what t f) P := by
  intro s a s' hh
  unfold req at hh
  cases s with
  | nil => cases hh
  | cons i rest =>
    simp only at hh
    split at hh
    · cases hf : f i with
      | error e => rw [hf] at hh; cases hh
      | ok v => rw [hf] at hh; cases hh; exact h i a hf
    · cases hh

theorem opt_sat {α} {P : α → Prop} {t : Nat} {f : TItem → D α} (h : ∀ i, DSat (f i) P) :
    Sat (opt t f) (fun o => ∀ a, o = some a → P a) := by
  intro s o s' hh a ho
  subst ho
  unfold opt at hh
  cases s with
  | nil => cases hh
  | cons i rest =>
    simp only at hh
    split at hh
    · cases hf : f i with
      | error e => rw [hf] at hh; cases hh
      | ok v => rw [hf] at hh; cases hh; exact h i a hf
    · cases hh

theorem many_sat {α} {P : α → Prop} {t : Nat} {f : TItem → D α} (h : ∀ i, DSat (f i) P) :
    Sat (many t f) (fun l => ∀ a ∈ l, P a) := by
  intro s
  induction s with
  | nil => intro l s' hh; unfold many at hh; cases hh; intro a ha; cases ha
  | cons i rest ih =>
    intro l s' hh
    unfold many at hh
    split at hh
    · cases hf : f i with
      | error e => rw [hf] at hh; cases hh
      | ok v =>
        rw [hf] at hh
        simp only at hh
        cases hr : many t f rest with
        | error e => rw [hr] at hh; cases hh
        | ok p =>
          obtain ⟨as, r⟩ := p
          rw [hr] at hh
          cases hh
          intro a ha
          rcases List.mem_cons.mp ha with rfl | ha
          · exact h i a hf
          · exact ih _ _ hr a ha
    · cases hh; intro a ha; cases ha

theorem mapD_dsat {α β} {P : β → Prop} {f : α → D β} (h : ∀ a, DSat (f a) P) (l : List α) :
    DSat (mapD f l) (fun bs => ∀ b ∈ bs, P b) := by
  induction l with
  | nil => intro bs hb; unfold mapD at hb; cases hb; intro b hb; cases hb
  | cons a as ih =>
    intro bs hb
    unfold mapD at hb
    cases hf : f a with
    | error e => rw [hf] at hb; cases hb
    | ok b =>
      rw [hf] at hb
      simp only at hb
      cases hr : mapD f as with
      | error e => rw [hr] at hb; cases hb
      | ok bs' =>
        rw [hr] at hb
        cases hb
        intro x hx
        rcases List.mem_cons.mp hx with rfl | hx
        · exact h a x hf
        · exact ih bs' hr x hx

theorem map_ok {α β} {x : D α} {f : α → β} {b : β} (h : x.map f = .ok b) : ∃ a, x = .ok a ∧ b = f a := by
  cases x with
  | error e => cases h
  | ok a => cases h; exact ⟨a, rfl, rfl⟩

/-- readers whose result the property does not talk about -/
macro "sat_triv" : tactic =>
  `(tactic| repeat' (first
      | exact Sat.fail _
      | exact Sat.pure trivial
      | (refine Sat.ite (fun _ => ?_) (fun _ => ?_))
      | (refine Sat.bind (Sat.triv _) (fun _ _ => ?_))
      | split))

/-! ### attribute values have the kind their name dictates -/

def specKind : VSpec → Option Kind
  | .text => some .text
  | .int => some .int
  | .interval => some .int
  | .bool => some .bool
  | .date => some .date
  | .enum _ => some .enum
  | .name => some .name
  | .appInfo => some .appInfo
  | .cryptoParams => some .other
  | .digest => some .other
  | .notImplemented => none

theorem nameBody_sat : Sat nameBody (fun v => v.kind = .name) := by
  unfold nameBody
  refine Sat.bind (Sat.triv _) (fun _ _ => ?_)
  refine Sat.bind (Sat.triv _) (fun _ _ => ?_)
  refine Sat.bind (Sat.triv _) (fun _ _ => ?_)
  exact Sat.pure rfl

theorem appInfoBody_sat : Sat appInfoBody (fun v => v.kind = .appInfo) := by
  unfold appInfoBody
  refine Sat.bind (Sat.triv _) (fun _ _ => ?_)
  refine Sat.bind (Sat.triv _) (fun _ _ => ?_)
  refine Sat.bind (Sat.triv _) (fun _ _ => ?_)
  exact Sat.pure rfl

theorem digestBody_sat : Sat digestBody (fun v => v.kind = .other) := by
  unfold digestBody
  refine Sat.bind (Sat.triv _) (fun _ _ => ?_)
  refine Sat.bind (Sat.triv _) (fun _ _ => ?_)
  refine Sat.bind (Sat.triv _) (fun _ _ => ?_)
  refine Sat.bind (Sat.triv _) (fun _ _ => ?_)
  exact Sat.pure rfl

/-- **the value class is chosen from the attribute's name / tag**: what `readValue` returns has the kind of the
specification it was given -/
theorem readValue_kind {what : String} {spec : VSpec} {i : TItem} {v : AVal}
    (h : readValue what spec i = .ok v) : specKind spec = some v.kind := by
  cases spec <;> simp only [readValue] at h
  case text => obtain ⟨a, _, rfl⟩ := map_ok h; rfl
  case int => obtain ⟨a, _, rfl⟩ := map_ok h; rfl
  case interval => obtain ⟨a, _, rfl⟩ := map_ok h; rfl
  case bool => obtain ⟨a, _, rfl⟩ := map_ok h; rfl
  case date => obtain ⟨a, _, rfl⟩ := map_ok h; rfl
  case «enum» ms => obtain ⟨a, _, rfl⟩ := map_ok h; rfl
  case name => rw [inStruct_dsat nameBody_sat i v h]; rfl
  case appInfo => rw [inStruct_dsat appInfoBody_sat i v h]; rfl
  case cryptoParams => obtain ⟨a, _, rfl⟩ := map_ok h; rfl
  case digest => rw [inStruct_dsat digestBody_sat i v h]; rfl
  case notImplemented => cases h

/-! ### table obligations (re-evaluated on every build; `Gen.attrRules` is regenerated from /repo) -/

/-- every attribute name the engine looks into gets, from the 1.x factory, a value class of the kind the engine expects -/
def inspectedByNameCheck : Bool :=
  inspected.all (fun p => match specOfName p.1 with | .ok s => specKind s == some p.2 | .error _ => true)

theorem inspected_by_name : inspectedByNameCheck = true := by decide +kernel

/-- a name of the rule table whose value class is a structure the engine does not look into is multivalued -/
def otherByNameCheck : Bool :=
  Gen.attrRules.all (fun r => match specOfName r.name with
    | .ok s => specKind s != some Kind.other || r.multivalued
    | .error _ => true)

theorem other_by_name : otherByNameCheck = true := by decide +kernel

def nameSpecB (n : String) (s : VSpec) : Bool :=
  (match inspected.lookup n with | some k => specKind s == some k | none => true) &&
  (specKind s != some Kind.other || Gen.attrRules.all (fun r => r.name != n || r.multivalued))

/-- the same two facts for the KMIP 2.0 factory (by tag), under the name the tag converts to -/
def byTagCheck : Bool :=
  valueByTag.all (fun p => match nameOfTag p.1 with | some n => nameSpecB n p.2 | none => true)

theorem by_tag : byTagCheck = true := by decide +kernel

theorem lookup_mem {α β} [BEq α] [LawfulBEq α] (l : List (α × β)) (k : α) (v : β)
    (h : l.lookup k = some v) : (k, v) ∈ l := by
  induction l with
  | nil => simp at h
  | cons p ps ih =>
    obtain ⟨a, b⟩ := p
    simp only [List.lookup] at h
    split at h
    · rename_i heq
      simp only [beq_iff_eq] at heq
      simp only [Option.some.injEq] at h
      subst heq; subst h; exact List.mem_cons_self
    · exact List.mem_cons_of_mem _ (ih h)

/-- a context whose rule table is the real one -/
def RealRules (c : Ctx) : Prop := c.rules = Gen.attrRules

theorem rule_mem {c : Ctx} (hc : RealRules c) {name : String} {r : AttrRule} (h : c.rule? name = some r) :
    r ∈ Gen.attrRules ∧ r.name = name := by
  unfold Ctx.rule? at h
  rw [hc] at h
  refine ⟨List.mem_of_find?_eq_some h, ?_⟩
  have := List.find?_some h
  simpa using this

theorem valOkD_by_name {c : Ctx} (hc : RealRules c) {name : String} {spec : VSpec} {v : AVal}
    (hs : specOfName name = .ok spec) (hv : specKind spec = some v.kind) : ValOkD c name v := by
  refine ⟨?_, ?_⟩
  · intro k hk
    have hm := lookup_mem _ _ _ hk
    have := List.all_eq_true.mp inspected_by_name (name, k) hm
    simp only [hs, hv, beq_iff_eq, Option.some.injEq] at this
    exact this
  · intro hvo r hr
    obtain ⟨hmem, hname⟩ := rule_mem hc hr
    have := List.all_eq_true.mp other_by_name r hmem
    rw [hname, hs] at this
    subst hvo
    simp only [hv, AVal.kind, bne_self_eq_false, Bool.false_or] at this
    exact this

theorem valOkD_by_tag {c : Ctx} (hc : RealRules c) {t : Nat} {name : String} {spec : VSpec} {v : AVal}
    (hs : valueByTag.lookup t = some spec) (hn : nameOfTag t = some name) (hv : specKind spec = some v.kind) :
    ValOkD c name v := by
  have hm := lookup_mem _ _ _ hs
  have hb := List.all_eq_true.mp by_tag (t, spec) hm
  simp only [hn, nameSpecB, Bool.and_eq_true] at hb
  obtain ⟨h1, h2⟩ := hb
  refine ⟨?_, ?_⟩
  · intro k hk
    rw [hk] at h1
    simp only [hv, beq_iff_eq, Option.some.injEq] at h1
    exact h1
  · intro hvo r hr
    obtain ⟨hmem, hname⟩ := rule_mem hc hr
    subst hvo
    simp only [hv, AVal.kind, bne_self_eq_false, Bool.false_or] at h2
    have := List.all_eq_true.mp h2 r hmem
    simp only [hname, bne_self_eq_false, Bool.false_or] at this
    exact this

/-! ### attributes, templates -/

theorem attribute1x_ok {c : Ctx} (hc : RealRules c) (i : TItem) : DSat (attribute1x i) (AttrOkD c) := by
  unfold attribute1x
  refine inStruct_dsat ?_ i
  unfold attributeBody
  refine Sat.bind (Sat.triv _) (fun name _ => ?_)
  refine Sat.bind (Sat.triv _) (fun index _ => ?_)
  refine Sat.bind (lift_sat (P := fun spec => specOfName name = .ok spec) (fun a h => h)) (fun spec hs => ?_)
  refine Sat.bind (req_sat (P := fun v => specKind spec = some v.kind) (fun i v h => readValue_kind h)) (fun v hv => ?_)
  refine Sat.bind (Sat.triv _) (fun _ _ => ?_)
  exact Sat.pure (valOkD_by_name hc hs hv)

theorem attrByTag_ok {c : Ctx} (hc : RealRules c) (i : TItem) : DSat (attrByTag i) (AttrOkD c) := by
  intro a ha
  unfold attrByTag at ha
  simp only at ha
  split at ha
  · cases ha
  · split at ha
    · cases ha
    · split at ha
      · rename_i spec name hs hn
        obtain ⟨v, hv, rfl⟩ := map_ok ha
        exact valOkD_by_tag hc hs hn (readValue_kind hv)
      · cases ha

theorem attributes20_ok {c : Ctx} (hc : RealRules c) (what : String) (i : TItem) :
    DSat (attributes20 what i) (fun as => ∀ a ∈ as, AttrOkD c a) := by
  intro as h
  cases i with
  | prim t v => cases h
  | struct t kids => exact mapD_dsat (attrByTag_ok hc) kids as h

theorem attrHolder_ok {c : Ctx} (hc : RealRules c) (what : String) (i : TItem) : DSat (attrHolder what i) (AttrOkD c) := by
  unfold attrHolder
  refine inStruct_dsat ?_ i
  intro s a s' hh
  unfold attrHolderBody at hh
  cases s with
  | nil => cases hh
  | cons x rest =>
    simp only at hh
    cases hx : attrByTag x with
    | error e => rw [hx] at hh; cases hh
    | ok v =>
      rw [hx] at hh
      simp only at hh
      split at hh
      · cases hh; exact attrByTag_ok hc x a hx
      · cases hh

def TmplOk (c : Ctx) (t : Template) : Prop := ∀ a ∈ t.attrs, AttrOkD c a

theorem template1x_ok {c : Ctx} (hc : RealRules c) (i : TItem) : DSat (template1x i) (TmplOk c) := by
  unfold template1x
  refine inStruct_dsat ?_ i
  unfold templateBody
  refine Sat.bind (Sat.triv _) (fun names _ => ?_)
  refine Sat.bind (many_sat (attribute1x_ok hc)) (fun attrs ha => ?_)
  refine Sat.bind (Sat.triv _) (fun _ _ => ?_)
  exact Sat.pure ha

theorem template20_ok {c : Ctx} (hc : RealRules c) (what : String) (i : TItem) : DSat (template20 what i) (TmplOk c) := by
  intro t h
  obtain ⟨as, has, rfl⟩ := map_ok h
  exact attributes20_ok hc what i as has

theorem reqTemplate_sat {c : Ctx} (hc : RealRules c) (v : Nat) : Sat (reqTemplate v) (TmplOk c) := by
  unfold reqTemplate
  split
  · exact req_sat (template1x_ok hc)
  · exact req_sat (template20_ok hc _)

theorem optTemplate_sat {c : Ctx} (hc : RealRules c) (v t1 t2 : Nat) : Sat (optTemplate v t1 t2) (TemplateOkD c) := by
  unfold optTemplate
  split
  · refine Sat.weaken (opt_sat (template1x_ok hc)) ?_
    intro o ho; cases o with
    | none => trivial
    | some t => exact ho t rfl
  · refine Sat.weaken (opt_sat (template20_ok hc _)) ?_
    intro o ho; cases o with
    | none => trivial
    | some t => exact ho t rfl

/-! ### payloads -/

theorem createBody_sat {c : Ctx} (hc : RealRules c) (v : Nat) : Sat (createBody v) (PayloadOkD c v) := by
  unfold createBody
  refine Sat.bind (Sat.triv _) (fun ot _ => ?_)
  refine Sat.bind (reqTemplate_sat hc v) (fun t ht => ?_)
  refine Sat.bind (Sat.triv _) (fun _ _ => ?_)
  refine Sat.bind (Sat.triv _) (fun _ _ => ?_)
  exact Sat.pure ht

theorem createKeyPairBody_sat {c : Ctx} (hc : RealRules c) (v : Nat) : Sat (createKeyPairBody v) (PayloadOkD c v) := by
  unfold createKeyPairBody
  refine Sat.bind (optTemplate_sat hc v _ _) (fun cm hcm => ?_)
  refine Sat.bind (optTemplate_sat hc v _ _) (fun pr hpr => ?_)
  refine Sat.bind (optTemplate_sat hc v _ _) (fun pu hpu => ?_)
  refine Sat.bind (Sat.triv _) (fun _ _ => ?_)
  refine Sat.bind (Sat.triv _) (fun _ _ => ?_)
  refine Sat.bind (Sat.triv _) (fun _ _ => ?_)
  refine Sat.bind (Sat.triv _) (fun _ _ => ?_)
  exact Sat.pure ⟨hcm, hpr, hpu⟩

theorem registerBody_sat {c : Ctx} (hc : RealRules c) (v : Nat) : Sat (registerBody v) (PayloadOkD c v) := by
  unfold registerBody
  refine Sat.bind (Sat.triv _) (fun ot _ => ?_)
  refine Sat.bind (reqTemplate_sat hc v) (fun t ht => ?_)
  split
  · exact Sat.fail _
  · refine Sat.bind (Sat.triv _) (fun _ _ => ?_)
    refine Sat.bind (Sat.triv _) (fun _ _ => ?_)
    refine Sat.bind (Sat.triv _) (fun _ _ => ?_)
    exact Sat.pure ht

theorem deriveKeyBody_sat {c : Ctx} (hc : RealRules c) (v : Nat) : Sat (deriveKeyBody v) (PayloadOkD c v) := by
  unfold deriveKeyBody
  refine Sat.bind (Sat.triv _) (fun ot _ => ?_)
  refine Sat.bind (Sat.triv _) (fun us _ => ?_)
  refine Sat.ite (fun _ => Sat.fail _) (fun hus => ?_)
  refine Sat.bind (Sat.triv _) (fun _ _ => ?_)
  refine Sat.bind (Sat.triv _) (fun d _ => ?_)
  refine Sat.bind (reqTemplate_sat hc v) (fun t ht => ?_)
  refine Sat.bind (Sat.triv _) (fun _ _ => ?_)
  refine Sat.pure ⟨ht, ?_⟩
  intro h; subst h; exact hus rfl

theorem locateBody_sat {c : Ctx} (hc : RealRules c) (v : Nat) : Sat (locateBody v) (PayloadOkD c v) := by
  unfold locateBody
  refine Sat.bind (Sat.triv _) (fun mx _ => ?_)
  refine Sat.bind (Sat.triv _) (fun off _ => ?_)
  refine Sat.bind (Sat.triv _) (fun _ _ => ?_)
  refine Sat.bind (Sat.triv _) (fun _ _ => ?_)
  refine Sat.ite (fun _ => ?_) (fun _ => ?_)
  · refine Sat.bind (many_sat (attribute1x_ok hc)) (fun as has => ?_)
    refine Sat.bind (Sat.triv _) (fun _ _ => ?_)
    exact Sat.pure has
  · refine Sat.bind (opt_sat (attributes20_ok hc _)) (fun as has => ?_)
    refine Sat.bind (Sat.triv _) (fun _ _ => ?_)
    refine Sat.pure ?_
    cases as with
    | none => intro a ha; cases ha
    | some l => exact has l rfl

theorem queryBody_sat (c : Ctx) (v : Nat) : Sat queryBody (PayloadOkD c v) := by
  unfold queryBody
  refine Sat.bind (Sat.triv _) (fun fs _ => ?_)
  refine Sat.ite (fun _ => Sat.fail _) (fun hfs => ?_)
  refine Sat.bind (Sat.triv _) (fun _ _ => ?_)
  refine Sat.pure ?_
  intro h; subst h; exact hfs rfl

theorem setAttributeBody_sat {c : Ctx} (hc : RealRules c) (v : Nat) : Sat (setAttributeBody v) (PayloadOkD c v) := by
  unfold setAttributeBody
  refine Sat.ite (fun _ => Sat.fail _) (fun _ => ?_)
  refine Sat.bind (Sat.triv _) (fun u _ => ?_)
  refine Sat.bind (req_sat (attrHolder_ok hc _)) (fun a ha => ?_)
  refine Sat.bind (Sat.triv _) (fun _ _ => ?_)
  exact Sat.pure ha

theorem modifyAttributeBody_sat {c : Ctx} (hc : RealRules c) (v : Nat) : Sat (modifyAttributeBody v) (PayloadOkD c v) := by
  unfold modifyAttributeBody
  refine Sat.bind (Sat.triv _) (fun u _ => ?_)
  refine Sat.ite (fun hv => ?_) (fun hv => ?_)
  · refine Sat.bind (req_sat (attribute1x_ok hc)) (fun a ha => ?_)
    refine Sat.bind (Sat.triv _) (fun _ _ => ?_)
    refine Sat.pure ⟨fun h => ?_, fun _ => ⟨a, rfl, ha⟩, fun cur h => ?_⟩
    · exact absurd h (by omega)
    · cases h
  · refine Sat.bind (opt_sat (attrHolder_ok hc _)) (fun cu hcu => ?_)
    refine Sat.bind (req_sat (attrHolder_ok hc _)) (fun nw hnw => ?_)
    refine Sat.bind (Sat.triv _) (fun _ _ => ?_)
    refine Sat.pure ⟨fun _ => ⟨nw, rfl, hnw⟩, fun h => ?_, fun cur h => hcu cur h⟩
    exact absurd (by omega : v ≥ 20) h

theorem deleteAttributeBody_sat {c : Ctx} (hc : RealRules c) (v : Nat) : Sat (deleteAttributeBody v) (PayloadOkD c v) := by
  unfold deleteAttributeBody
  refine Sat.bind (Sat.triv _) (fun u _ => ?_)
  refine Sat.ite (fun _ => ?_) (fun _ => ?_)
  · refine Sat.bind (Sat.triv _) (fun _ _ => ?_)
    refine Sat.bind (Sat.triv _) (fun _ _ => ?_)
    refine Sat.bind (Sat.triv _) (fun _ _ => ?_)
    refine Sat.pure ?_
    intro cur h; cases h
  · refine Sat.bind (opt_sat (attrHolder_ok hc _)) (fun cu hcu => ?_)
    refine Sat.bind (Sat.triv _) (fun r _ => ?_)
    refine Sat.ite (fun _ => Sat.fail _) (fun _ => ?_)
    refine Sat.bind (Sat.triv _) (fun _ _ => ?_)
    exact Sat.pure (fun cur h => hcu cur h)

/-- every payload reader returns a payload satisfying `Q` (under the version it was read with) -/
def PayloadSat (Q : Nat → Payload → Prop) : Prop := ∀ op v, Sat (payloadBody op v) (Q v)

/-- **every payload the decoder returns satisfies the decoder's part of well-typedness** -/
theorem payloadBody_sat {c : Ctx} (hc : RealRules c) : PayloadSat (PayloadOkD c) := by
  intro op v
  unfold payloadBody
  refine Sat.ite (fun _ => createBody_sat hc v) (fun _ => ?_)
  refine Sat.ite (fun _ => createKeyPairBody_sat hc v) (fun _ => ?_)
  refine Sat.ite (fun _ => registerBody_sat hc v) (fun _ => ?_)
  refine Sat.ite (fun _ => deriveKeyBody_sat hc v) (fun _ => ?_)
  refine Sat.ite (fun _ => locateBody_sat hc v) (fun _ => ?_)
  refine Sat.ite (fun _ => by unfold getBody; sat_triv) (fun _ => ?_)
  refine Sat.ite (fun _ => by unfold getAttributesBody; sat_triv) (fun _ => ?_)
  refine Sat.ite (fun _ => by unfold getAttributeListBody; sat_triv) (fun _ => ?_)
  refine Sat.ite (fun _ => by unfold activateBody; sat_triv) (fun _ => ?_)
  refine Sat.ite (fun _ => by unfold revokeBody; sat_triv) (fun _ => ?_)
  refine Sat.ite (fun _ => by unfold destroyBody; sat_triv) (fun _ => ?_)
  refine Sat.ite (fun _ => queryBody_sat c v) (fun _ => ?_)
  refine Sat.ite (fun _ => by unfold discoverVersionsBody; sat_triv) (fun _ => ?_)
  refine Sat.ite (fun _ => by unfold encryptBody; sat_triv) (fun _ => ?_)
  refine Sat.ite (fun _ => by unfold decryptBody; sat_triv) (fun _ => ?_)
  refine Sat.ite (fun _ => by unfold signBody; sat_triv) (fun _ => ?_)
  refine Sat.ite (fun _ => by unfold signatureVerifyBody; sat_triv) (fun _ => ?_)
  refine Sat.ite (fun _ => by unfold macBody; sat_triv) (fun _ => ?_)
  refine Sat.ite (fun _ => setAttributeBody_sat hc v) (fun _ => ?_)
  refine Sat.ite (fun _ => modifyAttributeBody_sat hc v) (fun _ => ?_)
  refine Sat.ite (fun _ => deleteAttributeBody_sat hc v) (fun _ => ?_)
  refine Sat.ite (fun _ => Sat.fail _) (fun _ => Sat.fail _)

/-! ### Register: the secret is parsed according to the announced object type -/

theorem regOfKB_otype {ot : Nat} {st : Option Nat} {kb : KB} {o : RegObj} (h : regOfKB ot st kb = .ok o) :
    o.otype = ot := by
  unfold regOfKB at h
  split at h <;> first | (cases h; rfl) | cases h

macro "sat_otype" : tactic =>
  `(tactic| repeat' (first
      | exact Sat.fail _
      | exact Sat.pure rfl
      | exact lift_sat (fun _ h => regOfKB_otype h)
      | (refine Sat.ite (fun _ => ?_) (fun _ => ?_))
      | (refine Sat.bind (Sat.triv _) (fun _ _ => ?_))))

theorem secretReader_otype {ot tag : Nat} {rd : TItem → D RegObj} (h : secretReader ot = some (tag, rd)) (i : TItem) :
    DSat (rd i) (fun o => o.otype = ot) := by
  unfold secretReader at h
  split at h
  · rename_i h1; subst h1; cases h; refine inStruct_dsat ?_ i; sat_otype
  · split at h
    · cases h; refine inStruct_dsat ?_ i; sat_otype
    · split at h
      · rename_i h1; subst h1; cases h; refine inStruct_dsat ?_ i; sat_otype
      · split at h
        · rename_i h1; subst h1; cases h; refine inStruct_dsat ?_ i; sat_otype
        · split at h
          · rename_i h1; subst h1; cases h; refine inStruct_dsat ?_ i; sat_otype
          · split at h
            · rename_i h1; subst h1; cases h; refine inStruct_dsat ?_ i; sat_otype
            · cases h

/-- the managed object of a decoded Register has the announced object type -/
def RegisterTyped : Payload → Prop
  | .register ot _ (some o) => o.otype = ot
  | _ => True

theorem registerBody_typed (v : Nat) : Sat (registerBody v) RegisterTyped := by
  unfold registerBody
  refine Sat.bind (Sat.triv _) (fun ot _ => ?_)
  refine Sat.bind (Sat.triv _) (fun t _ => ?_)
  split
  · exact Sat.fail _
  · rename_i tag rd hsr
    refine Sat.bind (req_sat (secretReader_otype hsr)) (fun o ho => ?_)
    refine Sat.bind (Sat.triv _) (fun _ _ => ?_)
    refine Sat.bind (Sat.triv _) (fun _ _ => ?_)
    exact Sat.pure ho

/-! ### batch items and the message -/

/-- an item is only ever decoded under a known version, and its payload then satisfies `Q` for that version -/
def ItemOk (Q : Nat → Payload → Prop) (ver : Option Nat) (it : Kmip.Item) : Prop :=
  ∃ v, ver = some v ∧ 10 ≤ v ∧ Q v it.payload

theorem batchItemBody_sat {Q : Nat → Payload → Prop} (hq : PayloadSat Q) (ver : Option Nat)
    (hver : ∀ v, ver = some v → 10 ≤ v) : Sat (batchItemBody ver) (ItemOk Q ver) := by
  unfold batchItemBody
  refine Sat.bind (Sat.triv _) (fun op _ => ?_)
  split
  · exact Sat.fail _
  · rename_i v
    refine Sat.ite (fun _ => ?_) (fun _ => ?_)
    · refine Sat.bind (Sat.triv _) (fun _ _ => ?_)
      refine Sat.bind (Sat.triv _) (fun bid _ => ?_)
      refine Sat.bind (req_sat (fun i => inStruct_dsat (hq op v) i)) (fun p hp => ?_)
      refine Sat.bind (Sat.triv _) (fun _ _ => ?_)
      refine Sat.bind (Sat.triv _) (fun _ _ => ?_)
      refine Sat.bind (Sat.triv _) (fun b _ => ?_)
      exact Sat.pure ⟨v, rfl, hver v rfl, hp⟩
    · refine Sat.bind (Sat.triv _) (fun bid _ => ?_)
      refine Sat.bind (req_sat (fun i => inStruct_dsat (hq op v) i)) (fun p hp => ?_)
      refine Sat.bind (Sat.triv _) (fun _ _ => ?_)
      refine Sat.bind (Sat.triv _) (fun _ _ => ?_)
      refine Sat.bind (Sat.triv _) (fun b _ => ?_)
      exact Sat.pure ⟨v, rfl, hver v rfl, hp⟩

theorem takeItems_ok {Q : Nat → Payload → Prop} (hq : PayloadSat Q) (ver : Option Nat)
    (hver : ∀ v, ver = some v → 10 ≤ v) :
    ∀ (n : Nat) (l : List TItem) (items : List Kmip.Item), takeItems ver n l = .ok items →
      ∀ it ∈ items, ItemOk Q ver it := by
  intro n
  induction n with
  | zero => intro l items h; unfold takeItems at h; cases h; intro it hit; cases hit
  | succ n ih =>
    intro l items h
    cases l with
    | nil => unfold takeItems at h; cases h
    | cons i rest =>
      unfold takeItems at h
      split at h
      · cases hb : batchItem ver i with
        | error e => rw [hb] at h; cases h
        | ok x =>
          rw [hb] at h
          simp only at h
          cases hr : takeItems ver n rest with
          | error e => rw [hr] at h; cases h
          | ok xs =>
            rw [hr] at h
            cases h
            intro it hit
            rcases List.mem_cons.mp hit with rfl | hit
            · exact inStruct_dsat (batchItemBody_sat hq ver hver) i it hb
            · exact ih rest xs hr it hit
      · cases h

/-- Register's secret has the announced type; every other payload trivially so -/
theorem payloadBody_registerTyped : PayloadSat (fun _ => RegisterTyped) := by
  intro op v
  unfold payloadBody
  refine Sat.ite (fun _ => by unfold createBody; sat_triv) (fun _ => ?_)
  refine Sat.ite (fun _ => by unfold createKeyPairBody; sat_triv) (fun _ => ?_)
  refine Sat.ite (fun _ => registerBody_typed v) (fun _ => ?_)
  refine Sat.ite (fun _ => by unfold deriveKeyBody; sat_triv) (fun _ => ?_)
  refine Sat.ite (fun _ => by unfold locateBody; sat_triv) (fun _ => ?_)
  refine Sat.ite (fun _ => by unfold getBody; sat_triv) (fun _ => ?_)
  refine Sat.ite (fun _ => by unfold getAttributesBody; sat_triv) (fun _ => ?_)
  refine Sat.ite (fun _ => by unfold getAttributeListBody; sat_triv) (fun _ => ?_)
  refine Sat.ite (fun _ => by unfold activateBody; sat_triv) (fun _ => ?_)
  refine Sat.ite (fun _ => by unfold revokeBody; sat_triv) (fun _ => ?_)
  refine Sat.ite (fun _ => by unfold destroyBody; sat_triv) (fun _ => ?_)
  refine Sat.ite (fun _ => by unfold queryBody; sat_triv) (fun _ => ?_)
  refine Sat.ite (fun _ => by unfold discoverVersionsBody; sat_triv) (fun _ => ?_)
  refine Sat.ite (fun _ => by unfold encryptBody; sat_triv) (fun _ => ?_)
  refine Sat.ite (fun _ => by unfold decryptBody; sat_triv) (fun _ => ?_)
  refine Sat.ite (fun _ => by unfold signBody; sat_triv) (fun _ => ?_)
  refine Sat.ite (fun _ => by unfold signatureVerifyBody; sat_triv) (fun _ => ?_)
  refine Sat.ite (fun _ => by unfold macBody; sat_triv) (fun _ => ?_)
  refine Sat.ite (fun _ => by unfold setAttributeBody; sat_triv) (fun _ => ?_)
  refine Sat.ite (fun _ => by unfold modifyAttributeBody; sat_triv) (fun _ => ?_)
  refine Sat.ite (fun _ => by unfold deleteAttributeBody; sat_triv) (fun _ => ?_)
  refine Sat.ite (fun _ => Sat.fail _) (fun _ => Sat.fail _)

theorem kmipVersion_ge (p : Int × Int) (v : Nat) (h : kmipVersion p = some v) : 10 ≤ v := by
  unfold kmipVersion at h
  repeat' (split at h)
  all_goals first | (cases h; omega) | cases h

end Kmip.Decode
