/-
Helper lemmas for Props/C05Listing:
(1) the loop of `_get_attributes_from_managed_object` in closed form: how many instances of each name a full
    listing carries (`listCount`), for ANY rule table whose multi-valued flags agree with the getters;
(2) `KeyShape`: keys carry an algorithm and a length, certificates a certificate type, and the `isKey` flag is
    the object type's — established by every creating handler, kept by every other operation, hence an
    invariant of every history (`run_storeListable`), on top of `StoreShape`.
-/
import KmipModel.Lemmas.StoreShape
namespace Kmip

/-! ### (1) one name of the listing -/

/-- the columns of a rule that decide whether a name is looked at all, and how its value is unpacked -/
structure Gate where
  appliesTo : List Nat
  added : Nat
  deprecated : Option Nat
  multivalued : Bool
  deriving Repr, DecidableEq, Inhabited

def AttrRule.gate (r : AttrRule) : Gate := ⟨r.appliesTo, r.versionAdded, r.versionDeprecated, r.multivalued⟩

/-- supported under `ver`, not deprecated under `ver`, applicable to object type `ot` -/
def Gate.isOpen (g : Gate) (ver ot : Nat) : Bool :=
  decide (g.added ≤ ver) &&
  !(match g.deprecated with
    | some d => decide (d ≤ ver)
    | none => false) &&
  g.appliesTo.contains ot

/-- what the getter yields after `except Exception: attribute_value = None` -/
def gotOf (o : Obj) (name : String) : Option Got :=
  match getAttr o name with
  | .ok v => v
  | .error _ => none

/-- number of attribute instances a value unpacks to -/
def gotCount : Option Got → Nat
  | none => 0
  | some (.single _) => 1
  | some (.multi vs) => vs.length

def Got.isMulti : Got → Bool
  | .multi _ => true
  | .single _ => false

/-- the rest of the loop body once the three gates are passed -/
def instancesOf (mv : Bool) (name : String) : Option Got → R (List TAttr)
  | none => pure []
  | some (.multi vs) =>
    if mv then pure ((List.range vs.length).zip vs |>.map (fun iv => ⟨name, some iv.1, iv.2⟩))
    else ierr "create_attribute on a list value"
  | some (.single v) =>
    if mv then ierr "enumerate over a non-iterable attribute value" else pure [⟨name, none, v⟩]

theorem getAttrsStep_of_rule {c : Ctx} {ver : Nat} {o : Obj} {name : String} {r : AttrRule}
    (h : c.rule? name = some r) :
    getAttrsStep c ver o name =
      if r.gate.isOpen ver o.otype then instancesOf r.multivalued name (gotOf o name) else pure [] := by
  unfold getAttrsStep Ctx.isSupported Ctx.isDeprecated Ctx.isApplicable Ctx.isMultivalued Gate.isOpen AttrRule.gate
  simp only [h]
  by_cases h1 : r.versionAdded ≤ ver
  · cases hd : r.versionDeprecated with
    | none =>
      cases ha : r.appliesTo.contains o.otype
      · simp [h1, bind, Except.bind, pure, Except.pure]
      · simp only [h1, bind, Except.bind, pure, Except.pure, decide_true, Bool.not_true, Bool.false_eq_true,
          if_false, Bool.not_false, Bool.and_self, if_true]
        unfold gotOf instancesOf
        cases getAttr o name with
        | error _ => rfl
        | ok v =>
          cases v with
          | none => rfl
          | some g => cases g <;> cases r.multivalued <;> rfl
    | some d =>
      by_cases h2 : d ≤ ver
      · simp [h1, h2, bind, Except.bind, pure, Except.pure]
      · cases ha : r.appliesTo.contains o.otype
        · simp [h1, h2, bind, Except.bind, pure, Except.pure]
        · simp only [h1, h2, bind, Except.bind, pure, Except.pure, decide_true, decide_false, Bool.not_true,
            Bool.false_eq_true, if_false, Bool.not_false, Bool.and_self, if_true]
          unfold gotOf instancesOf
          cases getAttr o name with
          | error _ => rfl
          | ok v =>
            cases v with
            | none => rfl
            | some g => cases g <;> cases r.multivalued <;> rfl
  · simp [h1, pure, Except.pure]

theorem getAttrsStep_no_rule {c : Ctx} {ver : Nat} {o : Obj} {name : String} (h : c.rule? name = none) :
    getAttrsStep c ver o name = .ok [] := by
  unfold getAttrsStep Ctx.isSupported
  simp [h, pure, Except.pure]

theorem instancesOf_names {mv : Bool} {name : String} {g : Option Got} {as : List TAttr}
    (h : instancesOf mv name g = .ok as) : as.map (·.name) = List.replicate (gotCount g) name := by
  unfold instancesOf at h
  split at h
  · simp only [pure, Except.pure, Except.ok.injEq] at h; subst h; rfl
  · rename_i vs
    split at h
    · simp only [pure, Except.pure, Except.ok.injEq] at h; subst h
      simp only [gotCount, List.map_map]
      apply List.ext_getElem
      · simp
      · intro i h1 h2; simp
    · simp [ierr] at h
  · split at h
    · simp [ierr] at h
    · simp only [pure, Except.pure, Except.ok.injEq] at h; subst h; rfl

/-- the multi-valued flag of every rule agrees with the form of the value its getter yields (otherwise the
loop raises: `enumerate` over a scalar / `create_attribute` on a list) -/
def KindsAgree (c : Ctx) : Prop :=
  ∀ name r, c.rule? name = some r → ∀ (o : Obj) g, gotOf o name = some g → g.isMulti = r.multivalued

/-- how many instances of `name` the full listing of `o` under `ver` carries -/
def listCount (c : Ctx) (ver : Nat) (o : Obj) (name : String) : Nat :=
  match c.rule? name with
  | some r => if r.gate.isOpen ver o.otype then gotCount (gotOf o name) else 0
  | none => 0

theorem getAttrsStep_count {c : Ctx} (hk : KindsAgree c) (ver : Nat) (o : Obj) (name : String) :
    ∃ as, getAttrsStep c ver o name = .ok as ∧
      as.map (·.name) = List.replicate (listCount c ver o name) name := by
  unfold listCount
  cases hr : c.rule? name with
  | none => exact ⟨[], getAttrsStep_no_rule hr, rfl⟩
  | some r =>
    rw [getAttrsStep_of_rule hr]
    simp only
    cases hop : r.gate.isOpen ver o.otype
    · exact ⟨[], rfl, rfl⟩
    · simp only [if_true]
      cases hg : gotOf o name with
      | none => exact ⟨[], rfl, rfl⟩
      | some g =>
        have hm := hk name r hr o g hg
        cases g with
        | single v =>
          have : r.multivalued = false := by simpa [Got.isMulti] using hm.symm
          exact ⟨[⟨name, none, v⟩], by simp [instancesOf, this, pure, Except.pure], rfl⟩
        | multi vs =>
          have : r.multivalued = true := by simpa [Got.isMulti] using hm.symm
          have hi : instancesOf r.multivalued name (some (.multi vs)) =
              .ok ((List.range vs.length).zip vs |>.map (fun iv => ⟨name, some iv.1, iv.2⟩)) := by
            simp [instancesOf, this, pure, Except.pure]
          exact ⟨_, hi, instancesOf_names hi⟩

/-! ### the getters, name by name -/

theorem gotOf_uid (o : Obj) : gotOf o "Unique Identifier" = some (.single (.text (toString o.uid))) := rfl
theorem gotOf_name (o : Obj) : gotOf o "Name" = some (.multi (o.names.map (fun n => .name n 1))) := rfl
theorem gotOf_otype (o : Obj) : gotOf o "Object Type" = some (.single (.enum o.otype)) := rfl
theorem gotOf_policy (o : Obj) : gotOf o "Operation Policy Name" = some (.single (.text o.policy)) := rfl
theorem gotOf_date (o : Obj) : gotOf o "Initial Date" = some (.single (.date o.initialDate)) := rfl
theorem gotOf_group (o : Obj) : gotOf o "Object Group" = some (.multi (o.groups.map .text)) := rfl
theorem gotOf_app (o : Obj) :
    gotOf o "Application Specific Information" = some (.multi (o.appInfo.map (fun p => .appInfo p.1 p.2))) := rfl
theorem gotOf_sensitive (o : Obj) : gotOf o "Sensitive" = some (.single (.bool o.sensitive)) := rfl
theorem gotOf_alg (o : Obj) :
    gotOf o "Cryptographic Algorithm" = if o.isKey then o.alg.map (fun a => .single (.enum a)) else none := by
  show (match (if o.isKey then _ else _ : R (Option Got)) with | .ok v => v | .error _ => none) = _
  cases o.isKey <;> rfl
theorem gotOf_len (o : Obj) :
    gotOf o "Cryptographic Length" = if o.isKey then o.len.map (fun a => .single (.int a)) else none := by
  show (match (if o.isKey then _ else _ : R (Option Got)) with | .ok v => v | .error _ => none) = _
  cases o.isKey <;> cases o.len <;> rfl
theorem gotOf_certType (o : Obj) :
    gotOf o "Certificate Type" =
      if o.otype == OT.certificate then o.subtype.map (fun a => .single (.enum a)) else none := by
  show (match (if o.otype == OT.certificate then _ else _ : R (Option Got)) with | .ok v => v | .error _ => none) = _
  cases (o.otype == OT.certificate) <;> rfl
theorem gotOf_mask (o : Obj) : gotOf o "Cryptographic Usage Mask" = o.mask.map (fun m => .single (.int m)) := by
  show (match (match o.mask with | some m => _ | none => _ : R (Option Got)) with | .ok v => v | .error _ => none) = _
  cases o.mask <;> rfl
theorem gotOf_state (o : Obj) : gotOf o "State" = o.state.map (fun s => .single (.enum s)) := by
  show (match (match o.state with | some m => _ | none => _ : R (Option Got)) with | .ok v => v | .error _ => none) = _
  cases o.state <;> rfl

theorem gotOf_no_getter {o : Obj} {n : String} (h : getters.lookup n = none) : gotOf o n = none := by
  unfold gotOf getAttr
  rw [h]; rfl

theorem gotCount_none : gotCount none = 0 := rfl
theorem gotCount_single (v : AVal) : gotCount (some (.single v)) = 1 := rfl
theorem gotCount_multi (vs : List AVal) : gotCount (some (.multi vs)) = vs.length := rfl
theorem pos_length_eq {α} (l : List α) : decide (0 < l.length) = !l.isEmpty := by cases l <;> simp

theorem gotCount_map_single {α} (x : Option α) (f : α → AVal) :
    gotCount (x.map (fun a => .single (f a))) = if x.isSome then 1 else 0 := by cases x <;> rfl

theorem getWithAccess_granted {c : Ctx} {e : Engine} {uid : Option String} {o : Obj} {op : Nat}
    (hl : e.store.lookup uid = some o) (hg : Allowed c e o op) : getWithAccess c e uid op = .ok o := by
  unfold getWithAccess
  rw [hl]
  unfold Allowed at hg
  simp [hg, pure, Except.pure]

/-! ### the whole listing -/

theorem mapM_ok_of_forall {α β} (f : α → R β) (g : α → β) (l : List α) (h : ∀ x ∈ l, f x = .ok (g x)) :
    l.mapM f = .ok (l.map g) := by
  induction l with
  | nil => rfl
  | cons a l ih =>
    rw [List.mapM_cons, h a List.mem_cons_self, ih (fun x hx => h x (List.mem_cons_of_mem _ hx))]
    rfl

theorem eraseDups_flatten_replicate (l : List String) (k : String → Nat) (hnd : l.Nodup) :
    ((l.map (fun n => List.replicate (k n) n)).flatten).eraseDups = l.filter (fun n => decide (0 < k n)) := by
  induction l with
  | nil => rfl
  | cons a l ih =>
    have hnd' := List.nodup_cons.mp hnd
    simp only [List.map_cons, List.flatten_cons, List.filter_cons]
    cases hk : k a with
    | zero => simpa using ih hnd'.2
    | succ m =>
      simp only [List.replicate_succ, List.cons_append, List.eraseDups_cons, List.filter_append,
        Nat.zero_lt_succ, decide_true, if_true, List.cons.injEq, true_and]
      have h1 : (List.replicate m a).filter (fun b => !b == a) = [] := by
        simp
      have h2 : ((l.map (fun n => List.replicate (k n) n)).flatten).filter (fun b => !b == a) =
          (l.map (fun n => List.replicate (k n) n)).flatten := by
        rw [List.filter_eq_self]
        intro b hb
        simp only [List.mem_flatten, List.mem_map] at hb
        obtain ⟨_, ⟨n, hn, rfl⟩, hb⟩ := hb
        have := (List.mem_replicate.mp hb).2
        subst this
        have : b ≠ a := fun h => hnd'.1 (h ▸ hn)
        simpa using this
      rw [h1, h2, List.nil_append]
      exact ih hnd'.2

/-- **The names of a full listing, for any rule table**: in table order, the names with at least one instance. -/
theorem getAttrs_all_names {c : Ctx} (hk : KindsAgree c) (hnd : (c.rules.map (·.name)).Nodup)
    (ver : Nat) (o : Obj) :
    ∃ as, getAttrs c ver o [] = .ok as ∧
      (as.map (·.name)).eraseDups = (c.rules.map (·.name)).filter (fun n => decide (0 < listCount c ver o n)) ∧
      ∀ n, (as.filter (fun a => a.name == n)).length = if n ∈ c.rules.map (·.name) then listCount c ver o n else 0 := by
  let g : String → List TAttr := fun n =>
    match getAttrsStep c ver o n with
    | .ok as => as
    | .error _ => []
  have hg : ∀ n, getAttrsStep c ver o n = .ok (g n) ∧
      (g n).map (·.name) = List.replicate (listCount c ver o n) n := by
    intro n
    obtain ⟨as, h1, h2⟩ := getAttrsStep_count hk ver o n
    have : g n = as := by simp only [g, h1]
    rw [this]; exact ⟨h1, h2⟩
  refine ⟨((c.rules.map (·.name)).map g).flatten, ?_, ?_, ?_⟩
  · unfold getAttrs
    simp only [List.isEmpty_nil, if_true]
    rw [mapM_ok_of_forall _ g _ (fun n _ => (hg n).1)]
    rfl
  · rw [List.map_flatten, List.map_map]
    have : (List.map (fun x => x.name) ∘ g) = fun n => List.replicate (listCount c ver o n) n := by
      funext n; exact (hg n).2
    rw [this]
    exact eraseDups_flatten_replicate _ _ hnd
  · intro n
    generalize c.rules.map (·.name) = l at hnd
    induction l with
    | nil => simp
    | cons a l ih =>
      have hnd' := List.nodup_cons.mp hnd
      simp only [List.map_cons, List.flatten_cons, List.filter_append, List.length_append]
      rw [ih hnd'.2]
      have hcount : ((g a).filter (fun x => x.name == n)).length = if a = n then listCount c ver o a else 0 := by
        have h2 := (hg a).2
        have : ((g a).filter (fun x => x.name == n)).length = (((g a).map (·.name)).filter (· == n)).length := by
          rw [List.filter_map, List.length_map]; rfl
        rw [this, h2]
        by_cases han : a = n
        · subst han; simp
        · have : (a == n) = false := by simpa using han
          simp [han, this]
      rw [hcount]
      by_cases han : a = n
      · subst han
        simp [hnd'.1]
      · have : n ≠ a := fun h => han h.symm
        simp [han, this]

/-! ### (2) keys have an algorithm and a length, certificates a certificate type -/

/-- the object types whose pie class derives from `Key` -/
def isKeyType (ot : Nat) : Bool :=
  ot == OT.symmetricKey || ot == OT.publicKey || ot == OT.privateKey || ot == OT.splitKey

/-- the `isKey` flag is the object type's; a key has an algorithm and a length; a certificate has a type -/
def KeyShape (o : Obj) : Prop :=
  o.isKey = isKeyType o.otype ∧
  (o.isKey = true → o.alg.isSome = true ∧ o.len.isSome = true) ∧
  (o.otype = OT.certificate → o.subtype.isSome = true)

theorem setSingle_keySome {o o' : Obj} {n : String} {v : AVal} (h : setSingle o n v = .ok o') :
    (o.alg.isSome = true → o'.alg.isSome = true) ∧ (o.len.isSome = true → o'.len.isSome = true) := by
  unfold setSingle at h
  split_all h
  all_goals first
    | (simp [kerr, ierr] at h; done)
    | (simp only [pure, Except.pure, Except.ok.injEq] at h; subst h; exact ⟨fun x => x, fun x => x⟩)
    | (simp only [pure, Except.pure, Except.ok.injEq] at h; subst h; simp_all)

theorem setMulti_keyEq {o o' : Obj} {n : String} {vs : List AVal} (h : setMulti o n vs = .ok o') :
    o'.alg = o.alg ∧ o'.len = o.len := by
  unfold setMulti at h
  split_all h
  all_goals first
    | (simp [kerr, ierr] at h; done)
    | (simp only [pure, Except.pure, Except.ok.injEq] at h; subst h; exact ⟨rfl, rfl⟩)

theorem setAttrs_keySome {c : Ctx} {d : AttrDict} {o o' : Obj} (h : setAttrs c o d = .ok o') :
    (o.alg.isSome = true → o'.alg.isSome = true) ∧ (o.len.isSome = true → o'.len.isSome = true) := by
  unfold setAttrs at h
  induction d generalizing o with
  | nil => simp [List.foldlM, pure, Except.pure] at h; subst h; exact ⟨fun x => x, fun x => x⟩
  | cons kv rest ih =>
    simp only [List.foldlM] at h
    inv h
    obtain ⟨o1, h1, h2⟩ := h
    obtain ⟨app, _, _, h1⟩ := h1
    unfold setAttr at h1
    inv h1
    obtain ⟨mv, _, h1⟩ := h1
    have hk : (o.alg.isSome = true → o1.alg.isSome = true) ∧ (o.len.isSome = true → o1.len.isSome = true) := by
      split at h1
      · split at h1
        · have := setMulti_keyEq h1
          rw [this.1, this.2]; exact ⟨fun x => x, fun x => x⟩
        · inv h1
      · split at h1
        · exact setSingle_keySome h1
        · inv h1
    have := ih h2
    exact ⟨fun x => this.1 (hk.1 x), fun x => this.2 (hk.2 x)⟩

/-- template attributes cannot spoil the key shape of the object they are applied to -/
theorem keyShape_of_setAttrs {c : Ctx} {d : AttrDict} {o0 o : Obj} (h : setAttrs c o0 d = .ok o)
    (h0 : KeyShape o0) : KeyShape o := by
  have hc := setAttrs_core h
  have hs := setAttrs_keySome h
  refine ⟨by rw [hc.isKey, hc.otype]; exact h0.1, ?_, ?_⟩
  · intro hk
    rw [hc.isKey] at hk
    exact ⟨hs.1 (h0.2.1 hk).1, hs.2 (h0.2.1 hk).2⟩
  · intro ht
    rw [hc.otype] at ht
    rw [hc.subtype]; exact h0.2.2 ht

theorem KeyShape.finalize {c : Ctx} {e : Engine} {o : Obj} (h : KeyShape o) : KeyShape (finalize c e o) := h

theorem convertCheck_ok {ro : RegObj} (h : convertCheck ro = .ok ()) :
    (isKeyType ro.otype = true → ro.alg.isSome = true ∧ ro.len.isSome = true) ∧
    (ro.otype = OT.certificate → ro.subtype.isSome = true) := by
  unfold convertCheck at h
  split at h
  · rename_i hc
    have hc' : ro.otype = OT.certificate := by simpa using hc
    split at h
    · rename_i hs
      refine ⟨fun hk => ?_, fun _ => ?_⟩
      · simp [isKeyType, hc', OT.certificate, OT.symmetricKey, OT.publicKey, OT.privateKey, OT.splitKey] at hk
      · have : ro.subtype = some 1 := by simpa using hs
        rw [this]; rfl
    · simp [kerr] at h
  · rename_i hnc
    have hnc' : ro.otype ≠ OT.certificate := by simpa using hnc
    refine ⟨?_, fun hc => absurd hc hnc'⟩
    split at h
    · split at h
      · intro _; exact ⟨by simp_all, by simp_all⟩
      · simp [kerr] at h
    · rename_i hnk
      intro hk
      exact absurd hk hnk

theorem opCreate_keyShape {c e ot t cr eff d} (h : opCreate c e ot t cr = .ok (eff, d)) :
    ∃ o, eff = .insert [o] ∧ KeyShape o := by
  unfold opCreate at h
  inv h
  obtain ⟨_, _, _, _, _, _, _, _, _, _, _, _, o, hs, rfl, _⟩ := h
  refine ⟨_, rfl, (keyShape_of_setAttrs hs ?_).finalize⟩
  refine ⟨rfl, fun _ => ⟨rfl, rfl⟩, fun hc => ?_⟩
  simp [newObj, OT.symmetricKey, OT.certificate] at hc

theorem opCreateKeyPair_keyShape {c e cm pr pu cr eff d} (h : opCreateKeyPair c e cm pr pu cr = .ok (eff, d)) :
    ∃ po so, eff = .insert [po, so] ∧ KeyShape po ∧ KeyShape so := by
  unfold opCreateKeyPair at h
  inv h
  obtain ⟨_, _, _, _, _, _, _, _, _, _, _, _, t, ht, po, hpo, so, hso, rfl, _⟩ := h
  refine ⟨_, _, rfl, (keyShape_of_setAttrs hpo ?_).finalize, (keyShape_of_setAttrs hso ?_).finalize⟩
  · refine ⟨rfl, fun _ => ⟨rfl, rfl⟩, fun hc => ?_⟩
    simp [newObj, OT.publicKey, OT.certificate] at hc
  · refine ⟨rfl, fun _ => ⟨rfl, rfl⟩, fun hc => ?_⟩
    simp [newObj, OT.privateKey, OT.certificate] at hc

theorem opRegister_keyShape {c e ot t ro eff d} (h : opRegister c e ot t ro = .ok (eff, d)) :
    ∃ o, eff = .insert [o] ∧ KeyShape o := by
  unfold opRegister at h
  inv h
  obtain ⟨_, h⟩ := h
  split at h
  · inv h
  · rename_i r
    inv h
    obtain ⟨_, _, u, hcc, o, hs, rfl, _⟩ := h
    have hck := convertCheck_ok (ro := r) hcc
    refine ⟨_, rfl, (keyShape_of_setAttrs hs ?_).finalize⟩
    exact ⟨rfl, fun hk => hck.1 hk, fun hc => hck.2 hc⟩

theorem deriveAlg_sym {ot : Nat} {d : AttrDict} {a : Option Nat} (h : deriveAlg ot d = .ok a)
    (hot : (ot == OT.symmetricKey) = true) : a.isSome = true := by
  unfold deriveAlg at h
  simp only [hot, if_true] at h
  split at h
  · simp only [pure, Except.pure, Except.ok.injEq] at h; subst h; rfl
  · simp [ierr] at h
  · simp [kerr] at h

theorem opDeriveKey_keyShape {c e ot us t cr eff d} (h : opDeriveKey c e ot us t cr = .ok (eff, d)) :
    ∃ o, eff = .insert [o] ∧ KeyShape o := by
  unfold opDeriveKey at h
  inv h
  obtain ⟨_, _, _, _, _, _, bytes, _, alg, halg, tok, _, _, o, hs, rfl, _⟩ := h
  refine ⟨_, rfl, (keyShape_of_setAttrs hs ?_).finalize⟩
  unfold derivedObj
  split
  · rename_i hot
    refine ⟨rfl, fun _ => ⟨deriveAlg_sym halg hot, rfl⟩, fun hc => ?_⟩
    simp [newObj, OT.symmetricKey, OT.certificate] at hc
  · refine ⟨rfl, fun hk => ?_, fun hc => ?_⟩
    · simp [newObj, OT.secretData, OT.symmetricKey, OT.publicKey, OT.privateKey, OT.splitKey] at hk
    · simp [newObj, OT.secretData, OT.certificate] at hc

def Effect.inserts : Effect → Bool
  | .insert _ => true
  | _ => false

theorem cryptoResult_noInserts {u cr eff d} (h : cryptoResult u cr = .ok (eff, d)) : eff.inserts = false := by
  unfold cryptoResult at h
  split at h
  · inv h; rw [← h.1]; rfl
  · inv h; rw [← h.1]; rfl
  · unfold cryptoErr at h; split at h <;> inv h

/-- every successful branch of the handler has an effect that is not an insertion -/
macro "no_inserts" h:ident : tactic =>
  `(tactic| (
    try simp only [bind, Except.bind] at $h:ident
    split_all $h
    all_goals first
      | (simp [kerr, ierr, cryptoErr] at $h:ident; done)
      | exact cryptoResult_noInserts $h
      | (simp only [pure, Except.pure, Except.ok.injEq, Prod.mk.injEq] at $h:ident; rw [← ($h).1]; rfl)))

/-- **Whatever an item inserts has the key shape** (whatever the request says). -/
theorem inserted_keyShape {c : Ctx} {e : Engine} {it : Item} {os : List Obj} {d : Data}
    (h : processOperation c e it = .ok (.insert os, d)) : ∀ o ∈ os, KeyShape o := by
  unfold processOperation at h
  split at h
  · inv h
  · split at h
    · inv h
    · split at h
      case h_1 =>
        obtain ⟨o, ho, hk⟩ := opCreate_keyShape h
        cases ho
        intro x hx
        simp only [List.mem_singleton] at hx
        subst hx; exact hk
      case h_2 =>
        obtain ⟨po, so, ho, hk1, hk2⟩ := opCreateKeyPair_keyShape h
        cases ho
        intro x hx
        simp only [List.mem_cons, List.not_mem_nil, or_false] at hx
        rcases hx with rfl | rfl
        · exact hk1
        · exact hk2
      case h_3 =>
        obtain ⟨o, ho, hk⟩ := opRegister_keyShape h
        cases ho
        intro x hx
        simp only [List.mem_singleton] at hx
        subst hx; exact hk
      case h_4 =>
        obtain ⟨o, ho, hk⟩ := opDeriveKey_keyShape h
        cases ho
        intro x hx
        simp only [List.mem_singleton] at hx
        subst hx; exact hk
      all_goals exfalso
      all_goals (have : (Effect.insert os).inserts = false := ?_) <;> first | (cases this; done) | skip
      · unfold opLocate at h; no_inserts h
      · unfold opGet at h; no_inserts h
      · unfold opGetAttributes at h; no_inserts h
      · unfold opGetAttributeList at h; no_inserts h
      · unfold opActivate at h; no_inserts h
      · unfold opRevoke at h; no_inserts h
      · unfold opDestroy at h; no_inserts h
      · unfold opQuery at h; no_inserts h
      · unfold opDiscoverVersions at h; no_inserts h
      · unfold opEncrypt at h; no_inserts h
      · unfold opDecrypt at h; no_inserts h
      · unfold opSign at h; no_inserts h
      · unfold opSignatureVerify at h; no_inserts h
      · unfold opMac at h; no_inserts h
      · unfold opSetAttribute at h; no_inserts h
      · unfold opModifyAttribute at h; no_inserts h
      · unfold opDeleteAttribute at h; no_inserts h
      · inv h

/-! ### the invariant over batches, requests and histories -/

def StoreKeyShape (s : Store) : Prop := ∀ o ∈ s.objs, KeyShape o

theorem StoreKeyShape.empty : StoreKeyShape Store.empty := by intro o h; simp [Store.empty] at h

theorem KeyShape.withState {o : Obj} (h : KeyShape o) (st : Nat) : KeyShape { o with state := some st } := h

theorem KeyShape.ofProt {o o' : Obj} (h : KeyShape o) (hp : ProtEq o o') : KeyShape o' := by
  unfold KeyShape
  rw [hp.isKey, hp.otype, hp.alg, hp.len, hp.subtype]; exact h

theorem update_keyShape {s : Store} {u : Nat} {o' : Obj} (hs : StoreKeyShape s) (h : KeyShape o') :
    StoreKeyShape (s.update u (fun _ => o')) := by
  intro x hx
  simp only [Store.update, List.mem_map] at hx
  obtain ⟨y, hy, rfl⟩ := hx
  split
  · exact h
  · exact hs y hy

theorem applyEffect_keyShape {c : Ctx} {e : Engine} {op : Nat} {eff : Effect} (hi : e.store.Inv)
    (hs : StoreKeyShape e.store) (hspec : EffSpec c e op eff)
    (hins : ∀ os, eff = .insert os → ∀ o ∈ os, KeyShape o) :
    StoreKeyShape (applyEffect e eff).store := by
  cases hspec with
  | none => exact hs
  | insert _ os hos =>
    intro x hx
    simp only [applyEffect] at hx
    rcases (Store.insertAll_spec e.store os hi).2.2 x hx with hx' | ⟨_, o, ho, hxo⟩
    · exact hs x hx'
    · rw [hxo]; exact hins os rfl o ho
  | activate o hmem _ _ => exact update_keyShape hs ((hs o hmem).withState _)
  | revokeCompromise o st hmem _ _ => exact update_keyShape hs ((hs o hmem).withState _)
  | revokeDeactivate o hmem _ _ => exact update_keyShape hs ((hs o hmem).withState _)
  | attr o o' _ hmem _ _ hp => exact update_keyShape hs ((hs o hmem).ofProt hp)
  | destroy o hmem _ _ =>
    intro x hx
    simp only [applyEffect, Store.delete] at hx
    exact hs x (List.mem_filter.mp hx).1

theorem batchSpec_keyShape (c : Ctx) (hr : RulesProtect c) (stop : Bool) (e : Engine) (items : List Item)
    (hi : e.store.Inv) (hs : StoreKeyShape e.store) :
    StoreKeyShape (batchSpec c stop e items).1.store := by
  induction items generalizing e with
  | nil => exact hs
  | cons it rest ih =>
    simp only [batchSpec]
    cases hp : processOperation c e it with
    | ok r =>
      obtain ⟨eff, d⟩ := r
      have h1 := applyEffect_keyShape hi hs (processOperation_spec hr hp)
        (fun os heq => by subst heq; exact inserted_keyShape hp)
      exact ih _ (applyEffect_inv e eff hi).1 h1
    | error err =>
      simp only
      cases stop
      · simpa using ih e hi hs
      · simpa using hs

theorem processRequest_keyShape (c : Ctx) (hr : RulesProtect c) (e : Engine) (id : Identity) (r : Request)
    (hi : e.store.Inv) (hs : StoreKeyShape e.store) :
    StoreKeyShape (processRequest c e id r).1.store := by
  rcases processRequest_cases c e id r with ⟨hst, _⟩ | hb
  · rw [hst]; exact hs
  · rw [hb]; exact batchSpec_keyShape c hr r.stop ⟨e.store, none, r.version, id⟩ r.items hi hs

/-- **Key shape is an invariant of every history** (no hypothesis on the requests beyond the protecting rule table). -/
theorem run_keyShape (e : Engine) (steps : List Step) (hok : StepsOk steps)
    (hi : e.store.Inv) (hs : StoreKeyShape e.store) : StoreKeyShape (run e steps).store := by
  induction steps generalizing e with
  | nil => exact hs
  | cons s rest ih =>
    have hrest : StepsOk rest := fun s hs' => hok s (List.mem_cons_of_mem _ hs')
    cases s with
    | request c id r =>
      have := hok (.request c id r) List.mem_cons_self
      exact ih _ hrest (processRequest_inv c e id r hi).1 (processRequest_keyShape c this e id r hi hs)
    | restart => exact ih _ hrest hi hs

theorem StepsTyped.ok {steps : List Step} (h : StepsTyped steps) : StepsOk steps := by
  intro s hs
  have := h s hs
  cases s with
  | request c id r => exact this.1
  | restart => trivial

end Kmip
