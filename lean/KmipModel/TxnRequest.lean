/-
M10b — transactions of a WHOLE REQUEST (batch).

`_process_batch` (engine.py) runs the items one after the other on one SQLAlchemy session; every handler that
changes the store flushes its rows and COMMITs before it returns its result (one transaction per item), a failing
item is rolled back, and the response message (all item results) is only built and sent after the loop.  So the
event trace of a request is, per succeeding state-changing item, `write … write, COMMIT`, and at the very end
`respond`.  Under the stated hypothesis (SQLite: a transaction is atomic and, once COMMIT returned, durable) the
database a restarted server finds after the process died having executed `k` events is the store component of the
last executed event (`recoverReq`).

`nw` (how many SQL statements an effect flushes) is a parameter: the theorems hold for every count.
-/
import KmipModel.Txn
import KmipModel.Lemmas.Store
namespace Kmip.Txn
open Kmip

inductive REvent where
  | write (item : Nat)       -- one SQL statement of the `item`-th batch item
  | commit (item : Nat)      -- the COMMIT of that item's transaction
  | respond                  -- the response message is handed to the session
  deriving DecidableEq, Repr

/-- events of one succeeding item together with the DURABLE store after each event -/
def itemRun (nw : Effect → Nat) (i : Nat) (e : Engine) (eff : Effect) : List (REvent × Store) :=
  match eff with
  | .none => []                                      -- nothing flushed, no transaction
  | eff => List.replicate (nw eff) (REvent.write i, e.store) ++ [(REvent.commit i, (applyEffect e eff).store)]

/-- the batch loop as a trace of (event, durable store after it) -/
def batchRun (nw : Effect → Nat) (c : Ctx) (stop : Bool) : Engine → List Item → Nat → List (REvent × Store)
  | _, [], _ => []
  | e, it :: rest, i =>
    match processOperation c e it with
    | .ok (eff, _) => itemRun nw i e eff ++ batchRun nw c stop (applyEffect e eff) rest (i + 1)
    | .error _ => if stop then [] else batchRun nw c stop e rest (i + 1)

/-- the whole request: the loop, then the response -/
def requestRun (nw : Effect → Nat) (c : Ctx) (stop : Bool) (e : Engine) (items : List Item) : List (REvent × Store) :=
  batchRun nw c stop e items 0 ++ [(REvent.respond, (batchSpec c stop e items).1.store)]

/-- the store a fresh server finds when the process died after `k` events of the run -/
def recoverReq (s0 : Store) (run : List (REvent × Store)) (k : Nat) : Store :=
  match (run.take k).getLast? with
  | some p => p.2
  | none => s0

/-- was the response produced among the first `k` events? -/
def ackedReq (run : List (REvent × Store)) (k : Nat) : Bool := ((run.take k).map (·.1)).contains .respond

end Kmip.Txn
