/-
Record types of the generated tables (lean/KmipModel/Gen/Tables.lean).
Hand-written so that models can mention them without importing generated data.
-/
namespace Kmip

/-- One row of `AttributePolicy._attribute_rule_sets` (kmip/services/server/policy.py).
Versions are `10·major + minor`. -/
structure AttrRule where
  name : String
  alwaysHasValue : Bool
  modifiableByServer : Bool
  modifiableByClient : Bool
  deletableByClient : Bool
  multivalued : Bool
  appliesTo : List Nat
  versionAdded : Nat
  versionDeprecated : Option Nat
  deriving Repr, DecidableEq, Inhabited

/-- One method of `KmipEngine` as seen by the `ast` pass of the translator. -/
structure EngineMethod where
  name : String
  synchronized : Bool
  minVersionDeco : Option String
  writes : List String
  calls : List String
  queries : Nat
  commits : Nat
  deriving Repr, DecidableEq, Inhabited

/-- One logger call site. `args` are provenance classes assigned by the translator. -/
structure LogSite where
  file : String
  line : Nat
  level : Nat
  args : List String
  /-- provenance class per formatted argument: 0 constant, 1 identifier, 2 enum name, 3 time,
  4 exception object, 5 configuration value, 10 tainted (value / encoding / repr / credential), 11 unknown -/
  argCodes : List Nat
  deriving Repr, DecidableEq, Inhabited

end Kmip
