/-
M14 — static tables used by the request-decoding model (`KmipModel/Decode.lean`): tag numbers, the member values
of the enumeration classes the request readers instantiate, the attribute tags per version.
Written out from `kmip.core.enums` of /repo by a one-off script; PINNED on every run: `Drivers/Decode.lean` prints
them (`{"op":"tables"}`) and `harness/lib/decode_check.py` compares them with the live `kmip.core.enums`.
-/
namespace Kmip.Decode

namespace T
def default_ : Nat := 0x420000
def activationDate : Nat := 0x420001
def applicationData : Nat := 0x420002
def applicationNamespace : Nat := 0x420003
def applicationSpecificInformation : Nat := 0x420004
def archiveDate : Nat := 0x420005
def asynchronousCorrelationValue : Nat := 0x420006
def asynchronousIndicator : Nat := 0x420007
def attribute_ : Nat := 0x420008
def attributeIndex : Nat := 0x420009
def attributeName : Nat := 0x42000A
def attributeValue : Nat := 0x42000B
def authentication : Nat := 0x42000C
def batchCount : Nat := 0x42000D
def batchErrorContinuationOption : Nat := 0x42000E
def batchItem : Nat := 0x42000F
def batchOrderOption : Nat := 0x420010
def blockCipherMode : Nat := 0x420011
def cancellationResult : Nat := 0x420012
def certificate_ : Nat := 0x420013
def certificateIdentifier : Nat := 0x420014
def certificateIssuer : Nat := 0x420015
def certificateIssuerAlternativeName : Nat := 0x420016
def certificateIssuerDistinguishedName : Nat := 0x420017
def certificateRequest : Nat := 0x420018
def certificateRequestType : Nat := 0x420019
def certificateSubject : Nat := 0x42001A
def certificateSubjectAlternativeName : Nat := 0x42001B
def certificateSubjectDistinguishedName : Nat := 0x42001C
def certificateType : Nat := 0x42001D
def certificateValue : Nat := 0x42001E
def commonTemplateAttribute : Nat := 0x42001F
def compromiseDate : Nat := 0x420020
def compromiseOccurrenceDate : Nat := 0x420021
def contactInformation : Nat := 0x420022
def credential : Nat := 0x420023
def credentialType : Nat := 0x420024
def credentialValue : Nat := 0x420025
def criticalityIndicator : Nat := 0x420026
def crtCoefficient : Nat := 0x420027
def cryptographicAlgorithm : Nat := 0x420028
def cryptographicDomainParameters : Nat := 0x420029
def cryptographicLength : Nat := 0x42002A
def cryptographicParameters : Nat := 0x42002B
def cryptographicUsageMask : Nat := 0x42002C
def customAttribute : Nat := 0x42002D
def d : Nat := 0x42002E
def deactivationDate : Nat := 0x42002F
def derivationData : Nat := 0x420030
def derivationMethod : Nat := 0x420031
def derivationParameters : Nat := 0x420032
def destroyDate : Nat := 0x420033
def digest_ : Nat := 0x420034
def digestValue : Nat := 0x420035
def encryptionKeyInformation : Nat := 0x420036
def g : Nat := 0x420037
def hashingAlgorithm : Nat := 0x420038
def initialDate : Nat := 0x420039
def initializationVector : Nat := 0x42003A
def issuer : Nat := 0x42003B
def iterationCount : Nat := 0x42003C
def ivCounterNonce : Nat := 0x42003D
def j : Nat := 0x42003E
def key : Nat := 0x42003F
def keyBlock : Nat := 0x420040
def keyCompressionType : Nat := 0x420041
def keyFormatType : Nat := 0x420042
def keyMaterial : Nat := 0x420043
def keyPartIdentifier : Nat := 0x420044
def keyValue : Nat := 0x420045
def keyWrappingData : Nat := 0x420046
def keyWrappingSpecification : Nat := 0x420047
def lastChangeDate : Nat := 0x420048
def leaseTime : Nat := 0x420049
def link_ : Nat := 0x42004A
def linkType : Nat := 0x42004B
def linkedObjectIdentifier : Nat := 0x42004C
def macSignature : Nat := 0x42004D
def macSignatureKeyInformation : Nat := 0x42004E
def maximumItems : Nat := 0x42004F
def maximumResponseSize : Nat := 0x420050
def messageExtension : Nat := 0x420051
def modulus : Nat := 0x420052
def name_ : Nat := 0x420053
def nameType : Nat := 0x420054
def nameValue : Nat := 0x420055
def objectGroup : Nat := 0x420056
def objectType : Nat := 0x420057
def offset : Nat := 0x420058
def opaqueDataType : Nat := 0x420059
def opaqueDataValue : Nat := 0x42005A
def opaqueObject : Nat := 0x42005B
def operation_ : Nat := 0x42005C
def operationPolicyName : Nat := 0x42005D
def p : Nat := 0x42005E
def paddingMethod : Nat := 0x42005F
def primeExponentP : Nat := 0x420060
def primeExponentQ : Nat := 0x420061
def primeFieldSize : Nat := 0x420062
def privateExponent : Nat := 0x420063
def privateKey : Nat := 0x420064
def privateKeyTemplateAttribute : Nat := 0x420065
def privateKeyUniqueIdentifier : Nat := 0x420066
def processStartDate : Nat := 0x420067
def protectStopDate : Nat := 0x420068
def protocolVersion : Nat := 0x420069
def protocolVersionMajor : Nat := 0x42006A
def protocolVersionMinor : Nat := 0x42006B
def publicExponent : Nat := 0x42006C
def publicKey : Nat := 0x42006D
def publicKeyTemplateAttribute : Nat := 0x42006E
def publicKeyUniqueIdentifier : Nat := 0x42006F
def putFunction : Nat := 0x420070
def q : Nat := 0x420071
def qString : Nat := 0x420072
def qlength : Nat := 0x420073
def queryFunction : Nat := 0x420074
def recommendedCurve : Nat := 0x420075
def replacedUniqueIdentifier : Nat := 0x420076
def requestHeader : Nat := 0x420077
def requestMessage : Nat := 0x420078
def requestPayload : Nat := 0x420079
def responseHeader : Nat := 0x42007A
def responseMessage : Nat := 0x42007B
def responsePayload : Nat := 0x42007C
def resultMessage : Nat := 0x42007D
def resultReason : Nat := 0x42007E
def resultStatus : Nat := 0x42007F
def revocationMessage : Nat := 0x420080
def revocationReason : Nat := 0x420081
def revocationReasonCode : Nat := 0x420082
def keyRoleType : Nat := 0x420083
def salt : Nat := 0x420084
def secretData : Nat := 0x420085
def secretDataType : Nat := 0x420086
def serialNumber : Nat := 0x420087
def serverInformation : Nat := 0x420088
def splitKey : Nat := 0x420089
def splitKeyMethod : Nat := 0x42008A
def splitKeyParts : Nat := 0x42008B
def splitKeyThreshold : Nat := 0x42008C
def state_ : Nat := 0x42008D
def storageStatusMask : Nat := 0x42008E
def symmetricKey : Nat := 0x42008F
def template_ : Nat := 0x420090
def templateAttribute : Nat := 0x420091
def timeStamp : Nat := 0x420092
def uniqueBatchItemId : Nat := 0x420093
def uniqueIdentifier : Nat := 0x420094
def usageLimits : Nat := 0x420095
def usageLimitsCount : Nat := 0x420096
def usageLimitsTotal : Nat := 0x420097
def usageLimitsUnit : Nat := 0x420098
def username_ : Nat := 0x420099
def validityDate : Nat := 0x42009A
def validityIndicator : Nat := 0x42009B
def vendorExtension : Nat := 0x42009C
def vendorIdentification : Nat := 0x42009D
def wrappingMethod : Nat := 0x42009E
def x : Nat := 0x42009F
def y : Nat := 0x4200A0
def password_ : Nat := 0x4200A1
def deviceIdentifier : Nat := 0x4200A2
def encodingOption : Nat := 0x4200A3
def extensionInformation : Nat := 0x4200A4
def extensionName : Nat := 0x4200A5
def extensionTag : Nat := 0x4200A6
def extensionType : Nat := 0x4200A7
def fresh_ : Nat := 0x4200A8
def machineIdentifier : Nat := 0x4200A9
def mediaIdentifier : Nat := 0x4200AA
def networkIdentifier : Nat := 0x4200AB
def objectGroupMember : Nat := 0x4200AC
def certificateLength : Nat := 0x4200AD
def digitalSignatureAlgorithm : Nat := 0x4200AE
def certificateSerialNumber : Nat := 0x4200AF
def deviceSerialNumber : Nat := 0x4200B0
def issuerAlternativeName : Nat := 0x4200B1
def issuerDistinguishedName : Nat := 0x4200B2
def subjectAlternativeName : Nat := 0x4200B3
def subjectDistinguishedName : Nat := 0x4200B4
def x509CertificateIdentifier : Nat := 0x4200B5
def x509CertificateIssuer : Nat := 0x4200B6
def x509CertificateSubject : Nat := 0x4200B7
def keyValueLocation : Nat := 0x4200B8
def keyValueLocationValue : Nat := 0x4200B9
def keyValueLocationType : Nat := 0x4200BA
def keyValuePresent : Nat := 0x4200BB
def originalCreationDate : Nat := 0x4200BC
def pgpKey : Nat := 0x4200BD
def pgpKeyVersion : Nat := 0x4200BE
def alternativeName : Nat := 0x4200BF
def alternativeNameValue : Nat := 0x4200C0
def alternativeNameType : Nat := 0x4200C1
def data_ : Nat := 0x4200C2
def signatureData : Nat := 0x4200C3
def dataLength : Nat := 0x4200C4
def randomIv : Nat := 0x4200C5
def macData : Nat := 0x4200C6
def attestationType : Nat := 0x4200C7
def nonce : Nat := 0x4200C8
def nonceId : Nat := 0x4200C9
def nonceValue : Nat := 0x4200CA
def attestationMeasurement : Nat := 0x4200CB
def attestationAssertion : Nat := 0x4200CC
def ivLength : Nat := 0x4200CD
def tagLength : Nat := 0x4200CE
def fixedFieldLength : Nat := 0x4200CF
def counterLength : Nat := 0x4200D0
def initialCounterValue : Nat := 0x4200D1
def invocationFieldLength : Nat := 0x4200D2
def attestationCapableIndicator : Nat := 0x4200D3
def offsetItems : Nat := 0x4200D4
def locatedItems : Nat := 0x4200D5
def correlationValue : Nat := 0x4200D6
def initIndicator : Nat := 0x4200D7
def finalIndicator : Nat := 0x4200D8
def rngParameters : Nat := 0x4200D9
def rngAlgorithm : Nat := 0x4200DA
def drbgAlgorithm : Nat := 0x4200DB
def fips186Variation : Nat := 0x4200DC
def predictionResistance : Nat := 0x4200DD
def randomNumberGenerator : Nat := 0x4200DE
def validationInformation : Nat := 0x4200DF
def validationAuthorityType : Nat := 0x4200E0
def validationAuthorityCountry : Nat := 0x4200E1
def validationAuthorityUri : Nat := 0x4200E2
def validationVersionMajor : Nat := 0x4200E3
def validationVersionMinor : Nat := 0x4200E4
def validationType : Nat := 0x4200E5
def validationLevel : Nat := 0x4200E6
def validationCertificateIdentifier : Nat := 0x4200E7
def validationCertificateUri : Nat := 0x4200E8
def validationVendorUri : Nat := 0x4200E9
def validationProfile : Nat := 0x4200EA
def profileInformation : Nat := 0x4200EB
def profileName : Nat := 0x4200EC
def serverUri : Nat := 0x4200ED
def serverPort : Nat := 0x4200EE
def streamingCapability : Nat := 0x4200EF
def asynchronousCapability : Nat := 0x4200F0
def attestationCapability : Nat := 0x4200F1
def unwrapMode : Nat := 0x4200F2
def destroyAction : Nat := 0x4200F3
def shreddingAlgorithm : Nat := 0x4200F4
def rngMode : Nat := 0x4200F5
def clientRegistrationMethod : Nat := 0x4200F6
def capabilityInformation : Nat := 0x4200F7
def keyWrapType : Nat := 0x4200F8
def batchUndoCapability : Nat := 0x4200F9
def batchContinueCapability : Nat := 0x4200FA
def pkcs12FriendlyName : Nat := 0x4200FB
def description_ : Nat := 0x4200FC
def comment_ : Nat := 0x4200FD
def authenticatedEncryptionAdditionalData : Nat := 0x4200FE
def authenticatedEncryptionTag : Nat := 0x4200FF
def saltLength : Nat := 0x420100
def maskGenerator : Nat := 0x420101
def maskGeneratorHashingAlgorithm : Nat := 0x420102
def pSource : Nat := 0x420103
def trailerField : Nat := 0x420104
def clientCorrelationValue : Nat := 0x420105
def serverCorrelationValue : Nat := 0x420106
def digestedData : Nat := 0x420107
def certificateSubjectCn : Nat := 0x420108
def certificateSubjectO : Nat := 0x420109
def certificateSubjectOu : Nat := 0x42010A
def certificateSubjectEmail : Nat := 0x42010B
def certificateSubjectC : Nat := 0x42010C
def certificateSubjectSt : Nat := 0x42010D
def certificateSubjectL : Nat := 0x42010E
def certificateSubjectUid : Nat := 0x42010F
def certificateSubjectSerialNumber : Nat := 0x420110
def certificateSubjectTitle : Nat := 0x420111
def certificateSubjectDc : Nat := 0x420112
def certificateSubjectDnQualifier : Nat := 0x420113
def certificateIssuerCn : Nat := 0x420114
def certificateIssuerO : Nat := 0x420115
def certificateIssuerOu : Nat := 0x420116
def certificateIssuerEmail : Nat := 0x420117
def certificateIssuerC : Nat := 0x420118
def certificateIssuerSt : Nat := 0x420119
def certificateIssuerL : Nat := 0x42011A
def certificateIssuerUid : Nat := 0x42011B
def certificateIssuerSerialNumber : Nat := 0x42011C
def certificateIssuerTitle : Nat := 0x42011D
def certificateIssuerDc : Nat := 0x42011E
def certificateIssuerDnQualifier : Nat := 0x42011F
def sensitive_ : Nat := 0x420120
def alwaysSensitive : Nat := 0x420121
def extractable_ : Nat := 0x420122
def neverExtractable : Nat := 0x420123
def replaceExisting : Nat := 0x420124
def attributes_ : Nat := 0x420125
def commonAttributes : Nat := 0x420126
def privateKeyAttributes : Nat := 0x420127
def publicKeyAttributes : Nat := 0x420128
def extensionEnumeration : Nat := 0x420129
def extensionAttribute : Nat := 0x42012A
def extensionParentStructureTag : Nat := 0x42012B
def extensionDescription : Nat := 0x42012C
def serverName : Nat := 0x42012D
def serverSerialNumber : Nat := 0x42012E
def serverVersion : Nat := 0x42012F
def serverLoad : Nat := 0x420130
def productName : Nat := 0x420131
def buildLevel : Nat := 0x420132
def buildDate : Nat := 0x420133
def clusterInfo : Nat := 0x420134
def alternateFailoverEndpoints : Nat := 0x420135
def shortUniqueIdentifier : Nat := 0x420136
def reserved : Nat := 0x420137
def tag : Nat := 0x420138
def certificateRequestUniqueIdentifier : Nat := 0x420139
def nistKeyType : Nat := 0x42013A
def attributeReference : Nat := 0x42013B
def currentAttribute : Nat := 0x42013C
def newAttribute : Nat := 0x42013D
def certificateRequestValue : Nat := 0x420140
def logMessage : Nat := 0x420141
def profileVersion : Nat := 0x420142
def profileVersionMajor : Nat := 0x420143
def profileVersionMinor : Nat := 0x420144
def protectionLevel : Nat := 0x420145
def protectionPeriod : Nat := 0x420146
def quantumSafe : Nat := 0x420147
def quantumSafeCapability : Nat := 0x420148
def ticket : Nat := 0x420149
def ticketType : Nat := 0x42014A
def ticketValue : Nat := 0x42014B
def requestCount : Nat := 0x42014C
def rights : Nat := 0x42014D
def objects : Nat := 0x42014E
def operations : Nat := 0x42014F
def right : Nat := 0x420150
def endpointRole : Nat := 0x420151
def defaultsInformation : Nat := 0x420152
def objectDefaults : Nat := 0x420153
def ephemeral : Nat := 0x420154
def serverHashedPassword : Nat := 0x420155
def oneTimePassword : Nat := 0x420156
def hashedPassword : Nat := 0x420157
def adjustmentType : Nat := 0x420158
def pkcs11Interface : Nat := 0x420159
def pkcs11Function : Nat := 0x42015A
def pkcs11InputParameters : Nat := 0x42015B
def pkcs11OutputParameters : Nat := 0x42015C
def pkcs11ReturnCode : Nat := 0x42015D
def protectionStorageMask : Nat := 0x42015E
def protectionStorageMasks : Nat := 0x42015F
def interopFunction : Nat := 0x420160
def interopIdentifier : Nat := 0x420161
def adjustmentValue : Nat := 0x420162
def commonProtectionStorageMasks : Nat := 0x420163
def privateProtectionStorageMasks : Nat := 0x420164
def publicProtectionStorageMasks : Nat := 0x420165
end T

/-- every member of `enums.Tags` (name, value) -/
def allTags : List Nat := [0x420000, 0x420001, 0x420002, 0x420003, 0x420004, 0x420005, 0x420006, 0x420007, 0x420008, 0x420009, 0x42000A, 0x42000B, 0x42000C, 0x42000D, 0x42000E, 0x42000F, 0x420010, 0x420011, 0x420012, 0x420013, 0x420014, 0x420015, 0x420016, 0x420017, 0x420018, 0x420019, 0x42001A, 0x42001B, 0x42001C, 0x42001D, 0x42001E, 0x42001F, 0x420020, 0x420021, 0x420022, 0x420023, 0x420024, 0x420025, 0x420026, 0x420027, 0x420028, 0x420029, 0x42002A, 0x42002B, 0x42002C, 0x42002D, 0x42002E, 0x42002F, 0x420030, 0x420031, 0x420032, 0x420033, 0x420034, 0x420035, 0x420036, 0x420037, 0x420038, 0x420039, 0x42003A, 0x42003B, 0x42003C, 0x42003D, 0x42003E, 0x42003F, 0x420040, 0x420041, 0x420042, 0x420043, 0x420044, 0x420045, 0x420046, 0x420047, 0x420048, 0x420049, 0x42004A, 0x42004B, 0x42004C, 0x42004D, 0x42004E, 0x42004F, 0x420050, 0x420051, 0x420052, 0x420053, 0x420054, 0x420055, 0x420056, 0x420057, 0x420058, 0x420059, 0x42005A, 0x42005B, 0x42005C, 0x42005D, 0x42005E, 0x42005F, 0x420060, 0x420061, 0x420062, 0x420063, 0x420064, 0x420065, 0x420066, 0x420067, 0x420068, 0x420069, 0x42006A, 0x42006B, 0x42006C, 0x42006D, 0x42006E, 0x42006F, 0x420070, 0x420071, 0x420072, 0x420073, 0x420074, 0x420075, 0x420076, 0x420077, 0x420078, 0x420079, 0x42007A, 0x42007B, 0x42007C, 0x42007D, 0x42007E, 0x42007F, 0x420080, 0x420081, 0x420082, 0x420083, 0x420084, 0x420085, 0x420086, 0x420087, 0x420088, 0x420089, 0x42008A, 0x42008B, 0x42008C, 0x42008D, 0x42008E, 0x42008F, 0x420090, 0x420091, 0x420092, 0x420093, 0x420094, 0x420095, 0x420096, 0x420097, 0x420098, 0x420099, 0x42009A, 0x42009B, 0x42009C, 0x42009D, 0x42009E, 0x42009F, 0x4200A0, 0x4200A1, 0x4200A2, 0x4200A3, 0x4200A4, 0x4200A5, 0x4200A6, 0x4200A7, 0x4200A8, 0x4200A9, 0x4200AA, 0x4200AB, 0x4200AC, 0x4200AD, 0x4200AE, 0x4200AF, 0x4200B0, 0x4200B1, 0x4200B2, 0x4200B3, 0x4200B4, 0x4200B5, 0x4200B6, 0x4200B7, 0x4200B8, 0x4200B9, 0x4200BA, 0x4200BB, 0x4200BC, 0x4200BD, 0x4200BE, 0x4200BF, 0x4200C0, 0x4200C1, 0x4200C2, 0x4200C3, 0x4200C4, 0x4200C5, 0x4200C6, 0x4200C7, 0x4200C8, 0x4200C9, 0x4200CA, 0x4200CB, 0x4200CC, 0x4200CD, 0x4200CE, 0x4200CF, 0x4200D0, 0x4200D1, 0x4200D2, 0x4200D3, 0x4200D4, 0x4200D5, 0x4200D6, 0x4200D7, 0x4200D8, 0x4200D9, 0x4200DA, 0x4200DB, 0x4200DC, 0x4200DD, 0x4200DE, 0x4200DF, 0x4200E0, 0x4200E1, 0x4200E2, 0x4200E3, 0x4200E4, 0x4200E5, 0x4200E6, 0x4200E7, 0x4200E8, 0x4200E9, 0x4200EA, 0x4200EB, 0x4200EC, 0x4200ED, 0x4200EE, 0x4200EF, 0x4200F0, 0x4200F1, 0x4200F2, 0x4200F3, 0x4200F4, 0x4200F5, 0x4200F6, 0x4200F7, 0x4200F8, 0x4200F9, 0x4200FA, 0x4200FB, 0x4200FC, 0x4200FD, 0x4200FE, 0x4200FF, 0x420100, 0x420101, 0x420102, 0x420103, 0x420104, 0x420105, 0x420106, 0x420107, 0x420108, 0x420109, 0x42010A, 0x42010B, 0x42010C, 0x42010D, 0x42010E, 0x42010F, 0x420110, 0x420111, 0x420112, 0x420113, 0x420114, 0x420115, 0x420116, 0x420117, 0x420118, 0x420119, 0x42011A, 0x42011B, 0x42011C, 0x42011D, 0x42011E, 0x42011F, 0x420120, 0x420121, 0x420122, 0x420123, 0x420124, 0x420125, 0x420126, 0x420127, 0x420128, 0x420129, 0x42012A, 0x42012B, 0x42012C, 0x42012D, 0x42012E, 0x42012F, 0x420130, 0x420131, 0x420132, 0x420133, 0x420134, 0x420135, 0x420136, 0x420137, 0x420138, 0x420139, 0x42013A, 0x42013B, 0x42013C, 0x42013D, 0x420140, 0x420141, 0x420142, 0x420143, 0x420144, 0x420145, 0x420146, 0x420147, 0x420148, 0x420149, 0x42014A, 0x42014B, 0x42014C, 0x42014D, 0x42014E, 0x42014F, 0x420150, 0x420151, 0x420152, 0x420153, 0x420154, 0x420155, 0x420156, 0x420157, 0x420158, 0x420159, 0x42015A, 0x42015B, 0x42015C, 0x42015D, 0x42015E, 0x42015F, 0x420160, 0x420161, 0x420162, 0x420163, 0x420164, 0x420165]

namespace E
def operation : List Nat := [1, 2, 3, 4, 5, 6, 7, 8, 9, 10, 11, 12, 13, 14, 15, 16, 17, 18, 19, 20, 21, 22, 23, 24, 25, 26, 27, 28, 29, 30, 31, 32, 33, 34, 35, 36, 37, 38, 39, 40, 41, 42, 43, 44, 45, 46, 47, 48, 49, 50, 51, 52, 53]
def objectType : List Nat := [1, 2, 3, 4, 5, 6, 7, 8, 9, 10]
def cryptographicAlgorithm : List Nat := [1, 2, 3, 4, 5, 6, 7, 8, 9, 10, 11, 12, 13, 14, 15, 16, 17, 18, 19, 20, 21, 22, 23, 24, 25, 26, 27, 28, 29, 30, 31, 32, 33, 34, 35, 36, 37, 38, 39, 40, 41, 42, 43, 44, 45, 46, 47, 48, 49, 50, 51, 52, 53, 54, 55, 56]
def certificateType : List Nat := [1, 2]
def state : List Nat := [1, 2, 3, 4, 5, 6]
def nameType : List Nat := [1, 2]
def hashingAlgorithm : List Nat := [1, 2, 3, 4, 5, 6, 7, 8, 9, 10, 11, 12, 13, 14, 15, 16, 17]
def keyFormatType : List Nat := [1, 2, 3, 4, 5, 6, 7, 8, 9, 10, 11, 12, 13, 14, 15, 16, 17, 18, 19, 20, 21, 22]
def blockCipherMode : List Nat := [1, 2, 3, 4, 5, 6, 7, 8, 9, 10, 11, 12, 13, 14, 15, 16, 17, 18]
def paddingMethod : List Nat := [1, 2, 3, 4, 5, 6, 7, 8, 9, 10]
def keyRoleType : List Nat := [1, 2, 3, 4, 5, 6, 7, 8, 9, 10, 11, 12, 13, 14, 15, 16, 17, 18, 19, 20, 21, 22, 23, 24]
def digitalSignatureAlgorithm : List Nat := [1, 2, 3, 4, 5, 6, 7, 8, 9, 10, 11, 12, 13, 14, 15, 16, 17, 18, 19]
def keyCompressionType : List Nat := [1, 2, 3, 4]
def wrappingMethod : List Nat := [1, 2, 3, 4, 5]
def encodingOption : List Nat := [1, 2]
def credentialType : List Nat := [1, 2, 3, 4, 5, 6]
def attestationType : List Nat := [1, 2, 3]
def secretDataType : List Nat := [1, 2]
def opaqueDataType : List Nat := [2147483648]
def splitKeyMethod : List Nat := [1, 2, 3, 4]
def derivationMethod : List Nat := [1, 2, 3, 4, 5, 6, 7, 8, 9, 10]
def queryFunction : List Nat := [1, 2, 3, 4, 5, 6, 7, 8, 9, 10, 11, 12, 13, 14]
def revocationReasonCode : List Nat := [1, 2, 3, 4, 5, 6, 7]
def batchErrorContinuationOption : List Nat := [1, 2, 3]
def objectGroupMember : List Nat := [1, 2]
end E

/-- the table above by class name (for the pin check) -/
def enumTable : List (String × List Nat) := [("Operation", E.operation), ("ObjectType", E.objectType), ("CryptographicAlgorithm", E.cryptographicAlgorithm), ("CertificateType", E.certificateType), ("State", E.state), ("NameType", E.nameType), ("HashingAlgorithm", E.hashingAlgorithm), ("KeyFormatType", E.keyFormatType), ("BlockCipherMode", E.blockCipherMode), ("PaddingMethod", E.paddingMethod), ("KeyRoleType", E.keyRoleType), ("DigitalSignatureAlgorithm", E.digitalSignatureAlgorithm), ("KeyCompressionType", E.keyCompressionType), ("WrappingMethod", E.wrappingMethod), ("EncodingOption", E.encodingOption), ("CredentialType", E.credentialType), ("AttestationType", E.attestationType), ("SecretDataType", E.secretDataType), ("OpaqueDataType", E.opaqueDataType), ("SplitKeyMethod", E.splitKeyMethod), ("DerivationMethod", E.derivationMethod), ("QueryFunction", E.queryFunction), ("RevocationReasonCode", E.revocationReasonCode), ("BatchErrorContinuationOption", E.batchErrorContinuationOption), ("ObjectGroupMember", E.objectGroupMember)]

/-- `enums.AttributeType`: member name, value (the attribute's name on the wire), tag of the same member name in `enums.Tags` -/
def attributeTypes : List (String × String × Nat) := [
  ("UNIQUE_IDENTIFIER", "Unique Identifier", 0x420094),
  ("NAME", "Name", 0x420053),
  ("OBJECT_TYPE", "Object Type", 0x420057),
  ("CRYPTOGRAPHIC_ALGORITHM", "Cryptographic Algorithm", 0x420028),
  ("CRYPTOGRAPHIC_LENGTH", "Cryptographic Length", 0x42002A),
  ("CRYPTOGRAPHIC_PARAMETERS", "Cryptographic Parameters", 0x42002B),
  ("CRYPTOGRAPHIC_DOMAIN_PARAMETERS", "Cryptographic Domain Parameters", 0x420029),
  ("CERTIFICATE_TYPE", "Certificate Type", 0x42001D),
  ("CERTIFICATE_LENGTH", "Certificate Length", 0x4200AD),
  ("X_509_CERTIFICATE_IDENTIFIER", "X.509 Certificate Identifier", 0x4200B5),
  ("X_509_CERTIFICATE_SUBJECT", "X.509 Certificate Subject", 0x4200B7),
  ("X_509_CERTIFICATE_ISSUER", "X.509 Certificate Issuer", 0x4200B6),
  ("CERTIFICATE_IDENTIFIER", "Certificate Identifier", 0x420014),
  ("CERTIFICATE_SUBJECT", "Certificate Subject", 0x42001A),
  ("CERTIFICATE_ISSUER", "Certificate Issuer", 0x420015),
  ("DIGITAL_SIGNATURE_ALGORITHM", "Digital Signature Algorithm", 0x4200AE),
  ("DIGEST", "Digest", 0x420034),
  ("OPERATION_POLICY_NAME", "Operation Policy Name", 0x42005D),
  ("CRYPTOGRAPHIC_USAGE_MASK", "Cryptographic Usage Mask", 0x42002C),
  ("LEASE_TIME", "Lease Time", 0x420049),
  ("USAGE_LIMITS", "Usage Limits", 0x420095),
  ("STATE", "State", 0x42008D),
  ("INITIAL_DATE", "Initial Date", 0x420039),
  ("ACTIVATION_DATE", "Activation Date", 0x420001),
  ("PROCESS_START_DATE", "Process Start Date", 0x420067),
  ("PROTECT_STOP_DATE", "Protect Stop Date", 0x420068),
  ("DEACTIVATION_DATE", "Deactivation Date", 0x42002F),
  ("DESTROY_DATE", "Destroy Date", 0x420033),
  ("COMPROMISE_OCCURRENCE_DATE", "Compromise Occurrence Date", 0x420021),
  ("COMPROMISE_DATE", "Compromise Date", 0x420020),
  ("REVOCATION_REASON", "Revocation Reason", 0x420081),
  ("ARCHIVE_DATE", "Archive Date", 0x420005),
  ("OBJECT_GROUP", "Object Group", 0x420056),
  ("FRESH", "Fresh", 0x4200A8),
  ("LINK", "Link", 0x42004A),
  ("APPLICATION_SPECIFIC_INFORMATION", "Application Specific Information", 0x420004),
  ("CONTACT_INFORMATION", "Contact Information", 0x420022),
  ("LAST_CHANGE_DATE", "Last Change Date", 0x420048),
  ("CUSTOM_ATTRIBUTE", "Custom Attribute", 0x42002D),
  ("ALTERNATIVE_NAME", "Alternative Name", 0x4200BF),
  ("KEY_VALUE_PRESENT", "Key Value Present", 0x4200BB),
  ("KEY_VALUE_LOCATION", "Key Value Location", 0x4200B8),
  ("ORIGINAL_CREATION_DATE", "Original Creation Date", 0x4200BC),
  ("SENSITIVE", "Sensitive", 0x420120),
  ("ALWAYS_SENSITIVE", "Always Sensitive", 0x420121),
  ("EXTRACTABLE", "Extractable", 0x420122),
  ("NEVER_EXTRACTABLE", "Never Extractable", 0x420123)]

/-- `enums.attribute_name_tag_table` (attribute name on the wire, tag) -/
def attributeNameTags : List (String × Nat) := [
  ("Activation Date", 0x420001),
  ("Alternative Name", 0x4200BF),
  ("Always Sensitive", 0x420121),
  ("Application Specific Information", 0x420004),
  ("Archive Date", 0x420005),
  ("Attribute", 0x420008),
  ("Certificate Identifier", 0x420014),
  ("Certificate Issuer", 0x420015),
  ("Certificate Issuer C", 0x420118),
  ("Certificate Issuer CN", 0x420114),
  ("Certificate Issuer DC", 0x42011E),
  ("Certificate Issuer DN Qualifier", 0x42011F),
  ("Certificate Issuer Email", 0x420117),
  ("Certificate Issuer L", 0x42011A),
  ("Certificate Issuer O", 0x420115),
  ("Certificate Issuer OU", 0x420116),
  ("Certificate Issuer Serial Number", 0x42011C),
  ("Certificate Issuer ST", 0x420119),
  ("Certificate Issuer Title", 0x42011D),
  ("Certificate Issuer UID", 0x42011B),
  ("Certificate Length", 0x4200AD),
  ("Certificate Subject", 0x42001A),
  ("Certificate Subject C", 0x42010C),
  ("Certificate Subject CN", 0x420108),
  ("Certificate Subject DC", 0x420112),
  ("Certificate Subject DN Qualifier", 0x420113),
  ("Certificate Subject Email", 0x42010B),
  ("Certificate Subject L", 0x42010E),
  ("Certificate Subject O", 0x420109),
  ("Certificate Subject OU", 0x42010A),
  ("Certificate Subject Serial Number", 0x420110),
  ("Certificate Subject ST", 0x42010D),
  ("Certificate Subject Title", 0x420111),
  ("Certificate Subject UID", 0x42010F),
  ("Certificate Type", 0x42001D),
  ("Comment", 0x4200FD),
  ("Compromise Date", 0x420020),
  ("Compromise Occurrence Date", 0x420021),
  ("Contact Information", 0x420022),
  ("Cryptographic Algorithm", 0x420028),
  ("Cryptographic Domain Parameters", 0x420029),
  ("Cryptographic Length", 0x42002A),
  ("Cryptographic Parameters", 0x42002B),
  ("Cryptographic Usage Mask", 0x42002C),
  ("Custom Attribute", 0x42002D),
  ("Deactivation Date", 0x42002F),
  ("Description", 0x4200FC),
  ("Destroy Date", 0x420033),
  ("Digest", 0x420034),
  ("Digital Signature Algorithm", 0x4200AE),
  ("Extractable", 0x420122),
  ("Fresh", 0x4200A8),
  ("Initial Date", 0x420039),
  ("Key Format Type", 0x420042),
  ("Key Value Location", 0x4200B8),
  ("Key Value Present", 0x4200BB),
  ("Last Change Date", 0x420048),
  ("Lease Time", 0x420049),
  ("Link", 0x42004A),
  ("Name", 0x420053),
  ("Never Extractable", 0x420123),
  ("NIST Key Type", 0x42013A),
  ("Object Group", 0x420056),
  ("Object Type", 0x420057),
  ("Opaque Data Type", 0x420059),
  ("Operation Policy Name", 0x42005D),
  ("Original Creation Date", 0x4200BC),
  ("PKCS#12 Friendly Name", 0x4200FB),
  ("Process Start Date", 0x420067),
  ("Protect Stop Date", 0x420068),
  ("Protection Level", 0x420145),
  ("Protection Period", 0x420146),
  ("Protection Storage Mask", 0x42015E),
  ("Quantum Safe", 0x420147),
  ("Random Number Generator", 0x4200DE),
  ("Revocation Reason", 0x420081),
  ("Sensitive", 0x420120),
  ("Short Unique Identifier", 0x420136),
  ("State", 0x42008D),
  ("Unique Identifier", 0x420094),
  ("Usage Limits", 0x420095),
  ("X.509 Certificate Identifier", 0x4200B5),
  ("X.509 Certificate Issuer", 0x4200B6),
  ("X.509 Certificate Subject", 0x4200B7)]

/-- `enums.is_attribute(tag, kmip_version)`: tags accepted per version -/
def attributeTags : List (Nat × List Nat) := [
  (10, [0x420001, 0x420004, 0x420005, 0x420014, 0x420015, 0x42001A, 0x42001D, 0x420020, 0x420021, 0x420022, 0x420028, 0x420029, 0x42002A, 0x42002B, 0x42002C, 0x42002D, 0x42002F, 0x420033, 0x420034, 0x420039, 0x420048, 0x420049, 0x42004A, 0x420053, 0x420056, 0x420057, 0x42005D, 0x420067, 0x420068, 0x420081, 0x42008D, 0x420094, 0x420095]),
  (11, [0x420001, 0x420004, 0x420005, 0x420014, 0x420015, 0x42001A, 0x42001D, 0x420020, 0x420021, 0x420022, 0x420028, 0x420029, 0x42002A, 0x42002B, 0x42002C, 0x42002D, 0x42002F, 0x420033, 0x420034, 0x420039, 0x420048, 0x420049, 0x42004A, 0x420053, 0x420056, 0x420057, 0x42005D, 0x420067, 0x420068, 0x420081, 0x42008D, 0x420094, 0x420095, 0x4200A8, 0x4200AD, 0x4200AE, 0x4200B5, 0x4200B6, 0x4200B7]),
  (12, [0x420001, 0x420004, 0x420005, 0x420014, 0x420015, 0x42001A, 0x42001D, 0x420020, 0x420021, 0x420022, 0x420028, 0x420029, 0x42002A, 0x42002B, 0x42002C, 0x42002D, 0x42002F, 0x420033, 0x420034, 0x420039, 0x420048, 0x420049, 0x42004A, 0x420053, 0x420056, 0x420057, 0x42005D, 0x420067, 0x420068, 0x420081, 0x42008D, 0x420094, 0x420095, 0x4200A8, 0x4200AD, 0x4200AE, 0x4200B5, 0x4200B6, 0x4200B7, 0x4200B8, 0x4200BB, 0x4200BC, 0x4200BF]),
  (13, [0x420001, 0x420004, 0x420005, 0x420014, 0x420015, 0x42001A, 0x42001D, 0x420020, 0x420021, 0x420022, 0x420028, 0x420029, 0x42002A, 0x42002B, 0x42002C, 0x42002D, 0x42002F, 0x420033, 0x420034, 0x420039, 0x420048, 0x420049, 0x42004A, 0x420053, 0x420056, 0x420057, 0x42005D, 0x420067, 0x420068, 0x420081, 0x42008D, 0x420094, 0x420095, 0x4200A8, 0x4200AD, 0x4200AE, 0x4200B5, 0x4200B6, 0x4200B7, 0x4200B8, 0x4200BB, 0x4200BC, 0x4200BF, 0x4200DE]),
  (14, [0x420001, 0x420004, 0x420005, 0x420014, 0x420015, 0x42001A, 0x42001D, 0x420020, 0x420021, 0x420022, 0x420028, 0x420029, 0x42002A, 0x42002B, 0x42002C, 0x42002D, 0x42002F, 0x420033, 0x420034, 0x420039, 0x420048, 0x420049, 0x42004A, 0x420053, 0x420056, 0x420057, 0x42005D, 0x420067, 0x420068, 0x420081, 0x42008D, 0x420094, 0x420095, 0x4200A8, 0x4200AD, 0x4200AE, 0x4200B5, 0x4200B6, 0x4200B7, 0x4200B8, 0x4200BB, 0x4200BC, 0x4200BF, 0x4200DE, 0x4200FB, 0x4200FC, 0x4200FD, 0x420120, 0x420121, 0x420122, 0x420123]),
  (20, [0x420001, 0x420004, 0x420005, 0x420008, 0x42001D, 0x420020, 0x420021, 0x420022, 0x420028, 0x420029, 0x42002A, 0x42002B, 0x42002C, 0x42002F, 0x420033, 0x420034, 0x420039, 0x420042, 0x420048, 0x420049, 0x42004A, 0x420053, 0x420056, 0x420057, 0x420059, 0x420067, 0x420068, 0x420081, 0x42008D, 0x420094, 0x420095, 0x4200A8, 0x4200AD, 0x4200AE, 0x4200B5, 0x4200B6, 0x4200B7, 0x4200B8, 0x4200BB, 0x4200BC, 0x4200BF, 0x4200DE, 0x4200FB, 0x4200FC, 0x4200FD, 0x420108, 0x420109, 0x42010A, 0x42010B, 0x42010C, 0x42010D, 0x42010E, 0x42010F, 0x420110, 0x420111, 0x420112, 0x420113, 0x420114, 0x420115, 0x420116, 0x420117, 0x420118, 0x420119, 0x42011A, 0x42011B, 0x42011C, 0x42011D, 0x42011E, 0x42011F, 0x420120, 0x420121, 0x420122, 0x420123, 0x420136, 0x42013A, 0x420145, 0x420146, 0x420147, 0x42015E])]

end Kmip.Decode
