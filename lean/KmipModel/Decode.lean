/-
M14 — REQUEST DECODING: from the TTLV tree of a request frame to the engine model's `Request`.

Transcribed from the `read()` methods of /repo as they are:
  kmip/core/messages/messages.py   RequestMessage l.475-492, RequestHeader l.55-110, RequestBatchItem l.296-332
  kmip/core/messages/contents.py   ProtocolVersion.read l.101-144, protocol_version_to_kmip_version l.252-287,
                                   Authentication.read l.363-391, MessageExtension (no read of its own)
  kmip/core/messages/payloads/*.py the request payloads of the 21 dispatched operations, 1.x and 2.0 forms
  kmip/core/objects.py             Attribute, CurrentAttribute, NewAttribute, AttributeReference, Attributes,
                                   TemplateAttribute, Credential (+ the three credential values, Nonce), KeyBlock,
                                   KeyValue, KeyWrappingData, KeyWrappingSpecification, EncryptionKeyInformation,
                                   MACSignatureKeyInformation, RevocationReason, ProtectionStorageMasks
  kmip/core/attributes.py          Name, CryptographicParameters, Digest, ApplicationSpecificInformation,
                                   DerivationParameters
  kmip/core/secrets.py             Certificate, KeyBlockKey (Symmetric/Public/PrivateKey), SplitKey, Template,
                                   SecretData, OpaqueObject;  factories/secrets.py (object type -> class)
  kmip/core/factories/attribute_values.py   which value class an attribute NAME (1.x) / TAG (2.0) gets
  kmip/core/factories/payloads/{__init__,request}.py   which operations have a request payload class

Every Struct reader of /repo has the same shape: header (tag must be the class's, type Structure), body =
`istream.read(length)`, then its fields left to right — unconditional reads, `if is_tag_next(t): read`,
`while is_tag_next(t): read`, `if is_tag_next(t): read else: raise` — and finally (most classes) `is_oversized`.
On the tree (`DecodeBytes.lparseList`) this is a reader monad `Rd` over the list of children with the four
combinators `req` / `opt` / `many` / `done`; a class that does not call `is_oversized` simply has no `done`.
The two kinds of mandatory read differ only in the exception raised, which is not observed.

The abstraction target is the engine model's `Request` (Engine/Types.lean): fields the engine model ignores are
read (they can make the request undecodable) and dropped.  `crypto` of a decoded item is `.internal` (= unset,
as `Wire.pCrypto null`): the decoder knows nothing about the backend.

`.unmodelled` (never a default) is returned for: attribute names with non-ASCII characters (Python's `upper()`
maps some of them into ASCII letters: "ﬆate".upper() == "STATE"), Rekey / RekeyKeyPair / Check (payload classes
exist, the engine does not dispatch them), values the engine model's types cannot hold (negative Maximum Response
Size, negative key-block length or version numbers, a batch item ID that is not UTF-8).
-/
import KmipModel.DecodeBytes
import KmipModel.DecodeTables
import KmipModel.Engine.Types
namespace Kmip.Decode
open Kmip.TTLV (PVal Bytes)
open Kmip

abbrev TItem := Kmip.TTLV.Item

inductive DErr where
  /-- an item is there but is not what the reader wants (wrong type, junk, bad primitive, structure content) -/
  | malformed (what : String)
  /-- a mandatory field is absent (wrong tag next or end of the structure) -/
  | missing (what : String)
  /-- an Enumeration whose value is not a member of the class the reader instantiates -/
  | badEnum (what : String)
  /-- the attribute value factory raises NotImplementedError / returns None / the tag is no attribute of the version -/
  | unsupportedAttribute (name : String)
  /-- StreamNotEmptyError from `is_oversized` -/
  | trailing (what : String)
  /-- VersionNotSupported, or a comparison with the version `None` of an unknown protocol version (TypeError) -/
  | version (what : String)
  /-- the request payload factory has no class for the operation -/
  | unsupportedOperation (op : Nat)
  | unmodelled (what : String)
  deriving Repr, DecidableEq

def DErr.cls : DErr → String
  | .malformed _ => "malformed"
  | .missing _ => "missing"
  | .badEnum _ => "bad-enum"
  | .unsupportedAttribute _ => "unsupported-attribute"
  | .trailing _ => "trailing"
  | .version _ => "version"
  | .unsupportedOperation _ => "unsupported-operation"
  | .unmodelled _ => "unmodelled"

def DErr.detail : DErr → String
  | .malformed s | .missing s | .badEnum s | .unsupportedAttribute s | .trailing s | .version s | .unmodelled s => s
  | .unsupportedOperation n => toString n

abbrev D := Except DErr

/-! ### text -/

/-- code points of a byte string that satisfies `Prim.validUtf8` (the lenient parser checked that) -/
def utf8Chars : Bytes → List Char
  | [] => []
  | b0 :: rest =>
    if b0 < 0x80 then Char.ofNat b0.toNat :: utf8Chars rest
    else if b0 < 0xE0 then
      (match rest with
       | b1 :: r => Char.ofNat ((b0.toNat % 32) * 64 + b1.toNat % 64) :: utf8Chars r
       | _ => [])
    else if b0 < 0xF0 then
      (match rest with
       | b1 :: b2 :: r => Char.ofNat (((b0.toNat % 16) * 64 + b1.toNat % 64) * 64 + b2.toNat % 64) :: utf8Chars r
       | _ => [])
    else
      (match rest with
       | b1 :: b2 :: b3 :: r =>
         Char.ofNat ((((b0.toNat % 8) * 64 + b1.toNat % 64) * 64 + b2.toNat % 64) * 64 + b3.toNat % 64) :: utf8Chars r
       | _ => [])

def textOf (bs : Bytes) : String := String.ofList (utf8Chars bs)

def hexChar (n : Nat) : Char := if n < 10 then Char.ofNat (48 + n) else Char.ofNat (87 + n)
/-- `bytes.hex()` -/
def hexOf (bs : Bytes) : String :=
  String.ofList (bs.foldr (fun b acc => hexChar (b.toNat / 16) :: hexChar (b.toNat % 16) :: acc) [])

/-! ### items -/

def tagOf : TItem → Nat
  | .prim t _ => t
  | .struct t _ => t

def asInt (what : String) : TItem → D Int
  | .prim _ (.integer v) => .ok v
  | _ => .error (.malformed what)
def asBig (what : String) : TItem → D Int
  | .prim _ (.bigInteger v (_ + 1)) => .ok v
  | _ => .error (.malformed what)
def asBool (what : String) : TItem → D Bool
  | .prim _ (.boolean v) => .ok v
  | _ => .error (.malformed what)
def asText (what : String) : TItem → D String
  | .prim _ (.textString v) => .ok (textOf v)
  | _ => .error (.malformed what)
def asBytes (what : String) : TItem → D Bytes
  | .prim _ (.byteString v) => .ok v
  | _ => .error (.malformed what)
def asDate (what : String) : TItem → D Int
  | .prim _ (.dateTime v) => .ok v
  | _ => .error (.malformed what)
def asInterval (what : String) : TItem → D Nat
  | .prim _ (.interval v) => .ok v
  | _ => .error (.malformed what)
/-- `Enumeration(E, tag).read`: `self.enum(value)` raises for a value that is no member -/
def asEnum (what : String) (members : List Nat) : TItem → D Nat
  | .prim _ (.enumeration v) => if members.contains v then .ok v else .error (.badEnum what)
  | _ => .error (.malformed what)

/-! ### the reader monad over the children of a structure -/

def Rd (α : Type) := List TItem → D (α × List TItem)

instance : Monad Rd where
  pure a := fun s => .ok (a, s)
  bind m f := fun s => match m s with
    | .ok (a, s') => f a s'
    | .error e => .error e

def Rd.run {α} (m : Rd α) (s : List TItem) : D (α × List TItem) := m s

def Rd.fail {α} (e : DErr) : Rd α := fun _ => .error e
def Rd.lift {α} (x : D α) : Rd α := fun s => match x with | .ok a => .ok (a, s) | .error e => .error e

/-- mandatory read (`x.read(stream)` or `if is_tag_next(t) … else raise`) -/
def req {α} (what : String) (t : Nat) (f : TItem → D α) : Rd α := fun s =>
  match s with
  | i :: rest => if tagOf i == t then (match f i with | .ok a => .ok (a, rest) | .error e => .error e) else .error (.missing what)
  | [] => .error (.missing what)

/-- `if self.is_tag_next(t, stream): read` -/
def opt {α} (t : Nat) (f : TItem → D α) : Rd (Option α) := fun s =>
  match s with
  | i :: rest => if tagOf i == t then (match f i with | .ok a => .ok (some a, rest) | .error e => .error e) else .ok (none, s)
  | [] => .ok (none, [])

/-- `while self.is_tag_next(t, stream): read` -/
def many {α} (t : Nat) (f : TItem → D α) : Rd (List α)
  | [] => .ok ([], [])
  | i :: rest =>
    if tagOf i == t then
      match f i with
      | .error e => .error e
      | .ok a => (match many t f rest with | .ok (as, r) => .ok (a :: as, r) | .error e => .error e)
    else .ok ([], i :: rest)

/-- `self.is_oversized(stream)` -/
def done (what : String) : Rd Unit := fun s => if s.isEmpty then .ok ((), []) else .error (.trailing what)

/-- a Struct subclass: type Structure (the tag was matched by the caller), body read by `body` -/
def inStruct {α} (what : String) (body : Rd α) : TItem → D α
  | .struct _ kids => (match body.run kids with | .ok (a, _) => .ok a | .error e => .error e)
  | .prim _ _ => .error (.malformed what)

/-- `[f(x) for x in l]` where `f` may raise -/
def mapD {α β} (f : α → D β) : List α → D (List β)
  | [] => .ok []
  | a :: as =>
    match f a with
    | .error e => .error e
    | .ok b => (match mapD f as with | .ok bs => .ok (b :: bs) | .error e => .error e)

def uidField : Rd (Option String) := opt T.uniqueIdentifier (asText "unique identifier")

/-! ### attribute values (factories/attribute_values.py, attributes.py) -/

/-- the value class an attribute gets -/
inductive VSpec where
  | text | int | interval | bool | date
  | enum (members : List Nat)
  | name | appInfo | cryptoParams | digest
  /-- the factory raises NotImplementedError -/
  | notImplemented
  deriving Repr, DecidableEq

/-- attributes.py CryptographicParameters.read l.582-675; only the algorithm is kept (MAC) -/
def cryptoParamsBody : Rd (Option Nat) := do
  let _ ← opt T.blockCipherMode (asEnum "block cipher mode" E.blockCipherMode)
  let _ ← opt T.paddingMethod (asEnum "padding method" E.paddingMethod)
  let _ ← opt T.hashingAlgorithm (asEnum "hashing algorithm" E.hashingAlgorithm)
  let _ ← opt T.keyRoleType (asEnum "key role type" E.keyRoleType)
  let _ ← opt T.digitalSignatureAlgorithm (asEnum "digital signature algorithm" E.digitalSignatureAlgorithm)
  let alg ← opt T.cryptographicAlgorithm (asEnum "cryptographic algorithm" E.cryptographicAlgorithm)
  let _ ← opt T.randomIv (asBool "random iv")
  let _ ← opt T.ivLength (asInt "iv length")
  let _ ← opt T.tagLength (asInt "tag length")
  let _ ← opt T.fixedFieldLength (asInt "fixed field length")
  let _ ← opt T.invocationFieldLength (asInt "invocation field length")
  let _ ← opt T.counterLength (asInt "counter length")
  let _ ← opt T.initialCounterValue (asInt "initial counter value")
  done "CryptographicParameters"
  pure alg

def cryptoParams : TItem → D (Option Nat) := inStruct "CryptographicParameters" cryptoParamsBody

/-- attributes.py Name.read l.114-124 -/
def nameBody : Rd AVal := do
  let v ← req "name value" T.nameValue (asText "name value")
  let t ← req "name type" T.nameType (asEnum "name type" E.nameType)
  done "Name"
  pure (.name v t)

/-- attributes.py ApplicationSpecificInformation.read l.1141-1187 -/
def appInfoBody : Rd AVal := do
  let ns ← req "application namespace" T.applicationNamespace (asText "application namespace")
  let d ← req "application data" T.applicationData (asText "application data")
  done "ApplicationSpecificInformation"
  pure (.appInfo ns d)

/-- attributes.py Digest.read l.902-922 -/
def digestBody : Rd AVal := do
  let _ ← req "hashing algorithm" T.hashingAlgorithm (asEnum "hashing algorithm" E.hashingAlgorithm)
  let _ ← req "digest value" T.digestValue (asBytes "digest value")
  let _ ← req "key format type" T.keyFormatType (asEnum "key format type" E.keyFormatType)
  done "Digest"
  pure .other

/-- `value.read(stream)` for the value object the factory returned; the result is `impl_engine.aval_of` of it -/
def readValue (what : String) : VSpec → TItem → D AVal
  | .text, i => (asText what i).map .text
  | .int, i => (asInt what i).map .int
  | .interval, i => (asInterval what i).map (fun n => .int n)
  | .bool, i => (asBool what i).map .bool
  | .date, i => (asDate what i).map .date
  | .enum ms, i => (asEnum what ms i).map .enum
  | .name, i => inStruct what nameBody i
  | .appInfo, i => inStruct what appInfoBody i
  | .cryptoParams, i => (cryptoParams i).map (fun _ => .other)
  | .digest, i => inStruct what digestBody i
  | .notImplemented, _ => .error (.unsupportedAttribute what)

/-- `AttributeValueFactory.create_attribute_value` l.24-128, keyed by the member name of `enums.AttributeType`;
members not listed fall into the final `else` and raise ValueError (the name is an enum, not a str) -/
def valueByName : List (String × VSpec) :=
  [("UNIQUE_IDENTIFIER", .text), ("NAME", .name), ("OBJECT_TYPE", .enum E.objectType),
   ("CRYPTOGRAPHIC_ALGORITHM", .enum E.cryptographicAlgorithm), ("CRYPTOGRAPHIC_LENGTH", .int),
   ("CRYPTOGRAPHIC_PARAMETERS", .cryptoParams), ("CRYPTOGRAPHIC_DOMAIN_PARAMETERS", .notImplemented),
   ("CERTIFICATE_TYPE", .enum E.certificateType), ("CERTIFICATE_LENGTH", .int),
   ("X_509_CERTIFICATE_IDENTIFIER", .notImplemented), ("X_509_CERTIFICATE_SUBJECT", .notImplemented),
   ("X_509_CERTIFICATE_ISSUER", .notImplemented), ("CERTIFICATE_IDENTIFIER", .notImplemented),
   ("CERTIFICATE_SUBJECT", .notImplemented), ("CERTIFICATE_ISSUER", .notImplemented),
   ("DIGITAL_SIGNATURE_ALGORITHM", .notImplemented), ("DIGEST", .digest), ("OPERATION_POLICY_NAME", .text),
   ("CRYPTOGRAPHIC_USAGE_MASK", .int), ("LEASE_TIME", .interval), ("USAGE_LIMITS", .notImplemented),
   ("STATE", .enum E.state), ("INITIAL_DATE", .date), ("ACTIVATION_DATE", .date), ("PROCESS_START_DATE", .date),
   ("PROTECT_STOP_DATE", .date), ("DEACTIVATION_DATE", .date), ("DESTROY_DATE", .date),
   ("COMPROMISE_OCCURRENCE_DATE", .date), ("COMPROMISE_DATE", .date), ("REVOCATION_REASON", .notImplemented),
   ("ARCHIVE_DATE", .date), ("OBJECT_GROUP", .text), ("FRESH", .bool), ("LINK", .notImplemented),
   ("APPLICATION_SPECIFIC_INFORMATION", .appInfo), ("CONTACT_INFORMATION", .text), ("LAST_CHANGE_DATE", .date),
   ("SENSITIVE", .bool), ("ALWAYS_SENSITIVE", .bool), ("EXTRACTABLE", .bool), ("NEVER_EXTRACTABLE", .bool),
   ("CUSTOM_ATTRIBUTE", .text), ("ORIGINAL_CREATION_DATE", .date)]

/-- `create_attribute_value_by_enum` l.130-224, keyed by tag.  Custom Attribute is listed by the factory but its
value object keeps the tag Attribute Value, so reading an item tagged Custom Attribute always fails: not listed. -/
def valueByTag : List (Nat × VSpec) :=
  [(T.uniqueIdentifier, .text), (T.name_, .name), (T.objectType, .enum E.objectType),
   (T.cryptographicAlgorithm, .enum E.cryptographicAlgorithm), (T.cryptographicLength, .int),
   (T.cryptographicParameters, .cryptoParams), (T.cryptographicDomainParameters, .notImplemented),
   (T.certificateType, .enum E.certificateType), (T.certificateLength, .int),
   (T.x509CertificateIdentifier, .notImplemented), (T.x509CertificateSubject, .notImplemented),
   (T.x509CertificateIssuer, .notImplemented), (T.certificateIdentifier, .notImplemented),
   (T.certificateSubject, .notImplemented), (T.certificateIssuer, .notImplemented),
   (T.digitalSignatureAlgorithm, .notImplemented), (T.digest_, .digest), (T.operationPolicyName, .text),
   (T.cryptographicUsageMask, .int), (T.leaseTime, .interval), (T.usageLimits, .notImplemented),
   (T.state_, .enum E.state), (T.initialDate, .date), (T.activationDate, .date), (T.processStartDate, .date),
   (T.protectStopDate, .date), (T.deactivationDate, .date), (T.destroyDate, .date),
   (T.compromiseOccurrenceDate, .date), (T.compromiseDate, .date), (T.revocationReason, .notImplemented),
   (T.archiveDate, .date), (T.objectGroup, .text), (T.fresh_, .bool), (T.link_, .notImplemented),
   (T.applicationSpecificInformation, .appInfo), (T.contactInformation, .text), (T.lastChangeDate, .date),
   (T.sensitive_, .bool)]

def normChar (c : Char) : Char := if c = '.' ∨ c = ' ' then '_' else c.toUpper
/-- `name.replace('.', '_').replace(' ', '_').upper()` for an ASCII name (objects.py l.106) -/
def normName (s : String) : String := String.ofList (s.toList.map normChar)

def isAscii (s : String) : Bool := s.toList.all (fun c => c.toNat < 128)

/-- `name.startswith('x-')` -/
def isCustomName (s : String) : Bool :=
  match s.toList with
  | 'x' :: '-' :: _ => true
  | _ => false

/-- the `enum_type` look-up of Attribute.read followed by the factory (objects.py l.104-118) -/
def specOfName (name : String) : D VSpec :=
  if !isAscii name then .error (.unmodelled "non-ASCII attribute name") else
  match valueByName.lookup (normName name) with
  | some s => .ok s
  | none =>
    if (attributeTypes.map (·.1)).contains (normName name) then .error (.unsupportedAttribute name)  -- ValueError
    else if isCustomName name then .ok .text                                                     -- CustomAttribute
    else .error (.unsupportedAttribute name)                                                        -- "No value type"

/-- objects.py Attribute.read l.92-123 (KMIP 1.x) -/
def attributeBody : Rd TAttr := do
  let name ← req "attribute name" T.attributeName (asText "attribute name")
  let index ← opt T.attributeIndex (asInt "attribute index")
  let spec ← Rd.lift (specOfName name)
  let value ← req "attribute value" T.attributeValue (readValue name spec)
  done "Attribute"
  pure ⟨name, index, value⟩

def attribute1x : TItem → D TAttr := inStruct "Attribute" attributeBody

def nameOfTag (t : Nat) : Option String := (attributeNameTags.find? (fun p => p.2 == t)).map (·.1)

/-- one element of the KMIP 2.0 forms (Attributes, CurrentAttribute, NewAttribute): the tag is peeked, must be a
member of `enums.Tags`, an attribute of the version, and have a value class (objects.py l.262-287, l.865-886) -/
def attrByTag (i : TItem) : D TAttr :=
  let t := tagOf i
  if !allTags.contains t then .error (.missing "attribute") else
  if !((attributeTags.lookup 20).getD []).contains t then .error (.unsupportedAttribute (toString t)) else
  match valueByTag.lookup t, nameOfTag t with
  | some spec, some name => (readValue name spec i).map (fun v => ⟨name, none, v⟩)
  | _, _ => .error (.unsupportedAttribute (toString t))

/-- objects.py Attributes.read l.839-886 (KMIP 2.0): every child must be a supported attribute -/
def attributes20 (what : String) : TItem → D (List TAttr)
  | .struct _ kids => mapD attrByTag kids
  | .prim _ _ => .error (.malformed what)

/-- CurrentAttribute.read l.231-287 / NewAttribute.read l.412-468 -/
def attrHolderBody : Rd TAttr := fun s =>
  match s with
  | [] => .error (.missing "attribute field")
  | i :: rest => match attrByTag i with
    | .error e => .error e
    | .ok a => (match done "Current/NewAttribute" rest with | .ok _ => .ok (a, []) | .error e => .error e)

def attrHolder (what : String) : TItem → D TAttr := inStruct what attrHolderBody

/-- objects.py AttributeReference.read l.612-672: the attribute name -/
def attributeReferenceBody : Rd String := do
  let _ ← req "vendor identification" T.vendorIdentification (asText "vendor identification")
  let n ← req "attribute name" T.attributeName (asText "attribute name")
  done "AttributeReference"
  pure n

/-- objects.py TemplateAttribute.read l.3460-3483 -/
def templateBody : Rd Template := do
  let names ← many T.name_ (inStruct "Name" nameBody)
  let attrs ← many T.attribute_ attribute1x
  done "TemplateAttribute"
  pure ⟨names.length, attrs⟩

def template1x : TItem → D Template := inStruct "TemplateAttribute" templateBody
/-- `convert_attributes_to_template_attribute` (objects.py l.3597-3624): no names, no indices -/
def template20 (what : String) (i : TItem) : D Template := (attributes20 what i).map (fun as => ⟨0, as⟩)

/-- objects.py ProtectionStorageMasks.read l.6489-6535 -/
def storageMasks : TItem → D Unit := inStruct "ProtectionStorageMasks" (do
  let _ ← many T.protectionStorageMask (asInt "protection storage mask")
  done "ProtectionStorageMasks")

/-! ### key blocks and secrets (objects.py, secrets.py) -/

def keyInfoBody : Rd (String × Bool) := do
  let u ← req "unique identifier" T.uniqueIdentifier (asText "unique identifier")
  let cp ← opt T.cryptographicParameters cryptoParams
  done "KeyInformation"
  pure (u, cp.isSome)

/-- EncryptionKeyInformation.read l.2449-2491 / MACSignatureKeyInformation.read l.2631-2673 -/
def keyInfo : TItem → D (String × Bool) := inStruct "KeyInformation" keyInfoBody

/-- objects.py KeyWrappingData.read l.2917-2997 -/
def keyWrappingData : TItem → D Unit := inStruct "KeyWrappingData" (do
  let _ ← req "wrapping method" T.wrappingMethod (asEnum "wrapping method" E.wrappingMethod)
  let _ ← opt T.encryptionKeyInformation keyInfo
  let _ ← opt T.macSignatureKeyInformation keyInfo
  let _ ← opt T.macSignature (asBytes "MAC/signature")
  let _ ← opt T.ivCounterNonce (asBytes "IV/counter/nonce")
  let _ ← opt T.encodingOption (asEnum "encoding option" E.encodingOption)
  done "KeyWrappingData")

/-- objects.py KeyWrappingSpecification.read l.3265-3336 -/
def keyWrappingSpec : TItem → D WrapSpec := inStruct "KeyWrappingSpecification" (do
  let m ← req "wrapping method" T.wrappingMethod (asEnum "wrapping method" E.wrappingMethod)
  let eki ← opt T.encryptionKeyInformation keyInfo
  let mki ← opt T.macSignatureKeyInformation keyInfo
  let names ← many T.attributeName (asText "attribute name")
  let enc ← opt T.encodingOption (asEnum "encoding option" E.encodingOption)
  done "KeyWrappingSpecification"
  pure ⟨m, eki.map (·.1), (eki.map (·.2)).getD false, mki.isSome, names.length, enc⟩)

/-- objects.py KeyValue.read l.2323-2341: a structure as key material is read by KeyMaterialStruct and then
refused by `KeyValue.validate` (it is not a KeyMaterial) -/
def keyValueBody : Rd Bytes := fun s =>
  match s with
  | .struct _ _ :: _ => .error (.malformed "key material structure")
  | _ => (do
      let km ← req "key material" T.keyMaterial (asBytes "key material")
      let _ ← many T.attribute_ attribute1x
      done "KeyValue"
      pure km : Rd Bytes) s

structure KB where
  format : Nat
  value : Bytes
  alg : Option Nat
  len : Option Int

/-- objects.py KeyBlock.read l.2175-2205 -/
def keyBlock : TItem → D KB := inStruct "KeyBlock" (do
  let fmt ← req "key format type" T.keyFormatType (asEnum "key format type" E.keyFormatType)
  let _ ← opt T.keyCompressionType (asEnum "key compression type" E.keyCompressionType)
  let v ← req "key value" T.keyValue (inStruct "KeyValue" keyValueBody)
  let alg ← opt T.cryptographicAlgorithm (asEnum "cryptographic algorithm" E.cryptographicAlgorithm)
  let len ← opt T.cryptographicLength (asInt "cryptographic length")
  let _ ← opt T.keyWrappingData keyWrappingData
  done "KeyBlock"
  pure ⟨fmt, v, alg, len⟩)

def regOfKB (otype : Nat) (subtype : Option Nat) (kb : KB) : D RegObj :=
  match kb.len with
  | some (.negSucc _) => .error (.unmodelled "negative key block length")
  | some (.ofNat n) => .ok ⟨otype, hexOf kb.value, kb.alg, some n, some kb.format, subtype⟩
  | none => .ok ⟨otype, hexOf kb.value, kb.alg, none, some kb.format, subtype⟩

/-- the managed object of Register, read by the class `SecretFactory.create(object_type)` returns
(factories/secrets.py l.69-87; secrets.py): tag of that class and reader -/
def secretReader (otype : Nat) : Option (Nat × (TItem → D RegObj)) :=
  if otype = 1 then some (T.certificate_, inStruct "Certificate" (do
    let ct ← req "certificate type" T.certificateType (asEnum "certificate type" E.certificateType)
    let v ← req "certificate value" T.certificateValue (asBytes "certificate value")
    done "Certificate"
    pure ⟨1, hexOf v, none, none, none, some ct⟩))
  else if otype = 2 ∨ otype = 3 ∨ otype = 4 then
    some ((if otype = 2 then T.symmetricKey else if otype = 3 then T.publicKey else T.privateKey),
      inStruct "KeyBlockKey" (do
        let kb ← req "key block" T.keyBlock keyBlock
        done "KeyBlockKey"
        Rd.lift (regOfKB otype none kb)))
  else if otype = 5 then some (T.splitKey, inStruct "SplitKey" (do
    let _ ← req "split key parts" T.splitKeyParts (asInt "split key parts")
    let _ ← req "key part identifier" T.keyPartIdentifier (asInt "key part identifier")
    let _ ← req "split key threshold" T.splitKeyThreshold (asInt "split key threshold")
    let m ← req "split key method" T.splitKeyMethod (asEnum "split key method" E.splitKeyMethod)
    let p ← opt T.primeFieldSize (asBig "prime field size")
    -- POLYNOMIAL_SHARING_PRIME_FIELD (= 3) needs the prime field size
    if m = 3 ∧ p.isNone then Rd.fail (.missing "prime field size") else
    let kb ← req "key block" T.keyBlock keyBlock
    done "SplitKey"
    Rd.lift (regOfKB 5 none kb)))
  else if otype = 6 then some (T.template_, inStruct "Template" (do
    let _ ← req "attribute" T.attribute_ attribute1x
    let _ ← many T.attribute_ attribute1x
    done "Template"
    pure ⟨6, "", none, none, none, none⟩))
  else if otype = 7 then some (T.secretData, inStruct "SecretData" (do
    let st ← req "secret data type" T.secretDataType (asEnum "secret data type" E.secretDataType)
    let kb ← req "key block" T.keyBlock keyBlock
    done "SecretData"
    Rd.lift (regOfKB 7 (some st) kb)))
  else if otype = 8 then some (T.opaqueObject, inStruct "OpaqueObject" (do
    let t ← req "opaque data type" T.opaqueDataType (asEnum "opaque data type" E.opaqueDataType)
    let v ← req "opaque data value" T.opaqueDataValue (asBytes "opaque data value")
    done "OpaqueObject"
    pure ⟨8, hexOf v, none, none, none, some t⟩))
  else none

/-! ### request payloads (kmip/core/messages/payloads/*.py) -/

/-- the template of Create / Register / DeriveKey: TemplateAttribute below 2.0, Attributes from 2.0, mandatory -/
def reqTemplate (v : Nat) : Rd Template :=
  if v < 20 then req "template attribute" T.templateAttribute template1x
  else req "attributes" T.attributes_ (template20 "Attributes")

def optTemplate (v : Nat) (t1 t2 : Nat) : Rd (Option Template) :=
  if v < 20 then opt t1 template1x else opt t2 (template20 "Attributes")

def optMasks (v : Nat) (t : Nat) : Rd Unit :=
  if v ≥ 20 then (do let _ ← opt t storageMasks; pure ()) else pure ()

/-- create.py l.126-206 -/
def createBody (v : Nat) : Rd Payload := do
  let ot ← req "object type" T.objectType (asEnum "object type" E.objectType)
  let t ← reqTemplate v
  optMasks v T.protectionStorageMasks
  done "Create"
  pure (.create ot (some t))

/-- create_key_pair.py l.238-362 -/
def createKeyPairBody (v : Nat) : Rd Payload := do
  let c ← optTemplate v T.commonTemplateAttribute T.commonAttributes
  let pr ← optTemplate v T.privateKeyTemplateAttribute T.privateKeyAttributes
  let pu ← optTemplate v T.publicKeyTemplateAttribute T.publicKeyAttributes
  optMasks v T.commonProtectionStorageMasks
  optMasks v T.privateProtectionStorageMasks
  optMasks v T.publicProtectionStorageMasks
  done "CreateKeyPair"
  pure (.createKeyPair c pr pu)

/-- register.py l.173-264: the secret is read by the class of the ANNOUNCED object type -/
def registerBody (v : Nat) : Rd Payload := do
  let ot ← req "object type" T.objectType (asEnum "object type" E.objectType)
  let t ← reqTemplate v
  match secretReader ot with
  | none => Rd.fail (.malformed "no secret class for the object type")
  | some (tag, rd) =>
    let o ← req "managed object" tag rd
    optMasks v T.protectionStorageMasks
    done "Register"
    pure (.register ot (some t) (some o))

/-- attributes.py DerivationParameters.read l.1429-1479: the derivation data, if present -/
def derivationParameters : TItem → D (Option Bytes) := inStruct "DerivationParameters" (do
  let _ ← opt T.cryptographicParameters cryptoParams
  let _ ← opt T.initializationVector (asBytes "initialization vector")
  let d ← opt T.derivationData (asBytes "derivation data")
  let _ ← opt T.salt (asBytes "salt")
  let _ ← opt T.iterationCount (asInt "iteration count")
  done "DerivationParameters"
  pure d)

/-- derive_key.py l.197-300 -/
def deriveKeyBody (v : Nat) : Rd Payload := do
  let ot ← req "object type" T.objectType (asEnum "object type" E.objectType)
  let us ← many T.uniqueIdentifier (asText "unique identifier")
  if us.isEmpty then Rd.fail (.missing "unique identifiers") else
  let _ ← req "derivation method" T.derivationMethod (asEnum "derivation method" E.derivationMethod)
  let d ← req "derivation parameters" T.derivationParameters derivationParameters
  let t ← reqTemplate v
  done "DeriveKey"
  pure (.deriveKey ot us (some t) d.isSome ((d.map List.length).getD 0))

/-- locate.py l.192-266 — since /repo ee214ee the reader ends with `is_oversized` like every other request payload
(before, what followed the attributes was never looked at: a 2.0 Attributes structure under a 1.x header was dropped
and the Locate ran without its filters) -/
def locateBody (v : Nat) : Rd Payload := do
  let mx ← opt T.maximumItems (asInt "maximum items")
  let off ← opt T.offsetItems (asInt "offset items")
  let _ ← opt T.storageStatusMask (asInt "storage status mask")
  let _ ← opt T.objectGroupMember (asEnum "object group member" E.objectGroupMember)
  if v < 20 then
    let as ← many T.attribute_ attribute1x
    done "Locate"
    pure (.locate mx off as)
  else
    let as ← opt T.attributes_ (attributes20 "Attributes")
    done "Locate"
    pure (.locate mx off (as.getD []))

/-- get.py l.157-216 -/
def getBody : Rd Payload := do
  let u ← uidField
  let f ← opt T.keyFormatType (asEnum "key format type" E.keyFormatType)
  let c ← opt T.keyCompressionType (asEnum "key compression type" E.keyCompressionType)
  let w ← opt T.keyWrappingSpecification keyWrappingSpec
  done "Get"
  pure (.get u f c.isSome w)

/-- one Attribute Reference of GetAttributes under 2.0 (get_attributes.py l.150-183): a structure or a tag -/
def attributeReferenceName : TItem → D String
  | .struct t kids => inStruct "AttributeReference" attributeReferenceBody (.struct t kids)
  | .prim t (.enumeration v) =>
    (asEnum "attribute reference" allTags (.prim t (.enumeration v))).bind (fun tag =>
      match nameOfTag tag with
      | some n => .ok n
      | none => .error (.unsupportedAttribute (toString tag)))
  | .prim _ _ => .error (.malformed "attribute reference")

/-- get_attributes.py l.115-190 -/
def getAttributesBody (v : Nat) : Rd Payload := do
  let u ← uidField
  let names ← (if v < 20 then many T.attributeName (asText "attribute name")
               else many T.attributeReference attributeReferenceName)
  done "GetAttributes"
  pure (.getAttributes u names)

/-- get_attribute_list.py l.73-103 -/
def getAttributeListBody : Rd Payload := do
  let u ← uidField
  done "GetAttributeList"
  pure (.getAttributeList u)

/-- activate.py l.45-69 -/
def activateBody : Rd Payload := do
  let u ← uidField
  done "Activate"
  pure (.activate u)

/-- destroy.py l.32-44 -/
def destroyBody : Rd Payload := do
  let u ← uidField
  done "Destroy"
  pure (.destroy u)

/-- objects.py RevocationReason.read l.3938-3961 -/
def revocationReason : TItem → D Nat := inStruct "RevocationReason" (do
  let c ← req "revocation reason code" T.revocationReasonCode (asEnum "revocation reason code" E.revocationReasonCode)
  let _ ← opt T.revocationMessage (asText "revocation message")
  done "RevocationReason"
  pure c)

/-- revoke.py l.60-95 -/
def revokeBody : Rd Payload := do
  let u ← uidField
  let c ← req "revocation reason" T.revocationReason revocationReason
  let _ ← opt T.compromiseOccurrenceDate (asDate "compromise occurrence date")
  done "Revoke"
  pure (.revoke u (some c))

/-- query.py l.84-124 -/
def queryBody : Rd Payload := do
  let fs ← many T.queryFunction (asEnum "query function" E.queryFunction)
  if fs.isEmpty then Rd.fail (.missing "query functions") else
  done "Query"
  pure (.query fs)

/-- contents.py ProtocolVersion.read l.101-144 -/
def protocolVersionBody : Rd (Int × Int) := do
  let ma ← req "protocol version major" T.protocolVersionMajor (asInt "protocol version major")
  let mi ← req "protocol version minor" T.protocolVersionMinor (asInt "protocol version minor")
  done "ProtocolVersion"
  pure (ma, mi)

def protocolVersion : TItem → D (Int × Int) := inStruct "ProtocolVersion" protocolVersionBody

/-- `10 * major + minor` as the engine model numbers versions -/
def versionNumber (p : Int × Int) : D Nat :=
  if p.1 < 0 ∨ p.2 < 0 then .error (.unmodelled "negative version number") else .ok (10 * p.1.toNat + p.2.toNat)

/-- discover_versions.py l.36-49 -/
def discoverVersionsBody : Rd Payload := do
  let vs ← many T.protocolVersion protocolVersion
  done "DiscoverVersions"
  let ns ← Rd.lift (mapD versionNumber vs)
  pure (.discoverVersions ns)

/-- encrypt.py l.173-244 -/
def encryptBody (v : Nat) : Rd Payload := do
  let u ← uidField
  let cp ← opt T.cryptographicParameters cryptoParams
  let _ ← req "data" T.data_ (asBytes "data")
  let _ ← opt T.ivCounterNonce (asBytes "IV/counter/nonce")
  if v ≥ 14 then
    let _ ← opt T.authenticatedEncryptionAdditionalData (asBytes "additional data")
    done "Encrypt"
    pure (.encrypt u cp.isSome)
  else
    done "Encrypt"
    pure (.encrypt u cp.isSome)

/-- decrypt.py (read l.175-258) -/
def decryptBody (v : Nat) : Rd Payload := do
  let u ← uidField
  let cp ← opt T.cryptographicParameters cryptoParams
  let _ ← req "data" T.data_ (asBytes "data")
  let _ ← opt T.ivCounterNonce (asBytes "IV/counter/nonce")
  if v ≥ 14 then
    let _ ← opt T.authenticatedEncryptionAdditionalData (asBytes "additional data")
    let _ ← opt T.authenticatedEncryptionTag (asBytes "authentication tag")
    done "Decrypt"
    pure (.decrypt u cp.isSome)
  else
    done "Decrypt"
    pure (.decrypt u cp.isSome)

/-- sign.py l.119-169 — no `is_oversized` -/
def signBody : Rd Payload := do
  let u ← uidField
  let cp ← opt T.cryptographicParameters cryptoParams
  let _ ← req "data" T.data_ (asBytes "data")
  pure (.sign u cp.isSome)

/-- signature_verify.py (request read) -/
def signatureVerifyBody : Rd Payload := do
  let u ← uidField
  let cp ← opt T.cryptographicParameters cryptoParams
  let _ ← opt T.data_ (asBytes "data")
  let _ ← opt T.digestedData (asBytes "digested data")
  let _ ← opt T.signatureData (asBytes "signature data")
  let _ ← opt T.correlationValue (asBytes "correlation value")
  let _ ← opt T.initIndicator (asBool "init indicator")
  let _ ← opt T.finalIndicator (asBool "final indicator")
  done "SignatureVerify"
  pure (.signatureVerify u cp.isSome)

/-- mac.py l.82-109 -/
def macBody : Rd Payload := do
  let u ← uidField
  let cp ← opt T.cryptographicParameters cryptoParams
  let _ ← req "data" T.data_ (asBytes "data")
  done "MAC"
  pure (.mac u (cp.bind id) true)

/-- set_attribute.py l.93-148 (the version check comes first) -/
def setAttributeBody (v : Nat) : Rd Payload :=
  if v < 20 then Rd.fail (.version "SetAttribute needs KMIP 2.0") else do
  let u ← uidField
  let a ← req "new attribute" T.newAttribute (attrHolder "NewAttribute")
  done "SetAttribute"
  pure (.setAttribute u a)

/-- modify_attribute.py l.144-209 -/
def modifyAttributeBody (v : Nat) : Rd Payload := do
  let u ← uidField
  if v < 20 then
    let a ← req "attribute" T.attribute_ attribute1x
    done "ModifyAttribute"
    pure (.modifyAttribute u (some a) none none)
  else
    let cu ← opt T.currentAttribute (attrHolder "CurrentAttribute")
    let nw ← req "new attribute" T.newAttribute (attrHolder "NewAttribute")
    done "ModifyAttribute"
    pure (.modifyAttribute u none cu (some nw))

/-- delete_attribute.py l.171-255 -/
def deleteAttributeBody (v : Nat) : Rd Payload := do
  let u ← uidField
  if v < 20 then
    let n ← req "attribute name" T.attributeName (asText "attribute name")
    let i ← opt T.attributeIndex (asInt "attribute index")
    done "DeleteAttribute"
    pure (.deleteAttribute u (some n) i none none)
  else
    let cu ← opt T.currentAttribute (attrHolder "CurrentAttribute")
    let r ← opt T.attributeReference (inStruct "AttributeReference" attributeReferenceBody)
    if cu.isNone ∧ r.isNone then Rd.fail (.missing "current attribute or attribute reference") else
    done "DeleteAttribute"
    pure (.deleteAttribute u none none cu r)

/-- `RequestPayloadFactory.create(operation)` + `payload.read` (factories/payloads/request.py): the 21 dispatched
operations; Rekey (4), Check (9), RekeyKeyPair (29) have payload classes this model does not transcribe; every
other member of `enums.Operation` makes the factory raise NotImplementedError -/
def payloadBody (op v : Nat) : Rd Payload :=
  if op = Op.create then createBody v
  else if op = Op.createKeyPair then createKeyPairBody v
  else if op = Op.register then registerBody v
  else if op = Op.deriveKey then deriveKeyBody v
  else if op = Op.locate then locateBody v
  else if op = Op.get then getBody
  else if op = Op.getAttributes then getAttributesBody v
  else if op = Op.getAttributeList then getAttributeListBody
  else if op = Op.activate then activateBody
  else if op = Op.revoke then revokeBody
  else if op = Op.destroy then destroyBody
  else if op = Op.query then queryBody
  else if op = Op.discoverVersions then discoverVersionsBody
  else if op = Op.encrypt then encryptBody v
  else if op = Op.decrypt then decryptBody v
  else if op = Op.sign then signBody
  else if op = Op.signatureVerify then signatureVerifyBody
  else if op = Op.mac then macBody
  else if op = Op.setAttribute then setAttributeBody v
  else if op = Op.modifyAttribute then modifyAttributeBody v
  else if op = Op.deleteAttribute then deleteAttributeBody v
  else if op = 4 ∨ op = 9 ∨ op = 29 then Rd.fail (.unmodelled "Rekey / Check / RekeyKeyPair payload")
  else Rd.fail (.unsupportedOperation op)

/-! ### envelope (messages.py, contents.py) -/

/-- objects.py Nonce.read l.1033-1073 -/
def nonce : TItem → D Unit := inStruct "Nonce" (do
  let _ ← req "nonce ID" T.nonceId (asBytes "nonce ID")
  let _ ← req "nonce value" T.nonceValue (asBytes "nonce value")
  done "Nonce")

/-- objects.py Credential.read l.2020-2073 with the three credential values (l.1213, l.1486, l.1774) -/
def credential : TItem → D Unit := inStruct "Credential" (do
  let ct ← req "credential type" T.credentialType (asEnum "credential type" E.credentialType)
  if ct = 1 then
    req "credential value" T.credentialValue (inStruct "UsernamePasswordCredential" (do
      let _ ← req "username" T.username_ (asText "username")
      let _ ← opt T.password_ (asText "password")
      done "UsernamePasswordCredential"))
    done "Credential"
  else if ct = 2 then
    req "credential value" T.credentialValue (inStruct "DeviceCredential" (do
      let _ ← opt T.deviceSerialNumber (asText "device serial number")
      let _ ← opt T.password_ (asText "password")
      let _ ← opt T.deviceIdentifier (asText "device identifier")
      let _ ← opt T.networkIdentifier (asText "network identifier")
      let _ ← opt T.machineIdentifier (asText "machine identifier")
      let _ ← opt T.mediaIdentifier (asText "media identifier")
      done "DeviceCredential"))
    done "Credential"
  else if ct = 3 then
    req "credential value" T.credentialValue (inStruct "AttestationCredential" (do
      req "nonce" T.nonce nonce
      let _ ← req "attestation type" T.attestationType (asEnum "attestation type" E.attestationType)
      let m ← opt T.attestationMeasurement (asBytes "attestation measurement")
      let a ← opt T.attestationAssertion (asBytes "attestation assertion")
      if m.isNone ∧ a.isNone then Rd.fail (.missing "attestation measurement or assertion") else
      done "AttestationCredential"))
    done "Credential"
  else fun s =>
    -- the value's tag is peeked first; an unrecognised credential type raises only when a value follows
    match s with
    | i :: _ => if tagOf i == T.credentialValue then .error (.badEnum "credential type without value class")
                else .error (.missing "credential value")
    | [] => .error (.missing "credential value"))

/-- contents.py Authentication.read l.363-391 -/
def authentication : TItem → D Unit := inStruct "Authentication" (do
  let cs ← many T.credential credential
  if cs.isEmpty then Rd.fail (.missing "credentials") else
  done "Authentication")

/-- contents.py protocol_version_to_kmip_version l.252-287 -/
def kmipVersion (p : Int × Int) : Option Nat :=
  if p.1 = 1 then (if p.2 = 0 then some 10 else if p.2 = 1 then some 11 else if p.2 = 2 then some 12
                   else if p.2 = 3 then some 13 else if p.2 = 4 then some 14 else none)
  else if p.1 = 2 then (if p.2 = 0 then some 20 else none)
  else none

structure Header where
  version : Option Nat
  maxResponseSize : Option Int
  async : Option Bool
  batchOption : Option Nat
  timeStamp : Option Int
  batchCount : Int

/-- messages.py RequestHeader.read l.55-110 -/
def headerBody : Rd Header := do
  let pv ← req "protocol version" T.protocolVersion protocolVersion
  let mx ← opt T.maximumResponseSize (asInt "maximum response size")
  let as ← opt T.asynchronousIndicator (asBool "asynchronous indicator")
  let _ ← opt T.authentication authentication
  let bo ← opt T.batchErrorContinuationOption (asEnum "batch error continuation option" E.batchErrorContinuationOption)
  let _ ← opt T.batchOrderOption (asBool "batch order option")
  let ts ← opt T.timeStamp (asDate "time stamp")
  let bc ← req "batch count" T.batchCount (asInt "batch count")
  done "RequestHeader"
  pure ⟨kmipVersion pv, mx, as, bo, ts, bc⟩

/-- contents.MessageExtension has no `read` of its own: `Base.read` takes the 8 header bytes and leaves the body
in the stream, so that `is_oversized` of the batch item fails unless the body is empty -/
def messageExtension : TItem → D Unit
  | .struct _ [] => .ok ()
  | .struct _ (_ :: _) => .error (.trailing "message extension body")
  | .prim _ _ => .error (.malformed "message extension")

def batchIdOf (b : Bytes) : D String :=
  if Prim.validUtf8 b then .ok (textOf b) else .error (.unmodelled "batch item ID that is not UTF-8")

/-- messages.py RequestBatchItem.read l.296-332; `ver` is the version of the request HEADER (`none`: the header
names no member of KMIPVersion, and `kmip_version >= KMIP_2_0` raises TypeError) -/
def batchItemBody (ver : Option Nat) : Rd Kmip.Item := do
  let op ← req "operation" T.operation_ (asEnum "operation" E.operation)
  match ver with
  | none => Rd.fail (.version "batch item under an unknown protocol version")
  | some v =>
    if v ≥ 20 then
      let _ ← opt T.ephemeral (asBool "ephemeral")
      let bid ← opt T.uniqueBatchItemId (asBytes "unique batch item ID")
      let p ← req "request payload" T.requestPayload (inStruct "request payload" (payloadBody op v))
      let _ ← opt T.messageExtension messageExtension
      done "RequestBatchItem"
      let b ← Rd.lift (match bid with | none => .ok none | some x => (batchIdOf x).map some)
      pure ⟨p, b, .internal⟩
    else
      let bid ← opt T.uniqueBatchItemId (asBytes "unique batch item ID")
      let p ← req "request payload" T.requestPayload (inStruct "request payload" (payloadBody op v))
      let _ ← opt T.messageExtension messageExtension
      done "RequestBatchItem"
      let b ← Rd.lift (match bid with | none => .ok none | some x => (batchIdOf x).map some)
      pure ⟨p, b, .internal⟩

def batchItem (ver : Option Nat) : TItem → D Kmip.Item := inStruct "RequestBatchItem" (batchItemBody ver)

/-- `for _ in range(batch_count): RequestBatchItem().read(istream)` — what follows the last item is ignored -/
def takeItems (ver : Option Nat) : Nat → List TItem → D (List Kmip.Item)
  | 0, _ => .ok []
  | _ + 1, [] => .error (.missing "batch item")
  | n + 1, i :: rest =>
    if tagOf i == T.batchItem then
      match batchItem ver i with
      | .error e => .error e
      | .ok x => (match takeItems ver n rest with | .ok xs => .ok (x :: xs) | .error e => .error e)
    else .error (.missing "batch item")

/-- messages.py RequestMessage.read l.475-492.  `defaultVersion` is the `kmip_version` argument the session
passes (the server's default): only the header structure is read under it, and no header reader looks at it. -/
def decodeRequest (_defaultVersion : Nat) : TItem → D Request
  | .struct t kids =>
    if t = T.requestMessage then
      match kids with
      | h :: rest =>
        if tagOf h == T.requestHeader then
          match inStruct "RequestHeader" headerBody h with
          | .error e => .error e
          | .ok hd =>
            match takeItems hd.version hd.batchCount.toNat rest with
            | .error e => .error e
            | .ok items =>
              match hd.maxResponseSize with
              | some (.negSucc _) => .error (.unmodelled "negative maximum response size")
              | mx => .ok { version := hd.version.getD 0, timeStamp := hd.timeStamp, async := hd.async,
                            batchOption := hd.batchOption, maxResponseSize := mx.map Int.toNat, items := items }
        else .error (.missing "request header")
      | [] => .error (.missing "request header")
    else .error (.malformed "not a request message")
  | .prim _ _ => .error (.malformed "not a request message")

/-- bytes of a frame to `Request` -/
def decodeFrame (dv : Nat) (bs : Bytes) : D Request := decodeRequest dv (lenientTop bs)

end Kmip.Decode
