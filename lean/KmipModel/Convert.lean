/-
M13 — key wrapping data: dictionary ⇄ flattened columns of `kmip.pie.objects.Key`
(`key_wrapping_data` setter l.563-625 and getter l.488-561).  The getter rebuilds the
nested dictionaries with `any(...)`, so sub-dictionaries whose members are all falsy
(`None`, `0`, `False`, `b''`, `''`) come back as `{}`.
-/
namespace Kmip.Convert

/-- a column / dictionary value -/
inductive FV where
  | none
  | enum (n : Nat)          -- enumeration members are truthy
  | int (n : Int)
  | bool (b : Bool)
  | bytes (hex : String)
  | text (s : String)
  deriving DecidableEq, Repr, Inhabited

def FV.truthy : FV → Bool
  | .none => false
  | .enum _ => true
  | .int n => n != 0
  | .bool b => b
  | .bytes h => h != ""
  | .text s => s != ""

/-- `{'unique_identifier': …, 'cryptographic_parameters': {13 entries} | {}}`; `cp = none` is `{}` -/
structure KeyInfo where
  uid : FV
  cp : Option (List FV)
  deriving DecidableEq, Repr, Inhabited

/-- the key wrapping data dictionary; a key information of `none` is `{}` -/
structure WrapDict where
  method : FV
  eki : Option KeyInfo
  mski : Option KeyInfo
  macSig : FV
  iv : FV
  encoding : FV
  deriving DecidableEq, Repr, Inhabited

structure Columns where
  method : FV
  ekiUid : FV
  ekiCp : List FV
  mskiUid : FV
  mskiCp : List FV
  macSig : FV
  iv : FV
  encoding : FV
  deriving DecidableEq, Repr, Inhabited

def noneCp : List FV := List.replicate 13 .none

/-- `eki_cp.get(name)` for the 13 names: a missing dictionary (or `{}`) gives `None` everywhere -/
def cpColumns : Option (List FV) → List FV
  | some l => if l.length = 13 then l else noneCp
  | none => noneCp

/-- the setter -/
def toColumns : Option WrapDict → Columns
  | none => ⟨.none, .none, noneCp, .none, noneCp, .none, .none, .none⟩
  | some w =>
    { method := w.method,
      ekiUid := match w.eki with | some k => k.uid | none => .none,
      ekiCp := match w.eki with | some k => cpColumns k.cp | none => noneCp,
      mskiUid := match w.mski with | some k => k.uid | none => .none,
      mskiCp := match w.mski with | some k => cpColumns k.cp | none => noneCp,
      macSig := w.macSig, iv := w.iv, encoding := w.encoding }

def anyTruthy (l : List FV) : Bool := l.any FV.truthy

/-- one key-information sub-dictionary as the getter rebuilds it -/
def keyInfoOf (uid : FV) (cp : List FV) : Option KeyInfo :=
  let cp' := if anyTruthy cp then some cp else none
  if uid.truthy || cp'.isSome then some ⟨uid, cp'⟩ else none

/-- the getter -/
def fromColumns (c : Columns) : Option WrapDict :=
  let eki := keyInfoOf c.ekiUid c.ekiCp
  let mski := keyInfoOf c.mskiUid c.mskiCp
  if c.method.truthy || eki.isSome || mski.isSome || c.macSig.truthy || c.iv.truthy || c.encoding.truthy then
    some ⟨c.method, eki, mski, c.macSig, c.iv, c.encoding⟩
  else none

/-- a key information that survives: 13 parameters of which one is truthy (or none at all), and
a unique identifier or parameters present -/
def KeyInfo.Normal (k : KeyInfo) : Prop :=
  (match k.cp with
   | some l => l.length = 13 ∧ anyTruthy l = true
   | none => True) ∧
  (k.uid.truthy = true ∨ k.cp.isSome = true)

def WrapDict.Normal (w : WrapDict) : Prop :=
  (match w.eki with | some k => k.Normal | none => True) ∧
  (match w.mski with | some k => k.Normal | none => True) ∧
  (w.method.truthy = true ∨ w.eki.isSome = true ∨ w.mski.isSome = true ∨ w.macSig.truthy = true ∨
   w.iv.truthy = true ∨ w.encoding.truthy = true)

end Kmip.Convert
