/-
The notions the C05Convert theorems are stated with: which pie objects / core secrets they talk about, and the
normal forms the conversions produce.  (Model: `KmipModel/ConvertObjects.lean`.)
-/
import KmipModel.ConvertObjects
namespace Kmip.ConvObj
open Kmip.Convert

/-! ## pie objects -/

/-- the object passed its constructor's validation (decidable: `pieOk`) -/
def PieOk (p : PieObj) : Prop := pieOk p = true
/-- representation invariant: masks are members, the `_kdw_*` attributes hold values of their column's type -/
def PieWf (p : PieObj) : Prop := pieWf p = true

/-- no `None` among value / algorithm / length / format.  `PieOk` implies it for every class except `SplitKey`,
whose constructor validates nothing (`complete_of_pieOk`). -/
def Complete (p : PieObj) : Prop :=
  p.value.isSome = true ∧
  match p.spec.key? with
  | some k => k.alg.isSome = true ∧ k.len.isSome = true ∧ k.format.isSome = true
  | none => True

def normCols (k : PieKey) : PieKey := { k with cols := toColumns (fromColumns k.cols) }

/-- the object a conversion from a core secret can produce at best: constructor defaults in the attribute part
(one default name, no masks, Pre-Active, …), key wrapping columns as the property reads them -/
def fresh (p : PieObj) : PieObj :=
  freshPie ((p.spec.mapCrypto (fun _ => freshCrypto)).mapKey normCols) p.value

/-- what the database returns for `p`: masks in bit order without duplicates, the policy name defaulted -/
def dbNorm (p : PieObj) : PieObj :=
  { p with spec := p.spec.mapCrypto (fun cr => { cr with masks := maskBits.filter (fun b => cr.masks.contains b) }),
           policy := some (p.policy.getD "default") }

/-- equality of pie objects with usage masks compared as sets and an absent policy name read as `'default'` -/
def DbEq (p q : PieObj) : Prop :=
  q.value = p.value ∧ q.objectType = p.objectType ∧ q.names = p.names ∧ q.nameIndex = p.nameIndex ∧
  q.policy.getD "default" = p.policy.getD "default" ∧ q.sensitive = p.sensitive ∧
  q.initialDate = p.initialDate ∧ q.owner = p.owner ∧
  q.spec.mapCrypto (fun cr => { cr with masks := [] }) = p.spec.mapCrypto (fun cr => { cr with masks := [] }) ∧
  ∀ m, m ∈ ((q.spec.crypto?.map (·.masks)).getD []) ↔ m ∈ ((p.spec.crypto?.map (·.masks)).getD [])

/-- the attribute part of a pie object: what Register sets from the template attribute and the server state
(`_process_register`, engine.py l.2034-2043) and what later attribute operations and state changes touch -/
structure Attrs where
  names : List NameRow
  nameIndex : Int
  policy : Option String
  sensitive : Bool
  initialDate : Int
  owner : Option String
  masks : List Nat
  state : Option Nat

def withAttrs (p : PieObj) (a : Attrs) : PieObj :=
  { p with spec := p.spec.mapCrypto (fun _ => ⟨a.masks, a.state⟩), names := a.names, nameIndex := a.nameIndex,
           policy := a.policy, sensitive := a.sensitive, initialDate := a.initialDate, owner := a.owner }

/-- the integers of the attribute part fit a SQLite INTEGER (dates, name indices) -/
def AttrsFit (a : Attrs) : Prop :=
  chk64 a.nameIndex = .ok () ∧ chk64 a.initialDate = .ok () ∧ a.names.forM (fun n => chk64 n.index) = .ok ()

/-- the secret part: everything `_build_core_object` reads -/
def strip (p : PieObj) : PieObj :=
  { spec := p.spec.mapCrypto (fun _ => freshCrypto), objectType := p.objectType, value := p.value, names := [],
    nameIndex := 0, policy := none, sensitive := false, initialDate := 0, owner := none }

/-! ## core secrets -/

/-- what the core constructors enforce on the fields the conversions read: `Integer` range, setter types -/
def kbChecks (kb : CoreKeyBlock) : C Unit := do
  (match kb.len with | .val n => chkInteger n | _ => pure ())
  chkWrap? kb.wrapping

def coreChecks : CoreObj → C Unit
  | .key _ (some kb) => kbChecks kb
  | .secretData _ (some kb) => kbChecks kb
  | .splitKey s (some kb) => do kbChecks kb; chkSplit s
  | .splitKey s none => chkSplit s
  | _ => pure ()

/-- the secret is one the core classes can hold (every decoded secret is) -/
def CoreWf (c : CoreObj) : Prop := coreChecks c = .ok ()

/-- a key block after it went through a pie class and back through the object factory: the pie classes hold no key
compression type and no attributes inside the key value; the wrapping data comes back as the property reads the
columns; a length wrapper without value comes back holding 0 -/
def normKb (kb : CoreKeyBlock) : CoreKeyBlock :=
  { kb with compression := none, keyValue := kb.keyValue.map (fun kv => { kv with attrs := 0 }),
            len := match kb.len with | .unset => .val 0 | l => l,
            wrapping := fromColumns (toColumns kb.wrapping) }

/-- the key block every conversion builds for Secret Data: the bytes, key format Opaque, nothing else (a Secret Data
with key wrapping data is refused by `coreToPie`, so nothing is lost there) -/
def secretKb (kb : CoreKeyBlock) : CoreKeyBlock :=
  { format := .val fmtOpaque, compression := none, keyValue := kb.keyValue.map (fun kv => { kv with attrs := 0 }),
    alg := .absent, len := .absent, wrapping := kb.wrapping }

def factoryNorm : CoreObj → CoreObj
  | .key kk kb => .key kk (kb.map normKb)
  | .splitKey s kb => .splitKey s (kb.map normKb)
  | .secretData t kb => .secretData t (kb.map secretKb)
  | c => c

/-- as `normKb`, through the engine's conversion: an algorithm / length wrapper without value is left out -/
def engineKb (kb : CoreKeyBlock) : CoreKeyBlock :=
  { normKb kb with alg := match kb.alg with | .unset => .absent | a => a,
                   len := match kb.len with | .unset => .absent | l => l }

def engineNorm : CoreObj → CoreObj
  | .key kk kb => .key kk (kb.map engineKb)
  | .splitKey s kb => .splitKey s (kb.map engineKb)
  | .secretData t kb => .secretData t (kb.map secretKb)
  | c => c

/-- a key block the storage path returns exactly -/
def kbStorable (kb : CoreKeyBlock) : Prop :=
  kb.compression = none ∧ (kb.keyValue.map (·.attrs)).getD 0 = 0 ∧ kb.alg ≠ .unset ∧ kb.len ≠ .unset ∧
  match kb.wrapping with | some w => w.Normal | none => True

/-- the key block of a Secret Data the storage path returns exactly -/
def kbSecretStorable (kb : CoreKeyBlock) : Prop :=
  kb.format = .val fmtOpaque ∧ kb.compression = none ∧ (kb.keyValue.map (·.attrs)).getD 0 = 0 ∧
  kb.alg = .absent ∧ kb.len = .absent

/-- the domain of exact Register/Get fidelity -/
def Storable : CoreObj → Prop
  | .key _ (some kb) => kbStorable kb
  | .splitKey _ (some kb) => kbStorable kb
  | .secretData _ (some kb) => kbSecretStorable kb
  | _ => True

end Kmip.ConvObj
