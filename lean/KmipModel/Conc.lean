/-
M11 — lock discipline.  Sessions are threads; a request is `acquire`, a list of
microsteps on the shared engine state, `release` (the whole of `process_request` runs
inside `with self._lock`, engine.py l.158-162 / l.189).  A schedule is any sequence of
events; an event is enabled only if the lock semantics allow it.
-/
namespace Kmip.Conc

/-- one request: its microsteps (each reads/writes the shared state) -/
structure Req (σ : Type) where
  steps : List (σ → σ)

inductive Ev where
  | acquire (t : Nat)
  | step (t : Nat)
  | release (t : Nat)
  deriving DecidableEq, Repr

/-- one session thread: requests still to send; microsteps left of the request in progress -/
structure TS (σ : Type) where
  pending : List (Req σ)
  cur : Option (List (σ → σ))

structure Sys (σ : Type) where
  shared : σ
  lock : Option Nat
  threads : Nat → TS σ

def setThread {σ} (f : Nat → TS σ) (t : Nat) (v : TS σ) : Nat → TS σ := fun u => if u = t then v else f u

/-- one event; `none` = not enabled (blocked on the lock, or nothing to do) -/
def exec {σ} (s : Sys σ) : Ev → Option (Sys σ)
  | .acquire t =>
    match s.lock, (s.threads t).cur, (s.threads t).pending with
    | none, none, r :: rest => some { s with lock := some t, threads := setThread s.threads t ⟨rest, some r.steps⟩ }
    | _, _, _ => none
  | .step t =>
    if s.lock = some t then
      match (s.threads t).cur with
      | some (f :: fs) => some { s with shared := f s.shared, threads := setThread s.threads t ⟨(s.threads t).pending, some fs⟩ }
      | _ => none
    else none
  | .release t =>
    if s.lock = some t then
      match (s.threads t).cur with
      | some [] => some { s with lock := none, threads := setThread s.threads t ⟨(s.threads t).pending, none⟩ }
      | _ => none
    else none

def execAll {σ} (s : Sys σ) : List Ev → Option (Sys σ)
  | [] => some s
  | e :: es => match exec s e with
    | some s' => execAll s' es
    | none => none

/-- the order in which requests got the lock -/
def acquireOrder : List Ev → List Nat
  | [] => []
  | .acquire t :: es => t :: acquireOrder es
  | _ :: es => acquireOrder es

def applySteps {σ} (steps : List (σ → σ)) (x : σ) : σ := steps.foldl (fun acc f => f acc) x

/-- serial execution: in the given order each thread runs its next request to completion -/
def runSerial {σ} (x : σ) (pend : Nat → List (Req σ)) : List Nat → σ
  | [] => x
  | t :: ts => match pend t with
    | [] => runSerial x pend ts
    | r :: rest => runSerial (applySteps r.steps x) (fun u => if u = t then rest else pend u) ts

/-- what the shared state will be once the request in progress (if any) has finished -/
def view {σ} (s : Sys σ) : σ :=
  match s.lock with
  | some t => match (s.threads t).cur with
    | some fs => applySteps fs s.shared
    | none => s.shared
  | none => s.shared

end Kmip.Conc
