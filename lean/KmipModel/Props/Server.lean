/-
Theorems about the COMPOSED server model (`KmipModel/Server.lean`): what the component theorems say once the
session's decoder is the decoder model (M14), its engine is the engine model (M5) and responses are composed as
the engine composes them.  Cross-cutting corollaries of C12, C17, C13, C02 and the store invariants.
-/
import KmipModel.Server
import KmipModel.Props.C12
import KmipModel.Props.C17
import KmipModel.Props.C13Decode
import KmipModel.Props.C15
import KmipModel.Props.C02Engine
namespace Kmip.ServerProps
open Kmip Kmip.Session Kmip.Server

/-! ### frames the decoder rejects -/

/-- **A frame the decoder model rejects never reaches the engine model and leaves its state untouched** - for every
byte string, certificate, configuration and engine state. -/
theorem undecodable_frame_is_noop (w : World) (cfg : SessionCfg) (peer : Option Cert) (e : Engine) (data : Bytes)
    (err : Decode.DErr) (h : Decode.decodeFrame w.defaultVer data = .error err) :
    (handleMessage (serverEnv w) cfg peer e data).1.engineCall = none ∧
    (handleMessage (serverEnv w) cfg peer e data).2 = e := by
  refine C12.parse_failure_no_engine (serverEnv w) cfg peer e data ?_
  show parse w data = none
  simp [parse, h]

/-! ### frames the decoder accepts -/

theorem handle_state (w : World) (cfg : SessionCfg) (peer : Option Cert) (e : Engine) (data : Bytes)
    (req : Request) (id : Identity) (hp : parse w data = some req) (hid : establish cfg.auth peer = .ok id) :
    (handleMessage (serverEnv w) cfg peer e data).2 =
      (processRequest (w.ctxOf e) e id (withOracle w.oracle req)).1 := by
  unfold handleMessage evaluate
  unfold establish at hid
  cases hc : certStage cfg.auth.tlsClientAuth peer with
  | none => rw [hc] at hid; cases hid
  | some cert =>
    rw [hc] at hid
    simp only at hid
    simp only
    have hp' : (serverEnv w).parse data = some req := hp
    rw [hp']
    simp only
    cases ha : authenticate cfg.auth cert with
    | none => rw [ha] at hid; cases hid
    | some id' =>
      rw [ha] at hid
      cases hid
      simp only [serverEnv, engineEntry]
      cases hpr : processRequest (w.ctxOf e) e id (withOracle w.oracle req) with
      | mk e' res => cases res <;> rfl

/-- **A decoded frame from a client whose identity is established is processed by the engine model: exactly once,
with the decoded request and the established identity, and the new engine state is `processRequest`'s.** -/
theorem decoded_frame_runs_engine (w : World) (cfg : SessionCfg) (peer : Option Cert) (e : Engine) (data : Bytes)
    (req : Request) (id : Identity) (hd : Decode.decodeFrame w.defaultVer data = .ok req)
    (hid : establish cfg.auth peer = .ok id) :
    (handleMessage (serverEnv w) cfg peer e data).1.engineCall = some (req, id) ∧
    (handleMessage (serverEnv w) cfg peer e data).2 =
      (processRequest (w.ctxOf e) e id (withOracle w.oracle req)).1 := by
  have hp : parse w data = some req := by simp [parse, hd]
  exact ⟨(C17.engine_called_iff_established (serverEnv w) cfg peer e data req id).mpr ⟨hp, hid⟩,
         handle_state w cfg peer e data req id hp hid⟩

/-- a client whose identity cannot be established changes nothing, whatever it sends -/
theorem unauthenticated_is_noop (w : World) (cfg : SessionCfg) (peer : Option Cert) (e : Engine) (data : Bytes)
    (f : AuthFail) (h : establish cfg.auth peer = .error f) :
    (handleMessage (serverEnv w) cfg peer e data).1.engineCall = none ∧
    (handleMessage (serverEnv w) cfg peer e data).2 = e :=
  C17.not_established_no_engine (serverEnv w) cfg peer e data f h

/-- the whole conversation does not depend on how the transport chunks the bytes -/
theorem serve_chunk_independent (w : World) (cfg : SessionCfg) (peer : Option Cert) (e : Engine)
    (cs₁ cs₂ : List Bytes) (h₁ : ∀ b ∈ cs₁, b ≠ []) (h₂ : ∀ b ∈ cs₂, b ≠ []) (h : cs₁.flatten = cs₂.flatten) :
    serve w cfg peer e (ofChunks cs₁) = serve w cfg peer e (ofChunks cs₂) :=
  C12.run_chunk_independent (serverEnv w) cfg peer e cs₁ cs₂ h₁ h₂ h

/-! ### C13 at the level of whole requests: no item of a decoded request is answered General Failure -/

theorem applyEffect_version (e : Engine) (eff : Effect) : (applyEffect e eff).version = e.version := by
  cases eff <;> rfl

/-- if every item, in every engine state of the right shape and version, is free of internal errors, so is every
result of the batch loop (the shape is an invariant of the loop) -/
theorem batchSpec_noInternal (c : Ctx) (hr : RulesProtect c) (stop : Bool) (v : Nat) (P : Item → Prop)
    (hstep : ∀ e it, StoreShape e.store → e.version = v → P it → NoInternal (processOperation c e it))
    (hreg : ∀ it, P it → it.RegTyped) :
    ∀ (items : List Item) (e : Engine), (∀ it ∈ items, P it) → StoreShape e.store → e.store.Inv → e.version = v →
      ∀ r ∈ (batchSpec c stop e items).2, ∀ s, r.result ≠ .error (.internal s) := by
  intro items
  induction items with
  | nil => intro e _ _ _ _ r hr'; simp [batchSpec] at hr'
  | cons it rest ih =>
    intro e hP hs hi hv r hmem s
    have hPit := hP it List.mem_cons_self
    have hPrest : ∀ x ∈ rest, P x := fun x hx => hP x (List.mem_cons_of_mem _ hx)
    simp only [batchSpec] at hmem
    cases hp : processOperation c e it with
    | ok res =>
      obtain ⟨eff, d⟩ := res
      rw [hp] at hmem
      simp only [List.mem_cons] at hmem
      rcases hmem with rfl | hmem
      · intro hcontra; cases hcontra
      · have hsh := applyEffect_shape hi hs (processOperation_spec hr hp)
          (fun os heq => by subst heq; exact insert_types hr (hreg it hPit) hp)
        exact ih (applyEffect e eff) hPrest hsh (applyEffect_inv e eff hi).1
          (by rw [applyEffect_version]; exact hv) r hmem s
    | error err =>
      rw [hp] at hmem
      have hni := hstep e it hs hv hPit
      cases stop with
      | true =>
        simp only [if_true, List.mem_singleton] at hmem
        subst hmem
        intro hcontra
        simp only at hcontra
        cases hcontra
        exact hni s hp
      | false =>
        simp only [Bool.false_eq_true, if_false, List.mem_cons] at hmem
        rcases hmem with rfl | hmem
        · intro hcontra
          simp only at hcontra
          cases hcontra
          exact hni s hp
        · exact ih e hPrest hs hi hv r hmem s

theorem mem_fillCrypto {items : List Item} {answers : List Crypto} {x : Item} (h : x ∈ fillCrypto items answers) :
    ∃ it ∈ items, ∃ cr, x = { it with crypto := cr } := by
  simp only [fillCrypto, List.mem_map] at h
  obtain ⟨p, hp, rfl⟩ := h
  exact ⟨p.1, (List.of_mem_zip hp).1, p.2, rfl⟩

theorem oracleOk_version {c : Ctx} {e e' : Engine} {it : Item} (hv : e'.version = e.version)
    (h : C13Decode.OracleOk c e it) : C13Decode.OracleOk c e' it := by
  unfold C13Decode.OracleOk at *
  cases hp : it.payload <;> simp only [hp] at h ⊢ <;> first | exact h | (rw [hv]; exact h)

/-- **No General Failure for a decoded request.**  Under the real rule table: whatever frame the decoder model
accepts, for an engine state whose store is well formed and has the reachable shape, if no item asks for a negative
Cryptographic Length and the cryptography backend answers every item admissibly, then no batch item of the
response carries the internal-error outcome. -/
theorem decoded_request_no_general_failure (w : World) (ps : Engine → Policies) (now : Engine → Nat)
    (hctx : ∀ e, w.ctxOf e = C13.realCtx (ps e) (now e))
    (e : Engine) (data : Bytes) (req : Request) (id : Identity)
    (hd : Decode.decodeFrame w.defaultVer data = .ok req)
    (hs : StoreShape e.store) (hi : e.store.Inv)
    (hl : ∀ it ∈ req.items, C13Decode.LengthsNonneg it.payload)
    (ho : ∀ x ∈ (withOracle w.oracle req).items,
      C13Decode.OracleOk (w.ctxOf e) ⟨e.store, none, req.version, id⟩ x)
    (rs : List ItemResult)
    (hres : (processRequest (w.ctxOf e) e id (withOracle w.oracle req)).2 = .results rs) :
    ∀ r ∈ rs, ∀ s, r.result ≠ .error (.internal s) := by
  have hdec : Decode.decodeRequest w.defaultVer (Decode.lenientTop data) = .ok req := hd
  rcases processRequest_cases (w.ctxOf e) e id (withOracle w.oracle req) with ⟨_, rsn, m, hrej⟩ | hb
  · rw [hrej] at hres; cases hres
  · rw [hb] at hres
    simp only [ReqResult.results.injEq] at hres
    subst hres
    have hvq : (withOracle w.oracle req).version = req.version := rfl
    rw [hctx e] at ho ⊢
    let e0 : Engine := ⟨e.store, none, req.version, id⟩
    refine batchSpec_noInternal (C13.realCtx (ps e) (now e)) (C15.rules_protect (ps e) (now e))
      (withOracle w.oracle req).stop req.version
      (fun x => x ∈ (withOracle w.oracle req).items) ?_ ?_ _ ⟨e.store, none, (withOracle w.oracle req).version, id⟩
      (fun x hx => hx) hs hi rfl
    · intro e' x hs' hv' hx
      obtain ⟨it, hit, cr, rfl⟩ := mem_fillCrypto hx
      exact C13Decode.decoded_no_internal_error (ps e) (now e) e' hdec it hit cr hv' hs' (hl it hit)
        (oracleOk_version (e := e0) hv' (ho _ hx))
    · intro x hx
      obtain ⟨it, hit, cr, rfl⟩ := mem_fillCrypto hx
      unfold Item.RegTyped
      cases hp : it.payload with
      | register ot tm o =>
        cases o with
        | none => simp [hp]
        | some ro => simpa [hp] using C13Decode.decode_register_type hdec it hit ot tm ro hp
      | _ => simp [hp]

/-! ### the store hypotheses are invariants of serving -/

/-- **Whatever bytes arrive, a handled frame keeps the store well formed and of the reachable shape.** -/
theorem handle_preserves_shape (w : World) (ps : Engine → Policies) (now : Engine → Nat)
    (hctx : ∀ e, w.ctxOf e = C13.realCtx (ps e) (now e))
    (cfg : SessionCfg) (peer : Option Cert) (e : Engine) (data : Bytes)
    (hs : StoreShape e.store) (hi : e.store.Inv) :
    StoreShape (handleMessage (serverEnv w) cfg peer e data).2.store ∧
    (handleMessage (serverEnv w) cfg peer e data).2.store.Inv := by
  cases hid : establish cfg.auth peer with
  | error f => rw [(unauthenticated_is_noop w cfg peer e data f hid).2]; exact ⟨hs, hi⟩
  | ok id =>
    cases hd : Decode.decodeFrame w.defaultVer data with
    | error err => rw [(undecodable_frame_is_noop w cfg peer e data err hd).2]; exact ⟨hs, hi⟩
    | ok req =>
      rw [(decoded_frame_runs_engine w cfg peer e data req id hd hid).2, hctx e]
      have hdec : Decode.decodeRequest w.defaultVer (Decode.lenientTop data) = .ok req := hd
      have htyped : ItemsTyped (withOracle w.oracle req).items := by
        intro x hx
        obtain ⟨it, hit, cr, rfl⟩ := mem_fillCrypto hx
        unfold Item.RegTyped
        cases hp : it.payload with
        | register ot tm o =>
          cases o with
          | none => simp [hp]
          | some ro => simpa [hp] using C13Decode.decode_register_type hdec it hit ot tm ro hp
        | _ => simp [hp]
      exact ⟨processRequest_shape _ (C15.rules_protect (ps e) (now e)) e id _ htyped hi hs,
             (processRequest_inv _ e id _ hi).1⟩

/-- the response the session composes for a request the engine model answered has no envelope fault -/
theorem served_response_envelope (w : World) (enc : Data → List TTLV.Item) (e : Engine) (id : Identity)
    (req : Request) :
    Envelope.faults (some (EngineResponse.verPair req.version))
      (EngineResponse.responseOf enc (w.ctxOf e) (withOracle w.oracle req)
        (processRequest (w.ctxOf e) e id (withOracle w.oracle req)).2) = [] :=
  C02Engine.engine_response_envelope enc (w.ctxOf e) e id (withOracle w.oracle req)

end Kmip.ServerProps
