/-
C06 (M9b) — the plumbing around the OpenSSL primitives, for ALL parameter tuples:
Sign / SignatureVerify, asymmetric Encrypt / Decrypt, DeriveKey, MAC, key wrapping, key creation.
The primitives are abstract (`Prims2`); their algebraic laws enter as fields of that structure, i.e.
as hypotheses.  Tables are the regenerated ones (`Gen.crypto…`): a table fact a theorem needs is
discharged by `decide` over them, so a changed table in /repo breaks the proof.
-/
import KmipModel.Lemmas.CryptoPlans
import KmipModel.Gen.Tables
import KmipModel.Gen.CryptoTables
namespace Kmip.C06Plans
open Kmip Kmip.Crypto Kmip.CryptoPlans

/-- the tables of the real engine -/
def realTables : Tables2 :=
  { sym := ⟨Gen.cryptoSymAlgs, Gen.cryptoModes, Gen.cryptoSymPadding⟩, encHashes := Gen.cryptoEncHashes,
    macHashes := Gen.cryptoMacHashes, dsa := Gen.cryptoDsa, asymPadding := Gen.cryptoAsymPadding,
    asymAlgs := Gen.cryptoAsymAlgs, keySizes := Gen.cryptoSymKeySizes }

/-! ### the enumeration values the model names are those of kmip/core/enums.py (regenerated) -/

theorem constants_match_enums :
    Gen.enumCryptographicAlgorithm.lookup "RSA" = some rsa ∧
    Gen.enumPaddingMethod.lookup "OAEP" = some padOAEP ∧ Gen.enumPaddingMethod.lookup "PKCS1v15" = some padPKCS1v15 ∧
    Gen.enumPaddingMethod.lookup "PSS" = some padPSS ∧
    Gen.enumDerivationMethod.lookup "PBKDF2" = some mPBKDF2 ∧ Gen.enumDerivationMethod.lookup "HASH" = some mHASH ∧
    Gen.enumDerivationMethod.lookup "HMAC" = some mHMAC ∧ Gen.enumDerivationMethod.lookup "ENCRYPT" = some mENCRYPT ∧
    Gen.enumDerivationMethod.lookup "NIST800_108_C" = some mNIST800_108_C ∧
    Gen.enumWrappingMethod.lookup "ENCRYPT" = some wrapENCRYPT ∧
    Gen.enumBlockCipherMode.lookup "NIST_KEY_WRAP" = some nistKeyWrap ∧
    Gen.enumEncodingOption.lookup "NO_ENCODING" = some noEncoding ∧
    Gen.enumKeyFormatType.lookup "PKCS_1" = some fmtPKCS1 ∧ Gen.enumKeyFormatType.lookup "PKCS_8" = some fmtPKCS8 ∧
    Gen.enumKeyFormatType.lookup "RAW" = some fmtRAW := by decide +kernel

/-! ### Sign / SignatureVerify -/

/-- **SignatureVerify mirrors Sign.**  For EVERY parameter tuple `sign` accepts (digital signature
algorithm, cryptographic algorithm, hashing algorithm, padding method — each present or absent, known or
unknown), `verify_signature` given the same tuple accepts it and selects the same padding scheme and the
same hash (message digest and MGF1 hash). -/
theorem verify_plan_matches_sign_plan (T : Tables2) (p : SigParams) (sp : SigPlan)
    (h : signPlan T p = .ok sp) : verifyPlan T p = .ok sp := by
  obtain ⟨dsa, alg, hash, padding⟩ := p
  unfold signPlan at h
  unfold verifyPlan
  suffices hsel : ∀ hh a, signSelect T ⟨dsa, alg, hash, padding⟩ = .ok (hh, a) → hh.isSome = true →
      verifySelect T ⟨dsa, alg, hash, padding⟩ = .ok (hh, a) by
    cases hs : signSelect T ⟨dsa, alg, hash, padding⟩ with
    | error e => simp [hs] at h
    | ok r =>
      obtain ⟨hh, a⟩ := r
      simp only [hs] at h
      have hsome : hh.isSome = true := by
        cases hh with
        | none => simp [signFinish] at h
        | some _ => rfl
      rw [hsel hh a hs hsome]
      exact verifyFinish_of_signFinish T hh a padding sp h
  intro hh a hs hsome
  unfold signSelect at hs
  unfold verifySelect
  simp only at hs ⊢
  cases dsa with
  | some d =>
    simp only [Option.bind_some]
    cases hd : lookupDsa T d with
    | none => simp [hd] at hs; rw [← hs.1] at hsome; simp at hsome
    | some pr =>
      obtain ⟨dh, da⟩ := pr
      simp only [hd] at hs
      simp only
      split at hs
      · cases hs
      · rename_i c1
        split at hs
        · cases hs
        · rename_i c2
          simp only [c1, c2]
          exact hs
  | none =>
    simp only [Option.bind_none]
    by_cases hb : (alg.isSome && hash.isSome) = true
    · simpa [hb] using hs
    · simp [hb] at hs

/-- **Sign mirrors SignatureVerify** (the converse; PARTIAL: for the tuples whose digital signature algorithm is
absent or known to the engine, and given that the PKCS1v15 class is in the padding table — true of the real
tables, `real_pkcs1v15_class_present`): what `verify_signature` accepts, `sign` accepts with the same scheme and
hash.  (For an UNKNOWN digital signature algorithm the two functions differ: `verify_signature` ignores
it and uses the request's own algorithms, `sign` refuses — see `unknown_dsa_verify_only`.) -/
theorem sign_plan_matches_verify_plan_partial (T : Tables2) (p : SigParams) (vp : SigPlan)
    (h : verifyPlan T p = .ok vp) (hd : ∀ d, p.dsa = some d → (lookupDsa T d).isSome = true)
    (hp : (T.asymPadding.lookup padPKCS1v15).isSome = true) : signPlan T p = .ok vp := by
  obtain ⟨dsa, alg, hash, padding⟩ := p
  simp only at hd
  unfold verifyPlan at h
  unfold signPlan
  cases hv : verifySelect T ⟨dsa, alg, hash, padding⟩ with
  | error e => simp [hv] at h
  | ok r =>
    obtain ⟨hh, a⟩ := r
    simp only [hv] at h
    have hfin := signFinish_of_verifyFinish T hh a padding vp hp h
    -- verify accepted, so the algorithm is RSA and a hash was selected
    have ha : a = some rsa := by
      unfold verifyFinish at h
      by_cases hr : (a == some rsa) = true
      · simpa using hr
      · simp [hr] at h
    have hsome : hh.isSome = true := by
      cases hh with
      | none => simp [signFinish] at hfin
      | some _ => rfl
    suffices hs : signSelect T ⟨dsa, alg, hash, padding⟩ = .ok (hh, a) by
      rw [hs]; exact hfin
    unfold verifySelect at hv
    unfold signSelect
    simp only at hv ⊢
    cases dsa with
    | some d =>
      have hk := hd d rfl
      cases hl : lookupDsa T d with
      | none => simp [hl] at hk
      | some pr =>
        obtain ⟨dh, da⟩ := pr
        simp only [Option.bind_some, hl] at hv ⊢
        split at hv
        · cases hv
        · rename_i c1
          split at hv
          · cases hv
          · rename_i c2
            simp only [c1, c2]
            exact hv
    | none =>
      simp only [Option.bind_none, Except.ok.injEq, Prod.mk.injEq] at hv
      obtain ⟨hv1, hv2⟩ := hv
      have halg : alg.isSome = true := by rw [hv2, ha]; rfl
      have hhash : hash.isSome = true := by
        cases hash with
        | none => rw [← hv1] at hsome; simp at hsome
        | some _ => rfl
      subst hv2
      simp [halg, hhash, hv1]

/-- **SignatureVerify reports valid for what Sign produced**: for every parameter tuple, key, randomness
and message, if Sign succeeds, SignatureVerify under the same
tuple with the matching public key answers valid — given the law of the primitive (`Prims2.verify_sign`). -/
theorem verify_sign (P : Prims2) (T : Tables2) (p : SigParams) (key rnd msg sg : Bytes)
    (h : signOp P T p key rnd msg = .ok sg) :
    verifyOp P T p (P.pubOf key) msg sg = .ok true := by
  unfold signOp at h
  cases hs : signPlan T p with
  | error e => simp [hs] at h
  | ok pl =>
    simp only [hs] at h
    cases hr : P.rsaSign pl key rnd msg with
    | none => simp [hr] at h
    | some s =>
      simp only [hr, Except.ok.injEq] at h
      subst h
      unfold verifyOp
      rw [verify_plan_matches_sign_plan T p pl hs]
      simp [P.verify_sign pl key rnd msg s hr]

/-- a tuple that contradicts its digital signature algorithm is refused by both functions -/
theorem contradictory_parameters_refused_by_both :
    signPlan realTables ⟨some 5, some 4, some 4, some 10⟩ = .error .signHashMismatch ∧
    verifyPlan realTables ⟨some 5, some 4, some 4, some 10⟩ = .error .verifyHashMismatch ∧
    signPlan realTables ⟨some 5, some 5, none, some 8⟩ = .error .signAlgMismatch ∧
    verifyPlan realTables ⟨some 5, some 5, none, some 8⟩ = .error .verifyAlgMismatch := by decide +kernel

/-- the code as it is: a digital signature algorithm the engine does not know (here DSA with SHA-1) is
ignored by `verify_signature` and refused by `sign` -/
theorem unknown_dsa_verify_only :
    verifyPlan realTables ⟨some 9, some 4, some 4, some 10⟩ = .ok ⟨.pss, [83, 72, 65, 49]⟩ ∧
    signPlan realTables ⟨some 9, some 4, some 4, some 10⟩ = .error .signHashUnsupported := by decide +kernel

/-- on the real tables `sign` never meets a padding class that is missing from the table -/
theorem real_pkcs1v15_class_present : (realTables.asymPadding.lookup padPKCS1v15).isSome = true := by decide +kernel

/-- a digital signature algorithm alone determines scheme and hash: every entry of the real table, with
either padding, is accepted by both functions with the hash the entry names -/
theorem real_dsa_alone_accepted :
    Gen.cryptoDsa.all (fun r =>
      [padPSS, padPKCS1v15].all (fun pd =>
        let pad : SigPad := if pd == padPSS then .pss else .pkcs1v15
        signPlan realTables ⟨some r.1, none, none, some pd⟩ == .ok ⟨pad, r.2.2.1⟩ &&
        verifyPlan realTables ⟨some r.1, none, none, some pd⟩ == .ok ⟨pad, r.2.2.1⟩)) = true := by decide +kernel

/-! ### asymmetric Encrypt / Decrypt -/

/-- **Decrypt mirrors Encrypt**: for every (algorithm, padding method, hashing algorithm) tuple the two
functions accept the same tuples, select the same scheme (OAEP with the same hash for digest and MGF1, or
PKCS#1 v1.5) and refuse with the same error. -/
theorem asym_dec_plan_matches_enc_plan (T : Tables2) (p : AsymParams) : asymDecPlan T p = asymEncPlan T p := by
  obtain ⟨alg, padding, hash⟩ := p
  unfold asymDecPlan asymEncPlan lookupHash
  simp only
  split
  · split
    · cases hash with
      | none => rfl
      | some h =>
        simp only [Option.bind_some]
        cases List.lookup h T.encHashes <;> rfl
    · rfl
  · rfl

/-- **Decrypt inverts Encrypt**, for every accepted tuple, key pair, randomness and message the
primitive accepts — given the law of the primitive (`Prims2.rsa_dec_enc`). -/
theorem asym_decrypt_encrypt (P : Prims2) (T : Tables2) (p : AsymParams) (key rnd msg ct : Bytes)
    (h : asymEncryptOp P T p (P.pubOf key) rnd msg = .ok ct) : asymDecryptOp P T p key ct = .ok msg := by
  unfold asymEncryptOp at h
  unfold asymDecryptOp
  rw [asym_dec_plan_matches_enc_plan]
  cases hs : asymEncPlan T p with
  | error e => simp [hs] at h
  | ok s =>
    simp only [hs] at h ⊢
    cases he : P.rsaEnc s (P.pubOf key) rnd msg with
    | none => simp [he] at h
    | some c =>
      simp only [he, Except.ok.injEq] at h
      subst h
      simp [P.rsa_dec_enc s key rnd msg c he]

/-- asymmetric encryption is RSA only, with OAEP (a supported hash is then mandatory) or PKCS#1 v1.5 -/
theorem asym_plan_accepts_iff (T : Tables2) (p : AsymParams) (s : AsymScheme) :
    asymEncPlan T p = .ok s ↔
      p.alg = some rsa ∧
      ((p.padding = some padPKCS1v15 ∧ s = .pkcs1v15) ∨
       (p.padding = some padOAEP ∧ ∃ h hn dg, p.hash = some h ∧ lookupHash T h = some (hn, dg) ∧ s = .oaep hn)) := by
  obtain ⟨alg, padding, hash⟩ := p
  unfold asymEncPlan
  simp only
  constructor
  · intro h
    split at h
    · rename_i ha
      have ha' : alg = some rsa := by simpa using ha
      refine ⟨ha', ?_⟩
      split at h
      · rename_i hp
        have hp' : padding = some padOAEP := by simpa using hp
        right
        refine ⟨hp', ?_⟩
        cases hash with
        | none => simp at h
        | some hv =>
          simp only [Option.bind_some] at h
          cases hl : lookupHash T hv with
          | none => simp [hl] at h
          | some r =>
            obtain ⟨hn, dg⟩ := r
            simp only [hl, Except.ok.injEq] at h
            exact ⟨hv, hn, dg, rfl, hl, h.symm⟩
      · split at h
        · rename_i hp
          have hp' : padding = some padPKCS1v15 := by simpa using hp
          left
          simp only [Except.ok.injEq] at h
          exact ⟨hp', h.symm⟩
        · cases h
    · cases h
  · rintro ⟨ha, h⟩
    subst ha
    rcases h with ⟨hp, hs⟩ | ⟨hp, hv, hn, dg, hh, hl, hs⟩
    · subst hp; subst hs; simp [padPKCS1v15, padOAEP]
    · subst hp; subst hs; subst hh
      simp [hl]

/-! ### DeriveKey: the length of the derived material -/

/-- `_process_derive_key` accepts a Cryptographic Length exactly when it is a positive multiple of 8, and
then works with that many bytes -/
theorem derive_length_iff (b : Int) (n : Nat) :
    deriveLength (some b) = .ok n ↔ (b % 8 = 0 ∧ 0 < b ∧ (n : Int) * 8 = b) := by
  unfold deriveLength
  simp only
  constructor
  · intro h
    split at h
    · rename_i hm
      have hm' : b % 8 = 0 := by simpa using hm
      split at h
      · cases h
      · rename_i hp
        simp only [Except.ok.injEq] at h
        refine ⟨hm', by omega, ?_⟩
        omega
    · cases h
  · rintro ⟨hm, hp, hn⟩
    have c1 : (b % 8 == 0) = true := by simpa using hm
    have c2 : ¬ (b / 8 ≤ 0) := by omega
    simp only [c1, if_true, c2, if_false, Except.ok.injEq]
    omega

theorem derive_length_absent : deriveLength none = .error .lengthMissing := rfl

/-- the post-processing on lengths: the result has EXACTLY the requested number of bytes, or the request
fails (Cryptographic Failure) — never shorter, never longer, whatever the primitive returned -/
theorem derive_output_exact (req outLen m : Nat) (h : deriveOutput req outLen = .ok m) : m = req := by
  unfold deriveOutput at h
  split at h
  · cases h
  · split at h <;> simp only [Except.ok.injEq] at h <;> omega

theorem derive_output_fails_iff (req outLen : Nat) :
    deriveOutput req outLen = .error .outputTooShort ↔ outLen < req := by
  unfold deriveOutput
  constructor
  · intro h
    split at h
    · assumption
    · split at h <;> cases h
  · intro h
    simp [h]

/-- the same on bytes: exactly `req` bytes, and they are the leading bytes of the primitive's output -/
theorem derive_finish_length (req : Nat) (out o : Bytes) (h : deriveFinish req out = .ok o) :
    o.length = req ∧ o = out.take req := by
  unfold deriveFinish at h
  split at h
  · cases h
  · rename_i h1
    split at h
    · simp only [Except.ok.injEq] at h
      subst h
      exact ⟨by simp [List.length_take]; omega, rfl⟩
    · rename_i h2
      simp only [Except.ok.injEq] at h
      subst h
      have : out.length = req := by omega
      exact ⟨this, by rw [← this, List.take_length]⟩

/-- **derive_output_length** — for EVERY DeriveKey request (every method, hash, salt, iteration count,
cipher, mode, padding, IV, key and data, every primitive): if `_process_derive_key` stores a value, the
value has exactly Cryptographic Length / 8 bytes — never shorter, never longer; in every other case the
request fails.  No law of the primitives is needed: the check-then-truncate step enforces it. -/
theorem derive_output_length (P : Prims2) (T : Tables2) (r : DeriveRequest) (rnd out : Bytes) (b : Int)
    (hb : r.bits = some b) (h : processDeriveKey P T r rnd = .ok out) : (out.length : Int) * 8 = b := by
  unfold processDeriveKey at h
  rw [hb] at h
  cases hl : deriveLength (some b) with
  | error e => simp [hl] at h
  | ok n =>
    simp only [hl] at h
    have hn := ((derive_length_iff b n).mp hl).2.2
    cases hp : derivePlan T (engineParams r n) with
    | error e => simp [hp] at h
    | ok pl =>
      simp only [hp] at h
      cases hr : rawDerive P pl r rnd with
      | error e => simp [hr] at h
      | ok raw =>
        simp only [hr] at h
        rw [(derive_finish_length n raw out h).1]
        exact hn

/-- the Cryptographic Length attribute of a derived SymmetricKey is the requested one -/
theorem derived_key_length_attribute (b : Int) (n : Nat) (h : deriveLength (some b) = .ok n) :
    (derivedKeyLengthAttr n : Int) = b := by
  have := ((derive_length_iff b n).mp h).2.2
  unfold derivedKeyLengthAttr
  omega

/-- without a usable Cryptographic Length nothing is derived -/
theorem derive_refuses_bad_length (P : Prims2) (T : Tables2) (r : DeriveRequest) (rnd : Bytes)
    (h : ∀ b, r.bits = some b → ¬ (b % 8 = 0 ∧ 0 < b)) :
    ∃ e, processDeriveKey P T r rnd = .error e ∧ e.reason = .invalidField := by
  unfold processDeriveKey
  cases hb : r.bits with
  | none => exact ⟨.lengthMissing, rfl, rfl⟩
  | some b =>
    have hb' := h b hb
    unfold deriveLength
    simp only
    by_cases hm : (b % 8 == 0) = true
    · have hm' : b % 8 = 0 := by simpa using hm
      have : b / 8 ≤ 0 := by
        have : ¬ 0 < b := fun hp => hb' ⟨hm', hp⟩
        omega
      simp only [hm, if_true, this]
      exact ⟨.lengthNotPositive, rfl, rfl⟩
    · simp only [hm, Bool.false_eq_true, if_false]
      exact ⟨.lengthNotMultiple, rfl, rfl⟩

/-! #### per method -/

/-- the three KDFs (HKDF, PBKDF2, SP 800-108 counter mode) are constructed with exactly the requested
length, keyed with the key material; HKDF gets the salt and, as `info`, the derivation data; PBKDF2 the
salt and the iteration count; the counter-mode KDF the derivation data as its fixed input -/
theorem derive_kdf_plan (T : Tables2) (p : DeriveParams) (pl : DerivePlan) (h : derivePlan T p = .ok pl)
    (hk : pl.kind = .hkdf ∨ pl.kind = .pbkdf2 ∨ pl.kind = .kbkdf) :
    pl.askLength = some p.length ∧ pl.key = .keyMaterial ∧
    (∃ hv hn dg, p.hash = some hv ∧ lookupHash T hv = some (hn, dg) ∧ pl.hash = some hn ∧ pl.digestBytes = dg) ∧
    (pl.kind = .hkdf → p.method = mHMAC ∧ pl.data = presence p.ddata .derivationData ∧ pl.salt = presence p.salt .salt) ∧
    (pl.kind = .pbkdf2 → p.method = mPBKDF2 ∧ pl.salt = .salt ∧ ∃ i : Int, p.iterations = some i ∧ 1 ≤ i ∧
        pl.iterations = some i.toNat) ∧
    (pl.kind = .kbkdf → p.method = mNIST800_108_C ∧ pl.data = .derivationData) := by
  unfold derivePlan at h
  cp_split_all h
  cp_plan_cases h

/-- **the KDFs return exactly the requested length** (by their length laws), so for HKDF, PBKDF2 and
SP 800-108 the post-processing neither truncates nor fails: the stored value IS the KDF output -/
theorem derive_kdf_exact (P : Prims2) (T : Tables2) (r : DeriveRequest) (rnd : Bytes) (n : Nat) (pl : DerivePlan)
    (hp : derivePlan T (engineParams r n) = .ok pl)
    (hk : pl.kind = .hkdf ∨ pl.kind = .pbkdf2 ∨ pl.kind = .kbkdf) :
    ∃ raw, rawDerive P pl r rnd = .ok raw ∧ raw.length = n ∧ deriveFinish n raw = .ok raw := by
  have hplan := derive_kdf_plan T (engineParams r n) pl hp hk
  have hask : pl.askLength = some n := hplan.1
  have fin : ∀ raw : Bytes, raw.length = n → deriveFinish n raw = .ok raw := by
    intro raw hl
    unfold deriveFinish
    simp [hl]
  unfold rawDerive
  rcases hk with hk | hk | hk
  · simp only [hk, hask, Option.getD_some]
    exact ⟨_, rfl, P.hkdf_len _ _ _ _ _, fin _ (P.hkdf_len _ _ _ _ _)⟩
  · simp only [hk, hask, Option.getD_some]
    exact ⟨_, rfl, P.pbkdf2_len _ _ _ _ _, fin _ (P.pbkdf2_len _ _ _ _ _)⟩
  · simp only [hk, hask, Option.getD_some]
    exact ⟨_, rfl, P.kbkdf_len _ _ _ _, fin _ (P.kbkdf_len _ _ _ _)⟩

/-- HASH derivation: one hash of EITHER the derivation data OR the key material (never both, never
neither), nothing else is asked of the backend -/
theorem derive_hash_plan (T : Tables2) (p : DeriveParams) (pl : DerivePlan) (h : derivePlan T p = .ok pl)
    (hk : pl.kind = .hash) :
    p.method = mHASH ∧ pl.askLength = none ∧
    (∃ hv hn dg, p.hash = some hv ∧ lookupHash T hv = some (hn, dg) ∧ pl.hash = some hn ∧ pl.digestBytes = dg) ∧
    ((p.ddata.isSome = true ∧ p.keyMaterial = none ∧ pl.data = .derivationData) ∨
     (p.ddata = none ∧ p.keyMaterial.isSome = true ∧ pl.data = .keyMaterial)) := by
  unfold derivePlan at h
  cp_split_all h
  cp_plan_cases h

/-- … and the request then succeeds exactly when the requested length does not exceed the digest (given
that the hash returns `digestBytes` bytes), storing the leading bytes of the digest -/
theorem derive_hash_outcome (P : Prims2) (pl : DerivePlan) (hk : pl.kind = .hash) (r : DeriveRequest)
    (rnd : Bytes) (n : Nat) (hlen : ∀ d, (P.hash (pl.hash.getD []) d).length = pl.digestBytes) :
    ∃ raw, rawDerive P pl r rnd = .ok raw ∧
      ((n ≤ pl.digestBytes ∧ deriveFinish n raw = .ok (raw.take n)) ∨
       (pl.digestBytes < n ∧ deriveFinish n raw = .error .outputTooShort)) := by
  unfold rawDerive
  simp only [hk]
  refine ⟨_, rfl, ?_⟩
  have hl := hlen ((r.pick pl.data).getD [])
  unfold deriveFinish
  by_cases hc : n ≤ pl.digestBytes
  · left
    refine ⟨hc, ?_⟩
    have c1 : ¬ (n > (P.hash (pl.hash.getD []) ((r.pick pl.data).getD [])).length) := by omega
    simp only [c1, if_false]
    split
    · rfl
    · rename_i h2
      have : (P.hash (pl.hash.getD []) ((r.pick pl.data).getD [])).length = n := by omega
      rw [← this, List.take_length]
  · right
    refine ⟨by omega, ?_⟩
    have c1 : n > (P.hash (pl.hash.getD []) ((r.pick pl.data).getD [])).length := by omega
    simp [c1]

/-- derivation by ENCRYPT is `_encrypt_symmetric` on (key material, derivation data, IV): the plan is the
M9 Encrypt plan without associated data and without a tag length (so GCM is refused) -/
theorem derive_encrypt_plan (T : Tables2) (p : DeriveParams) (pl : DerivePlan) (h : derivePlan T p = .ok pl)
    (hk : pl.kind = .symEncrypt) :
    p.method = mENCRYPT ∧ pl.key = .keyMaterial ∧ pl.data = .derivationData ∧ p.ddata.isSome = true ∧
    p.keyMaterial.isSome = true ∧
    ∃ a s, p.encAlg = some a ∧ a ≠ rsa ∧ encPlan T.sym ⟨a, p.mode, p.padding, p.iv, false, none⟩ = .ok s ∧
      pl.sym = some s := by
  unfold derivePlan at h
  cp_split_all h
  cp_plan_cases h

/-! #### no internal error (feeds C13) -/

/-- **derive_plan_total**: every parameter tuple gives a plan or a refusal with a KMIP reason (Invalid
Field, Cryptographic Failure); no exception escapes `derive_key` at the plan stage. -/
theorem derive_plan_total (T : Tables2) (p : DeriveParams) (e : PErr)
    (h : derivePlan T p = .error e) : e.reason ≠ .internal := by
  unfold derivePlan at h
  cp_split_all h
  all_goals first
    | (cases h; done)
    | (simp only [Except.error.injEq] at h; subst h; simp [PErr.reason]; done)
    | (simp only [Except.error.injEq] at h; subst h
       rw [asym_enc_refusal_reason T _ _ ‹_›]; simp; done)

/-- the parameter errors of `derive_key` are Invalid Field: an HKDF output longer than 255 digests, a
PBKDF2 iteration count below 1, derivation data missing for SP 800-108 counter mode or for ENCRYPT -/
theorem derive_parameter_errors (T : Tables2) (p : DeriveParams) :
    (p.method = mENCRYPT → p.ddata = none → derivePlan T p = .error .derivationDataMissing) ∧
    (∀ hv hn dg, p.hash = some hv → lookupHash T hv = some (hn, dg) →
      (p.method = mHMAC → p.keyMaterial.isSome = true → 255 * dg < p.length → derivePlan T p = .error .hkdfLengthTooLarge) ∧
      (p.method = mNIST800_108_C → p.ddata = none → derivePlan T p = .error .derivationDataMissing) ∧
      (∀ i : Int, p.method = mPBKDF2 → p.salt.isSome = true → p.iterations = some i → i < 1 →
        derivePlan T p = .error .iterationsNotPositive)) := by
  refine ⟨?_, ?_⟩
  · intro hm hd
    unfold derivePlan
    simp [hm, hd]
  · intro hv hn dg hh hl
    refine ⟨?_, ?_, ?_⟩
    · intro hm hk hlen
      have hkn : p.keyMaterial.isNone = false := by
        cases hkm : p.keyMaterial with
        | none => simp [hkm] at hk
        | some _ => rfl
      unfold derivePlan
      simp [hm, hh, hl, mHMAC, mENCRYPT, hlen, hkn]
    · intro hm hd
      unfold derivePlan
      simp [hm, hh, hl, mHMAC, mENCRYPT, mPBKDF2, mHASH, mNIST800_108_C, hd]
    · intro i hm hs hi hlt
      unfold derivePlan
      cases hsalt : p.salt with
      | none => simp [hsalt] at hs
      | some sv => simp [hm, hh, hl, mHMAC, mENCRYPT, mPBKDF2, mHASH, hi, hlt]

/-- no other plan function of this model lets an exception escape, on the real tables: MAC,
SignatureVerify, asymmetric Encrypt / Decrypt, key wrapping (crypto engine and `_process_get`), key creation
answer with a plan or a KMIP reason for EVERY parameter tuple; so does Sign. -/
theorem plans_no_internal_error :
    (∀ alg e, macPlan realTables alg = .error e → e.reason ≠ .internal) ∧
    (∀ p e, verifyPlan realTables p = .error e → e.reason ≠ .internal) ∧
    (∀ p e, signPlan realTables p = .error e → e.reason ≠ .internal) ∧
    (∀ p e, asymEncPlan realTables p = .error e → e.reason ≠ .internal) ∧
    (∀ p e, asymDecPlan realTables p = .error e → e.reason ≠ .internal) ∧
    (∀ m a e, wrapPlan m a = .error e → e.reason ≠ .internal) ∧
    (∀ m ps enc e, getWrapPlan m ps enc = .error e → e.reason ≠ .internal) ∧
    (∀ alg len e, createSymPlan realTables alg len = .error e → e.reason ≠ .internal) ∧
    (∀ alg len e, createPairPlan realTables alg len = .error e → e.reason ≠ .internal) := by
  refine ⟨?_, ?_, ?_, ?_, ?_, ?_, ?_, ?_, ?_⟩
  · intro alg e h
    unfold macPlan at h
    cp_split_all h
    cp_refusal_cases h
  · intro p e h
    unfold verifyPlan at h
    cases hs : verifySelect realTables p with
    | error e' =>
      simp only [hs, Except.error.injEq] at h
      subst h
      unfold verifySelect at hs
      simp only at hs
      cp_split_all hs
      cp_refusal_cases hs
    | ok r =>
      obtain ⟨hh, a⟩ := r
      simp only [hs] at h
      unfold verifyFinish at h
      cp_split_all h
      cp_refusal_cases h
  · intro p e h
    unfold signPlan at h
    cases hs : signSelect realTables p with
    | error e' =>
      simp only [hs, Except.error.injEq] at h
      subst h
      unfold signSelect at hs
      cp_split_all hs
      cp_refusal_cases hs
    | ok r =>
      obtain ⟨hh, a⟩ := r
      simp only [hs] at h
      unfold signFinish at h
      cp_split_all h
      all_goals first
        | (cases h; done)
        | (simp only [Except.error.injEq] at h; subst h; simp [PErr.reason]; done)
        | (exfalso
           rename_i pd _ _ hpd _ hl
           have hpd' : pd = padPKCS1v15 := by simpa using hpd
           have hcls := real_pkcs1v15_class_present
           rw [← hpd', hl] at hcls
           simp at hcls)
  · intro p e h
    unfold asymEncPlan at h
    cp_split_all h
    cp_refusal_cases h
  · intro p e h
    rw [asym_dec_plan_matches_enc_plan] at h
    unfold asymEncPlan at h
    cp_split_all h
    cp_refusal_cases h
  · intro m a e h
    unfold wrapPlan at h
    cp_split_all h
    cp_refusal_cases h
  · intro m ps enc e h
    unfold getWrapPlan wrapPlan at h
    cp_split_all h
    cp_refusal_cases h
  · intro alg len e h
    unfold createSymPlan at h
    cp_split_all h
    cp_refusal_cases h
  · intro alg len e h
    unfold createPairPlan at h
    cp_split_all h
    cp_refusal_cases h

/-! ### MAC -/

/-- **mac_plan_family**: the MAC family follows the table the algorithm is in — an algorithm of the HMAC
table is computed as HMAC over the hash the table names (whatever the cipher table says); an algorithm that
is only in the symmetric cipher table as CMAC over that cipher (a stream cipher is a Cryptographic
Failure); everything else, and an absent algorithm, is Invalid Field. -/
theorem mac_plan_family (T : Tables2) (a : Nat) :
    (∀ r, T.macHashes.lookup a = some r → macPlan T (some a) = .ok (.hmac r.2.1 (r.2.2 / 8))) ∧
    (∀ cls bb, T.macHashes.lookup a = none → T.sym.symAlgs.lookup a = some (cls, bb) →
        macPlan T (some a) = if bb = 0 then .error .cmacStreamCipher else .ok (.cmac a cls (bb / 8))) ∧
    (T.macHashes.lookup a = none → T.sym.symAlgs.lookup a = none → macPlan T (some a) = .error .macUnsupported) ∧
    macPlan T none = .error .macUnsupported := by
  refine ⟨?_, ?_, ?_, rfl⟩
  · intro r hr; simp [macPlan, hr]
  · intro cls bb h1 h2
    by_cases hb : bb = 0 <;> simp [macPlan, h1, h2, hb]
  · intro h1 h2; simp [macPlan, h1, h2]

/-- on the regenerated data the two tables are disjoint (no algorithm is both an HMAC and a cipher), so
the order of the two look-ups in `mac` does not matter -/
theorem mac_tables_disjoint :
    Gen.cryptoMacHashes.all (fun r => (Gen.cryptoSymAlgs.lookup r.1).isNone) = true ∧
    Gen.cryptoSymAlgs.all (fun r => (Gen.cryptoMacHashes.lookup r.1).isNone) = true := by decide +kernel

/-- the MAC has the size of the digest (HMAC) resp. of the cipher block (CMAC) the tables state; the hash
an HMAC algorithm is mapped to has the digest size the hashing-algorithm table gives for the same hash -/
theorem real_mac_lengths :
    Gen.cryptoMacHashes.all (fun r =>
      macPlan realTables (some r.1) == .ok (.hmac r.2.2.1 (r.2.2.2 / 8)) &&
      Gen.cryptoEncHashes.any (fun e => e.2.2.1 == r.2.2.1 && e.2.2.2 == r.2.2.2)) = true ∧
    Gen.cryptoSymAlgs.all (fun r =>
      macPlan realTables (some r.1) ==
        (if r.2.2 == 0 then .error .cmacStreamCipher else .ok (.cmac r.1 r.2.1 (r.2.2 / 8)))) = true := by
  decide +kernel

/-! ### key wrapping -/

/-- **wrap_plan_only_nist**: `wrap_key` wraps only with wrapping method Encrypt and block cipher mode NIST
Key Wrap (RFC 3394); every other pair, and an absent method or mode, is Invalid Field -/
theorem wrap_plan_only_nist (m a : Option Nat) :
    (wrapPlan m a = .ok .aesKeyWrap ↔ (m = some wrapENCRYPT ∧ a = some nistKeyWrap)) ∧
    (∀ e, wrapPlan m a = .error e → e.reason = .invalidField) := by
  unfold wrapPlan
  constructor
  · constructor
    · intro h
      split at h
      · rename_i hm
        split at h
        · rename_i ha
          exact ⟨by simpa using hm, by simpa using ha⟩
        · cases h
      · cases h
    · rintro ⟨rfl, rfl⟩; rfl
  · intro e h
    split at h
    · split at h
      · cases h
      · simp only [Except.error.injEq] at h; subst h; rfl
    · simp only [Except.error.injEq] at h; subst h; rfl

/-- what `_process_get` lets through to `wrap_key`: wrapping method Encrypt (else Operation Not Supported),
cryptographic parameters present (else Invalid Field), encoding option No Encoding (else Encoding Option
Error), block cipher mode NIST Key Wrap (else Invalid Field) -/
theorem get_wrap_plan_iff (m : Option Nat) (ps : Option (Option Nat)) (enc : Option Nat) :
    (getWrapPlan m ps enc = .ok .aesKeyWrap ↔
      (m = some wrapENCRYPT ∧ ps = some (some nistKeyWrap) ∧ enc = some noEncoding)) ∧
    (m ≠ some wrapENCRYPT → getWrapPlan m ps enc = .error .getWrapMethodNotSupported) ∧
    (m = some wrapENCRYPT → ps = none → getWrapPlan m ps enc = .error .getWrapParamsMissing) ∧
    (m = some wrapENCRYPT → ps ≠ none → enc ≠ some noEncoding → getWrapPlan m ps enc = .error .getWrapEncoding) := by
  refine ⟨⟨?_, ?_⟩, ?_, ?_, ?_⟩
  · intro h
    unfold getWrapPlan at h
    split at h
    · cases h
    · rename_i hm
      have hm' : m = some wrapENCRYPT := by simpa using hm
      split at h
      · cases h
      · rename_i mode
        split at h
        · cases h
        · rename_i he
          have he' : enc = some noEncoding := by simpa using he
          have := ((wrap_plan_only_nist m mode).1.mp h).2
          exact ⟨hm', by rw [this], he'⟩
  · rintro ⟨rfl, rfl, rfl⟩; rfl
  · intro hm
    unfold getWrapPlan
    simp [hm]
  · rintro rfl rfl; rfl
  · rintro rfl hps he
    unfold getWrapPlan
    cases ps with
    | none => exact absurd rfl hps
    | some mode => simp [he]

/-! ### key creation -/

/-- every key size of the table is a whole number of bytes -/
def KeySizesWholeBytes (T : Tables2) : Prop := ∀ a ks k, T.keySizes.lookup a = some ks → k ∈ ks → k % 8 = 0

theorem real_key_sizes_whole_bytes :
    Gen.cryptoSymKeySizes.all (fun r => r.2.all (fun k => k % 8 == 0)) = true := by decide +kernel

theorem real_tables_whole_bytes : KeySizesWholeBytes realTables := by
  intro a ks k hl hk
  have h := real_key_sizes_whole_bytes
  rw [List.all_eq_true] at h
  have hmem : (a, ks) ∈ Gen.cryptoSymKeySizes := mem_of_lookup hl
  have := h (a, ks) hmem
  simp only [List.all_eq_true] at this
  simpa using this k hk

/-- **create_key_length**: a created symmetric key has exactly the requested length (`os.urandom` is asked
for length / 8 bytes and every allowed length is a whole number of bytes); a length that is not one of the
algorithm's key sizes, an algorithm that is not a symmetric cipher of the table, and an absent algorithm
are refused with Invalid Field. -/
theorem create_key_length (T : Tables2) (hT : KeySizesWholeBytes T) (alg : Option Nat) (len : Int) :
    (∀ pl, createSymPlan T alg len = .ok pl →
      (pl.randomBytes : Int) * 8 = len ∧ alg = some pl.alg ∧
      ∃ ks, T.keySizes.lookup pl.alg = some ks ∧ ∃ k ∈ ks, (k : Int) = len) ∧
    (∀ a ks, alg = some a → T.keySizes.lookup a = some ks → (∀ k ∈ ks, (k : Int) ≠ len) →
      createSymPlan T alg len = .error .createAlgUnsupported ∨ createSymPlan T alg len = .error .createLengthInvalid) ∧
    (∀ e, createSymPlan T alg len = .error e → e.reason = .invalidField) := by
  refine ⟨?_, ?_, ?_⟩
  · intro pl h
    unfold createSymPlan at h
    cases alg with
    | none => cases h
    | some a =>
      simp only at h
      cases hl : List.lookup a T.sym.symAlgs with
      | none => simp [hl] at h
      | some r =>
        obtain ⟨cls, bb⟩ := r
        simp only [hl] at h
        split at h
        · rename_i hany
          simp only [Except.ok.injEq] at h
          subst h
          rw [List.any_eq_true] at hany
          obtain ⟨k, hk, hkl⟩ := hany
          have hkl' : (k : Int) = len := by simpa using hkl
          cases hks : List.lookup a T.keySizes with
          | none => simp [hks] at hk
          | some ks =>
            simp only [hks, Option.getD_some] at hk
            have hm := hT a ks k hks hk
            refine ⟨?_, rfl, ks, rfl, k, hk, hkl'⟩
            simp only
            omega
        · cases h
  · intro a ks ha hks hne
    subst ha
    unfold createSymPlan
    simp only
    cases hl : List.lookup a T.sym.symAlgs with
    | none => left; rfl
    | some r =>
      right
      obtain ⟨cls, bb⟩ := r
      simp only
      have : (((T.keySizes.lookup a).getD []).any (fun k => (k : Int) == len)) = false := by
        rw [hks]
        simp only [Option.getD_some, List.any_eq_false]
        intro k hk
        simpa using hne k hk
      simp [this]
  · intro e h
    unfold createSymPlan at h
    cp_split_all h
    all_goals first | (cases h; done) | (simp only [Except.error.injEq] at h; subst h; rfl)

/-- the key sizes the engine accepts for the ciphers it supports (regenerated; what `key_sizes` of the
backend classes says — note AES: 512 is listed by the backend class and therefore accepted) -/
theorem real_key_sizes :
    Gen.cryptoSymKeySizes.lookup 3 = some [128, 192, 256, 512] ∧
    Gen.cryptoSymKeySizes.lookup 2 = some [64, 128, 192] ∧
    Gen.cryptoSymKeySizes.map (·.1) = Gen.cryptoSymAlgs.map (·.1) := by decide +kernel

/-- **create_pair_rsa_only**: on the real tables a key pair is created for RSA only — by
`rsa.generate_private_key(public_exponent = 65537, key_size = the requested length)`, the public key
exported as PKCS#1, the private key as PKCS#8; every other algorithm, and an absent one, is Invalid Field -/
theorem create_pair_rsa_only (alg : Option Nat) (len : Int) :
    (∀ pl, createPairPlan realTables alg len = .ok pl ↔ (alg = some rsa ∧ pl = ⟨65537, len, fmtPKCS1, fmtPKCS8⟩)) ∧
    (alg ≠ some rsa → createPairPlan realTables alg len = .error .pairAlgUnsupported) := by
  have hreal : realTables.asymAlgs = [rsa] := by decide +kernel
  constructor
  · intro pl
    unfold createPairPlan
    cases alg with
    | none => simp
    | some a =>
      simp only [hreal]
      by_cases ha : a = rsa
      · subst ha
        simp only [List.contains_cons, beq_self_eq_true, Bool.true_or, if_true, Except.ok.injEq, true_and]
        exact eq_comm
      · simp [ha]
  · intro hne
    unfold createPairPlan
    cases alg with
    | none => rfl
    | some a =>
      have ha : a ≠ rsa := fun h => hne (by rw [h])
      have : realTables.asymAlgs.contains a = false := by rw [hreal]; simp [ha]
      simp only [this, Bool.false_eq_true, if_false]

/-! ### non-vacuity: the hypotheses of the main theorems are satisfiable, the accepting branches exist -/

/-- a toy backend satisfying every law of `Prims2` -/
def toyPrims : Prims2 where
  sym := ⟨fun _ _ _ _ x => x, fun _ _ _ _ x => x, fun _ _ _ _ _ => rfl⟩
  hash := fun _ d => d
  hmac := fun _ _ d => d
  cmac := fun _ _ d => d
  hkdf := fun _ n _ _ _ => List.replicate n 0
  pbkdf2 := fun _ n _ _ _ => List.replicate n 0
  kbkdf := fun _ n _ _ => List.replicate n 0
  pubOf := fun k => k
  rsaSign := fun _ k _ m => some (k ++ m)
  rsaVerify := fun _ k m sg => sg == k ++ m
  rsaEnc := fun _ _ _ m => some m
  rsaDec := fun _ _ c => some c
  aesWrap := fun _ d => some d
  verify_sign := by intro s k r m sg h; simp only [Option.some.injEq] at h; subst h; simp
  rsa_dec_enc := by intro s k r m c h; simp only [Option.some.injEq] at h; subst h; rfl
  hkdf_len := by intros; simp
  pbkdf2_len := by intros; simp
  kbkdf_len := by intros; simp

-- Sign accepts consistent tuples (so `verify_plan_matches_sign_plan` is not vacuous) …
example : signPlan realTables ⟨some 5, some 4, some 6, some 10⟩ = .ok ⟨.pss, [83, 72, 65, 50, 53, 54]⟩ := by decide +kernel
example : signPlan realTables ⟨none, some 4, some 4, some 8⟩ = .ok ⟨.pkcs1v15, [83, 72, 65, 49]⟩ := by decide +kernel
example : verifyOp toyPrims realTables ⟨none, some 4, some 4, some 8⟩ [1] [2] [1, 2] = .ok true := by decide +kernel
example : signOp toyPrims realTables ⟨none, some 4, some 4, some 8⟩ [1] [] [2] = .ok [1, 2] := by decide +kernel
-- asymmetric encryption accepts OAEP/SHA-256 and PKCS#1 v1.5
example : asymEncPlan realTables ⟨some 4, some 2, some 6⟩ = .ok (.oaep [83, 72, 65, 50, 53, 54]) := by decide +kernel
example : asymEncryptOp toyPrims realTables ⟨some 4, some 8, none⟩ [9] [] [1, 2, 3] = .ok [1, 2, 3] := by decide +kernel
-- DeriveKey: an accepted request per method, a truncated hash, a refused length
example : (derivePlan realTables ⟨3, 16, some 4, some 16, some 6, some 8, none, none, none, none, some 0⟩).toOption.map
    (fun pl => (pl.kind, pl.askLength)) = some (.hkdf, some 16) := by decide +kernel
example : (derivePlan realTables ⟨1, 20, none, some 16, some 4, some 8, some 3, none, none, none, some 0⟩).toOption.map
    (fun pl => (pl.kind, pl.iterations)) = some (.pbkdf2, some 3) := by decide +kernel
example : (derivePlan realTables ⟨5, 20, some 4, some 16, some 4, none, none, none, none, none, some 0⟩).toOption.map
    (fun pl => pl.kind) = some .kbkdf := by decide +kernel
example : (derivePlan realTables ⟨2, 16, none, some 16, some 4, none, none, none, none, none, some 0⟩).toOption.map
    (fun pl => (pl.kind, pl.digestBytes, pl.data)) = some (.hash, 20, .keyMaterial) := by decide +kernel
example : (derivePlan realTables ⟨4, 16, some 20, some 16, none, none, none, some 3, some 1, some 3, some 16⟩).toOption.map
    (fun pl => (pl.kind, pl.rawLen 20 0)) = some (.symEncrypt, 32) := by decide +kernel
example : deriveOutput 16 20 = .ok 16 ∧ deriveOutput 21 20 = .error .outputTooShort ∧ deriveOutput 20 20 = .ok 20 := by decide
example : deriveLength (some 128) = .ok 16 ∧ deriveLength (some (-8)) = .error .lengthNotPositive ∧
    deriveLength (some 12) = .error .lengthNotMultiple ∧ deriveLength (some 0) = .error .lengthNotPositive := by decide
example : processDeriveKey toyPrims realTables
    ⟨some 64, 3, [1, 2], some [3], some [4], none, none, some 6, none, none, none⟩ [] = .ok [0, 0, 0, 0, 0, 0, 0, 0] := by
  decide +kernel
-- the parameter errors are refusals with a KMIP reason
example : derivePlan realTables ⟨3, 8161, some 4, some 16, some 6, some 8, none, none, none, none, some 0⟩ =
    .error .hkdfLengthTooLarge := by decide +kernel
example : derivePlan realTables ⟨1, 16, none, some 16, some 6, some 8, some 0, none, none, none, some 0⟩ =
    .error .iterationsNotPositive := by decide +kernel
example : derivePlan realTables ⟨5, 16, none, some 16, some 6, none, none, none, none, none, some 0⟩ =
    .error .derivationDataMissing := by decide +kernel
example : derivePlan realTables ⟨4, 16, none, some 16, none, none, none, some 3, some 1, some 3, some 16⟩ =
    .error .derivationDataMissing := by decide +kernel
-- MAC, wrapping, creation
example : macPlan realTables (some 9) = .ok (.hmac [83, 72, 65, 50, 53, 54] 32) ∧
    macPlan realTables (some 3) = .ok (.cmac 3 "AES" 16) ∧ macPlan realTables (some 22) = .error .cmacStreamCipher ∧
    macPlan realTables (some 4) = .error .macUnsupported := by decide +kernel
example : wrapPlan (some 1) (some 13) = .ok .aesKeyWrap ∧ wrapPlan (some 1) (some 1) = .error .wrapAlgUnsupported := by decide
example : getWrapPlan (some 1) (some (some 13)) (some 1) = .ok .aesKeyWrap ∧
    (getWrapPlan (some 2) (some (some 13)) (some 1)).toOption = none := by decide
example : createSymPlan realTables (some 3) 256 = .ok ⟨3, "AES", 32, 1⟩ ∧
    createSymPlan realTables (some 3) 255 = .error .createLengthInvalid ∧
    createSymPlan realTables (some 4) 256 = .error .createAlgUnsupported := by decide +kernel
example : createPairPlan realTables (some 4) 2048 = .ok ⟨65537, 2048, 3, 4⟩ := by decide +kernel

end Kmip.C06Plans
