/-
C06 (M9b) — the plumbing around the OpenSSL primitives, for ALL parameter tuples:
Sign / SignatureVerify, asymmetric Encrypt / Decrypt, DeriveKey, MAC, key wrapping, key creation.
The primitives are abstract (`Prims2`); their algebraic laws enter as fields of that structure, i.e.
as hypotheses.  Tables are the regenerated ones (`Gen.crypto…`): a table fact a theorem needs is
discharged by `decide` over them, so a changed table in /repo breaks the proof.
-/
import KmipModel.CryptoPlans
import KmipModel.Gen.Tables
import KmipModel.Gen.CryptoTables
namespace Kmip.C06Plans
open Kmip Kmip.Crypto Kmip.CryptoPlans

/-- the tables of the real engine -/
def realTables : Tables2 :=
  { sym := ⟨Gen.cryptoSymAlgs, Gen.cryptoModes, Gen.cryptoSymPadding⟩, encHashes := Gen.cryptoEncHashes,
    macHashes := Gen.cryptoMacHashes, dsa := Gen.cryptoDsa, asymPadding := Gen.cryptoAsymPadding,
    asymAlgs := Gen.cryptoAsymAlgs, keySizes := Gen.cryptoSymKeySizes }

/-! ### the enumeration values the model names are those of kmip/core/enums.py (regenerated) -/

theorem constants_match_enums :
    Gen.enumCryptographicAlgorithm.lookup "RSA" = some rsa ∧
    Gen.enumPaddingMethod.lookup "OAEP" = some padOAEP ∧ Gen.enumPaddingMethod.lookup "PKCS1v15" = some padPKCS1v15 ∧
    Gen.enumPaddingMethod.lookup "PSS" = some padPSS ∧
    Gen.enumDerivationMethod.lookup "PBKDF2" = some mPBKDF2 ∧ Gen.enumDerivationMethod.lookup "HASH" = some mHASH ∧
    Gen.enumDerivationMethod.lookup "HMAC" = some mHMAC ∧ Gen.enumDerivationMethod.lookup "ENCRYPT" = some mENCRYPT ∧
    Gen.enumDerivationMethod.lookup "NIST800_108_C" = some mNIST800_108_C ∧
    Gen.enumWrappingMethod.lookup "ENCRYPT" = some wrapENCRYPT ∧
    Gen.enumBlockCipherMode.lookup "NIST_KEY_WRAP" = some nistKeyWrap ∧
    Gen.enumEncodingOption.lookup "NO_ENCODING" = some noEncoding ∧
    Gen.enumKeyFormatType.lookup "PKCS_1" = some fmtPKCS1 ∧ Gen.enumKeyFormatType.lookup "PKCS_8" = some fmtPKCS8 ∧
    Gen.enumKeyFormatType.lookup "RAW" = some fmtRAW := by decide +kernel

/-! ### Sign / SignatureVerify -/

/-- the request does not contradict its digital signature algorithm: where that algorithm is known to the
engine, a hashing algorithm named next to it selects the same hash and a cryptographic algorithm named next
to it is the same algorithm -/
def Consistent (T : Tables2) (p : SigParams) : Prop :=
  ∀ d dh da, p.dsa = some d → lookupDsa T d = some (dh, da) →
    (∀ h hn dg, p.hash = some h → lookupHash T h = some (hn, dg) → hn = dh) ∧ (∀ a, p.alg = some a → a = da)

/-- **SignatureVerify mirrors Sign.**  For every parameter tuple `sign` accepts (digital signature
algorithm, cryptographic algorithm, hashing algorithm, padding method — each present or absent, known or
unknown) that does not contradict itself, `verify_signature` given the same tuple accepts it and selects
the same padding scheme and the same hash (message digest and MGF1 hash). -/
theorem verify_plan_matches_sign_plan (T : Tables2) (p : SigParams) (sp : SigPlan)
    (h : signPlan T p = .ok sp) (hc : Consistent T p) : verifyPlan T p = .ok sp := by
  obtain ⟨dsa, alg, hash, padding⟩ := p
  unfold Consistent at hc
  simp only at hc
  unfold signPlan at h
  unfold verifyPlan
  simp only at h ⊢
  cases dsa with
  | some d =>
    cases hd : lookupDsa T d with
    | none => simp [hd] at h
    | some pr =>
      obtain ⟨dh, da⟩ := pr
      have hc' := hc d dh da rfl hd
      simp only [hd] at h
      simp only [Option.bind_some, hd]
      have e1 : ((hash.bind (lookupHash T)).map (·.1)).isSome = true →
          ((hash.bind (lookupHash T)).map (·.1)) = some dh := by
        intro hs
        cases hh : hash with
        | none => simp [hh] at hs
        | some hv =>
          cases hl : lookupHash T hv with
          | none => simp [hh, hl] at hs
          | some r =>
            obtain ⟨hn, dg⟩ := r
            have := hc'.1 hv hn dg hh hl
            simp [hl, this]
      have c1 : ((Option.map (fun x => x.fst) (hash.bind (lookupHash T))).isSome &&
          (Option.map (fun x => x.fst) (hash.bind (lookupHash T)) != some dh)) = false := by
        cases hs : (Option.map (fun x => x.fst) (hash.bind (lookupHash T))).isSome with
        | false => rfl
        | true => simp [e1 hs]
      have c2 : (alg.isSome && (alg != some da)) = false := by
        cases ha : alg with
        | none => rfl
        | some a => simp [hc'.2 a ha]
      simp only [c1, c2, Bool.false_eq_true, if_false]
      by_cases hr : (some da == some rsa) = true
      · simp only [hr, if_true] at h ⊢
        cases padding with
        | none => simp at h
        | some pd =>
          simp only at h
          by_cases h1 : (pd == padPSS) = true
          · simp only [h1, if_true] at h
            have : (some pd == some padPSS) = true := by simpa using h1
            simp only [this, if_true]; exact h
          · simp only [h1, Bool.false_eq_true, if_false] at h
            have n1 : (some pd == some padPSS) = false := by simpa using h1
            simp only [n1, Bool.false_eq_true, if_false]
            by_cases h2 : (pd == padPKCS1v15) = true
            · simp only [h2, if_true] at h
              have : (some pd == some padPKCS1v15) = true := by simpa using h2
              simp only [this, if_true]
              cases hl : List.lookup pd T.asymPadding with
              | none => simp [hl] at h
              | some _ => simpa [hl] using h
            · simp [h2] at h
      · simp [hr] at h
  | none =>
    simp only [Option.bind_none]
    by_cases hb : (alg.isSome && hash.isSome) = true
    · simp only [hb, if_true] at h
      cases hh : (Option.map (fun x => x.fst) (hash.bind (lookupHash T))) with
      | none => simp [hh] at h
      | some hn =>
        simp only [hh] at h ⊢
        by_cases hr : (alg == some rsa) = true
        · simp only [hr, if_true] at h ⊢
          cases padding with
          | none => simp at h
          | some pd =>
            simp only at h
            by_cases h1 : (pd == padPSS) = true
            · simp only [h1, if_true] at h
              have : (some pd == some padPSS) = true := by simpa using h1
              simp only [this, if_true]; exact h
            · simp only [h1, Bool.false_eq_true, if_false] at h
              have n1 : (some pd == some padPSS) = false := by simpa using h1
              simp only [n1, Bool.false_eq_true, if_false]
              by_cases h2 : (pd == padPKCS1v15) = true
              · simp only [h2, if_true] at h
                have : (some pd == some padPKCS1v15) = true := by simpa using h2
                simp only [this, if_true]
                cases hl : List.lookup pd T.asymPadding with
                | none => simp [hl] at h
                | some _ => simpa [hl] using h
              · simp [h2] at h
        · simp [hr] at h
    · simp [hb] at h

end Kmip.C06Plans
