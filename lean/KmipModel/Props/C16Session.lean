/-
C16, first sentence, for the answers the SESSION builds itself: "the server answers in the protocol version of the
request".  The engine's own answers carry the request's version by `EngineResponse` / `C16` (header built from the
request header); the session builds error responses in five places (client authentication failed, the engine
rejected the request as a whole, an unexpected exception, the response could not be encoded, the response is larger
than the maximum).  Over the session model M7 (`Session.lean`, tied to `KmipSession` by the C12 / C17 / C16 checks):
whenever the frame could be DECODED, every error response the session sends for it carries that request's version -
whatever was served before on the same connection (the session keeps no version of its own: `handleMessage` is a
function of this frame, the certificate, the configuration and the engine state only).
-/
import KmipModel.Lemmas.Session
namespace Kmip.C16Session
open Kmip Kmip.Session

variable {Q R σ : Type}

theorem sizeCheck_error_version (env : Env Q R σ) (m : Mid Q R) (req : Q) (hreq : m.request = some req)
    (resp : Response R) (n : Nat) (hresp : ∀ hdr rsn, resp = .error hdr rsn → hdr = env.version req)
    (hdr : Ver) (rsn : Nat) (h : (sizeCheck env m resp n).sent = some (.error hdr rsn)) : hdr = env.version req := by
  unfold sizeCheck at h
  split at h
  · rw [hreq] at h
    dsimp only at h
    split at h
    · simp at h
    · simp only [Option.some.injEq, Response.error.injEq] at h
      exact h.1.symm
  · simp only [Option.some.injEq] at h
    exact hresp hdr rsn h

theorem emit_error_version (env : Env Q R σ) (m : Mid Q R) (req : Q) (hreq : m.request = some req)
    (hresp : ∀ hdr rsn, m.response = .error hdr rsn → hdr = env.version req)
    (hdr : Ver) (rsn : Nat) (h : (emit env m).sent = some (.error hdr rsn)) : hdr = env.version req := by
  unfold emit at h
  split at h
  · exact sizeCheck_error_version env m req hreq _ _ hresp hdr rsn h
  · rw [hreq] at h
    dsimp only at h
    split at h
    · simp at h
    · refine sizeCheck_error_version env m req hreq _ _ ?_ hdr rsn h
      intro hdr' rsn' he
      simp only [Response.error.injEq] at he
      exact he.1.symm

/-- **Every error response to a decodable frame carries the version of THAT request** - client authentication
failure, whole-request rejection by the engine (unsupported version, stale time stamp, missing batch item ids …),
unexpected exception, unencodable response, response too large. -/
theorem session_error_in_request_version (env : Env Q R σ) (cfg : SessionCfg) (peer : Option Cert) (s : σ)
    (data : Bytes) (req : Q) (cert : Cert)
    (hcert : certStage cfg.auth.tlsClientAuth peer = some cert) (hparse : env.parse data = some req)
    (hdr : Ver) (rsn : Nat) (h : (handleMessage env cfg peer s data).1.sent = some (.error hdr rsn)) :
    hdr = env.version req := by
  unfold handleMessage at h
  dsimp only at h
  have key : (evaluate env cfg peer s data).1.request = some req ∧
      ∀ hdr rsn, (evaluate env cfg peer s data).1.response = .error hdr rsn → hdr = env.version req := by
    unfold evaluate
    rw [hcert]
    dsimp only
    rw [hparse]
    dsimp only
    split
    · refine ⟨rfl, ?_⟩
      intro hdr rsn he
      simp only [Response.error.injEq] at he
      exact he.1.symm
    · split
      · refine ⟨rfl, ?_⟩
        intro hdr rsn he
        simp at he
      · refine ⟨rfl, ?_⟩
        intro hdr rsn he
        simp only [Response.error.injEq] at he
        exact he.1.symm
      · refine ⟨rfl, ?_⟩
        intro hdr rsn he
        simp only [Response.error.injEq] at he
        exact he.1.symm
  exact emit_error_version env _ req key.1 key.2 hdr rsn h

/-- The only answers under a version that is not the request's are the two the session gives when it has NO request
to take a version from (no usable certificate, undecodable frame): they say 1.0. -/
theorem no_request_answer_is_1_0 (env : Env Q R σ) (cfg : SessionCfg) (peer : Option Cert) (s : σ) (data : Bytes)
    (h : certStage cfg.auth.tlsClientAuth peer = none ∨ env.parse data = none)
    (hdr : Ver) (rsn : Nat) (hs : (handleMessage env cfg peer s data).1.sent = some (.error hdr rsn)) :
    hdr = (1, 0) := by
  unfold handleMessage at hs
  dsimp only at hs
  have key : (evaluate env cfg peer s data).1.request = none ∧
      ∃ r, (evaluate env cfg peer s data).1.response = .error (1, 0) r := by
    unfold evaluate
    cases hc : certStage cfg.auth.tlsClientAuth peer with
    | none => exact ⟨rfl, _, rfl⟩
    | some cert =>
      dsimp only
      rcases h with h | h
      · rw [hc] at h; cases h
      · rw [h]; exact ⟨rfl, _, rfl⟩
  obtain ⟨hreq, r, hr⟩ := key
  unfold emit at hs
  rw [hreq, hr] at hs
  split at hs
  · unfold sizeCheck at hs
    rw [hreq] at hs
    split at hs
    · simp at hs
    · simp only [Option.some.injEq, Response.error.injEq] at hs
      exact hs.1.symm
  · simp at hs

/-- every `handled` event of a run is `handleMessage` of its frame on SOME engine state (the one the frames before it
left): the session itself carries nothing from one frame to the next -/
theorem runReads_handled (env : Env Q R σ) (cfg : SessionCfg) (peer : Option Cert) (rs : List Recv) (s : σ)
    (d : Bytes) (o : Outcome Q R) (h : Event.handled d o ∈ (runReads env cfg peer s rs).1) :
    ∃ s', o = (handleMessage env cfg peer s' d).1 := by
  induction rs generalizing s with
  | nil => simp [runReads] at h
  | cons r rs ih =>
    cases r with
    | closed p => simp [runReads] at h
    | short p =>
      simp only [runReads, List.mem_cons] at h
      rcases h with h | h
      · cases h
      · exact ih s h
    | ok d' =>
      simp only [runReads, List.mem_cons] at h
      rcases h with h | h
      · simp only [Event.handled.injEq] at h
        exact ⟨s, by rw [h.1, h.2]⟩
      · exact ih _ h

/-- **Over a whole connection** - any bytes, any chunking, any number of requests of any versions in any order: every
error response the session sends to a frame it could decode carries the version of that very request.  (What the
seeded change `C16-session-error-version-first-request` broke: it answered in the version of the connection's FIRST
request.) -/
theorem connection_errors_in_request_version (env : Env Q R σ) (cfg : SessionCfg) (peer : Option Cert) (s : σ)
    (c : Conn) (cert : Cert) (hcert : certStage cfg.auth.tlsClientAuth peer = some cert)
    (d : Bytes) (o : Outcome Q R) (hev : Event.handled d o ∈ (run env cfg peer s c).1)
    (req : Q) (hparse : env.parse d = some req) (hdr : Ver) (rsn : Nat) (hs : o.sent = some (.error hdr rsn)) :
    hdr = env.version req := by
  rw [run_eq_runReads] at hev
  obtain ⟨s', rfl⟩ := runReads_handled env cfg peer _ s d o hev
  exact session_error_in_request_version env cfg peer s' d req cert hcert hparse hdr rsn hs

/-! ### non-vacuity: a connection with two requests of different versions, the second rejected by the engine -/

def demoEnv : Env Nat Unit Unit where
  parse := fun bs => match bs with
    | [_, _, _, _, _, _, _, _, v] => some v.toNat
    | _ => none
  version := fun q => (1, q)
  engine := fun s q _ => if q = 4 then (.kmipError 4, s) else (.ok () none (1, q), s)
  encLen := fun _ _ => some 100

def demoCfg : SessionCfg :=
  { auth := { tlsClientAuth := true, plugins := [], slugs := ⟨fun _ _ => .unreachable, fun _ _ => .unreachable⟩ } }
def demoCert : Cert := ⟨some [.clientAuth], ["alice"]⟩

example :
    ((run demoEnv demoCfg (some demoCert) () (ofChunks [[0x42, 0, 0x78, 1, 0, 0, 0, 1, 2], [0x42, 0, 0x78, 1, 0, 0, 0, 1, 4]])).1.map
      (fun e => match e with
        | .handled _ o => o.sent
        | .badFrame _ => none)) =
    [some (.normal ()), some (.error (1, 4) 4)] := by decide +kernel

end Kmip.C16Session
