/-
C02 / C16 (and the encoder half of C12) over the RESPONSE-ENCODING model M15 (`KmipModel/Encode.lean`): the bytes
the server answers are a function of what the engine model returns, and

  * `encData_valid`, `response_valid`, `server_response_wellformed`: under the explicit, executable range
    predicate (`dataInRange` / `responseInRange`: 32-bit Integers and Enumerations, 64-bit Date-Times, a message
    shorter than 2^32 bytes) everything `responseBytes` emits is well-formed TTLV (`TTLV.WF`, stated from the
    specification text) and follows the response envelope - for every request, engine state, identity;
  * `response_envelope_always`: the envelope needs no range hypothesis at all;
  * `processOperation_data_fits`: the engine model never pairs an operation with a result of another shape;
  * `encData_no_later_field` (C16): no version-gated element is sent under a version that excludes it;
  * `responseLen_*`: the length the session compares with the maximum response size is the length of these bytes.

Tie to /repo: `harness/lib/encode_check.py` - byte equality of whole responses of the real engine
(`ResponseMessage.write` as the session calls it) with `responseBytes` of the abstraction of the same results,
every operation x version x outcome; `responseInRange` evaluated on every one of them.
-/
import KmipModel.Lemmas.Encode
import KmipModel.Lemmas.EncodeRange
namespace Kmip.C02Encode
open Kmip Kmip.TTLV Kmip.Encode Kmip.Decode
open Kmip.EngineResponse (bytesOf verPair)

/-! ### well-formedness -/

/-- **`encData_valid`**: the payload contents of operation `op` answered with `d`: under the range predicate on the
data, with encodable oracle subtrees, and a total size below 2^32 bytes, every item is `Item.Valid`
(hence encodes to well-formed TTLV: `C02.encodeList_wellformed`). -/
theorem encData_valid (ver op : Nat) (extra : List TItem) (d : Data) (ks : List TItem)
    (h : encData ver op extra d = some ks) (hr : dataInRange d = true) (hx : ∀ x ∈ extra, x.Valid)
    (hl : (encodeList ks).length < 256 ^ 4) : validList ks := by
  refine validList_of_local ks (local_encData ver op extra d ks hr ?_ h) hl
  rw [localOkL_all, List.all_eq_true]
  exact fun x hx' => local_of_valid x (hx x hx')

/-- the range predicate is satisfiable and has content: a Cryptographic Length of 2^31 is outside it -/
example : dataInRange (.attrs "1" [⟨"Cryptographic Length", none, .int 256⟩]) = true := by decide
example : dataInRange (.attrs "1" [⟨"Cryptographic Length", none, .int 2147483648⟩]) = false := by decide

/-- **Every answer whose fields are in range is a valid item tree.** -/
theorem response_valid (ver : Nat) (now : Int) (extras : List (List TItem)) (res : ReqResult) (i : TItem)
    (h : responseItem ver now extras res = some i) (hr : responseInRange ver now extras res = true) : i.Valid := by
  simp only [responseInRange, Bool.and_eq_true] at hr
  refine valid_of_local i (local_responseItem ver now extras res i hr.1 h) ?_
  have := hr.2
  simp only [responseBytes, h, Option.map_some, decide_eq_true_eq] at this
  have h4 : (256 : Nat) ^ 4 = 4294967296 := by decide
  omega

theorem itemOf_payloadOk (ver : Nat) (extra : List TItem) (r : ItemResult) (ir : Envelope.ItemResult)
    (h : Encode.itemOf ver extra r = some ir) : C02.payloadOk ir := by
  simp only [Encode.itemOf] at h
  split at h
  · cases he : encData ver r.op extra _ with
    | none => rw [he] at h; cases h
    | some ks =>
      rw [he] at h
      simp only [Option.map_some, Option.some.injEq] at h; subst h
      exact C02Engine.itemOf_payloadOk _ r
  · simp only [Option.some.injEq] at h; subst h
    exact C02Engine.itemOf_payloadOk _ r

theorem itemsOf_payloadOk (ver : Nat) : ∀ (rs : List ItemResult) (extras : List (List TItem))
    (items : List Envelope.ItemResult), itemsOf ver extras rs = some items → ∀ ir ∈ items, C02.payloadOk ir
  | [], _, items, h, ir, hir => by simp only [itemsOf, Option.some.injEq] at h; subst h; cases hir
  | r :: rs, extras, items, h, ir, hir => by
    simp only [itemsOf] at h
    split at h
    · rename_i a as h1 h2
      simp only [Option.some.injEq] at h; subst h
      rcases List.mem_cons.1 hir with rfl | hir
      · exact itemOf_payloadOk ver _ r _ h1
      · exact itemsOf_payloadOk ver rs _ as h2 ir hir
    · cases h

/-- **The envelope holds for every answer the model can write** - no hypothesis on the values: the request's
protocol version echoed, a time stamp, a batch count equal to the number of items, a result status in every item,
reason and message exactly when the status is not Success. -/
theorem response_envelope_always (ver : Nat) (now : Int) (extras : List (List TItem)) (res : ReqResult) (i : TItem)
    (h : responseItem ver now extras res = some i) : Envelope.faults (some (verPair ver)) i = [] := by
  cases res with
  | results rs =>
    simp only [responseItem] at h
    cases hi : itemsOf ver extras rs with
    | none => rw [hi] at h; cases h
    | some items =>
      rw [hi] at h
      simp only [Option.map_some, Option.some.injEq] at h; subst h
      exact C02.response_envelope _ _ _ (itemsOf_payloadOk ver rs extras items hi)
  | rejected reason msg =>
    simp only [responseItem, Option.some.injEq] at h; subst h
    exact C02.error_response_envelope _ _ _ _

/-- **`server_response_wellformed`**: for every context, engine state, identity and request: if the answer of the
engine model has its fields in range (`responseInRange`, evaluated by the driver on every compared response), the
bytes the server emits are well-formed TTLV and follow the response envelope.

Hypotheses left: (1) `responseInRange` - the protocol version, the clock and the number of items fit their Integer /
Date-Time fields, every operation / reason / enumeration value fits 32 bits, every Integer attribute value, index and
Cryptographic Length fits 32 bits signed, dates 64 bits, the oracle subtrees are encodable, and the message is shorter
than 2^32 bytes.  The part of it that speaks about the DATA of a successful item is derived from the engine model
(`item_data_in_range`): it holds for every operation in every engine state whose STORE is in range
(`StoreInRange`: the stored enumeration values, lengths, masks, states, dates fit; at most 2^31 instances of a
multi-valued attribute) - except for the attribute a KMIP 1.x ModifyAttribute echoes.
`Props/ServerWF.lean` discharges all of it for the composed server: the range of the stored values is an invariant
of serving requests in range (`processRequest_store_in_range`), every request decoded from bytes is in range
(`decode_in_range`), the echoed index is the request's, and `responseInRange` follows for every message shorter than
2^32 bytes (`request_response_in_range`, `served_bytes_wellformed`).  The harness still evaluates `inRange` on every
response of every correspondence run. -/
theorem server_response_wellformed (c : Ctx) (e : Engine) (id : Identity) (req : Request)
    (extras : List (List TItem)) (bs : Bytes)
    (hb : responseBytes req.version c.now extras (processRequest c e id req).2 = some bs)
    (hr : responseInRange req.version c.now extras (processRequest c e id req).2 = true) :
    WF bs ∧ ∃ i, bs = encode i ∧ i.Valid ∧ Envelope.faults (some (verPair req.version)) i = [] := by
  simp only [responseBytes] at hb
  cases hi : responseItem req.version c.now extras (processRequest c e id req).2 with
  | none => rw [hi] at hb; cases hb
  | some i =>
    rw [hi] at hb
    simp only [Option.map_some, Option.some.injEq] at hb; subst hb
    have hv := response_valid _ _ _ _ i hi hr
    exact ⟨C02.encode_wellformed i hv, i, rfl, hv, response_envelope_always _ _ _ _ i hi⟩

/-! ### what follows from the engine model for the range hypothesis -/

/-- results that carry only strings / byte strings are in range whatever they contain (their lengths are bounded
by the length of the message): identifiers, key pairs, Locate answers, attribute names, cryptographic outputs -/
theorem strings_in_range (d : Data)
    (h : (∃ u, d = .uid u) ∨ (∃ a b, d = .keyPair a b) ∨ (∃ us, d = .uids us) ∨ (∃ u ns, d = .names u ns) ∨
         (∃ u c, d = .crypto u c)) : dataInRange d = true := by
  rcases h with ⟨u, rfl⟩ | ⟨a, b, rfl⟩ | ⟨us, rfl⟩ | ⟨u, ns, rfl⟩ | ⟨u, c, rfl⟩ <;> rfl

/-- what Query answers is in range in every engine state -/
theorem query_in_range (e : Engine) (fs : List Nat) (eff : Effect) (d : Data) (h : opQuery e fs = .ok (eff, d)) :
    dataInRange d = true := by
  unfold opQuery at h
  inv h
  obtain ⟨_, _, rfl⟩ := h
  simp only [dataInRange]
  split <;> (repeat' split) <;> decide

/-- what DiscoverVersions answers is in range when the server's version list is -/
theorem discover_in_range (c : Ctx) (e : Engine) (vs : List Nat) (eff : Effect) (d : Data)
    (hs : ∀ v ∈ c.supportedVersions, v < 21474836480) (h : opDiscoverVersions c e vs = .ok (eff, d)) :
    dataInRange d = true := by
  unfold opDiscoverVersions at h
  split at h <;> inv h <;> obtain ⟨_, rfl⟩ := h <;> simp only [dataInRange, List.all_eq_true, decide_eq_true_eq]
  · exact hs
  · intro v hv; exact hs v (List.contains_iff_mem.1 (List.mem_filter.1 hv).2)

/-- the real server's list -/
example : ∀ v ∈ Gen.supportedVersions, v < 21474836480 := by decide

/-- **The data of every successful item is in range when the store is** (and the server's version list): Get,
GetAttributes, GetAttributeList, the attribute DeleteAttribute echoes, Query, DiscoverVersions, every identifier-only
answer, every cryptographic result; ModifyAttribute from KMIP 2.0 on. -/
theorem item_data_in_range (c : Ctx) (e : Engine) (it : Kmip.Item) (eff : Effect) (d : Data)
    (hs : StoreInRange e.store) (hv : ∀ v ∈ c.supportedVersions, v < 21474836480)
    (hm : ∀ u a cu nw, it.payload = .modifyAttribute u a cu nw → 20 ≤ e.version)
    (h : processOperation c e it = .ok (eff, d)) : dataInRange d = true :=
  processOperation_in_range hs hv hm h

/-- `StoreInRange` is satisfiable beyond the empty store: a store holding one AES key -/
example : StoreInRange ⟨[{ (newObj OT.symmetricKey "00") with uid := 1, alg := some 3, len := some 128, format := some 1 }], 2⟩ := by
  intro o ho
  simp only [List.mem_singleton] at ho
  subst ho
  constructor <;> decide

/-! ### the shapes fit -/

/-- **`processOperation_data_fits`**: whatever a handler of the engine model returns has the shape of its operation
(given that the backend oracle answers a verification with a verdict and the other operations with a token). -/
theorem processOperation_data_fits (c : Ctx) (e : Engine) (it : Kmip.Item) (eff : Effect) (d : Data)
    (hk : CryptoKindOk it) (h : processOperation c e it = .ok (eff, d)) : shapeFits it.payload.op d = true :=
  Encode.processOperation_data_fits hk h

/-- a result of another operation's shape has no encoding … -/
example : (encData 12 Op.activate [] (.keyPair "1" "2")).isNone = true := by decide
/-- … and, shapes fitting, `write` still raises exactly where /repo's `write` raises: a KMIP 2.0 GetAttributes
answer without attributes (get_attributes.py: "missing the attributes list"), SetAttribute below 2.0 -/
example : (encData 20 Op.getAttributes [] (.attrs "1" [])).isNone = true := by decide
example : (encData 14 Op.getAttributes [] (.attrs "1" [])).map (List.map tagOfItem) = some [T.uniqueIdentifier] := by decide
example : (encData 14 Op.setAttribute [] (.uid "1")).isNone = true := by decide

/-- the Object Type a Create response carries is the request's: Create succeeds for Symmetric Key only -/
theorem create_object_type (c : Ctx) (e : Engine) (ot : Nat) (t : Option Template) (cr : Crypto) (r : Effect × Data)
    (h : opCreate c e ot t cr = .ok r) : ot = OT.symmetricKey := opCreate_symmetric h

/-! ### C16: nothing is sent under a version that excludes it -/

/-- **`encData_no_later_field`**: for every gated element (`gatedTags`: the 2.0 `Attributes` container and Attribute
Reference below 2.0, the Authenticated Encryption Tag and Sensitive below 1.4, Located Items below 1.3; Template
Attribute and Operation Policy Name from 2.0 on) - it does not occur ANYWHERE in the payload of a response written
under a version outside its range, provided the oracle subtrees do not bring it in (an Authenticated Encryption Tag
handed to Encrypt below 1.4 is allowed: the model, like the code, does not send it). -/
theorem encData_no_later_field (ver op : Nat) (extra : List TItem) (d : Data) (ks : List TItem)
    (hx : ExtraClean ver op extra) (h : encData ver op extra d = some ks) : gatingFaultsL ver ks = [] :=
  gating_encData ver op extra d ks hx h

/-- the predicate has content: each gated element in a message of a version that excludes it is reported -/
example : gatingFaults 14 (.struct T.attributes_ []) = [T.attributes_] := by decide
example : gatingFaults 20 (.struct T.attributes_ [.prim T.sensitive_ (.boolean true)]) = [] := by decide
example : gatingFaults 13 (.struct T.attribute_ [.prim T.sensitive_ (.boolean true)]) = [T.sensitive_] := by decide
example : gatingFaults 20 (.prim T.operationPolicyName (.textString [])) = [T.operationPolicyName] := by decide
example : gatingFaults 12 (.prim T.locatedItems (.integer 1)) = [T.locatedItems] := by decide

/-- the Authenticated Encryption Tag the backend returned is sent from 1.4 on and dropped below -/
example : (encData 13 Op.encrypt [byt T.authenticatedEncryptionTag [1]] (.crypto "1" (.ok "00"))).map (List.map tagOfItem) =
    some [T.uniqueIdentifier, T.data_] := by decide
example : (encData 14 Op.encrypt [byt T.authenticatedEncryptionTag [1]] (.crypto "1" (.ok "00"))).map (List.map tagOfItem) =
    some [T.uniqueIdentifier, T.data_, T.authenticatedEncryptionTag] := by decide

/-- the two forms of a GetAttributes answer: `Attribute` structures below 2.0, one `Attributes` structure from 2.0 on -/
theorem getAttributes_form (ver : Nat) (extra : List TItem) (u : String) (as : List TAttr) (ks : List TItem)
    (h : encData ver Op.getAttributes extra (.attrs u as) = some ks) :
    (ver < 20 → ∃ xs, ks = uidItem u :: xs ∧ ∀ x ∈ xs, tagOfItem x = T.attribute_) ∧
    (20 ≤ ver → ∃ xs, ks = [uidItem u, .struct T.attributes_ xs]) := by
  simp only [encData] at h
  rw [if_pos (by decide)] at h
  constructor
  · intro hv
    rw [if_pos hv] at h
    cases hm : mapO encAttr1x as with
    | none => rw [hm] at h; cases h
    | some xs =>
      rw [hm] at h
      simp only [Option.map_some, Option.some.injEq] at h
      refine ⟨xs, h.symm, fun x hx => ?_⟩
      obtain ⟨a, _, ha⟩ := mapO_some _ _ _ hm x hx
      simp only [encAttr1x] at ha
      split at ha
      · simp only [Option.some.injEq] at ha; subst ha; rfl
      · cases ha
  · intro hv
    rw [if_neg (by omega)] at h
    split at h
    · cases h
    · cases hm : mapO encAttr20 as with
      | none => rw [hm] at h; cases h
      | some xs =>
        rw [hm] at h
        simp only [Option.map_some, Option.some.injEq] at h
        exact ⟨xs, h.symm⟩

/-! ### the length the session compares with the maximum response size -/

mutual
theorem validB_complete : ∀ (i : TItem), i.Valid → i.validB = true
  | .prim t v, h => by
    simp only [Item.Valid] at h
    simp only [Item.validB, Bool.and_eq_true, decide_eq_true_eq]; exact h
  | .struct t ks, h => by
    simp only [Item.Valid] at h
    simp only [Item.validB, Bool.and_eq_true, decide_eq_true_eq]
    exact ⟨⟨h.1, validListB_complete ks h.2.1⟩, h.2.2⟩
theorem validListB_complete : ∀ (ks : List TItem), validList ks → validListB ks = true
  | [], _ => rfl
  | i :: is, h => by
    simp only [validList] at h
    simp only [validListB, Bool.and_eq_true]
    exact ⟨validB_complete i h.1, validListB_complete is h.2⟩
end

/-- an answer in range can be written, and `responseLen` is the length of `responseBytes` -/
theorem responseLen_in_range (ver : Nat) (now : Int) (extras : List (List TItem)) (res : ReqResult) (bs : Bytes)
    (hb : responseBytes ver now extras res = some bs) (hr : responseInRange ver now extras res = true) :
    responseLen ver now extras res = some bs.length := by
  simp only [responseBytes] at hb
  cases hi : responseItem ver now extras res with
  | none => rw [hi] at hb; cases hb
  | some i =>
    rw [hi] at hb
    simp only [Option.map_some, Option.some.injEq] at hb; subst hb
    simp only [responseLen, hi, validB_complete i (response_valid _ _ _ _ i hi hr), if_true]

/-- whenever a length is reported it is the length of well-formed bytes -/
theorem responseLen_sound (ver : Nat) (now : Int) (extras : List (List TItem)) (res : ReqResult) (n : Nat)
    (h : responseLen ver now extras res = some n) :
    ∃ bs, responseBytes ver now extras res = some bs ∧ bs.length = n ∧ WF bs := by
  simp only [responseLen] at h
  split at h
  · rename_i i hi
    split at h
    · rename_i hv
      simp only [Option.some.injEq] at h
      exact ⟨encode i, by simp only [responseBytes, hi, Option.map_some], h,
        C02.encode_wellformed i (validB_sound i hv)⟩
    · cases h
  · cases h

/-! ### non-vacuity: the bytes of a concrete Create response and of a failed item -/

/-- Create under KMIP 1.2 at time 1000, identifier "1": the 168 bytes the real server writes
(Response Message / Header (1.2, time stamp, batch count 1) / Batch Item (Operation Create, Success, Payload
(Object Type Symmetric Key, Unique Identifier "1"))) -/
example : responseBytes 12 1000 [] (.results [⟨Op.create, none, .ok (.uid "1")⟩]) = some
    [0x42,0x00,0x7b,0x01,0x00,0x00,0x00,0xa0, 0x42,0x00,0x7a,0x01,0x00,0x00,0x00,0x48,
     0x42,0x00,0x69,0x01,0x00,0x00,0x00,0x20, 0x42,0x00,0x6a,0x02,0x00,0x00,0x00,0x04,0x00,0x00,0x00,0x01,0,0,0,0,
     0x42,0x00,0x6b,0x02,0x00,0x00,0x00,0x04,0x00,0x00,0x00,0x02,0,0,0,0,
     0x42,0x00,0x92,0x09,0x00,0x00,0x00,0x08,0,0,0,0,0,0,0x03,0xe8,
     0x42,0x00,0x0d,0x02,0x00,0x00,0x00,0x04,0x00,0x00,0x00,0x01,0,0,0,0,
     0x42,0x00,0x0f,0x01,0x00,0x00,0x00,0x48,
     0x42,0x00,0x5c,0x05,0x00,0x00,0x00,0x04,0x00,0x00,0x00,0x01,0,0,0,0,
     0x42,0x00,0x7f,0x05,0x00,0x00,0x00,0x04,0x00,0x00,0x00,0x00,0,0,0,0,
     0x42,0x00,0x7c,0x01,0x00,0x00,0x00,0x20,
     0x42,0x00,0x57,0x05,0x00,0x00,0x00,0x04,0x00,0x00,0x00,0x02,0,0,0,0,
     0x42,0x00,0x94,0x07,0x00,0x00,0x00,0x01,0x31,0,0,0,0,0,0,0] := by decide +kernel

/-- a failed item (Get of an unknown object, batch item ID "b0"): status Operation Failed, reason Item Not Found,
the message; 200 bytes, in range, no envelope fault -/
def failedGet : ReqResult := .results [⟨Op.get, some "b0", .error (.kmip Rsn.itemNotFound "Could not locate object: 5")⟩]
example : (responseBytes 12 1000 [] failedGet).map List.length = some 200 := by decide +kernel
example : responseInRange 12 1000 [] failedGet = true := by decide +kernel
example : responseLen 12 1000 [] failedGet = some 200 := by decide +kernel
example : (responseItem 12 1000 [] failedGet).map (Envelope.faults (some (1, 2))) = some [] := by decide +kernel
/-- the hypotheses of `server_response_wellformed` are satisfiable on the engine model itself: Query on a fresh engine -/
def demoCtx : Ctx := ⟨[], [], 1000, [10, 11, 12, 13, 14, 20]⟩
def demoReq : Request := ⟨12, none, none, none, none, [⟨.query [1, 3], none, .internal⟩]⟩
example : responseInRange demoReq.version demoCtx.now []
    (processRequest demoCtx Engine.init ⟨some "alice", none⟩ demoReq).2 = true := by decide +kernel
example : (responseBytes demoReq.version demoCtx.now []
    (processRequest demoCtx Engine.init ⟨some "alice", none⟩ demoReq).2).map List.length = some 472 := by decide +kernel

end Kmip.C02Encode
