/-
C08 — Batch results are complete and failed items leave no trace.

The accumulator loop of `_process_batch` is refined to the declarative fold
`batchSpec` (`processBatch_eq`); everything below is stated on the model's
`processRequest` / `batchSpec`.
-/
import KmipModel.Lemmas.Run
namespace Kmip.C08
open Kmip

def echo (it : Item) : Nat × Option String := (it.payload.op, it.batchId)
def echoR (r : ItemResult) : Nat × Option String := (r.op, r.batchId)
def failed (r : ItemResult) : Bool := match r.result with | .ok _ => false | .error _ => true

/-- One result per processed item, in request order, each echoing operation and batch item ID:
the results correspond to a prefix of the request items. -/
theorem results_prefix (c : Ctx) (stop : Bool) (e : Engine) (items : List Item) :
    (batchSpec c stop e items).2.map echoR <+: items.map echo := by
  induction items generalizing e with
  | nil => simp [batchSpec]
  | cons it rest ih =>
    simp only [batchSpec]
    cases h : processOperation c e it with
    | ok r =>
      obtain ⟨eff, d⟩ := r
      simp only [List.map_cons]
      rw [List.cons_prefix_cons]
      exact ⟨rfl, ih _⟩
    | error err =>
      simp only
      cases stop
      · simp only [Bool.false_eq_true, if_false, List.map_cons]
        rw [List.cons_prefix_cons]
        exact ⟨rfl, ih _⟩
      · simp [echo, echoR, List.prefix_iff_eq_append]

/-- With the Continue option every item is processed and reported. -/
theorem continue_runs_all (c : Ctx) (e : Engine) (items : List Item) :
    (batchSpec c false e items).2.length = items.length := by
  induction items generalizing e with
  | nil => simp [batchSpec]
  | cons it rest ih =>
    simp only [batchSpec]
    cases h : processOperation c e it with
    | ok r => obtain ⟨eff, d⟩ := r; simp [ih]
    | error err => simp [ih]

/-- With Stop (the default) processing stops at the first failed item: every
result except possibly the last one is a success. -/
theorem stop_at_first_failure (c : Ctx) (e : Engine) (items : List Item) :
    ∀ r ∈ (batchSpec c true e items).2.dropLast, failed r = false := by
  induction items generalizing e with
  | nil => simp [batchSpec]
  | cons it rest ih =>
    simp only [batchSpec]
    cases h : processOperation c e it with
    | ok r =>
      obtain ⟨eff, d⟩ := r
      simp only
      intro r hr
      cases hrest : (batchSpec c true (applyEffect e eff) rest).2 with
      | nil => simp [hrest] at hr
      | cons x xs =>
        rw [hrest, List.dropLast_cons_cons] at hr
        simp only [List.mem_cons] at hr
        rcases hr with rfl | hr
        · rfl
        · exact ih _ r (by rw [hrest]; exact hr)
    | error err => simp

/-- …and if the last result is a failure nothing after it was executed: the engine
returned is the one the failed item started from. -/
theorem failed_item_no_trace (c : Ctx) (stop : Bool) (e : Engine) (it : Item) (rest : List Item) (err : Err)
    (h : processOperation c e it = .error err) :
    batchSpec c stop e (it :: rest) =
      if stop then (e, [⟨it.payload.op, it.batchId, .error err⟩])
      else ((batchSpec c stop e rest).1, ⟨it.payload.op, it.batchId, .error err⟩ :: (batchSpec c stop e rest).2) := by
  simp [batchSpec, h]

/-- A batch in which every item fails leaves the stored objects exactly as they were
(and the ID placeholder too). -/
theorem all_failed_no_change (c : Ctx) (stop : Bool) (e : Engine) (items : List Item)
    (h : ∀ r ∈ (batchSpec c stop e items).2, failed r = true) : (batchSpec c stop e items).1 = e := by
  induction items generalizing e with
  | nil => simp [batchSpec]
  | cons it rest ih =>
    simp only [batchSpec] at h ⊢
    cases hp : processOperation c e it with
    | ok r =>
      obtain ⟨eff, d⟩ := r
      rw [hp] at h
      have := h ⟨it.payload.op, it.batchId, .ok d⟩ List.mem_cons_self
      simp [failed] at this
    | error err =>
      rw [hp] at h
      cases stop
      · simp only [Bool.false_eq_true, if_false] at h ⊢
        exact ih e (fun r hr => h r (List.mem_cons_of_mem _ hr))
      · simp

/-- The ID placeholder links items of one batch: after a successful creating item the
next item sees the new object's identifier as placeholder. -/
theorem placeholder_links_items (e : Engine) (o : Obj) :
    (applyEffect e (.insert [o])).placeholder = some (toString e.store.nextUid) ∧
    (applyEffect e (.insert [o])).store.find e.store.nextUid = some { o with uid := e.store.nextUid } ∨
    ∃ x ∈ e.store.objs, x.uid = e.store.nextUid := by
  by_cases hex : ∃ x ∈ e.store.objs, x.uid = e.store.nextUid
  · exact Or.inr hex
  · left
    refine ⟨by simp [applyEffect], ?_⟩
    simp only [applyEffect, Store.insertAll, Store.insert, Store.find]
    rw [List.find?_append]
    have : e.store.objs.find? (fun x => x.uid == e.store.nextUid) = none := by
      rw [List.find?_eq_none]
      intro x hx hxe
      exact hex ⟨x, hx, by simpa using hxe⟩
    simp [this]

/-- **No operation takes effect without the client being told** (after the repair of
F-C08-a): a request that is rejected as a whole — unsupported version, stale or future
time stamp, asynchronous, Undo, or a missing batch item ID — has executed nothing. -/
theorem rejected_request_no_effect (c : Ctx) (e : Engine) (id : Identity) (r : Request) (rsn : Nat) (m : String)
    (h : (processRequest c e id r).2 = .rejected rsn m) : (processRequest c e id r).1.store = e.store := by
  rcases processRequest_cases c e id r with ⟨hs, _⟩ | hb
  · exact hs
  · rw [hb] at h; cases h

/-- …and otherwise the response reports exactly the items the batch loop executed:
the final store is the store of the fold that produced the reported results. -/
theorem executed_items_reported (c : Ctx) (e : Engine) (id : Identity) (r : Request) (rs : List ItemResult)
    (h : (processRequest c e id r).2 = .results rs) :
    processRequest c e id r =
      ((batchSpec c r.stop ⟨e.store, none, r.version, id⟩ r.items).1,
       .results (batchSpec c r.stop ⟨e.store, none, r.version, id⟩ r.items).2) := by
  rcases processRequest_cases c e id r with ⟨_, rsn, m, hr⟩ | hb
  · rw [hr] at h; cases h
  · exact hb

/-! Non-vacuity -/
def demoCtx : Ctx := { rules := [], policies := [], now := 5, supportedVersions := [12] }
def badItem : Item := ⟨.activate (some "7"), some "a", .internal⟩
example : ∃ err, processOperation demoCtx Engine.init badItem = .error err := ⟨_, rfl⟩
example : (processRequest demoCtx Engine.init ⟨none, none⟩
    { version := 12, timeStamp := none, async := none, batchOption := none, maxResponseSize := none,
      items := [badItem, { badItem with batchId := none }] }).2 = .rejected Rsn.invalidMessage "Batch item ID is undefined." := by
  rfl

end Kmip.C08
